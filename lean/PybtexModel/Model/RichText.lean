/-
Model of `pybtex/richtext.py` (+ `textutils.is_terminated`, the backend protocol of
`pybtex/backends/__init__.py`).

Python objects ↔ `RT`:

* `String(value)` (and a plain Python `str` handed to a constructor, which `ensure_text`
  wraps into a `String`)                      ↔ `RT.str value`
* `Symbol(name)`                              ↔ `RT.sym name`
* `Text(*parts)`, `Tag(name, *parts)`, `HRef(url, *parts, external=e)`, `Protected(*parts)`
                                              ↔ `RT.node kind parts`, `parts = self.parts`

Every multipart object that exists at run time was produced by `BaseMultipartText.__init__`,
modelled by `mk` (filter the empty parts, unpack `Text` children, `_merge_similar`); a raw
tree (the arguments of nested constructor calls) is turned into the object it denotes by
`build`.  All methods are modelled function by function; the places where Python raises are
`Except`/`Option` results (`IndexError` for an integer index out of range, `KeyError` for a
symbol the backend does not know).

The model follows the code **with the proposed fixes C08-1 … C08-5 applied**
(`/verif/proposed_fixes/C08-*.diff`): `t[i:j]` with `j < i` is empty, `Symbol.__eq__` is total,
`HRef.external` is part of the type info (kept by slicing / case change / append, never merged
away), an integer index out of range raises `IndexError`, `split` never yields an empty part
when empty parts were not asked for.

Not modelled: the deprecated tag alias `emph` (renamed to `em` with a warning), tag names / URLs
given as `Text` objects, slices with a step, compiled-regex separators for `split`
(and therefore `abbreviate`), the deprecated pre-0.19 methods.
-/
import PybtexModel.Model.Basic

namespace Pybtex

/-- Class and constructor parameters of a multipart text (`_typeinfo()`: `type(self), self.info`). -/
inductive Kind where
  | text
  | tag (name : Str)
  | href (url : Str) (external : Bool)
  | prot
deriving DecidableEq, Repr, Inhabited

inductive RT where
  | str (s : Str)
  | sym (name : Str)
  | node (k : Kind) (parts : List RT)
deriving Repr, Inhabited

/-- `_typeinfo()`: `(None, ())` for a `Symbol` (the `BaseText` default), `(String, ())`,
`(type(self), self.info)` for multipart texts. -/
inductive TypeInfo where
  | none
  | string
  | multi (k : Kind)
deriving DecidableEq, Repr

namespace RT

/-! ### `__len__`, `__str__`, measures -/

mutual
/-- `len(text)`: `String` – length of the value; `Symbol` – 1; multipart – `self.length`, the sum
over the parts computed by the constructor. -/
def len : RT → Nat
  | .str s => s.length
  | .sym _ => 1
  | .node _ ps => lenL ps
def lenL : List RT → Nat
  | [] => 0
  | p :: ps => len p + lenL ps
end

mutual
/-- `str(text)`; a symbol prints as `<name>`. -/
def toStr : RT → Str
  | .str s => s
  | .sym n => '<' :: n ++ ['>']
  | .node _ ps => toStrL ps
def toStrL : List RT → Str
  | [] => []
  | p :: ps => toStr p ++ toStrL ps
end

mutual
def size : RT → Nat
  | .str _ => 1
  | .sym _ => 1
  | .node _ ps => sizeL ps + 1
def sizeL : List RT → Nat
  | [] => 0
  | p :: ps => size p + sizeL ps
end

mutual
def depth : RT → Nat
  | .str _ => 0
  | .sym _ => 0
  | .node _ ps => depthL ps + 1
def depthL : List RT → Nat
  | [] => 0
  | p :: ps => max (depth p) (depthL ps)
end

/-! ### `BaseMultipartText.__init__` -/

def typeInfo : RT → TypeInfo
  | .str _ => .string
  | .sym _ => .none
  | .node k _ => .multi k

/-- `_unpack()`: a `Text` yields its parts, everything else itself. -/
def unpack : RT → List RT
  | .node .text ps => ps
  | t => [t]

/-- `text.parts` of a multipart text (used when a group of similar texts is merged). -/
def children : RT → List RT
  | .node _ ps => ps
  | _ => []

/-- `String.parts == [str(self)]`, concatenated by `String(*parts)`. -/
def strValue : RT → Str
  | .str s => s
  | _ => []

/-- `nonempty_parts` then `unpacked_parts`: drop the parts with `len == 0`, unpack `Text`s. -/
def prep (ps : List RT) : List RT := (ps.filter fun p => len p != 0).flatMap unpack

/-- key function of the `itertools.groupby` in `_merge_similar`. -/
def similar (p q : RT) : Bool := typeInfo q == typeInfo p

theorem size_pos (t : RT) : 0 < size t := by cases t <;> simp [size]

theorem sizeL_append (a b : List RT) : sizeL (a ++ b) = sizeL a + sizeL b := by
  induction a with
  | nil => simp [sizeL]
  | cons x a ih => simp [sizeL, ih]; omega

theorem sizeL_dropWhile_le (f : RT → Bool) (l : List RT) : sizeL (l.dropWhile f) ≤ sizeL l := by
  induction l with
  | nil => simp [sizeL]
  | cons x l ih => simp only [List.dropWhile]; split <;> simp [sizeL] <;> omega

theorem sizeL_takeWhile_le (f : RT → Bool) (l : List RT) : sizeL (l.takeWhile f) ≤ sizeL l := by
  induction l with
  | nil => simp [sizeL]
  | cons x l ih => simp only [List.takeWhile]; split <;> simp [sizeL] <;> omega

theorem sizeL_unpack_le (t : RT) : sizeL (unpack t) ≤ size t := by
  unfold unpack; split <;> simp [size, sizeL]

theorem sizeL_prep_le (l : List RT) : sizeL (prep l) ≤ sizeL l := by
  unfold prep
  induction l with
  | nil => simp [sizeL]
  | cons x l ih =>
    simp only [List.filter]; split
    · simp only [List.flatMap_cons, sizeL_append, sizeL]; have := sizeL_unpack_le x; omega
    · simp only [sizeL]; omega

theorem sizeL_children_lt (t : RT) : sizeL (children t) < size t := by
  cases t <;> simp [children, size, sizeL]

theorem sizeL_flatMap_children_lt (p : RT) (l : List RT) :
    sizeL ((p :: l).flatMap children) < sizeL (p :: l) := by
  induction l generalizing p with
  | nil => simp [sizeL]; exact sizeL_children_lt p
  | cons x l ih =>
    have := ih x; have := sizeL_children_lt p
    simp only [List.flatMap_cons, sizeL_append, sizeL] at *; omega

/-- `_merge_similar`: `itertools.groupby` on the type info; a group of more than one text whose
class is not `None` is replaced by `cls(*info, *chain(text.parts for text in group))` – for
`String`s the concatenation, for multipart texts a *constructor call* (hence the recursion; it
terminates because the arguments are the children of the group). -/
def mergeSimilar : List RT → List RT
  | [] => []
  | p :: rest =>
    match typeInfo p with
    | .none => p :: rest.takeWhile (similar p) ++ mergeSimilar (rest.dropWhile (similar p))
    | .string =>
      if (rest.takeWhile (similar p)).isEmpty then p :: mergeSimilar (rest.dropWhile (similar p))
      else .str ((p :: rest.takeWhile (similar p)).flatMap strValue)
            :: mergeSimilar (rest.dropWhile (similar p))
    | .multi k =>
      if (rest.takeWhile (similar p)).isEmpty then p :: mergeSimilar (rest.dropWhile (similar p))
      else .node k (mergeSimilar (prep ((p :: rest.takeWhile (similar p)).flatMap children)))
            :: mergeSimilar (rest.dropWhile (similar p))
termination_by l => sizeL l
decreasing_by
  all_goals simp only [sizeL]
  all_goals first
    | (have := sizeL_dropWhile_le (similar p) rest; have := size_pos p; omega)
    | (have h1 := sizeL_prep_le ((p :: rest.takeWhile (similar p)).flatMap children)
       have h2 := sizeL_flatMap_children_lt p (rest.takeWhile (similar p))
       have h3 := sizeL_takeWhile_le (similar p) rest
       simp only [sizeL] at h2; omega)

/-- `self.parts` as computed by `BaseMultipartText.__init__(*ps)`. -/
def mkParts (ps : List RT) : List RT := mergeSimilar (prep ps)

/-- The constructor call `cls(*info, *ps)` for the class / parameters `k`. -/
def mk (k : Kind) (ps : List RT) : RT := .node k (mkParts ps)

mutual
/-- The object denoted by a raw tree of nested constructor calls. -/
def build : RT → RT
  | .str s => .str s
  | .sym n => .sym n
  | .node k ps => mk k (buildL ps)
def buildL : List RT → List RT
  | [] => []
  | p :: ps => build p :: buildL ps
end

/-! ### `__eq__` -/

mutual
/-- `a == b`.  `String.__eq__`: same type and same value.  `Symbol.__eq__` (fixed, C08-2):
`isinstance(other, Symbol)` and same name.  `BaseMultipartText.__eq__`: `other` is a text, same
`_typeinfo()`, `self.parts == other.parts` (list equality: same length, pairwise `==`). -/
def eq : RT → RT → Bool
  | .str a, .str b => a == b
  | .sym a, .sym b => a == b
  | .node k ps, .node k' qs => k == k' && eqL ps qs
  | _, _ => false
def eqL : List RT → List RT → Bool
  | [], [] => true
  | p :: ps, q :: qs => eq p q && eqL ps qs
  | _, _ => false
end

/-! ### `+`, `append`, `join` -/

/-- `self + other` = `Text(self, other)`. -/
def add (a b : RT) : RT := mk .text [a, b]

/-- `append`: multipart – `_create_similar(self.parts + [text])`; `String` / `Symbol` inherit
`BaseText.append` = `self + text`. -/
def append (t x : RT) : RT :=
  match t with
  | .node k ps => mk k (ps ++ [x])
  | _ => add t x

/-- the list `joined` built by `BaseText.join`. -/
def joinedList (sep : RT) : List RT → List RT
  | [] => []
  | [p] => [p]
  | p :: q :: r => p :: sep :: joinedList sep (q :: r)

/-- `sep.join(parts)`: `Text()` for no parts, else `Text(*joined)`. -/
def join (sep : RT) (parts : List RT) : RT := mk .text (joinedList sep parts)

/-! ### `__getitem__`, `_slice_beginning`, `_slice_end` -/

/-- one bound of `slice(i, j).indices(n)` (step 1): `None` gives the default. -/
def sliceIdx (n : Nat) (i : Option Int) (dflt : Nat) : Nat :=
  match i with
  | none => dflt
  | some i => pyNorm n i

/-- `value[i:j]` for a Python string / list, bounds possibly `None`. -/
def strSlice (s : List α) (i j : Option Int) : List α :=
  (s.drop (sliceIdx s.length i 0)).take (sliceIdx s.length j s.length - sliceIdx s.length i 0)

/-- The loop of `_slice_beginning`: `val a` is the part, `cut a m` is `part[:m]`. -/
def begLoop {α : Type} (val : α → RT) (cut : α → Int → RT) : List α → Int → Int → List RT
  | [], _, _ => []
  | a :: as, n, length =>
    if length + (len (val a) : Int) > n then [cut a (n - length)]
    else val a :: begLoop val cut as n (length + len (val a))

/-- The loop of `_slice_end` over the reversed parts: `cut a m` is `part[m:]`. -/
def endLoop {α : Type} (val : α → RT) (cut : α → Int → RT) : List α → Int → Int → List RT
  | [], _, _ => []
  | a :: as, n, length =>
    if length + (len (val a) : Int) > n then [cut a ((len (val a) : Int) - (n - length))]
    else val a :: endLoop val cut as n (length + len (val a))

theorem mem_begLoop {α : Type} {val : α → RT} {cut : α → Int → RT} {l : List α} {n length : Int}
    {x : RT} (h : x ∈ begLoop val cut l n length) : ∃ a ∈ l, x = val a ∨ ∃ m, x = cut a m := by
  induction l generalizing length with
  | nil => simp [begLoop] at h
  | cons a as ih =>
    simp only [begLoop] at h
    split at h
    · simp only [List.mem_singleton] at h; exact ⟨a, by simp, Or.inr ⟨_, h⟩⟩
    · simp only [List.mem_cons] at h
      rcases h with h | h
      · exact ⟨a, by simp, Or.inl h⟩
      · obtain ⟨b, hb, hx⟩ := ih h; exact ⟨b, by simp [hb], hx⟩

theorem mem_endLoop {α : Type} {val : α → RT} {cut : α → Int → RT} {l : List α} {n length : Int}
    {x : RT} (h : x ∈ endLoop val cut l n length) : ∃ a ∈ l, x = val a ∨ ∃ m, x = cut a m := by
  induction l generalizing length with
  | nil => simp [endLoop] at h
  | cons a as ih =>
    simp only [endLoop] at h
    split at h
    · simp only [List.mem_singleton] at h; exact ⟨a, by simp, Or.inr ⟨_, h⟩⟩
    · simp only [List.mem_cons] at h
      rcases h with h | h
      · exact ⟨a, by simp, Or.inl h⟩
      · obtain ⟨b, hb, hx⟩ := ih h; exact ⟨b, by simp [hb], hx⟩

theorem depthL_le_iff (l : List RT) (d : Nat) : depthL l ≤ d ↔ ∀ p ∈ l, depth p ≤ d := by
  induction l with
  | nil => simp [depthL]
  | cons x l ih => simp [depthL, Nat.max_le, ih]

theorem depth_le_of_mem {p : RT} {l : List RT} (h : p ∈ l) : depth p ≤ depthL l :=
  (depthL_le_iff l _).1 (Nat.le_refl _) p h

theorem depthL_append (a b : List RT) : depthL (a ++ b) = max (depthL a) (depthL b) := by
  induction a with
  | nil => simp [depthL]
  | cons x a ih => simp [depthL, ih, Nat.max_assoc]

theorem depthL_prep_le (l : List RT) : depthL (prep l) ≤ depthL l := by
  rw [depthL_le_iff]
  intro p hp
  simp only [prep, List.mem_flatMap, List.mem_filter] at hp
  obtain ⟨q, ⟨hq, _⟩, hpq⟩ := hp
  have hq' := depth_le_of_mem hq
  unfold unpack at hpq
  split at hpq
  · have := depth_le_of_mem hpq; simp only [depth] at hq'; omega
  · simp at hpq; subst hpq; exact hq'

theorem depthL_flatMap_children (l : List RT) (d : Nat) (h : depthL l ≤ d + 1) :
    depthL (l.flatMap children) ≤ d := by
  rw [depthL_le_iff] at *
  intro p hp
  simp only [List.mem_flatMap] at hp
  obtain ⟨q, hq, hpq⟩ := hp
  have := h q hq
  cases q with
  | str s => simp [children] at hpq
  | sym n => simp [children] at hpq
  | node k ps =>
    simp only [children] at hpq; have := depth_le_of_mem hpq; simp only [depth] at *; omega

theorem depthL_split (f : RT → Bool) (l : List RT) :
    depthL l = max (depthL (l.takeWhile f)) (depthL (l.dropWhile f)) := by
  rw [← depthL_append, List.takeWhile_append_dropWhile]

theorem depthL_mergeSimilar_le (l : List RT) : depthL (mergeSimilar l) ≤ depthL l := by
  fun_induction mergeSimilar l with
  | case1 => simp [depthL]
  | case2 p rest _ ih =>
    have := depthL_split (similar p) rest
    simp only [depthL, depthL_append, List.cons_append] at *; omega
  | case3 p rest _ _ ih =>
    have := depthL_split (similar p) rest
    simp only [depthL] at *; omega
  | case4 p rest _ _ ih =>
    have := depthL_split (similar p) rest
    simp only [depthL, depth] at *; omega
  | case5 p rest k _ _ ih =>
    have := depthL_split (similar p) rest
    simp only [depthL] at *; omega
  | case6 p rest k hk _ ih2 ih1 =>
    have h0 := depthL_split (similar p) rest
    have h1 := depthL_prep_le ((p :: rest.takeWhile (similar p)).flatMap children)
    cases p with
    | str s => simp [typeInfo] at hk
    | sym n => simp [typeInfo] at hk
    | node k' ps =>
      have h2 := depthL_flatMap_children (node k' ps :: rest.takeWhile (similar (node k' ps)))
        (max (depthL ps) (depthL (rest.takeWhile (similar (node k' ps))) - 1)) (by
          simp only [depthL, depth]; omega)
      simp only [depthL, depth] at *; omega

theorem depthL_mkParts_le (l : List RT) : depthL (mkParts l) ≤ depthL l :=
  Nat.le_trans (depthL_mergeSimilar_le _) (depthL_prep_le l)


/-- `'a'[i:j]` is non-empty (what `Symbol.__getitem__` looks at). -/
def symSliceNonempty (i j : Option Int) : Bool := !(strSlice [()] i j).isEmpty

/-
`t[i:j]`, `_slice_beginning`, `_slice_end`.  `__getitem__` calls `_slice_beginning` on the object
*returned* by `_slice_end`, so the recursion is not structural; it is well-founded on the nesting
depth, and the functions carry the bound "the result is no deeper than the argument" that the
termination proof needs.  The plain functions (`getSlice`, `sliceBeginningParts`, `sliceEndParts`)
and their defining equations follow below.
-/
mutual
def getSliceB (t : RT) (i j : Option Int) : {r : RT // depth r ≤ depth t} :=
  match t with
  | .str s => ⟨.str (strSlice s i j), by simp [depth]⟩
  | .sym n => ⟨if symSliceNonempty i j then .sym n else .str [], by split <;> simp [depth]⟩
  | .node k ps =>
    let n := lenL ps
    let start := sliceIdx n i 0
    let stop := sliceIdx n j n
    let stop' := if stop < start then start else stop
    match sliceEndPartsB ps ((n : Int) - start) with
    | ⟨e, he⟩ =>
      match sliceBegPartsB (mkParts e) ((stop' : Int) - start) with
      | ⟨b, hb⟩ => ⟨mk k b, by
          have h1 := depthL_mkParts_le b
          have h2 := depthL_mkParts_le e
          simp only [mk, depth]; omega⟩
termination_by (2 * depth t, 0)
decreasing_by
  all_goals simp_wf
  · simp only [depth]; apply Prod.Lex.left; omega
  · have h2 := depthL_mkParts_le e
    simp only [depth]; apply Prod.Lex.left; omega

def sliceBegPartsB (ps : List RT) (n : Int) : {r : List RT // depthL r ≤ depthL ps} :=
  ⟨begLoop (fun p => p.val) (fun p m => (getSliceB p.val none (some m)).val) ps.attach n 0, by
    rw [depthL_le_iff]
    intro x hx
    obtain ⟨a, _, h | ⟨m, h⟩⟩ := mem_begLoop hx
    · subst h; exact depth_le_of_mem a.2
    · subst h; exact Nat.le_trans (getSliceB a.val none (some m)).2 (depth_le_of_mem a.2)⟩
termination_by (2 * depthL ps + 1, 0)
decreasing_by
  simp_wf; apply Prod.Lex.left; have := depth_le_of_mem p.2; omega

def sliceEndPartsB (ps : List RT) (n : Int) : {r : List RT // depthL r ≤ depthL ps} :=
  ⟨(endLoop (fun p => p.val) (fun p m => (getSliceB p.val (some m) none).val)
      ps.reverse.attach n 0).reverse, by
    rw [depthL_le_iff]
    intro x hx
    rw [List.mem_reverse] at hx
    obtain ⟨a, _, h | ⟨m, h⟩⟩ := mem_endLoop hx
    · subst h; exact depth_le_of_mem (List.mem_reverse.1 a.2)
    · subst h
      exact Nat.le_trans (getSliceB a.val (some m) none).2 (depth_le_of_mem (List.mem_reverse.1 a.2))⟩
termination_by (2 * depthL ps + 1, 0)
decreasing_by
  simp_wf; apply Prod.Lex.left; have := depth_le_of_mem (List.mem_reverse.1 p.2); omega
end

end RT
end Pybtex
