/-
Model of `pybtex/richtext.py` (+ `textutils.is_terminated`, the backend protocol of
`pybtex/backends/__init__.py`).

Python objects ↔ `RT`:

* `String(value)` (and a plain Python `str` handed to a constructor, which `ensure_text`
  wraps into a `String`)                      ↔ `RT.str value`
* `Symbol(name)`                              ↔ `RT.sym name`
* `Text(*parts)`, `Tag(name, *parts)`, `HRef(url, *parts, external=e)`, `Protected(*parts)`
                                              ↔ `RT.node kind parts`, `parts = self.parts`

Every multipart object that exists at run time was produced by `BaseMultipartText.__init__`,
modelled by `mk` (filter the empty parts, unpack `Text` children, `_merge_similar`); a raw
tree (the arguments of nested constructor calls) is turned into the object it denotes by
`build`.  All methods are modelled function by function; the places where Python raises are
`Except`/`Option` results (`IndexError` for an integer index out of range, `KeyError` for a
symbol the backend does not know).

The model follows the code **with the proposed fixes C08-1 … C08-5 applied**
(`/verif/proposed_fixes/C08-*.diff`): `t[i:j]` with `j < i` is empty, `Symbol.__eq__` is total,
`HRef.external` is part of the type info (kept by slicing / case change / append, never merged
away), an integer index out of range raises `IndexError`, `split` never yields an empty part
when empty parts were not asked for.

Not modelled: the deprecated tag alias `emph` (renamed to `em` with a warning), tag names / URLs
given as `Text` objects, slices with a step, the deprecated pre-0.19 methods.
Case mapping and `isalpha` are ASCII here; the interpreter's Unicode tables, `add_period(period)`,
`==` against a value that is not a rich text, `split` at a compiled pattern and `abbreviate()` are in
`Model/RichTextU.lean`.
-/
import PybtexModel.Model.Basic

namespace Pybtex

/-- Class and constructor parameters of a multipart text (`_typeinfo()`: `type(self), self.info`). -/
inductive Kind where
  | text
  | tag (name : Str)
  | href (url : Str) (external : Bool)
  | prot
deriving DecidableEq, Repr, Inhabited

inductive RT where
  | str (s : Str)
  | sym (name : Str)
  | node (k : Kind) (parts : List RT)
deriving Repr, Inhabited

/-- `_typeinfo()`: `(None, ())` for a `Symbol` (the `BaseText` default), `(String, ())`,
`(type(self), self.info)` for multipart texts. -/
inductive TypeInfo where
  | none
  | string
  | multi (k : Kind)
deriving DecidableEq, Repr

namespace RT

/-! ### `__len__`, `__str__`, measures -/

mutual
/-- `len(text)`: `String` – length of the value; `Symbol` – 1; multipart – `self.length`, the sum
over the parts computed by the constructor. -/
def len : RT → Nat
  | .str s => s.length
  | .sym _ => 1
  | .node _ ps => lenL ps
def lenL : List RT → Nat
  | [] => 0
  | p :: ps => len p + lenL ps
end

mutual
/-- `str(text)`; a symbol prints as `<name>`. -/
def toStr : RT → Str
  | .str s => s
  | .sym n => '<' :: n ++ ['>']
  | .node _ ps => toStrL ps
def toStrL : List RT → Str
  | [] => []
  | p :: ps => toStr p ++ toStrL ps
end

mutual
def size : RT → Nat
  | .str _ => 1
  | .sym _ => 1
  | .node _ ps => sizeL ps + 1
def sizeL : List RT → Nat
  | [] => 0
  | p :: ps => size p + sizeL ps
end

mutual
def depth : RT → Nat
  | .str _ => 0
  | .sym _ => 0
  | .node _ ps => depthL ps + 1
def depthL : List RT → Nat
  | [] => 0
  | p :: ps => max (depth p) (depthL ps)
end

/-! ### `BaseMultipartText.__init__` -/

def typeInfo : RT → TypeInfo
  | .str _ => .string
  | .sym _ => .none
  | .node k _ => .multi k

/-- `_unpack()`: a `Text` yields its parts, everything else itself. -/
def unpack : RT → List RT
  | .node .text ps => ps
  | t => [t]

/-- `text.parts` of a multipart text (used when a group of similar texts is merged). -/
def children : RT → List RT
  | .node _ ps => ps
  | _ => []

/-- `String.parts == [str(self)]`, concatenated by `String(*parts)`. -/
def strValue : RT → Str
  | .str s => s
  | _ => []

/-- `nonempty_parts` then `unpacked_parts`: drop the parts with `len == 0`, unpack `Text`s. -/
def prep (ps : List RT) : List RT := (ps.filter fun p => len p != 0).flatMap unpack

/-- key function of the `itertools.groupby` in `_merge_similar`. -/
def similar (p q : RT) : Bool := typeInfo q == typeInfo p

theorem size_pos (t : RT) : 0 < size t := by cases t <;> simp [size]

theorem sizeL_append (a b : List RT) : sizeL (a ++ b) = sizeL a + sizeL b := by
  induction a with
  | nil => simp [sizeL]
  | cons x a ih => simp [sizeL, ih]; omega

theorem sizeL_dropWhile_le (f : RT → Bool) (l : List RT) : sizeL (l.dropWhile f) ≤ sizeL l := by
  induction l with
  | nil => simp [sizeL]
  | cons x l ih => simp only [List.dropWhile]; split <;> simp [sizeL] <;> omega

theorem sizeL_takeWhile_le (f : RT → Bool) (l : List RT) : sizeL (l.takeWhile f) ≤ sizeL l := by
  induction l with
  | nil => simp [sizeL]
  | cons x l ih => simp only [List.takeWhile]; split <;> simp [sizeL] <;> omega

theorem sizeL_unpack_le (t : RT) : sizeL (unpack t) ≤ size t := by
  unfold unpack; split <;> simp [size, sizeL]

theorem sizeL_prep_le (l : List RT) : sizeL (prep l) ≤ sizeL l := by
  unfold prep
  induction l with
  | nil => simp [sizeL]
  | cons x l ih =>
    simp only [List.filter]; split
    · simp only [List.flatMap_cons, sizeL_append, sizeL]; have := sizeL_unpack_le x; omega
    · simp only [sizeL]; omega

theorem sizeL_children_lt (t : RT) : sizeL (children t) < size t := by
  cases t <;> simp [children, size, sizeL]

theorem sizeL_flatMap_children_lt (p : RT) (l : List RT) :
    sizeL ((p :: l).flatMap children) < sizeL (p :: l) := by
  induction l generalizing p with
  | nil => simp [sizeL]; exact sizeL_children_lt p
  | cons x l ih =>
    have := ih x; have := sizeL_children_lt p
    simp only [List.flatMap_cons, sizeL_append, sizeL] at *; omega

/-- `_merge_similar`: `itertools.groupby` on the type info; a group of more than one text whose
class is not `None` is replaced by `cls(*info, *chain(text.parts for text in group))` – for
`String`s the concatenation, for multipart texts a *constructor call* (hence the recursion; it
terminates because the arguments are the children of the group). -/
def mergeSimilar : List RT → List RT
  | [] => []
  | p :: rest =>
    match typeInfo p with
    | .none => p :: rest.takeWhile (similar p) ++ mergeSimilar (rest.dropWhile (similar p))
    | .string =>
      if (rest.takeWhile (similar p)).isEmpty then p :: mergeSimilar (rest.dropWhile (similar p))
      else .str ((p :: rest.takeWhile (similar p)).flatMap strValue)
            :: mergeSimilar (rest.dropWhile (similar p))
    | .multi k =>
      if (rest.takeWhile (similar p)).isEmpty then p :: mergeSimilar (rest.dropWhile (similar p))
      else .node k (mergeSimilar (prep ((p :: rest.takeWhile (similar p)).flatMap children)))
            :: mergeSimilar (rest.dropWhile (similar p))
termination_by l => sizeL l
decreasing_by
  all_goals simp only [sizeL]
  all_goals first
    | (have := sizeL_dropWhile_le (similar p) rest; have := size_pos p; omega)
    | (have h1 := sizeL_prep_le ((p :: rest.takeWhile (similar p)).flatMap children)
       have h2 := sizeL_flatMap_children_lt p (rest.takeWhile (similar p))
       have h3 := sizeL_takeWhile_le (similar p) rest
       simp only [sizeL] at h2; omega)

/-- `self.parts` as computed by `BaseMultipartText.__init__(*ps)`. -/
def mkParts (ps : List RT) : List RT := mergeSimilar (prep ps)

/-- The constructor call `cls(*info, *ps)` for the class / parameters `k`. -/
def mk (k : Kind) (ps : List RT) : RT := .node k (mkParts ps)

mutual
/-- The object denoted by a raw tree of nested constructor calls. -/
def build : RT → RT
  | .str s => .str s
  | .sym n => .sym n
  | .node k ps => mk k (buildL ps)
def buildL : List RT → List RT
  | [] => []
  | p :: ps => build p :: buildL ps
end

/-! ### `__eq__` -/

mutual
/-- `a == b`.  `String.__eq__`: same type and same value.  `Symbol.__eq__` (fixed, C08-2):
`isinstance(other, Symbol)` and same name.  `BaseMultipartText.__eq__`: `other` is a text, same
`_typeinfo()`, `self.parts == other.parts` (list equality: same length, pairwise `==`). -/
def eq : RT → RT → Bool
  | .str a, .str b => a == b
  | .sym a, .sym b => a == b
  | .node k ps, .node k' qs => k == k' && eqL ps qs
  | _, _ => false
def eqL : List RT → List RT → Bool
  | [], [] => true
  | p :: ps, q :: qs => eq p q && eqL ps qs
  | _, _ => false
end

/-! ### `+`, `append`, `join` -/

/-- `self + other` = `Text(self, other)`. -/
def add (a b : RT) : RT := mk .text [a, b]

/-- `append`: multipart – `_create_similar(self.parts + [text])`; `String` / `Symbol` inherit
`BaseText.append` = `self + text`. -/
def append (t x : RT) : RT :=
  match t with
  | .node k ps => mk k (ps ++ [x])
  | _ => add t x

/-- the list `joined` built by `BaseText.join`. -/
def joinedList (sep : RT) : List RT → List RT
  | [] => []
  | [p] => [p]
  | p :: q :: r => p :: sep :: joinedList sep (q :: r)

/-- `sep.join(parts)`: `Text()` for no parts, else `Text(*joined)`. -/
def join (sep : RT) (parts : List RT) : RT := mk .text (joinedList sep parts)

/-! ### `__getitem__`, `_slice_beginning`, `_slice_end` -/

/-- one bound of `slice(i, j).indices(n)` (step 1): `None` gives the default. -/
def sliceIdx (n : Nat) (i : Option Int) (dflt : Nat) : Nat :=
  match i with
  | none => dflt
  | some i => pyNorm n i

/-- `value[i:j]` for a Python string / list, bounds possibly `None`. -/
def strSlice (s : List α) (i j : Option Int) : List α :=
  (s.drop (sliceIdx s.length i 0)).take (sliceIdx s.length j s.length - sliceIdx s.length i 0)

/-- The loop of `_slice_beginning`: `val a` is the part, `cut a m` is `part[:m]`. -/
def begLoop {α : Type} (val : α → RT) (cut : α → Int → RT) : List α → Int → Int → List RT
  | [], _, _ => []
  | a :: as, n, length =>
    if length + (len (val a) : Int) > n then [cut a (n - length)]
    else val a :: begLoop val cut as n (length + len (val a))

/-- The loop of `_slice_end` over the reversed parts: `cut a m` is `part[m:]`. -/
def endLoop {α : Type} (val : α → RT) (cut : α → Int → RT) : List α → Int → Int → List RT
  | [], _, _ => []
  | a :: as, n, length =>
    if length + (len (val a) : Int) > n then [cut a ((len (val a) : Int) - (n - length))]
    else val a :: endLoop val cut as n (length + len (val a))

theorem mem_begLoop {α : Type} {val : α → RT} {cut : α → Int → RT} {l : List α} {n length : Int}
    {x : RT} (h : x ∈ begLoop val cut l n length) : ∃ a ∈ l, x = val a ∨ ∃ m, x = cut a m := by
  induction l generalizing length with
  | nil => simp [begLoop] at h
  | cons a as ih =>
    simp only [begLoop] at h
    split at h
    · simp only [List.mem_singleton] at h; exact ⟨a, by simp, Or.inr ⟨_, h⟩⟩
    · simp only [List.mem_cons] at h
      rcases h with h | h
      · exact ⟨a, by simp, Or.inl h⟩
      · obtain ⟨b, hb, hx⟩ := ih h; exact ⟨b, by simp [hb], hx⟩

theorem mem_endLoop {α : Type} {val : α → RT} {cut : α → Int → RT} {l : List α} {n length : Int}
    {x : RT} (h : x ∈ endLoop val cut l n length) : ∃ a ∈ l, x = val a ∨ ∃ m, x = cut a m := by
  induction l generalizing length with
  | nil => simp [endLoop] at h
  | cons a as ih =>
    simp only [endLoop] at h
    split at h
    · simp only [List.mem_singleton] at h; exact ⟨a, by simp, Or.inr ⟨_, h⟩⟩
    · simp only [List.mem_cons] at h
      rcases h with h | h
      · exact ⟨a, by simp, Or.inl h⟩
      · obtain ⟨b, hb, hx⟩ := ih h; exact ⟨b, by simp [hb], hx⟩

theorem depthL_le_iff (l : List RT) (d : Nat) : depthL l ≤ d ↔ ∀ p ∈ l, depth p ≤ d := by
  induction l with
  | nil => simp [depthL]
  | cons x l ih => simp [depthL, Nat.max_le, ih]

theorem depth_le_of_mem {p : RT} {l : List RT} (h : p ∈ l) : depth p ≤ depthL l :=
  (depthL_le_iff l _).1 (Nat.le_refl _) p h

theorem depthL_append (a b : List RT) : depthL (a ++ b) = max (depthL a) (depthL b) := by
  induction a with
  | nil => simp [depthL]
  | cons x a ih => simp [depthL, ih, Nat.max_assoc]

theorem depthL_prep_le (l : List RT) : depthL (prep l) ≤ depthL l := by
  rw [depthL_le_iff]
  intro p hp
  simp only [prep, List.mem_flatMap, List.mem_filter] at hp
  obtain ⟨q, ⟨hq, _⟩, hpq⟩ := hp
  have hq' := depth_le_of_mem hq
  unfold unpack at hpq
  split at hpq
  · have := depth_le_of_mem hpq; simp only [depth] at hq'; omega
  · simp at hpq; subst hpq; exact hq'

theorem depthL_flatMap_children (l : List RT) (d : Nat) (h : depthL l ≤ d + 1) :
    depthL (l.flatMap children) ≤ d := by
  rw [depthL_le_iff] at *
  intro p hp
  simp only [List.mem_flatMap] at hp
  obtain ⟨q, hq, hpq⟩ := hp
  have := h q hq
  cases q with
  | str s => simp [children] at hpq
  | sym n => simp [children] at hpq
  | node k ps =>
    simp only [children] at hpq; have := depth_le_of_mem hpq; simp only [depth] at *; omega

theorem depthL_split (f : RT → Bool) (l : List RT) :
    depthL l = max (depthL (l.takeWhile f)) (depthL (l.dropWhile f)) := by
  rw [← depthL_append, List.takeWhile_append_dropWhile]

theorem depthL_mergeSimilar_le (l : List RT) : depthL (mergeSimilar l) ≤ depthL l := by
  fun_induction mergeSimilar l with
  | case1 => simp [depthL]
  | case2 p rest _ ih =>
    have := depthL_split (similar p) rest
    simp only [depthL, depthL_append, List.cons_append] at *; omega
  | case3 p rest _ _ ih =>
    have := depthL_split (similar p) rest
    simp only [depthL] at *; omega
  | case4 p rest _ _ ih =>
    have := depthL_split (similar p) rest
    simp only [depthL, depth] at *; omega
  | case5 p rest k _ _ ih =>
    have := depthL_split (similar p) rest
    simp only [depthL] at *; omega
  | case6 p rest k hk _ ih2 ih1 =>
    have h0 := depthL_split (similar p) rest
    have h1 := depthL_prep_le ((p :: rest.takeWhile (similar p)).flatMap children)
    cases p with
    | str s => simp [typeInfo] at hk
    | sym n => simp [typeInfo] at hk
    | node k' ps =>
      have h2 := depthL_flatMap_children (node k' ps :: rest.takeWhile (similar (node k' ps)))
        (max (depthL ps) (depthL (rest.takeWhile (similar (node k' ps))) - 1)) (by
          simp only [depthL, depth]; omega)
      simp only [depthL, depth] at *; omega

theorem depthL_mkParts_le (l : List RT) : depthL (mkParts l) ≤ depthL l :=
  Nat.le_trans (depthL_mergeSimilar_le _) (depthL_prep_le l)


theorem depthL_begLoop_le {α : Type} (val : α → RT) (cut : α → Int → RT) (l : List α) (n length : Int)
    (d : Nat) (hv : ∀ a ∈ l, depth (val a) ≤ d) (hc : ∀ a ∈ l, ∀ m, depth (cut a m) ≤ d) :
    depthL (begLoop val cut l n length) ≤ d := by
  rw [depthL_le_iff]
  intro x hx
  obtain ⟨a, ha, h | ⟨m, h⟩⟩ := mem_begLoop hx
  · subst h; exact hv a ha
  · subst h; exact hc a ha m

theorem depthL_endLoop_le {α : Type} (val : α → RT) (cut : α → Int → RT) (l : List α) (n length : Int)
    (d : Nat) (hv : ∀ a ∈ l, depth (val a) ≤ d) (hc : ∀ a ∈ l, ∀ m, depth (cut a m) ≤ d) :
    depthL (endLoop val cut l n length) ≤ d := by
  rw [depthL_le_iff]
  intro x hx
  obtain ⟨a, ha, h | ⟨m, h⟩⟩ := mem_endLoop hx
  · subst h; exact hv a ha
  · subst h; exact hc a ha m

theorem depthL_reverse (l : List RT) : depthL l.reverse = depthL l := by
  apply Nat.le_antisymm <;> rw [depthL_le_iff] <;> intro p hp
  · exact depth_le_of_mem (List.mem_reverse.1 hp)
  · exact depth_le_of_mem (List.mem_reverse.2 hp)

/-- `'a'[i:j]` is non-empty (what `Symbol.__getitem__` looks at). -/
def symSliceNonempty (i j : Option Int) : Bool := !(strSlice [()] i j).isEmpty

/-
`t[i:j]`, `_slice_beginning`, `_slice_end`.  `__getitem__` calls `_slice_beginning` on the object
*returned* by `_slice_end`, so the recursion is not structural; it is well-founded on the nesting
depth, and the functions carry the bound "the result is no deeper than the argument" that the
termination proof needs.  The plain functions (`getSlice`, `sliceBeginningParts`, `sliceEndParts`)
and their defining equations follow below.
-/
mutual
def getSliceB (t : RT) (i j : Option Int) : {r : RT // depth r ≤ depth t} :=
  match t with
  | .str s => ⟨.str (strSlice s i j), by simp [depth]⟩
  | .sym n => ⟨if symSliceNonempty i j then .sym n else .str [], by split <;> simp [depth]⟩
  | .node k ps =>
    let n := lenL ps
    let start := sliceIdx n i 0
    let stop := sliceIdx n j n
    let stop' := if stop < start then start else stop
    match sliceEndPartsB ps ((n : Int) - start) with
    | ⟨e, he⟩ =>
      match sliceBegPartsB (mkParts e) ((stop' : Int) - start) with
      | ⟨b, hb⟩ => ⟨mk k b, by
          have h1 := depthL_mkParts_le b
          have h2 := depthL_mkParts_le e
          simp only [mk, depth]; omega⟩
termination_by 2 * depth t
decreasing_by
  · simp only [depth]; omega
  · have h2 := depthL_mkParts_le e
    simp only [depth]; omega

def sliceBegPartsB (ps : List RT) (n : Int) : {r : List RT // depthL r ≤ depthL ps} :=
  ⟨begLoop (fun p => p.val) (fun p m => (getSliceB p.val none (some m)).val) ps.attach n 0,
    depthL_begLoop_le _ _ _ _ _ _ (fun a _ => depth_le_of_mem a.2)
      (fun a _ m => Nat.le_trans (getSliceB a.val none (some m)).2 (depth_le_of_mem a.2))⟩
termination_by 2 * depthL ps + 1
decreasing_by
  all_goals first
    | (have := depth_le_of_mem p.2; omega)
    | (have := depth_le_of_mem a.2; omega)

def sliceEndPartsB (ps : List RT) (n : Int) : {r : List RT // depthL r ≤ depthL ps} :=
  ⟨(endLoop (fun p => p.val) (fun p m => (getSliceB p.val (some m) none).val)
      ps.reverse.attach n 0).reverse, by
    rw [depthL_reverse]
    exact depthL_endLoop_le _ _ _ _ _ _ (fun a _ => depth_le_of_mem (List.mem_reverse.1 a.2))
      (fun a _ m => Nat.le_trans (getSliceB a.val (some m) none).2
        (depth_le_of_mem (List.mem_reverse.1 a.2)))⟩
termination_by 2 * depthL ps + 1
decreasing_by
  all_goals first
    | (have := depth_le_of_mem (List.mem_reverse.1 p.2); omega)
    | (have := depth_le_of_mem (List.mem_reverse.1 a.2); omega)
end


/-- `text[i:j]` (a slice object with step 1; `i`, `j` may be `None`).
`String`: `String(value[i:j])`.  `Symbol`: `self` if `'a'[i:j]` is non-empty, else `String()`.
Multipart (with fixes C08-1): `start, end = slice.indices(len)`; `if end < start: end = start`;
`self._slice_end(len - start)._slice_beginning(end - start)`. -/
def getSlice (t : RT) (i j : Option Int) : RT := (getSliceB t i j).val

/-- the list `parts` built by the loop of `_slice_beginning(n)` over `self.parts = ps`. -/
def sliceBeginningParts (ps : List RT) (n : Int) : List RT :=
  begLoop id (fun p m => getSlice p none (some m)) ps n 0

/-- `reversed(parts)` for the list built by the loop of `_slice_end(n)`. -/
def sliceEndParts (ps : List RT) (n : Int) : List RT :=
  (endLoop id (fun p m => getSlice p (some m) none) ps.reverse n 0).reverse

/-- `_slice_beginning(n)` of the multipart text `node k ps`. -/
def sliceBeginning (k : Kind) (ps : List RT) (n : Int) : RT := mk k (sliceBeginningParts ps n)

/-- `_slice_end(n)` of the multipart text `node k ps`. -/
def sliceEnd (k : Kind) (ps : List RT) (n : Int) : RT := mk k (sliceEndParts ps n)

theorem begLoop_map {α β : Type} (g : α → β) (val : β → RT) (cut : β → Int → RT) (l : List α)
    (n length : Int) :
    begLoop val cut (l.map g) n length = begLoop (fun a => val (g a)) (fun a => cut (g a)) l n length := by
  induction l generalizing length with
  | nil => simp [begLoop]
  | cons a as ih => simp only [List.map_cons, begLoop, ih]

theorem endLoop_map {α β : Type} (g : α → β) (val : β → RT) (cut : β → Int → RT) (l : List α)
    (n length : Int) :
    endLoop val cut (l.map g) n length = endLoop (fun a => val (g a)) (fun a => cut (g a)) l n length := by
  induction l generalizing length with
  | nil => simp [endLoop]
  | cons a as ih => simp only [List.map_cons, endLoop, ih]

theorem sliceBegPartsB_val (ps : List RT) (n : Int) :
    (sliceBegPartsB ps n).val = sliceBeginningParts ps n := by
  unfold sliceBegPartsB sliceBeginningParts
  simp only
  conv => rhs; rw [← List.attach_map_subtype_val ps]
  rw [begLoop_map]
  rfl

theorem sliceEndPartsB_val (ps : List RT) (n : Int) :
    (sliceEndPartsB ps n).val = sliceEndParts ps n := by
  unfold sliceEndPartsB sliceEndParts
  simp only
  conv => rhs; rw [← List.attach_map_subtype_val ps.reverse]
  rw [endLoop_map]
  rfl

theorem getSlice_str (s : Str) (i j : Option Int) : getSlice (.str s) i j = .str (strSlice s i j) := by
  simp [getSlice, getSliceB]

theorem getSlice_sym (n : Str) (i j : Option Int) :
    getSlice (.sym n) i j = if symSliceNonempty i j then .sym n else .str [] := by
  simp [getSlice, getSliceB]

/-- the defining equation of `__getitem__` for a slice of a multipart text. -/
theorem getSlice_node (k : Kind) (ps : List RT) (i j : Option Int) :
    getSlice (.node k ps) i j =
      let n := lenL ps
      let start := sliceIdx n i 0
      let stop := sliceIdx n j n
      let stop' := if stop < start then start else stop
      sliceBeginning k (mkParts (sliceEndParts ps ((n : Int) - start))) ((stop' : Int) - start) := by
  simp only [getSlice]
  rw [getSliceB]
  simp only [sliceBeginning, ← sliceBegPartsB_val, ← sliceEndPartsB_val]

/-- Python exceptions the rich-text operations can raise on the modelled domain. -/
inductive Err where
  | indexError
deriving DecidableEq, Repr

/-- `text[i]` for an integer `i`.  `String`: `String(value[i])`; `Symbol`: mimics a one-character
string; multipart (with fix C08-4): `IndexError` unless `-len <= i < len`, then
`self._slice_end(len - start)._slice_beginning(1)`. -/
def getIndex (t : RT) (i : Int) : Except Err RT :=
  if -(len t : Int) ≤ i ∧ i < (len t : Int) then
    let start : Int := if i < 0 then (len t : Int) + i else i
    match t with
    | .str s => .ok (.str ((s.drop start.toNat).take 1))
    | .sym n => .ok (.sym n)
    | .node k ps => .ok (sliceBeginning k (mkParts (sliceEndParts ps ((len t : Int) - start))) 1)
  else .error .indexError

/-! ### `split` -/

/-- The separator argument of `split`: `None` (runs of white space) or a non-empty literal string
(an empty literal makes `str.split` raise `ValueError`; it is outside the modelled domain). -/
inductive Sep where
  | ws
  | lit (c : Char) (cs : Str)
deriving DecidableEq, Repr

/-- `re.compile(r'\s+').split(value)`: cut at maximal runs of white space, keeping empty strings
at the ends. `cur` is the current piece (reversed), `inRun` says the previous character was white. -/
def reSplitWs : Str → Str → Bool → List Str
  | [], cur, _ => [cur.reverse]
  | c :: r, cur, inRun =>
    if isWs c then (if inRun then reSplitWs r cur true else cur.reverse :: reSplitWs r [] true)
    else reSplitWs r (c :: cur) false

/-- `value.split(sep)` for a non-empty literal `sep`: leftmost non-overlapping occurrences.
`skip` counts the characters of a matched separator still to be passed over. -/
def splitLit (sep : Str) : Str → Str → Nat → List Str
  | [], cur, _ => [cur.reverse]
  | _ :: r, cur, skip + 1 => splitLit sep r cur skip
  | c :: r, cur, 0 =>
    if sep.isPrefixOf (c :: r) then cur.reverse :: splitLit sep r [] (sep.length - 1)
    else splitLit sep r (c :: cur) 0

def strSplit (sep : Sep) (s : Str) : List Str :=
  match sep with
  | .ws => reSplitWs s [] false
  | .lit c cs => splitLit (c :: cs) s [] 0

/-- `keep_empty_parts` defaults to `sep is not None`. -/
def keepDefault (sep : Sep) (keep : Option Bool) : Bool :=
  match keep with
  | some b => b
  | none => match sep with
    | .ws => false
    | .lit _ _ => true

/-- `for item in split_part[:-1]` of `BaseMultipartText.split` (with fix C08-5: the text made
of the pending tail and the item is subject to the same emptiness test as every other part).
Returns the texts yielded and the new `tail`. -/
def splitItems (k : Kind) (keep : Bool) : List RT → List RT → List RT × List RT
  | [], tail => ([], tail)
  | item :: items, tail =>
    let r := splitItems k keep items []
    if !tail.isEmpty then
      let tailText := mk k (tail ++ [item])
      ((if len tailText != 0 || keep then [tailText] else []) ++ r.1, r.2)
    else
      ((if len item != 0 || keep then [mk k [item]] else []) ++ r.1, r.2)

mutual
/-- `text.split(sep, keep_empty_parts)`. -/
def split (sep : Sep) : RT → Option Bool → List RT
  | .str s, keep =>
    ((strSplit sep s).filter fun part => !part.isEmpty || keepDefault sep keep).map .str
  | .sym n, _ => [.sym n]
  | .node .prot ps, _ => [.node .prot ps]
  | .node k ps, keep =>
    splitL sep k (keepDefault sep keep) ps (if keepDefault sep keep then [.str []] else [])
/-- the loop `for part in self.parts` and the final `if tail:` of `BaseMultipartText.split`. -/
def splitL (sep : Sep) (k : Kind) (keep : Bool) : List RT → List RT → List RT
  | [], tail =>
    if !tail.isEmpty then
      (if len (mk k tail) != 0 || keep then [mk k tail] else [])
    else []
  | part :: ps, tail =>
    match (split sep part (some true)).reverse with
    | [] => splitL sep k keep ps tail
    | last :: revInit =>
      let r := splitItems k keep revInit.reverse tail
      r.1 ++ splitL sep k keep ps (r.2 ++ [last])
end

/-! ### `startswith`, `endswith`, `in`, `isalpha` -/

mutual
/-- `text.startswith(prefix)`; `prefixes` is the tuple of alternatives (a single string is a
one-element tuple). Part-wise by documented design. -/
def startsWith (prefixes : List Str) : RT → Bool
  | .str s => prefixes.any fun p => p.isPrefixOf s
  | .sym _ => false
  | .node _ ps => startsWithL prefixes ps
def startsWithL (prefixes : List Str) : List RT → Bool
  | [] => false
  | p :: _ => startsWith prefixes p
end

mutual
def endsWith (suffixes : List Str) : RT → Bool
  | .str s => suffixes.any fun p => p.isSuffixOf s
  | .sym _ => false
  | .node _ ps => endsWithL suffixes ps
def endsWithL (suffixes : List Str) : List RT → Bool
  | [] => false
  | [p] => endsWith suffixes p
  | _ :: q :: ps => endsWithL suffixes (q :: ps)
end

/-- `item in value` for Python strings. -/
def isInfix (item : Str) : Str → Bool
  | [] => item.isEmpty
  | c :: r => item.isPrefixOf (c :: r) || isInfix item r

mutual
/-- `text.__contains__(item)` for a string `item`. -/
def contains (item : Str) : RT → Bool
  | .str s => isInfix item s
  | .sym _ => false
  | .node _ ps => item.isEmpty || containsL item ps
def containsL (item : Str) : List RT → Bool
  | [] => false
  | p :: ps => contains item p || containsL item ps
end

mutual
/-- `text.isalpha()`; `str.isalpha` is "non-empty and every character alphabetic". -/
def isAlphaT : RT → Bool
  | .str s => !s.isEmpty && s.all isAlpha
  | .sym _ => false
  | .node _ ps => lenL ps != 0 && isAlphaL ps
def isAlphaL : List RT → Bool
  | [] => true
  | p :: ps => isAlphaT p && isAlphaL ps
end

/-! ### case -/

mutual
/-- `lower()` / `upper()` with `f` the string method: `String(f(value))`, a `Symbol` and a
`Protected` return `self`, other multipart texts `_create_similar(part.f() for part in parts)`. -/
def caseMap (f : Str → Str) : RT → RT
  | .str s => .str (f s)
  | .sym n => .sym n
  | .node .prot ps => .node .prot ps
  | .node k ps => mk k (caseMapL f ps)
def caseMapL (f : Str → Str) : List RT → List RT
  | [] => []
  | p :: ps => caseMap f p :: caseMapL f ps
end

def lowerT (t : RT) : RT := caseMap Pybtex.lower t
def upperT (t : RT) : RT := caseMap Pybtex.upper t

/-- `capfirst()`: `self[:1].upper() + self[1:]`; `Protected` returns `self`. -/
def capfirst (t : RT) : RT :=
  match t with
  | .node .prot _ => t
  | _ => add (upperT (getSlice t none (some 1))) (getSlice t (some 1) none)

/-- `capitalize()`: `self[:1].upper() + self[1:].lower()`; `Protected` returns `self`. -/
def capitalize (t : RT) : RT :=
  match t with
  | .node .prot _ => t
  | _ => add (upperT (getSlice t none (some 1))) (lowerT (getSlice t (some 1) none))

/-- `add_period(period)`: `self.append(period)` if the text is non-empty and
`textutils.is_terminated(self)` (= `self.endswith(terminators)`) is false, else `self`. -/
def addPeriod (terminators : List Str) (period : RT) (t : RT) : RT :=
  if len t != 0 && !endsWith terminators t then append t period else t

/-! ### rendering -/

/-- The backend protocol of `pybtex.backends.BaseBackend` as used by `render`:
`RenderType = R`; `symbols` is the dict (`none` = `KeyError`). -/
structure Backend (R : Type) where
  formatStr : Str → R
  formatTag : Str → R → R
  formatHref : Str → R → Bool → R
  formatProtected : R → R
  renderSequence : List R → R
  symbols : Str → Option R

mutual
/-- `text.render(backend)`; `none` = `KeyError` from `backend.symbols[name]`. -/
def render {R : Type} (b : Backend R) : RT → Option R
  | .str s => some (b.formatStr s)
  | .sym n => b.symbols n
  | .node k ps =>
    match renderL b ps with
    | none => none
    | some l =>
      let text := b.renderSequence l
      match k with
      | .text => some text
      | .tag n => some (b.formatTag n text)
      | .href u e => some (b.formatHref u text e)
      | .prot => some (b.formatProtected text)
def renderL {R : Type} (b : Backend R) : List RT → Option (List R)
  | [] => some []
  | p :: ps =>
    match render b p with
    | none => none
    | some r =>
      match renderL b ps with
      | none => none
      | some rs => some (r :: rs)
end


/-! ### the invariant of constructed objects -/

/-- two adjacent parts that `_merge_similar` merges -/
def mergeable (p q : RT) : Bool := typeInfo p == typeInfo q && typeInfo p != .none

def noAdjacentSimilar : List RT → Bool
  | p :: q :: r => !mergeable p q && noAdjacentSimilar (q :: r)
  | _ => true

def isText : RT → Bool
  | .node .text _ => true
  | _ => false

mutual
/-- Normal form: what every object built through the constructors looks like – hereditarily, no
part is empty, no part is a `Text`, no two adjacent parts have the same type info (unless they
are symbols).  Decidable; `build_normal` shows every constructed object satisfies it, and every
operation preserves it. -/
def Normal : RT → Bool
  | .str _ => true
  | .sym _ => true
  | .node _ ps => NormalL ps && noAdjacentSimilar ps
def NormalL : List RT → Bool
  | [] => true
  | p :: ps => (len p != 0 && !isText p && Normal p) && NormalL ps
end

/-! ### operation histories -/

/-- One operation applied to the current text (operands are objects, i.e. already built). -/
inductive Op where
  | add (x : RT)                -- `cur + x`
  | radd (x : RT)               -- `x + cur`
  | append (x : RT)             -- `cur.append(x)`
  | joinWith (xs : List RT)     -- `cur.join(xs)`
  | slice (i j : Option Int)    -- `cur[i:j]`
  | index (i : Int)             -- `cur[i]`
  | upper | lower | capfirst | capitalize
  | addPeriod                   -- `cur.add_period()`
  | splitPick (sep : Sep) (keep : Option Bool) (pick : Nat)
                                -- `ps = cur.split(sep, keep)`; continue with `ps[pick % len(ps)]`
deriving Repr

/-- `terms` = `textutils.terminators`. -/
def step (terms : List Str) (t : RT) : Op → Except Err RT
  | .add x => .ok (add t x)
  | .radd x => .ok (add x t)
  | .append x => .ok (append t x)
  | .joinWith xs => .ok (join t xs)
  | .slice i j => .ok (getSlice t i j)
  | .index i => getIndex t i
  | .upper => .ok (upperT t)
  | .lower => .ok (lowerT t)
  | .capfirst => .ok (capfirst t)
  | .capitalize => .ok (capitalize t)
  | .addPeriod => .ok (addPeriod terms (.str ['.']) t)
  | .splitPick sep keep pick =>
    let ps := split sep t keep
    match ps[pick % ps.length]? with
    | some p => .ok p
    | none => .ok t

/-- Apply the operations on top of one another; an operation that raises leaves the current text
as it is.  Returns the outcome of every step. -/
def run (terms : List Str) (t : RT) : List Op → List (Except Err RT)
  | [] => []
  | op :: ops =>
    match step terms t op with
    | .ok t' => .ok t' :: run terms t' ops
    | .error e => .error e :: run terms t ops

end RT
end Pybtex
