/-
C17 — model of pybtex's entry-point plumbing (core Lean only).

  §1  `pybtex/io.py`            `_open_existing`, `_open_or_create`, `_open`, `open_raw`, `open_unicode`
                                over an abstract opener, `posixpath.isfile`, `os.environ`, and
      `pybtex/kpathsea.py`      `kpsewhich` over an abstract process runner (`Popen` + `communicate`)
  §2  `pybtex/plugin/__init__.py`  `_load_entry_point`, `find_plugin`, `register_plugin`,
                                `enumerate_plugin_names`, `PluginNotFound` / `PluginGroupNotFound` messages,
                                over the installed entry-point table (a parameter; the regenerated
                                `Gen.installedPlugins` in the theorems and the driver) and the run-time registry
  §3  `pybtex/database/input/__init__.py` (+ `bibtex.py`, `bibtexml.py`)   the `unicode_io` dispatch of
                                `parse_string / parse_bytes / parse_stream / parse_file / parse_files`
  §4  `pybtex/database/output/__init__.py` (+ `bibtexml.py`)   `to_string / to_bytes / write_file`
  §5  `pybtex/database/__init__.py`  the module-level functions and `BibliographyData.to_*`

What is abstract (a parameter, never computed here): the codec (`enc`, `dec`), the plug-in's own
parsing / printing core, the opener, the bytes a handle yields, the `kpsewhich` PROGRAM (what running it
returns: cannot be started / return code + standard output), the environment.
Every function that opens files also returns the list of `Event`s it caused, in order, so that "a second
attempt at the joined path" is a statement about a value.

The model follows the code WITH the proposed fixes C17-1 (plugin), C17-2 (YAML plug-ins become plain
`unicode_io` plug-ins: nothing to model beyond §3/§4), C17-3 (BibTeXML `parse_string`) and C17-4 (the
BibTeXML reader is a `unicode_io` reader wired like the BibTeX one: `parse_string` is the text core,
`parse_stream` reads the stream and calls it; BaseParser decodes bytes and files with `self.encoding`).
-/
import PybtexModel.Model.Basic
import PybtexModel.Model.PyDict

namespace Pybtex.IO

abbrev Bytes := List UInt8
abbrev Path := Str

/-! ## §0  `posixpath.join` (two arguments) and `os.path.splitext` -/

/-- `posixpath.join(a, b)`. -/
def posixJoin (a b : Path) : Path :=
  if b.head? = some '/' then b                      -- b.startswith('/'): path = b
  else if a.isEmpty || a.getLast? = some '/' then a ++ b
  else a ++ '/' :: b

/-- `s.rpartition(c)` as an option: `s = a ++ c :: b` with `c ∉ b`; `none` when `c ∉ s`. -/
def splitLast (c : Char) : Str → Option (Str × Str)
  | [] => none
  | x :: r =>
    match splitLast c r with
    | some (a, b) => some (x :: a, b)
    | none => if x = c then some ([], r) else none

/-- `os.path.splitext(p)` (`genericpath._splitext` with `sep='/'`, no `altsep`, `extsep='.'`):
the extension starts at the last dot of the last path component, unless only dots precede it there. -/
def splitext (p : Path) : Path × Str :=
  let db : Path × Str := match splitLast '/' p with
    | some (d, b) => (d ++ ['/'], b)
    | none => ([], p)
  match splitLast '.' db.2 with
  | none => (p, [])
  | some (stem, ext) =>
    if stem.all (· == '.') then (p, [])             -- "skip all leading dots"
    else (db.1 ++ stem, '.' :: ext)

/-- `s.endswith(t)`. -/
def endsWith (s t : Str) : Bool := t.length ≤ s.length && s.drop (s.length - t.length) == t

/-! ## §1  pybtex/io.py -/

/-- An `EnvironmentError`; only `strerror` reaches the caller. -/
structure IOErr where
  strerror : Str
deriving DecidableEq, Repr

/-- `PybtexError("unable to open %s. %s" % (filename, error.strerror))`. -/
structure OpenErr where
  filename : Path
  strerror : Str
deriving DecidableEq, Repr

def OpenErr.message (e : OpenErr) : Str :=
  "unable to open ".toList ++ e.filename ++ ". ".toList ++ e.strerror

/-- What `io.open` is handed as the file: a `str`, or the `bytes` object that `kpsewhich` returned
(what the program printed; `io.open` accepts both). -/
inductive PathArg
  | str (p : Path)
  | bytes (b : Bytes)
deriving DecidableEq, Repr

instance : Coe Path PathArg := ⟨.str⟩

/-- What the functions of `pybtex.io` did to the outside world, in order. -/
inductive Event
  | locate (p : Path)                                          -- Popen(['kpsewhich', p], …)
  | tryOpen (p : PathArg) (mode : Str) (encoding : Option Str) -- opener(p, mode[, encoding=…])
deriving DecidableEq, Repr

/-- The outside world of `pybtex.io` / `pybtex.kpathsea`. `H` is whatever the opener returns. -/
structure Env (H : Type) where
  /-- `io.open(path, mode)` / `io.open(path, mode, encoding=e)` -/
  opener : PathArg → Str → Option Str → Except IOErr H
  /-- `posixpath.isfile` -/
  isFile : Path → Bool
  /-- `p = Popen(['kpsewhich', filename], stdout=PIPE, stderr=PIPE); p.communicate()`:
  `.error` = the program could not be started (`OSError`: not installed, not executable …), otherwise
  its return code and everything it wrote to standard output -/
  runKpsewhich : Path → Except IOErr (Int × Bytes)
  /-- `os.environ` -/
  environ : List (Str × Str)

variable {H S : Type}

/-- The bytes `bytes.rstrip()` removes: ASCII white space (`b' \t\n\r\x0b\x0c'`). -/
def isAsciiWsByte (x : UInt8) : Bool := x == 32 || (9 ≤ x && x ≤ 13)

/-- `bytes.rstrip()`. -/
def rstripBytes (b : Bytes) : Bytes := (b.reverse.dropWhile isAsciiWsByte).reverse

/-- `pybtex.kpathsea.kpsewhich(filename)`: `path = p.communicate()[0].rstrip()`;
`if p.returncode == 0: return path` (else `None`).  The result is a `bytes` object. -/
def kpsewhich (env : Env H) (filename : Path) : Except IOErr (Option Bytes) :=
  match env.runKpsewhich filename with
  | .error e => .error e                            -- Popen raised
  | .ok (returncode, out) =>
    let path := rstripBytes out
    if returncode = 0 then .ok (some path) else .ok none

/-- `_open_existing(opener, filename, mode, locate, **kwargs)` with `locate=kpsewhich`. -/
def openExisting (env : Env H) (filename : Path) (mode : Str) (kw : Option Str) :
    List Event × Except IOErr H :=
  if env.isFile filename then
    ([.tryOpen (.str filename) mode kw], env.opener (.str filename) mode kw)
  else
    match kpsewhich env filename with
    | .error e => ([.locate filename], .error e)
    | .ok found =>
      -- `if found: filename = found`  (None and the empty bytes object are both false)
      let target : PathArg := match found with
        | some q => if q.isEmpty then .str filename else .bytes q
        | none => .str filename
      ([.locate filename, .tryOpen target mode kw], env.opener target mode kw)

/-- `_open_or_create(opener, filename, mode, environ, **kwargs)`. -/
def openOrCreate (env : Env H) (filename : Path) (mode : Str) (kw : Option Str) :
    List Event × Except IOErr H :=
  match env.opener (.str filename) mode kw with
  | .ok h => ([.tryOpen (.str filename) mode kw], .ok h)
  | .error error =>
    match dget env.environ "TEXMFOUTPUT".toList with
    | some dir =>
      let newFilename := posixJoin dir filename
      match env.opener (.str newFilename) mode kw with
      | .ok h => ([.tryOpen (.str filename) mode kw, .tryOpen (.str newFilename) mode kw], .ok h)
      | .error _ =>
        ([.tryOpen (.str filename) mode kw, .tryOpen (.str newFilename) mode kw], .error error)  -- `raise error`
    | none => ([.tryOpen (.str filename) mode kw], .error error)

/-- The `filename_or_file` argument: a name, or an object that has `read` and `close`. -/
inductive FileArg (S : Type)
  | path (p : Path)
  | stream (s : S)

/-- What `_open` returns: the caller's own object, or what the opener produced. -/
inductive Opened (H S : Type)
  | passthrough (s : S)
  | handle (h : H)
deriving DecidableEq, Repr

/-- `_open(opener, filename_or_file, mode, **kwargs)`. -/
def pyOpen (env : Env H) (file : FileArg S) (mode : Str) (kw : Option Str) :
    List Event × Except OpenErr (Opened H S) :=
  match file with
  | .stream s => ([], .ok (.passthrough s))
  | .path filename =>
    let writeMode := mode.contains 'w'
    let r := if writeMode then openOrCreate env filename mode kw else openExisting env filename mode kw
    match r.2 with
    | .ok h => (r.1, .ok (.handle h))
    | .error error => (r.1, .error ⟨filename, error.strerror⟩)

/-- `get_default_encoding()`. -/
def defaultEncoding : Str := "UTF-8".toList

/-- `open_raw(filename, mode, encoding=None)` — the encoding is not passed on. -/
def openRaw (env : Env H) (file : FileArg S) (mode : Str) (_encoding : Option Str) :=
  pyOpen env file mode none

/-- `open_unicode(filename, mode, encoding=None)`. -/
def openUnicode (env : Env H) (file : FileArg S) (mode : Str) (encoding : Option Str) :=
  pyOpen env file mode (some (match encoding with | none => defaultEncoding | some e => e))

/-! ## §2  pybtex/plugin/__init__.py -/

/-- A plug-in class, identified by its entry-point value (`module:attr`) or a test label. -/
abbrev Cls := Str

/-- The installed entry points: (group, name, class). -/
abbrev Installed := List (Str × Str × Cls)

/-- `_RUNTIME_PLUGINS`: group ↦ (name ↦ class), both insertion-ordered dicts. -/
abbrev Registry := List (Str × List (Str × Cls))

/-- first element of `entry_points(group=g, name=n)`, loaded -/
def installedLookup : Installed → Str → Str → Option Cls
  | [], _, _ => none
  | (g', n', k) :: r, g, n => if g' = g ∧ n' = n then some k else installedLookup r g n

/-- `[ep.name for ep in entry_points(group=g)]` -/
def installedNames (tbl : Installed) (g : Str) : List Str :=
  (tbl.filter fun e => e.1 == g).map fun e => e.2.1

/-- `_RUNTIME_PLUGINS.get(group, {}).get(name)` -/
def runtimeGet (R : Registry) (g n : Str) : Option Cls :=
  match dget R g with
  | none => none
  | some d => dget d n

/-- `if group not in R: R[group] = {}` ; `R[group][name] = klass` -/
def runtimeSet (R : Registry) (g n : Str) (k : Cls) : Registry :=
  match dget R g with
  | none => dset R g [(n, k)]
  | some d => dset R g (dset d n k)

inductive PlugErr
  | groupNotFound (group : Str)           -- PluginGroupNotFound
  | notFound (group name : Str)           -- PluginNotFound
  | suffixNoPeriod                        -- ValueError("a suffix must start with a period")
deriving DecidableEq, Repr

/-- The message the two exception classes build. -/
def PlugErr.message : PlugErr → Str
  | .groupNotFound g => "plugin group ".toList ++ g ++ " not found".toList
  | .notFound g n =>
    if !(n.head? = some '.' && endsWith g ".suffixes".toList) then
      "plugin ".toList ++ g ++ ".".toList ++ n ++ " not found".toList
    else
      "plugin ".toList ++ g ++ " for suffix ".toList ++ n ++ " not found".toList
  | .suffixNoPeriod => "a suffix must start with a period".toList

/-- the `for search_group in groups` loop of `_load_entry_point` -/
def searchGroups (tbl : Installed) (R : Registry) (group name : Str) : List Str → Except PlugErr Cls
  | [] => .error (.notFound group name)
  | searchGroup :: rest =>
    match runtimeGet R searchGroup name with          -- first the run-time plug-ins (fix C17-1: `search_group`)
    | some k => .ok k
    | none =>
      match installedLookup tbl searchGroup name with -- then the installed entry points
      | some k => .ok k
      | none => searchGroups tbl R group name rest

/-- `_load_entry_point(group, name, use_aliases)`. -/
def loadEntryPoint (tbl : Installed) (R : Registry) (group name : Str) (useAliases : Bool) :
    Except PlugErr Cls :=
  searchGroups tbl R group name
    (if useAliases then [group, group ++ ".aliases".toList] else [group])

/-- The `name` argument of `find_plugin`: absent, a string, or a `Plugin` subclass. -/
inductive NameArg
  | none
  | str (s : Str)
  | cls (k : Cls)
deriving DecidableEq, Repr

/-- `find_plugin(plugin_group, name=None, filename=None)`; `defaults` is `_DEFAULT_PLUGINS`. -/
def findPlugin (tbl : Installed) (defaults : List (Str × Str)) (R : Registry)
    (group : Str) (name : NameArg) (filename : Option Str) : Except PlugErr Cls :=
  match name with
  | .cls k => .ok k
  | _ =>
    match dget defaults group with
    | none => .error (.groupNotFound group)
    | some dflt =>
      let byFile : Except PlugErr Cls :=
        match filename with
        | some (c :: f) => loadEntryPoint tbl R (group ++ ".suffixes".toList) (splitext (c :: f)).2 false
        | _ => loadEntryPoint tbl R group dflt false
      match name with
      | .str (c :: n) => loadEntryPoint tbl R group (c :: n) true      -- `if name:`
      | _ => byFile                                                   -- `elif filename:` / `else:`

/-- `enumerate_plugin_names(plugin_group)`. -/
def enumeratePluginNames (tbl : Installed) (R : Registry) (group : Str) : List Str :=
  (match dget R group with | none => [] | some d => dkeys d) ++ installedNames tbl group

/-- the group whose existence `register_plugin` checks -/
def baseGroup (group name : Str) : Except PlugErr Str :=
  if endsWith group ".suffixes".toList then
    if name.head? = some '.' then .ok (group.take (group.length - 9))   -- rsplit(".", 1)[0]
    else .error .suffixNoPeriod
  else if endsWith group ".aliases".toList then .ok (group.take (group.length - 8))
  else .ok group

/-- `register_plugin(plugin_group, name, klass, force=False)`: the new registry and the returned bool. -/
def registerPlugin (tbl : Installed) (defaults : List (Str × Str)) (R : Registry)
    (group name : Str) (klass : Cls) (force : Bool) : Except PlugErr (Registry × Bool) :=
  match baseGroup group name with
  | .error e => .error e
  | .ok base =>
    if !(dhas defaults base) then .error (.groupNotFound base)
    else if !force && ((runtimeGet R group name).isSome || (installedLookup tbl group name).isSome) then
      .ok (R, false)                                -- fix C17-1: a run-time entry is an existing entry too
    else .ok (runtimeSet R group name klass, true)

/-- One call on the module, for histories. -/
inductive PlugOp
  | register (group name : Str) (klass : Cls) (force : Bool)
  | find (group : Str) (name : NameArg) (filename : Option Str)
deriving DecidableEq, Repr

inductive PlugRes
  | bool (b : Bool)
  | cls (k : Cls)
  | err (e : PlugErr)
deriving DecidableEq, Repr

def plugStep (tbl : Installed) (defaults : List (Str × Str)) (R : Registry) : PlugOp → Registry × PlugRes
  | .register g n k f =>
    match registerPlugin tbl defaults R g n k f with
    | .ok (R', b) => (R', .bool b)
    | .error e => (R, .err e)
  | .find g n f =>
    match findPlugin tbl defaults R g n f with
    | .ok k => (R, .cls k)
    | .error e => (R, .err e)

def plugRun (tbl : Installed) (defaults : List (Str × Str)) : Registry → List PlugOp → Registry × List PlugRes
  | R, [] => (R, [])
  | R, op :: ops =>
    let r := plugStep tbl defaults R op
    let rest := plugRun tbl defaults r.1 ops
    (rest.1, r.2 :: rest.2)

/-! ## §3  readers: BaseParser and the two classes that override entry points -/

/-- The codec named by `self.encoding`: `str.encode` / `bytes.decode` (`.error` = `UnicodeDecodeError`, with its text). -/
structure Codec where
  enc : Str → Bytes
  dec : Bytes → Except Str Str

/-- What a plug-in's `parse_stream` is handed / what a writer's `write_stream` produced:
characters (a `StringIO`, a text-mode file) or bytes (a `BytesIO`, a binary-mode file). -/
inductive Stream
  | text (s : Str)
  | binary (b : Bytes)
deriving DecidableEq, Repr

/-- How a reader class is wired (regenerated per installed class: `unicode_io` + overridden methods). -/
inductive ReaderKind
  | base (unicodeIO : Bool)   -- overrides `parse_stream` only (YAML after fix C17-2, third-party plug-ins)
  | bibtex                    -- `unicode_io = True`; `parse_string` is the text core, `parse_stream` reads and calls it
                              -- (the BibTeX reader, and the BibTeXML reader after fix C17-4)
deriving DecidableEq, Repr

def ReaderKind.unicodeIO : ReaderKind → Bool
  | .base u => u
  | .bibtex => true

/-- `readerKindOf unicode_io overridden_methods` (methods sorted by name). -/
def readerKindOf (u : Bool) (ov : List Str) : Option ReaderKind :=
  if ov = ["parse_stream".toList] then some (.base u)
  else if u && ov = ["parse_stream".toList, "parse_string".toList] then some .bibtex
  else none

/-- The plug-in's own code, abstract.  `Db` is `self.data` (state passing), `E` what the core may raise. -/
structure ReaderCore (Db E : Type) where
  /-- `.base`: the plug-in's `parse_stream(stream)` -/
  parseStream : Db → Stream → Except E Db
  /-- `.bibtex`: the class's own `parse_string(text)` (the BibTeX grammar; `ET.fromstring` + `parse_tree`) -/
  parseText : Db → Str → Except E Db

inductive RErr (E : Type)
  | open (e : OpenErr)                          -- PybtexError from pybtex.io
  | decodeInFile (msg : Str) (filename : Path)  -- PybtexError(str(UnicodeDecodeError), filename) from parse_file
  | unicodeDecode (msg : Str)                   -- UnicodeDecodeError leaving parse_bytes
  | wrongStream                                 -- TypeError: text handed to a byte consumer or the reverse
  | core (e : E)                                -- whatever the plug-in's own code raised
deriving DecidableEq, Repr

variable {Db E : Type}

def liftCore (r : Except E Db) : Except (RErr E) Db :=
  match r with
  | .ok d => .ok d
  | .error e => .error (.core e)

/-- `self.parse_stream(stream)` (virtual). -/
def parseStream (k : ReaderKind) (core : ReaderCore Db E) (data : Db) (st : Stream) : Except (RErr E) Db :=
  match k with
  | .base _ => liftCore (core.parseStream data st)
  | .bibtex =>                                       -- text = stream.read(); return self.parse_string(text)
    match st with
    | .text s => liftCore (core.parseText data s)
    | .binary _ => .error .wrongStream

/-- `self.parse_string(value)` (virtual). -/
def parseString (k : ReaderKind) (core : ReaderCore Db E) (c : Codec) (data : Db) (value : Str) :
    Except (RErr E) Db :=
  match k with
  | .base u =>
    if u then parseStream k core data (.text value)                 -- io.StringIO(value)
    else
      -- self.parse_bytes(value.encode(self.encoding)), where unicode_io is False: io.BytesIO(…)
      parseStream k core data (.binary (c.enc value))
  | .bibtex => liftCore (core.parseText data value)

/-- `BaseParser.parse_bytes(value)` (no installed class overrides it once C17-4 is applied). -/
def parseBytes (k : ReaderKind) (core : ReaderCore Db E) (c : Codec) (data : Db) (value : Bytes) :
    Except (RErr E) Db :=
  if k.unicodeIO then
    match c.dec value with
    | .error m => .error (.unicodeDecode m)
    | .ok s => parseString k core c data s
  else parseStream k core data (.binary value)     -- io.BytesIO(value)

/-- Universal newlines, what a text-mode file opened for reading with the default `newline=None` does to
the decoded text: `\r\n` and a lone `\r` become `\n`. -/
def univNl : Str → Str
  | [] => []
  | '\r' :: '\n' :: r => '\n' :: univNl r
  | '\r' :: r => '\n' :: univNl r
  | c :: r => c :: univNl r

/-- What the plug-in sees when it reads from what `open_unicode` / `open_raw` returned.
`content h` are the bytes of the file behind handle `h`; a text-mode handle decodes them (a failure
surfaces as `UnicodeDecodeError` inside `parse_stream`) and translates newlines (`univNl`).  The caller's
own file-like object is read as it is. -/
def readOpened (u : Bool) (c : Codec) (content : H → Bytes) : Opened H Stream → Except Str Stream
  | .passthrough st => .ok st
  | .handle h =>
    if u then
      match c.dec (content h) with
      | .ok s => .ok (.text (univNl s))
      | .error m => .error m
    else .ok (.binary (content h))

/-- `BaseParser.parse_file(filename, file_suffix=None)`; `encName` is `self.encoding`. -/
def parseFile (k : ReaderKind) (core : ReaderCore Db E) (c : Codec) (encName : Str)
    (env : Env H) (content : H → Bytes) (data : Db) (file : FileArg Stream) (fileSuffix : Option Str) :
    List Event × Except (RErr E) Db :=
  let named : Except (RErr E) (FileArg Stream × Path) :=
    match file, fileSuffix with
    | .path p, some sfx => .ok (.path (p ++ sfx), p ++ sfx)
    | .path p, none => .ok (.path p, p)
    | .stream s, none => .ok (.stream s, [])
    | .stream _, some _ => .error .wrongStream           -- stream + str
  match named with
  | .error e => ([], .error e)
  | .ok (file', filename) =>
    let u := k.unicodeIO
    let o := if u then openUnicode env file' ['r'] (some encName)
             else openRaw env file' ['r', 'b'] (some encName)
    match o.2 with
    | .error e => (o.1, .error (.open e))
    | .ok f =>
      match readOpened u c content f with
      | .error m => (o.1, .error (.decodeInFile m filename))   -- except UnicodeDecodeError: raise PybtexError
      | .ok st => (o.1, parseStream k core data st)

/-- `BaseParser.parse_files(base_filenames, file_suffix=None)`. -/
def parseFiles (k : ReaderKind) (core : ReaderCore Db E) (c : Codec) (encName : Str)
    (env : Env H) (content : H → Bytes) (fileSuffix : Option Str) :
    Db → List Path → List Event × Except (RErr E) Db
  | data, [] => ([], .ok data)
  | data, f :: fs =>
    let r := parseFile k core c encName env content data (.path f) fileSuffix
    match r.2 with
    | .error e => (r.1, .error e)
    | .ok data' =>
      let rest := parseFiles k core c encName env content fileSuffix data' fs
      (r.1 ++ rest.1, rest.2)

/-! ## §4  writers: BaseWriter and the BibTeXML override -/

inductive WriterKind
  | base (unicodeIO : Bool)   -- overrides `write_stream` only (BibTeX; YAML after fix C17-2)
  | bibtexml                  -- `unicode_io = False`; `write_stream` through XMLGenerator, own `to_string`
deriving DecidableEq, Repr

def WriterKind.unicodeIO : WriterKind → Bool
  | .base u => u
  | .bibtexml => false

def writerKindOf (u : Bool) (ov : List Str) : Option WriterKind :=
  if ov = ["write_stream".toList] then some (.base u)
  else if !u && ov = ["to_string".toList, "write_stream".toList] then some .bibtexml
  else none

structure WriterCore (Db E : Type) where
  /-- `.base true`: the strings `write_stream` hands to `stream.write`, in order (possibly none at all) -/
  writeText : Db → Except E (List Str)
  /-- `.base false`: the bytes `write_stream` writes -/
  writeBytes : Db → Except E Bytes
  /-- `.bibtexml`: the characters `_write` sends through the XMLGenerator, header excluded -/
  xmlBody : Db → Except E Str

inductive WErr (E : Type)
  | open (e : OpenErr)
  | unicodeDecode (msg : Str)     -- `.decode(self.encoding)` in `to_string` of a byte plug-in
  | core (e : E)
deriving DecidableEq, Repr

/-- `XMLGenerator.startDocument`: `<?xml version="1.0" encoding="%s"?>\n`. -/
def xmlDecl (encName : Str) : Str :=
  "<?xml version=\"1.0\" encoding=\"".toList ++ encName ++ "\"?>\n".toList

/-- What `write_stream(bib_data, stream)` puts into a stream of the kind the class asks for. -/
def writeStream (k : WriterKind) (core : WriterCore Db E) (c : Codec) (encName : Str) (d : Db) :
    Except (WErr E) Stream :=
  match k with
  | .base true => match core.writeText d with | .ok chunks => .ok (.text chunks.flatten) | .error e => .error (.core e)
  | .base false => match core.writeBytes d with | .ok b => .ok (.binary b) | .error e => .error (.core e)
  | .bibtexml =>                                    -- _PrettyXMLWriter(stream, self.encoding): header, then the body
    match core.xmlBody d with
    | .ok s => .ok (.binary (c.enc (xmlDecl encName ++ s)))
    | .error e => .error (.core e)

/-- `BaseWriter.to_string`, `bibtexml.Writer.to_string`.  `utf8` is the codec the BibTeXML writer hard-wires. -/
def toStr (k : WriterKind) (core : WriterCore Db E) (c utf8 : Codec) (encName : Str) (d : Db) :
    Except (WErr E) Str :=
  match k with
  | .bibtexml =>
    -- output = BytesIO(); _PrettyXMLWriter(output, 'UTF-8', header=None); output.getvalue().decode('UTF-8').strip()
    match core.xmlBody d with
    | .error e => .error (.core e)
    | .ok s =>
      match utf8.dec (utf8.enc s) with
      | .ok t => .ok (strip t)
      | .error m => .error (.unicodeDecode m)
  | .base _ =>
    match writeStream k core c encName d with        -- _to_string_or_bytes
    | .error e => .error e
    | .ok (.text s) => .ok s                          -- result if self.unicode_io
    | .ok (.binary b) =>                              -- else result.decode(self.encoding)
      match c.dec b with
      | .ok s => .ok s
      | .error m => .error (.unicodeDecode m)

/-- `BaseWriter.to_bytes` (not overridden by any installed class once C17-2 is applied). -/
def toBytes (k : WriterKind) (core : WriterCore Db E) (c : Codec) (encName : Str) (d : Db) :
    Except (WErr E) Bytes :=
  match writeStream k core c encName d with
  | .error e => .error e
  | .ok (.text s) => .ok (c.enc s)                    -- result.encode(self.encoding) if self.unicode_io
  | .ok (.binary b) => .ok b

/-- The effect of `write_file`: what ended up where, and what the call returned. -/
inductive Written (H S : Type)
  /-- a file opened by pybtex now holds these bytes; the call returned `None` -/
  | file (h : H) (bytes : Bytes)
  /-- the caller's stream received this; the call returned `stream.getvalue()` when there is one -/
  | stream (s : S) (payload : Stream)
deriving DecidableEq, Repr

/-- What a text-mode file holds after the strings `chunks` were written to it, one `write` call each:
their concatenation encoded — except that the incremental encoder behind a text file emits nothing, not
even the byte-order mark `"".encode()` yields for UTF-16, as long as `write` is not called at all.
(One call suffices, even with the empty string: `f.write("")` on a fresh UTF-16 text file emits the mark.) -/
def textFile (c : Codec) (chunks : List Str) : Bytes := if chunks.isEmpty then [] else c.enc chunks.flatten

/-- `BaseWriter.write_file(bib_data, filename)`.  A text-mode handle encodes what is written to it
with the encoding it was opened with (`textFile`). -/
def writeFile (k : WriterKind) (core : WriterCore Db E) (c : Codec) (encName : Str)
    (env : Env H) (d : Db) (file : FileArg S) : List Event × Except (WErr E) (Written H S) :=
  let u := k.unicodeIO
  let o := if u then openUnicode env file ['w'] (some encName)
           else openRaw env file ['w', 'b'] (some encName)
  match o.2 with
  | .error e => (o.1, .error (.open e))
  | .ok f =>
    match k with
    | .base true =>
      match core.writeText d with
      | .error e => (o.1, .error (.core e))
      | .ok chunks =>
        match f with
        | .passthrough s => (o.1, .ok (.stream s (.text chunks.flatten)))
        | .handle h => (o.1, .ok (.file h (textFile c chunks)))
    | _ =>
      match writeStream k core c encName d with
      | .error e => (o.1, .error e)
      | .ok payload =>
        match f with
        | .passthrough s => (o.1, .ok (.stream s payload))
        | .handle h =>
          match payload with
          | .text s => (o.1, .ok (.file h (c.enc s)))      -- unreachable: byte classes write bytes
          | .binary b => (o.1, .ok (.file h b))

/-! ## §5  pybtex/database/__init__.py: choosing the class, then calling it -/

/-- `pybtex.database.parse_file(file, bib_format=None, **kwargs)`: the class used.
`name` is the `name` attribute of a file-like argument (or the file name itself). -/
def readerFor (tbl : Installed) (defaults : List (Str × Str)) (R : Registry)
    (bibFormat : NameArg) (filename : Option Str) : Except PlugErr Cls :=
  findPlugin tbl defaults R "pybtex.database.input".toList bibFormat filename

/-- `BibliographyData.to_file(file, bib_format=None, **kwargs)`: the class used. -/
def writerFor (tbl : Installed) (defaults : List (Str × Str)) (R : Registry)
    (bibFormat : NameArg) (filename : Option Str) : Except PlugErr Cls :=
  findPlugin tbl defaults R "pybtex.database.output".toList bibFormat filename

end Pybtex.IO
