/-
The engine front ends WITH their output side: where the `.bbl` text goes
(`BibTeXEngine.format_from_files(…, output_filename=…, add_output_suffix=…)`,
`Engine.make_bibliography`, `PybtexCommandLine.run`).  `Model/Engine.lean` models what the text
is; `Model/EnginePaths.lean` the file names; this file puts the two together in the order of the
code: the interpreter runs first, the output name is computed and the file opened afterwards.
-/
import PybtexModel.Model.Engine
import PybtexModel.Model.EnginePaths

namespace Pybtex.Engine
open Pybtex.EnginePaths

/-- what a call leaves behind: its return value (`none` = Python's `None`) and the file it wrote -/
structure Outcome where
  returned : Option Str
  written : Option (Str × Str)
deriving Repr, DecidableEq

/-- `with output_file: output_file.write(bbl_data); if isinstance(output_file, StringIO): return output_file.getvalue()` -/
def deliver (t : Target) (bbl : Str) : Outcome :=
  match t with
  | .returned => ⟨some bbl, none⟩
  | .file n => ⟨none, some (n, bbl)⟩

inductive ErrOut where
  | engine (e : Err)      -- everything `formatFromFiles` / `makeBibliography` can raise
  | typeError             -- `None + '.bbl'`: `add_output_suffix=True` without an `output_filename`
  | cli (e : CliErr)      -- `opt_parser.error(…)` of the command line

/-- `BibTeXEngine.format_from_files(srcs, style, citations, …, output_filename, add_output_suffix)` -/
def formatFromFilesTo (files : Files) (srcs : List Src) (style : Str) (citations : List Str)
    (minCrossrefs : Int) (alt : Option (List (Str × Bib.Entry) × List Str))
    (outputFilename : Option Str) (addOutputSuffix : Bool) : Except ErrOut (Outcome × Result) :=
  match formatFromFiles files srcs style citations minCrossrefs alt with
  | .error e => .error (.engine e)
  | .ok r =>
    match outputTarget outputFilename addOutputSuffix with
    | .error _ => .error .typeError
    | .ok t => .ok (deliver t r.bbl, r)

/-- `Engine.make_bibliography(aux_filename, …)` with its output:
`output_filename=path.splitext(aux_filename)[0], add_output_suffix=True` -/
def makeBibliographyTo (files : Files) (auxName : Str) (auxFuel : Nat) (styleOverride : Option Str)
    (bibFormat : Option Format) (minCrossrefs : Int) : Except ErrOut (Outcome × Result × List Aux.Report) :=
  match makeBibliography files auxName auxFuel styleOverride bibFormat minCrossrefs with
  | .error e => .error (.engine e)
  | .ok (r, reps) =>
    match outputTarget (some (splitext auxName).1) true with
    | .error _ => .error .typeError
    | .ok t => .ok (deliver t r.bbl, r, reps)

/-- `PybtexCommandLine.run(filename, style_language, encoding, **options)` for the BibTeX engine
(`python = true` is the other engine: property C07) -/
def cliMakeBibliography (files : Files) (filename : Str) (o : CliOptions) (auxFuel : Nat) (styleOverride : Option Str)
    (bibFormat : Option Format) (minCrossrefs : Int) : Except ErrOut (Outcome × Result × List Aux.Report) :=
  match cliRun filename o with
  | .error e => .error (.cli e)
  | .ok call => makeBibliographyTo files call.filename auxFuel styleOverride bibFormat minCrossrefs

end Pybtex.Engine
