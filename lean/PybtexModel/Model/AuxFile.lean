/-
Model of `pybtex/auxfile.py` (reading a LaTeX `.aux` file), function by function.

* `matchCommand`   = `AuxData.command_re.match(line)`, the regular expression
                     `\\(citation|bibdata|bibstyle|@input){(.*)}` anchored at the start of the line:
                     a backslash, one of the four names, `{`, then `(.*)}` — `.` is every character
                     except `\n`, the star is greedy, so the group ends at the LAST `}` before the
                     first newline; nothing is required after that brace.
* `handleCitation` = `handle_citation` (`keys.split(',')`; `_canonical_keys` maps the lower-cased
                     key to the spelling seen LAST; a different spelling is reported, and replaces it).
                     `key.lower()` is `lowerPy` (`Model/UniCase.lean`): `str.lower()` of the running
                     interpreter on whole strings, from the regenerated tables (per-character map,
                     multi-character forms such as U+0130, the final-sigma rule) — `É`/`é`, `Д`/`д`,
                     `K` (Kelvin sign)/`k` are the same key, `ß`/`SS` are not.
* `handleBibstyle`, `handleBibdata`, `handleInput`, `handleCommand`, `parseLine`, `parseFile`.
* the file system is a parameter `FS = Path → Option (List Str)` (`none` = the file cannot be
  opened: `open_unicode` raises `PybtexError('unable to open …')`); a file is the list of its lines.
* mutable state becomes state passing (`St`): `self.context`, `self.style`, `self.data`,
  `self.citations`, `self._canonical_keys`, and the list `errors.captured_errors` (the model is the
  parse under `errors.capture()`: `report_error` appends).
* `AuxDataError` follows the code with `proposed_fixes/C20-1.diff` and `C20-2.diff` applied: the
  error copies file name, line number and line text from the context when it is constructed.
  (`Report.file`, `.lineno`, `.line`.)
* Python recursion `parse_file → parse_line → handle_input → parse_file` can go on for ever on a
  file that includes itself; the model recurses on a fuel argument (`Fatal.outOfFuel` is the
  model's "did not terminate").  `Lemmas/Aux.lean` proves that fuel ≥ inclusion depth is enough
  and that the result does not depend on the fuel.
* `Fatal.attributeError` stands for the `AttributeError` Python would raise on
  `self.context.lineno = …` with `self.context is None`; `parseFile` never produces it
  (theorem `C20_no_internal_error`).
-/
import PybtexModel.Model.PyDict
import PybtexModel.Model.UniCase

namespace Pybtex.Aux

abbrev Path := Str
/-- The file system: the lines of a file, or `none` when it cannot be opened. -/
abbrev FS := Path → Option (List Str)

/-! ### `str.split(',')` -/

/-- `s.split(sep)` for a one-character separator, as CPython does it: scan, cut at every
separator, the (possibly empty) rest is the last part.  `cur` is the current part, reversed. -/
def pySplitAux (sep : Char) : Str → Str → List Str
  | [], cur => [cur.reverse]
  | c :: r, cur => if c = sep then cur.reverse :: pySplitAux sep r [] else pySplitAux sep r (c :: cur)

def pySplit (sep : Char) (s : Str) : List Str := pySplitAux sep s []

/-! ### the regular expression -/

inductive Cmd where
  | citation | bibdata | bibstyle | input
deriving DecidableEq, Repr

/-- The alternation `(citation|bibdata|bibstyle|@input)`, in the order of the pattern. -/
def cmdNames : List (Cmd × Str) :=
  [(.citation, "citation".toList), (.bibdata, "bibdata".toList),
   (.bibstyle, "bibstyle".toList), (.input, "@input".toList)]

/-- match a literal at the start of `s`; the rest of `s` on success -/
def matchLit : Str → Str → Option Str
  | [], s => some s
  | _ :: _, [] => none
  | p :: ps, c :: s => if p = c then matchLit ps s else none

/-- `(.*)}` on a newline-free text: the greedy star takes everything, then gives characters back
until a `}` follows — the group is the text before the LAST `}`.  `none` = no `}` at all. -/
def beforeLastClose : Str → Option Str
  | [] => none
  | c :: r =>
    match beforeLastClose r with
    | some p => some (c :: p)
    | none => if c = '}' then some [] else none

/-- `{(.*)}` at the start of `s`; `.` does not match `\n`. -/
def matchGroup : Str → Option Str
  | c :: r => if c = '{' then beforeLastClose (r.takeWhile (· ≠ '\n')) else none
  | [] => none

/-- the alternatives are tried in order; the first one after which the rest of the pattern
matches wins (backtracking into the alternation) -/
def matchAlt : List (Cmd × Str) → Str → Option (Cmd × Str)
  | [], _ => none
  | (c, name) :: alts, s =>
    match matchLit name s with
    | some r =>
      match matchGroup r with
      | some v => some (c, v)
      | none => matchAlt alts s
    | none => matchAlt alts s

/-- `command_re.match(line)` → `match.groups()`; `none` = no match. -/
def matchCommand (line : Str) : Option (Cmd × Str) :=
  match line with
  | c :: s => if c = '\\' then matchAlt cmdNames s else none
  | [] => none

/-! ### state -/

/-- `AuxDataContext` -/
structure Ctx where
  filename : Path
  lineno : Option Nat
  line : Option Str
deriving Repr, DecidableEq

def Ctx.new (filename : Path) : Ctx := ⟨filename, none, none⟩

inductive Kind where
  | caseMismatch (key existing : Str)
  | anotherBibstyle
  | anotherBibdata
  | noBibdata
  | noBibstyle
deriving Repr, DecidableEq

/-- An `AuxDataError` (with the proposed fix: location copied at construction). -/
structure Report where
  kind : Kind
  file : Path
  lineno : Option Nat
  line : Option Str
deriving Repr, DecidableEq

/-- `AuxDataError(message, context)` -/
def mkError (kind : Kind) (ctx : Ctx) : Report := ⟨kind, ctx.filename, ctx.lineno, ctx.line⟩

inductive Fatal where
  /-- an `AuxDataError` that is raised, not reported (`found no \bibdata command` …) -/
  | aux (e : Report)
  /-- `PybtexError('unable to open <path>. <strerror>')` from `pybtex.io` -/
  | cannotOpen (path : Path)
  /-- the model's fuel ran out (Python: unbounded recursion on cyclic `\@input`) -/
  | outOfFuel
  /-- `self.context` is `None` where the code dereferences it (never produced by `parseFile`) -/
  | attributeError
deriving Repr, DecidableEq

/-- The parse was aborted by an exception; `reports` is what `errors.capture()` holds by then. -/
structure Abort where
  fatal : Fatal
  reports : List Report
deriving Repr, DecidableEq

/-- `AuxData` + the list of captured errors. -/
structure St where
  context : Option Ctx
  style : Option Str
  data : Option (List Str)
  citations : List Str
  canonical : List (Str × Str)
  reports : List Report
deriving Repr, DecidableEq

/-- `AuxData(encoding)` under a fresh `errors.capture()`. -/
def St.init : St := ⟨none, none, none, [], [], []⟩

/-- `report_error(e)` in capture mode -/
def report (st : St) (e : Report) : St := { st with reports := st.reports ++ [e] }

/-! ### handlers

The handlers read `self.context`; it is the object `parse_line` has just updated, passed here as
`ctx` (the handlers are only reached through `parse_line`). -/

/-- body of the loop of `handle_citation` -/
def citeKey (ctx : Ctx) (st : St) (key : Str) : St :=
  let keyLower := lowerPy key
  let st :=
    match dget st.canonical keyLower with
    | some existing =>
      if key ≠ existing then report st (mkError (.caseMismatch key existing) ctx) else st
    | none => st
  { st with citations := st.citations ++ [key], canonical := dset st.canonical keyLower key }

def handleCitation (ctx : Ctx) (st : St) (keys : Str) : St :=
  (pySplit ',' keys).foldl (citeKey ctx) st

def handleBibstyle (ctx : Ctx) (st : St) (style : Str) : St :=
  match st.style with
  | some _ => report st (mkError .anotherBibstyle ctx)
  | none => { st with style := some style }

def handleBibdata (ctx : Ctx) (st : St) (bibdata : Str) : St :=
  match st.data with
  | some _ => report st (mkError .anotherBibdata ctx)
  | none => { st with data := some (pySplit ',' bibdata) }

/-- `inp` is `fun st filename => self.parse_file(filename, toplevel=False)` -/
def handleInput (inp : St → Path → Except Abort St) (st : St) (filename : Str) : Except Abort St :=
  inp st filename

def handleCommand (inp : St → Path → Except Abort St) (ctx : Ctx) (st : St) (cmd : Cmd) (value : Str) :
    Except Abort St :=
  match cmd with
  | .citation => .ok (handleCitation ctx st value)
  | .bibstyle => .ok (handleBibstyle ctx st value)
  | .bibdata => .ok (handleBibdata ctx st value)
  | .input => handleInput inp st value

def parseLine (inp : St → Path → Except Abort St) (st : St) (line : Str) (lineno : Nat) :
    Except Abort St :=
  match st.context with
  | none => .error ⟨.attributeError, st.reports⟩
  | some c =>
    let ctx : Ctx := { c with lineno := some lineno, line := some (strip line) }
    let st := { st with context := some ctx }
    match matchCommand line with
    | some (cmd, value) => handleCommand inp ctx st cmd value
    | none => .ok st

/-- `for lineno, line in enumerate(aux_file, 1): self.parse_line(line, lineno)` -/
def parseLines (inp : St → Path → Except Abort St) : List Str → Nat → St → Except Abort St
  | [], _, st => .ok st
  | line :: rest, lineno, st =>
    match parseLine inp st line lineno with
    | .error e => .error e
    | .ok st' => parseLines inp rest (lineno + 1) st'

/-- the epilogue of `parse_file`: restore the context, then the two fatal checks -/
def finish (previous : Option Ctx) (toplevel : Bool) (st : St) : Except Abort St :=
  -- `self.context` after the `if previous_context: … else: …`, with the state holding it
  let restored : Option (St × Ctx) :=
    match previous with
    | some c => some ({ st with context := some c }, c)
    | none =>
      match st.context with
      | some c =>
        let c' : Ctx := { c with line := none, lineno := none }
        some ({ st with context := some c' }, c')
      | none => none
  match restored with
  | none => .error ⟨.attributeError, st.reports⟩
  | some (st, ctx) =>
    if toplevel && st.data.isNone then .error ⟨.aux (mkError .noBibdata ctx), st.reports⟩
    else if toplevel && st.style.isNone then .error ⟨.aux (mkError .noBibstyle ctx), st.reports⟩
    else .ok st

/-- `AuxData.parse_file(filename, toplevel)` -/
def parseFile (fs : FS) : Nat → St → Path → Bool → Except Abort St
  | 0, st, _, _ => .error ⟨.outOfFuel, st.reports⟩
  | fuel + 1, st, filename, toplevel =>
    let previous := st.context
    let st := { st with context := some (Ctx.new filename) }
    match fs filename with
    | none => .error ⟨.cannotOpen filename, st.reports⟩
    | some lines =>
      match parseLines (fun s p => parseFile fs fuel s p false) lines 1 st with
      | .error e => .error e
      | .ok st => finish previous toplevel st

/-- module-level `parse_file(filename)` under `errors.capture()` -/
def parse (fs : FS) (fuel : Nat) (filename : Path) : Except Abort St :=
  parseFile fs fuel St.init filename true

/-- what `errors.capture()` holds once `parse_file` has returned or raised -/
def captured : Except Abort St → List Report
  | .ok st => st.reports
  | .error a => a.reports

/-! ### rendering (`__str__`, `get_context`, `get_filename`) -/

def Kind.message : Kind → Str
  | .caseMismatch key existing =>
    "case mismatch error between cite keys ".toList ++ key ++ " and ".toList ++ existing
  | .anotherBibstyle => "illegal, another \\bibstyle command".toList
  | .anotherBibdata => "illegal, another \\bibdata command".toList
  | .noBibdata => "found no \\bibdata command".toList
  | .noBibstyle => "found no \\bibstyle command".toList

def Kind.name : Kind → String
  | .caseMismatch _ _ => "case_mismatch"
  | .anotherBibstyle => "another_bibstyle"
  | .anotherBibdata => "another_bibdata"
  | .noBibdata => "no_bibdata"
  | .noBibstyle => "no_bibstyle"

/-- `AuxDataError.__str__` -/
def Report.str (r : Report) : Str :=
  (match r.lineno with
   | some (n + 1) => "in line ".toList ++ (toString (n + 1)).toList ++ ": ".toList
   | _ => []) ++ r.kind.message

/-- `AuxDataError.get_context` (`none` = `None`) -/
def Report.getContext (r : Report) : Option Str :=
  match r.line with
  | some l => if l ≠ [] then some (l ++ ['\n'] ++ List.replicate l.length '^') else none
  | none => none

/-! ### inclusion depth -/

/-- the files a list of lines includes (`\@input` lines), in order -/
def inputsOf : List Str → List Path
  | [] => []
  | l :: r =>
    match matchCommand l with
    | some (.input, v) => v :: inputsOf r
    | _ => inputsOf r

/-- `depthOk fs d p`: reading `p` nests at most `d` files deep (a file that cannot be opened
counts as a leaf).  False for every `d` on a file that includes itself. -/
def depthOk (fs : FS) : Nat → Path → Bool
  | 0, _ => false
  | d + 1, p =>
    match fs p with
    | none => true
    | some lines => (inputsOf lines).all (depthOk fs d)

/-- the same, and every included file exists -/
def closedDepth (fs : FS) : Nat → Path → Bool
  | 0, _ => false
  | d + 1, p =>
    match fs p with
    | none => false
    | some lines => (inputsOf lines).all (closedDepth fs d)

/-- A finite file system as a list of (name, lines); the first entry with a name wins. -/
def fsOf (files : List (Path × List Str)) : FS := fun p => dget files p

/-- The files are listed in an order in which no file includes itself or a file listed before
it (a topological order of the inclusion graph — exists iff inclusion is acyclic).
`seen` = names listed so far. -/
def topoOk (seen : List Path) : List (Path × List Str) → Bool
  | [] => true
  | (p, lines) :: rest =>
    (inputsOf lines).all (fun v => !(p :: seen).contains v) && topoOk (p :: seen) rest


/-! ### `Engine.make_bibliography` up to the call of `format_from_files` (pybtex/__init__.py:34-59)

    aux_data = auxfile.parse_file(aux_filename, output_encoding)
    if style is None:
        style = aux_data.style
    bib_filenames = [filename + bib_format.default_suffix for filename in aux_data.data]
    return self.format_from_files(bib_filenames, style=style, citations=aux_data.citations, …)
-/

/-- what `make_bibliography` hands to `format_from_files` -/
structure EngineArgs where
  bibFilenames : List Str
  /-- `none` = `None` (cannot happen: a top-level parse without `\bibstyle` raises) -/
  style : Option Str
  citations : List Str
deriving Repr, DecidableEq

/-- `styleOverride` = the `style` argument (`none` = `None`: use the style of the `.aux` file),
`suffix` = `bib_format.default_suffix` (`.bib` for the default reader).  A parse that returns
without data cannot happen at top level (`finish` raises); Python would raise `TypeError`
(iterating `None`), which the model renders as `Fatal.attributeError` ("a non-pybtex exception");
never produced (`C20_engine_consumes`). -/
def makeBibliographyArgs (fs : FS) (fuel : Nat) (auxName : Path) (styleOverride : Option Str)
    (suffix : Str) : Except Abort EngineArgs :=
  match parse fs fuel auxName with
  | .error a => .error a
  | .ok st =>
    match st.data with
    | none => .error ⟨.attributeError, st.reports⟩
    | some data =>
      let style := match styleOverride with | some s => some s | none => st.style
      .ok ⟨data.map (· ++ suffix), style, st.citations⟩

end Pybtex.Aux
