/-
What a caller of the `.bst` parser sees of a rejected source (`pybtex/scanner.py`:
`PybtexSyntaxError.__init__` / `__str__`, `PrematureEOF`, `TokenRequired`; `pybtex/bibtex/bst.py`:
the `filename` argument of `parse_stream`), and the position bookkeeping of `Scanner`
(`pos`, `lineno`) for the function-level correspondence of `eat_whitespace` / `required` /
`parse_group` / `parse_command`.

  Python                                              here
  --------------------------------------------------  ---------------------------------------
  `error.lineno`                                      `errLine`
  `error.args[0]` (`'premature end of file'`,         `errMessage`
   `'{0} expected'.format(description)`, the message)
  `str(error)` = `'{error_type}{pos}: {message}'`     `errStr` (through `Errors.syntaxStr`, the model
                                                       of `PybtexSyntaxError.__str__` of C16)
  `parse_stream(stream, filename='<INPUT>')`          `streamDefaultFilename`
  `Scanner.pos` for a scanner on `text`               `posOf text st`
  a scanner with `pos = p`, `lineno = l`              `stAt text p l`
-/
import PybtexModel.Model.BstParse
import PybtexModel.Model.Errors

namespace Pybtex.Bst
open Pybtex.Scanner

/-- `error.lineno` (`parser.lineno` when the error object is made); `none` for the two outcomes
that are not `PybtexSyntaxError`s (`EOFError`, the model-only `outOfFuel`) -/
def errLine : Err → Option Nat
  | .prematureEOF l => some l
  | .tokenRequired _ l => some l
  | .syntaxError _ l => some l
  | .eof => none
  | .outOfFuel => none

/-- `error.args[0]` -/
def errMessage : Err → Option Str
  | .prematureEOF _ => some "premature end of file".toList
  | .tokenRequired d _ => some (d ++ " expected".toList)
  | .syntaxError m _ => some m
  | .eof => none
  | .outOfFuel => none

/-- `PybtexSyntaxError.error_type` (none of the three classes the parser raises overrides it) -/
def errorType : Str := "syntax error".toList

/-- `str(error)`: `PybtexSyntaxError.__str__` -/
def errStr (e : Err) : Option Str :=
  match errLine e, errMessage e with
  | some l, some m => some (Errors.syntaxStr errorType (some l) m)
  | _, _ => none

/-- the default of the `filename` parameter of `parse_stream` (`error.filename` of an error of
`parse_stream(stream)`; `parse_string` makes the parser without a file name) -/
def streamDefaultFilename : Str := "<INPUT>".toList

/-- scanner on `text` standing at `pos` with line number `lineno` -/
def stAt (text : Str) (pos lineno : Nat) : St := ⟨text.drop pos, lineno⟩

/-- `Scanner.pos` of a state of a scanner on `text` -/
def posOf (text : Str) (st : St) : Nat := text.length - st.rest.length

/-- the text `parse_file` hands to the parser (file content read with universal newlines) -/
def fileText (src : Str) : Str := streamText (streamLines (universalNewlines src))

end Pybtex.Bst
