/-
Extension of the model of the `.bib` reader (`Model/BibParse.lean`) by what `Parser(...)` /
`LowLevelParser(...)` can be configured with and by the LowLevelParser taken alone:

* `keyless_entries=True` (`parse_entry_body` does not scan a key; `process_entry` numbers the
  entries `unnamed-1`, `unnamed-2`, …): `parseEntryBodyK`, `parseCommandK`, `parseLoopK`, `parseBibK`;
* `macros=…` and `person_fields=…` are the parameters `macros0` / `roles` the model already has;
* `LowLevelParser(text, handle_error=…, macros=…)` iterated on its own (what `Parser.parse_string`
  consumes): `lowLoop` yields the commands with `current_field_name` / `current_value` at the moment
  of the `yield` (`make_result` reads them then);
* `Parser.process_entry` / `process_preamble` applied to a list of commands: `processAll`.

Same conventions as `Model/BibParse.lean`; nothing of that file is changed.
-/
import PybtexModel.Model.BibParse

namespace Pybtex.Bib

/-- `parse_entry_body` with the option: `if not self.keyless_entries: key = required([key_pattern])`. -/
def parseEntryBodyK (keyless paren : Bool) (s : St) : Res Unit :=
  if keyless then
    match parseEntryFields (s.rest.length + 2) s with
    | .fail e s => .fail e s
    | .ok _ s => if wantCurrent s then .ok () s else .fail .skip s
  else parseEntryBody paren s

/-- `parse_command` of a `LowLevelParser(keyless_entries=keyless)`. -/
def parseCommandK (keyless : Bool) (s : St) : Res Cmd :=
  let s := { s with curKey := none, curFields := [], curFieldName := none, curValue := [] }
  match required [.name] (descOf [.name]) s with
  | .fail e s => .fail e s
  | .ok (_, command) s =>
    match required [.lit '(', .lit '{'] (descOf [.lit '(', .lit '{']) s with
    | .fail e s => .fail e s
    | .ok (open_, _) s =>
      let paren := decide (open_ = .lit '(')
      let bodyEnd : Pat := if paren then .lit ')' else .lit '}'
      let cl := lower command
      if cl = "comment".toList then .fail .skip s
      else
        let kind : CmdKind := if cl = "string".toList then .string else if cl = "preamble".toList then .preamble else .entry
        let body : Res Unit :=
          match kind with
          | .string => parseStringBody s
          | .preamble => parseValue s
          | .entry => parseEntryBodyK keyless paren s
        let afterBody : Res Unit :=
          match body with
          | .fail e s => .fail e s
          | .ok _ s =>
            match required [bodyEnd] (descOf [bodyEnd]) s with
            | .fail e s => .fail e s
            | .ok _ s => .ok () s
        let mk := fun (s : St) => match kind with
          | .string => Cmd.string
          | .preamble => Cmd.preamble s.curValue
          | .entry => Cmd.entry command s.curKey s.curFields
        match afterBody with
        | .ok _ s => .ok (mk s) s
        | .fail (.syn e) s =>
          match handleError s e with
          | .fail a s => .fail a s
          | .ok _ s => .ok (mk s) s
        | .fail a s => .fail a s

/-- `parse_bibliography` driven by `Parser.parse_string` of a `Parser(keyless_entries=keyless)`. -/
def parseLoopK (keyless : Bool) : Nat → St → St × Option Err
  | 0, s => (s, some ⟨.internal, none⟩)
  | fuel + 1, s =>
    match skipToChar (· = '@') s.rest with
    | none => (s, none)
    | some (chunk, rest) =>
      let s := { s with rest := rest, ln := s.ln + countNl chunk }
      match parseCommandK keyless s with
      | .ok c s =>
        match processCmd c s with
        | .ok _ s => parseLoopK keyless fuel s
        | .fail (.raised e) s => (s, some e)
        | .fail (.syn e) s => (s, some e)
        | .fail .skip s => parseLoopK keyless fuel s
      | .fail (.syn e) s =>
        match handleError s e with
        | .ok _ s => parseLoopK keyless fuel s
        | .fail (.raised e) s => (s, some e)
        | .fail _ s => (s, some e)
      | .fail .skip s => parseLoopK keyless fuel s
      | .fail (.raised e) s => (s, some e)

/-- `pybtex.database.parse_string(text, 'bibtex', wanted_entries=…, macros=…, person_fields=…,
keyless_entries=…)`. -/
def parseBibK (keyless : Bool) (text : Str) (strict : Bool) (wanted : Option (List Str))
    (macros0 : List (Str × Str) := Gen.monthMacros) (roles : List Str := Gen.personRoles) : St × Option Err :=
  let db : Db := match wanted with
    | none => {}
    | some w => { wanted := some (CISet.ofList w), citations := CISet.ofList w }
  parseLoopK keyless (text.length + 1)
    { rest := text, macros := CIDict.ofPairs macros0, db := db, strict := strict, roles := roles }

/-- one `Parser(...)` object reading several texts one after the other (`parse_files`, or `parse_string`
called repeatedly): database, macro table, counter of key-less entries and reported problems are kept,
the scanner (text, line number) is new for every text; an error that leaves the reader ends everything. -/
def parseManyK (keyless : Bool) : List Str → St → St × Option Err
  | [], s => (s, none)
  | t :: ts, s =>
    match parseLoopK keyless (t.length + 1) { s with rest := t, ln := 1 } with
    | (s', none) => parseManyK keyless ts s'
    | r => r

def parseBibManyK (keyless : Bool) (texts : List Str) (strict : Bool)
    (macros0 : List (Str × Str) := Gen.monthMacros) (roles : List Str := Gen.personRoles) : St × Option Err :=
  parseManyK keyless texts { rest := [], macros := CIDict.ofPairs macros0, strict := strict, roles := roles }

/-! ### the LowLevelParser alone -/

/-- what `make_result()` hands out, with the two attributes it reads at that moment -/
structure LowItem where
  cmd : Cmd
  fieldName : Option Str
  value : List Str
deriving Repr

/-- `for command in LowLevelParser(text, keyless_entries=…, handle_error=…, macros=…)`: the commands
yielded, the final state and the problem that ended the iteration (strict = the default
`handle_error`, which raises).  `want_entry` is the default (every entry is wanted: `db.wanted = none`). -/
def lowLoop (keyless : Bool) : Nat → List LowItem → St → List LowItem × St × Option Err
  | 0, acc, s => (acc, s, some ⟨.internal, none⟩)
  | fuel + 1, acc, s =>
    match skipToChar (· = '@') s.rest with
    | none => (acc, s, none)
    | some (chunk, rest) =>
      let s := { s with rest := rest, ln := s.ln + countNl chunk }
      match parseCommandK keyless s with
      | .ok c s => lowLoop keyless fuel (acc ++ [⟨c, s.curFieldName, s.curValue⟩]) s
      | .fail (.syn e) s =>
        match handleError s e with
        | .ok _ s => lowLoop keyless fuel acc s
        | .fail (.raised e) s => (acc, s, some e)
        | .fail _ s => (acc, s, some e)
      | .fail .skip s => lowLoop keyless fuel acc s
      | .fail (.raised e) s => (acc, s, some e)

def lowLevel (keyless : Bool) (text : Str) (strict : Bool) (macros0 : List (Str × Str)) :
    List LowItem × St × Option Err :=
  lowLoop keyless (text.length + 1) []
    { rest := text, macros := CIDict.ofPairs macros0, strict := strict }

/-! ### the `Parser` half alone: `process_entry` / `process_preamble` on given commands -/

/-- the body of the `for entry in entry_iterator` loop of `Parser.parse_string`, command by command -/
def processAll : List Cmd → St → St × Option Err
  | [], s => (s, none)
  | c :: cs, s =>
    match processCmd c s with
    | .ok _ s => processAll cs s
    | .fail (.raised e) s => (s, some e)
    | .fail (.syn e) s => (s, some e)
    | .fail .skip s => processAll cs s

/-- `Scanner.get_token(patterns)` / `required(patterns)` on a fresh scanner -/
def tokenAt (pats : List Pat) (text : Str) : Res (Option (Pat × Str)) :=
  getToken pats { rest := text, macros := CIDict.empty }

/-- `LowLevelParser(text, macros=…).parse_value()` on a fresh scanner (the default `handle_error` raises) -/
def valueAt (text : Str) (strict : Bool) (macros0 : List (Str × Str)) : Res Unit :=
  parseValue { rest := text, macros := CIDict.ofPairs macros0, strict := strict }

end Pybtex.Bib
