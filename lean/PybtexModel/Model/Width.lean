/- `charwidths.get(c, 0)` over the table regenerated from /repo. -/
import PybtexModel.Gen.CharWidths
import PybtexModel.Model.TeXString

namespace Pybtex

def widthOf (c : Char) : Int :=
  match Gen.charWidths.lookup c.toNat with
  | some w => w
  | none => 0

def bibtexWidthStd (s : Str) : Option Int := bibtexWidth widthOf s

end Pybtex
