/-
Model of the FILE-NAME and OUTPUT plumbing around the BibTeX engine (property C06: "driving the
engine through an .aux file produces byte-for-byte what the equivalent explicit call produces"
– this file says WHERE both write and WHICH files both read):

* `os.path.splitext` (posixpath: `genericpath._splitext(p, '/', None, '.')`), used by
  `Engine.make_bibliography` (`base_filename = path.splitext(aux_filename)[0]`) and by
  `PybtexCommandLine.run` (`ext = path.splitext(filename)[1]`);
* `PybtexCommandLine.run` (`pybtex/__main__.py`): the `.aux` name the command line hands on, the
  style-language / Pythonic-option checks, the encoding defaults;
* `Engine.make_bibliography` (`pybtex/__init__.py`): names of the `.bib` files, of the output file;
* the tail of `BibTeXEngine.format_from_files` (`pybtex/bibtex/__init__.py`): `style + extsep + 'bst'`,
  `add_output_suffix`, `if output_filename:` file or returned string.

The suffix / separator literals come from `Gen/EngineConsts.lean` (regenerated from /repo and the
running interpreter on every run).
-/
import PybtexModel.Model.Basic
import PybtexModel.Gen.EngineConsts

namespace Pybtex.EnginePaths

/-- `p.rfind(c)` for a one-character `c`: the highest index holding `c`, `-1` when there is none -/
def rfind (c : Char) : Str → Int
  | [] => -1
  | x :: xs =>
    if rfind c xs ≥ 0 then rfind c xs + 1
    else if x = c then 0 else -1

/-- the `while filenameIndex < dotIndex` loop of `genericpath._splitext` over the characters
`p[sepIndex+1 : dotIndex]`: `true` = it met a character other than the extension separator
(and returned the split), `false` = it ran off the end (only leading dots in front of the last dot) -/
def metNonDot (extsep : Char) : Str → Bool
  | [] => false
  | c :: cs => if c ≠ extsep then true else metNonDot extsep cs

/-- `genericpath._splitext(p, sep, None, extsep)` -/
def splitextWith (sep extsep : Char) (p : Str) : Str × Str :=
  let sepIndex := rfind sep p
  let dotIndex := rfind extsep p
  if dotIndex > sepIndex then
    if metNonDot extsep ((p.drop (sepIndex + 1).toNat).take (dotIndex - (sepIndex + 1)).toNat) then
      (p.take dotIndex.toNat, p.drop dotIndex.toNat)
    else (p, [])
  else (p, [])

/-- `os.path.splitext` of the platform the check runs on (`os.sep`, `os.extsep` from the generated table;
`os.altsep` is `None` there – checked by the table generator) -/
def splitext (p : Str) : Str × Str := splitextWith Gen.osSep Gen.osExtsep p

/-- `path.extsep.join([filename, 'aux'])` -/
def addExt (name ext : Str) : Str := name ++ [Gen.osExtsep] ++ ext

/-- `PybtexCommandLine.run`: `ext = path.splitext(filename)[1]; if ext != '.aux': filename = extsep.join([filename, 'aux'])` -/
def cliAuxName (filename : Str) : Str :=
  if (splitext filename).2 ≠ Gen.cliAuxExt then addExt filename Gen.cliAuxWord else filename

/-- `BibTeXEngine.format_from_files`: `bst_filename = style + path.extsep + 'bst'` -/
def bstName (style : Str) : Str := style ++ [Gen.osExtsep] ++ Gen.bstWord

/-- `Engine.make_bibliography`: `[filename + bib_format.default_suffix for filename in aux_data.data]` -/
def bibNames (data : List Str) (suffix : Str) : List Str := data.map (· ++ suffix)

/-- where `format_from_files` puts the `.bbl` text -/
inductive Target where
  | returned                 -- a `StringIO`: the text is the return value
  | file (name : Str)        -- `pybtex.io.open_unicode(name, 'w', …)`: the text is written, `None` is returned
deriving Repr, DecidableEq

/-- the tail of `format_from_files`:
`if add_output_suffix: output_filename = output_filename + '.bbl'` (a `TypeError` when it is `None`),
`if output_filename:` (a non-empty string) file, else `StringIO` -/
def outputTarget (outputFilename : Option Str) (addOutputSuffix : Bool) : Except Unit Target :=
  match addOutputSuffix, outputFilename with
  | true, none => .error ()
  | true, some n => if n ++ Gen.bblSuffix = [] then .ok .returned else .ok (.file (n ++ Gen.bblSuffix))
  | false, none => .ok .returned
  | false, some n => if n = [] then .ok .returned else .ok (.file n)

/-- the file names of one `make_bibliography(aux_filename, style=…, bib_format=…)` call, given what
the `.aux` reader found -/
structure Plan where
  bst : Str
  bibs : List Str
  target : Except Unit Target
deriving Repr

/-- `Engine.make_bibliography`: `base_filename = path.splitext(aux_filename)[0]`,
`output_filename=base_filename, add_output_suffix=True` -/
def makeBibliographyPlan (auxFilename : Str) (auxStyle : Str) (auxData : List Str)
    (styleOverride : Option Str) (suffix : Str) : Plan :=
  { bst := bstName (styleOverride.getD auxStyle),
    bibs := bibNames auxData suffix,
    target := outputTarget (some (splitext auxFilename).1) true }

/-! ### `PybtexCommandLine.run` -/

/-- the options `run` looks at (optparse leaves an option that was not given at `None`; a string
option given as `''` is falsy too) -/
structure CliOptions where
  styleLanguage : Str
  encoding : Option Str
  bibEncoding : Option Str
  bstEncoding : Option Str
  outputEncoding : Option Str
  /-- the five Pythonic-engine options, in the order of the dict `not_supported_by_bibtex`:
  `true` = given with a truthy value -/
  pythonic : List Bool

inductive CliErr where
  | unknownLanguage (l : Str)          -- `opt_parser.error('unknown style language %s')`
  | notSupported (what : Str)          -- `'%s are only supported by the Pythonic style engine (-l python)'`
deriving Repr, DecidableEq

/-- what `run` calls `engine.make_bibliography` with -/
structure CliCall where
  python : Bool                        -- `import pybtex as engine` instead of `pybtex.bibtex`
  filename : Str
  bibEncoding : Option Str
  bstEncoding : Option Str
  outputEncoding : Option Str
deriving Repr, DecidableEq

/-- Python truthiness of an optional string option -/
def truthy : Option Str → Bool
  | none => false
  | some s => s ≠ []

/-- `if not options[o]: options[o] = encoding` -/
def encDefault (own encoding : Option Str) : Option Str := if truthy own then own else encoding

/-- the first unsupported option of `not_supported_by_bibtex` (dict order) that is set -/
def firstUnsupported : List Str → List Bool → Option Str
  | w :: ws, b :: bs => if b then some w else firstUnsupported ws bs
  | _, _ => none

def cliRun (filename : Str) (o : CliOptions) : Except CliErr CliCall :=
  if o.styleLanguage ≠ Gen.cliLangBibtex ∧ o.styleLanguage ≠ Gen.cliLangPython then
    .error (.unknownLanguage o.styleLanguage)
  else
    match (if o.styleLanguage ≠ Gen.cliLangPython then firstUnsupported Gen.cliNotSupported o.pythonic else none) with
    | some w => .error (.notSupported w)
    | none =>
      .ok { python := o.styleLanguage = Gen.cliLangPython,
            filename := cliAuxName filename,
            bibEncoding := encDefault o.bibEncoding o.encoding,
            bstEncoding := encDefault o.bstEncoding o.encoding,
            outputEncoding := encDefault o.outputEncoding o.encoding }

end Pybtex.EnginePaths
