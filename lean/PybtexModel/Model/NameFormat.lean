/-
Model of `pybtex/bibtex/names.py`: `NameFormatParser` (`parse`, `parse_toplevel`,
`parse_name_part`, `parse_braced_string`, `check_format_chars`), `NamePart.__init__` /
`NamePart.format`, `join`, `tie_or_space`, `NameFormat.format` = `format_name`.
(`NamePart.__init__` after the repair: the format letters are lower-cased.)

Character classes: the patterns `NON_LETTERS = [^{}\w]|\d+` and `FORMAT_CHARS = [^\W\d_]+` are
Unicode-aware; `isWordU` / `isDecU` / `isFmtCh` (`Model/NameFormatChars.lean`) are the running
interpreter's `\w` / `\d` tables.  `check_format_chars` and `NamePart.__init__` call
`str.lower()` on the letter run; the model applies the ASCII lower-casing `lower`: the run is
accepted only if its lower-case form is one of f ff l ll v vv j jj, and no non-ASCII character
has one of these four letters in its lower-case form (re-checked against the interpreter by
`harness/tablegen/c11.py` on every run), so the two lower-casings accept the same runs.
`bibtex_abbreviate` / `bibtex_first_letter` use `str.isalpha` (`bibtexAbbreviateU`).
-/
import PybtexModel.Model.NameFormatChars

namespace Pybtex
open NFChars

inductive FmtErr where
  | unbalanced       -- UnbalancedBraceError
  | prematureEOF     -- PrematureEOF (from `optional([LBRACE])` right after the letters)
  | tokenRequired    -- TokenRequired: a character no pattern accepts (`_`)
  | illegalLetters   -- PybtexSyntaxError: illegal brace-level-1 letters
  | tooDeep          -- BibTeXError('too many nested braces') from the string primitives
  | internal         -- anything that would be a non-pybtex exception (shown unreachable)
deriving Repr, DecidableEq

inductive FmtPart where
  | text (s : Str)
  | part (pre : Str) (fc : Option Str) (delim : Option Str) (post : Str)
deriving Repr, DecidableEq

/-- `''.join(parse_braced_string())`: raw text up to the matching `}`; `none` = end of input. -/
def takeBraced : Nat → Str → Option (Str × Str)
  | _, [] => none
  | d, c :: r =>
    if c = '}' then
      if d = 0 then some ([], r)
      else (takeBraced (d - 1) r).map fun p => (c :: p.1, p.2)
    else if c = '{' then (takeBraced (d + 1) r).map fun p => (c :: p.1, p.2)
    else (takeBraced d r).map fun p => (c :: p.1, p.2)

/-- `check_format_chars`. -/
def formatCharsOk (already : Bool) (run : Str) : Bool :=
  let v := lower run
  !already && (v.length = 1 || v.length = 2) &&
    (match v.head?, v.getLast? with
     | some a, some b => a = b && (a = 'f' || a = 'l' || a = 'v' || a = 'j')
     | _, _ => false)

/-- the `while True` loop of `parse_name_part`; fuel = remaining length + 1. -/
def namePartLoop : Nat → Str → Str → Option Str → Option Str → Str → Except FmtErr (FmtPart × Str)
  | 0, _, _, _, _, _ => .error .internal
  | _ + 1, [], _, _, _, _ => .error .unbalanced
  | fuel + 1, c :: r, pre, fc, delim, post =>
    if c = '{' then
      match takeBraced 0 r with
      | none => .error .unbalanced
      | some (content, rest) =>
        let v := ['{'] ++ content ++ ['}']
        if fc.isSome then namePartLoop fuel rest pre fc delim (post ++ v)
        else namePartLoop fuel rest (pre ++ v) fc delim post
    else if c ≠ '}' ∧ !isWordU c then
      if fc.isSome then namePartLoop fuel r pre fc delim (post ++ [c])
      else namePartLoop fuel r (pre ++ [c]) fc delim post
    else if isDecU c then
      let run := (c :: r).takeWhile isDecU
      let rest := (c :: r).dropWhile isDecU
      if fc.isSome then namePartLoop fuel rest pre fc delim (post ++ run)
      else namePartLoop fuel rest (pre ++ run) fc delim post
    else if isFmtCh c then
      let run := (c :: r).takeWhile isFmtCh
      let rest := (c :: r).dropWhile isFmtCh
      if !formatCharsOk fc.isSome run then .error .illegalLetters
      else
        match rest with
        | [] => .error .prematureEOF
        | '{' :: rest' =>
          match takeBraced 0 rest' with
          | none => .error .unbalanced
          | some (d, rest'') => namePartLoop fuel rest'' pre (some run) (some d) post
        | _ => namePartLoop fuel rest pre (some run) delim post
    else if c = '}' then .ok (.part pre fc delim post, r)
    else .error .tokenRequired

/-- `NameFormatParser.parse`; fuel = remaining length + 1. -/
def parseFormatAux : Nat → Str → Except FmtErr (List FmtPart)
  | 0, _ => .error .internal
  | _ + 1, [] => .ok []
  | fuel + 1, c :: r =>
    if c = '{' then
      match namePartLoop (r.length + 1) r [] none none [] with
      | .error e => .error e
      | .ok (p, rest) =>
        match parseFormatAux fuel rest with
        | .error e => .error e
        | .ok ps => .ok (p :: ps)
    else if c = '}' then .error .unbalanced
    else
      let run := (c :: r).takeWhile fun x => x ≠ '{' ∧ x ≠ '}'
      let rest := (c :: r).dropWhile fun x => x ≠ '{' ∧ x ≠ '}'
      match parseFormatAux fuel rest with
      | .error e => .error e
      | .ok ps => .ok (.text run :: ps)

def parseFormat (fmt : Str) : Except FmtErr (List FmtPart) := parseFormatAux (fmt.length + 1) fmt

/-! ### formatting -/

def enoughChars : Nat := 3

def rstripTilde (s : Str) : Str := (s.reverse.dropWhile (· = '~')).reverse

def endsWith (s suf : Str) : Bool := suf.isSuffixOf s

/-- `tie_or_space(word, tie, space)`; `none` = BibTeXError from `bibtex_len`. -/
def tieOrSpace (word tie space : Str) : Option Str :=
  (bibtexLen word).map fun n => if n < enoughChars then tie else space

/-- `join(words, tie, space)`. -/
def joinNames (words : List Str) (tie space : Str) : Option Str :=
  if words.length ≤ 2 then some (joinWith tie words)
  else
    match words with
    | w0 :: rest =>
      (tieOrSpace w0 tie space).map fun ts =>
        w0 ++ ts ++ joinWith space rest.dropLast ++ tie ++ (rest.drop (rest.length - 1)).flatten
    | [] => some []

def Person.getPart (p : Person) (c : Char) : Option (List Str) :=
  if c = 'f' then some p.bibtexFirst
  else if c = 'l' then some p.last
  else if c = 'v' then some p.prelast
  else if c = 'j' then some p.lineage
  else none   -- KeyError (unreachable after the repair)

/-- `NamePart(format_list).format(person)`. -/
def formatPart (person : Person) (pre0 : Str) (fc0 : Option Str) (delim : Option Str) (post0 : Str) : Except FmtErr Str :=
  let noFc := fc0.isNone
  let (pre, post1) := if noFc ∧ pre0 ≠ [] ∧ post0 = [] then (([] : Str), pre0) else (pre0, post0)
  let tie2 := endsWith post1 ['~', '~']
  let tie1 := !tie2 && endsWith post1 ['~']
  let post := rstripTilde post1
  -- format letters (lower-cased): one letter = abbreviate, two equal letters = full
  let fcl : Str := match fc0 with | none => [] | some f => lower f
  let abbrOk : Except FmtErr Bool :=
    if noFc then .ok false
    else if fcl.length = 1 then .ok true
    else if fcl.length = 2 ∧ fcl.head? = fcl.getLast? then .ok false
    else .error .internal   -- BibTeXNameFormatError
  match abbrOk with
  | .error e => .error e
  | .ok abbreviate =>
    let namesE : Except FmtErr (List Str) :=
      match fcl.head? with
      | none => .ok []
      | some c => match person.getPart c with | some l => .ok l | none => .error .internal
    match namesE with
    | .error e => .error e
    | .ok names =>
      if !noFc ∧ names = [] then .ok []
      else
        let abbrNames : Option (List Str) :=
          if abbreviate then names.mapM fun n => bibtexAbbreviateU n delim else some names
        match abbrNames with
        | none => .error .tooDeep
        | some ns =>
          let joined : Option Str :=
            match delim with
            | none => if abbreviate then joinNames ns ['.', '~'] ['.', ' '] else joinNames ns ['~'] [' ']
            | some d => some (joinWith d ns)
          match joined with
          | none => .error .tooDeep
          | some j =>
            let formatted := pre ++ j ++ post
            if tie1 then
              match tieOrSpace formatted ['~'] [' '] with
              | none => .error .tooDeep
              | some d => .ok (formatted ++ d)
            else if tie2 then .ok (formatted ++ ['~'])
            else .ok formatted

def formatParts (person : Person) : List FmtPart → Except FmtErr Str
  | [] => .ok []
  | .text s :: r =>
    match formatParts person r with
    | .error e => .error e
    | .ok t => .ok (s ++ t)
  | .part pre fc delim post :: r =>
    match formatPart person pre fc delim post with
    | .error e => .error e
    | .ok s =>
      match formatParts person r with
      | .error e => .error e
      | .ok t => .ok (s ++ t)

/-- `format_name(name, format)`; the `Bool` is "too many commas was reported" from `Person(name)`. -/
def formatName (name fmt : Str) : Except FmtErr (Str × Bool) :=
  match parseFormat fmt with
  | .error e => .error e
  | .ok parts =>
    match mkPerson name [] [] [] [] [] with
    | .error .tooDeep => .error .tooDeep
    | .error _ => .error .internal
    | .ok (person, rep) =>
      match formatParts person parts with
      | .error e => .error e
      | .ok s => .ok (s, rep)

/-! ### the `format.name$` built-in -/

/-- what the built-in leaves on the stack -/
inductive NthOut where
  | noSuchName                          -- warning "there is no name number n in …", `''` is pushed
  | formatted (s : Str) (rep : Bool)    -- the formatted name; `rep` = "too many commas" was reported
deriving Repr, DecidableEq

/-- `format.name$` of `pybtex/bibtex/builtins.py` on string operands `names n format`
(`format_name` → `_format_name` → memoised `_format_name_and_reports` / `_split_names`; after
the repair a name number outside `1..count` gives a warning and the empty string): the name
list is split at brace-level-0 ` and ` (`split_name_list`), the `n`-th name (counted from 1) is
formatted with `format_name`.  (Operands of other types: `Model/Interp.lean`, C03.) -/
def formatNth (names : Str) (n : Int) (fmt : Str) : Except FmtErr NthOut :=
  let l := splitNameList names
  if ¬ (1 ≤ n ∧ n ≤ (l.length : Int)) then .ok .noSuchName
  else
    match l[(n - 1).toNat]? with       -- `_split_names(names)[n - 1]` with `n ≥ 1`
    | none => .error .internal          -- IndexError (unreachable)
    | some name =>
      match formatName name fmt with
      | .error e => .error e
      | .ok (s, rep) => .ok (.formatted s rep)

end Pybtex
