/-
Model of `pybtex/bibtex/utils.py` (everything except `wrap`, which is `Model/Wrap.lean`):
`BibTeXString` / `scan_bibtex_string`, `bibtex_len`, `bibtex_prefix`, `bibtex_substring`,
`bibtex_purify`, `change_case`, `bibtex_width`, `_find_closing_brace`, `split_tex_string`,
`split_name_list`, `bibtex_first_letter`, `bibtex_abbreviate`.

`BibTeXString(chars)` builds a tree eagerly (so the nesting guard fires for the whole string)
and `traverse` walks it; the model is the equivalent single left-to-right pass with an explicit
mode: normal text at brace depth `d`, or inside a *special character* (a group opened at depth
0 whose first character is a backslash), whose raw inner text is one token.
`none` = `BibTeXError('too many nested braces')`.
-/
import PybtexModel.Model.Basic

namespace Pybtex

/-- A token of `scan_bibtex_string`: text (one character, or the inner text of a special
character) and brace level. -/
abbrev Tok := Str × Nat

def maxLevel : Nat := 100

inductive ScanMode where
  | norm (d : Nat)
  | spec (k : Nat) (acc : Str)   -- inside a special character: nesting level `k ≥ 1`, inner text so far

/-- `scan_bibtex_string` as one pass.  An unclosed special character still gets its closing
token (the code's `traverse` emits `close(child)` unconditionally for special characters). -/
def scanM : ScanMode → Str → Option (List Tok)
  | .norm _, [] => some []
  | .spec _ acc, [] => some [(acc, 1), (['}'], 0)]
  | .norm d, c :: r =>
    if c = '{' then
      if d = 0 ∧ r.head? = some '\\' then (scanM (.spec 1 []) r).map ((['{'], 1) :: ·)
      else if d ≥ maxLevel then none
      else (scanM (.norm (d + 1)) r).map ((['{'], d + 1) :: ·)
    else if c = '}' ∧ d > 0 then (scanM (.norm (d - 1)) r).map ((['}'], d - 1) :: ·)
    else (scanM (.norm d) r).map (([c], d) :: ·)
  | .spec k acc, c :: r =>
    if c = '{' then
      if k ≥ maxLevel then none else scanM (.spec (k + 1) (acc ++ [c])) r
    else if c = '}' then
      if k ≤ 1 then (scanM (.norm 0) r).map fun t => (acc, 1) :: (['}'], 0) :: t
      else scanM (.spec (k - 1) (acc ++ [c])) r
    else scanM (.spec k (acc ++ [c])) r

def scan (s : Str) : Option (List Tok) := scanM (.norm 0) s

/-- `char not in '{}'` for a token. -/
def isBraceTok (t : Str) : Bool := t = ['{'] || t = ['}']

/-- `bibtex_len`. -/
def bibtexLen (s : Str) : Option Nat := (scan s).map fun toks => (toks.filter fun t => !isBraceTok t.1).length

/-- body of `bibtex_prefix.prefix()`: `len` = characters counted so far. -/
def prefixAux (n : Int) : Nat → List Tok → Str
  | _, [] => []
  | len, (t, l) :: r =>
    let len' := if isBraceTok t then len else len + 1
    if (len' : Int) ≥ n then t ++ List.replicate l '}'
    else
      match r with
      | [] => t ++ List.replicate l '}'
      | _ => t ++ prefixAux n len' r

/-- `bibtex_prefix` (after the repair: nothing for `n ≤ 0` and for the empty string). -/
def bibtexPrefix (s : Str) (n : Int) : Option Str :=
  if n ≤ 0 then some [] else (scan s).map fun toks => prefixAux n 0 toks

/-- `bibtex_substring` (after the repair: both slice bounds are clamped at 0). -/
def bibtexSubstring (s : Str) (start len : Int) : Str :=
  if start > 0 then
    let start0 := start - 1
    let end0 := start0 + len
    pySlice s (max start0 0) (max end0 0)
  else if start < 0 then
    let end0 := (s.length : Int) + start + 1
    let start0 := end0 - len
    pySlice s (max start0 0) (max end0 0)
  else []

/-- `purify_special_char_re.sub('', token)`: strip a leading control word `\letters`. -/
def stripCtrlWord : Str → Str
  | '\\' :: r =>
    let r' := r.dropWhile isAlpha
    if r'.length < r.length then r' else '\\' :: r
  | t => t

def startsWithBackslash (t : Str) : Bool := t.head? = some '\\'

def purifyTok (t : Tok) : Str :=
  if t.2 = 1 ∧ startsWithBackslash t.1 then (stripCtrlWord t.1).filter isAlnum
  else if t.1 ≠ [] ∧ t.1.all isAlnum then t.1
  else if (t.1 ≠ [] ∧ t.1.all isWs) ∨ t.1 = ['-'] ∨ t.1 = ['~'] then [' ']
  else []

/-- `bibtex_purify`. -/
def bibtexPurify (s : Str) : Option Str := (scan s).map fun toks => (toks.map purifyTok).flatten

inductive CaseMode | l | u | t
deriving DecidableEq, Repr
inductive CaseState | start | afterColon | normal
deriving DecidableEq, Repr

def convertStr (m : CaseMode) (st : CaseState) (w : Str) : Str :=
  match m with
  | .l => lower w
  | .u => upper w
  | .t => if st = .start then w else lower w

/-- `str.split(' ')`. -/
def splitSpace : Str → List Str
  | [] => [[]]
  | c :: r =>
    if c = ' ' then [] :: splitSpace r
    else match splitSpace r with
      | [] => [[c]]
      | w :: ws => (c :: w) :: ws

def convertSpecial (m : CaseMode) (st : CaseState) (tok : Str) : Str :=
  joinWith [' '] ((splitSpace tok).map fun w => if startsWithBackslash w then w else convertStr m st w)

def changeCaseAux (m : CaseMode) : CaseState → List Tok → Str
  | _, [] => []
  | st, (t, 0) :: r =>
    convertStr m st t ++
      changeCaseAux m (if t = [':'] then .afterColon
                       else if (t ≠ [] ∧ t.all isWs) ∧ st = .afterColon then .start
                       else .normal) r
  | st, (t, l + 1) :: r =>
    (if l + 1 = 1 ∧ startsWithBackslash t then convertSpecial m st t else t) ++ changeCaseAux m st r

/-- `change_case`. -/
def changeCase (s : Str) (m : CaseMode) : Option Str := (scan s).map (changeCaseAux m .start)

/-- `bibtex_width` over a width table (`charwidths.get(c, 0)`): what one item of the scan adds.
After the repair proposed_fixes/C03-2 a brace-level-1 item that starts with a backslash is the text
of a special character only when it directly follows the item `('{', 1)` of the brace that opens it
(`afterOpen` = `previous == ('{', 1)`); a backslash further inside an ordinary group, which the
scanner hands out as an item of its own, counts with its own width like every other character. -/
def widthTok (w : Char → Int) (afterOpen : Bool) (t : Tok) : Int :=
  if t.2 = 1 ∧ startsWithBackslash t.1 ∧ afterOpen = true then
    ((t.1.drop 2).filter fun c => c ≠ '{' ∧ c ≠ '}').foldl (fun a c => a + w c) 0 - 1000
  else match t.1 with
    | [c] => w c
    | _ => 0

/-- the loop of `bibtex_width` over the items of the scan -/
def widthToks (w : Char → Int) : Bool → List Tok → Int
  | _, [] => 0
  | afterOpen, t :: r => widthTok w afterOpen t + widthToks w (decide (t = (['{'], 1))) r

def bibtexWidth (w : Char → Int) (s : Str) : Option Int :=
  (scan s).map fun toks => widthToks w false toks

/-! ### `_find_closing_brace` and `split_tex_string` -/

/-- `acc` = text consumed up to and including the last brace seen, `pending` = text since.
(After the repair proposed_fixes/C12-1: when the string ends before the group is closed, the
whole rest belongs to the group; before, the text after the last brace was handed back to the
caller — and split at brace level 0 — whenever the unclosed group contained a brace.) -/
def fcbAux : Nat → Str → Str → Str → Str × Str
  | _, acc, pending, [] => (acc ++ pending, [])
  | level, acc, pending, c :: r =>
    if c = '{' then fcbAux (level + 1) (acc ++ pending ++ [c]) [] r
    else if c = '}' then
      if level ≤ 1 then (acc ++ pending ++ [c], r) else fcbAux (level - 1) (acc ++ pending ++ [c]) [] r
    else fcbAux level acc (pending ++ [c]) r

def findClosingBrace (s : Str) : Str × Str := fcbAux 1 [] [] s

/-- The separators `split_tex_string` is called with in the package. -/
inductive Sep | space | comma | hyphen | and
deriving DecidableEq, Repr

/-- length of the longest run of `(?:\\ |\s|(?<!\\)~)` starting here; `prev` = previous character. -/
def spaceRun : Option Char → Str → Nat
  | _, [] => 0
  | prev, c :: r =>
    if c = '\\' then
      match r with
      | ' ' :: r' => 2 + spaceRun (some ' ') r'
      | _ => 0
    else if isWs c then 1 + spaceRun (some c) r
    else if c = '~' ∧ prev ≠ some '\\' then 1 + spaceRun (some c) r
    else 0

def isAndAt (s : Str) : Bool :=
  match s with
  | ' ' :: a :: n :: d :: ' ' :: _ => (a = 'a' || a = 'A') && (n = 'n' || n = 'N') && (d = 'd' || d = 'D')
  | _ => false

/-- length of the separator match at this position (0 = none). -/
def sepMatch (sep : Sep) (prev : Option Char) (s : Str) : Nat :=
  match sep with
  | .space => spaceRun prev s
  | .comma => if s.head? = some ',' then 1 else 0
  | .hyphen => if s.head? = some '-' then 1 else 0
  | .and => if isAndAt s then 5 else 0

/-- `re.split(sep, s)`: fuel = length of the remaining text; `cur` = current piece. -/
def reSplitAux (sep : Sep) : Nat → Option Char → Str → Str → List Str
  | 0, _, cur, _ => [cur]
  | _ + 1, _, cur, [] => [cur]
  | fuel + 1, prev, cur, c :: r =>
    let n := sepMatch sep prev (c :: r)
    if n = 0 then reSplitAux sep fuel (some c) (cur ++ [c]) r
    else cur :: reSplitAux sep fuel ((c :: r)[n - 1]?) [] ((c :: r).drop n)

def reSplit (sep : Sep) (s : Str) : List Str := reSplitAux sep (s.length + 1) none [] s

/-- main loop of `split_tex_string`; `wp` = `word_parts` (`none` = empty list, `some w` = joined). -/
def splitLoop (sep : Sep) : Nat → Str → List Str → Option Str → List Str
  | 0, _, result, wp => match wp with | none => result | some w => result ++ [w]
  | fuel + 1, s, result, wp =>
    let head := s.takeWhile (· ≠ '{')
    let afterHead := s.dropWhile (· ≠ '{')
    let (result, wp) :=
      if head ≠ [] then
        let parts := reSplit sep head
        let pre := match wp with | none => [] | some w => w
        match parts with
        | [] => (result, wp)   -- unreachable: `re.split` returns at least one piece
        | [p] => (result, some (pre ++ p))
        | p :: ps => (result ++ [pre ++ p] ++ ps.dropLast, ps.getLast?)
      else (result, wp)
    match afterHead with
    | [] => match wp with | none => result | some w => result ++ [w]
    | _ :: rest =>
      let fc := findClosingBrace rest
      let pre := match wp with | none => [] | some w => w
      splitLoop sep fuel fc.2 result (some (pre ++ ['{'] ++ fc.1))

/-- `split_tex_string(s, sep)` with `strip=True`; `filter_empty` only for the default separator. -/
def splitTex (sep : Sep) (s : Str) : List Str :=
  let raw := splitLoop sep (s.length + 1) s [] none
  let stripped := raw.map strip
  if sep = .space then stripped.filter (· ≠ []) else stripped

def splitNameList (s : Str) : List Str := splitTex .and s

/-- unstripped pieces (`strip=False`), for the theorems about what is dropped. -/
def splitTexRaw (sep : Sep) (s : Str) : List Str := splitLoop sep (s.length + 1) s [] none

/-- `bibtex_first_letter`: iterating `BibTeXString(string)` yields `f(char)` only (no braces). -/
def firstLetterAux : List Tok → Str
  | [] => []
  | (t, _) :: r =>
    if isBraceTok t then firstLetterAux r
    else if startsWithBackslash t ∧ t ≠ ['\\'] then ['{'] ++ t ++ ['}']
    else if t ≠ [] ∧ t.all isAlpha then t
    else firstLetterAux r

def bibtexFirstLetter (s : Str) : Option Str := (scan s).map firstLetterAux

/-- `bibtex_abbreviate(string, delimiter, separator='-')`; `delim = none` is the default `'.-'`. -/
def bibtexAbbreviate (s : Str) (delim : Option Str) : Option Str := do
  let letters ← (splitTex .hyphen s).mapM bibtexFirstLetter
  pure (joinWith (delim.getD ['.', '-']) (letters.filter (· ≠ [])))

end Pybtex
