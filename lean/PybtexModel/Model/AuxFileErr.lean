/-
The `.aux` reader with the globals of `pybtex.errors` THREADED through it (property C20, audit 2 finding on
`C20_modes`): every `report_error(e)` of `pybtex/auxfile.py` goes through `Errors.report` (the model of C16) and the
NEXT report sees the `Errors.State` the previous one left behind — `strict`, `error_code`, `captured_errors`.
Nothing is recomputed from a channel: the reader starts in ANY module state `s0` (also `error_code ≠ 0`, also inside an
open `capture()` that has collected something already) and hands back the module state after the parse together with
what each `report_error` call did (`Errors.Obs`: collected / printed as a warning / raised).

`TS.aux` is the `AuxData` object; its field `reports` is never written by this reader (`St.init` has `[]`): where the
reports went is decided by `Errors.report` alone.  `chan` reads the channel back OUT of the error state: the part of
`captured_errors` added since the start resp. the warnings printed; `TS.view` is the state of `parseG` this amounts to.
Control flow is that of `Model/AuxFileIO.lean` (`…G`), function by function.
-/
import PybtexModel.Model.AuxFileIO

namespace Pybtex.Aux

/-- the `AuxData` object, the globals of `pybtex.errors`, what each `report_error` call did so far (in order) -/
structure TS where
  aux : St
  err : Errors.State Report
  obs : List (Errors.Obs Report)
deriving Repr, DecidableEq

/-- an exception left the parse: the module state and the observations by then -/
structure TAbort where
  fatal : Fatal
  err : Errors.State Report
  obs : List (Errors.Obs Report)
deriving Repr, DecidableEq

/-- `report_error(e)` on the current module state; the state it returns is the one the parse goes on with -/
def reportT (t : TS) (e : Report) : Except TAbort TS :=
  let r := Errors.report t.err e
  match r.2 with
  | .collected => .ok { t with err := r.1, obs := t.obs ++ [.collected] }
  | .printed e' => .ok { t with err := r.1, obs := t.obs ++ [.printed e'] }
  | .raised e' => .error ⟨.aux e', r.1, t.obs ++ [.raised e']⟩
  | _ => .error ⟨.attributeError, r.1, t.obs⟩

def TS.setAux (t : TS) (a : St) : TS := { t with aux := a }

def citeKeyT (ctx : Ctx) (t : TS) (key : Str) : Except TAbort TS :=
  let keyLower := lowerPy key
  let r : Except TAbort TS :=
    match dget t.aux.canonical keyLower with
    | some existing =>
      if key ≠ existing then reportT t (mkError (.caseMismatch key existing) ctx) else .ok t
    | none => .ok t
  match r with
  | .error a => .error a
  | .ok t =>
    .ok (t.setAux { t.aux with citations := t.aux.citations ++ [key], canonical := dset t.aux.canonical keyLower key })

def citeKeysT (ctx : Ctx) : List Str → TS → Except TAbort TS
  | [], t => .ok t
  | k :: ks, t =>
    match citeKeyT ctx t k with
    | .error a => .error a
    | .ok t' => citeKeysT ctx ks t'

def handleCitationT (ctx : Ctx) (t : TS) (keys : Str) : Except TAbort TS :=
  citeKeysT ctx (pySplit ',' keys) t

def handleBibstyleT (ctx : Ctx) (t : TS) (style : Str) : Except TAbort TS :=
  match t.aux.style with
  | some _ => reportT t (mkError .anotherBibstyle ctx)
  | none => .ok (t.setAux { t.aux with style := some style })

def handleBibdataT (ctx : Ctx) (t : TS) (bibdata : Str) : Except TAbort TS :=
  match t.aux.data with
  | some _ => reportT t (mkError .anotherBibdata ctx)
  | none => .ok (t.setAux { t.aux with data := some (pySplit ',' bibdata) })

def handleCommandT (inp : TS → Path → Except TAbort TS) (ctx : Ctx) (t : TS) (cmd : Cmd) (value : Str) :
    Except TAbort TS :=
  match cmd with
  | .citation => handleCitationT ctx t value
  | .bibstyle => handleBibstyleT ctx t value
  | .bibdata => handleBibdataT ctx t value
  | .input => inp t value

def parseLineT (inp : TS → Path → Except TAbort TS) (t : TS) (line : Str) (lineno : Nat) : Except TAbort TS :=
  match t.aux.context with
  | none => .error ⟨.attributeError, t.err, t.obs⟩
  | some c =>
    let ctx : Ctx := { c with lineno := some lineno, line := some (strip line) }
    let t := t.setAux { t.aux with context := some ctx }
    match matchCommand line with
    | some (cmd, value) => handleCommandT inp ctx t cmd value
    | none => .ok t

def parseLinesT (inp : TS → Path → Except TAbort TS) : List Str → Nat → TS → Except TAbort TS
  | [], _, t => .ok t
  | line :: rest, lineno, t =>
    match parseLineT inp t line lineno with
    | .error e => .error e
    | .ok t' => parseLinesT inp rest (lineno + 1) t'

/-- the epilogue of `parse_file` (`finish` of `Model/AuxFile.lean`: it reports nothing, it raises) -/
def finishT (previous : Option Ctx) (toplevel : Bool) (t : TS) : Except TAbort TS :=
  match finish previous toplevel t.aux with
  | .error a => .error ⟨a.fatal, t.err, t.obs⟩
  | .ok a => .ok (t.setAux a)

/-- `AuxData.parse_file(filename, toplevel)` -/
def parseFileT (fs : FS) : Nat → TS → Path → Bool → Except TAbort TS
  | 0, t, _, _ => .error ⟨.outOfFuel, t.err, t.obs⟩
  | fuel + 1, t, filename, toplevel =>
    let previous := t.aux.context
    let t := t.setAux { t.aux with context := some (Ctx.new filename) }
    match fs filename with
    | none => .error ⟨.cannotOpen filename, t.err, t.obs⟩
    | some lines =>
      match parseLinesT (fun s p => parseFileT fs fuel s p false) lines 1 t with
      | .error e => .error e
      | .ok t => finishT previous toplevel t

/-- module-level `parse_file(filename)` called while the globals of `pybtex.errors` are `s0` -/
def parseT (fs : FS) (s0 : Errors.State Report) (fuel : Nat) (filename : Path) : Except TAbort TS :=
  parseFileT fs fuel ⟨St.init, s0, []⟩ filename true

/-! ### reading the result -/

/-- the reporting mode a module state amounts to (`report_error` tests `captured_errors` first, then `strict`) -/
def modeOf (s0 : Errors.State Report) : Mode :=
  match s0.captured with
  | some _ => .capture
  | none => if s0.strict then .strict else .nonStrict

/-- the channel read back from the error state: what `captured_errors` gained since the start (a capture context is
open) resp. the warnings that were printed -/
def chan (s0 err : Errors.State Report) (obs : List (Errors.Obs Report)) : List Report :=
  match s0.captured with
  | some l0 =>
    match err.captured with
    | some l => l.drop l0.length
    | none => []
  | none => Errors.printedOf obs

def TS.view (s0 : Errors.State Report) (t : TS) : St := { t.aux with reports := chan s0 t.err t.obs }

def TAbort.view (s0 : Errors.State Report) (a : TAbort) : Abort := ⟨a.fatal, chan s0 a.err a.obs⟩

def viewResult (s0 : Errors.State Report) : Except TAbort TS → Except Abort St
  | .ok t => .ok (t.view s0)
  | .error a => .error (a.view s0)

/-- module state and observations when the parse is over (returned or raised) -/
def finalErr : Except TAbort TS → Errors.State Report × List (Errors.Obs Report)
  | .ok t => (t.err, t.obs)
  | .error a => (a.err, a.obs)

end Pybtex.Aux
