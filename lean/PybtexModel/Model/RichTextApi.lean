/-
The argument checks and error points at the public surface of `pybtex/richtext.py` that
`Model/RichText.lean` leaves out (there every constructor argument is already a string or a rich
text, every tag name / URL a plain string, every key an integer or a step-1 slice):

* **constructor calls with arbitrary Python arguments** (`eval`): `ensure_text` (a part that is
  neither `str` nor `BaseText` → `ValueError('parts must be strings or BaseText instances, not T')`),
  `Tag.__init__` (the name must be `str` or `Text` – a `Tag` / `String` / `Symbol` is refused –, a
  `Text` name is replaced by `str(name)`, `__check_name` renames the deprecated alias `emph` to `em`
  with a `DeprecationWarning`), `HRef.__init__` (the URL must be `str` or any `BaseText`, `str(url)`
  is kept), `String(*parts)` = `''.join(parts)` (`TypeError` for a part that is not a `str`).
  Evaluation order is Python's: the arguments are evaluated left to right (the name / URL first),
  then `__init__` checks the name, then the parts in order.
* **`text[key]` for any key** (`getItemKey`): an `int` (also a `bool`), a slice WITH a step
  (`slice.indices(len)`; multipart: step ≠ 1 → `NotImplementedError`; `String`: the extended slice of
  the value; `Symbol`: mimics `'a'[key]`), step 0 → `ValueError`, any other key → `TypeError`.
* **`item in text` for any item** (`containsVal`): multipart → `TypeError` unless `item` is a `str`;
  `String` → `str.__contains__` (`TypeError` for a non-string); `Symbol` → `False`.
* **`text.split(sep)` for an empty literal separator and for a separator of the wrong type**
  (`splitBad`): `String.split` raises (`ValueError('empty separator')` from `str.split` /
  `TypeError('sep must be None, string or compiled regular expression')`); a multipart text raises
  when the loop over its parts reaches a part that raises; `Protected` / `Symbol` return `[self]`.
-/
import PybtexModel.Model.RichText

namespace Pybtex
namespace RT

/-! ### constructor calls -/

/-- `type(obj).__name__` -/
def className : RT → Str
  | .str _ => "String".toList
  | .sym _ => "Symbol".toList
  | .node .text _ => "Text".toList
  | .node (.tag _) _ => "Tag".toList
  | .node (.href _ _) _ => "HRef".toList
  | .node .prot _ => "Protected".toList

/-- what a constructor call can raise -/
inductive CErr where
  | valueError (msg : Str)    -- raised by pybtex itself, with this message
  | typeError                 -- raised by `''.join(parts)` inside `String.__init__`
deriving DecidableEq, Repr

/-- A Python expression handed to a constructor: a `str`, a value of another type (`None`, `5`,
`[]` … – only `type(value).__name__` matters), or a rich-text constructor call. -/
inductive Arg where
  | str (s : Str)
  | other (tyName : Str)
  | string (parts : List Arg)                               -- `String(*parts)`
  | symbol (name : Str)                                     -- `Symbol(name)`
  | text (args : List Arg)                                  -- `Text(*args)`
  | tag (name : Arg) (args : List Arg)                      -- `Tag(name, *args)`
  | href (url : Arg) (external : Bool) (args : List Arg)    -- `HRef(url, *args, external=external)`
  | prot (args : List Arg)                                  -- `Protected(*args)`
deriving Repr

/-- the value of such an expression -/
inductive Val where
  | str (s : Str)
  | other (tyName : Str)
  | rt (t : RT)
deriving Repr

/-- the three message prefixes of `richtext.py` (compared with the source on every run: the
correspondence op `rt_ctor` reports the full message) -/
def partsMsg : Str := "parts must be strings or BaseText instances, not ".toList
def nameMsg (ty : Str) : Str := "name must be str or Text (got ".toList ++ ty ++ ")".toList
def urlMsg (ty : Str) : Str := "url must be str or Text (got ".toList ++ ty ++ ")".toList

/-- `ensure_text(value)` -/
def ensureText : Val → Except CErr RT
  | .str s => .ok (.str s)
  | .rt t => .ok t
  | .other ty => .error (.valueError (partsMsg ++ ty))

/-- `(ensure_text(part) for part in parts)`, consumed in order: the first bad part raises -/
def ensureAll : List Val → Except CErr (List RT)
  | [] => .ok []
  | v :: vs =>
    match ensureText v with
    | .error e => .error e
    | .ok p =>
      match ensureAll vs with
      | .error e => .error e
      | .ok ps => .ok (p :: ps)

/-- `Tag.__check_name`: (the name used, a `DeprecationWarning` was issued) -/
def checkName (name : Str) : Str × Bool :=
  if name = "emph".toList then ("em".toList, true) else (name, false)

/-- the first lines of `Tag.__init__`: `isinstance(name, (str, Text))`, then `str(name)` -/
def tagName : Val → Except CErr Str
  | .str s => .ok s
  | .rt (.node .text ps) => .ok (toStr (.node .text ps))
  | .rt t => .error (.valueError (nameMsg (className t)))
  | .other ty => .error (.valueError (nameMsg ty))

/-- the first lines of `HRef.__init__`: `isinstance(url, (str, BaseText))`, then `str(url)` -/
def hrefUrl : Val → Except CErr Str
  | .str s => .ok s
  | .rt t => .ok (toStr t)
  | .other ty => .error (.valueError (urlMsg ty))

/-- `''.join(parts)` of `String.__init__`: every part must be a Python `str` -/
def stringJoin : List Val → Except CErr Str
  | [] => .ok []
  | .str s :: r =>
    match stringJoin r with
    | .error e => .error e
    | .ok rest => .ok (s ++ rest)
  | _ :: _ => .error .typeError

mutual
/-- evaluate a constructor expression the way Python does -/
def eval : Arg → Except CErr Val
  | .str s => .ok (.str s)
  | .other ty => .ok (.other ty)
  | .symbol n => .ok (.rt (.sym n))
  | .string parts =>
    match evalL parts with
    | .error e => .error e
    | .ok vs =>
      match stringJoin vs with
      | .error e => .error e
      | .ok s => .ok (.rt (.str s))
  | .text args =>
    match evalL args with
    | .error e => .error e
    | .ok vs =>
      match ensureAll vs with
      | .error e => .error e
      | .ok ps => .ok (.rt (mk .text ps))
  | .tag name args =>
    match eval name with
    | .error e => .error e
    | .ok nv =>
      match evalL args with
      | .error e => .error e
      | .ok vs =>
        match tagName nv with
        | .error e => .error e
        | .ok n =>
          match ensureAll vs with
          | .error e => .error e
          | .ok ps => .ok (.rt (mk (.tag (checkName n).1) ps))
  | .href url ext args =>
    match eval url with
    | .error e => .error e
    | .ok uv =>
      match evalL args with
      | .error e => .error e
      | .ok vs =>
        match hrefUrl uv with
        | .error e => .error e
        | .ok u =>
          match ensureAll vs with
          | .error e => .error e
          | .ok ps => .ok (.rt (mk (.href u ext) ps))
  | .prot args =>
    match evalL args with
    | .error e => .error e
    | .ok vs =>
      match ensureAll vs with
      | .error e => .error e
      | .ok ps => .ok (.rt (mk .prot ps))
def evalL : List Arg → Except CErr (List Val)
  | [] => .ok []
  | a :: as =>
    match eval a with
    | .error e => .error e
    | .ok v =>
      match evalL as with
      | .error e => .error e
      | .ok vs => .ok (v :: vs)
end

mutual
/-- number of `DeprecationWarning`s a successful evaluation issues (one per `Tag` call whose name
evaluates to `emph`) -/
def warnings : Arg → Nat
  | .str _ => 0
  | .other _ => 0
  | .symbol _ => 0
  | .string parts => warningsL parts
  | .text args => warningsL args
  | .tag name args =>
    warnings name + warningsL args +
      (match eval name with
       | .ok nv => (match tagName nv with
         | .ok n => if (checkName n).2 then 1 else 0
         | .error _ => 0)
       | .error _ => 0)
  | .href url _ args => warnings url + warningsL args
  | .prot args => warningsL args
def warningsL : List Arg → Nat
  | [] => 0
  | a :: as => warnings a + warningsL as
end

/-! ### `text[key]` -/

/-- the key of `__getitem__` -/
inductive Key where
  | int (i : Int)                   -- an `int` (a `bool` is one: `True` = 1)
  | slice (i j k : Option Int)      -- `slice(i, j, k)`
  | other                           -- any other Python value
deriving Repr

inductive KErr where
  | indexError
  | notImplemented
  | typeError
  | valueError
deriving DecidableEq, Repr

/-- `slice(i, j, k).indices(n)` (CPython `PySlice_Unpack` + `PySlice_AdjustIndices`); step 0 raises
`ValueError('slice step cannot be zero')` -/
def sliceIndices (n : Nat) (i j k : Option Int) : Except KErr (Int × Int × Int) :=
  let step : Int := match k with
    | none => 1
    | some s => s
  if step = 0 then .error .valueError
  else
    let lower : Int := if step < 0 then -1 else 0
    let upper : Int := if step < 0 then (n : Int) - 1 else n
    let clamp (x : Int) : Int := if x < 0 then max (x + n) lower else min x upper
    let start : Int := match i with
      | none => if step < 0 then upper else lower
      | some x => clamp x
    let stop : Int := match j with
      | none => if step < 0 then lower else upper
      | some x => clamp x
    .ok (start, stop, step)

/-- the positions `start, start + step, …` strictly before `stop` (in the direction of `step`) -/
def sliceRange (start stop step : Int) : List Int :=
  if step > 0 then (List.range ((stop - start + step - 1) / step).toNat).map fun (m : Nat) => start + m * step
  else (List.range ((start - stop + (-step) - 1) / (-step)).toNat).map fun (m : Nat) => start + m * step

/-- `value[i:j:k]` for a Python string / list -/
def extSlice {α : Type} (s : List α) (i j k : Option Int) : Except KErr (List α) :=
  match sliceIndices s.length i j k with
  | .error e => .error e
  | .ok (start, stop, step) => .ok ((sliceRange start stop step).filterMap fun x => s[x.toNat]?)

/-- `text[key]`.  `String`: `String(self.value[key])`; `Symbol`: `'a'[key]` decides (`IndexError` is
re-raised, anything else propagates), `self` if the result is non-empty, else `String()`; multipart:
`int` → range check; slice → `key.indices(len)`, `NotImplementedError` unless the step is 1; any
other key → `TypeError`. -/
def getItemKey (t : RT) : Key → Except KErr RT
  | .int i =>
    match getIndex t i with
    | .ok r => .ok r
    | .error .indexError => .error .indexError
  | .other => .error .typeError
  | .slice i j k =>
    match t with
    | .str s =>
      match extSlice s i j k with
      | .error e => .error e
      | .ok r => .ok (.str r)
    | .sym n =>
      match extSlice [()] i j k with
      | .error e => .error e
      | .ok r => .ok (if r.isEmpty then .str [] else .sym n)
    | .node kd ps =>
      match sliceIndices (lenL ps) i j k with
      | .error e => .error e
      | .ok (start, stop, step) =>
        if step ≠ 1 then .error .notImplemented
        else
          -- `start`, `end` are already in `0 … len`; `if end < start: end = start`
          let stop' := if stop < start then start else stop
          .ok (sliceBeginning kd (mkParts (sliceEndParts ps ((lenL ps : Int) - start))) (stop' - start))

/-! ### `item in text` -/

/-- the left operand of `in` -/
inductive Item where
  | str (s : Str)
  | other
deriving Repr

/-- `item in text` -/
def containsVal (t : RT) : Item → Except KErr Bool
  | .str s => .ok (contains s t)
  | .other =>
    match t with
    | .sym _ => .ok false          -- `Symbol.__contains__` returns False whatever it is given
    | _ => .error .typeError       -- `str.__contains__` / `raise TypeError(item)`

/-! ### `split` with a separator `String.split` refuses -/

/-- the two separators outside the domain of `RT.split` / `RT.splitRe`: the empty string
(`str.split('')` raises `ValueError('empty separator')`) and a value that is neither `None`, a `str`
nor something with a `split` attribute (`TypeError`) -/
inductive BadSep where
  | empty
  | wrongType
deriving DecidableEq, Repr

def BadSep.err : BadSep → KErr
  | .empty => .valueError
  | .wrongType => .typeError

mutual
/-- `text.split(sep, keep_empty_parts=keep)` for such a separator (`e` = what `String.split` raises):
`String.split` raises; `Symbol` / `Protected` return `[self]`; `BaseMultipartText.split` is the same
loop as in `RT.split` (run to the end by `collect_iterable`), it raises at the first part whose
`split` raises. -/
def splitBadT (e : KErr) : RT → Bool → Except KErr (List RT)
  | .str _, _ => .error e
  | .sym n, _ => .ok [.sym n]
  | .node .prot ps, _ => .ok [.node .prot ps]
  | .node k ps, keep => splitBadL e k keep ps (if keep then [.str []] else [])
def splitBadL (e : KErr) (k : Kind) (keep : Bool) : List RT → List RT → Except KErr (List RT)
  | [], tail =>
    .ok (if !tail.isEmpty then (if len (mk k tail) != 0 || keep then [mk k tail] else []) else [])
  | part :: ps, tail =>
    match splitBadT e part true with
    | .error x => .error x
    | .ok sp =>
      match sp.reverse with
      | [] => splitBadL e k keep ps tail
      | last :: revInit =>
        let r := splitItems k keep revInit.reverse tail
        match splitBadL e k keep ps (r.2 ++ [last]) with
        | .error x => .error x
        | .ok rest => .ok (r.1 ++ rest)
end

/-- `text.split(sep, keep_empty_parts=keep)`; `keep = None` means `True` (the separator is not `None`) -/
def splitBad (sep : BadSep) (t : RT) (keep : Option Bool) : Except KErr (List RT) :=
  splitBadT sep.err t (match keep with
    | some b => b
    | none => true)

mutual
/-- the text contains a `String` that is not inside a `Protected` -/
def hasFreeStr : RT → Bool
  | .str _ => true
  | .sym _ => false
  | .node .prot _ => false
  | .node _ ps => hasFreeStrL ps
def hasFreeStrL : List RT → Bool
  | [] => false
  | p :: ps => hasFreeStr p || hasFreeStrL ps
end

end RT
end Pybtex
