/-
Function-level entry points of the BST interpreter model (`Model/Interp.lean`), so that single
functions of `pybtex/bibtex/builtins.py` / `interpreter.py` can be driven next to the model without
going through a `.bst` file, a `.bib` file and `format_from_strings`:

  Python (harness/props/c03.py, op `bstbuiltin`)                 here
  -------------------------------------------------------------  ------------------------------
  `i = Interpreter(None, 'utf-8')`                               `fresh`
  `i.run(bst.parse_string(decls), [], [], 2)` (no READ in decls)  `runProgram fuel noInput prog fresh`
  `i.bib_data = BibliographyData(); add_entry(key, Entry(..))`,
  `i.current_entry_key / current_entry / current_entry_vars`     `withEntry`
  `i.stack = [...]`                                              `withStack`
  `i.vars[name].execute(i)`                                      `applyNamed`
  `i.citations = [...]; i.entry_vars[k]['sort.key$'] = v;
   i.command_sort()`                                             `sortOnly`

and the syntactic class of *straight-line* function bodies (`StraightTok`) for which the fuel of
the model is provably sufficient (`Props/C03x.lean`).
-/
import PybtexModel.Model.Interp

namespace Pybtex.Interp

/-- `Interpreter(bib_format, bib_encoding)`: the state `run` starts from, without citations. -/
def fresh : St := { vars := initVars }

/-- the run parameters of a run that never reads a database -/
def noInput : Input := { bibTexts := [], citations := [] }

/-- `i.stack = vals` (bottom first, as Python lists are written) -/
def withStack (s : St) (vals : List Val) : St := { s with stack := vals.reverse }

/-- a database holding exactly one entry, which is the current one (what `_iterate` sets up for
one key): `BibliographyData().add_entry(key, Entry(type, fields))`; `type` is `entry.type` as read
back from the real object (`Entry.__init__` lower-cases it with `str.lower`) -/
def withEntry (s : St) (key type : Str) (fields : List (Str × Str)) : St :=
  let e : Pybtex.Entry := { key := key, type := type, fields := CIDict.ofPairs fields, persons := CIDict.empty }
  { s with db := some { entries := CIDict.empty.setItem key e, wanted := none, citations := CISet.empty },
           cur := some key }

/-- `i.vars[name].execute(i)`; `KeyError` when the name is unbound -/
def applyNamed (fuel : Nat) (name : Str) (s : St) : Except IErr St :=
  match s.vars.getItem name with
  | none => .error (.internal "KeyError: vars[name]")
  | some o => execObj fuel o s

/-- `command_sort` alone on a state whose citation list and `sort.key$` entries are given
(`none` = never assigned) -/
def sortOnly (cites : List (Str × Option Str)) : Except IErr (List Str) :=
  let s : St := { fresh with citations := cites.map (·.1),
                             entryVars := cites.filterMap fun c => c.2.map fun k => (c.1, [("sort.key$".toList, Val.str k)]) }
  match runCommand 0 noInput ⟨"SORT".toList, []⟩ s with
  | .error e => .error e
  | .ok s => .ok s.citations

/-! ### straight-line code -/

/-- built-ins that execute code taken from the stack or the variable table -/
def Builtin.executes : Builtin → Bool
  | .if_ | .while_ | .callType => true
  | _ => false

/-- a variable object whose `execute` runs no further code: everything but a function and the
three built-ins `if$`, `while$`, `call.type$` -/
def VarObj.plain : VarObj → Bool
  | .func _ => false
  | .builtin b => !b.executes
  | _ => true

/-- an element of a function body that executes no other function body in the variable table
`vars`: a literal, a function literal (pushed, not executed), a quoted name, or a name that is
unbound (error) or bound to a plain object -/
def straightTok (vars : CIDict VarObj) : BTok → Bool
  | .name n =>
    match vars.getItem n with
    | some o => o.plain
    | none => true
  | _ => true

def straight (vars : CIDict VarObj) (body : List BTok) : Bool := body.all (straightTok vars)

end Pybtex.Interp
