/-
Model of `pybtex/utils.py`: `CaseInsensitiveDict`, `OrderedCaseInsensitiveDict`,
`CaseInsensitiveDefaultDict`, `CaseInsensitiveSet`.

The code keeps two parallel Python dicts, `_dict : key.lower() ↦ value` and
`_keys : key.lower() ↦ spelling`; the model keeps exactly those two tables (as insertion-ordered
association lists) and every method does to them what the Python method does, including the
order in which the two tables are touched and the `KeyError` points.  Methods inherited from
`collections.abc.MutableMapping` / `MutableSet` (`get`, `setdefault`, `pop`, `popitem`, `clear`,
`update`, `items`, `keys`, `values`, `|=`, `-=` ...) are modelled through the primitive methods,
as the mix-ins implement them.

The key normaliser `key.lower()` is a PARAMETER `norm : Str → Str` of every definition: the driver
runs the model with `norm := lowerPy` (`Model/UniCase.lean`, `str.lower()` of the running
interpreter on whole strings), the theorems are proved for every `norm` with
`norm (norm k) = norm k`.
-/
import PybtexModel.Model.PyDict
import PybtexModel.Model.UniCase

namespace Pybtex.Uni

structure CIDict (V : Type) where
  dict : List (Str × V)
  keys : List (Str × Str)
deriving Repr

namespace CIDict
variable {V : Type} (norm : Str → Str)

def empty : CIDict V := ⟨[], []⟩

def len (d : CIDict V) : Nat := d.dict.length
def iter (d : CIDict V) : List Str := d.keys.map Prod.snd

def setItem (d : CIDict V) (k : Str) (v : V) : CIDict V :=
  ⟨dset d.dict (norm k) v, dset d.keys (norm k) k⟩

/-- `none` = `KeyError`. -/
def getItem (d : CIDict V) (k : Str) : Option V := dget d.dict (norm k)

/-- `__delitem__`: `del self._dict[kl]` then `del self._keys[kl]`; `false` = `KeyError`
(the first table may already have been changed when the second raises). -/
def delItem (d : CIDict V) (k : Str) : CIDict V × Bool :=
  if dhas d.dict (norm k) then
    if dhas d.keys (norm k) then (⟨ddel d.dict (norm k), ddel d.keys (norm k)⟩, true)
    else (⟨ddel d.dict (norm k), d.keys⟩, false)
  else (d, false)

def contains (d : CIDict V) (k : Str) : Bool := dhas d.dict (norm k)

/-- `items()` of the mix-in: `[(key, self[key]) for key in self]`; `none` = `KeyError`. -/
def itemsAux (d : CIDict V) : List Str → Option (List (Str × V))
  | [] => some []
  | k :: r =>
    match getItem norm d k with
    | none => none
    | some v => (itemsAux d r).map ((k, v) :: ·)

def items (d : CIDict V) : Option (List (Str × V)) := itemsAux norm d (iter d)

/-- `keys()`: `KeysView.__iter__` is `iter(self)`. -/
def keysView (d : CIDict V) : List Str := iter d

/-- `values()`: `ValuesView.__iter__` is `self[key] for key in self` (the look-ups `items()` does). -/
def values (d : CIDict V) : Option (List V) := (items norm d).map fun l => l.map Prod.snd

/-- `bool(d)`: no `__bool__`, so `len(d) != 0`. -/
def truth (d : CIDict V) : Bool := len d != 0

/-- `Mapping.get(key, default)`. -/
def getD (d : CIDict V) (k : Str) (dflt : V) : V := (getItem norm d k).getD dflt

/-- `MutableMapping.setdefault`. -/
def setDefault (d : CIDict V) (k : Str) (dflt : V) : CIDict V × V :=
  match getItem norm d k with
  | some v => (d, v)
  | none => (setItem norm d k dflt, dflt)

/-- `MutableMapping.pop(key[, default])`; result `none` = `KeyError`. -/
def pop (d : CIDict V) (k : Str) (dflt : Option V) : CIDict V × Option V :=
  match getItem norm d k with
  | none => (d, dflt)
  | some v =>
    let r := delItem norm d k
    (r.1, if r.2 then some v else none)

/-- `MutableMapping.popitem()`: first key in iteration order; `none` = `KeyError`. -/
def popItem (d : CIDict V) : CIDict V × Option (Str × V) :=
  match iter d with
  | [] => (d, none)
  | k :: _ =>
    match getItem norm d k with
    | none => (d, none)
    | some v =>
      let r := delItem norm d k
      (r.1, if r.2 then some (k, v) else none)

/-- `MutableMapping.update(pairs)`: `for key, value in pairs: self[key] = value`. -/
def update (d : CIDict V) (ps : List (Str × V)) : CIDict V :=
  ps.foldl (fun d p => setItem norm d p.1 p.2) d

/-- `__init__(pairs, **kwargs)`: the two tables start empty and are filled by `self.update(...)`,
i.e. the pairs (then the keyword arguments) are written one after the other. -/
def ofPairs (ps : List (Str × V)) : CIDict V := update norm empty ps

/-- `d[k] = f(d[k])` (augmented assignment `d[k] += n`): `__getitem__` then `__setitem__`. -/
def modify (d : CIDict V) (k : Str) (f : V → V) : CIDict V × Bool :=
  match getItem norm d k with
  | none => (d, false)
  | some v => (setItem norm d k (f v), true)

/-- `lower()`: `type(self)(self.items_lower())`. -/
def lowered (d : CIDict V) : Option (CIDict V) :=
  (items norm d).map fun its => ofPairs norm (its.map fun p => (norm p.1, p.2))

/-- `MutableMapping.clear()`: `popitem()` until `KeyError`.  Fuel = number of keys. -/
def clearAux : Nat → CIDict V → CIDict V
  | 0, d => d
  | n + 1, d =>
    match (popItem norm d).2 with
    | none => (popItem norm d).1
    | some _ => clearAux n (popItem norm d).1

def clear (d : CIDict V) : CIDict V := clearAux norm (d.keys.length + 1) d

end CIDict

/-! ### `CaseInsensitiveDefaultDict(default_factory)`

`__getitem__` is overridden (the factory value for an absent key, nothing stored), so every mix-in
method that is written in terms of `self[key]` sees the defaulting look-up: `items()`, `values()`,
`popitem()`, `clear()`, `d[k] += n`.  `get`, `setdefault` and `pop` are overridden in the class and
ask `key in self` first.  `fac` is the value `default_factory()` returns. -/
namespace CIDict.DD
variable {V : Type} (norm : Str → Str) (fac : V)

/-- `CaseInsensitiveDefaultDict.__getitem__`: never raises. -/
def getItem (d : CIDict V) (k : Str) : V := (CIDict.getItem norm d k).getD fac

/-- `items()` through the defaulting `__getitem__`. -/
def items (d : CIDict V) : List (Str × V) := (iter d).map fun k => (k, getItem norm fac d k)

def values (d : CIDict V) : List V := (items norm fac d).map Prod.snd

/-- `get(key, default)`: `self[key] if key in self else default`. -/
def getD (d : CIDict V) (k : Str) (dflt : V) : V :=
  if contains norm d k then getItem norm fac d k else dflt

/-- `setdefault`: `if key not in self: self[key] = default`, then `return self[key]`. -/
def setDefault (d : CIDict V) (k : Str) (dflt : V) : CIDict V × V :=
  let d' := if contains norm d k then d else setItem norm d k dflt
  (d', getItem norm fac d' k)

/-- `pop(key[, default])`: present: `value = self[key]; del self[key]`; absent: the default, or `KeyError` (= `none`). -/
def pop (d : CIDict V) (k : Str) (dflt : Option V) : CIDict V × Option V :=
  if contains norm d k then
    let v := getItem norm fac d k
    let r := delItem norm d k
    (r.1, if r.2 then some v else none)
  else (d, dflt)

/-- `MutableMapping.popitem()` over the defaulting `__getitem__`. -/
def popItem (d : CIDict V) : CIDict V × Option (Str × V) :=
  match iter d with
  | [] => (d, none)
  | k :: _ =>
    let v := getItem norm fac d k
    let r := delItem norm d k
    (r.1, if r.2 then some (k, v) else none)

def clearAux : Nat → CIDict V → CIDict V
  | 0, d => d
  | n + 1, d =>
    match (popItem norm fac d).2 with
    | none => (popItem norm fac d).1
    | some _ => clearAux n (popItem norm fac d).1

def clear (d : CIDict V) : CIDict V := clearAux norm fac (d.keys.length + 1) d

/-- `lower()`: `result = type(self)(self.default_factory); result.update(self.items_lower())`. -/
def lowered (d : CIDict V) : CIDict V :=
  update norm empty ((items norm fac d).map fun p => (norm p.1, p.2))

end CIDict.DD

/-! ### Operations as data (for histories) -/

inductive Op (V : Type) where
  | set (k : Str) (v : V)
  | get (k : Str)
  | del (k : Str)
  | contains (k : Str)
  | len
  | iter
  | items
  | keys
  | values
  | truth
  | getD (k : Str) (dflt : V)
  | setDefault (k : Str) (dflt : V)
  | pop (k : Str)
  | popD (k : Str) (dflt : V)
  | popItem
  | update (ps : List (Str × V))
  | lower
  | clear
  | modify (k : Str) (f : V → V)   -- `d[k] = f(d[k])`, e.g. `d[k] += 1`

inductive Res (V : Type) where
  | unit
  | val (v : V)
  | keyError
  | bool (b : Bool)
  | nat (n : Nat)
  | keys (l : List Str)
  | items (l : List (Str × V))
  | vals (l : List V)
  | pair (k : Str) (v : V)
deriving Repr, DecidableEq

namespace CIDict
variable {V : Type} (norm : Str → Str)

/-- one operation on `CaseInsensitiveDict` / `OrderedCaseInsensitiveDict` -/
def step (d : CIDict V) : Op V → CIDict V × Res V
  | .set k v => (setItem norm d k v, .unit)
  | .get k => (d, match getItem norm d k with | some v => .val v | none => .keyError)
  | .del k => let r := delItem norm d k; (r.1, if r.2 then .unit else .keyError)
  | .contains k => (d, .bool (contains norm d k))
  | .len => (d, .nat (len d))
  | .iter => (d, .keys (iter d))
  | .items => (d, match items norm d with | some l => .items l | none => .keyError)
  | .keys => (d, .keys (keysView d))
  | .values => (d, match values norm d with | some l => .vals l | none => .keyError)
  | .truth => (d, .bool (truth d))
  | .getD k dflt => (d, .val (getD norm d k dflt))
  | .setDefault k dflt => let r := setDefault norm d k dflt; (r.1, .val r.2)
  | .pop k => let r := pop norm d k none; (r.1, match r.2 with | some v => .val v | none => .keyError)
  | .popD k dflt => let r := pop norm d k (some dflt); (r.1, match r.2 with | some v => .val v | none => .keyError)
  | .popItem => let r := popItem norm d; (r.1, match r.2 with | some p => .pair p.1 p.2 | none => .keyError)
  | .update ps => (update norm d ps, .unit)
  | .lower => match lowered norm d with | some d' => (d', .unit) | none => (d, .keyError)
  | .clear => (clear norm d, .unit)
  | .modify k f => let r := modify norm d k f; (r.1, if r.2 then .unit else .keyError)

/-- Run a history, collecting every result. -/
def run (d : CIDict V) : List (Op V) → CIDict V × List (Res V)
  | [] => (d, [])
  | op :: ops =>
    let r := step norm d op
    let rest := run r.1 ops
    (rest.1, r.2 :: rest.2)

/-- one operation on `CaseInsensitiveDefaultDict` whose factory returns `fac` -/
def DD.step (fac : V) (d : CIDict V) : Op V → CIDict V × Res V
  | .set k v => (setItem norm d k v, .unit)
  | .get k => (d, .val (DD.getItem norm fac d k))
  | .del k => let r := delItem norm d k; (r.1, if r.2 then .unit else .keyError)
  | .contains k => (d, .bool (contains norm d k))
  | .len => (d, .nat (len d))
  | .iter => (d, .keys (iter d))
  | .items => (d, .items (DD.items norm fac d))
  | .keys => (d, .keys (keysView d))
  | .values => (d, .vals (DD.values norm fac d))
  | .truth => (d, .bool (truth d))
  | .getD k dflt => (d, .val (DD.getD norm fac d k dflt))
  | .setDefault k dflt => let r := DD.setDefault norm fac d k dflt; (r.1, .val r.2)
  | .pop k => let r := DD.pop norm fac d k none; (r.1, match r.2 with | some v => .val v | none => .keyError)
  | .popD k dflt => let r := DD.pop norm fac d k (some dflt); (r.1, match r.2 with | some v => .val v | none => .keyError)
  | .popItem => let r := DD.popItem norm fac d; (r.1, match r.2 with | some p => .pair p.1 p.2 | none => .keyError)
  | .update ps => (update norm d ps, .unit)
  | .lower => (DD.lowered norm fac d, .unit)
  | .clear => (DD.clear norm fac d, .unit)
  | .modify k f => (setItem norm d k (f (DD.getItem norm fac d k)), .unit)

def DD.run (fac : V) (d : CIDict V) : List (Op V) → CIDict V × List (Res V)
  | [] => (d, [])
  | op :: ops =>
    let r := DD.step norm fac d op
    let rest := DD.run fac r.1 ops
    (rest.1, r.2 :: rest.2)

end CIDict

/-! ### `CaseInsensitiveSet` -/

structure CISet where
  set : List Str          -- Python `set` of lower-cased keys (its order is not modelled; kept by insertion)
  keys : List (Str × Str) -- key.lower() ↦ last spelling
deriving Repr

/-- Set operations as data.  `pop choice`: `pop()` in an execution in which the iterator of the Python
`set` yields `choice` first (the order of a Python `set` is not modelled). -/
inductive SOp where
  | add (k : Str) | discard (k : Str) | remove (k : Str) | contains (k : Str) | canonical (k : Str) | lower
  | len | iter | truth | pop (choice : Str) | clear | ior (l : List Str) | isub (l : List Str)
deriving Repr

/-- `badChoice`: the `choice` given to `pop` is not a member (no execution of the code does that). -/
inductive SRes where
  | unit | keyError | bool (b : Bool) | str (s : Str) | nat (n : Nat) | strs (l : List Str) | badChoice
deriving Repr, DecidableEq

namespace CISet
variable (norm : Str → Str)

def empty : CISet := ⟨[], []⟩

def add (s : CISet) (k : Str) : CISet :=
  ⟨if s.set.contains (norm k) then s.set else s.set ++ [norm k], dset s.keys (norm k) k⟩

def ofList (l : List Str) : CISet := l.foldl (add norm) empty

def discard (s : CISet) (k : Str) : CISet :=
  ⟨s.set.erase (norm k), ddel s.keys (norm k)⟩

def contains (s : CISet) (k : Str) : Bool := s.set.contains (norm k)
def len (s : CISet) : Nat := s.set.length
/-- `__iter__` iterates the set of lower-cased keys. -/
def iter (s : CISet) : List Str := s.set
/-- `none` = `KeyError`. -/
def canonical (s : CISet) (k : Str) : Option Str := dget s.keys (norm k)
/-- the spellings shown by `repr` (sorted there). -/
def spellings (s : CISet) : List Str := s.keys.map Prod.snd
def lowered (s : CISet) : CISet := ofList norm s.set
/-- `MutableSet.remove`: `KeyError` (= `false`) when absent. -/
def remove (s : CISet) (k : Str) : CISet × Bool :=
  if contains norm s k then (discard norm s k, true) else (s, false)

/-- `MutableSet.pop()`: `value = next(iter(self))` (`KeyError` when empty), `self.discard(value)`. -/
def pop (s : CISet) (choice : Str) : CISet × SRes :=
  match s.set with
  | [] => (s, .keyError)
  | _ :: _ => if s.set.contains choice then (discard norm s choice, .str choice) else (s, .badChoice)

/-- `MutableSet.clear()`: `pop()` until `KeyError` (here in the model's own order). -/
def clearAux : Nat → CISet → CISet
  | 0, s => s
  | n + 1, s =>
    match s.set with
    | [] => s
    | c :: _ => clearAux n (discard norm s c)

def clear (s : CISet) : CISet := clearAux norm s.set.length s

/-- `s |= it`: `for value in it: self.add(value)`. -/
def ior (s : CISet) (l : List Str) : CISet := l.foldl (add norm) s
/-- `s -= it` (`it` another iterable): `for value in it: self.discard(value)`. -/
def isub (s : CISet) (l : List Str) : CISet := l.foldl (discard norm) s

def step (s : CISet) : SOp → CISet × SRes
  | .add k => (s.add norm k, .unit)
  | .discard k => (s.discard norm k, .unit)
  | .remove k => let r := s.remove norm k; (r.1, if r.2 then .unit else .keyError)
  | .contains k => (s, .bool (s.contains norm k))
  | .canonical k => (s, match s.canonical norm k with | some x => .str x | none => .keyError)
  | .lower => (s.lowered norm, .unit)
  | .len => (s, .nat s.len)
  | .iter => (s, .strs s.iter)
  | .truth => (s, .bool (s.len != 0))
  | .pop choice => s.pop norm choice
  | .clear => (s.clear norm, .unit)
  | .ior l => (s.ior norm l, .unit)
  | .isub l => (s.isub norm l, .unit)

def run (s : CISet) : List SOp → CISet × List SRes
  | [] => (s, [])
  | op :: ops =>
    let r := step norm s op
    let rest := run r.1 ops
    (rest.1, r.2 :: rest.2)
end CISet

end Pybtex.Uni
