/-
Model of `pybtex/utils.py`: `CaseInsensitiveDict`, `OrderedCaseInsensitiveDict`,
`CaseInsensitiveDefaultDict`, `CaseInsensitiveSet`.

The code keeps two parallel Python dicts, `_dict : lowerU key ↦ value` and
`_keys : lowerU key ↦ spelling`; the model keeps exactly those two tables (as insertion-ordered
association lists) and every method does to them what the Python method does, including the
order in which the two tables are touched and the `KeyError` points.  Methods inherited from
`collections.abc.MutableMapping` (`get`, `setdefault`, `pop`, `popitem`, `clear`, `update`,
`items`) are modelled through the primitive methods, as the mix-in implements them.
-/
import PybtexModel.Model.PyDict
import PybtexModel.Model.UniCase

namespace Pybtex.Uni

structure CIDict (V : Type) where
  dict : List (Str × V)
  keys : List (Str × Str)
deriving Repr

namespace CIDict
variable {V : Type}

def empty : CIDict V := ⟨[], []⟩

/-- `__init__(pairs)`: `initial = dict(pairs)`, then the two comprehensions. -/
def ofPairs (ps : List (Str × V)) : CIDict V :=
  let initial := dofPairs ps
  { dict := dofPairs (initial.map fun p => (lowerU p.1, p.2)),
    keys := dofPairs (initial.map fun p => (lowerU p.1, p.1)) }

def len (d : CIDict V) : Nat := d.dict.length
def iter (d : CIDict V) : List Str := d.keys.map Prod.snd

def setItem (d : CIDict V) (k : Str) (v : V) : CIDict V :=
  ⟨dset d.dict (lowerU k) v, dset d.keys (lowerU k) k⟩

/-- `none` = `KeyError`. -/
def getItem (d : CIDict V) (k : Str) : Option V := dget d.dict (lowerU k)

/-- `__delitem__`: `del self._dict[kl]` then `del self._keys[kl]`; `false` = `KeyError`
(the first table may already have been changed when the second raises). -/
def delItem (d : CIDict V) (k : Str) : CIDict V × Bool :=
  if dhas d.dict (lowerU k) then
    if dhas d.keys (lowerU k) then (⟨ddel d.dict (lowerU k), ddel d.keys (lowerU k)⟩, true)
    else (⟨ddel d.dict (lowerU k), d.keys⟩, false)
  else (d, false)

def contains (d : CIDict V) (k : Str) : Bool := dhas d.dict (lowerU k)

/-- `items()` of the mix-in: `[(key, self[key]) for key in self]`; `none` = `KeyError`. -/
def itemsAux (d : CIDict V) : List Str → Option (List (Str × V))
  | [] => some []
  | k :: r =>
    match getItem d k with
    | none => none
    | some v => (itemsAux d r).map ((k, v) :: ·)

def items (d : CIDict V) : Option (List (Str × V)) := itemsAux d (iter d)

/-- `Mapping.get(key, default)`. -/
def getD (d : CIDict V) (k : Str) (dflt : V) : V := (getItem d k).getD dflt

/-- `MutableMapping.setdefault`. -/
def setDefault (d : CIDict V) (k : Str) (dflt : V) : CIDict V × V :=
  match getItem d k with
  | some v => (d, v)
  | none => (setItem d k dflt, dflt)

/-- `MutableMapping.pop(key[, default])`; result `none` = `KeyError`. -/
def pop (d : CIDict V) (k : Str) (dflt : Option V) : CIDict V × Option V :=
  match getItem d k with
  | none => (d, dflt)
  | some v =>
    let r := delItem d k
    (r.1, if r.2 then some v else none)

/-- `MutableMapping.popitem()`: first key in iteration order; `none` = `KeyError`. -/
def popItem (d : CIDict V) : CIDict V × Option (Str × V) :=
  match iter d with
  | [] => (d, none)
  | k :: _ =>
    match getItem d k with
    | none => (d, none)
    | some v =>
      let r := delItem d k
      (r.1, if r.2 then some (k, v) else none)

/-- `MutableMapping.update(pairs)`. -/
def update (d : CIDict V) (ps : List (Str × V)) : CIDict V :=
  ps.foldl (fun d p => setItem d p.1 p.2) d

/-- `lower()`: `type(self)(self.items_lower())`. -/
def lowered (d : CIDict V) : Option (CIDict V) :=
  (items d).map fun its => ofPairs (its.map fun p => (lowerU p.1, p.2))

/-- `MutableMapping.clear()`: `popitem()` until `KeyError`.  Fuel = number of keys. -/
def clearAux : Nat → CIDict V → CIDict V
  | 0, d => d
  | n + 1, d =>
    match (popItem d).2 with
    | none => (popItem d).1
    | some _ => clearAux n (popItem d).1

def clear (d : CIDict V) : CIDict V := clearAux (d.keys.length + 1) d

/-- `CaseInsensitiveDefaultDict.__getitem__`: the factory value for an absent key, nothing stored. -/
def getItemDefault (d : CIDict V) (k : Str) (dflt : V) : V := (getItem d k).getD dflt

end CIDict

/-! ### Operations as data (for histories) -/

inductive Op (V : Type) where
  | set (k : Str) (v : V)
  | get (k : Str)
  | del (k : Str)
  | contains (k : Str)
  | len
  | iter
  | items
  | getD (k : Str) (dflt : V)
  | setDefault (k : Str) (dflt : V)
  | pop (k : Str)
  | popD (k : Str) (dflt : V)
  | popItem
  | update (ps : List (Str × V))
  | lower
  | clear
  | getDefault (k : Str) (dflt : V)   -- the defaulting variant's `d[k]`
deriving Repr

inductive Res (V : Type) where
  | unit
  | val (v : V)
  | keyError
  | bool (b : Bool)
  | nat (n : Nat)
  | keys (l : List Str)
  | items (l : List (Str × V))
  | pair (k : Str) (v : V)
deriving Repr, DecidableEq

namespace CIDict
variable {V : Type}

def step (d : CIDict V) : Op V → CIDict V × Res V
  | .set k v => (setItem d k v, .unit)
  | .get k => (d, match getItem d k with | some v => .val v | none => .keyError)
  | .del k => let r := delItem d k; (r.1, if r.2 then .unit else .keyError)
  | .contains k => (d, .bool (contains d k))
  | .len => (d, .nat (len d))
  | .iter => (d, .keys (iter d))
  | .items => (d, match items d with | some l => .items l | none => .keyError)
  | .getD k dflt => (d, .val (getD d k dflt))
  | .setDefault k dflt => let r := setDefault d k dflt; (r.1, .val r.2)
  | .pop k => let r := pop d k none; (r.1, match r.2 with | some v => .val v | none => .keyError)
  | .popD k dflt => let r := pop d k (some dflt); (r.1, match r.2 with | some v => .val v | none => .keyError)
  | .popItem => let r := popItem d; (r.1, match r.2 with | some p => .pair p.1 p.2 | none => .keyError)
  | .update ps => (update d ps, .unit)
  | .lower => match lowered d with | some d' => (d', .unit) | none => (d, .keyError)
  | .clear => (clear d, .unit)
  | .getDefault k dflt => (d, .val (getItemDefault d k dflt))

/-- Run a history, collecting every result. -/
def run (d : CIDict V) : List (Op V) → CIDict V × List (Res V)
  | [] => (d, [])
  | op :: ops =>
    let r := step d op
    let rest := run r.1 ops
    (rest.1, r.2 :: rest.2)

end CIDict

/-! ### `CaseInsensitiveSet` -/

structure CISet where
  set : List Str          -- Python `set` of lower-cased keys (order is not observable; kept by insertion)
  keys : List (Str × Str) -- lowerU key ↦ last spelling
deriving Repr

namespace CISet

def empty : CISet := ⟨[], []⟩

def add (s : CISet) (k : Str) : CISet :=
  ⟨if s.set.contains (lowerU k) then s.set else s.set ++ [lowerU k], dset s.keys (lowerU k) k⟩

def ofList (l : List Str) : CISet := l.foldl add empty

def discard (s : CISet) (k : Str) : CISet :=
  ⟨s.set.erase (lowerU k), ddel s.keys (lowerU k)⟩

def contains (s : CISet) (k : Str) : Bool := s.set.contains (lowerU k)
def len (s : CISet) : Nat := s.set.length
/-- `__iter__` iterates the set of lower-cased keys. -/
def iter (s : CISet) : List Str := s.set
/-- `none` = `KeyError`. -/
def canonical (s : CISet) (k : Str) : Option Str := dget s.keys (lowerU k)
/-- the spellings shown by `repr` (sorted there). -/
def spellings (s : CISet) : List Str := s.keys.map Prod.snd
def lowered (s : CISet) : CISet := ofList s.set
/-- `MutableSet.remove`: `KeyError` (= `false`) when absent. -/
def remove (s : CISet) (k : Str) : CISet × Bool :=
  if contains s k then (discard s k, true) else (s, false)

end CISet

/-- Set operations as data. -/
inductive SOp where
  | add (k : Str) | discard (k : Str) | remove (k : Str) | contains (k : Str) | canonical (k : Str) | lower
deriving Repr

inductive SRes where
  | unit | keyError | bool (b : Bool) | str (s : Str)
deriving Repr, DecidableEq

namespace CISet
def step (s : CISet) : SOp → CISet × SRes
  | .add k => (s.add k, .unit)
  | .discard k => (s.discard k, .unit)
  | .remove k => let r := s.remove k; (r.1, if r.2 then .unit else .keyError)
  | .contains k => (s, .bool (s.contains k))
  | .canonical k => (s, match s.canonical k with | some x => .str x | none => .keyError)
  | .lower => (s.lowered, .unit)

def run (s : CISet) : List SOp → CISet × List SRes
  | [] => (s, [])
  | op :: ops =>
    let r := step s op
    let rest := run r.1 ops
    (rest.1, r.2 :: rest.2)
end CISet

end Pybtex.Uni
