/-
Model of the shipped Pythonic formatting styles (`pybtex/style/formatting/unsrt.py`: the seventeen
`get_<type>_template(e)` methods and the fragments they share; `plain.py`, `alpha.py`, `unsrtalpha.py` subclass it and
change class attributes only), of the plug-in choice of `BaseStyle.__init__`
(`find_plugin(group, given or self.default_<x>_style)`, `find_plugin(group, None)` = `_DEFAULT_PLUGINS[group]`), of the
error `BaseStyle.format_entry` raises for an entry type the style does not define, and of
`format_bibliography(bib_data, citations=None)`.

The class attributes, the group defaults, the list of entry types with a template method and the two message
formats are regenerated from /repo on every run (`Gen/PyStyle.lean`).  The templates are written out below node by
node after the source; the function-level correspondence op `styletemplate` compares them (as serialised trees) with
`tmpl(style.get_<type>_template(entry))` of the live style object on every entry of every generated database.
-/
import PybtexModel.Model.NameStyle
import PybtexModel.Gen.PyStyle

namespace Pybtex.Tmpl.Unsrt
open Pybtex.RT

/-! ### template combinators with the keyword defaults of `template.py` -/

def st (s : String) : RT := .str s.toList
/-- a plain string child -/
def str (s : String) : T := .lit (st s)
/-- a `None` child (skipped by every node that filters its parts) -/
def noneChild : T := .lit (.node .text [])
/-- `join(sep=s)[…]`: `sep2` and `last_sep` default to `sep` -/
def joinSep (sep : RT) (cs : List T) : T := .join sep sep sep cs
/-- `join[…]` -/
def join (cs : List T) : T := joinSep (st "") cs
/-- `words[…]` = `join(' ')` -/
def words (cs : List T) : T := joinSep (st " ") cs
/-- `toplevel[…]` = `join(sep=Symbol('newblock'))` -/
def toplevel (cs : List T) : T := joinSep (.sym "newblock".toList) cs
/-- `sentence[…]` (capfirst=False, capitalize=False, add_period=True, sep=', ') -/
def sentence (cs : List T) : T := .sentence false false true (st ", ") cs
/-- `sentence(capfirst=True)[…]` -/
def sentenceCapfirst (cs : List T) : T := .sentence true false true (st ", ") cs
def fld (n : String) : T := .field n.toList .none false
def rawField (n : String) : T := .field n.toList .none true
/-- `optional_field(name)` = `optional[field(name)]` -/
def optionalField (n : String) : T := .optional [fld n]
def optional (cs : List T) : T := .optional cs
def firstOf (cs : List T) : T := .firstOf cs
def together (cs : List T) : T := .together false cs
def em (cs : List T) : T := .tag "em".toList cs
/-- `href(url)[…]` -/
def href (url : T) (cs : List T) : T := .href url false cs

/-! ### module-level fragments -/

/-- `pages = field('pages', apply_func=dashify)` -/
def pages : T := .field "pages".toList .dashify false
/-- `date = words[optional_field('month'), field('year')]` -/
def date : T := words [optionalField "month", fld "year"]

/-! ### what the templates read of the entry -/

/-- `'editor' in e.persons` -/
def hasEditor (e : PEntry) : Bool := e.persons.contains "editor".toList
/-- `len(e.persons['editor']) > 1` (only evaluated when the role is present) -/
def manyEditors (e : PEntry) : Bool :=
  match e.persons.getItem "editor".toList with
  | some ps => decide (ps.length > 1)
  | none => false

/-! ### the shared methods of `unsrt.Style` -/

def formatNames (role : String) (asSentence : Bool := true) : T :=
  let formatted : T := .names role.toList (st ", ") (st " and ") (st ", and ")
  if asSentence then sentence [formatted] else formatted

/-- what the template methods read of the entry `e`: `'editor' in e.persons` and `len(e.persons['editor']) > 1` -/
structure EdInfo where
  has : Bool
  many : Bool
deriving DecidableEq, Repr

def edInfo (e : PEntry) : EdInfo := { has := hasEditor e, many := manyEditors e }

def formatEditor (e : EdInfo) (asSentence : Bool := true) : T :=
  let editors := formatNames "editor" false
  if !e.has then editors
  else
    let word := if e.many then "editors" else "editor"
    let result := joinSep (st ", ") [editors, str word]
    if asSentence then sentence [result] else result

def formatAuthorOrEditor (e : EdInfo) : T :=
  firstOf [optional [formatNames "author"], formatEditor e]

def formatVolumeAndSeries (asSentence : Bool := true) : T :=
  let volumeAndSeries := optional [words [
    together [str (if asSentence then "Volume" else "volume"), fld "volume"],
    optional [words [str "of", fld "series"]]]]
  let numberAndSeries := optional [words [
    joinSep (.sym "nbsp".toList) [str (if asSentence then "Number" else "number"), fld "number"],
    optional [words [str "in", fld "series"]]]]
  let series := optionalField "series"
  let result := firstOf [volumeAndSeries, numberAndSeries, series]
  if asSentence then sentenceCapfirst [result] else result

def formatChapterAndPages : T :=
  joinSep (st ", ") [optional [together [str "chapter", fld "chapter"]], optional [together [str "pages", pages]]]

def formatEdition : T := optional [words [.field "edition".toList .lower false, str "edition"]]

def formatTitle (which : String) (asSentence : Bool := true) : T :=
  let t : T := .field which.toList .capitalize false
  if asSentence then sentence [t] else t

def formatBtitle (which : String) (asSentence : Bool := true) : T :=
  let t := em [fld which]
  if asSentence then sentence [t] else t

def formatAddressOrganizationPublisherDate (includeOrganization : Bool := true) : T :=
  let organization := if includeOrganization then optionalField "organization" else noneChild
  firstOf [
    optional [joinSep (st " ") [sentence [fld "address", date], sentence [organization, optionalField "publisher"]]],
    sentence [organization, optionalField "publisher", date]]

def formatUrl : T := words [str "URL:", href (rawField "url") [rawField "url"]]
def formatPubmed : T :=
  href (join [str "https://www.ncbi.nlm.nih.gov/pubmed/", rawField "pubmed"]) [join [str "PMID:", rawField "pubmed"]]
def formatDoi : T := href (join [str "https://doi.org/", rawField "doi"]) [join [str "doi:", rawField "doi"]]
def formatEprint : T := href (join [str "https://arxiv.org/abs/", rawField "eprint"]) [join [str "arXiv:", rawField "eprint"]]
def formatIsbn : T := joinSep (st " ") [str "ISBN", fld "isbn"]

def formatWebRefs : T :=
  sentence [
    optional [formatUrl, optional [str " (visited on ", fld "urldate", str ")"]],
    optional [formatEprint],
    optional [formatPubmed],
    optional [formatDoi]]

/-! ### the seventeen `get_<type>_template` methods -/

def articleTemplate : T :=
  let volumeAndPages := firstOf [
    optional [join [fld "volume", optional [str "(", fld "number", str ")"], str ":", pages]],
    words [str "pages", pages]]
  toplevel [
    formatNames "author",
    formatTitle "title",
    sentence [em [fld "journal"], optional [volumeAndPages], date],
    sentence [optionalField "note"],
    formatWebRefs]

def bookTemplate (e : EdInfo) : T :=
  toplevel [
    formatAuthorOrEditor e,
    formatBtitle "title",
    formatVolumeAndSeries,
    sentence [fld "publisher", optionalField "address", formatEdition, date],
    optional [sentence [formatIsbn]],
    sentence [optionalField "note"],
    formatWebRefs]

def bookletTemplate : T :=
  toplevel [
    formatNames "author",
    formatTitle "title",
    sentence [optionalField "howpublished", optionalField "address", date, optionalField "note"],
    formatWebRefs]

def inbookTemplate (e : EdInfo) : T :=
  toplevel [
    formatAuthorOrEditor e,
    sentence [formatBtitle "title" false, formatChapterAndPages],
    formatVolumeAndSeries,
    sentence [fld "publisher", optionalField "address", optional [words [fld "edition", str "edition"]], date,
              optionalField "note"],
    formatWebRefs]

def incollectionTemplate (e : EdInfo) : T :=
  toplevel [
    sentence [formatNames "author"],
    formatTitle "title",
    words [str "In",
      sentence [optional [formatEditor e false], formatBtitle "booktitle" false, formatVolumeAndSeries false,
                formatChapterAndPages]],
    sentence [optionalField "publisher", optionalField "address", formatEdition, date],
    formatWebRefs]

def inproceedingsTemplate (e : EdInfo) : T :=
  toplevel [
    sentence [formatNames "author"],
    formatTitle "title",
    words [str "In",
      sentence [optional [formatEditor e false], formatBtitle "booktitle" false, formatVolumeAndSeries false,
                optional [pages]],
      formatAddressOrganizationPublisherDate],
    sentence [optionalField "note"],
    formatWebRefs]

def manualTemplate : T :=
  toplevel [
    optional [sentence [formatNames "author"]],
    formatBtitle "title",
    sentence [optionalField "organization", optionalField "address", formatEdition, optional [date]],
    sentence [optionalField "note"],
    formatWebRefs]

def mastersthesisTemplate : T :=
  toplevel [
    sentence [formatNames "author"],
    formatTitle "title",
    sentence [str "Master's thesis", fld "school", optionalField "address", date],
    sentence [optionalField "note"],
    formatWebRefs]

def miscTemplate : T :=
  toplevel [
    optional [sentence [formatNames "author"]],
    optional [formatTitle "title"],
    sentence [optional [fld "howpublished"], optional [date]],
    sentence [optionalField "note"],
    formatWebRefs]

def phdthesisTemplate : T :=
  toplevel [
    sentence [formatNames "author"],
    formatBtitle "title",
    sentence [firstOf [optionalField "type", str "PhD thesis"], fld "school", optionalField "address", date],
    sentence [optionalField "note"],
    formatWebRefs]

def proceedingsTemplate (e : EdInfo) : T :=
  let mainPart : List T :=
    if e.has then
      [formatEditor e,
       sentence [formatBtitle "title" false, formatVolumeAndSeries false, formatAddressOrganizationPublisherDate]]
    else
      [optional [sentence [fld "organization"]],
       sentence [formatBtitle "title" false, formatVolumeAndSeries false, formatAddressOrganizationPublisherDate false]]
  toplevel (mainPart ++ [sentence [optionalField "note"], formatWebRefs])

def techreportTemplate : T :=
  toplevel [
    sentence [formatNames "author"],
    formatTitle "title",
    sentence [words [firstOf [optionalField "type", str "Technical Report"], optionalField "number"],
              fld "institution", optionalField "address", date],
    sentence [optionalField "note"],
    formatWebRefs]

def unpublishedTemplate : T :=
  toplevel [
    sentence [formatNames "author"],
    formatTitle "title",
    sentence [fld "note", optional [date]],
    formatWebRefs]

/-- `getattr(style, 'get_{}_template'.format(entry.type))(entry)`; `none` = no such method (and no `format_<type>`
method either: `Gen.pyStyleFormatMethods` is empty), `format_entry` raises `BibliographyDataError`.
`dataset`, `online`, `patent`, `software` return `get_misc_template(e)`. -/
def templateTable : List (String × (EdInfo → T)) :=
  [("article", fun _ => articleTemplate), ("book", bookTemplate), ("booklet", fun _ => bookletTemplate),
   ("dataset", fun _ => miscTemplate), ("inbook", inbookTemplate), ("incollection", incollectionTemplate),
   ("inproceedings", inproceedingsTemplate), ("manual", fun _ => manualTemplate),
   ("mastersthesis", fun _ => mastersthesisTemplate), ("misc", fun _ => miscTemplate),
   ("online", fun _ => miscTemplate), ("patent", fun _ => miscTemplate), ("phdthesis", fun _ => phdthesisTemplate),
   ("proceedings", proceedingsTemplate), ("software", fun _ => miscTemplate),
   ("techreport", fun _ => techreportTemplate), ("unpublished", fun _ => unpublishedTemplate)]

/-- the template method for an entry type -/
def templateFn (type : Str) : Option (EdInfo → T) :=
  match templateTable.find? fun p => p.1.toList = type with
  | some (_, f) => some f
  | none => none

def getTemplate (e : PEntry) : Option T :=
  match templateFn e.type with
  | some f => some (f (edInfo e))
  | none => none

/-! ### configuration: `BaseStyle.__init__` -/

/-- the plug-in registries of the three groups: name ↦ shipped class (`none` = `PluginNotFound`) -/
def nameStyleOf (n : Str) : Option NameStyle :=
  if n = "plain".toList then some .plain else if n = "lastfirst".toList then some .lastfirst else none
def labelsOf (n : Str) : Option Labels :=
  if n = "number".toList then some .number else if n = "alpha".toList then some .alpha else none
def sortingOf (n : Str) : Option Sorting :=
  if n = "none".toList then some .none else if n = "author_year_title".toList then some .authorYearTitle else none

/-- `given or class_default`, then `find_plugin(group, name)`: a name that is `None` or empty selects the group default
of `_DEFAULT_PLUGINS` -/
def pluginName (given classDefault : Option Str) (groupDefault : Str) : Str :=
  let pick : Option Str := match given with
    | some g => if g.isEmpty then classDefault else some g
    | none => classDefault
  match pick with
  | some n => if n.isEmpty then groupDefault else n
  | none => groupDefault

/-- the configuration the style object ends up with -/
structure StyleConfig where
  names : NameStyle
  labels : Labels
  sorting : Sorting
  abbr : Bool
deriving Repr, DecidableEq

/-- `Style(label_style=…, name_style=…, sorting_style=…, abbreviate_names=…)` for the formatting style registered as
`style`; `abbreviate_names` is used as a truth value only.  `none`: unknown style or plug-in name (`PluginNotFound`). -/
def configure (style : Str) (labelStyle nameStyle sortingStyle : Option Str) (abbreviateNames : Bool) : Option StyleConfig :=
  match Gen.pyStyleDefaults.find? fun r => r.1 = style with
  | none => none
  | some (_, dn, dl, ds) =>
    match nameStyleOf (pluginName nameStyle dn Gen.pyGroupDefaults.1),
          labelsOf (pluginName labelStyle dl Gen.pyGroupDefaults.2.1),
          sortingOf (pluginName sortingStyle ds Gen.pyGroupDefaults.2.2) with
    | some n, some l, some s => some { names := n, labels := l, sorting := s, abbr := abbreviateNames }
    | _, _, _ => none

/-! ### messages -/

def fillPieces (pieces : List Str) (args : List Str) : Str :=
  match pieces, args with
  | p :: ps, a :: as => p ++ a ++ fillPieces ps as
  | p :: ps, [] => p ++ fillPieces ps []
  | [], _ => []

/-- `'entry type "{0}" of entry "{1}" is not defined by the style'.format(entry.type, entry.key)` -/
def noTemplateMessage (type key : Str) : Str := fillPieces Gen.noTemplatePieces [type, key]
/-- `'missing {0} in {1}'.format(field_name, entry.key)` (`FieldIsMissing.__init__`) -/
def missingFieldMessage (field key : Str) : Str := fillPieces Gen.fieldIsMissingPieces [field, key]

/-! ### the whole pipeline inside the model -/

/-- the item of an entry: its template and the name templates of its persons.  `.ok none`: the style has no
template for the entry type.  `.error`: a name word does not parse (`Text.from_latex` raises `PybtexSyntaxError` when
a `names` node asks for the person; this cannot happen for names split by `Person` from a brace-balanced string). -/
def shippedItem (cfg : StyleConfig) (dec : List (Str × Str)) (e : PEntry) : Except TErr (Option Item) :=
  match personTemplatesOf cfg.names dec cfg.abbr e.roles with
  | .error err => .error err
  | .ok pts =>
    match getTemplate e with
    | none => .ok none
    | some t => .ok (some { template := t, personTemplates := pts, decode := dec })

/-- the items of all entries of the database, by key -/
def shippedTable (cfg : StyleConfig) (dec : List (Str × Str)) : List PEntry → Except TErr (List (Str × Option Item))
  | [] => .ok []
  | e :: es =>
    match shippedItem cfg dec e with
    | .error err => .error err
    | .ok it =>
      match shippedTable cfg dec es with
      | .error err => .error err
      | .ok l => .ok ((e.key, it) :: l)

def lookupItem (tbl : List (Str × Option Item)) (k : Str) : Option Item :=
  match tbl.find? fun p => p.1 = k with
  | some (_, it) => it
  | none => none

/-- `citations = list(bib_data.entries.keys())` when `format_bibliography` is called with `citations=None` -/
def allKeys (es : List PEntry) : List Str := (mkDb es).entries.iter

/-- `Style(**options).format_bibliography(bib_data, citations)` for a shipped style.  `none`: outside the modelled
domain (some name word of the database has unbalanced braces: the model gives no answer rather than a default). -/
def formatBibliographyShipped (cfg : StyleConfig) (dec : List (Str × Str)) (es : List PEntry)
    (citations : Option (List Str)) (minCrossrefs : Int) : Option (List Report × Except BibErr (List Formatted)) :=
  match shippedTable cfg dec es with
  | .error _ => none
  | .ok tbl =>
    some (formatBibliography es (lookupItem tbl) (match citations with | some c => c | none => allKeys es)
      minCrossrefs cfg.sorting cfg.labels)

end Pybtex.Tmpl.Unsrt
