/-
Extension of the model of `pybtex/richtext.py` (`Model/RichText.lean`) used by property C08:

* **case mapping and letters as the interpreter has them.**  `String.upper/lower/isalpha` call
  `str.upper/lower/isalpha`; these are Unicode operations.  `CaseSys` packs the three
  character-level functions; `uniCase` is the running interpreter's (tables regenerated on every
  run: `Gen.upperRuns`/`Gen.lowerRuns` for the images of one character, `Gen.upperMultiFull` /
  `Gen.lowerMultiFull` for the longer ones – ß → SS, ŉ → ʼN, İ → i̇ …, `Gen.alphaRanges`),
  `asciiCase` is the ASCII fragment the rest of the library is modelled with.  `str.upper` is
  context-free; `str.lower` is context-free except for U+03A3 (final sigma), which is outside
  the modelled domain (`RT.sigmaFree`, the harness never generates it).
* `add_period(period)` with an arbitrary period, `==` against a value that is not a rich text,
  `split` at a compiled regular expression (`textutils.delimiter_re`, the `-+` of `dashify`),
  `abbreviate()`.
-/
import PybtexModel.Model.RichText
import PybtexModel.Model.UniCase
import PybtexModel.Gen.Unicode
import PybtexModel.Gen.UnicodeUpper

namespace Pybtex

/-- `chr(c).upper()`, `chr(c).lower()` (as lists of characters) and `chr(c).isalpha()`. -/
structure CaseSys where
  up : Char → List Char
  lo : Char → List Char
  alpha : Char → Bool

namespace CaseSys
/-- `s.upper()`: character by character (`str.upper` is context-free). -/
def upper (cs : CaseSys) (s : Str) : Str := s.flatMap cs.up
/-- `s.lower()`: character by character (outside the domain: U+03A3, whose image depends on its context). -/
def lower (cs : CaseSys) (s : Str) : Str := s.flatMap cs.lo
end CaseSys

/-- the ASCII fragment (`Model/Basic.lean`) -/
def asciiCase : CaseSys := ⟨fun c => [upperC c], fun c => [lowerC c], isAlpha⟩

/-- `chr(c).upper()` when it is one character -/
def upperUC (c : Char) : Char :=
  match caseLookupG c.toNat Gen.upperRuns with
  | some m => Char.ofNat m
  | none => c

def multiLookup (n : Nat) : List (Nat × List Nat) → Option (List Nat)
  | [] => none
  | (k, im) :: r => if Nat.beq k n then some im else multiLookup n r

/-- `chr(c).upper()` -/
def upperFullU (c : Char) : List Char :=
  match multiLookup c.toNat Gen.upperMultiFull with
  | some im => im.map Char.ofNat
  | none => [upperUC c]

/-- `chr(c).lower()` -/
def lowerFullU (c : Char) : List Char :=
  match multiLookup c.toNat Gen.lowerMultiFull with
  | some im => im.map Char.ofNat
  | none => [lowerUC c]

/-- `chr(c).isalpha()` (`inRangesU`: `Model/UniCase.lean`) -/
def isAlphaU (c : Char) : Bool := inRangesU c.toNat Gen.alphaRanges

/-- the running interpreter's case mapping and letters -/
def uniCase : CaseSys := ⟨upperFullU, lowerFullU, isAlphaU⟩

namespace RT

/-- no U+03A3 anywhere in the text (the only character whose `lower()` depends on its neighbours) -/
def sigmaFree : RT → Bool
  | .str s => s.all fun c => c.toNat != 0x3A3
  | .sym _ => true
  | .node _ ps => sigmaFreeL ps
where sigmaFreeL : List RT → Bool
  | [] => true
  | p :: ps => sigmaFree p && sigmaFreeL ps

/-- `text.upper()` -/
def upperG (cs : CaseSys) (t : RT) : RT := caseMap cs.upper t
/-- `text.lower()` -/
def lowerG (cs : CaseSys) (t : RT) : RT := caseMap cs.lower t

/-- `capfirst()`: `self[:1].upper() + self[1:]`; `Protected` returns `self`. -/
def capfirstG (cs : CaseSys) (t : RT) : RT :=
  match t with
  | .node .prot _ => t
  | _ => add (upperG cs (getSlice t none (some 1))) (getSlice t (some 1) none)

/-- `capitalize()`: `self[:1].upper() + self[1:].lower()`; `Protected` returns `self`. -/
def capitalizeG (cs : CaseSys) (t : RT) : RT :=
  match t with
  | .node .prot _ => t
  | _ => add (upperG cs (getSlice t none (some 1))) (lowerG cs (getSlice t (some 1) none))

mutual
/-- `text.isalpha()` with the letter test `alpha`. -/
def isAlphaG (alpha : Char → Bool) : RT → Bool
  | .str s => !s.isEmpty && s.all alpha
  | .sym _ => false
  | .node _ ps => lenL ps != 0 && isAlphaGL alpha ps
def isAlphaGL (alpha : Char → Bool) : List RT → Bool
  | [] => true
  | p :: ps => isAlphaG alpha p && isAlphaGL alpha ps
end

/-! ### `==` against an arbitrary Python value -/

/-- the right-hand side of `==`: a rich text object, or any other Python value (`'a'`, `None`, `5` …) -/
inductive PyVal where
  | text (t : RT)
  | other

/-- `a == v`.  `BaseMultipartText.__eq__` starts with `isinstance(other, BaseText)`, `String.__eq__` with
`type(other) == type(self)`, `Symbol.__eq__` with `isinstance(other, Symbol)`: a value that is not a
rich text compares unequal, nothing is raised.  (For `v == a` Python falls back to the same method.) -/
def eqVal (a : RT) : PyVal → Bool
  | .text b => eq a b
  | .other => false

/-! ### `split` at a compiled regular expression, `abbreviate` -/

/-- The compiled patterns the library hands to `text.split`. -/
inductive Re where
  | delim    -- `textutils.delimiter_re` = `([\s\-])`: one white-space character or hyphen, KEPT as a piece (capturing group)
  | dashes   -- `-+` (`dash_re` of `pybtex.style.formatting.unsrt`): runs of hyphens, dropped
deriving DecidableEq, Repr

/-- `re.compile(r'([\s\-])').split(s)` -/
def reSplitDelim : Str → Str → List Str
  | [], cur => [cur.reverse]
  | c :: r, cur => if isWs c || c == '-' then cur.reverse :: [c] :: reSplitDelim r [] else reSplitDelim r (c :: cur)

/-- `re.compile(r'-+').split(s)` -/
def reSplitDashes : Str → Str → Bool → List Str
  | [], cur, _ => [cur.reverse]
  | c :: r, cur, inRun =>
    if c == '-' then (if inRun then reSplitDashes r cur true else cur.reverse :: reSplitDashes r [] true)
    else reSplitDashes r (c :: cur) false

def reSplit : Re → Str → List Str
  | .delim, s => reSplitDelim s []
  | .dashes, s => reSplitDashes s [] false

mutual
/-- `text.split(sep, keep_empty_parts)` where `String.split` cuts its value with `f`
(`f = strSplit sep` gives `RT.split sep`; `f = reSplit re` is `sep.split(self.value)` for a compiled pattern).
`keep` is the effective `keep_empty_parts` (it defaults to true for every separator other than `None`). -/
def splitBy (f : Str → List Str) : RT → Bool → List RT
  | .str s, keep => ((f s).filter fun part => !part.isEmpty || keep).map .str
  | .sym n, _ => [.sym n]
  | .node .prot ps, _ => [.node .prot ps]
  | .node k ps, keep => splitByL f k keep ps (if keep then [.str []] else [])
def splitByL (f : Str → List Str) (k : Kind) (keep : Bool) : List RT → List RT → List RT
  | [], tail =>
    if !tail.isEmpty then
      (if len (mk k tail) != 0 || keep then [mk k tail] else [])
    else []
  | part :: ps, tail =>
    match (splitBy f part true).reverse with
    | [] => splitByL f k keep ps tail
    | last :: revInit =>
      let r := splitItems k keep revInit.reverse tail
      r.1 ++ splitByL f k keep ps (r.2 ++ [last])
end

/-- `keep_empty_parts` defaults to `sep is not None`: true for a compiled pattern -/
def keepRe (keep : Option Bool) : Bool :=
  match keep with
  | some b => b
  | none => true

/-- `text.split(compiled_pattern, keep_empty_parts)` -/
def splitRe (re : Re) (t : RT) (keep : Option Bool) : List RT := splitBy (reSplit re) t (keepRe keep)

/-- `abbreviate_word`: `word[0].add_period()` if `word.isalpha()`, else the word. -/
def abbreviateWord (alpha : Char → Bool) (terms : List Str) (w : RT) : Except Err RT :=
  if isAlphaG alpha w then
    match getIndex w 0 with
    | .ok c => .ok (addPeriod terms (.str ['.']) c)
    | .error e => .error e
  else .ok w

/-- `BaseText.abbreviate()`: `String('').join(abbreviate_word(part) for part in self.split(delimiter_re))`. -/
def abbreviate (alpha : Char → Bool) (terms : List Str) (t : RT) : Except Err RT :=
  match (splitRe .delim t none).mapM (abbreviateWord alpha terms) with
  | .ok ws => .ok (join (.str []) ws)
  | .error e => .error e

/-! ### operation histories (all operations, any case system) -/

inductive OpG where
  | add (x : RT) | radd (x : RT) | append (x : RT) | joinWith (xs : List RT)
  | slice (i j : Option Int) | index (i : Int)
  | upper | lower | capfirst | capitalize
  | addPeriod (period : RT)      -- `cur.add_period(period)`
  | splitPick (sep : Sep) (keep : Option Bool) (pick : Nat)
  | splitRePick (re : Re) (keep : Option Bool) (pick : Nat)
  | abbreviate
deriving Repr

def pickOf (ps : List RT) (pick : Nat) (dflt : RT) : RT :=
  match ps[pick % ps.length]? with
  | some p => p
  | none => dflt

def stepG (cs : CaseSys) (terms : List Str) (t : RT) : OpG → Except Err RT
  | .add x => .ok (add t x)
  | .radd x => .ok (add x t)
  | .append x => .ok (append t x)
  | .joinWith xs => .ok (join t xs)
  | .slice i j => .ok (getSlice t i j)
  | .index i => getIndex t i
  | .upper => .ok (upperG cs t)
  | .lower => .ok (lowerG cs t)
  | .capfirst => .ok (capfirstG cs t)
  | .capitalize => .ok (capitalizeG cs t)
  | .addPeriod period => .ok (addPeriod terms period t)
  | .splitPick sep keep pick => .ok (pickOf (split sep t keep) pick t)
  | .splitRePick re keep pick => .ok (pickOf (splitRe re t keep) pick t)
  | .abbreviate => abbreviate cs.alpha terms t

/-- Apply the operations on top of one another; an operation that raises leaves the current text as it is. -/
def runG (cs : CaseSys) (terms : List Str) (t : RT) : List OpG → List (Except Err RT)
  | [] => []
  | op :: ops =>
    match stepG cs terms t op with
    | .ok t' => .ok t' :: runG cs terms t' ops
    | .error e => .error e :: runG cs terms t ops

end RT
end Pybtex
