/-
Where the problems of property C16 come from: the exits of the readers of user input, as values
of the error channel model (`Model/Errors.lean`).

The reader models belong to other properties and keep their own, smaller error types:

  `.bib` reader        `Model/BibParse.lean`  (C01/C10)   `Bib.Err`  = kind + line
  `.bst` parser        `Model/BstParse.lean`  (C15)       `Scanner.Err`
  `.aux` reader        `Model/AuxFile.lean`   (C20)       `Aux.Report`, `Aux.Fatal`
  BST interpreter      `Model/Interp.lean`    (C03)       `Interp.Report`, `Interp.IErr`

This file says which exception object of `pybtex` each of those values is (class, constructor
arguments): `ofBib`, `ofBst`, `ofAux`, `ofAuxFatal`, `ofInterpReport`, `ofIErr`.  `none` = the
value is not a pybtex error (a model-only outcome such as "out of fuel", shown unreachable by the
owning property, or a place where the Python code raises a non-pybtex exception).

What the reader models do not track — the file name the parser was given and, for
`TokenRequired`, the text position the marker line is drawn from — is a parameter (`fn`, `ctx`);
class, message, line number and therefore `str(error)` do not depend on it
(`Lemmas/ErrorSources.lean`).

A run of a reader is a `Comp Err`: the problems it reports in order and the error that ends it.
`bibComp`, `bstComp`, `auxComp`, `bstRunComp` build it from the reader models, so that the
expected list of problems of an input is computed from the input, not observed.
-/
import PybtexModel.Model.Errors
import PybtexModel.Model.BibParse
import PybtexModel.Model.BstParse
import PybtexModel.Model.AuxFile
import PybtexModel.Model.Interp

namespace Pybtex.Errors

/-- a parser position for a reader model that does not track one: only `lineno` is meaningful -/
def CtxInfo.atLine (kind : ParserKind) (ctx : CtxInfo) (line : Option Nat) : CtxInfo :=
  { ctx with kind := kind, lineno := line }

/-! ### `.bib` reader -/

/-- the exception object a problem of the `.bib` reader model is -/
def ofBib (fn : Option Str) (ctx : CtxInfo) (e : Bib.Err) : Option Err :=
  match e.kind with
  | .tokenRequired d => some (.tokenRequired d.toList fn (ctx.atLine .lowLevel e.line))
  | .prematureEOF => some (.syntaxErr .prematureEOF [] fn e.line)
  | .tooManyBraces => some (.syntaxErr .pybtexSyntaxError "too many nested braces".toList fn e.line)
  | .unbalancedBraces => some (.syntaxErr .pybtexSyntaxError "unbalanced braces".toList fn e.line)
  | .undefinedMacro n => some (.syntaxErr .undefinedMacro n fn e.line)
  | .duplicateField k f => some (.duplicateField k f)
  | .repeatedEntry k =>
    some (.plain .bibliographyDataError ("repeated bibliography entry: ".toList ++ k) none)
  | .invalidName n => some (.invalidNameString n)
  | .nameTooDeep => some (.plain .bibTeXError "too many nested braces".toList none)
  | .internal => none

/-- the classes the `.bib` reader can report or raise -/
def bibClasses : List String :=
  ["TokenRequired", "PrematureEOF", "PybtexSyntaxError", "UndefinedMacro", "DuplicateField",
   "BibliographyDataError", "InvalidNameString", "BibTeXError"]

/-- `parse_string(text, 'bibtex')` as a computation: the problems reported when reading goes on
after each of them (`strict = false` in the reader model), and the error that ends the reading
nevertheless -/
def bibComp (fn : Option Str) (ctx : CtxInfo) (text : Str) (wanted : Option (List Str) := none)
    (macros0 : List (Str × Str) := Gen.monthMacros) (roles : List Str := Gen.personRoles) : Comp Err :=
  let r := Bib.parseBib text false wanted macros0 roles
  { reports := r.1.errs.filterMap (ofBib fn ctx), fatal := r.2.bind (ofBib fn ctx) }

/-- the same reading in strict mode, by the reader model's own strict run: the error raised -/
def bibStrictRaised (fn : Option Str) (ctx : CtxInfo) (text : Str) (wanted : Option (List Str) := none)
    (macros0 : List (Str × Str) := Gen.monthMacros) (roles : List Str := Gen.personRoles) : Option Err :=
  (Bib.parseBib text true wanted macros0 roles).2.bind (ofBib fn ctx)

/-! ### `.bst` parser -/

/-- the exception object an exit of the `.bst` parser model is (`EOFError` is caught by
`BstParser.parse`; `outOfFuel` is model-only) -/
def ofBst (fn : Option Str) (ctx : CtxInfo) : Scanner.Err → Option Err
  | .prematureEOF line => some (.syntaxErr .prematureEOF [] fn (some line))
  | .tokenRequired d line => some (.tokenRequired d fn (ctx.atLine .scanner (some line)))
  | .syntaxError msg line => some (.syntaxErr .pybtexSyntaxError msg fn (some line))
  | .eof => none
  | .outOfFuel => none

def bstClasses : List String := ["PrematureEOF", "TokenRequired", "PybtexSyntaxError"]

/-- which entry point of `pybtex.bibtex.bst` reads the text -/
inductive BstEntry where
  | string | stream | file
  deriving DecidableEq, Repr

def bstParse : BstEntry → Str → Except Scanner.Err Bst.Program
  | .string => Bst.parseString
  | .stream => Bst.parseStream
  | .file => Bst.parseFile

/-- parsing a `.bst` text reports nothing; a syntax error is raised whatever the mode -/
def bstComp (fn : Option Str) (ctx : CtxInfo) (entry : BstEntry) (src : Str) : Comp Err :=
  match bstParse entry src with
  | .ok _ => { reports := [], fatal := none }
  | .error e => { reports := [], fatal := ofBst fn ctx e }

/-! ### `.aux` reader -/

/-- `AuxDataError(message, context)` (location copied at construction, C20-2) -/
def ofAux (r : Aux.Report) : Err := .auxData r.kind.message (some r.file) r.lineno r.line

/-- `pybtex.io`: `PybtexError('unable to open <path>. <strerror>')` for a missing file -/
def openMessage (p : Str) : Str := "unable to open ".toList ++ p ++ ". No such file or directory".toList

def ofAuxFatal : Aux.Fatal → Option Err
  | .aux e => some (ofAux e)
  | .cannotOpen p => some (.plain .pybtexError (openMessage p) none)
  | .outOfFuel => none
  | .attributeError => none

def auxClasses : List String := ["AuxDataError", "PybtexError"]

/-- `auxfile.parse_file(top)` over a file system as a computation -/
def auxComp (fs : Aux.FS) (fuel : Nat) (top : Str) : Comp Err :=
  match Aux.parse fs fuel top with
  | .ok st => { reports := st.reports.map ofAux, fatal := none }
  | .error a => { reports := a.reports.map ofAux, fatal := ofAuxFatal a.fatal }

/-! ### BibTeX engine (BST interpreter) -/

def quoted (s : Str) : Str := ['"'] ++ s ++ ['"']

/-- citation-resolution problems; `bstEngine`: the BibTeX engine reports a missing entry through
`print_warning` (a `BibTeXError`), the Python engine as a `BibliographyDataError` -/
def ofData (bstEngine : Bool) : Pybtex.Report → Err
  | .repeated k => .plain .bibliographyDataError ("repeated bibliography entry: ".toList ++ k) none
  | .badCrossref k x =>
    .plain .bibliographyDataError
      ("bad cross-reference: entry ".toList ++ quoted k ++ " refers to entry ".toList ++ quoted x ++
        " which does not exist.".toList) none
  | .missingEntry k =>
    .plain (if bstEngine then .bibTeXError else .bibliographyDataError)
      ("missing database entry for ".toList ++ quoted k) none

def ofInterpReport (fn : Option Str) (ctx : CtxInfo) : Interp.Report → Option Err
  | .warning m => some (.plain .bibTeXError m none)
  | .bib e => ofBib fn ctx e
  | .data r => some (ofData true r)
  | .invalidName n => some (.invalidNameString n)

/-- what the interpreter model says about the end of a run -/
inductive RunEnd where
  | finished
  | bibtexError (msg : Str)      -- `BibTeXError(msg)` raised
  | syntaxError (cls : String)   -- a `PybtexSyntaxError` subclass from a name format string (class only)
  | bstSyntax (e : Err)          -- the `.bst` file does not parse
  | foreign (what : String)      -- the Python code raises a non-pybtex exception here
  | unknown                      -- model-only (fuel)
  deriving DecidableEq, Repr

/-- `bst.parse_file` returns a generator and `Interpreter.run` consumes it command by command: a
syntax error in the `.bst` file surfaces only after the commands before it have been executed.
The commands that parse, and the syntax error that stops the parser (if any).
Fuel = remaining length + 1, as in `Bst.parseF`. -/
def bstPrefixF : Nat → Scanner.St → List Bst.Command × Option Scanner.Err
  | 0, _ => ([], some .outOfFuel)
  | fuel + 1, st =>
    match Bst.parseCommand st with
    | .error .eof => ([], none)
    | .error e => ([], some e)
    | .ok (c, st1) =>
      let r := bstPrefixF fuel st1
      (c :: r.1, r.2)

/-- the text `parse_file` hands to the parser (as `Bst.parseFile`) -/
def bstFileText (src : Str) : Str := Bst.streamText (Pybtex.streamLines (Pybtex.universalNewlines src))

def bstFilePrefix (src : Str) : List Bst.Command × Option Scanner.Err :=
  bstPrefixF ((bstFileText src).length + 1) (Scanner.St.init (bstFileText src))

/-- `BibTeXEngine().format_from_strings(bibs, style=<file with this text>, citations=…)`:
the reports of a run that is not ended by a run-time error (`none` when it is: the interpreter
model drops what was reported before the error), and how the run ends.  The commands before a
syntax error of the `.bst` file are executed first (lazy parsing): their reports precede it, and a
run-time error among them ends the run instead. -/
def bstRun (fn : Option Str) (ctx : CtxInfo) (fuel : Nat) (bst : Str) (inp : Interp.Input) :
    Option (List Err) × RunEnd :=
  let pre := bstFilePrefix bst
  match Interp.run fuel pre.1 inp with
  | .ok o =>
    let reports := o.reports.filterMap (ofInterpReport fn ctx)
    match pre.2 with
    | none => (some reports, .finished)
    | some e =>
      match ofBst fn ctx e with
      | some x => (some reports, .bstSyntax x)
      | none => (none, .unknown)
  | .error (.bibtex m, _) => (none, .bibtexError m.toList)
  | .error (.syntax c, _) => (none, .syntaxError c)
  | .error (.internal w, _) => (none, .foreign w)
  | .error (.outOfFuel, _) => (none, .unknown)

end Pybtex.Errors
