/-
Model of the BST interpreter: `pybtex/bibtex/interpreter.py` (`Interpreter`, the variable
classes, `Field`, `Crossref`, `Identifier`, `QuotedVar`, `Function`, `FunctionLiteral`) and
every built-in of `pybtex/bibtex/builtins.py`, on top of the models of the string primitives
(C12), name formatting (C11), line wrapping (C19), the `.bib` reader (C01), citation
resolution (C05) and field lookup (C14).

Execution takes fuel (the stack language has `while$` and recursion is possible through
`'name` references): every call of `execTok` / `execBody` / `runBuiltin` consumes one unit;
`IErr.outOfFuel` means "did not finish within the fuel".

Errors: `IErr.bibtex` = a `BibTeXError` raised by the interpreter (fatal, a pybtex error);
`IErr.syntax` = a `PybtexSyntaxError` from a name-format string (fatal, a pybtex error);
`IErr.internal` = the Python code would raise a non-pybtex exception (`TypeError`,
`AttributeError`, `KeyError`, `IndexError`, `ValueError`): ill-typed programs, outside the domain of
C03.  Warnings (`print_warning` = `report_error(BibTeXError(msg))`) are collected (capture mode).

Every built-in pops the same number of raw values in the same order as the Python function
(`interpreter.pop()`: `BibTeXError('pop from empty stack')` on an empty stack, whatever the
operand types) and only afterwards inspects them, where Python would raise.  Where Python's
behaviour on an ill-typed operand is an ordinary result the model follows it (`=` on any two
values, `add.period$` / `empty$` / `change.case$` on the integer 0, `warning$` on an integer,
`substring$` with start 0, `text.prefix$` with a count <= 0, `format.name$` with a name number
< 1, `chr.to.int$`: `BibTeXError` on anything but a one-character string), with three exceptions
marked `unmodelled:` in the error text (Python computes the `repr` of an object there):
`int.to.str$`, `warning$` and the `format.name$` warning on a function / variable object, and
`write$` of a non-string (Python fails at the next `newline$`); and `int.to.chr$` of a surrogate code
point (0xD800–0xDFFF: Python's `chr` returns a lone surrogate, which a Lean `Char` cannot hold).

`St.trace` is a ghost component: the list of the `write$` / `newline$` calls executed so far (an
`OutEv` each).  Nothing in the model reads it and the driver does not print it; the output
theorems of C03 are stated over it.

Known abstractions: a value pushed by `'name` is modelled as a reference *by name* into the
variable table (the code pushes the object itself); the two differ only if `INTEGERS`/`STRINGS`
re-declares the variable while such a reference is still on the stack.  What `top$` / `stack$`
print for a function or variable object (its Python `repr`, which may contain a memory address)
is the tag `<object>`.
-/
import PybtexModel.Model.BstParse
import PybtexModel.Model.NameFormat
import PybtexModel.Model.Width
import PybtexModel.Model.Wrap
import PybtexModel.Model.BibParse
import PybtexModel.Model.BibWrite
import PybtexModel.Model.Citations
import PybtexModel.Model.Crossref

namespace Pybtex.Interp
open Pybtex.Bst (Command Program)

/-- instructions = tokens of the `.bst` AST -/
abbrev BTok := Bst.Tok

inductive Val where
  | int (n : Int)
  | str (s : Str)
  | missing (name : Str)        -- `MissingField(name)`: an empty `str` that `missing$` recognises
  | fn (body : List BTok)        -- `Function(body)` pushed by a function literal
  | ref (name : Str)            -- the object `vars[name]` pushed by `'name`
deriving Repr

inductive Builtin where
  | gt | lt | eq | mul | assign | plus | minus | addPeriod | callType | changeCase | chrToInt | cite
  | duplicate | empty | formatName | if_ | intToChr | intToStr | missing | newline | numNames | pop
  | preamble | purify | quote | skip | substring | stack | swap | textLength | textPrefix | top
  | type_ | warning | while_ | width | write
deriving Repr, DecidableEq

def builtinTable : List (String × Builtin) :=
  [(">", .gt), ("<", .lt), ("=", .eq), ("*", .mul), (":=", .assign), ("+", .plus), ("-", .minus),
   ("add.period$", .addPeriod), ("call.type$", .callType), ("change.case$", .changeCase),
   ("chr.to.int$", .chrToInt), ("cite$", .cite), ("duplicate$", .duplicate), ("empty$", .empty),
   ("format.name$", .formatName), ("if$", .if_), ("int.to.chr$", .intToChr), ("int.to.str$", .intToStr),
   ("missing$", .missing), ("newline$", .newline), ("num.names$", .numNames), ("pop$", .pop),
   ("preamble$", .preamble), ("purify$", .purify), ("quote$", .quote), ("skip$", .skip),
   ("substring$", .substring), ("stack$", .stack), ("swap$", .swap), ("text.length$", .textLength),
   ("text.prefix$", .textPrefix), ("top$", .top), ("type$", .type_), ("warning$", .warning),
   ("while$", .while_), ("width$", .width), ("write$", .write)]

inductive VarObj where
  | builtin (b : Builtin)
  | gint (v : Int)              -- `Integer` (global)
  | gstr (v : Val)              -- `String` (global): holds a `str` or a `MissingField`
  | eint (name : Str)           -- `EntryInteger(interpreter, name)`
  | estr (name : Str)           -- `EntryString(interpreter, name)`
  | field (name : Str)
  | crossref
  | func (body : List BTok)
deriving Repr

inductive IErr where
  | bibtex (msg : String)
  | syntax (cls : String)
  | internal (what : String)
  | outOfFuel
deriving Repr

inductive Report where
  | warning (msg : Str)                 -- print_warning(msg)
  | bib (e : Bib.Err)                   -- a problem reported by the .bib reader
  | data (r : Pybtex.Report)            -- bad cross-reference / repeated entry from citation resolution
  | invalidName (name : Str)            -- `Person()` inside format.name$
deriving Repr

/-- an output event: a `write$` call with the text it was given, a `newline$` call -/
inductive OutEv where
  | write (x : Str)
  | newline
deriving Repr, DecidableEq

structure St where
  stack : List Val := []
  vars : CIDict VarObj
  macros : List (Str × Str) := []
  buffer : List Str := []
  lines : List Str := []
  entryVars : List (Str × List (Str × Val)) := []
  citations : List Str := []
  db : Option BibData := none
  preamble : Str := []
  cur : Option Str := none
  reports : List Report := []
  printed : List Str := []
  /-- ghost component (not part of the Python state, nothing reads it): the `write$` / `newline$`
  calls executed so far, in order — the vocabulary in which the output theorems are stated -/
  trace : List OutEv := []

def initVars : CIDict VarObj :=
  let v := CIDict.ofPairs (builtinTable.map fun p => (p.1.toList, VarObj.builtin p.2))
  let v := v.setItem "global.max$".toList (.gint 20000)
  let v := v.setItem "entry.max$".toList (.gint 250)
  v.setItem "sort.key$".toList (.estr "sort.key$".toList)

def push (s : St) (v : Val) : St := { s with stack := v :: s.stack }

def pop (s : St) : Except IErr (Val × St) :=
  match s.stack with
  | [] => .error (.bibtex "pop from empty stack")
  | v :: r => .ok (v, { s with stack := r })

def popInt (s : St) : Except IErr (Int × St) :=
  match pop s with
  | .error e => .error e
  | .ok (.int n, s) => .ok (n, s)
  | .ok _ => .error (.internal "integer expected")

/-- a Python `str` value (a missing field is an empty string) -/
def popStr (s : St) : Except IErr (Str × St) :=
  match pop s with
  | .error e => .error e
  | .ok (.str x, s) => .ok (x, s)
  | .ok (.missing _, s) => .ok ([], s)
  | .ok _ => .error (.internal "string expected")

def warn (s : St) (msg : Str) : St := { s with reports := s.reports ++ [.warning msg] }

/-- `add_variable`. -/
def addVariable (s : St) (name : Str) (v : VarObj) : Except IErr St :=
  if s.vars.contains name then .error (.bibtex "variable already declared")
  else .ok { s with vars := s.vars.setItem name v }

/-! ### entry frames -/

def frameOf (s : St) (key : Str) : List (Str × Val) :=
  match dget s.entryVars key with
  | some f => f
  | none => []

def setEntryVar (s : St) (key name : Str) (v : Val) : St :=
  { s with entryVars := dset s.entryVars key (dset (frameOf s key) name v) }

def curEntry (s : St) : Except IErr (Str × Pybtex.Entry × BibData) :=
  match s.cur, s.db with
  | some k, some db =>
    match db.entries.getItem k with
    | some e => .ok (k, e, db)
    | none => .error (.internal "KeyError: current entry")
  | _, _ => .error (.internal "AttributeError: no current entry")

/-! ### small helpers for the built-ins -/

def natToStr (n : Nat) : Str := (toString n).toList
def intToStr (n : Int) : Str := (toString n).toList

/-- Python `<` on strings: code-point lexicographic. -/
def strLt : Str → Str → Bool
  | [], [] => false
  | [], _ :: _ => true
  | _ :: _, [] => false
  | a :: r, b :: t => if a.toNat < b.toNat then true else if a.toNat > b.toNat then false else strLt r t

def valToStr : Val → Option Str
  | .str s => some s
  | .missing _ => some []
  | _ => none

mutual
/-- `==` of two elements of function bodies (`Variable.__eq__`: same class and same value;
`Function.__eq__`: same class and equal bodies) -/
def tokEq : BTok → BTok → Bool
  | .int a, .int b => a == b
  | .str a, .str b => a == b
  | .quoted a, .quoted b => a == b
  | .name a, .name b => a == b
  | .fn a, .fn b => toksEq a b
  | _, _ => false
def toksEq : List BTok → List BTok → Bool
  | [], [] => true
  | a :: r, b :: t => tokEq a b && toksEq r t
  | _, _ => false
end

/-- `==` of two variable objects; `same`: they are one object (the two names denote one slot of
the table).  `none` = `AttributeError`: an entry variable has no `_value` attribute, so comparing
two of the same class fails. -/
def objEq (same : Bool) : VarObj → VarObj → Option Bool
  | .gint a, .gint b => some (a == b)
  | .gstr a, .gstr b => some (valToStr a == valToStr b)
  | .eint _, .eint _ => none
  | .estr _, .estr _ => none
  | .func a, .func b => some (toksEq a b)
  | .field _, .field _ => some same
  | .crossref, .crossref => some same
  | .builtin _, .builtin _ => some same
  | _, _ => some false

/-- Python `arg2 == arg1` between two stack values: integers and strings by value (a missing
field is the empty string), function values by their bodies, variable objects by `objEq`,
values of different kinds are unequal.  `none` = the comparison raises. -/
def valEq (vars : CIDict VarObj) (a b : Val) : Option Bool :=
  match a, b with
  | .int x, .int y => some (x == y)
  | .fn x, .fn y => some (toksEq x y)
  | .ref n, .ref m =>
    match vars.getItem n, vars.getItem m with
    | some o, some o' => objEq (lower n == lower m) o o'
    | _, _ => none
  | .ref n, .fn y | .fn y, .ref n =>
    match vars.getItem n with
    | some (.func x) => some (toksEq x y)
    | some _ => some false
    | none => none
  | a, b =>
    match valToStr a, valToStr b with
    | some x, some y => some (x == y)
    | _, _ => some false

/-- what `top$` / `stack$` print for a value (`print(value)`): the decimal representation of an
integer, a string as it is (a missing field is empty); the `repr` of a function or variable
object is abstracted to a tag -/
def printVal : Val → Str
  | .int n => intToStr n
  | .str x => x
  | .missing _ => []
  | .fn _ | .ref _ => "<object>".toList

/-- `add.period$` (repaired: a string of closing braces only gets its period, as in BibTeX). -/
def addPeriod (s : Str) : Str :=
  if s = [] then s
  else
    let core := (s.reverse.dropWhile (· = '}')).reverse
    match core.getLast? with
    | some c => if c = '.' ∨ c = '?' ∨ c = '!' then s else s ++ ['.']
    | none => s ++ ['.']

/-- Python `names[n - 1]`. -/
def pyIndex (l : List α) (i : Int) : Option α :=
  let n : Int := l.length
  let j := if i < 0 then i + n else i
  if j < 0 ∨ j ≥ n then none else l[j.toNat]?

def fmtErrToIErr : FmtErr → IErr
  | .unbalanced => .syntax "UnbalancedBraceError"
  | .prematureEOF => .syntax "PrematureEOF"
  | .tokenRequired => .syntax "TokenRequired"
  | .illegalLetters => .syntax "PybtexSyntaxError"
  | .tooDeep => .bibtex "too many nested braces"
  | .internal => .internal "name format"

def tooDeep : IErr := .bibtex "too many nested braces"

def isBlank (s : Str) : Bool := s.all isWs

/-! ### execution -/

mutual

/-- `value.execute(interpreter)` for a value popped from the stack (`if$`, `while$`). -/
def execVal : Nat → Val → St → Except IErr St
  | 0, _, _ => .error .outOfFuel
  | fuel + 1, v, s =>
    match v with
    | .fn body => execBody fuel body s
    | .ref name =>
      match s.vars.getItem name with
      | some o => execObj fuel o s
      | none => .error (.internal "dangling reference")
    | _ => .error (.internal "AttributeError: execute")

/-- `vars[name].execute(interpreter)`. -/
def execObj : Nat → VarObj → St → Except IErr St
  | 0, _, _ => .error .outOfFuel
  | fuel + 1, o, s =>
    match o with
    | .builtin b => runBuiltin fuel b s
    | .gint v => .ok (push s (.int v))
    | .gstr v => .ok (push s v)
    | .eint n =>
      match s.cur with
      | none => .error (.internal "AttributeError: current_entry_vars")
      | some k => .ok (push s (match dget (frameOf s k) n with | some v => v | none => .int 0))
    | .estr n =>
      match s.cur with
      | none => .error (.internal "AttributeError: current_entry_vars")
      | some k => .ok (push s (match dget (frameOf s k) n with | some v => v | none => .str []))
    | .field n =>
      match curEntry s with
      | .error e => .error e
      | .ok (_, e, db) =>
        .ok (push s (match bstFieldValue db e n with | .str v => .str v | .missing m => .missing m))
    | .crossref =>
      match curEntry s with
      | .error e => .error e
      | .ok (_, e, db) =>
        .ok (push s (match bstCrossrefValue db e with | .str v => .str v | .missing m => .missing m))
    | .func body => execBody fuel body s

/-- one element of a function body -/
def execTok : Nat → BTok → St → Except IErr St
  | 0, _, _ => .error .outOfFuel
  | fuel + 1, t, s =>
    match t with
    | .int v => .ok (push s (.int v))
    | .str v => .ok (push s (.str v))
    | .fn body => .ok (push s (.fn body))
    | .quoted n =>
      if s.vars.contains n then .ok (push s (.ref n))
      else .error (.bibtex "can not push undefined variable")
    | .name n =>
      match s.vars.getItem n with
      | none => .error (.bibtex "can not execute undefined function")
      | some o => execObj fuel o s

def execBody : Nat → List BTok → St → Except IErr St
  | 0, _, _ => .error .outOfFuel
  | _ + 1, [], s => .ok s
  | fuel + 1, t :: ts, s =>
    match execTok fuel t s with
    | .error e => .error e
    | .ok s => execBody fuel ts s

/-- the loop of `while$`: `p.execute; if pop() <= 0: break; f.execute`. -/
def whileLoop : Nat → Val → Val → St → Except IErr St
  | 0, _, _, _ => .error .outOfFuel
  | fuel + 1, p, f, s =>
    match execVal fuel p s with
    | .error e => .error e
    | .ok s =>
      match popInt s with
      | .error e => .error e
      | .ok (n, s) =>
        if n ≤ 0 then .ok s
        else
          match execVal fuel f s with
          | .error e => .error e
          | .ok s => whileLoop fuel p f s

def runBuiltin : Nat → Builtin → St → Except IErr St
  | 0, _, _ => .error .outOfFuel
  | fuel + 1, b, s =>
    match b with
    | .gt | .lt =>
      match pop s with
      | .error e => .error e
      | .ok (a1, s) =>
        match pop s with
        | .error e => .error e
        | .ok (a2, s) =>
          match a2, a1 with
          | .int x, .int y => .ok (push s (.int (if (if b = .gt then x > y else x < y) then 1 else 0)))
          | x, y =>
            match valToStr x, valToStr y with
            | some x, some y => .ok (push s (.int (if (if b = .gt then strLt y x else strLt x y) then 1 else 0)))
            | _, _ => .error (.internal "TypeError: comparison")
    | .eq =>
      match pop s with
      | .error e => .error e
      | .ok (a1, s) =>
        match pop s with
        | .error e => .error e
        | .ok (a2, s) =>
          match valEq s.vars a2 a1 with
          | some r => .ok (push s (.int (if r then 1 else 0)))
          | none => .error (.internal "AttributeError: _value")
    | .plus | .mul =>
      match pop s with
      | .error e => .error e
      | .ok (a1, s) =>
        match pop s with
        | .error e => .error e
        | .ok (a2, s) =>
          match a2, a1 with
          | .int x, .int y => .ok (push s (.int (x + y)))
          | x, y =>
            match valToStr x, valToStr y with
            | some x, some y => .ok (push s (.str (x ++ y)))
            | _, _ => .error (.internal "TypeError: +")
    | .minus =>
      match pop s with
      | .error e => .error e
      | .ok (a1, s) =>
        match pop s with
        | .error e => .error e
        | .ok (a2, s) =>
          match a2, a1 with
          | .int x, .int y => .ok (push s (.int (x - y)))
          | _, _ => .error (.internal "TypeError: -")
    | .assign =>
      match pop s with
      | .error e => .error e
      | .ok (var, s) =>
        match pop s with
        | .error e => .error e
        | .ok (value, s) =>
          match var with
          | .ref name =>
            match s.vars.getItem name with
            | some (.gint _) =>
              match value with
              | .int n => .ok { s with vars := s.vars.setItem name (.gint n) }
              | _ => .error (.internal "ValueError: Integer")
            | some (.gstr _) =>
              match value with
              | .str _ | .missing _ => .ok { s with vars := s.vars.setItem name (.gstr value) }
              | _ => .error (.internal "ValueError: String")
            | some (.eint n) =>
              match value, s.cur with
              | .int _, some k => .ok (setEntryVar s k n value)
              | .int _, none => .error (.internal "AttributeError: current_entry_vars")
              | _, _ => .error (.internal "ValueError: EntryInteger")
            | some (.estr n) =>
              match value, s.cur with
              | .str _, some k | .missing _, some k => .ok (setEntryVar s k n value)
              | .str _, none | .missing _, none => .error (.internal "AttributeError: current_entry_vars")
              | _, _ => .error (.internal "ValueError: EntryString")
            | _ => .error (.internal "AttributeError: set")
          | _ => .error (.internal "AttributeError: set")
    | .addPeriod =>
      match pop s with
      | .error e => .error e
      | .ok (.str x, s) => .ok (push s (.str (addPeriod x)))
      | .ok (.missing m, s) => .ok (push s (.missing m))
      | .ok (.int 0, s) => .ok (push s (.int 0))          -- `if s:` is false for 0
      | .ok _ => .error (.internal "AttributeError: rstrip")
    | .callType =>
      match curEntry s with
      | .error e => .error e
      | .ok (k, e, _) =>
        match s.vars.getItem e.type with
        | some o => execObj fuel o s
        | none =>
          let s := warn s ("entry type for \"".toList ++ k ++ "\" isn't style-file defined".toList)
          match s.vars.getItem "default.type".toList with
          | some o => execObj fuel o s
          | none => .ok s
    | .changeCase =>
      match pop s with
      | .error e => .error e
      | .ok (mode, s) =>
        match pop s with
        | .error e => .error e
        | .ok (str, s) =>
          match mode with
          | .int n =>                                     -- `if not mode` … `mode[0]`
            if n = 0 then .error (.bibtex "empty mode string passed to change.case$")
            else .error (.internal "TypeError: mode[0]")
          | .fn _ | .ref _ => .error (.internal "TypeError: mode[0]")
          | .missing _ | .str [] => .error (.bibtex "empty mode string passed to change.case$")
          | .str (c :: _) =>
            let l := lowerC c
            let m : Option CaseMode := if l = 'l' then some .l else if l = 'u' then some .u else if l = 't' then some .t else none
            match m with
            | none => .error (.bibtex "incorrect change.case$ mode")
            | some m =>
              match valToStr str with
              | none => .error (.internal "TypeError: change_case of a non-string")
              | some str =>
                match changeCase str m with
                | none => .error tooDeep
                | some r => .ok (push s (.str r))
    | .chrToInt =>
      match pop s with
      | .error e => .error e
      | .ok (.str [c], s) => .ok (push s (.int c.toNat))
      | .ok _ => .error (.bibtex "passed to chr.to.int$")   -- `ord(s)` raises `TypeError` for everything else
    | .cite =>
      match s.cur with
      | some k => .ok (push s (.str k))
      | none => .error (.internal "AttributeError: current_entry_key")
    | .duplicate =>
      match pop s with
      | .error e => .error e
      | .ok (v, s) => .ok (push (push s v) v)
    | .empty =>
      match pop s with
      | .error e => .error e
      | .ok (.str x, s) => .ok (push s (.int (if x ≠ [] ∧ !isBlank x then 0 else 1)))
      | .ok (.missing _, s) => .ok (push s (.int 1))
      | .ok (.int 0, s) => .ok (push s (.int 1))          -- `if s and …` is false for 0
      | .ok _ => .error (.internal "AttributeError: isspace")
    | .formatName =>
      match pop s with
      | .error e => .error e
      | .ok (fmt, s) =>
        match pop s with
        | .error e => .error e
        | .ok (n, s) =>
          match pop s with
          | .error e => .error e
          | .ok (names, s) =>
            match n with
            | .int n =>
              -- repaired: a name number outside 1..count gives a warning and the empty string (as BibTeX)
              if n < 1 then
                -- `1 <= n` fails before `names` is looked at; the message is `'…"{1}"'.format(n, names)`
                match names with
                | .str x => .ok (push (warn s ("there is no name number ".toList ++ intToStr n ++ " in \"".toList ++ x ++ "\"".toList)) (.str []))
                | .missing _ => .ok (push (warn s ("there is no name number ".toList ++ intToStr n ++ " in \"".toList ++ "\"".toList)) (.str []))
                | .int k => .ok (push (warn s ("there is no name number ".toList ++ intToStr n ++ " in \"".toList ++ intToStr k ++ "\"".toList)) (.str []))
                | _ => .error (.internal "unmodelled: repr of an object in a warning")
              else
                match valToStr names with
                | none => .error (.internal "TypeError: split_name_list of a non-string")
                | some names =>
                  if n > (splitNameList names).length then
                    .ok (push (warn s ("there is no name number ".toList ++ intToStr n ++ " in \"".toList ++ names ++ "\"".toList)) (.str []))
                  else
                    match valToStr fmt with
                    | none => .error (.internal "TypeError: format_name with a non-string format")
                    | some fmt =>
                      match pyIndex (splitNameList names) (n - 1) with
                      | none => .error (.internal "IndexError: format.name$")
                      | some name =>
                        match formatName name fmt with
                        | .error e => .error (fmtErrToIErr e)
                        | .ok (r, tooMany) =>
                          let s := if tooMany then { s with reports := s.reports ++ [.invalidName (strip name)] } else s
                          .ok (push s (.str r))
            | _ => .error (.internal "TypeError: 1 <= n")
    | .if_ =>
      match pop s with
      | .error e => .error e
      | .ok (f1, s) =>
        match pop s with
        | .error e => .error e
        | .ok (f2, s) =>
          match popInt s with
          | .error e => .error e
          | .ok (p, s) => if p > 0 then execVal fuel f2 s else execVal fuel f1 s
    | .intToChr =>
      match popInt s with
      | .error e => .error e
      | .ok (n, s) =>
        if 0xD800 ≤ n ∧ n ≤ 0xDFFF then
          -- Python's `chr` gives a lone surrogate; a Lean `Char` cannot hold one (`Char.ofNat` would be `'\0'`)
          .error (.internal "unmodelled: chr() of a surrogate code point")
        else if 0 ≤ n ∧ n < 0x110000 then .ok (push s (.str [Char.ofNat n.toNat]))
        else if n < -2147483648 ∨ 2147483647 < n then .error (.internal "OverflowError: chr")   -- not a C int
        else .error (.bibtex "passed to int.to.chr$")
    | .intToStr =>
      match pop s with
      | .error e => .error e
      | .ok (.int n, s) => .ok (push s (.str (intToStr n)))
      | .ok (.str x, s) => .ok (push s (.str x))
      | .ok (.missing _, s) => .ok (push s (.str []))
      | .ok _ => .error (.internal "unmodelled: str() of an object")
    | .missing =>
      match pop s with
      | .error e => .error e
      | .ok (.missing _, s) => .ok (push s (.int 1))
      | .ok (_, s) => .ok (push s (.int 0))
    | .newline =>
      .ok { s with lines := s.lines ++ [Wrap.wrapDefault s.buffer.flatten, ['\n']], buffer := [],
                   trace := s.trace ++ [.newline] }
    | .numNames =>
      match popStr s with
      | .error e => .error e
      | .ok (x, s) => .ok (push s (.int (splitNameList x).length))
    | .pop =>
      match pop s with
      | .error e => .error e
      | .ok (_, s) => .ok s
    | .preamble =>
      match s.db with
      | some _ => .ok (push s (.str s.preamble))
      | none => .error (.internal "AttributeError: bib_data")
    | .purify =>
      match popStr s with
      | .error e => .error e
      | .ok (x, s) =>
        match bibtexPurify x with
        | none => .error tooDeep
        | some r => .ok (push s (.str r))
    | .quote => .ok (push s (.str ['"']))
    | .skip => .ok s
    | .substring =>
      match pop s with
      | .error e => .error e
      | .ok (len, s) =>
        match pop s with
        | .error e => .error e
        | .ok (start, s) =>
          match pop s with
          | .error e => .error e
          | .ok (x, s) =>
            match start with
            | .int start =>
              if start = 0 then .ok (push s (.str []))        -- returned before the other operands are used
              else
                match len, valToStr x with
                | .int len, some x => .ok (push s (.str (bibtexSubstring x start len)))
                | _, _ => .error (.internal "TypeError: bibtex_substring")
            | _ => .error (.internal "TypeError: start > 0")
    | .stack => .ok { s with stack := [], printed := s.printed ++ s.stack.map printVal }
    | .swap =>
      match pop s with
      | .error e => .error e
      | .ok (t1, s) =>
        match pop s with
        | .error e => .error e
        | .ok (t2, s) => .ok (push (push s t1) t2)
    | .textLength =>
      match popStr s with
      | .error e => .error e
      | .ok (x, s) =>
        match bibtexLen x with
        | none => .error tooDeep
        | some n => .ok (push s (.int n))
    | .textPrefix =>
      match pop s with
      | .error e => .error e
      | .ok (l, s) =>
        match pop s with
        | .error e => .error e
        | .ok (x, s) =>
          match l with
          | .int l =>
            if l ≤ 0 then .ok (push s (.str []))              -- nothing is read from the string
            else
              match valToStr x with
              | none => .error (.internal "TypeError: bibtex_prefix of a non-string")
              | some x =>
                match bibtexPrefix x l with
                | none => .error tooDeep
                | some r => .ok (push s (.str r))
          | _ => .error (.internal "TypeError: num_chars <= 0")
    | .top =>
      match pop s with
      | .error e => .error e
      | .ok (v, s) => .ok { s with printed := s.printed ++ [printVal v] }
    | .type_ =>
      match curEntry s with
      | .error e => .error e
      | .ok (_, e, _) => .ok (push s (.str e.type))
    | .warning =>
      match pop s with
      | .error e => .error e
      | .ok (.str msg, s) => .ok (warn s msg)
      | .ok (.missing _, s) => .ok (warn s [])
      | .ok (.int n, s) => .ok (warn s (intToStr n))       -- `BibTeXError(n)`, printed as `str(n)`
      | .ok _ => .error (.internal "unmodelled: repr of an object in a warning")
    | .while_ =>
      match pop s with
      | .error e => .error e
      | .ok (f, s) =>
        match pop s with
        | .error e => .error e
        | .ok (p, s) => whileLoop fuel p f s
    | .width =>
      match popStr s with
      | .error e => .error e
      | .ok (x, s) =>
        match bibtexWidthStd x with
        | none => .error tooDeep
        | some w => .ok (push s (.int w))
    | .write =>
      match pop s with
      | .error e => .error e
      | .ok (.str x, s) => .ok { s with buffer := s.buffer ++ [x], trace := s.trace ++ [.write x] }
      | .ok (.missing _, s) => .ok { s with buffer := s.buffer ++ [[]], trace := s.trace ++ [.write []] }
      | .ok _ => .error (.internal "unmodelled: write$ of a non-string (Python fails at the next newline$)")

end

/-! ### commands -/

/-- `id.value()` of a token used as a name in a command argument. -/
def tokName : BTok → Except IErr Str
  | .name n => .ok n
  | .quoted n => .ok n
  | .str s => .ok s
  | _ => .error (.internal "name expected in a command argument")

def declare (mk : Str → VarObj) : List BTok → St → Except IErr St
  | [], s => .ok s
  | t :: ts, s =>
    match tokName t with
    | .error e => .error e
    | .ok n =>
      match addVariable s n (mk n) with
      | .error e => .error e
      | .ok s => declare mk ts s

def overwrite (v : VarObj) : List BTok → St → Except IErr St
  | [], s => .ok s
  | t :: ts, s =>
    match tokName t with
    | .error e => .error e
    | .ok n => overwrite v ts { s with vars := s.vars.setItem n v }

/-- `_iterate` (repaired, proposed fix C03-1: the misspelt `self.currentEntry = None` left the last
entry current for a following `EXECUTE`; now the three `current_entry…` attributes exist only while
the function runs for an entry, so outside `ITERATE` / `REVERSE` no entry is current). -/
def iterate (fuel : Nat) (f : VarObj) : List Str → St → Except IErr St
  | [], s => .ok s
  | k :: ks, s =>
    match s.db with
    | none => .error (.internal "AttributeError: bib_data")
    | some db =>
      if !db.entries.contains k then .error (.internal "KeyError: entry")
      else
        match execObj fuel f { s with cur := some k } with
        | .error e => .error e
        | .ok s => iterate fuel f ks { s with cur := none }

/-- stable insertion sort by code-point order of the keys (= `list.sort(key=…)`). -/
def insertSorted (x : Str × Str) : List (Str × Str) → List (Str × Str)
  | [] => [x]
  | y :: r => if strLt x.1 y.1 then x :: y :: r else y :: insertSorted x r

def sortByKey (l : List (Str × Str)) : List (Str × Str) := l.foldl (fun acc x => insertSorted x acc) []

/-- input of a run: the `.bib` text(s) and the engine parameters -/
structure Input where
  bibTexts : List Str
  citations : List Str
  minCrossrefs : Int := 2
  /-- `bib_format` override: the entries (in file order) and preamble another reader (YAML,
  BibTeXML) delivers; they go through the same `add_entry` (wanted-set filtering, first key wins) -/
  alt : Option (List (Str × Bib.Entry) × List Str) := none

/-- what a style sees of a person field: `str(person)` of every person (`Person.__str__` with the
repair C02-1: a name without first names keeps its empty First part, "Last, Jr," / "World Bank,") -/
def personsToStr (ps : List (Str × List Person)) : CIDict (List Str) :=
  CIDict.ofPairs (ps.map fun r => (r.1, r.2.map BibWrite.personStr))

def convertDb (db : Bib.Db) : BibData :=
  { entries := db.entries.foldl (fun d e =>
      d.setItem e.key { key := e.key, type := e.type, fields := CIDict.ofPairs e.fields, persons := personsToStr e.persons }) CIDict.empty,
    wanted := db.wanted, citations := db.citations }

/-- sequential reading of several texts with one parser state -/
def readAll : List Str → Bib.St → Bib.St × Option Bib.Err
  | [], s => (s, none)
  | t :: ts, s =>
    let r := Bib.parseLoop (t.length + 1) { s with rest := t, ln := 1, unnamed := 1 }
    match r.2 with
    | some e => (r.1, some e)
    | none => readAll ts r.1

def runCommand (fuel : Nat) (inp : Input) (c : Command) (s : St) : Except IErr St :=
  let name := (upper c.name)
  if name = "ENTRY".toList then
    match c.groups with
    | [fields, ints, strings] =>
      match declare (fun n => .field n) fields s with
      | .error e => .error e
      | .ok s =>
        match addVariable s "crossref".toList .crossref with
        | .error e => .error e
        | .ok s =>
          match declare (fun n => .eint n) ints s with
          | .error e => .error e
          | .ok s => declare (fun n => .estr n) strings s
    | _ => .error (.internal "TypeError: command arity")
  else if name = "EXECUTE".toList then
    match c.groups with
    | [t :: _] => execTok fuel t s
    | _ => .error (.internal "EXECUTE argument")
  else if name = "FUNCTION".toList then
    match c.groups with
    | [n :: _, body] =>
      match tokName n with
      | .error e => .error e
      | .ok n => addVariable s n (.func body)
    | _ => .error (.internal "FUNCTION arguments")
  else if name = "INTEGERS".toList then
    match c.groups with
    | [ids] => overwrite (.gint 0) ids s
    | _ => .error (.internal "TypeError: command arity")
  else if name = "STRINGS".toList then
    match c.groups with
    | [ids] => overwrite (.gstr (.str [])) ids s
    | _ => .error (.internal "TypeError: command arity")
  else if name = "MACRO".toList then
    match c.groups with
    | [n :: _, v :: _] =>
      match tokName n, tokName v with
      | .ok n, .ok v => .ok { s with macros := dset s.macros n v }
      | _, _ => .error (.internal "MACRO arguments")
    | _ => .error (.internal "MACRO arguments")
  else if name = "READ".toList then
    let st0 : Bib.St :=
      { rest := [], macros := CIDict.ofPairs s.macros,
        db := { wanted := some (CISet.ofList s.citations), citations := CISet.ofList s.citations }, roles := [] }
    let r : Bib.St × Option Bib.Err :=
      match inp.alt with
      | none => readAll inp.bibTexts st0
      | some (es, pre) =>
        (es.foldl (fun st ke => match Bib.addEntry st ke.1 ke.2 with | .ok _ st => st | .fail _ st => st)
          { st0 with db := { st0.db with preamble := pre } }, none)
    let db := convertDb r.1.db
    let x := BibData.addExtraCitations db s.citations inp.minCrossrefs
    let m := BibData.removeMissing db x.1
    .ok { s with db := some db, preamble := r.1.db.preamble.flatten, citations := m.1,
                 reports := s.reports ++ r.1.errs.map Report.bib ++ x.2.map Report.data ++
                   m.2.map Report.data }
  else if name = "ITERATE".toList ∨ name = "REVERSE".toList then
    match c.groups with
    | [t :: _] =>
      match tokName t with
      | .error e => .error e
      | .ok f =>
        match s.vars.getItem f with
        | none => .error (.internal "KeyError: ITERATE function")
        | some o => iterate fuel o (if name = "ITERATE".toList then s.citations else s.citations.reverse) s
    | _ => .error (.internal "ITERATE argument")
  else if name = "SORT".toList then
    let keys := s.citations.mapM fun c =>
      match dget (frameOf s c) "sort.key$".toList with
      | some v => (valToStr v).map fun k => (k, c)
      | none => some ([], c)          -- repaired: an entry without `sort.key$` sorts on the empty key
    match keys with
    | none => .error (.internal "sort.key$ is not a string")
    | some l => .ok { s with citations := (sortByKey l).map (·.2) }
  else .error (.internal "unknown command")

def runProgram (fuel : Nat) (inp : Input) : Program → St → Except IErr St
  | [], s => .ok s
  | c :: cs, s =>
    match runCommand fuel inp c s with
    | .error e => .error e
    | .ok s => runProgram fuel inp cs s

structure Output where
  bbl : Str
  reports : List Report
  printed : List Str

/-- `Interpreter.run`. -/
def run (fuel : Nat) (prog : Program) (inp : Input) : Except (IErr × List Report) Output :=
  match runProgram fuel inp prog { vars := initVars, citations := inp.citations } with
  | .error e => .error (e, [])
  | .ok s => .ok { bbl := s.lines.flatten, reports := s.reports, printed := s.printed }

end Pybtex.Interp
