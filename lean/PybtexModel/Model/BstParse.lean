/-
Model of `pybtex/bibtex/bst.py`, function by function.

  Python                                         here
  ---------------------------------------------  -----------------------------------------
  `strip_comment(line)`                          `stripComment` (loop = `stripGo in_string`)
  `BstParser.LBRACE/RBRACE/STRING/INTEGER/NAME`  `lbracePat … namePat`
  `BstParser.COMMANDS[name.translate(ASCII_UPPER)]` `cmdArityM` over `Gen.bstCommands` (regenerated)
  `process_int_literal` …                        `processIntLiteral` …, `mkLiteralE` (`int()` digit limit)
  `BstParser.parse_group`                        `parseGroupF` (fuel = remaining length + 1)
  `BstParser.parse_command`                      `parseCommand` / `parseGroups`
  `list(BstParser(text).parse())`                `parseText`
  `parse_string` / `parse_stream` / `parse_file` `parseString` / `parseStream` / `parseFile`

The value computed is the abstract syntax of `Spec/Bst.lean` (`Integer(v)` ↦ `Tok.int v`,
`String(s)` ↦ `.str s`, `QuotedVar(n)` ↦ `.quoted n`, `Identifier(n)` ↦ `.name n`,
`FunctionLiteral(body)` ↦ `.fn body`, a command `[name, group, …]` ↦ `⟨name, groups⟩`).

NOTE (candidate defect #25, `proposed_fixes/C15-1.diff`, repaired in /repo by 5237556):
`parse_command` of the pinned tree used `optional([LBRACE])` and silently stopped when a command
had fewer groups than its arity (unless the text ended there, in which case it raised
`PrematureEOF`).  Such a text is malformed and the property demands a syntax error; the model
follows the repaired code, which `require`s the brace.

NOTE (`proposed_fixes/C15-2.diff`): the pinned tree upper-cased the command name with `str.upper()`
and matched integers with `\d`, both Unicode-aware: `ſORT`, `ıTERATE {f}` were accepted as commands
(the interpreter then prints "Unknown command") and `#٣` was `Integer(3)`.  The model follows the
repaired code: ASCII-only upper-casing (`upper` of `Model/Basic.lean`), `[0-9]` (`isDigit`).

NOTE (`proposed_fixes/C15-3.diff`): `int()` raises `ValueError` for a literal of more than
`sys.get_int_max_str_digits()` digits; the repaired `parse_group` turns it into
`PybtexSyntaxError('integer literal too long')` on the line of the literal (`mkLiteralE`).

`tokEq` / `progEq` model the `==` of the parse results (`Variable.__eq__`, `Function.__eq__`,
`list.__eq__`).
-/
import PybtexModel.Model.Scanner
import PybtexModel.Spec.Bst
import PybtexModel.Gen.BstCommands

namespace Pybtex.Bst
open Pybtex.Scanner

/-! ### `strip_comment` -/

/-- The `while` loop of `strip_comment` with its `in_string` flag: `quote_or_comment.search`
skips every character other than `%` and `"`; a `%` outside a string cuts the line
(`line[:match.start()]`), a `"` toggles the flag. -/
def stripGo : Bool → Str → Str
  | _, [] => []
  | inString, c :: r =>
    if c = '%' ∧ inString = false then []
    else if c = '"' then c :: stripGo (!inString) r
    else c :: stripGo inString r

def stripComment (line : Str) : Str := stripGo false line

/-! ### Token patterns -/

inductive TokKind where
  | name | string | integer | lbrace | rbrace
  deriving DecidableEq, Repr

/-- `[^#\"\{\}\s]` -/
def isNameChar (c : Char) : Bool :=
  !(c = '#' || c = '"' || c = '{' || c = '}' || isWs c)

/-- `NAME = Pattern(r'[^#\"\{\}\s]+', 'name')` -/
def namePat : Pattern := runPat "name".toList isNameChar

/-- `STRING = Pattern('"[^\"]*"', 'string')` -/
def matchString : Str → Option (Str × Str)
  | '"' :: r =>
    match takeRun (fun c => c != '"') r with
    | (body, '"' :: r') => some ('"' :: (body ++ ['"']), r')
    | _ => none
  | _ => none

def stringPat : Pattern := ⟨"string".toList, matchString⟩

/-- `INTEGER = Pattern(r'#-?\d+', 'integer')` (ASCII digits) -/
def matchInteger : Str → Option (Str × Str)
  | '#' :: '-' :: r =>
    match matchRun1 isDigit r with
    | some (d, r') => some ('#' :: '-' :: d, r')
    | none => none
  | '#' :: r =>
    match matchRun1 isDigit r with
    | some (d, r') => some ('#' :: d, r')
    | none => none
  | _ => none

def integerPat : Pattern := ⟨"integer".toList, matchInteger⟩

def lbracePat : Pattern := litPat ['{']
def rbracePat : Pattern := litPat ['}']

/-- the list handed to `required` in `parse_group`, in the order the code tries it -/
def groupPats : List (TokKind × Pattern) :=
  [(.name, namePat), (.string, stringPat), (.integer, integerPat), (.lbrace, lbracePat),
   (.rbrace, rbracePat)]

/-! ### Literal constructors -/

/-- `value.strip('#')` -/
def stripHash (s : Str) : Str :=
  ((s.dropWhile (· = '#')).reverse.dropWhile (· = '#')).reverse

/-- `int(s)` for `s` of the shape `-?\d+` -/
def pyInt : Str → Int
  | '-' :: d => - (Nat.ofDigitChars 10 d 0 : Nat)
  | d => (Nat.ofDigitChars 10 d 0 : Nat)

/-- `process_int_literal` -/
def processIntLiteral (value : Str) : Tok := .int (pyInt (stripHash value))

/-- `process_string_literal`: `String(value[1:-1])` -/
def processStringLiteral (value : Str) : Tok := .str (pySlice value 1 (-1))

/-- `process_identifier` (`name` is never empty: `NAME` matches at least one character, see
`Lemmas/BstParse.lean: matchRun1_ne_nil`) -/
def processIdentifier : Str → Tok
  | '\'' :: r => .quoted r
  | n => .name n

/-- `LITERAL_TYPES[token.pattern](token.value)` -/
def mkLiteral : TokKind → Str → Tok
  | .string, v => processStringLiteral v
  | .integer, v => processIntLiteral v
  | _, v => processIdentifier v

/-- `int(value.strip('#'))` raises `ValueError`: the literal has more decimal digits than the
interpreter converts (`Gen.intMaxStrDigits`, regenerated; 0 = no limit).  The sign does not count,
leading zeros do. -/
def intTooLong (value : Str) : Bool :=
  Gen.intMaxStrDigits != 0 && decide (Gen.intMaxStrDigits < (value.filter isDigit).length)

/-- the `try: yield LITERAL_TYPES[...](token.value) except ValueError: raise PybtexSyntaxError(...)`
of the repaired `parse_group`; `line` = `self.lineno` when the token has been read -/
def mkLiteralE (k : TokKind) (v : Str) (line : Nat) : Except Err Tok :=
  if k = .integer ∧ intTooLong v = true then
    .error (.syntaxError "integer literal too long".toList line)
  else .ok (mkLiteral k v)

/-! ### The parser proper -/

/-- `list(self.parse_group())`: tokens up to the matching `}`.  Every turn of the loop consumes
at least one character, so `fuel > |remaining text|` never runs out
(`Lemmas/BstParse.lean: parseGroupF_fuel`). -/
def parseGroupF : Nat → St → Except Err (List Tok × St)
  | 0, _ => .error .outOfFuel
  | fuel + 1, st =>
    match required groupPats none false st with
    | .error e => .error e
    | .ok ((.lbrace, _), st1) =>
      match parseGroupF fuel st1 with
      | .error e => .error e
      | .ok (body, st2) =>
        match parseGroupF fuel st2 with
        | .error e => .error e
        | .ok (ts, st3) => .ok (.fn body :: ts, st3)
    | .ok ((.rbrace, _), st1) => .ok ([], st1)
    | .ok ((k, v), st1) =>
      match mkLiteralE k v st1.line with
      | .error e => .error e
      | .ok t =>
        match parseGroupF fuel st1 with
        | .error e => .error e
        | .ok (ts, st2) => .ok (t :: ts, st2)

def parseGroup (st : St) : Except Err (List Tok × St) := parseGroupF (st.rest.length + 1) st

/-- the `for i in range(arity)` loop of `parse_command` (repaired: the brace is required) -/
def parseGroups : Nat → St → Except Err (List (List Tok) × St)
  | 0, st => .ok ([], st)
  | k + 1, st =>
    match required [(TokKind.lbrace, lbracePat)] none false st with
    | .error e => .error e
    | .ok (_, st1) =>
      match parseGroup st1 with
      | .error e => .error e
      | .ok (g, st2) =>
        match parseGroups k st2 with
        | .error e => .error e
        | .ok (gs, st3) => .ok (g :: gs, st3)

/-- `self.COMMANDS[command_name.translate(ASCII_UPPER)]` over the table regenerated from /repo
(`none` = `KeyError`); `upper` maps the 26 ASCII letters only -/
def cmdArityM (name : Str) : Option Nat := Gen.bstCommands.lookup (upper name)

/-- `list(self.parse_command())` -/
def parseCommand (st : St) : Except Err (Command × St) :=
  match required [(TokKind.name, namePat)] (some "BST command".toList) true st with
  | .error e => .error e
  | .ok ((_, commandName), st1) =>
    match cmdArityM commandName with
    | none => .error (.tokenRequired "BST command".toList st1.line)
    | some arity =>
      match parseGroups arity st1 with
      | .error e => .error e
      | .ok (gs, st2) => .ok (⟨commandName, gs⟩, st2)

/-- `list(self.parse())`: commands until `EOFError`; a syntax error propagates. -/
def parseF : Nat → St → Except Err Program
  | 0, _ => .error .outOfFuel
  | fuel + 1, st =>
    match parseCommand st with
    | .error .eof => .ok []
    | .error e => .error e
    | .ok (c, st1) =>
      match parseF fuel st1 with
      | .error e => .error e
      | .ok p => .ok (c :: p)

/-- `list(BstParser(text).parse())` -/
def parseText (text : Str) : Except Err Program := parseF (text.length + 1) (St.init text)

/-! ### Entry points -/

/-- the text `parse_string` hands to the parser -/
def stringText (src : Str) : Str := joinWith ['\n'] ((splitLines src).map stripComment)

/-- the text `parse_stream` hands to the parser, given the lines the stream yields -/
def streamText (lines : List Str) : Str :=
  joinWith ['\n'] (lines.map fun l => stripComment (rstrip l))

def parseString (src : Str) : Except Err Program := parseText (stringText src)

/-- `parse_stream(io.StringIO(src))` -/
def parseStream (src : Str) : Except Err Program := parseText (streamText (streamLines src))

/-- `parse_file` on a file whose decoded content is `src` (universal newlines) -/
def parseFile (src : Str) : Except Err Program := parseStream (universalNewlines src)

/-! ### `==` on parse results -/

mutual
  /-- `Variable.__eq__` (`type(self) == type(other) and self._value == other._value`) and
  `Function.__eq__` (`type(self) == type(other) and self.body == other.body`) -/
  def tokEq : Tok → Tok → Bool
    | .int a, .int b => a == b
    | .str a, .str b => a == b
    | .quoted a, .quoted b => a == b
    | .name a, .name b => a == b
    | .fn a, .fn b => toksEq a b
    | _, _ => false
  /-- `list.__eq__` on token lists -/
  def toksEq : List Tok → List Tok → Bool
    | [], [] => true
    | a :: as, b :: bs => tokEq a b && toksEq as bs
    | _, _ => false
end

def groupsEq : List (List Tok) → List (List Tok) → Bool
  | [], [] => true
  | a :: as, b :: bs => toksEq a b && groupsEq as bs
  | _, _ => false

/-- `[name, group, …] == [name', group', …]` -/
def cmdEq (c d : Command) : Bool := c.name == d.name && groupsEq c.groups d.groups

/-- `list(parse_string(a)) == list(parse_string(b))` on the parsed programs -/
def progEq : Program → Program → Bool
  | [], [] => true
  | c :: p, d :: q => cmdEq c d && progEq p q
  | _, _ => false

end Pybtex.Bst
