/-
Extension of `Model/Backends.lean` (property C09): code reachable from the entry points of the property that the first
model kept as a parameter, a restricted domain or an option that was never varied.

  Python                                                    here
  --------------------------------------------------------  ------------------------------------------------------
  `latex.Backend(encoding)` / `write_to_file` for further   `Latex.encodableInX` (the three spellings groups of
  input encodings (`c.encode(self.inputenc)` of latexcodec)  `Latex.encodableIn` + the regenerated `Gen.extraEncodings`:
                                                             spellings and the code points the codec accepts)
  `LaTeXParser(text).parse(level)` for any `level`          `LaTeXParser.parseLevel` (the `Text` and the scanner afterwards)
  `Text.render_as(backend_name)`:                           `findBackend` (`find_plugin('pybtex.backends', name)` over the
  `find_plugin('pybtex.backends', name)` + `cls()`           regenerated entry-point table `Gen.installedPlugins` and
                                                             `Gen.defaultPlugins`; no runtime plug-ins), `BackendId`
  one formatting method of one backend called on its own    `Method` / `callMethod` (function-level dispatcher used by the
  (`format_str`, `format_tag`, `format_href`,                driver op `fmt`; every branch IS the definition of
  `format_protected`, `render_sequence`, `write_entry`,      `Model/Backends.lean` that the end-to-end ops use)
  `write_prologue`, `write_epilogue`, `symbols[name]`)
  `BaseLabelStyle.get_longest_label`, `textutils.width`     `longestLabel`, `width` of `Model/Backends.lean` (op `fmt`)

Not modelled here either: the decoder of latexcodec (a parameter of `fromLatex`), runtime plug-ins
(`register_plugin`), encodings outside `Latex.encodableInX`.
-/
import PybtexModel.Model.Backends
import PybtexModel.Gen.BackendsEnc
import PybtexModel.Gen.Plugins

namespace Pybtex
namespace Backends

namespace Latex

/-- membership in a list of inclusive code-point ranges -/
def inRanges (rs : List (Nat × Nat)) (c : Char) : Bool :=
  rs.any fun r => decide (r.1 ≤ c.toNat) && decide (c.toNat ≤ r.2)

/-- the characters one of the regenerated further encodings can represent, by any of its spellings -/
def extraEncodable (encoding : Str) : Option (Char → Bool) :=
  match Gen.extraEncodings.find? (fun e => e.1.contains encoding) with
  | some e => some (inRanges e.2)
  | none => none

/-- `c.encode(encoding)` succeeds: the three encodings of `encodableIn`, then the regenerated table; `none` = not modelled -/
def encodableInX (encoding : Str) : Option (Char → Bool) :=
  match encodableIn encoding with
  | some E => some E
  | none => extraEncodable encoding

end Latex

/-! ### `Text.render_as(backend_name)` -/

/-- the four backend classes of pybtex -/
inductive BackendId where
  | html | markdown | latex | plaintext
deriving DecidableEq, Repr

/-- the class an entry-point value `module:attr` names -/
def backendOfValue (v : Str) : Option BackendId :=
  if v = "pybtex.backends.html:Backend".toList then some .html
  else if v = "pybtex.backends.markdown:Backend".toList then some .markdown
  else if v = "pybtex.backends.latex:Backend".toList then some .latex
  else if v = "pybtex.backends.plaintext:Backend".toList then some .plaintext
  else none

/-- `entry_points(group=group, name=name)`: the first installed entry point -/
def entryPoint (group name : Str) : Option Str :=
  match Gen.installedPlugins.find? (fun e => e.1 == group && e.2.1 == name) with
  | some e => some e.2.2
  | none => none

/-- `_load_entry_point(group, name, use_aliases=True)` without runtime plug-ins: the group, then `group + '.aliases'`;
`none` = `PluginNotFound` -/
def loadEntryPoint (group name : Str) : Option Str :=
  match entryPoint group name with
  | some v => some v
  | none => entryPoint (group ++ ".aliases".toList) name

/-- `find_plugin('pybtex.backends', name)` for a string `name`: an empty name is false in `if name:` (and no file name is
given), so the default plug-in of the group is loaded; `none` = `PluginNotFound` (or a class that is no backend of pybtex) -/
def findBackend (name : Str) : Option BackendId :=
  let group := "pybtex.backends".toList
  let value :=
    if name.isEmpty then
      match Gen.defaultPlugins.lookup group with
      | some d => entryPoint group d
      | none => none
    else loadEntryPoint group name
  value.bind backendOfValue

/-- `backend_cls()`: the backend object with every argument at its default -/
def backendOfId (encode : Str → Str) : BackendId → RT.Backend Str
  | .html => html
  | .markdown => markdown
  | .latex => latex encode
  | .plaintext => plaintext

/-- `text.render_as(backend_name)`: outer `none` = `PluginNotFound`, inner `none` = `KeyError` (unknown symbol) -/
def renderAs (encode : Str → Str) (name : Str) (t : RT) : Option (Option Str) :=
  (findBackend name).map fun b => RT.render (backendOfId encode b) t

/-! ### one method of one backend on its own (function level) -/

/-- a call of one formatting method with already rendered arguments -/
inductive Method where
  | formatStr (s : Str)
  | formatTag (name text : Str)
  | formatHref (url text : Str) (external : Bool)
  | formatProtected (text : Str)
  | renderSequence (l : List Str)
  | symbol (name : Str)
  | writeEntry (key label text : Str)
  | writePrologue (labels : List Str) (preamble : Str)
  | writeEpilogue
deriving Repr

/-- what the method returns / writes; `none` = `KeyError` of `symbols[name]`.  `o` carries the constructor arguments of the
backend (`encoding` of HTML, `php_extra` of Markdown, the encoder of LaTeX). -/
def callMethod (o : Output) : Method → Option Str
  | .formatStr s => some (o.backend.formatStr s)
  | .formatTag n t => some (o.backend.formatTag n t)
  | .formatHref u t e => some (o.backend.formatHref u t e)
  | .formatProtected t => some (o.backend.formatProtected t)
  | .renderSequence l => some (o.backend.renderSequence l)
  | .symbol n => o.backend.symbols n
  | .writeEntry k l t => some (o.writeEntry k l t)
  | .writePrologue labels pre => some (o.writePrologue ⟨labels.map fun l => ⟨[], .str [], l⟩, pre⟩)
  | .writeEpilogue => some o.writeEpilogue

end Backends

namespace LaTeXParser

/-- `p = LaTeXParser(text); p.parse(level)`: the `Text` built from `iter_string_parts(level)` and the scanner afterwards
(`p.pos`, `p.lineno`).  With `level > 0` the parse ends behind the first closing brace that closes nothing. -/
def parseLevel (text : Str) (level : Nat) : Except Err (RT × State) :=
  match iterStringParts level (State.init text) with
  | .error e => .error e
  | .ok (parts, st) => .ok (RT.mk .text parts, st)

end LaTeXParser
end Pybtex
