/-
Model of the database part of `pybtex/database/__init__.py` that C05 and C14 talk about:
`Entry` (key, type, ordered case-insensitive fields, persons per role), `BibliographyData`
(`entries : OrderedCaseInsensitiveDict`, `wanted_entries : CaseInsensitiveSet | None`,
`citations : CaseInsensitiveSet`) with `want_entry`, `get_canonical_key`, `add_entry`, and the
`.bib` reader's parse-time filtering (`LowLevelParser.want_current_entry` / `SkipEntry`,
`Parser.process_entry`).  The containers are the ones of C13 (`Model/CIMap.lean`), used through
the same methods the Python code calls.

Persons are kept as the already formatted strings `str(person)`; name splitting is C04's subject.
Problems go where the code sends them: `report_error` calls are collected in order (capture
mode), a Python `KeyError` that nothing catches is the outcome `none`.
-/
import PybtexModel.Model.CIMap

namespace Pybtex

/-- `'crossref'` -/
def xrefName : Str := ['c', 'r', 'o', 's', 's', 'r', 'e', 'f']
/-- `'*'` -/
def star : Str := ['*']

structure Entry where
  /-- `entry.key` (set by `add_entry`) -/
  key : Str
  type : Str
  /-- `entry.fields : OrderedCaseInsensitiveDict` -/
  fields : CIDict Str
  /-- `entry.persons : OrderedCaseInsensitiveDict` role ↦ `[str(person), …]` -/
  persons : CIDict (List Str)
deriving Repr

/-- What `report_error` / `print_warning` receive (the message parameters, not the wording). -/
inductive Report where
  /-- `BibliographyDataError('repeated bibliography entry: %s' % key)` -/
  | repeated (key : Str)
  /-- `'bad cross-reference: entry "{key}" refers to entry "{crossref}" which does not exist.'` -/
  | badCrossref (key crossref : Str)
  /-- `'missing database entry for "{0}"'` -/
  | missingEntry (key : Str)
deriving DecidableEq, Repr

structure BibData where
  entries : CIDict Entry
  /-- `wanted_entries`: `none` = read everything -/
  wanted : Option CISet
  citations : CISet
deriving Repr

namespace BibData

/-- `BibliographyData.__init__(wanted_entries=…)` (no initial entries). -/
def init (wanted : Option (List Str)) : BibData :=
  match wanted with
  | some w => ⟨CIDict.empty, some (CISet.ofList w), CISet.ofList w⟩
  | none => ⟨CIDict.empty, none, CISet.empty⟩

/-- `want_entry`. -/
def wantEntry (d : BibData) (key : Str) : Bool :=
  match d.wanted with
  | none => true
  | some w => w.contains key || w.contains star

/-- `get_canonical_key`; `none` = `KeyError` out of `CaseInsensitiveSet.get_canonical_key`. -/
def getCanonicalKey (d : BibData) (key : Str) : Option Str :=
  if d.citations.contains key then d.citations.canonical key else some key

/-- `add_entry(key, entry)`: not wanted → nothing; key already present (up to case) → reported,
first entry kept; otherwise stored under the canonical key and, when filtering, the target of
its `crossref` field becomes wanted.  `none` = uncaught `KeyError`. -/
def addEntry (d : BibData) (key : Str) (e : Entry) : Option (BibData × List Report) :=
  if !d.wantEntry key then some (d, [])
  else if d.entries.contains key then some (d, [.repeated key])
  else
    match d.getCanonicalKey key with
    | none => none
    | some ck =>
      let e' : Entry := { e with key := ck }
      let d1 : BibData := { d with entries := d.entries.setItem ck e' }
      match e'.fields.getItem xrefName with
      | none => some (d1, [])
      | some x =>
        match d1.wanted with
        | none => some (d1, [])
        | some w => some ({ d1 with wanted := some (w.add x) }, [])

/-- One `@type{key, …}` of the file: `parse_entry_body` raises `SkipEntry` unless
`want_current_entry()`; otherwise `process_entry` ends in `add_entry`. -/
def parseEntry (d : BibData) (key : Str) (e : Entry) : Option (BibData × List Report) :=
  if !d.wantEntry key then some (d, []) else d.addEntry key e

/-- The entries of a file, in file order. -/
def readEntries (d : BibData) : List (Str × Entry) → Option (BibData × List Report)
  | [] => some (d, [])
  | (k, e) :: r =>
    match d.parseEntry k e with
    | none => none
    | some (d1, rep1) =>
      match readEntries d1 r with
      | none => none
      | some (d2, rep2) => some (d2, rep1 ++ rep2)

/-- `parse_string(text, 'bibtex', wanted_entries=wanted)` on a file whose entries are `file`. -/
def readFile (wanted : Option (List Str)) (file : List (Str × Entry)) : Option (BibData × List Report) :=
  readEntries (init wanted) file

end BibData

end Pybtex
