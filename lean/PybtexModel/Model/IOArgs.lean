/-
C17 (extension) — the ARGUMENTS of the entry points that `Model/IO.lean` leaves out (core Lean only).

  §6  `pybtex/database/__init__.py`   `parse_file(file, bib_format)` / `BibliographyData.to_file(file, bib_format)`:
                                      which file name the format is guessed from — `file` itself when it is a `str`,
                                      otherwise `getattr(file, 'name', None)` when THAT is a `str` (fix C17-x1: the
                                      `name` of `open(fd)` / `tempfile.TemporaryFile()` is an `int`, that of
                                      `open(b'…')` a `bytes` object; neither is a file name to take a suffix from)
  §7  `pybtex/io.py`                  `_open_existing`, `_open_or_create`, `_open`, `open_raw`, `open_unicode` in a
                                      world whose `io.open` / `Popen` may raise ANYTHING: an `EnvironmentError` (the
                                      only class `pybtex.io` converts) or something else (`LookupError: unknown
                                      encoding`, `ValueError: embedded null byte`, …), which no `except` clause of
                                      `pybtex.io` catches
  §8  `pybtex/database/input/__init__.py`  the `isinstance` guards at the head of `BaseParser.parse_string` /
                                      `parse_bytes` (a `bytes` object handed to `parse_string`, a `str` to `parse_bytes`)
-/
import PybtexModel.Model.IO

namespace Pybtex.IO

/-! ## §6  the `file` argument of the module-level functions -/

/-- `getattr(file, 'name', None)` of a file-like object. -/
inductive NameAttr
  | absent                -- no such attribute (`io.BytesIO`, `io.StringIO`), or `None`
  | str (s : Str)         -- `open('x.bib')`, `sys.stdin` (`'<stdin>'`)
  | bytes (b : Bytes)     -- `open(b'x.bib')`
  | int (n : Int)         -- `open(fd)`, `tempfile.TemporaryFile()`: the descriptor number
deriving DecidableEq, Repr

/-- What `pybtex.database.parse_file` / `BibliographyData.to_file` is handed as `file`. -/
inductive ModFileArg
  | strPath (p : Str)             -- `isinstance(file, str)`
  | bytesPath (b : Bytes)         -- a `bytes` path: not a `str`, and `bytes` objects have no `name`
  | fileLike (name : NameAttr)    -- anything else, seen through its `name` attribute
deriving DecidableEq, Repr

/-- The `filename` handed to `find_plugin`:
`filename = file if isinstance(file, str) else getattr(file, 'name', None)`; `if not isinstance(filename, str): filename = None`. -/
def moduleFileName : ModFileArg → Option Str
  | .strPath p => some p
  | .bytesPath _ => none
  | .fileLike (.str s) => some s
  | .fileLike _ => none             -- fix C17-x1

/-- `pybtex.database.parse_file(file, bib_format)`: the class instantiated. -/
def moduleReaderFor (tbl : Installed) (defaults : List (Str × Str)) (R : Registry)
    (bibFormat : NameArg) (file : ModFileArg) : Except PlugErr Cls :=
  readerFor tbl defaults R bibFormat (moduleFileName file)

/-- `BibliographyData.to_file(file, bib_format)`: the class instantiated. -/
def moduleWriterFor (tbl : Installed) (defaults : List (Str × Str)) (R : Registry)
    (bibFormat : NameArg) (file : ModFileArg) : Except PlugErr Cls :=
  writerFor tbl defaults R bibFormat (moduleFileName file)

/-! ## §7  pybtex/io.py when `io.open` / `Popen` may raise anything -/

/-- What a call into the outside world raised: an `EnvironmentError`, or an exception of any other class
(identified by `X`; `pybtex.io` has no handler for it). -/
inductive Exc (X : Type)
  | env (e : IOErr)
  | other (x : X)
deriving DecidableEq, Repr

/-- The outside world of `pybtex.io` / `pybtex.kpathsea` without the restriction of `Env` that every
failure is an `EnvironmentError`.  (`posixpath.isfile` itself never raises for a `str`: it catches
`OSError` and `ValueError`.) -/
structure EnvX (H X : Type) where
  opener : PathArg → Str → Option Str → Except (Exc X) H
  isFile : Path → Bool
  runKpsewhich : Path → Except (Exc X) (Int × Bytes)
  environ : List (Str × Str)

/-- What leaves `_open`: the `PybtexError` it builds, or the foreign exception, untouched. -/
inductive OpenExc (X : Type)
  | pybtex (e : OpenErr)
  | other (x : X)
deriving DecidableEq, Repr

variable {H S X : Type}

/-- `pybtex.kpathsea.kpsewhich(filename)`. -/
def kpsewhichX (env : EnvX H X) (filename : Path) : Except (Exc X) (Option Bytes) :=
  match env.runKpsewhich filename with
  | .error e => .error e
  | .ok (returncode, out) =>
    let path := rstripBytes out
    if returncode = 0 then .ok (some path) else .ok none

/-- `_open_existing(opener, filename, mode, locate, **kwargs)` with `locate=kpsewhich`. -/
def openExistingX (env : EnvX H X) (filename : Path) (mode : Str) (kw : Option Str) :
    List Event × Except (Exc X) H :=
  if env.isFile filename then
    ([.tryOpen (.str filename) mode kw], env.opener (.str filename) mode kw)
  else
    match kpsewhichX env filename with
    | .error e => ([.locate filename], .error e)
    | .ok found =>
      let target : PathArg := match found with
        | some q => if q.isEmpty then .str filename else .bytes q
        | none => .str filename
      ([.locate filename, .tryOpen target mode kw], env.opener target mode kw)

/-- `_open_or_create(opener, filename, mode, environ, **kwargs)`: only an `EnvironmentError` of the first
attempt starts the fall-back, only an `EnvironmentError` of the second attempt is swallowed (`pass`, then
`raise error`); anything else leaves the function at the point where it was raised. -/
def openOrCreateX (env : EnvX H X) (filename : Path) (mode : Str) (kw : Option Str) :
    List Event × Except (Exc X) H :=
  match env.opener (.str filename) mode kw with
  | .ok h => ([.tryOpen (.str filename) mode kw], .ok h)
  | .error (.other x) => ([.tryOpen (.str filename) mode kw], .error (.other x))
  | .error (.env error) =>
    match dget env.environ "TEXMFOUTPUT".toList with
    | some dir =>
      let newFilename := posixJoin dir filename
      match env.opener (.str newFilename) mode kw with
      | .ok h => ([.tryOpen (.str filename) mode kw, .tryOpen (.str newFilename) mode kw], .ok h)
      | .error (.env _) =>
        ([.tryOpen (.str filename) mode kw, .tryOpen (.str newFilename) mode kw], .error (.env error))
      | .error (.other x) =>                      -- raised inside the `except` block, not caught by it
        ([.tryOpen (.str filename) mode kw, .tryOpen (.str newFilename) mode kw], .error (.other x))
    | none => ([.tryOpen (.str filename) mode kw], .error (.env error))

/-- `_open(opener, filename_or_file, mode, **kwargs)`. -/
def pyOpenX (env : EnvX H X) (file : FileArg S) (mode : Str) (kw : Option Str) :
    List Event × Except (OpenExc X) (Opened H S) :=
  match file with
  | .stream s => ([], .ok (.passthrough s))
  | .path filename =>
    let writeMode := mode.contains 'w'
    let r := if writeMode then openOrCreateX env filename mode kw else openExistingX env filename mode kw
    match r.2 with
    | .ok h => (r.1, .ok (.handle h))
    | .error (.env error) => (r.1, .error (.pybtex ⟨filename, error.strerror⟩))   -- except EnvironmentError
    | .error (.other x) => (r.1, .error (.other x))

/-- `open_raw(filename, mode, encoding=None)`. -/
def openRawX (env : EnvX H X) (file : FileArg S) (mode : Str) (_encoding : Option Str) :=
  pyOpenX env file mode none

/-- `open_unicode(filename, mode, encoding=None)`. -/
def openUnicodeX (env : EnvX H X) (file : FileArg S) (mode : Str) (encoding : Option Str) :=
  pyOpenX env file mode (some (match encoding with | none => defaultEncoding | some e => e))

/-- An `Env` seen as an `EnvX`: every failure is an `EnvironmentError`. -/
def Env.toX (env : Env H) : EnvX H X where
  opener := fun p m k => match env.opener p m k with | .ok h => .ok h | .error e => .error (.env e)
  isFile := env.isFile
  runKpsewhich := fun p => match env.runKpsewhich p with | .ok r => .ok r | .error e => .error (.env e)
  environ := env.environ

/-- The result of the restricted model inside the general one. -/
def liftOpened (r : Except OpenErr (Opened H S)) : Except (OpenExc X) (Opened H S) :=
  match r with
  | .ok o => .ok o
  | .error e => .error (.pybtex e)

/-! ## §8  the `isinstance` guards of `BaseParser.parse_string` / `parse_bytes` -/

/-- A value handed to `parse_string` / `parse_bytes`. -/
inductive PyVal
  | str (s : Str)
  | bytes (b : Bytes)
deriving DecidableEq, Repr

/-- `'unicode string expected. Use {0}.parse_bytes() to parse bytes'.format(type(self).__name__)` -/
def msgStringExpected (clsName : Str) : Str :=
  "unicode string expected. Use ".toList ++ clsName ++ ".parse_bytes() to parse bytes".toList

/-- `'bytes expected. Use {0}.parse_bytes() to parse unicode strings'.format(type(self).__name__)` (sic) -/
def msgBytesExpected (clsName : Str) : Str :=
  "bytes expected. Use ".toList ++ clsName ++ ".parse_bytes() to parse unicode strings".toList

/-- What the guarded entry points may raise in addition to `RErr`. -/
inductive GErr (E : Type)
  | valueError (msg : Str)      -- the `isinstance` guard
  | reader (e : RErr E)
deriving DecidableEq, Repr

variable {Db E : Type}

def liftR (r : Except (RErr E) Db) : Except (GErr E) Db :=
  match r with
  | .ok d => .ok d
  | .error e => .error (.reader e)

/-- `BaseParser.parse_string(value)` for a class that does not override it (`.base u`): the guard, then
`parseString`.  (The BibTeX / BibTeXML classes override `parse_string` and have no guard.) -/
def parseStringAny (u : Bool) (clsName : Str) (core : ReaderCore Db E) (c : Codec) (data : Db) :
    PyVal → Except (GErr E) Db
  | .bytes _ => .error (.valueError (msgStringExpected clsName))
  | .str s => liftR (parseString (.base u) core c data s)

/-- `BaseParser.parse_bytes(value)` (no installed class overrides it): the guard, then `parseBytes`. -/
def parseBytesAny (k : ReaderKind) (clsName : Str) (core : ReaderCore Db E) (c : Codec) (data : Db) :
    PyVal → Except (GErr E) Db
  | .str _ => .error (.valueError (msgBytesExpected clsName))
  | .bytes b => liftR (parseBytes k core c data b)

end Pybtex.IO
