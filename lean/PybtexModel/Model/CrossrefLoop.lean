/-
Model of the cross-reference lookup AS THE CODE IS WRITTEN NOW (after the repairs 3d93fa2 and
ecd0f56 of pybtex/database/__init__.py): a step function and a loop, function by function.

* `findCrossrefEntry`  = `Entry._find_crossref_entry(name, bib_data, visited)`: the entry to continue
  with and the enlarged visited set, or `KeyError(name)`.
* `findFieldLoop`      = `Entry._find_field(name, bib_data, visited)`: `while True:` own field, own
  role, else one `_find_crossref_entry` step.
* `findCrossrefField`  = `Entry._find_crossref_field(name, bib_data, visited)`: one step, then the
  referenced entry's `_find_field` with the enlarged set.

`Model/Crossref.lean` (`findField`, recursive, what the C14 theorems are stated about) is the
model of the same lookup in its earlier recursive form; `Lemmas/CrossrefLoop.lean` proves the two
equal for every database, visited set, entry and name (`C14_loop_is_recursion`).

`visited` is a Python `frozenset` of lower-cased targets; the model keeps a list and only ever asks
membership of it (`visited | {k}` = `k :: visited`).
-/
import PybtexModel.Model.Crossref
import PybtexModel.Gen.C14Consts

namespace Pybtex

/-- `_find_crossref_entry(name, bib_data, visited)`; `none` = `KeyError(name)` (three raise points:
no database or no `crossref` field; target already followed; `bib_data.entries[crossref]`). -/
def findCrossrefEntry (bibData : Option BibData) (visited : List Str) (e : Entry) : Option (Entry × List Str) :=
  match bibData with
  | none => none                                            -- `bib_data is None`
  | some db =>
    if !e.fields.contains xrefName then none                -- `'crossref' not in self.fields`
    else
      match e.fields.getItem xrefName with                  -- `crossref = self.fields['crossref']`
      | none => none
      | some x =>
        if visited.contains (lower x) then none             -- `crossref.lower() in visited`: circular
        else
          match db.entries.getItem x with                   -- `bib_data.entries[crossref]`
          | none => none                                    -- dangling: `KeyError`
          | some p => some (p, lower x :: visited)          -- `visited | {crossref.lower()}`

/-- what a successful step says about its inputs -/
theorem findCrossrefEntry_some {bibData : Option BibData} {visited : List Str} {e p : Entry} {v' : List Str}
    (h : findCrossrefEntry bibData visited e = some (p, v')) :
    ∃ db x, bibData = some db ∧ e.fields.getItem xrefName = some x ∧ visited.contains (lower x) = false ∧
      db.entries.getItem x = some p ∧ v' = lower x :: visited := by
  unfold findCrossrefEntry at h
  cases bibData with
  | none => simp at h
  | some db =>
    dsimp only at h
    split at h
    · simp at h
    · cases hx : e.fields.getItem xrefName with
      | none => simp [hx] at h
      | some x =>
        simp only [hx] at h
        split at h
        · simp at h
        · cases hp : db.entries.getItem x with
          | none => simp [hp] at h
          | some q =>
            simp only [hp, Option.some.injEq, Prod.mk.injEq] at h
            refine ⟨db, x, rfl, rfl, by simp_all, ?_, h.2.symm⟩
            rw [← h.1]; exact hp

set_option linter.unusedVariables false in
/-- `_find_field(name, bib_data, visited)`: the `while True:` loop.  Every turn either returns or
takes one `_find_crossref_entry` step, and a step follows a database key not followed before. -/
def findFieldLoop (bibData : Option BibData) (visited : List Str) (e : Entry) (name : Str) : Option Str :=
  match e.fields.getItem name with                          -- `return entry.fields[name]`
  | some v => some v
  | none =>
    match findPersonField e name with                       -- `return entry._find_person_field(name)`
    | some v => some v
    | none =>
      match h : findCrossrefEntry bibData visited e with    -- `entry, visited = entry._find_crossref_entry(…)`
      | none => none                                        -- `KeyError(name)` leaves the loop
      | some (p, visited') => findFieldLoop bibData visited' p name
termination_by
  match bibData with
  | none => 0
  | some db => unvisited db.entries.dict visited
decreasing_by
  obtain ⟨db, x, rfl, -, hv, hp, rfl⟩ := findCrossrefEntry_some h
  exact unvisited_lt _ _ _ p hp hv

/-- `_find_crossref_field(name, bib_data, visited)` -/
def findCrossrefField (bibData : Option BibData) (visited : List Str) (e : Entry) (name : Str) : Option Str :=
  match findCrossrefEntry bibData visited e with
  | none => none
  | some (p, visited') => findFieldLoop bibData visited' p name

/-- `FieldIsMissing(field_name, entry).args[0]`: `'missing {0} in {1}'.format(field_name, entry.key)`
(the two pieces of the format string are regenerated from the source: `Gen/C14Consts.lean`). -/
def fieldIsMissingMessage (name key : Str) : Str :=
  Gen.C14.fieldIsMissingPre ++ name ++ Gen.C14.fieldIsMissingMid ++ key

/-- template node `field(name, raw=True)`: `entry._find_field(name, bib_data=context.get('bib_data'))`
(`ctx = none`: the context has no `bib_data` or it is `None` — `format_entry(label, entry)` /
`format_entries(entries)` called without a database); a `KeyError` becomes
`FieldIsMissing(name, entry)`, here its message. -/
def templateFieldMsg (ctx : Option BibData) (e : Entry) (name : Str) : Except Str Str :=
  match findFieldLoop ctx [] e name with
  | some v => .ok v
  | none => .error (fieldIsMissingMessage name e.key)

end Pybtex
