/-
Model of the error channel of pybtex (property C16).

* `pybtex/errors.py` as a state machine: the three module globals `strict`, `error_code`,
  `captured_errors`; `set_strict_mode`, `capture()` (enter / leave, normally or by an exception:
  the `finally` makes both the same), `report_error`, `format_error`, `print_error`.
  `capture()` is modelled AFTER the fix of DESIGN.md section 4 #31 (proposed_fixes/C16-1.diff):
  leaving a context puts back the value `captured_errors` had when the context was entered
  (kept in the frame of the context manager, here the `saved` stack of a `Config`).
* The rendering (`__str__`, `get_context`, `get_filename`) of every `PybtexError` subclass defined
  in the package, as functions from the fields of the exception object to text:
  `pybtex/exceptions.py`, `pybtex/scanner.py` (incl. `Scanner.get_error_context`),
  `pybtex/database/input/bibtex.py` (incl. `LowLevelParser.get_error_context`),
  `pybtex/database/__init__.py`, `pybtex/bibtex/exceptions.py`, `pybtex/bibtex/names.py`,
  `pybtex/plugin/__init__.py` (after proposed_fixes/C16-2.diff: no `assert` in the constructor),
  `pybtex/style/template.py`, `pybtex/database/convert/__init__.py`, `pybtex/auxfile.py`
  (after proposed_fixes/C20-1.diff + C20-2.diff: location snapshot taken in `__init__`).
* `CommandLine.__call__` / `main` of `pybtex/cmdline.py`: non-strict run, `print_error` of a fatal
  error, exit status.

Where Python would raise a non-pybtex exception (`IndexError` in the two `get_error_context`
functions on an impossible parser state) the model returns `RenderFail`; it never invents a value.
-/
import PybtexModel.Model.Basic
import PybtexModel.Gen.C16Tables

namespace Pybtex.Errors

/-! ## Python string primitives used by the rendering code -/

/-- Code points at which `str.splitlines` breaks a line (`\r\n` counts once). -/
def lineBreakCodes : List Nat := [10, 11, 12, 13, 28, 29, 30, 133, 8232, 8233]

def isLineBreak (c : Char) : Bool := lineBreakCodes.contains c.toNat

/-- `str.splitlines(keepends)`. -/
def splitLines (keep : Bool) : Str → List Str
  | [] => []
  | [c] => if isLineBreak c then [if keep then [c] else []] else [[c]]
  | c :: d :: r =>
    if c.toNat = 13 ∧ d.toNat = 10 then (if keep then [c, d] else []) :: splitLines keep r
    else if isLineBreak c then (if keep then [c] else []) :: splitLines keep (d :: r)
    else match splitLines keep (d :: r) with
      | [] => [[c]]
      | l :: ls => (c :: l) :: ls

def isCRLF (c : Char) : Bool := c.toNat = 13 || c.toNat = 10

/-- `s.rstrip('\r\n')`. -/
def rstripCRLF (s : Str) : Str := (s.reverse.dropWhile isCRLF).reverse

/-- `s.endswith('\n')`. -/
def endsWithNL (s : Str) : Bool :=
  match s.getLast? with
  | some c => c.toNat = 10
  | none => false

/-- `Scanner.NEWLINE.search(text, pos).end()` for `NEWLINE = \n|(\r\n)|\r`: `rest` is `text[i:]`. -/
def findNewlineEnd : Str → Nat → Option Nat
  | [], _ => none
  | c :: r, i =>
    if c.toNat = 10 then some (i + 1)
    else if c.toNat = 13 then
      match r with
      | d :: _ => if d.toNat = 10 then some (i + 2) else some (i + 1)
      | [] => some (i + 1)
    else findNewlineEnd r (i + 1)

/-- Python `l[i]` for any integer `i` (`none` = `IndexError`). -/
def pyIndex (l : List α) (i : Int) : Option α :=
  if i < 0 then (if i + l.length < 0 then none else l[(i + l.length).toNat]?) else l[i.toNat]?

/-- `'{0}'.format(n)` for a non-negative integer. -/
def natStr (n : Nat) : Str := (Nat.repr n).toList

def hexDigit (n : Nat) : Char := if n < 10 then Char.ofNat (48 + n) else Char.ofNat (87 + n)

/-- `width` lower-case hexadecimal digits of `n` (most significant first). -/
def hexN : Nat → Nat → Str
  | 0, _ => []
  | w + 1, n => hexN w (n / 16) ++ [hexDigit (n % 16)]

/-- membership in a table of inclusive code-point ranges -/
def inRangeTable (n : Nat) : List (Nat × Nat) → Bool
  | [] => false
  | (a, b) :: r => (a ≤ n && n ≤ b) || inRangeTable n r

/-- Code points `repr` escapes although they are not ASCII: `not chr(n).isprintable()` of the
running interpreter, for every code point (`Gen/C16Tables.lean`, regenerated on every run by
`harness/tablegen/c16.py`: control characters, separators other than the space, unassigned,
private-use and format characters such as U+200B or U+FEFF). -/
def nonPrintable (n : Nat) : Bool :=
  128 ≤ n && inRangeTable n Gen.nonPrintableRanges

/-- one character of `repr(str)`; `q` is the quote in use. -/
def reprChar (q : Char) (c : Char) : Str :=
  let n := c.toNat
  if c = q ∨ n = 92 then ['\\', c]
  else if n = 9 then ['\\', 't']
  else if n = 10 then ['\\', 'n']
  else if n = 13 then ['\\', 'r']
  else if n < 32 ∨ n = 127 then ['\\', 'x'] ++ hexN 2 n
  else if n < 127 then [c]
  else if nonPrintable n then
    (if n < 256 then ['\\', 'x'] ++ hexN 2 n
     else if n < 65536 then ['\\', 'u'] ++ hexN 4 n
     else ['\\', 'U'] ++ hexN 8 n)
  else [c]

/-- `repr(s)` for a `str`. -/
def pyRepr (s : Str) : Str :=
  let q : Char := if s.contains '\'' ∧ ¬ s.contains '"' then '"' else '\''
  q :: (s.flatMap (reprChar q)) ++ [q]

def startsWith (s p : Str) : Bool := p.isPrefixOf s
def endsWith (s p : Str) : Bool := p.isSuffixOf s

/-! ## Error values: the fields the exception objects carry -/

/-- classes whose `__str__` is the message and that have no context -/
inductive PlainClass where
  | pybtexError | bibliographyDataError | bibTeXError | convertError
  deriving DecidableEq, Repr

/-- `PybtexSyntaxError` and its subclasses that keep the inherited `get_context` -/
inductive SyntaxClass where
  | pybtexSyntaxError   -- `arg` = message
  | undefinedMacro      -- `arg` = macro name; `error_type = 'undefined string'`
  | prematureEOF        -- no argument
  | unbalancedBrace     -- `arg` = `parser.text` (the name format string)
  deriving DecidableEq, Repr

/-- which `get_error_context` the `parser` attribute has -/
inductive ParserKind where
  | scanner    -- `pybtex.scanner.Scanner` (`.bst` parser, name format parser)
  | lowLevel   -- `pybtex.database.input.bibtex.LowLevelParser`
  deriving DecidableEq, Repr

/-- `error.parser.text` and `error.error_context_info`, taken when the error is constructed. -/
structure CtxInfo where
  kind : ParserKind
  text : Str
  start : Option Nat    -- `command_start` (LowLevelParser only; `None` before the first command)
  lineno : Option Nat   -- `parser.lineno` (`None` for the name format parser)
  pos : Nat
  deriving DecidableEq, Repr

/-- `getattr(entry, 'key', '<unnamed>')` -/
inductive EntryKey where
  | missing            -- object without a `key` attribute
  | none               -- `entry.key is None`
  | key (k : Str)
  deriving DecidableEq, Repr

/-- A value of every `PybtexError` subclass defined in the package. -/
inductive Err where
  | plain (cls : PlainClass) (msg : Str) (filename : Option Str)
  | duplicateField (entryKey fieldName : Str)
  | invalidNameString (name : Str)
  | pluginGroupNotFound (group : Str)
  | pluginNotFound (group name : Str)
  | fieldIsMissing (fieldName : Str) (entry : EntryKey)
  | syntaxErr (cls : SyntaxClass) (arg : Str) (filename : Option Str) (lineno : Option Nat)
  | tokenRequired (description : Str) (filename : Option Str) (info : CtxInfo)
  | auxData (msg : Str) (filename : Option Str) (lineno : Option Nat) (line : Option Str)
  deriving DecidableEq, Repr

def PlainClass.name : PlainClass → String
  | .pybtexError => "PybtexError"
  | .bibliographyDataError => "BibliographyDataError"
  | .bibTeXError => "BibTeXError"
  | .convertError => "ConvertError"

def SyntaxClass.name : SyntaxClass → String
  | .pybtexSyntaxError => "PybtexSyntaxError"
  | .undefinedMacro => "UndefinedMacro"
  | .prematureEOF => "PrematureEOF"
  | .unbalancedBrace => "UnbalancedBraceError"

def Err.className : Err → String
  | .plain c _ _ => c.name
  | .duplicateField _ _ => "DuplicateField"
  | .invalidNameString _ => "InvalidNameString"
  | .pluginGroupNotFound _ => "PluginGroupNotFound"
  | .pluginNotFound _ _ => "PluginNotFound"
  | .fieldIsMissing _ _ => "FieldIsMissing"
  | .syntaxErr c _ _ _ => c.name
  | .tokenRequired _ _ _ => "TokenRequired"
  | .auxData _ _ _ _ => "AuxDataError"

/-- Every class the model renders (compared with the classes found in the source on every run). -/
def classNames : List String :=
  ["PybtexError", "BibliographyDataError", "BibTeXError", "ConvertError", "DuplicateField",
   "InvalidNameString", "PluginGroupNotFound", "PluginNotFound", "FieldIsMissing",
   "PybtexSyntaxError", "UndefinedMacro", "PrematureEOF", "UnbalancedBraceError", "TokenRequired",
   "AuxDataError"]

/-! ## `__str__`, `get_context`, `get_filename` -/

/-- the only thing the model cannot render: a `get_error_context` that indexes out of range -/
inductive RenderFail where
  | indexError
  deriving DecidableEq, Repr

deriving instance DecidableEq for Except

/-- `SyntaxClass` → `error_type`. -/
def SyntaxClass.errorType : SyntaxClass → Str
  | .undefinedMacro => "undefined string".toList
  | _ => "syntax error".toList

/-- the message handed to `PybtexError.__init__` (what `Exception.__str__` returns) -/
def Err.message : Err → Str
  | .plain _ m _ => m
  | .duplicateField k f =>
    "entry with key ".toList ++ k ++ " has a duplicate ".toList ++ f ++ " field".toList
  | .invalidNameString n => "Too many commas in ".toList ++ pyRepr n
  | .pluginGroupNotFound g => "plugin group ".toList ++ g ++ " not found".toList
  | .pluginNotFound g n =>
    if startsWith n ['.'] ∧ endsWith g ".suffixes".toList then
      "plugin ".toList ++ g ++ " for suffix ".toList ++ n ++ " not found".toList
    else "plugin ".toList ++ g ++ ['.'] ++ n ++ " not found".toList
  | .fieldIsMissing f k =>
    "missing ".toList ++ f ++ " in ".toList ++
      (match k with
       | .missing => "<unnamed>".toList
       | .none => "None".toList
       | .key s => s)
  | .syntaxErr c a _ _ =>
    match c with
    | .pybtexSyntaxError => a
    | .undefinedMacro => a
    | .prematureEOF => "premature end of file".toList
    | .unbalancedBrace => "name format string \"".toList ++ a ++ "\" has unbalanced braces".toList
  | .tokenRequired d _ _ => d ++ " expected".toList
  | .auxData m _ _ _ => m

/-- `PybtexSyntaxError.__str__`: `{error_type}{pos}: {message}`. -/
def syntaxStr (errorType : Str) (lineno : Option Nat) (msg : Str) : Str :=
  errorType ++ (match lineno with
                | some n => " in line ".toList ++ natStr n
                | none => []) ++ ": ".toList ++ msg

/-- `str(error)`. -/
def Err.str (e : Err) : Str :=
  match e with
  | .syntaxErr c _ _ ln => syntaxStr c.errorType ln e.message
  | .tokenRequired _ _ info => syntaxStr "syntax error".toList info.lineno e.message
  | .auxData m _ ln _ =>
    (match ln with
     | some n => if n = 0 then [] else "in line ".toList ++ natStr n ++ ": ".toList
     | none => []) ++ m
  | _ => e.message

/-- `error.get_filename()` (a `str` file name is returned as it is; byte file names are decoded
by the harness before they reach the model). -/
def Err.getFilename : Err → Option Str
  | .plain _ _ f => f
  | .syntaxErr _ _ f _ => f
  | .tokenRequired _ f _ => f
  | .auxData _ f _ _ => f
  | _ => none

/-- `Scanner.get_error_context((lineno, pos))` → `(context, colno)`; `none` = `(None, lineno, None)`. -/
def scannerErrorContext (text : Str) (lineno : Option Nat) (pos : Nat) :
    Except RenderFail (Option (Str × Int)) :=
  match lineno with
  | none => pure none
  | some n =>
    let i0 : Int := (n : Int) - 1
    let lines := splitLines true text
    let before := (pySlice lines 0 i0).flatten
    let colno : Int := (pos : Int) - before.length
    match pyIndex lines i0 with
    | none => throw .indexError
    | some l => pure (some (rstripCRLF l, colno))

/-- lower bound of `text[command_start:…]`: `None` slices from the beginning -/
def sliceStart : Option Nat → Int
  | some k => k
  | none => 0

/-- `LowLevelParser.get_error_context((command_start, lineno, pos))` → `(context, colno)`. -/
def lowLevelErrorContext (text : Str) (start : Option Nat) (pos : Nat) :
    Except RenderFail (Str × Int) :=
  let s : Int := sliceStart start
  let before := pySlice text s pos
  let endPos : Nat :=
    if endsWithNL before then pos
    else match findNewlineEnd (text.drop pos) pos with
      | some e => e
      | none => text.length
  let context := rstripCRLF (pySlice text s endPos)
  match (splitLines false before).getLast? with
  | none => throw .indexError         -- `before_error.splitlines()[-1]` on an empty string
  | some l => pure (context, (l.length : Int))

def CtxInfo.errorContext (i : CtxInfo) : Except RenderFail (Option (Str × Int)) :=
  match i.kind with
  | .scanner => scannerErrorContext i.text i.lineno i.pos
  | .lowLevel => (lowLevelErrorContext i.text i.start i.pos).map some

/-- `TokenRequired.get_context`: the offending text and a marker line under the error column. -/
def tokenRequiredContext (i : CtxInfo) : Except RenderFail Str := do
  match ← i.errorContext with
  | none => pure []
  | some (context, colno) =>
    let marker : Str := if colno = 0 then ['^', '^'] else List.replicate (colno - 1).toNat ' ' ++ ['^', '^', '^']
    pure (context ++ ['\n'] ++ marker)

/-- `error.get_context()`; `none` = Python `None`. -/
def Err.getContext : Err → Except RenderFail (Option Str)
  | .tokenRequired _ _ info => (tokenRequiredContext info).map some
  | .auxData _ _ _ line =>
    match line with
    | some l => if l.isEmpty then pure none else pure (some (l ++ ['\n'] ++ List.replicate l.length '^'))
    | none => pure none
  | _ => pure none

/-! ## `format_error`, `print_error` -/

/-- the context part of `format_error`: `context.splitlines()` when the context is non-empty -/
def Err.contextLines (e : Err) : Except RenderFail (List Str) := do
  match ← e.getContext with
  | some c => if c.isEmpty then pure [] else pure (splitLines false c)
  | none => pure []

/-- `'{0}: {1}'.format(filename, line)` when there is a (non-empty) file name -/
def withFile (filename : Option Str) (line : Str) : Str :=
  match filename with
  | some f => if f.isEmpty then line else f ++ [':', ' '] ++ line
  | none => line

/-- `format_error(exception, prefix)` before the final `'\n'.join`. -/
def formatErrorLines (e : Err) (pre : Str) : Except RenderFail (List Str) := do
  let ctx ← e.contextLines
  pure ((ctx ++ [pre ++ e.str]).map (withFile e.getFilename))

/-- `format_error(exception, prefix)`. -/
def formatError (e : Err) (pre : Str) : Except RenderFail Str :=
  (formatErrorLines e pre).map (joinWith ['\n'])

def errorPrefix : Str := "ERROR: ".toList
def warningPrefix : Str := "WARNING: ".toList

/-- Decidable well-formedness of the parser state a `TokenRequired` was built from: the states in
which the two `get_error_context` functions do not index out of range.  Every other class has no
condition. -/
def CtxInfo.WF (i : CtxInfo) : Bool :=
  match i.kind with
  | .scanner =>
    match i.lineno with
    | none => true
    | some n => 1 ≤ n && n ≤ (splitLines true i.text).length
  | .lowLevel =>
    match i.start with
    | some s => s < i.pos && s < i.text.length
    | none => 0 < i.pos && 0 < i.text.length

def Err.WF : Err → Bool
  | .tokenRequired _ _ info => info.WF
  | _ => true

/-! ## The `errors` module as a state machine -/

/-- the three module globals -/
structure State (E : Type) where
  strict : Bool
  errorCode : Nat
  captured : Option (List E)
  deriving DecidableEq, Repr

/-- module state at import time -/
def State.init {E : Type} : State E := { strict := true, errorCode := 0, captured := none }

variable {E : Type}

/-- `set_strict_mode(enable)` -/
def setStrict (s : State E) (b : Bool) : State E := { s with strict := b }

/-- `capture().__enter__`: remember the current value (in the frame of the context manager),
start a new list.  Returns the new state and the remembered value. -/
def captureEnter (s : State E) : State E × Option (List E) :=
  ({ s with captured := some [] }, s.captured)

/-- `capture().__exit__`, normally or with an exception (the code is a `finally`): put the
remembered value back.  Second component: the content of `captured_errors` on leaving, which for a
well-bracketed history is the list this context yielded. -/
def captureExit (s : State E) (previous : Option (List E)) : State E × Option (List E) :=
  ({ s with captured := previous }, s.captured)

/-- what one call of `report_error` did -/
inductive Obs (E : Type) where
  | unit                          -- `set_strict_mode`, entering a context
  | left (l : Option (List E))    -- a context was left: the errors it collected
  | collected                     -- appended to the capture list
  | printed (e : E)               -- `print_error(e, 'WARNING: ')`, `error_code = 2`
  | raised (e : E)                -- strict mode: `raise e`
  | noContext                     -- exit without an open context (history not well-bracketed)
  deriving DecidableEq, Repr

/-- `report_error(e)` -/
def report (s : State E) (e : E) : State E × Obs E :=
  match s.captured with
  | some l => ({ s with captured := some (l ++ [e]) }, .collected)
  | none =>
    if s.strict then (s, .raised e)
    else ({ s with errorCode := 2 }, .printed e)

/-- operations of a history; `abort` = an exception raised inside the innermost open context
propagates out of it (and is caught just outside) -/
inductive Op (E : Type) where
  | setStrict (b : Bool)
  | enter
  | exit
  | abort
  | report (e : E)
  deriving DecidableEq, Repr

/-- module globals + the frames of the open `capture()` context managers (innermost first);
each frame holds the value to restore. -/
structure Config (E : Type) where
  st : State E
  saved : List (Option (List E))
  deriving DecidableEq, Repr

def Config.init {E : Type} : Config E := { st := State.init, saved := [] }

/-- leave the innermost context -/
def leave (c : Config E) : Config E × Obs E :=
  match c.saved with
  | [] => (c, .noContext)
  | prev :: rest =>
    let r := captureExit c.st prev
    ({ st := r.1, saved := rest }, .left r.2)

def step (c : Config E) : Op E → Config E × Obs E
  | .setStrict b => ({ c with st := setStrict c.st b }, .unit)
  | .enter =>
    let r := captureEnter c.st
    ({ st := r.1, saved := r.2 :: c.saved }, .unit)
  | .exit => leave c
  | .abort => leave c
  | .report e =>
    let r := report c.st e
    ({ c with st := r.1 }, r.2)

/-- run a history; a strict-mode `raise` is caught at the call site and the history goes on -/
def run (c : Config E) : List (Op E) → Config E × List (Obs E)
  | [] => (c, [])
  | op :: ops =>
    let r := step c op
    let r' := run r.1 ops
    (r'.1, r.2 :: r'.2)

/-- nesting depth after `ops` when started at depth `d`; `none` = an exit without open context -/
def depthAfter : Nat → List (Op E) → Option Nat
  | d, [] => some d
  | d, op :: ops =>
    match op with
    | .enter => depthAfter (d + 1) ops
    | .exit | .abort =>
      match d with
      | 0 => none
      | d + 1 => depthAfter d ops
    | .setStrict _ => depthAfter d ops
    | .report _ => depthAfter d ops

/-- decidable: every exit matches an enter and every context is closed at the end -/
def balanced (ops : List (Op E)) : Bool := depthAfter 0 ops == some 0

/-- the reports made at relative depth 0 when `ops` starts at relative depth `d`
(for a context body: the reports made directly in it, not in a nested context) -/
def baseReports : Nat → List (Op E) → List E
  | _, [] => []
  | d, op :: ops =>
    match op with
    | .enter => baseReports (d + 1) ops
    | .exit | .abort =>
      match d with
      | 0 => []
      | d + 1 => baseReports d ops
    | .setStrict _ => baseReports d ops
    | .report e =>
      match d with
      | 0 => e :: baseReports 0 ops
      | d + 1 => baseReports (d + 1) ops

/-- a capture list with further errors appended; no list, nothing collected -/
def extend : Option (List E) → List E → Option (List E)
  | some l, es => some (l ++ es)
  | none, _ => none

/-- the value of `captured_errors` followed by the values the open contexts will restore -/
def Config.full (c : Config E) : List (Option (List E)) := c.st.captured :: c.saved

/-- `strict` after the `set_strict_mode` calls of a history -/
def finalStrict : Bool → List (Op E) → Bool
  | b, [] => b
  | _, .setStrict b :: ops => finalStrict b ops
  | b, _ :: ops => finalStrict b ops

/-- the errors printed as warnings, in order -/
def printedOf : List (Obs E) → List E
  | [] => []
  | .printed e :: os => e :: printedOf os
  | _ :: os => printedOf os

/-- the errors raised, in order -/
def raisedOf : List (Obs E) → List E
  | [] => []
  | .raised e :: os => e :: raisedOf os
  | _ :: os => raisedOf os

/-- `captured_errors` is a list whenever a context is open, and so was it when an inner
context was entered -/
def Config.Consistent (c : Config E) : Prop :=
  match c.saved with
  | [] => True
  | _ :: rest => c.st.captured.isSome = true ∧ ∀ p ∈ rest, p.isSome = true

/-! ## Computations: a list of reports optionally ended by one fatal error -/

structure Comp (E : Type) where
  reports : List E
  fatal : Option E
  deriving DecidableEq, Repr

/-- perform the reports in order; a strict-mode `raise` ends the computation -/
def execReports (s : State E) : List E → State E × List (Obs E) × Option E
  | [] => (s, [], none)
  | e :: es =>
    let r := report s e
    match r.2 with
    | .raised x => (r.1, [.raised x], some x)
    | o =>
      let r' := execReports r.1 es
      (r'.1, o :: r'.2.1, r'.2.2)

/-- run a computation: final state, what each report did, the exception that ended it (if any) -/
def exec (s : State E) (c : Comp E) : State E × List (Obs E) × Option E :=
  let r := execReports s c.reports
  match r.2.2 with
  | some x => (r.1, r.2.1, some x)
  | none => (r.1, r.2.1, c.fatal)

/-- `with errors.capture() as l: <computation>`: state afterwards, the list, the exception that
left the `with` block (if any) -/
def execCaptured (s : State E) (c : Comp E) : State E × Option (List E) × Option E :=
  let en := captureEnter s
  let r := exec en.1 c
  let ex := captureExit r.1 en.2
  (ex.1, ex.2, r.2.2)

/-- `CommandLine.__call__` around a `main` without options (the harness's own `CommandLine`
subclass): `main` remembers `strict`, sets `error_code = 0` and `set_strict_mode(False)`, runs, and
puts `strict` back in a `finally`; a pybtex error that escapes is printed with `ERROR: ` and the
status is 1, otherwise the status is `error_code` — of THIS run, since it was reset at the start.
Result: final state, the errors written to stderr with their prefix kind (`true` = ERROR), status. -/
def commandLine (s : State E) (c : Comp E) : State E × List (Bool × E) × Nat :=
  let r := exec (setStrict { s with errorCode := 0 } false) c
  let warnings := (printedOf r.2.1).map fun e => (false, e)
  match r.2.2 with
  | some f => (setStrict r.1 s.strict, warnings ++ [(true, f)], 1)
  | none => (setStrict r.1 s.strict, warnings, r.1.errorCode)

/-! ## `CommandLine.main` with its options (`pybtex`, `pybtex-convert`, `pybtex-format`)

`main()` remembers the caller's `strict`, sets `error_code = 0` and `set_strict_mode(False)`, then
`parse_args` — whose `--strict` callback calls `set_strict_mode(True)` while the options are read,
in the order they are written — then the argument-count check (`print_help`, exit status 1), then
`run`, then `sys.exit(error_code)`; a `finally` puts the caller's `strict` back on EVERY way out
(`sys.exit`, an option error, a pybtex error on its way to `__call__`).  So the exit status is that
of this run only and the caller's reporting mode survives the call (repaired in /repo by 8c0015f;
before, `error_code` was never cleared and `strict` was left `False`).
`__call__` wraps it: a pybtex error that escapes is printed with `ERROR: ` and the status is 1.
The only thing modelled of `optparse` is what it does to the error channel: the `--strict`
callback, and that a rejected option ends the process with status 2 (`OptionParser.error`) after
the options before it have been processed. -/

/-- one option as far as the error channel is concerned -/
inductive CliOpt where
  | strict          -- `--strict`: the callback runs `set_strict_mode(True)`
  | other           -- any other accepted option
  | rejected        -- an option `optparse` rejects: usage message, `sys.exit(2)`
  | info            -- `--help` / `--version`: `optparse` prints and calls `sys.exit(0)`
  | pluginError     -- a `load_plugin` option naming an unknown plug-in: `find_plugin` raises inside `parse_args`
  deriving DecidableEq, Repr

/-- what ends `parse_args` early -/
inductive ArgStop (E : Type) where
  | usage               -- `OptionParser.error`: exit status 2
  | info                -- `--help` / `--version`: exit status 0
  | raised (e : E)      -- a pybtex error raised by an option type checker
  deriving Repr

/-- `parse_args` on the options in the order written; `perr` is the error a `load_plugin` option
raises (`PluginNotFound`) -/
def applyOpts (perr : E) (s : State E) : List CliOpt → State E × Option (ArgStop E)
  | [] => (s, none)
  | .strict :: r => applyOpts perr (setStrict s true) r
  | .other :: r => applyOpts perr s r
  | .rejected :: _ => (s, some .usage)
  | .info :: _ => (s, some .info)
  | .pluginError :: _ => (s, some (.raised perr))

/-- the command line of one of the three programs -/
structure Argv where
  opts : List CliOpt
  nargs : Nat        -- number of positional arguments
  deriving Repr

/-- `CommandLine.__call__` with the real `main`: final module state, the errors written to
`pybtex.io.stderr` with their prefix kind (`true` = `ERROR: `), exit status. -/
def cliMain (numArgs : Nat) (perr : E) (s : State E) (a : Argv) (c : Comp E) :
    State E × List (Bool × E) × Nat :=
  let s1 := setStrict { s with errorCode := 0 } false
  -- the `finally` of `main`
  let restore (t : State E) : State E := setStrict t s.strict
  match applyOpts perr s1 a.opts with
  | (s2, some .usage) => (restore s2, [], 2)
  | (s2, some .info) => (restore s2, [], 0)
  | (s2, some (.raised e)) => (restore s2, [(true, e)], 1)
  | (s2, none) =>
    if a.nargs ≠ numArgs then (restore s2, [], 1)
    else
      let r := exec s2 c
      let warnings := (printedOf r.2.1).map fun e => (false, e)
      match r.2.2 with
      | some f => (restore r.1, warnings ++ [(true, f)], 1)
      | none => (restore r.1, warnings, r.1.errorCode)

/-- several command lines run one after the other in the same interpreter (nothing resets the
module state in between: each `main` does what it needs itself) -/
def cliRuns (numArgs : Nat) (perr : E) (s : State E) :
    List (Argv × Comp E) → State E × List (List (Bool × E) × Nat)
  | [] => (s, [])
  | (a, c) :: rest =>
    let r := cliMain numArgs perr s a c
    let r' := cliRuns numArgs perr r.1 rest
    (r'.1, (r.2.1, r.2.2) :: r'.2)

/-! ## Context managers left in any order (no `with` discipline)

`capture()` is a generator-based context manager: each open manager keeps, in its own frame, the
value it will put back.  `with` statements leave them innermost first (`Config`/`leave` above).
Called by hand (`__enter__`/`__exit__`, `ExitStack` misuse, interleaved generators) they can be
left in any order; `exitNth k` leaves the `k`-th most recently entered manager that is still open. -/

inductive FOp (E : Type) where
  | setStrict (b : Bool)
  | enter
  | exitNth (k : Nat)
  | report (e : E)
  deriving DecidableEq, Repr

def fstep (c : Config E) : FOp E → Config E × Obs E
  | .setStrict b => ({ c with st := setStrict c.st b }, .unit)
  | .enter =>
    let r := captureEnter c.st
    ({ st := r.1, saved := r.2 :: c.saved }, .unit)
  | .exitNth k =>
    match c.saved[k]? with
    | none => (c, .noContext)
    | some prev =>
      let r := captureExit c.st prev
      ({ st := r.1, saved := c.saved.eraseIdx k }, .left r.2)
  | .report e =>
    let r := report c.st e
    ({ c with st := r.1 }, r.2)

def frun (c : Config E) : List (FOp E) → Config E × List (Obs E)
  | [] => (c, [])
  | op :: ops =>
    let r := fstep c op
    let r' := frun r.1 ops
    (r'.1, r.2 :: r'.2)

/-- a `with`-disciplined history as a free-order one: every exit leaves the innermost manager -/
def Op.toFree : Op E → FOp E
  | .setStrict b => .setStrict b
  | .enter => .enter
  | .exit => .exitNth 0
  | .abort => .exitNth 0
  | .report e => .report e

/-- every exit of the history leaves the innermost open manager -/
def lifo : List (FOp E) → Bool
  | [] => true
  | .exitNth k :: r => k == 0 && lifo r
  | _ :: r => lifo r

/-! ## Errors built from mutable parse state (location snapshot) -/

/-- a world with some mutable parse state `σ`: the state is changed, or an error is built from
the current state and reported -/
inductive WOp (σ : Type) (E : Type) where
  | mutate (f : σ → σ)
  | report (mk : σ → E)

/-- run a world history against the reporting state -/
def runWorld {σ : Type} (w : σ) (s : State E) : List (WOp σ E) → σ × State E × List (Obs E)
  | [] => (w, s, [])
  | .mutate f :: ops => runWorld (f w) s ops
  | .report mk :: ops =>
    let r := report s (mk w)
    let r' := runWorld w r.1 ops
    (r'.1, r'.2.1, r.2 :: r'.2.2)

/-- the errors a world history builds, each from the state current at its report -/
def builtErrors {σ : Type} (w : σ) : List (WOp σ E) → List E
  | [] => []
  | .mutate f :: ops => builtErrors (f w) ops
  | .report mk :: ops => mk w :: builtErrors w ops

def worldAfter {σ : Type} (w : σ) : List (WOp σ E) → σ
  | [] => w
  | .mutate f :: ops => worldAfter (f w) ops
  | .report _ :: ops => worldAfter w ops

/-- `AuxDataContext`: updated in place while an `.aux` file is parsed -/
structure AuxContext where
  filename : Option Str
  lineno : Option Nat
  line : Option Str
  deriving DecidableEq, Repr

/-- `AuxDataError(message, context)`: file name, line number and line are copied out of the
context object (C20-2.diff) -/
def mkAuxError (msg : Str) (ctx : AuxContext) : Err :=
  .auxData msg ctx.filename ctx.lineno ctx.line

/-- the mutable part of a `Scanner` / `LowLevelParser` -/
structure ScanState where
  kind : ParserKind
  text : Str
  filename : Option Str
  commandStart : Option Nat
  lineno : Option Nat
  pos : Nat
  deriving DecidableEq, Repr

/-- `parser.get_error_context_info()` + `parser.text` -/
def ScanState.info (p : ScanState) : CtxInfo :=
  { kind := p.kind, text := p.text, start := p.commandStart, lineno := p.lineno, pos := p.pos }

/-- `TokenRequired(description, parser)` -/
def mkTokenRequired (description : Str) (p : ScanState) : Err :=
  .tokenRequired description p.filename p.info

/-- `PybtexSyntaxError(message, parser)` and subclasses -/
def mkSyntaxError (cls : SyntaxClass) (arg : Str) (p : ScanState) : Err :=
  .syntaxErr cls arg p.filename p.lineno

/-! ## The two exception classes of the package that are not pybtex errors -/

def formatLetters : Str := ['f', 'l', 'v', 'j']

/-- `NameFormatParser.parse_name_part.check_format_chars`: `true` = passes (no
`PybtexSyntaxError`).  `already` = a format-letter token was seen before in this name part. -/
def checkFormatChars (already : Bool) (value : Str) : Bool :=
  let v := lower value
  !(already || !(v.length == 1 || v.length == 2) ||
    (match v.head?, v.getLast? with
     | some a, some b => a != b || !formatLetters.contains a
     | _, _ => true))

/-- `NamePart.__init__` on the format letters of the token (after the C11 fix of DESIGN.md
section 4 #20: the letters are lower-cased first): `none` = `BibTeXNameFormatError`, otherwise the
format character and whether the part is abbreviated. -/
def namePartInit (formatChars : Str) : Option (Char × Bool) :=
  let fc := lower formatChars
  match fc with
  | [a] => some (a, true)
  | [a, b] => if a = b then some (a, false) else none
  | _ => none

/-- what can leave `parse_command` in `LowLevelParser.parse_bibliography` -/
inductive CmdOutcome (α : Type) where
  | result (a : α)
  | syntaxError (e : Err)   -- `PybtexSyntaxError`
  | skipEntry               -- `SkipEntry` (`@comment`, entry not wanted)

/-- one turn of the loop of `parse_bibliography`: `except PybtexSyntaxError` hands the error to
`handle_error` (which raises it or reports it), `except SkipEntry: pass`.
Result: the value yielded (if any) and the pybtex error handed on (if any). -/
def guardCommand {α : Type} : CmdOutcome α → Option α × Option Err
  | .result a => (some a, none)
  | .syntaxError e => (none, some e)
  | .skipEntry => (none, none)

end Pybtex.Errors
