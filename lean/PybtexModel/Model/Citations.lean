/-
Model of citation resolution: `BibliographyData._expand_wildcard_citations`,
`_get_crossreferenced_citations`, `add_extra_citations` (pybtex/database/__init__.py),
`Interpreter.command_read` / `remove_missing_citations` (pybtex/bibtex/interpreter.py) and
`BaseStyle.format_bibliography` (pybtex/style/formatting/__init__.py, with the repair
proposed_fixes/C05-1: a cited key that is not in the database is reported and left out by a
`remove_missing_citations` step, as in the BibTeX engine, instead of raising `KeyError`; and
proposed_fixes/C05-2: the dangling cross-reference of an entry that was appended by the
threshold is reported like that of a cited entry).

The generators of the Python code are run to completion (`list(...)`), so each becomes a
function returning the yielded list; `report_error` calls are collected next to it in order.
The local `CaseInsensitiveSet` / `CaseInsensitiveDefaultDict(int)` are the containers of C13.
-/
import PybtexModel.Model.Db

namespace Pybtex
namespace BibData

/-- inner loop of `_expand_wildcard_citations`:
`for key in self.entries: if key not in citation_set: citation_set.add(key); yield key` -/
def expandStar (set : CISet) : List Str → CISet × List Str
  | [] => (set, [])
  | k :: r =>
    if set.contains k then expandStar set r
    else
      let rr := expandStar (set.add k) r
      (rr.1, k :: rr.2)

/-- `_expand_wildcard_citations`, the loop over `citations` with the running `citation_set`. -/
def expandAux (db : BibData) : CISet → List Str → List Str
  | _, [] => []
  | set, c :: r =>
    if c = star then
      let rr := expandStar set (CIDict.iter db.entries)
      rr.2 ++ expandAux db rr.1 r
    else if set.contains c then expandAux db set r
    else c :: expandAux db (set.add c) r

def expandWildcard (db : BibData) (citations : List Str) : List Str :=
  expandAux db CISet.empty citations

/-- the two local containers of `_get_crossreferenced_citations` -/
structure XState where
  count : CIDict Int
  cset : CISet

/-- `_get_crossreferenced_citations`, the loop over `citations`.
`crossref_count[k] += 1` is `__getitem__` (default 0, nothing stored) followed by `__setitem__`;
the test reads the counter again. -/
def crossrefAux (db : BibData) (minCrossrefs : Int) : XState → List Str → List Str × List Report
  | _, [] => ([], [])
  | st, c :: r =>
    match db.entries.getItem c with
    | none => crossrefAux db minCrossrefs st r                    -- KeyError → continue
    | some e =>
      match e.fields.getItem xrefName with
      | none => crossrefAux db minCrossrefs st r                  -- KeyError → continue
      | some x =>
        match db.entries.getItem x with
        | none =>
          let rr := crossrefAux db minCrossrefs st r
          (rr.1, .badCrossref c x :: rr.2)
        | some p =>
          let canon := p.key
          let count1 := st.count.setItem canon (st.count.getItemDefault canon 0 + 1)
          if count1.getItemDefault canon 0 ≥ minCrossrefs && !st.cset.contains canon then
            let rr := crossrefAux db minCrossrefs ⟨count1, st.cset.add canon⟩ r
            (canon :: rr.1, rr.2)
          else crossrefAux db minCrossrefs ⟨count1, st.cset⟩ r

/-- `_get_crossreferenced_citations`, the second loop (repair proposed_fixes/C05-2): the entries
that have just been appended go into the bibliography too, so their own dangling
cross-references are reported as well:
`try: crossref = self.entries[citation].fields['crossref'] except KeyError: continue`, then
`if crossref not in self.entries: report`. -/
def danglingExtras (db : BibData) : List Str → List Report
  | [] => []
  | c :: r =>
    match db.entries.getItem c with
    | none => danglingExtras db r                                 -- KeyError → continue
    | some e =>
      match e.fields.getItem xrefName with
      | none => danglingExtras db r                               -- KeyError → continue
      | some x =>
        if db.entries.contains x then danglingExtras db r
        else .badCrossref c x :: danglingExtras db r

def crossreferenced (db : BibData) (citations : List Str) (minCrossrefs : Int) : List Str × List Report :=
  let r := crossrefAux db minCrossrefs ⟨CIDict.empty, CISet.ofList citations⟩ citations
  (r.1, r.2 ++ danglingExtras db r.1)

/-- `add_extra_citations(citations, min_crossrefs)`. -/
def addExtraCitations (db : BibData) (citations : List Str) (minCrossrefs : Int) : List Str × List Report :=
  let expanded := expandWildcard db citations
  let x := crossreferenced db expanded minCrossrefs
  (expanded ++ x.1, x.2)

/-- `Interpreter.remove_missing_citations`. -/
def removeMissing (db : BibData) : List Str → List Str × List Report
  | [] => ([], [])
  | c :: r =>
    let rr := removeMissing db r
    if db.entries.contains c then (c :: rr.1, rr.2) else (rr.1, .missingEntry c :: rr.2)

/-- `BaseStyle.remove_missing_citations` (added by the repair C05-1, same shape as the
interpreter's): a cited key that is not in the database is reported and left out. -/
def removeMissingPy (db : BibData) (citations : List Str) : List Str × List Report :=
  removeMissing db citations

/-- `[bib_data.entries[key] for key in citations]`; `none` = `KeyError`. -/
def lookupAll (db : BibData) : List Str → Option (List Entry)
  | [] => some []
  | c :: r =>
    match db.entries.getItem c with
    | none => none
    | some e => (lookupAll db r).map (e :: ·)

end BibData

/-- What a front end shows: the keys of the `\bibitem`s in order, and everything reported. -/
structure EngineOut where
  keys : List Str
  reports : List Report
deriving DecidableEq, Repr

/-- BibTeX engine, `READ`: filtered read, `add_extra_citations`, `remove_missing_citations`;
`ITERATE` then visits `self.citations`, `cite$` is the citation as listed. -/
def bibtexEngine (file : List (Str × Entry)) (citations : List Str) (minCrossrefs : Int) : Option EngineOut :=
  match BibData.readFile (some citations) file with
  | none => none
  | some (db, rep0) =>
    let a := db.addExtraCitations citations minCrossrefs
    let b := db.removeMissing a.1
    some ⟨b.1, rep0 ++ a.2 ++ b.2⟩

/-- Python engine, `PybtexEngine.format_from_files` → `format_bibliography`: filtered read,
`add_extra_citations`, `remove_missing_citations`, entry lookup; the `\bibitem` key is
`entry.key` (style `unsrt` keeps the order).  `none` = uncaught `KeyError`. -/
def pythonEngine (file : List (Str × Entry)) (citations : List Str) (minCrossrefs : Int) : Option EngineOut :=
  match BibData.readFile (some citations) file with
  | none => none
  | some (db, rep0) =>
    let a := db.addExtraCitations citations minCrossrefs
    let b := db.removeMissingPy a.1
    match db.lookupAll b.1 with
    | none => none
    | some es => some ⟨es.map (·.key), rep0 ++ a.2 ++ b.2⟩

end Pybtex
