/-
C10 (extension): the `.bib` reader WITH `command_start`, and the rendering of its located errors.

`LowLevelParser.parse_bibliography` sets `self.command_start = self.pos - 1` (the position of the
`@`) before every command; `PybtexSyntaxError.__init__` stores
`error_context_info = (command_start, lineno, pos)`; `TokenRequired.get_context` hands that triple
to `LowLevelParser.get_error_context`, whose result `errors.format_error` prints.  The reader model
`Model/BibParse.lean` has no `command_start` (and its `errAt` is a ghost).  Here:

* `parseLoopCS` — the loop of `parse_bibliography` + `Parser.parse_string` once more, round by round
  with the functions of `Model/BibParse.lean` (`parseCommand`, `processCmd`, `handleError`), each
  round run on a state whose report list is empty, so that the problems of a round are known; every
  problem is recorded with the `command_start` of its round and its `pos` (`Located`);
* `Located.ctx` — the `error_context_info` + `parser.text` of the exception object, as the
  `CtxInfo` of the error-channel model (`Model/Errors.lean`, property C16), `Located.exc` the
  exception object (`ofBib` of `Model/ErrorSources.lean` with the REAL context instead of a parameter);
* `renderAll` — what non-strict mode prints (`format_error(e, 'WARNING: ')` per problem).

`Lemmas/BibContext.lean`: `parseLoopCS` computes exactly `parseLoop` (refinement), and every
context it produces satisfies `CtxInfo.WF`, the hypothesis of the rendering theorems of C16.
-/
import PybtexModel.Model.BibParse
import PybtexModel.Model.ErrorSources

namespace Pybtex.Bib
open Pybtex.Errors (CtxInfo)

/-- a problem with the `error_context_info` the exception object carries -/
structure Located where
  err : Err
  start : Nat      -- `command_start`: position of the `@` of the command being read
  pos : Nat        -- `pos`: code points consumed when the problem was handed to `handle_error` / raised
deriving Repr, DecidableEq

/-- the body of one round of `parse_bibliography` behind `skip_to([AT])`: `inl` = the loop stops
with this result, `inr` = it goes on from this state (the case analysis of `parseLoop`) -/
def cmdRound (s : St) : (St × Option Err) ⊕ St :=
  match parseCommand s with
  | .ok c s =>
    match processCmd c s with
    | .ok _ s => .inr s
    | .fail (.raised e) s => .inl (s, some e)
    | .fail (.syn e) s => .inl (s, some e)
    | .fail .skip s => .inr s
  | .fail (.syn e) s =>
    match handleError s e with
    | .ok _ s => .inr s
    | .fail (.raised e) s => .inl (s, some e)
    | .fail _ s => .inl (s, some e)
  | .fail .skip s => .inr s
  | .fail (.raised e) s => .inl (s, some e)

/-- the problems a round reported, located: `n` = length of the whole text, `cs` = `command_start` -/
def locate (n cs : Nat) (s : St) : List Located :=
  (s.errs.zip s.errAt).map fun p => ⟨p.1, cs, n - p.2.length⟩

/-- put the reports `errs` / `errAt` collected before the round back in front of those of the round -/
def withReports (errs : List Err) (errAt : List Str) (s : St) : St :=
  { s with errs := errs ++ s.errs, errAt := errAt ++ s.errAt }

/-- `parseLoop` with `command_start`: result of `parseLoop`, the located problems reported (`acc` =
those of the rounds before), and the located error that left the reader.  `n` = `len(text)`. -/
def parseLoopCS (n : Nat) : Nat → St → List Located → (St × Option Err) × List Located × Option Located
  | 0, s, acc => ((s, some ⟨.internal, none⟩), acc, none)
  | fuel + 1, s, acc =>
    match skipToChar (· = '@') s.rest with
    | none => ((s, none), acc, none)
    | some (chunk, rest) =>
      let cs := n - rest.length - 1          -- `self.command_start = self.pos - 1`
      match cmdRound { s with rest := rest, ln := s.ln + countNl chunk, errs := [], errAt := [] } with
      | .inl (s', o) =>
        ((withReports s.errs s.errAt s', o), acc ++ locate n cs s', o.map fun e => ⟨e, cs, n - s'.rest.length⟩)
      | .inr s' => parseLoopCS n fuel (withReports s.errs s.errAt s') (acc ++ locate n cs s')

/-- `parseBib` with `command_start` -/
def parseBibCS (text : Str) (strict : Bool) (wanted : Option (List Str))
    (macros0 : List (Str × Str) := Gen.monthMacros) (roles : List Str := Gen.personRoles) :
    (St × Option Err) × List Located × Option Located :=
  let db : Db := match wanted with
    | none => {}
    | some w => { wanted := some (CISet.ofList w), citations := CISet.ofList w }
  parseLoopCS text.length (text.length + 1)
    { rest := text, macros := CIDict.ofPairs macros0, db := db, strict := strict, roles := roles } []

/-- `error.parser.text` and `error.error_context_info` of the exception object -/
def Located.ctx (text : Str) (l : Located) : CtxInfo :=
  { kind := .lowLevel, text := text, start := some l.start, lineno := l.err.line, pos := l.pos }

/-- the exception object (C16's error values) with its real context; `none` only for the
model-only kind `internal` -/
def Located.exc (fn : Option Str) (text : Str) (l : Located) : Option Errors.Err :=
  Errors.ofBib fn (l.ctx text) l.err

/-- `format_error(e, prefix)` of a located problem -/
def Located.render (fn : Option Str) (text : Str) (pre : Str) (l : Located) : Option (Except Errors.RenderFail Str) :=
  (l.exc fn text).map fun x => Errors.formatError x pre

/-- `error.get_context()` of a located problem -/
def Located.context (fn : Option Str) (text : Str) (l : Located) : Option (Except Errors.RenderFail (Option Str)) :=
  (l.exc fn text).map Errors.Err.getContext

/-! ### `LowLevelParser` used directly (function-level tie of `parse_command`)

`for cmd in LowLevelParser(text, handle_error=…, want_entry=…, macros=…)`: the commands the
iterator yields — BEFORE `Parser` processes them (no white-space normalisation, no persons, no
database) — with `parseCommand` of `Model/BibParse.lean`; `handleError` in continue mode = a
`handle_error` that collects, in strict mode = the default one (`raise error`). -/

/-- one yielded command: the `Cmd` of `parseCommand` and `current_field_name` / `current_value`
(what `make_result` of `@string` returns) -/
structure LowCmd where
  cmd : Cmd
  fieldName : Option Str
  value : List Str

def lowLevelIter : Nat → St → List LowCmd → (St × Option Err) × List LowCmd
  | 0, s, acc => ((s, some ⟨.internal, none⟩), acc)
  | fuel + 1, s, acc =>
    match skipToChar (· = '@') s.rest with
    | none => ((s, none), acc)
    | some (chunk, rest) =>
      let s := { s with rest := rest, ln := s.ln + countNl chunk }
      match parseCommand s with
      | .ok c s => lowLevelIter fuel s (acc ++ [⟨c, s.curFieldName, s.curValue⟩])
      | .fail (.syn e) s =>
        match handleError s e with
        | .ok _ s => lowLevelIter fuel s acc
        | .fail (.raised e) s => ((s, some e), acc)
        | .fail _ s => ((s, some e), acc)
      | .fail .skip s => lowLevelIter fuel s acc
      | .fail (.raised e) s => ((s, some e), acc)

/-- `list(LowLevelParser(text, …))` with the month macros in a `CaseInsensitiveDict` (as `Parser`
passes them) and `want_entry(key) = key in wanted` (a fixed `CaseInsensitiveSet`; `none` = the default
`want_entry`, always true) -/
def lowLevelRun (text : Str) (strict : Bool) (wanted : Option (List Str)) : (St × Option Err) × List LowCmd :=
  let db : Db := match wanted with
    | none => {}
    | some w => { wanted := some (CISet.ofList w) }
  lowLevelIter (text.length + 1)
    { rest := text, macros := CIDict.ofPairs Gen.monthMacros, db := db, strict := strict } []

end Pybtex.Bib
