/-
C04, function by function: the local helpers of `Person._parse_string` that `Model/Names.lean`
inlines into `parseName` / `processVonLast` — `split_at`, `rsplit_at` (both on top of `find_pos`,
which is `findPosM` there) — as definitions of their own, so that each of them can be driven against
the real closure (`harness/props/c04_locals.py` rebuilds the closures from the code objects of
`Person._parse_string`) by a driver op of its own.  `Props/LocalsC04.lean` (`C04_local_helpers_wiring`)
shows that `parseName` / `processVonLast` are these helpers put together the way the code does it.

Core Lean only.
-/
import PybtexModel.Model.Names
import PybtexModel.Model.Errors

namespace Pybtex

/-- `split_at(lst, pred)`: `pos = find_pos(lst, pred); return lst[:pos], lst[pos:]` -/
def splitAtM {ε α : Type} (p : α → Except ε Bool) (l : List α) : Except ε (List α × List α) :=
  match findPosM p l with
  | .error e => .error e
  | .ok pos => .ok (l.take pos, l.drop pos)

/-- `rsplit_at(lst, pred)`: `rpos = find_pos(reversed(lst), pred); pos = len(lst) - rpos; return lst[:pos], lst[pos:]` -/
def rsplitAtM {ε α : Type} (p : α → Except ε Bool) (l : List α) : Except ε (List α × List α) :=
  match findPosM p l.reverse with
  | .error e => .error e
  | .ok rpos => .ok (l.take (l.length - rpos), l.drop (l.length - rpos))

/-- `process_von_last(parts)` written with `rsplit_at` as the code has it -/
def processVonLastL (p : Person) (parts : List Str) : Except NameErr Person :=
  let vonLast := parts.dropLast
  let notVon := parts.drop (parts.length - 1)
  if vonLast ≠ [] then
    match rsplitAtM isVonName vonLast with
    | .error e => .error e
    | .ok (von, last) => .ok { p with prelast := p.prelast ++ von, last := p.last ++ last ++ notVon }
  else .ok { p with last := p.last ++ notVon }

/-- the `len(parts) == 1` branch of `_parse_string` written with `split_at` as the code has it -/
def parseFirstVonLastL (name : Str) : Except NameErr Person :=
  match splitAtM isVonName (splitTex .space name) with
  | .error e => .error e
  | .ok (fm, vl) =>
    let (fm, vl) := if vl = [] ∧ fm ≠ [] then (fm.dropLast, fm.drop (fm.length - 1)) else (fm, vl)
    processVonLastL (processFirstMiddle {} fm) vl

/-! ### `Person(...)` in the three error modes of `pybtex.errors`

`_parse_string` reports too many commas through `report_error(InvalidNameString(name))`: inside
`errors.capture()` the exception object is appended to the list, in strict mode (the default) it is
RAISED out of `Person(...)`, otherwise `print_error(exception, 'WARNING: ')` writes one line to
`pybtex.io.stderr` and sets `error_code = 2`.  `InvalidNameString` has no context and no file name,
so `format_error` gives the single line `WARNING: Too many commas in <repr of the stripped name>`. -/

inductive ErrMode | capture | strict | nonstrict
deriving DecidableEq, Repr

structure ModeOut where
  person : Option Person := none   -- `none`: the constructor raised
  raised : Option Str := none      -- `str(e)` of the `InvalidNameString` that came out of `Person(...)`
  captured : List Str := []        -- `str(e)` of the captured exceptions
  stderr : Str := []               -- what was written to `pybtex.io.stderr`
  errorCode : Nat := 0             -- `errors.error_code` afterwards (0 before)
deriving DecidableEq, Repr

/-- `str(InvalidNameString(name))` = `'Too many commas in {}'.format(repr(name))` -/
def tooManyCommasMessage (name : Str) : Str := "Too many commas in ".toList ++ Errors.pyRepr name

/-- `Person(string, first, middle, prelast, last, lineage)` under an error mode -/
def mkPersonMode (mode : ErrMode) (string first middle prelast last lineage : Str) : Except NameErr ModeOut :=
  match mkPerson string first middle prelast last lineage with
  | .error e => .error e
  | .ok (p, false) => .ok { person := some p }
  | .ok (p, true) =>
    let msg := tooManyCommasMessage (strip string)
    match mode with
    | .capture => .ok { person := some p, captured := [msg] }
    | .strict => .ok { raised := some msg }
    | .nonstrict => .ok { person := some p, stderr := "WARNING: ".toList ++ msg ++ ['\n'], errorCode := 2 }

end Pybtex
