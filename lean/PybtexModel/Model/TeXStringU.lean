/-
The character-class dependent primitives of `pybtex/bibtex/utils.py` once more, generic in the
character operations they are run with (`CharOps`), and their instance over the tables of the
running interpreter (`uniOps`): `bibtex_purify` calls `str.isalnum`, `change_case` calls
`str.lower` / `str.upper`, `bibtex_first_letter` calls `str.isalpha` — all Unicode-aware in
Python 3, whereas `Model/TeXString.lean` (shared with C03/C04/C11) uses the ASCII classes of
`Model/Basic.lean`.  The generic definitions are the definitions of `Model/TeXString.lean`
with `isAlnum`, `isAlpha`, `lower`, `upper` replaced by the fields of `CharOps`; at
`asciiOps` they are the old ones (`Lemmas/TeXStringU.lean`).  `purify_special_char_re` is
`^\\[A-Za-z]+` in the code, so `stripCtrlWord` keeps the ASCII letters.

Case mapping: `lowerUC` (Model/UniCase.lean) and `upperUC` below are the single-character,
context-free part of `str.lower` / `str.upper`, read off the interpreter on every run
(`Gen/UnicodeCase.lean`, `Gen/UnicodeC12.lean`).  `change_case` applies `lower`/`upper` to single
characters at brace level 0 and to whole words inside a special character; character by
character mapping is exact for every string without
  * a letter whose upper- or lower-case form is not one character (ß → SS, ŉ → ʼN, ǰ, ΐ, ﬁ …:
    `Gen.upperMultiC12`, 102 code points; İ: `Gen.lowerMulti`), and
  * U+03A3 (Σ), whose lower-case form inside a word depends on its context (final sigma).
`caseDomain` is that set of strings; outside it the model does not speak about the code
(the driver answers `outside-domain` there and the harness checks the property clauses on
the implementation alone).

Also here: the mode handling of the `change.case$` built-in (`builtins.py`), the clamp-free
wrappers being plain argument passing.
-/
import PybtexModel.Model.Names
import PybtexModel.Model.UniCase
import PybtexModel.Gen.UnicodeC12

namespace Pybtex.TeXU

/-- the character operations the primitives are run with -/
structure CharOps where
  lo : Char → Char       -- `c.lower()` for one character
  up : Char → Char       -- `c.upper()` for one character
  alpha : Char → Bool    -- `c.isalpha()`
  alnum : Char → Bool    -- `c.isalnum()`

/-- the ASCII operations of `Model/Basic.lean` -/
def asciiOps : CharOps := ⟨lowerC, upperC, isAlpha, isAlnum⟩

/-- `chr(c).upper()` for one character (single-character part of the mapping). -/
def upperUC (c : Char) : Char :=
  match caseLookupG c.toNat Gen.upperRunsC12 with
  | some m => Char.ofNat m
  | none => c

/-- `s.upper()` on the modelled domain. -/
def upperU (s : Str) : Str := s.map upperUC

/-- `c.isalnum()` for one character (the running interpreter's table). -/
def isAlnumU (c : Char) : Bool := inRanges c.toNat Gen.alnumRangesC12

/-- the operations of the running interpreter -/
def uniOps : CharOps := ⟨lowerUC, upperUC, isAlphaN, isAlnumU⟩

/-- one character on which character-by-character case mapping is `str.lower` / `str.upper` -/
def caseDomainC (c : Char) : Bool :=
  !Gen.upperMultiC12.contains c.toNat && !Gen.lowerMulti.contains c.toNat && c.toNat != 0x3A3

/-- the strings on which the case-changing model follows the code -/
def caseDomain (s : Str) : Bool := s.all caseDomainC

/-! ### `bibtex_purify` -/

def purifyTokG (o : CharOps) (t : Tok) : Str :=
  if t.2 = 1 ∧ startsWithBackslash t.1 then (stripCtrlWord t.1).filter o.alnum
  else if t.1 ≠ [] ∧ t.1.all o.alnum then t.1
  else if (t.1 ≠ [] ∧ t.1.all isWs) ∨ t.1 = ['-'] ∨ t.1 = ['~'] then [' ']
  else []

def bibtexPurifyG (o : CharOps) (s : Str) : Option Str :=
  (scan s).map fun toks => (toks.map (purifyTokG o)).flatten

/-! ### `change_case` -/

def convertStrG (o : CharOps) (m : CaseMode) (st : CaseState) (w : Str) : Str :=
  match m with
  | .l => w.map o.lo
  | .u => w.map o.up
  | .t => if st = .start then w else w.map o.lo

def convertSpecialG (o : CharOps) (m : CaseMode) (st : CaseState) (tok : Str) : Str :=
  joinWith [' '] ((splitSpace tok).map fun w => if startsWithBackslash w then w else convertStrG o m st w)

def changeCaseAuxG (o : CharOps) (m : CaseMode) : CaseState → List Tok → Str
  | _, [] => []
  | st, (t, 0) :: r =>
    convertStrG o m st t ++
      changeCaseAuxG o m (if t = [':'] then .afterColon
                          else if (t ≠ [] ∧ t.all isWs) ∧ st = .afterColon then .start
                          else .normal) r
  | st, (t, l + 1) :: r =>
    (if l + 1 = 1 ∧ startsWithBackslash t then convertSpecialG o m st t else t) ++ changeCaseAuxG o m st r

def changeCaseG (o : CharOps) (s : Str) (m : CaseMode) : Option Str :=
  (scan s).map (changeCaseAuxG o m .start)

/-! ### `bibtex_first_letter`, `bibtex_abbreviate` -/

def firstLetterAuxG (o : CharOps) : List Tok → Str
  | [] => []
  | (t, _) :: r =>
    if isBraceTok t then firstLetterAuxG o r
    else if startsWithBackslash t ∧ t ≠ ['\\'] then ['{'] ++ t ++ ['}']
    else if t ≠ [] ∧ t.all o.alpha then t
    else firstLetterAuxG o r

def bibtexFirstLetterG (o : CharOps) (s : Str) : Option Str := (scan s).map (firstLetterAuxG o)

/-- `bibtex_abbreviate(string, delimiter, separator='-')`; `delim = none` is the default `'.-'`. -/
def bibtexAbbreviateG (o : CharOps) (s : Str) (delim : Option Str) : Option Str := do
  let letters ← (splitTex .hyphen s).mapM (bibtexFirstLetterG o)
  pure (joinWith (delim.getD ['.', '-']) (letters.filter (· ≠ [])))

/-! ### the built-ins of `builtins.py` that wrap the primitives -/

inductive BuiltinErr where
  | emptyMode       -- `BibTeXError('empty mode string passed to change.case$')`
  | incorrectMode   -- `BibTeXError('incorrect change.case$ mode: …')`
  | tooDeep         -- `BibTeXError('too many nested braces')`
deriving DecidableEq, Repr

/-- `mode[0].lower()` looked up in `('l', 'u', 't')` -/
def modeLetter (mode : Str) : Except BuiltinErr CaseMode :=
  match mode with
  | [] => .error .emptyMode
  | c :: _ =>
    let l := lowerUC c
    if l = 'l' then .ok .l else if l = 'u' then .ok .u else if l = 't' then .ok .t
    else .error .incorrectMode

/-- `change.case$` with the string `s` and the mode string `mode` on the stack -/
def changeCaseBuiltin (o : CharOps) (s mode : Str) : Except BuiltinErr Str :=
  match modeLetter mode with
  | .error e => .error e
  | .ok m =>
    match changeCaseG o s m with
    | none => .error .tooDeep
    | some r => .ok r

end Pybtex.TeXU
