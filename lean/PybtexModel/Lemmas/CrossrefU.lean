/-
Helper lemmas for C14 over the Unicode containers: the loop of `Model/CrossrefU.lean` equals the
reference walk of `Spec/CrossrefU.lean`, for EVERY key normaliser and EVERY database value (no
well-formedness needed: the argument only uses that `entries[x]` depends on `norm x` alone).
-/
import PybtexModel.Model.CrossrefU
import PybtexModel.Spec.CrossrefU

namespace Pybtex.Uni
variable (norm : Str → Str)

theorem findCrossrefEntry_eq (bibData : Option UDb) (visited : List Str) (e : UEntry) :
    findCrossrefEntry norm bibData visited e =
      match bibData with
      | none => none
      | some db =>
        match CIDict.getItem norm e.fields xrefName with
        | none => none
        | some x =>
          if visited.contains (norm x) then none
          else (CIDict.getItem norm db x).map fun p => (p, norm x :: visited) := by
  unfold findCrossrefEntry
  cases bibData with
  | none => rfl
  | some db =>
    dsimp only
    cases hx : CIDict.getItem norm e.fields xrefName with
    | none => simp [CIDict.contains, dhas, CIDict.getItem] at hx ⊢
    | some x =>
      have : CIDict.contains norm e.fields xrefName = true := by
        simp only [CIDict.contains, dhas]; simp only [CIDict.getItem] at hx; simp [hx]
      simp only [this, Bool.not_true, Bool.false_eq_true, if_false]
      split
      · rfl
      · cases CIDict.getItem norm db x <;> rfl

theorem findFieldLoop_eq (bibData : Option UDb) (visited : List Str) (e : UEntry) (name : Str) :
    findFieldLoop norm bibData visited e name =
      match e.own norm name with
      | some v => some v
      | none =>
        match findCrossrefEntry norm bibData visited e with
        | none => none
        | some (p, visited') => findFieldLoop norm bibData visited' p name := by
  rw [findFieldLoop.eq_def]
  unfold UEntry.own
  cases CIDict.getItem norm e.fields name with
  | some v => rfl
  | none =>
    dsimp only
    cases findPersonField norm e name with
    | some v => rfl
    | none =>
      dsimp only
      split <;> simp_all

/-- one turn of the loop with the step written out -/
theorem findFieldLoop_eq' (db : UDb) (visited : List Str) (e : UEntry) (name : Str) :
    findFieldLoop norm (some db) visited e name =
      match e.own norm name with
      | some v => some v
      | none =>
        match CIDict.getItem norm e.fields xrefName with
        | none => none
        | some x =>
          if visited.contains (norm x) then none
          else
            match CIDict.getItem norm db x with
            | none => none
            | some p => findFieldLoop norm (some db) (norm x :: visited) p name := by
  rw [findFieldLoop_eq, findCrossrefEntry_eq]
  cases e.own norm name with
  | some v => rfl
  | none =>
    dsimp only
    cases CIDict.getItem norm e.fields xrefName with
    | none => rfl
    | some x =>
      dsimp only
      by_cases hv : visited.contains (norm x) = true
      · rw [if_pos hv, if_pos hv]
      · rw [if_neg hv, if_neg hv]
        cases CIDict.getItem norm db x <;> rfl

theorem findFieldLoop_noDb (V : List Str) (e : UEntry) (name : Str) :
    findFieldLoop norm none V e name = e.own norm name := by
  rw [findFieldLoop_eq, findCrossrefEntry_eq]
  cases e.own norm name <;> rfl

theorem getItem_congr {V : Type} (d : CIDict V) {x y : Str} (h : norm x = norm y) :
    CIDict.getItem norm d x = CIDict.getItem norm d y := by
  simp only [CIDict.getItem, h]

theorem findSome_walkU_succ (db : UDb) (n : Nat) (e : UEntry) (name : Str) :
    (walkU norm db (n + 1) e).findSome? (UEntry.own norm · name) =
      match e.own norm name with
      | some v => some v
      | none =>
        match parentU norm db e with
        | some p => (walkU norm db n p).findSome? (UEntry.own norm · name)
        | none => none := by
  simp only [walkU, List.findSome?_cons]
  cases e.own norm name with
  | some v => rfl
  | none =>
    dsimp only
    cases parentU norm db e <;> rfl

/-- every key in `S` names a database entry that does not define `name` and whose parent, if it
has one, is again named by a key in `S` -/
def ClosedNone (db : UDb) (name : Str) (S : List Str) : Prop :=
  ∀ k ∈ S, ∃ x q, k = norm x ∧ CIDict.getItem norm db x = some q ∧ q.own norm name = none ∧
    ∀ y, CIDict.getItem norm q.fields xrefName = some y → (CIDict.getItem norm db y).isSome = true → norm y ∈ S

theorem walkU_closed_none {db : UDb} {name : Str} {S : List Str} (hS : ClosedNone norm db name S) :
    ∀ (n : Nat) (x : Str) (q : UEntry), norm x ∈ S → CIDict.getItem norm db x = some q →
      (walkU norm db n q).findSome? (UEntry.own norm · name) = none := by
  intro n
  induction n with
  | zero => intro x q _ _; rfl
  | succ n ih =>
    intro x q hx hq
    obtain ⟨x', q', hxx, hq', hown, hnext⟩ := hS _ hx
    rw [getItem_congr norm db hxx, hq'] at hq
    cases hq
    rw [findSome_walkU_succ, hown]
    dsimp only
    unfold parentU
    cases hy : CIDict.getItem norm q.fields xrefName with
    | none => rfl
    | some y =>
      simp only [Option.bind_some]
      cases hp : CIDict.getItem norm db y with
      | none => rfl
      | some p => exact ih y p (hnext y hy (by simp [hp])) hp

def PathInv (db : UDb) (name : Str) (V : List Str) (e : UEntry) : Prop :=
  ∀ k ∈ V, ∃ x q, k = norm x ∧ CIDict.getItem norm db x = some q ∧
    (q = e ∨ (q.own norm name = none ∧
      ∀ y, CIDict.getItem norm q.fields xrefName = some y → (CIDict.getItem norm db y).isSome = true → norm y ∈ V))

theorem unvisited_nil {V : Type} (dict : List (Str × V)) : unvisited dict [] = dict.length := by
  induction dict with
  | nil => rfl
  | cons a r ih => simp [unvisited, ih]; omega

theorem findFieldLoop_walk (db : UDb) (name : Str) :
    ∀ (n : Nat) (V : List Str) (e : UEntry), PathInv norm db name V e →
      unvisited db.dict V + 1 ≤ n →
      findFieldLoop norm (some db) V e name = (walkU norm db n e).findSome? (UEntry.own norm · name) := by
  intro n
  induction n with
  | zero => intro V e _ h; omega
  | succ n ih =>
    intro V e hV hn
    rw [findFieldLoop_eq', findSome_walkU_succ]
    unfold parentU
    cases hown : e.own norm name with
    | some v => rfl
    | none =>
      dsimp only
      cases hx : CIDict.getItem norm e.fields xrefName with
      | none => rfl
      | some x =>
        simp only [Option.bind_some]
        by_cases hv : V.contains (norm x) = true
        · rw [if_pos hv]
          have hclosed : ClosedNone norm db name V := by
            intro k hk
            obtain ⟨x', q, hkx, hq, hor⟩ := hV k hk
            refine ⟨x', q, hkx, hq, ?_⟩
            rcases hor with rfl | hor
            · refine ⟨hown, ?_⟩
              intro y hy _
              rw [hx] at hy
              cases hy
              simpa using hv
            · exact hor
          cases hp : CIDict.getItem norm db x with
          | none => rfl
          | some p =>
            exact (walkU_closed_none norm hclosed n x p (by simpa using hv) hp).symm
        · rw [if_neg hv]
          cases hp : CIDict.getItem norm db x with
          | none => rfl
          | some p =>
            have hlt := unvisited_lt db.dict V (norm x) p hp (by simpa using hv)
            apply ih (norm x :: V) p ?_ (by omega)
            intro k hk
            rcases List.mem_cons.1 hk with rfl | hk
            · exact ⟨x, p, rfl, hp, Or.inl rfl⟩
            · obtain ⟨x', q, hkx, hq, hor⟩ := hV k hk
              refine ⟨x', q, hkx, hq, Or.inr ?_⟩
              rcases hor with rfl | ⟨h1, h2⟩
              · refine ⟨hown, ?_⟩
                intro y hy _
                rw [hx] at hy
                cases hy
                exact List.mem_cons_self
              · exact ⟨h1, fun y hy hs => List.mem_cons_of_mem _ (h2 y hy hs)⟩

/-- the loop of the code = the reference walk, for every bound from `len(db) + 1` on -/
theorem findFieldLoop_spec (db : UDb) (e : UEntry) (name : Str) (n : Nat) (hn : CIDict.len db + 1 ≤ n) :
    findFieldLoop norm (some db) [] e name = (walkU norm db n e).findSome? (UEntry.own norm · name) := by
  apply findFieldLoop_walk norm db name n [] e
  · intro k hk; cases hk
  · rw [unvisited_nil]; exact hn

/-- a visited set can only cut the lookup short (Unicode twin of `findField_visited_cut`) -/
theorem findFieldLoop_visited_cut (bibData : Option UDb) (V' : List Str) (e : UEntry) (name : Str) :
    ∀ V : List Str, (∀ k, V.contains k = true → V'.contains k = true) →
      ∀ v, findFieldLoop norm bibData V' e name = some v → findFieldLoop norm bibData V e name = some v := by
  fun_induction findFieldLoop norm bibData V' e name with
  | case1 V' e v0 h => intro V _ v hv; rw [findFieldLoop_eq]; simp_all [UEntry.own]
  | case2 V' e h1 v0 h2 => intro V _ v hv; rw [findFieldLoop_eq]; simp_all [UEntry.own]
  | case3 => intro V _ v hv; simp at hv
  | case4 V' e h1 h2 p V'' hstep ih =>
    intro V hsub v hv
    obtain ⟨db, x, rfl, hx, hvx, hp, rfl⟩ := findCrossrefEntry_some norm hstep
    have hVx : V.contains (norm x) = false := by
      cases h : V.contains (norm x) with
      | false => rfl
      | true => rw [hsub _ h] at hvx; cases hvx
    rw [findFieldLoop_eq']
    have hown : e.own norm name = none := by simp [UEntry.own, h1, h2]
    simp only [hown, hx, hVx, hp, Bool.false_eq_true, if_false]
    apply ih (norm x :: V) _ v hv
    intro k hk
    simp only [List.contains_cons, Bool.or_eq_true] at hk ⊢
    rcases hk with hk | hk
    · exact Or.inl hk
    · exact Or.inr (hsub k hk)

end Pybtex.Uni
