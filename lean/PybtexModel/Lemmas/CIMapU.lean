/-
Helper lemmas for C13: the two-table implementation model refines the reference ordered map.
-/
import PybtexModel.Spec.OrderedMapU
import PybtexModel.Lemmas.Basic
import PybtexModel.Lemmas.UniCase

namespace Pybtex.Uni
variable {V : Type} {norm : Str → Str}

/-- zip of the two tables: the abstraction function on raw tables. -/
def zipT (ks : List (Str × Str)) (ds : List (Str × V)) : OMap V :=
  List.zipWith (fun kk dv => (kk.1, kk.2, dv.2)) ks ds

@[simp] theorem zipT_nil_nil : zipT ([] : List (Str × Str)) ([] : List (Str × V)) = [] := rfl
@[simp] theorem zipT_cons (a : Str × Str) (ks) (b : Str × V) (ds) :
    zipT (a :: ks) (b :: ds) = (a.1, a.2, b.2) :: zipT ks ds := rfl

/-- lock step of the raw tables -/
def Lock (ks : List (Str × Str)) (ds : List (Str × V)) : Prop := ds.map Prod.fst = ks.map Prod.fst

theorem Lock.nil : Lock ([] : List (Str × Str)) ([] : List (Str × V)) := rfl

theorem lock_cons {a : Str × Str} {ks} {b : Str × V} {ds} :
    Lock (a :: ks) (b :: ds) ↔ b.1 = a.1 ∧ Lock ks ds := by
  simp [Lock]

theorem lock_nil_left {ds : List (Str × V)} : Lock [] ds ↔ ds = [] := by
  simp [Lock]

theorem lock_nil_right {ks : List (Str × Str)} : Lock ks ([] : List (Str × V)) ↔ ks = [] := by
  cases ks <;> simp [Lock]

theorem lock_length {ks : List (Str × Str)} {ds : List (Str × V)} (h : Lock ks ds) : ds.length = ks.length := by
  have := congrArg List.length h
  simpa using this

theorem zipT_map_fst {ks : List (Str × Str)} {ds : List (Str × V)} (h : Lock ks ds) :
    (zipT ks ds).map (·.1) = ks.map Prod.fst := by
  induction ks generalizing ds with
  | nil => simp [lock_nil_left.1 h]
  | cons a ks ih =>
    cases ds with
    | nil => simp [Lock] at h
    | cons b ds =>
      obtain ⟨_, h2⟩ := lock_cons.1 h
      simp [ih h2]

theorem zipT_keys {ks : List (Str × Str)} {ds : List (Str × V)} (h : Lock ks ds) :
    OMap.keys (zipT ks ds) = ks.map Prod.snd := by
  induction ks generalizing ds with
  | nil => simp [lock_nil_left.1 h, OMap.keys]
  | cons a ks ih =>
    cases ds with
    | nil => simp [Lock] at h
    | cons b ds =>
      obtain ⟨_, h2⟩ := lock_cons.1 h
      have := ih h2
      simp [OMap.keys] at this ⊢
      exact this

theorem zipT_length {ks : List (Str × Str)} {ds : List (Str × V)} (h : Lock ks ds) :
    (zipT ks ds).length = ds.length := by
  have := lock_length h
  simp [zipT, this]

/-! get -/
theorem zipT_get {ks : List (Str × Str)} {ds : List (Str × V)} (h : Lock ks ds) (k : Str) :
    dget ds (norm k) = OMap.get norm (zipT ks ds) k := by
  induction ks generalizing ds with
  | nil => simp [lock_nil_left.1 h, dget, OMap.get]
  | cons a ks ih =>
    cases ds with
    | nil => simp [Lock] at h
    | cons b ds =>
      obtain ⟨h1, h2⟩ := lock_cons.1 h
      simp only [dget, zipT_cons, OMap.get, h1]
      split
      · rfl
      · exact ih h2

theorem zipT_has_keys {ks : List (Str × Str)} {ds : List (Str × V)} (h : Lock ks ds) (l : Str) :
    dhas ks l = dhas ds l := by
  induction ks generalizing ds with
  | nil => simp [lock_nil_left.1 h, dhas, dget]
  | cons a ks ih =>
    cases ds with
    | nil => simp [Lock] at h
    | cons b ds =>
      obtain ⟨h1, h2⟩ := lock_cons.1 h
      have := ih h2
      simp only [dhas, dget, h1] at this ⊢
      split
      · rfl
      · exact this

/-! set -/
theorem lock_set {ks : List (Str × Str)} {ds : List (Str × V)} (h : Lock ks ds) (l k : Str) (v : V) :
    Lock (dset ks l k) (dset ds l v) := by
  induction ks generalizing ds with
  | nil => simp [lock_nil_left.1 h, dset, Lock]
  | cons a ks ih =>
    cases ds with
    | nil => simp [Lock] at h
    | cons b ds =>
      obtain ⟨h1, h2⟩ := lock_cons.1 h
      simp only [dset, h1]
      split
      · exact lock_cons.2 ⟨rfl, h2⟩
      · exact lock_cons.2 ⟨rfl, ih h2⟩

theorem zipT_set {ks : List (Str × Str)} {ds : List (Str × V)} (h : Lock ks ds) (k : Str) (v : V) :
    zipT (dset ks (norm k) k) (dset ds (norm k) v) = OMap.set norm (zipT ks ds) k v := by
  induction ks generalizing ds with
  | nil => simp [lock_nil_left.1 h, dset, OMap.set]
  | cons a ks ih =>
    cases ds with
    | nil => simp [Lock] at h
    | cons b ds =>
      obtain ⟨h1, h2⟩ := lock_cons.1 h
      simp only [dset, h1, zipT_cons, OMap.set]
      split
      · simp
      · simp [ih h2]

/-! del -/
theorem lock_del {ks : List (Str × Str)} {ds : List (Str × V)} (h : Lock ks ds) (l : Str) :
    Lock (ddel ks l) (ddel ds l) := by
  induction ks generalizing ds with
  | nil => simp [lock_nil_left.1 h, ddel, Lock]
  | cons a ks ih =>
    cases ds with
    | nil => simp [Lock] at h
    | cons b ds =>
      obtain ⟨h1, h2⟩ := lock_cons.1 h
      simp only [ddel, h1]
      split
      · exact h2
      · exact lock_cons.2 ⟨rfl, ih h2⟩

theorem zipT_del {ks : List (Str × Str)} {ds : List (Str × V)} (h : Lock ks ds) (k : Str) :
    zipT (ddel ks (norm k)) (ddel ds (norm k)) = OMap.del norm (zipT ks ds) k := by
  induction ks generalizing ds with
  | nil => simp [lock_nil_left.1 h, ddel, OMap.del]
  | cons a ks ih =>
    cases ds with
    | nil => simp [Lock] at h
    | cons b ds =>
      obtain ⟨h1, h2⟩ := lock_cons.1 h
      simp only [ddel, h1, zipT_cons, OMap.del]
      split
      · rfl
      · simp [ih h2]

end Pybtex.Uni

namespace Pybtex.Uni
variable {V : Type} {norm : Str → Str}

/-! ### key sets of `dset` / `ddel` -/

theorem dget_none_iff {α : Type} (ks : List (Str × α)) (l : Str) : dget ks l = none ↔ l ∉ ks.map Prod.fst := by
  induction ks with
  | nil => simp [dget]
  | cons a ks ih =>
    simp only [dget, List.map_cons, List.mem_cons, not_or]
    split
    · rename_i h; simp [h]
    · rename_i h
      rw [ih]
      constructor
      · intro h'; exact ⟨fun e => h e.symm, h'⟩
      · intro h'; exact h'.2

theorem dget_some_mem {α : Type} {ks : List (Str × α)} {l : Str} {x : α} (h : dget ks l = some x) : (l, x) ∈ ks := by
  induction ks with
  | nil => simp [dget] at h
  | cons a ks ih =>
    simp only [dget] at h
    split at h
    · rename_i he
      cases h
      rw [← he]; exact List.mem_cons_self ..
    · exact List.mem_cons_of_mem _ (ih h)

theorem dhas_iff_mem {α : Type} (ks : List (Str × α)) (l : Str) : dhas ks l = true ↔ l ∈ ks.map Prod.fst := by
  have := dget_none_iff ks l
  simp only [dhas]
  cases h : dget ks l with
  | none => simp [this.1 h]
  | some x =>
    simp only [Option.isSome_some, true_iff]
    apply Classical.byContradiction
    intro hn; rw [this.2 hn] at h; cases h

theorem dset_keys_of_mem {α : Type} (ks : List (Str × α)) (l : Str) (x : α) (h : l ∈ ks.map Prod.fst) :
    (dset ks l x).map Prod.fst = ks.map Prod.fst := by
  induction ks with
  | nil => simp at h
  | cons a ks ih =>
    simp only [dset]
    split
    · simp
    · rename_i hne
      simp only [List.map_cons, List.mem_cons] at h
      rcases h with h | h
      · exact absurd h.symm hne
      · simp [ih h]

theorem dset_of_not_mem {α : Type} (ks : List (Str × α)) (l : Str) (x : α) (h : l ∉ ks.map Prod.fst) :
    dset ks l x = ks ++ [(l, x)] := by
  induction ks with
  | nil => simp [dset]
  | cons a ks ih =>
    simp only [List.map_cons, List.mem_cons, not_or] at h
    simp only [dset]
    split
    · rename_i he; exact absurd he.symm h.1
    · simp [ih h.2]

theorem dset_mem {α : Type} {ks : List (Str × α)} {l : Str} {x : α} {e : Str × α} (h : e ∈ dset ks l x) :
    e ∈ ks ∨ e = (l, x) := by
  induction ks with
  | nil => simp [dset] at h; exact Or.inr h
  | cons a ks ih =>
    simp only [dset] at h
    split at h
    · rename_i he
      simp only [List.mem_cons] at h ⊢
      rcases h with h | h
      · right; rw [h, he]
      · left; right; exact h
    · simp only [List.mem_cons] at h ⊢
      rcases h with h | h
      · left; left; exact h
      · rcases ih h with h | h
        · left; right; exact h
        · right; exact h

theorem dset_nodup {α : Type} (ks : List (Str × α)) (l : Str) (x : α) (h : (ks.map Prod.fst).Nodup) :
    ((dset ks l x).map Prod.fst).Nodup := by
  by_cases hm : l ∈ ks.map Prod.fst
  · rw [dset_keys_of_mem ks l x hm]; exact h
  · rw [dset_of_not_mem ks l x hm]
    simp only [List.map_append, List.map_cons, List.map_nil]
    apply List.nodup_append.2
    refine ⟨h, by simp, ?_⟩
    intro a ha b hb
    simp at hb
    subst hb
    intro e; subst e; exact hm ha

theorem ddel_sublist {α : Type} (ks : List (Str × α)) (l : Str) : (ddel ks l).Sublist ks := by
  induction ks with
  | nil => simp [ddel]
  | cons a ks ih =>
    simp only [ddel]
    split
    · exact List.sublist_cons_self a ks
    · exact ih.cons_cons a

theorem ddel_nodup {α : Type} (ks : List (Str × α)) (l : Str) (h : (ks.map Prod.fst).Nodup) :
    ((ddel ks l).map Prod.fst).Nodup :=
  h.sublist ((ddel_sublist ks l).map Prod.fst)

theorem ddel_not_mem {α : Type} (ks : List (Str × α)) (l : Str) (h : (ks.map Prod.fst).Nodup) :
    l ∉ (ddel ks l).map Prod.fst := by
  induction ks with
  | nil => simp [ddel]
  | cons a ks ih =>
    simp only [List.map_cons, List.nodup_cons] at h
    simp only [ddel]
    split
    · rename_i he; rw [← he]; exact h.1
    · rename_i hne
      simp only [List.map_cons, List.mem_cons, not_or]
      exact ⟨fun e => hne e.symm, ih h.2⟩

theorem dget_ddel_ne {α : Type} (ks : List (Str × α)) (l l' : Str) (h : l' ≠ l) :
    dget (ddel ks l) l' = dget ks l' := by
  induction ks with
  | nil => simp [ddel]
  | cons a ks ih =>
    simp only [ddel]
    split
    · rename_i he
      simp only [dget]
      rw [if_neg]
      rw [he]; exact fun e => h e.symm
    · simp only [dget]
      split
      · rfl
      · exact ih

theorem dget_dset_ne {α : Type} (ks : List (Str × α)) (l l' : Str) (x : α) (h : l' ≠ l) :
    dget (dset ks l x) l' = dget ks l' := by
  induction ks with
  | nil => simp [dset, dget]; exact fun e => h e.symm
  | cons a ks ih =>
    simp only [dset]
    split
    · rename_i he
      simp only [dget]
      rw [if_neg, if_neg]
      · rw [he]; exact fun e => h e.symm
      · rw [he]; exact fun e => h e.symm
    · simp only [dget]
      split
      · rfl
      · exact ih

theorem dget_dset_same {α : Type} (ks : List (Str × α)) (l : Str) (x : α) :
    dget (dset ks l x) l = some x := by
  induction ks with
  | nil => simp [dset, dget]
  | cons a ks ih =>
    simp only [dset]
    split
    · rename_i he; simp [dget, he]
    · rename_i hne; simp [dget, hne, ih]

namespace CIDict

/-- The lock-step invariant of the code's two tables. -/
def Inv (norm : Str → Str) (d : CIDict V) : Prop :=
  Lock d.keys d.dict ∧ (d.keys.map Prod.fst).Nodup ∧ ∀ e ∈ d.keys, e.1 = norm e.2

/-- Abstraction function to the reference map. -/
def abs (d : CIDict V) : OMap V := zipT d.keys d.dict

theorem inv_empty : Inv norm (empty : CIDict V) := ⟨Lock.nil, by simp [empty], by simp [empty]⟩

theorem inv_setItem {d : CIDict V} (h : Inv norm d) (k : Str) (v : V) : Inv norm (setItem norm d k v) := by
  obtain ⟨h1, h2, h3⟩ := h
  refine ⟨lock_set h1 _ _ _, dset_nodup _ _ _ h2, ?_⟩
  intro e he
  rcases dset_mem he with he | he
  · exact h3 e he
  · subst he; rfl

theorem abs_setItem {d : CIDict V} (h : Inv norm d) (k : Str) (v : V) : abs (setItem norm d k v) = OMap.set norm (abs d) k v :=
  zipT_set h.1 k v

theorem getItem_abs {d : CIDict V} (h : Inv norm d) (k : Str) : getItem norm d k = OMap.get norm (abs d) k :=
  zipT_get h.1 k

theorem contains_abs {d : CIDict V} (h : Inv norm d) (k : Str) : contains norm d k = OMap.has norm (abs d) k := by
  simp [contains, OMap.has, dhas, ← getItem_abs h k, getItem]

theorem len_abs {d : CIDict V} (h : Inv norm d) : len d = (abs d).length := by
  simp [len, abs, zipT_length h.1]

theorem iter_abs {d : CIDict V} (h : Inv norm d) : iter d = OMap.keys (abs d) := by
  simp [iter, abs, zipT_keys h.1]

theorem delItem_spec {d : CIDict V} (h : Inv norm d) (k : Str) :
    Inv norm (delItem norm d k).1 ∧
    (if OMap.has norm (abs d) k then abs (delItem norm d k).1 = OMap.del norm (abs d) k ∧ (delItem norm d k).2 = true
     else (delItem norm d k).1 = d ∧ (delItem norm d k).2 = false) := by
  obtain ⟨h1, h2, h3⟩ := h
  have hc : dhas d.dict (norm k) = OMap.has norm (abs d) k := contains_abs ⟨h1, h2, h3⟩ k
  have hk : dhas d.keys (norm k) = dhas d.dict (norm k) := zipT_has_keys h1 _
  unfold delItem
  rw [hk]
  by_cases hh : OMap.has norm (abs d) k
  · rw [hc, hh]
    simp only [if_true]
    refine ⟨⟨lock_del h1 _, ddel_nodup _ _ h2, fun e he => h3 e ((ddel_sublist _ _).subset he)⟩, ?_, by trivial⟩
    exact zipT_del h1 k
  · rw [hc]
    simp only [hh, Bool.false_eq_true, if_false]
    exact ⟨⟨h1, h2, h3⟩, by trivial, by trivial⟩

/-! items -/
theorem dget_append_of_not_mem {α : Type} (pd ds : List (Str × α)) (l : Str) (h : l ∉ pd.map Prod.fst) :
    dget (pd ++ ds) l = dget ds l := by
  induction pd with
  | nil => rfl
  | cons a pd ih =>
    simp only [List.map_cons, List.mem_cons, not_or] at h
    simp only [List.cons_append, dget]
    rw [if_neg (fun e => h.1 e.symm)]
    exact ih h.2

theorem itemsAux_spec (pd : List (Str × V)) (ks : List (Str × Str)) (ds : List (Str × V)) (keys0 : List (Str × Str))
    (hl : Lock ks ds) (hn : (ks.map Prod.fst).Nodup) (hlow : ∀ e ∈ ks, e.1 = norm e.2)
    (hd : ∀ l ∈ pd.map Prod.fst, l ∉ ks.map Prod.fst) :
    itemsAux norm ⟨pd ++ ds, keys0⟩ (ks.map Prod.snd) = some (OMap.items (zipT ks ds)) := by
  induction ks generalizing ds pd with
  | nil => simp [lock_nil_left.1 hl, itemsAux, OMap.items]
  | cons a ks ih =>
    cases ds with
    | nil => simp [Lock] at hl
    | cons b ds =>
      obtain ⟨hb, hl2⟩ := lock_cons.1 hl
      simp only [List.map_cons, List.nodup_cons] at hn
      have ha : a.1 = norm a.2 := hlow a (List.mem_cons_self ..)
      have hnot : a.1 ∉ pd.map Prod.fst := fun hm => hd _ hm (by simp)
      have hget : getItem norm (⟨pd ++ b :: ds, keys0⟩ : CIDict V) a.2 = some b.2 := by
        simp only [getItem, ← ha]
        rw [dget_append_of_not_mem _ _ _ hnot]
        simp [dget, hb]
      simp only [List.map_cons, itemsAux, hget]
      have := ih (pd ++ [b]) ds hl2 hn.2 (fun e he => hlow e (List.mem_cons_of_mem _ he)) (by
        intro l hl'
        simp only [List.map_append, List.map_cons, List.map_nil, List.mem_append, List.mem_singleton] at hl'
        rcases hl' with hl' | hl'
        · intro hm; exact hd l hl' (by simp [hm])
        · rw [hl', hb]; exact hn.1)
      simp only [List.append_assoc, List.singleton_append] at this
      rw [this]
      simp [OMap.items]

theorem items_abs {d : CIDict V} (h : Inv norm d) : items norm d = some (OMap.items (abs d)) := by
  obtain ⟨h1, h2, h3⟩ := h
  have := itemsAux_spec (V := V) [] d.keys d.dict d.keys h1 h2 h3 (by simp)
  simpa [items, iter, abs] using this

end CIDict
end Pybtex.Uni

namespace Pybtex.Uni
variable {V : Type} {norm : Str → Str}
namespace CIDict

theorem abs_wf {d : CIDict V} (h : Inv norm d) : OMap.WF norm (abs d) := by
  obtain ⟨h1, h2, h3⟩ := h
  refine ⟨?_, by rw [abs, zipT_map_fst h1]; exact h2⟩
  have : ∀ (ks : List (Str × Str)) (ds : List (Str × V)), (∀ e ∈ ks, e.1 = norm e.2) →
      ∀ e ∈ zipT ks ds, e.1 = norm e.2.1 := by
    intro ks
    induction ks with
    | nil => intro ds _ e he; simp [zipT] at he
    | cons a ks ih =>
      intro ds hk e he
      cases ds with
      | nil => simp [zipT] at he
      | cons b ds =>
        simp only [zipT_cons, List.mem_cons] at he
        rcases he with he | he
        · subst he; exact hk a (List.mem_cons_self ..)
        · exact ih ds (fun e he => hk e (List.mem_cons_of_mem _ he)) e he
  exact this d.keys d.dict h3

theorem popItem_spec {d : CIDict V} (h : Inv norm d) :
    Inv norm (popItem norm d).1 ∧ abs (popItem norm d).1 = (OMap.step norm (abs d) .popItem).1 ∧
    (match (popItem norm d).2 with | some p => Res.pair p.1 p.2 | none => Res.keyError)
      = (OMap.step norm (abs d) .popItem).2 := by
  have hit := iter_abs h
  have hwf := abs_wf h
  unfold popItem
  cases hm : abs d with
  | nil =>
    simp only [hm, OMap.keys, List.map_nil] at hit
    simp [hit, OMap.step, hm, h]
  | cons e r =>
    obtain ⟨l, sp, v⟩ := e
    simp only [hm, OMap.keys, List.map_cons] at hit
    have hl : l = norm sp := hwf.1 (l, sp, v) (by simp [hm])
    have hget : getItem norm d sp = some v := by
      rw [getItem_abs h, hm]; simp [OMap.get, hl]
    have hhas : OMap.has norm (abs d) sp = true := by
      simp [OMap.has, hm, OMap.get, hl]
    have hdel := delItem_spec h sp
    rw [hhas] at hdel
    simp only [if_true] at hdel
    obtain ⟨hi, ha, hb⟩ := hdel
    simp only [hit, hget, hb, if_true, OMap.step]
    refine ⟨hi, ?_, (by trivial)⟩
    rw [ha, hm]; simp [OMap.del, hl]

theorem update_spec (qs : List (Str × V)) {d : CIDict V} (h : Inv norm d) :
    Inv norm (update norm d qs) ∧ abs (update norm d qs) = OMap.update norm (abs d) qs := by
  induction qs generalizing d with
  | nil => exact ⟨h, (by trivial)⟩
  | cons q qs ih =>
    have := ih (inv_setItem h q.1 q.2)
    simp only [update, List.foldl_cons, OMap.update] at this ⊢
    rw [abs_setItem h] at this
    exact this

theorem ofPairs_spec (ps : List (Str × V)) :
    Inv norm (ofPairs norm ps) ∧ abs (ofPairs norm ps) = OMap.ofPairs norm ps := by
  have := update_spec (norm := norm) ps (inv_empty (V := V))
  simpa [ofPairs, OMap.ofPairs, OMap.update, abs, empty] using this

theorem foldl_dset_append {α : Type} (ps acc : List (Str × α))
    (hn : (ps.map Prod.fst).Nodup) (hd : ∀ l ∈ ps.map Prod.fst, l ∉ acc.map Prod.fst) :
    ps.foldl (fun d p => dset d p.1 p.2) acc = acc ++ ps := by
  induction ps generalizing acc with
  | nil => simp
  | cons p ps ih =>
    simp only [List.map_cons, List.nodup_cons] at hn
    simp only [List.foldl_cons]
    rw [dset_of_not_mem _ _ _ (hd p.1 (by simp))]
    rw [ih _ hn.2]
    · simp
    · intro l hl
      simp only [List.map_append, List.map_cons, List.map_nil, List.mem_append, List.mem_singleton, not_or]
      exact ⟨hd l (by simp [hl]), fun e => hn.1 (e ▸ hl)⟩

theorem dofPairs_nodup {α : Type} (ps : List (Str × α)) (hn : (ps.map Prod.fst).Nodup) : dofPairs ps = ps := by
  have := foldl_dset_append ps [] hn (by simp)
  simpa [dofPairs] using this

end CIDict

namespace OMap

theorem set_of_not_mem (m : OMap V) (k : Str) (v : V) (h : norm k ∉ m.map (·.1)) :
    set norm m k v = m ++ [(norm k, k, v)] := by
  induction m with
  | nil => simp [set]
  | cons e m ih =>
    obtain ⟨l, sp, w⟩ := e
    simp only [List.map_cons, List.mem_cons, not_or] at h
    simp only [set]
    rw [if_neg (fun e => h.1 e.symm)]
    simp [ih h.2]

theorem foldl_set_fresh (qs : List (Str × V)) (m : OMap V)
    (hn : (qs.map fun q => norm q.1).Nodup) (hd : ∀ q ∈ qs, norm q.1 ∉ m.map (·.1)) :
    qs.foldl (fun m p => set norm m p.1 p.2) m = m ++ qs.map fun q => (norm q.1, q.1, q.2) := by
  induction qs generalizing m with
  | nil => simp
  | cons q qs ih =>
    simp only [List.map_cons, List.nodup_cons] at hn
    simp only [List.foldl_cons]
    rw [set_of_not_mem _ _ _ (hd q (by simp))]
    rw [ih _ hn.2]
    · simp
    · intro q' hq'
      simp only [List.map_append, List.map_cons, List.map_nil, List.mem_append, List.mem_singleton, not_or]
      refine ⟨hd q' (by simp [hq']), fun e => hn.1 ?_⟩
      rw [← e]; exact List.mem_map.2 ⟨q', hq', (by trivial)⟩

end OMap

namespace CIDict

/-- writing pairwise-distinct fresh keys into the empty map appends them in order -/
theorem ofPairs_lowered_items (hn : ∀ k, norm (norm k) = norm k) {m : OMap V} (hwf : OMap.WF norm m) :
    OMap.ofPairs norm ((OMap.items m).map fun p => (norm p.1, p.2)) = OMap.lowered m := by
  rw [OMap.ofPairs]
  rw [OMap.foldl_set_fresh _ [] (by
      have : (((OMap.items m).map fun p => (norm p.1, p.2)).map fun q => norm q.1) = m.map (·.1) := by
        simp only [OMap.items, List.map_map]
        apply List.map_congr_left
        intro e he
        simp [hwf.1 e he, hn]
      rw [this]; exact hwf.2) (by simp)]
  simp only [List.nil_append, OMap.lowered, OMap.items, List.map_map]
  apply List.map_congr_left
  intro e he
  simp [hwf.1 e he, hn]

theorem lowered_spec (hn : ∀ k, norm (norm k) = norm k) {d : CIDict V} (h : Inv norm d) :
    ∃ d', lowered norm d = some d' ∧ Inv norm d' ∧ abs d' = OMap.lowered (abs d) := by
  have hwf := abs_wf h
  simp only [lowered, items_abs h, Option.map_some]
  refine ⟨_, (by trivial), ?_⟩
  have hsp := ofPairs_spec (norm := norm) ((OMap.items (abs d)).map fun p => (norm p.1, p.2))
  exact ⟨hsp.1, by rw [hsp.2, ofPairs_lowered_items hn hwf]⟩

theorem clearAux_spec (n : Nat) {d : CIDict V} (h : Inv norm d) (hlen : (abs d).length < n) :
    Inv norm (clearAux norm n d) ∧ abs (clearAux norm n d) = [] := by
  induction n generalizing d with
  | zero => omega
  | succ n ih =>
    obtain ⟨hi, ha, hr⟩ := popItem_spec h
    unfold clearAux
    cases hm : abs d with
    | nil =>
      rw [hm] at hr ha
      simp only [OMap.step] at hr ha
      cases hp : (popItem norm d).2 with
      | none => simp only; exact ⟨hi, ha⟩
      | some p => rw [hp] at hr; simp at hr
    | cons e r =>
      obtain ⟨l, sp, v⟩ := e
      rw [hm] at hr ha
      simp only [OMap.step] at hr ha
      cases hp : (popItem norm d).2 with
      | none => rw [hp] at hr; simp at hr
      | some p =>
        simp only
        apply ih hi
        rw [ha]; rw [hm] at hlen; simp at hlen; omega

theorem clear_spec {d : CIDict V} (h : Inv norm d) : Inv norm (clear norm d) ∧ abs (clear norm d) = [] := by
  apply clearAux_spec _ h
  have := zipT_length h.1
  have := lock_length h.1
  simp only [abs]
  omega

theorem values_abs {d : CIDict V} (h : Inv norm d) : values norm d = some (OMap.values (abs d)) := by
  simp [values, items_abs h, OMap.items, OMap.values]

/-- One step of the implementation model refines one step of the reference map. -/
theorem step_refines (hn : ∀ k, norm (norm k) = norm k) {d : CIDict V} (h : Inv norm d) (op : Op V) :
    Inv norm (step norm d op).1 ∧ abs (step norm d op).1 = (OMap.step norm (abs d) op).1 ∧
      (step norm d op).2 = (OMap.step norm (abs d) op).2 := by
  cases op with
  | set k v => exact ⟨inv_setItem h k v, abs_setItem h k v, (by trivial)⟩
  | get k => simp only [step, OMap.step, getItem_abs h]; exact ⟨h, (by trivial), (by trivial)⟩
  | del k =>
    have := delItem_spec h k
    simp only [step, OMap.step]
    by_cases hh : OMap.has norm (abs d) k
    · simp only [hh, if_true] at this ⊢
      exact ⟨this.1, this.2.1, by simp [this.2.2]⟩
    · simp only [hh, Bool.false_eq_true, if_false] at this ⊢
      exact ⟨this.1, by rw [this.2.1], by simp [this.2.2]⟩
  | contains k => simp only [step, OMap.step, contains_abs h]; exact ⟨h, (by trivial), (by trivial)⟩
  | len => simp only [step, OMap.step, len_abs h]; exact ⟨h, (by trivial), (by trivial)⟩
  | iter => simp only [step, OMap.step, iter_abs h]; exact ⟨h, (by trivial), (by trivial)⟩
  | items => simp only [step, OMap.step, items_abs h]; exact ⟨h, (by trivial), (by trivial)⟩
  | keys => simp only [step, OMap.step, keysView, iter_abs h]; exact ⟨h, (by trivial), (by trivial)⟩
  | values => simp only [step, OMap.step, values_abs h]; exact ⟨h, (by trivial), (by trivial)⟩
  | truth => simp only [step, OMap.step, truth, len_abs h]; exact ⟨h, (by trivial), (by trivial)⟩
  | getD k dflt => simp only [step, OMap.step, getD, getItem_abs h]; exact ⟨h, (by trivial), (by trivial)⟩
  | setDefault k dflt =>
    simp only [step, OMap.step, setDefault, getItem_abs h]
    cases OMap.get norm (abs d) k with
    | some v => exact ⟨h, (by trivial), (by trivial)⟩
    | none => exact ⟨inv_setItem h k dflt, abs_setItem h k dflt, (by trivial)⟩
  | pop k =>
    have hd := delItem_spec h k
    simp only [step, OMap.step, pop, getItem_abs h]
    cases hg : OMap.get norm (abs d) k with
    | none => exact ⟨h, (by trivial), (by trivial)⟩
    | some v =>
      have hh : OMap.has norm (abs d) k = true := by simp [OMap.has, hg]
      simp only [hh, if_true] at hd
      simp only [hd.2.2, if_true]
      exact ⟨hd.1, hd.2.1, (by trivial)⟩
  | popD k dflt =>
    have hd := delItem_spec h k
    simp only [step, OMap.step, pop, getItem_abs h]
    cases hg : OMap.get norm (abs d) k with
    | none => exact ⟨h, (by trivial), (by trivial)⟩
    | some v =>
      have hh : OMap.has norm (abs d) k = true := by simp [OMap.has, hg]
      simp only [hh, if_true] at hd
      simp only [hd.2.2, if_true]
      exact ⟨hd.1, hd.2.1, (by trivial)⟩
  | popItem => exact popItem_spec h
  | update ps => have := update_spec ps h; exact ⟨this.1, this.2, (by trivial)⟩
  | lower =>
    obtain ⟨d', h1, h2, h3⟩ := lowered_spec hn h
    simp only [step, OMap.step, h1]
    exact ⟨h2, h3, (by trivial)⟩
  | clear => have := clear_spec h; exact ⟨this.1, this.2, (by trivial)⟩
  | modify k f =>
    simp only [step, OMap.step, modify, getItem_abs h]
    cases OMap.get norm (abs d) k with
    | some v => exact ⟨inv_setItem h k (f v), abs_setItem h k (f v), (by trivial)⟩
    | none => exact ⟨h, (by trivial), (by trivial)⟩

theorem run_refines (hn : ∀ k, norm (norm k) = norm k) {d : CIDict V} (h : Inv norm d) (ops : List (Op V)) :
    Inv norm (run norm d ops).1 ∧ abs (run norm d ops).1 = (OMap.run norm (abs d) ops).1 ∧
      (run norm d ops).2 = (OMap.run norm (abs d) ops).2 := by
  induction ops generalizing d with
  | nil => exact ⟨h, (by trivial), (by trivial)⟩
  | cons op ops ih =>
    obtain ⟨h1, h2, h3⟩ := step_refines hn h op
    obtain ⟨i1, i2, i3⟩ := ih h1
    simp only [run, OMap.run]
    rw [← h2, ← h3]
    exact ⟨i1, i2, by rw [i3]⟩

/-! ### The defaulting variant: under the invariant every mix-in method that goes through the
defaulting `__getitem__` meets a present key, so it coincides with the plain one. -/
namespace DD
variable {fac : V}

theorem getItem_of_get {d : CIDict V} {k : Str} {v : V} (hg : CIDict.getItem norm d k = some v) :
    DD.getItem norm fac d k = v := by
  simp [DD.getItem, hg]

theorem items_eq {d : CIDict V} (h : Inv norm d) : CIDict.items norm d = some (DD.items norm fac d) := by
  have hi := items_abs h
  have hall : ∀ (ks : List Str) (its : List (Str × V)), itemsAux norm d ks = some its →
      ks.map (fun k => (k, DD.getItem norm fac d k)) = its := by
    intro ks
    induction ks with
    | nil => intro its hh; simp [itemsAux] at hh; simp [hh]
    | cons k r ih =>
      intro its hh
      simp only [itemsAux] at hh
      cases hg : CIDict.getItem norm d k with
      | none => rw [hg] at hh; simp at hh
      | some v =>
        rw [hg] at hh
        cases hr : itemsAux norm d r with
        | none => rw [hr] at hh; simp at hh
        | some its' =>
          rw [hr] at hh
          simp only [Option.map_some, Option.some.injEq] at hh
          rw [← hh, List.map_cons, ih its' hr, getItem_of_get hg]
  rw [hi]
  congr 1
  exact (hall _ _ (by simpa [CIDict.items] using hi)).symm

theorem popItem_eq {d : CIDict V} (h : Inv norm d) : DD.popItem norm fac d = CIDict.popItem norm d := by
  have hit := iter_abs h
  have hwf := abs_wf h
  unfold DD.popItem CIDict.popItem
  cases hm : abs d with
  | nil =>
    simp only [hm, OMap.keys, List.map_nil] at hit
    simp [hit]
  | cons e r =>
    obtain ⟨l, sp, v⟩ := e
    simp only [hm, OMap.keys, List.map_cons] at hit
    have hl : l = norm sp := hwf.1 (l, sp, v) (by simp [hm])
    have hget : CIDict.getItem norm d sp = some v := by
      rw [getItem_abs h, hm]; simp [OMap.get, hl]
    simp only [hit, hget, getItem_of_get hget]

theorem clearAux_eq (n : Nat) {d : CIDict V} (h : Inv norm d) :
    DD.clearAux norm fac n d = CIDict.clearAux norm n d := by
  induction n generalizing d with
  | zero => rfl
  | succ n ih =>
    unfold DD.clearAux CIDict.clearAux
    rw [popItem_eq h]
    cases hp : (CIDict.popItem norm d).2 with
    | none => rfl
    | some p => exact ih (popItem_spec h).1

theorem lowered_eq {d : CIDict V} (h : Inv norm d) :
    CIDict.lowered norm d = some (DD.lowered norm fac d) := by
  simp [CIDict.lowered, items_eq (fac := fac) h, DD.lowered, ofPairs]

/-- One step of the defaulting model refines one step of the defaulting reference map. -/
theorem step_refines (hn : ∀ k, norm (norm k) = norm k) {d : CIDict V} (h : Inv norm d) (op : Op V) :
    Inv norm (DD.step norm fac d op).1 ∧ abs (DD.step norm fac d op).1 = (OMap.stepD norm fac (abs d) op).1 ∧
      (DD.step norm fac d op).2 = (OMap.stepD norm fac (abs d) op).2 := by
  have plain := CIDict.step_refines hn h op
  cases op with
  | set k v => exact plain
  | del k => exact plain
  | contains k => exact plain
  | len => exact plain
  | iter => exact plain
  | keys => exact plain
  | truth => exact plain
  | update ps => exact plain
  | get k =>
    simp only [DD.step, OMap.stepD, DD.getItem, getItem_abs h]
    exact ⟨h, (by trivial), (by trivial)⟩
  | modify k f =>
    simp only [DD.step, OMap.stepD, DD.getItem, getItem_abs h]
    exact ⟨inv_setItem h k _, abs_setItem h k _, (by trivial)⟩
  | items =>
    simp only [CIDict.step, items_eq (fac := fac) h] at plain
    exact plain
  | values =>
    simp only [CIDict.step, CIDict.values, items_eq (fac := fac) h, Option.map_some] at plain
    exact plain
  | getD k dflt =>
    simp only [DD.step, OMap.stepD, OMap.step, DD.getD, DD.getItem, contains_abs h, getItem_abs h, OMap.has]
    refine ⟨h, (by trivial), ?_⟩
    cases OMap.get norm (abs d) k <;> simp
  | setDefault k dflt =>
    simp only [DD.step, OMap.stepD, OMap.step, DD.setDefault, contains_abs h, OMap.has]
    cases hg : OMap.get norm (abs d) k with
    | some v =>
      simp only [Option.isSome_some, if_true, DD.getItem, getItem_abs h, hg, Option.getD_some]
      exact ⟨h, (by trivial), (by trivial)⟩
    | none =>
      simp only [Option.isSome_none, Bool.false_eq_true, if_false]
      refine ⟨inv_setItem h k dflt, abs_setItem h k dflt, ?_⟩
      simp [DD.getItem, CIDict.getItem, setItem, dget_dset_same]
  | pop k =>
    have hd := delItem_spec h k
    simp only [DD.step, OMap.stepD, OMap.step, DD.pop, contains_abs h]
    cases hg : OMap.get norm (abs d) k with
    | none =>
      have hh : OMap.has norm (abs d) k = false := by simp [OMap.has, hg]
      simp only [hh, Bool.false_eq_true, if_false]
      exact ⟨h, (by trivial), (by trivial)⟩
    | some v =>
      have hh : OMap.has norm (abs d) k = true := by simp [OMap.has, hg]
      simp only [hh, if_true] at hd ⊢
      simp only [hd.2.2, if_true, DD.getItem, getItem_abs h, hg, Option.getD_some]
      exact ⟨hd.1, hd.2.1, (by trivial)⟩
  | popD k dflt =>
    have hd := delItem_spec h k
    simp only [DD.step, OMap.stepD, OMap.step, DD.pop, contains_abs h]
    cases hg : OMap.get norm (abs d) k with
    | none =>
      have hh : OMap.has norm (abs d) k = false := by simp [OMap.has, hg]
      simp only [hh, Bool.false_eq_true, if_false]
      exact ⟨h, (by trivial), (by trivial)⟩
    | some v =>
      have hh : OMap.has norm (abs d) k = true := by simp [OMap.has, hg]
      simp only [hh, if_true] at hd ⊢
      simp only [hd.2.2, if_true, DD.getItem, getItem_abs h, hg, Option.getD_some]
      exact ⟨hd.1, hd.2.1, (by trivial)⟩
  | popItem =>
    simp only [DD.step, popItem_eq h]
    exact plain
  | lower =>
    simp only [CIDict.step, lowered_eq (fac := fac) h] at plain
    exact plain
  | clear =>
    simp only [DD.step, DD.clear, clearAux_eq _ h]
    exact plain

theorem run_refines (hn : ∀ k, norm (norm k) = norm k) {d : CIDict V} (h : Inv norm d) (ops : List (Op V)) :
    Inv norm (DD.run norm fac d ops).1 ∧ abs (DD.run norm fac d ops).1 = (OMap.runD norm fac (abs d) ops).1 ∧
      (DD.run norm fac d ops).2 = (OMap.runD norm fac (abs d) ops).2 := by
  induction ops generalizing d with
  | nil => exact ⟨h, (by trivial), (by trivial)⟩
  | cons op ops ih =>
    obtain ⟨h1, h2, h3⟩ := step_refines (fac := fac) hn h op
    obtain ⟨i1, i2, i3⟩ := ih h1
    simp only [DD.run, OMap.runD]
    rw [← h2, ← h3]
    exact ⟨i1, i2, by rw [i3]⟩

end DD

end CIDict
end Pybtex.Uni

/-! ### The set -/
namespace Pybtex.Uni

theorem OSet.add_eq_dset (s : OSet) (k : Str) : OSet.add norm s k = dset s (norm k) k := by
  induction s with
  | nil => rfl
  | cons e s ih => obtain ⟨l, sp⟩ := e; simp only [OSet.add, dset, ih]

theorem OSet.discard_eq_ddel (s : OSet) (k : Str) : OSet.discard norm s k = ddel s (norm k) := by
  induction s with
  | nil => rfl
  | cons e s ih => obtain ⟨l, sp⟩ := e; simp only [OSet.discard, ddel, ih]

theorem OSet.canonical_eq_dget (s : OSet) (k : Str) : OSet.canonical norm s k = dget s (norm k) := by
  induction s with
  | nil => rfl
  | cons e s ih => obtain ⟨l, sp⟩ := e; simp only [OSet.canonical, dget, ih]

theorem OSet.has_iff (s : OSet) (k : Str) : OSet.has norm s k = true ↔ norm k ∈ s.map Prod.fst := by
  simp [OSet.has, List.any_eq_true]

theorem ddel_keys {α : Type} (ks : List (Str × α)) (l : Str) :
    (ddel ks l).map Prod.fst = (ks.map Prod.fst).erase l := by
  induction ks with
  | nil => rfl
  | cons a ks ih =>
    simp only [ddel, List.map_cons]
    by_cases h : a.1 = l
    · simp [h]
    · rw [if_neg h, List.erase_cons_tail (by simpa using h)]
      simp [ih]

namespace CISet

def Inv (norm : Str → Str) (s : CISet) : Prop :=
  s.set = s.keys.map Prod.fst ∧ (s.keys.map Prod.fst).Nodup ∧ ∀ e ∈ s.keys, e.1 = norm e.2

def abs (s : CISet) : OSet := s.keys

theorem inv_empty : Inv norm empty := ⟨rfl, by simp [empty], by simp [empty]⟩

theorem add_spec {s : CISet} (h : Inv norm s) (k : Str) : Inv norm (add norm s k) ∧ abs (add norm s k) = OSet.add norm (abs s) k := by
  obtain ⟨h1, h2, h3⟩ := h
  refine ⟨⟨?_, dset_nodup _ _ _ h2, ?_⟩, by simp [abs, add, OSet.add_eq_dset]⟩
  · simp only [add]
    by_cases hm : norm k ∈ s.keys.map Prod.fst
    · rw [dset_keys_of_mem _ _ _ hm, h1]
      simp [hm]
    · rw [dset_of_not_mem _ _ _ hm, h1]
      have : (List.map Prod.fst s.keys).contains (norm k) = false := by
        rw [Bool.eq_false_iff]; simpa using hm
      rw [this]; simp
  · intro e he
    rcases dset_mem he with he | he
    · exact h3 e he
    · subst he; rfl

theorem discard_spec {s : CISet} (h : Inv norm s) (k : Str) :
    Inv norm (discard norm s k) ∧ abs (discard norm s k) = OSet.discard norm (abs s) k := by
  obtain ⟨h1, h2, h3⟩ := h
  refine ⟨⟨?_, ddel_nodup _ _ h2, fun e he => h3 e ((ddel_sublist _ _).subset he)⟩,
    by simp [abs, discard, OSet.discard_eq_ddel]⟩
  simp [discard, ddel_keys, h1]

theorem contains_abs {s : CISet} (h : Inv norm s) (k : Str) : contains norm s k = OSet.has norm (abs s) k := by
  rw [Bool.eq_iff_iff, OSet.has_iff]
  simp [contains, h.1, abs]

theorem canonical_abs (s : CISet) (k : Str) : canonical norm s k = OSet.canonical norm (abs s) k := by
  simp [canonical, abs, OSet.canonical_eq_dget]

theorem len_abs {s : CISet} (h : Inv norm s) : len s = (abs s).length := by
  simp [len, h.1, abs]

theorem foldl_add_fresh (ls acc : List Str) (hn : (acc ++ ls).Nodup) (hl : ∀ l ∈ ls, norm l = l) :
    ls.foldl (add norm) ⟨acc, acc.map fun l => (l, l)⟩ = ⟨acc ++ ls, (acc ++ ls).map fun l => (l, l)⟩ := by
  induction ls generalizing acc with
  | nil => simp
  | cons l ls ih =>
    have hl0 : norm l = l := hl l (by simp)
    have hnot : l ∉ acc := by
      intro hm
      have := List.nodup_append.1 hn
      exact this.2.2 l hm l (by simp) rfl
    have hstep : add norm ⟨acc, acc.map fun l => (l, l)⟩ l = ⟨acc ++ [l], (acc ++ [l]).map fun l => (l, l)⟩ := by
      have hc : ¬ acc.contains l = true := by simpa using hnot
      have hk : l ∉ (acc.map fun l => (l, l)).map Prod.fst := by simpa using hnot
      simp only [add, hl0, hc]
      rw [dset_of_not_mem _ _ _ hk]
      simp
    simp only [List.foldl_cons, hstep]
    rw [ih (acc ++ [l]) (by simpa using hn) (fun x hx => hl x (by simp [hx]))]
    simp

theorem mem_set_fixed (hn : ∀ k, norm (norm k) = norm k) {s : CISet} (h : Inv norm s) :
    ∀ l ∈ s.set, norm l = l := by
  obtain ⟨h1, _, h3⟩ := h
  intro l hl
  rw [h1] at hl
  obtain ⟨e, he, rfl⟩ := List.mem_map.1 hl
  rw [h3 e he, hn]

theorem lowered_spec (hn : ∀ k, norm (norm k) = norm k) {s : CISet} (h : Inv norm s) :
    Inv norm (lowered norm s) ∧ abs (lowered norm s) = OSet.lowered (abs s) := by
  have hfix := mem_set_fixed hn h
  obtain ⟨h1, h2, h3⟩ := h
  have := foldl_add_fresh (norm := norm) s.set [] (by simpa [h1] using h2) hfix
  simp only [List.map_nil, List.nil_append] at this
  have hlow : lowered norm s = ⟨s.set, s.set.map fun l => (l, l)⟩ := by
    simpa [lowered, ofList, empty] using this
  rw [hlow]
  have hid : (s.set.map fun l => (l, l)).map Prod.fst = s.set := by
    rw [List.map_map]; simp [Function.comp_def]
  refine ⟨⟨hid.symm, by rw [hid, h1]; exact h2, ?_⟩, ?_⟩
  · intro e he
    obtain ⟨l, hl, rfl⟩ := List.mem_map.1 he
    exact (hfix l hl).symm
  · simp [abs, OSet.lowered, h1]

theorem foldl_add_spec (l : List Str) {s : CISet} (h : Inv norm s) :
    Inv norm (l.foldl (add norm) s) ∧ abs (l.foldl (add norm) s) = l.foldl (OSet.add norm) (abs s) := by
  induction l generalizing s with
  | nil => exact ⟨h, rfl⟩
  | cons k l ih =>
    have h1 := add_spec h k
    have h2 := ih h1.1
    simp only [List.foldl_cons]
    rw [← h1.2]
    exact h2

theorem foldl_discard_spec (l : List Str) {s : CISet} (h : Inv norm s) :
    Inv norm (l.foldl (discard norm) s) ∧ abs (l.foldl (discard norm) s) = l.foldl (OSet.discard norm) (abs s) := by
  induction l generalizing s with
  | nil => exact ⟨h, rfl⟩
  | cons k l ih =>
    have h1 := discard_spec h k
    have h2 := ih h1.1
    simp only [List.foldl_cons]
    rw [← h1.2]
    exact h2

theorem ddel_eq_filter {α : Type} (ks : List (Str × α)) (c : Str) (h : (ks.map Prod.fst).Nodup) :
    ddel ks c = ks.filter fun e => e.1 ≠ c := by
  induction ks with
  | nil => rfl
  | cons a ks ih =>
    simp only [List.map_cons, List.nodup_cons] at h
    simp only [ddel]
    by_cases hc : a.1 = c
    · simp only [hc, if_true, ne_eq, not_true_eq_false, decide_false, Bool.false_eq_true, not_false_eq_true,
        List.filter_cons_of_neg]
      symm
      apply List.filter_eq_self.2
      intro e he
      simp only [decide_not, Bool.not_eq_eq_eq_not, Bool.not_true, decide_eq_false_iff_not]
      intro hec
      exact h.1 (hc ▸ hec ▸ List.mem_map.2 ⟨e, he, rfl⟩)
    · rw [if_neg hc, List.filter_cons_of_pos (by simpa using hc), ih h.2]

theorem abs_nil_iff {s : CISet} (h : Inv norm s) : abs s = [] ↔ s.set = [] := by
  rw [h.1, abs]
  cases s.keys <;> simp

theorem pop_spec (hn : ∀ k, norm (norm k) = norm k) {s : CISet} (h : Inv norm s) (c : Str) :
    Inv norm (pop norm s c).1 ∧ abs (pop norm s c).1 = (OSet.step norm (abs s) (.pop c)).1 ∧
      (pop norm s c).2 = (OSet.step norm (abs s) (.pop c)).2 := by
  have hmem : OSet.members (abs s) = s.set := by rw [h.1]; rfl
  unfold pop
  simp only [OSet.step, hmem]
  cases hs : s.set with
  | nil =>
    have : abs s = [] := (abs_nil_iff h).2 hs
    simp only [this]
    exact ⟨h, (by trivial), (by trivial)⟩
  | cons x t =>
    have hne : abs s ≠ [] := fun e => by rw [(abs_nil_iff h).1 e] at hs; cases hs
    cases ha : abs s with
    | nil => exact absurd ha hne
    | cons e r =>
      simp only
      by_cases hc : (x :: t).contains c = true
      · simp only [hc, if_true]
        have hfix : norm c = c := mem_set_fixed hn h c (by rw [hs]; simpa using hc)
        have hd := discard_spec h c
        refine ⟨hd.1, ?_, (by trivial)⟩
        rw [hd.2, OSet.discard_eq_ddel, hfix, ha.symm]
        exact ddel_eq_filter _ _ h.2.1
      · simp only [hc, Bool.false_eq_true, if_false]
        exact ⟨h, ha, (by trivial)⟩

theorem clearAux_spec (hn : ∀ k, norm (norm k) = norm k) (n : Nat) {s : CISet} (h : Inv norm s)
    (hlen : s.set.length ≤ n) : Inv norm (clearAux norm n s) ∧ (clearAux norm n s).set = [] := by
  induction n generalizing s with
  | zero =>
    have : s.set = [] := List.eq_nil_of_length_eq_zero (by omega)
    exact ⟨h, this⟩
  | succ n ih =>
    unfold clearAux
    cases hs : s.set with
    | nil => exact ⟨h, hs⟩
    | cons c t =>
      simp only
      have hfix : norm c = c := mem_set_fixed hn h c (by rw [hs]; simp)
      apply ih (discard_spec h c).1
      simp only [discard, hfix, hs, List.erase_cons_head]
      rw [hs] at hlen
      simp at hlen
      omega

theorem clear_spec (hn : ∀ k, norm (norm k) = norm k) {s : CISet} (h : Inv norm s) :
    Inv norm (clear norm s) ∧ abs (clear norm s) = [] := by
  have := clearAux_spec hn s.set.length h (Nat.le_refl _)
  exact ⟨this.1, (abs_nil_iff this.1).2 this.2⟩

theorem step_refines (hn : ∀ k, norm (norm k) = norm k) {s : CISet} (h : Inv norm s) (op : SOp) :
    Inv norm (step norm s op).1 ∧ abs (step norm s op).1 = (OSet.step norm (abs s) op).1 ∧
      (step norm s op).2 = (OSet.step norm (abs s) op).2 := by
  cases op with
  | add k => have := add_spec h k; exact ⟨this.1, this.2, rfl⟩
  | discard k => have := discard_spec h k; exact ⟨this.1, this.2, rfl⟩
  | remove k =>
    have := discard_spec h k
    simp only [step, OSet.step, remove, contains_abs h]
    by_cases hh : OSet.has norm (abs s) k
    · simp only [hh, if_true]; exact ⟨this.1, this.2, by trivial⟩
    · simp only [hh, Bool.false_eq_true, if_false]; exact ⟨h, by trivial, by trivial⟩
  | contains k => simp only [step, OSet.step, contains_abs h]; exact ⟨h, by trivial, by trivial⟩
  | canonical k => simp only [step, OSet.step, canonical_abs]; exact ⟨h, by trivial, by trivial⟩
  | lower => have := lowered_spec hn h; exact ⟨this.1, this.2, rfl⟩
  | len => simp only [step, OSet.step, len_abs h]; exact ⟨h, by trivial, by trivial⟩
  | iter =>
    simp only [step, OSet.step, iter, OSet.members]
    refine ⟨h, by trivial, ?_⟩
    rw [h.1]; rfl
  | truth => simp only [step, OSet.step, len_abs h]; exact ⟨h, by trivial, by trivial⟩
  | pop c => exact pop_spec hn h c
  | clear => have := clear_spec hn h; exact ⟨this.1, this.2, rfl⟩
  | ior l => have := foldl_add_spec l h; exact ⟨this.1, this.2, rfl⟩
  | isub l => have := foldl_discard_spec l h; exact ⟨this.1, this.2, rfl⟩

theorem run_refines (hn : ∀ k, norm (norm k) = norm k) {s : CISet} (h : Inv norm s) (ops : List SOp) :
    Inv norm (run norm s ops).1 ∧ abs (run norm s ops).1 = (OSet.run norm (abs s) ops).1 ∧
      (run norm s ops).2 = (OSet.run norm (abs s) ops).2 := by
  induction ops generalizing s with
  | nil => exact ⟨h, rfl, rfl⟩
  | cons op ops ih =>
    obtain ⟨h1, h2, h3⟩ := step_refines hn h op
    obtain ⟨i1, i2, i3⟩ := ih h1
    simp only [run, OSet.run]
    rw [← h2, ← h3]
    exact ⟨i1, i2, by rw [i3]⟩

theorem ofList_spec (l : List Str) :
    Inv norm (ofList norm l) ∧ abs (ofList norm l) = l.foldl (OSet.add norm) [] :=
  foldl_add_spec l inv_empty

end CISet
end Pybtex.Uni
