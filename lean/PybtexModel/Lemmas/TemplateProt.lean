/-
C07 — helper lemmas for `C07_protected_case_pipeline`: the protected characters of every printed
field value survive, as protected characters, in the value of the whole template.
Same induction as `eval_coverage` (Lemmas/Template.lean), with `protChars ∘ sem []` in the place of `toStr`.
-/
import PybtexModel.Lemmas.Template
import PybtexModel.Spec.PyStyleProt

namespace Pybtex.Tmpl
open Pybtex Pybtex.RT Pybtex.Tmpl.Spec

/-- protected characters of a rich text -/
def pc (r : RT) : List Atom := protChars (sem [] r)

theorem protChars_append (a b : Flat) : protChars (a ++ b) = protChars a ++ protChars b := by
  simp [protChars, protAtoms_append]

theorem isProt_append (m st : List Markup) : Flat.isProt (m ++ st) = (Flat.isProt m || Flat.isProt st) := by
  simp [Flat.isProt]

theorem protChars_push {m : List Markup} (hm : Flat.isProt m = false) (s : Flat) :
    protChars (Flat.push m s) = protChars s := by
  induction s with
  | nil => rfl
  | cons x s ih =>
    have h1 : Flat.push m (x :: s) = [(x.1, m ++ x.2)] ++ Flat.push m s := by simp [Flat.push]
    have h2 : (x :: s : Flat) = [x] ++ s := rfl
    rw [h1, h2, protChars_append, protChars_append, ih]
    congr 1
    simp only [protChars, protAtoms, List.filter_cons, isProt_append, hm, Bool.false_or, List.filter_nil]
    split <;> rfl

theorem pcL_flatten (l : List RT) : protChars (semL [] l) = (l.map pc).flatten := by
  induction l with
  | nil => rfl
  | cons p l ih => simp only [semL, protChars_append, ih, List.map_cons, List.flatten_cons, pc]

theorem pc_mk {k : Kind} (hk : k ≠ .prot) (ps : List RT) : pc (mk k ps) = (ps.map pc).flatten := by
  show protChars (sem [] (mk k ps)) = _
  rw [sem_mk]
  simp only [sem, List.nil_append]
  rw [semL_ctx, protChars_push (markup_not_prot hk), pcL_flatten]

theorem pc_infix_mk {k : Kind} (hk : k ≠ .prot) {p : RT} {ps : List RT} (h : p ∈ ps) : pc p <:+: pc (mk k ps) := by
  rw [pc_mk hk]
  exact List.infix_of_mem_flatten (List.mem_map.2 ⟨p, h, rfl⟩)

theorem text_ne_prot : Kind.text ≠ Kind.prot := by intro h; cases h

theorem pc_infix_join (sep : RT) {p : RT} {ps : List RT} (h : p ∈ ps) : pc p <:+: pc (RT.join sep ps) :=
  pc_infix_mk text_ne_prot (mem_joinedList_of_mem sep h)

theorem pc_nil_of_falsy {p : RT} (h : truthy p = false) : pc p = [] := by
  have hl : len p = 0 := by simpa [truthy] using h
  show protChars (sem [] p) = []
  rw [sem_nil_of_len _ _ hl]; rfl

theorem pc_infix_joinParts (sep sep2 lastSep : RT) {p : RT} {parts : List RT} (h : p ∈ parts) :
    pc p <:+: pc (joinParts sep sep2 lastSep parts) := by
  by_cases ht : truthy p = true
  · have hp : p ∈ parts.filter truthy := List.mem_filter.2 ⟨h, ht⟩
    unfold joinParts
    generalize parts.filter truthy = ps at hp
    simp only
    split
    · exact pc_infix_mk text_ne_prot hp
    · split
      · exact pc_infix_join _ hp
      · rcases mem_dropLast_or_getLast! hp with h1 | h1
        · exact (pc_infix_join (mk .text [sep]) h1).trans
            (pc_infix_join (mk .text [lastSep]) (p := RT.join (mk .text [sep]) ps.dropLast) (by simp))
        · rw [h1]; exact pc_infix_join _ (by simp)
  · rw [pc_nil_of_falsy (by simpa using ht)]; exact List.nil_infix

theorem pc_infix_togetherParts (lt : Bool) {p : RT} {parts : List RT} (h : p ∈ parts) :
    pc p <:+: pc (togetherParts lt parts) := by
  by_cases ht : truthy p = true
  · have hp : p ∈ parts.filter truthy := List.mem_filter.2 ⟨h, ht⟩
    unfold togetherParts
    generalize parts.filter truthy = ps at hp
    simp only
    split
    · cases hp
    · rename_i p0 rest
      split
      · exact pc_infix_join _ hp
      · rename_i hlen
        rcases mem_dropLast_or_getLast! hp with h1 | h1
        · have hrest : rest ≠ [] := by intro h0; subst h0; simp at hlen
          have hd : (p0 :: rest).dropLast = p0 :: rest.dropLast := by
            cases rest with
            | nil => exact absurd rfl hrest
            | cons y r => rfl
          rw [hd] at h1
          rcases List.mem_cons.1 h1 with rfl | h1
          · exact pc_infix_mk text_ne_prot (by simp)
          · exact (pc_infix_join space h1).trans (pc_infix_mk text_ne_prot (by simp))
        · rw [h1]; exact pc_infix_mk text_ne_prot (by simp)
  · rw [pc_nil_of_falsy (by simpa using ht)]; exact List.nil_infix

theorem pc_sentenceText (cf cap ap : Bool) (sep : RT) (parts : List RT) :
    pc (sentenceText cf cap ap sep parts) = pc (joinParts sep sep sep parts) := by
  show protChars (sem [] _) = protChars (sem [] _)
  unfold protChars
  rw [protAtoms_sentenceText]

/-- the value of the field occurrence `o` is defined and its protected characters survive in `r` -/
def PCovOK (ctx : Ctx) (o : Occ) (r : RT) : Prop :=
  ∃ val, fieldValue ctx o = some val ∧ ProtCovers (sem [] val) (sem [] r)

theorem PCovOK.of_infix {ctx : Ctx} {o : Occ} {p r : RT} (h : PCovOK ctx o p) (hpr : pc p <:+: pc r) :
    PCovOK ctx o r := by
  obtain ⟨val, h1, h2⟩ := h
  exact ⟨val, h1, List.IsInfix.trans h2 hpr⟩

theorem eval_protCoverage (ctx : Ctx) : ∀ fuel,
    (∀ t r, eval fuel ctx t = .ok r → ∀ o ∈ printed fuel ctx t, PCovOK ctx o r) ∧
    (∀ ts rs, evalList fuel ctx ts = .ok rs → ∀ o ∈ printedL fuel ctx ts, ∃ r ∈ rs, PCovOK ctx o r) ∧
    (∀ ts r, evalFirst fuel ctx ts = .ok r → ∀ o ∈ printedF fuel ctx ts, PCovOK ctx o r) := by
  intro fuel
  induction fuel with
  | zero => refine ⟨?_, ?_, ?_⟩ <;> intro t r h <;> simp [eval, evalList, evalFirst] at h
  | succ n ih =>
    obtain ⟨ih1, ih2, ih3⟩ := ih
    refine ⟨?_, ?_, ?_⟩
    · intro t r h o ho
      cases t with
      | lit x => simp [printed] at ho
      | raw s => simp [printed] at ho
      | join s s2 ls cs =>
        simp only [eval] at h
        split at h
        · cases h
        · rename_i parts hp
          simp only [Except.ok.injEq] at h; subst h
          obtain ⟨p, hpm, hc⟩ := ih2 cs parts hp o (by simpa [printed] using ho)
          exact hc.of_infix (pc_infix_joinParts _ _ _ hpm)
      | together lt cs =>
        simp only [eval] at h
        split at h
        · cases h
        · rename_i parts hp
          simp only [Except.ok.injEq] at h; subst h
          obtain ⟨p, hpm, hc⟩ := ih2 cs parts hp o (by simpa [printed] using ho)
          exact hc.of_infix (pc_infix_togetherParts _ hpm)
      | sentence cf cap ap sep cs =>
        rw [eval_sentence] at h
        split at h
        · cases h
        · rename_i parts hp
          simp only [Except.ok.injEq] at h; subst h
          simp only [printed, List.mem_map] at ho
          obtain ⟨o', ho', rfl⟩ := ho
          obtain ⟨p, hpm, val, hv, hc⟩ := ih2 cs parts hp o' ho'
          refine ⟨val, by simpa [fieldValue] using hv, ?_⟩
          show pc val <:+: pc (sentenceText cf cap ap sep parts)
          rw [pc_sentenceText]
          exact List.IsInfix.trans hc (pc_infix_joinParts _ _ _ hpm)
      | field name fn raw =>
        simp only [printed, List.mem_singleton] at ho; subst ho
        simp only [eval] at h
        split at h
        · cases h
        · rename_i v hv
          split at h
          · rename_i hraw
            simp only [Except.ok.injEq] at h; subst h
            exact ⟨_, by simp [fieldValue, hv, hraw], List.infix_refl _⟩
          · rename_i hraw
            split at h
            · cases h
            · rename_i x hx
              simp only [Except.ok.injEq] at h; subst h
              exact ⟨_, by simp [fieldValue, hv, hraw, hx], List.infix_refl _⟩
      | names role s s2 ls =>
        simp only [eval] at h
        split at h
        · cases h
        · rename_i r' ts hf
          split at h
          · cases h
          · rename_i parts hp
            simp only [Except.ok.injEq] at h; subst h
            simp only [printed, hf] at ho
            obtain ⟨p, hpm, hc⟩ := ih2 ts parts hp o ho
            exact hc.of_infix (pc_infix_joinParts _ _ _ hpm)
      | optional cs =>
        simp only [eval] at h
        split at h
        · rename_i f hf; simp [printed, hf] at ho
        · rename_i e hne hf; simp [printed, hf] at ho
        · rename_i parts hp
          simp only [Except.ok.injEq] at h; subst h
          simp only [printed, hp] at ho
          obtain ⟨p, hpm, hc⟩ := ih2 cs parts hp o ho
          exact hc.of_infix (pc_infix_mk text_ne_prot hpm)
      | firstOf cs =>
        simp only [eval] at h
        exact ih3 cs r h o (by simpa [printed] using ho)
      | tag name cs =>
        simp only [eval] at h
        split at h
        · cases h
        · rename_i parts hp
          simp only [Except.ok.injEq] at h; subst h
          obtain ⟨p, hpm, hc⟩ := ih2 cs parts hp o (by simpa [printed] using ho)
          exact hc.of_infix (pc_infix_mk (by intro h; cases h) hpm)
      | href url ext cs =>
        rw [eval_href] at h
        split at h
        · cases h
        · split at h
          · cases h
          · rename_i parts hp
            simp only [Except.ok.injEq] at h; subst h
            obtain ⟨p, hpm, hc⟩ := ih2 cs parts hp o (by simpa [printed] using ho)
            exact hc.of_infix (pc_infix_mk (by intro h; cases h) hpm)
      | namePart before tie abbr cs =>
        rw [eval_namePart] at h
        split at h
        · cases h
        · rename_i children hp
          simp only [Except.ok.injEq] at h; subst h
          cases abbr with
          | true => simp [printed] at ho
          | false =>
            simp only [printed, Bool.false_eq_true, if_false] at ho
            obtain ⟨p, hpm, hc⟩ := ih2 cs children hp o ho
            have hin := pc_infix_togetherParts true hpm
            refine hc.of_infix (hin.trans ?_)
            simp only [namePartText, Bool.false_eq_true, if_false]
            split
            · rename_i hfalsy
              rw [pc_nil_of_falsy (by simpa using hfalsy)]; exact List.nil_infix
            · split
              · exact pc_infix_mk text_ne_prot (by simp)
              · exact pc_infix_mk text_ne_prot (by simp)
    · intro ts rs h o ho
      cases ts with
      | nil => simp [printedL] at ho
      | cons t ts =>
        simp only [evalList] at h
        split at h
        · cases h
        · rename_i r hr
          split at h
          · cases h
          · rename_i rs' hrs
            simp only [Except.ok.injEq] at h; subst h
            simp only [printedL, List.mem_append] at ho
            rcases ho with ho | ho
            · exact ⟨r, by simp, ih1 t r hr o ho⟩
            · obtain ⟨p, hpm, hc⟩ := ih2 ts rs' hrs o ho
              exact ⟨p, List.mem_cons_of_mem _ hpm, hc⟩
    · intro ts r h o ho
      cases ts with
      | nil => simp [printedF] at ho
      | cons t ts =>
        simp only [evalFirst] at h
        split at h
        · cases h
        · rename_i r' hr
          simp only [printedF, hr] at ho
          split at h
          · rename_i htr
            simp only [Except.ok.injEq] at h; subst h
            rw [if_pos htr] at ho
            exact ih1 t _ hr o ho
          · rename_i htr
            rw [if_neg htr] at ho
            exact ih3 ts r h o ho

/-- the protected atoms of the value of a non-raw `field` occurrence are those of the brace
structure of the field's value as the codec decodes it -/
theorem fieldValue_protAtoms {ctx : Ctx} {o : Occ} {val : RT} (h : fieldValue ctx o = some val) (hr : o.raw = false) :
    ∃ v, ctx.entry.findField o.name ctx.db = some v ∧
      protAtoms (sem [] val) = protAtoms (flatLatex 0 (decodeOf ctx.decode v)) := by
  unfold fieldValue at h
  split at h
  · cases h
  · rename_i v hv
    refine ⟨v, hv, ?_⟩
    rw [if_neg (by simp [hr])] at h
    split at h
    · cases h
    · rename_i x hx
      simp only [Option.some.injEq] at h; subst h
      rw [← sem_fromLatex hx]
      cases o.fn with
      | none => rfl
      | dashify => exact protAtoms_dashify x
      | lower => exact protAtoms_lowerT x
      | capitalize => exact protAtoms_capitalize x

end Pybtex.Tmpl

/-! ### missing required field: the converse of `formatEntries_missing` -/

namespace Pybtex.Tmpl
open Pybtex Pybtex.RT Pybtex.Tmpl.Spec

theorem formatEntries_missing_conv (db : BibData) (items : Str → Option Item) (label : Str) (e : PEntry)
    (post : List (Str × PEntry)) (it : Item) (f : Str) (hi : items e.key = some it)
    (he : eval evalFuel { entry := e.toEntry, db := some db, personTemplates := it.personTemplates, decode := it.decode }
      it.template = .error (.missing f)) :
    ∀ pre : List (Str × PEntry),
      (∀ p ∈ pre, ∃ it r, items p.2.key = some it ∧
        eval evalFuel { entry := p.2.toEntry, db := some db, personTemplates := it.personTemplates, decode := it.decode }
          it.template = .ok r) →
      formatEntries db items (pre ++ (label, e) :: post) = .error (.missingField f e.key) := by
  intro pre
  induction pre with
  | nil =>
    intro _
    simp only [List.nil_append, formatEntries, hi, he]
  | cons p pre ih =>
    intro hpre
    obtain ⟨l0, e0⟩ := p
    obtain ⟨it0, r0, hi0, he0⟩ := hpre (l0, e0) (by simp)
    have := ih (fun q hq => hpre q (List.mem_cons_of_mem _ hq))
    simp only [List.cons_append, formatEntries, hi0, he0, this]

end Pybtex.Tmpl
