/-
Loop-free programs of the BST interpreter model: a decidable syntactic predicate (`loopFree`), an
explicit fuel bound computed from the program (`fuelBound`), and the lemmas behind
`C03_loop_free_terminates` (Props/C03y.lean).

The predicate follows a body element by element and keeps the list `known` of the values the
elements just before the current one are known to have pushed (literals, function literals,
quoted names; any executed name resets it).  It accepts
* literals, function literals (pushed, not executed) and quoted names,
* names that are unbound or bound to an object that executes no code,
* names bound to a `FUNCTION` whose body is accepted one level further down (depth `d`: the rank of
  the call graph, so the reachable call graph is acyclic),
* `if$` only where the two elements just before it are pushes (so the two values it pops are known
  from the text), a function literal's body / the `FUNCTION` behind a quoted name being accepted one
  level further down,
* `call.type$` where every entry type of the database that has been read, and `default.type`, is
  unbound or bound to an object that runs no code or to a `FUNCTION` accepted one level further down,
and rejects `while$` and `if$` applied to values that come from elsewhere.

The bound: an element of a body gets one unit less than the body, so a body needs one unit more
than its most expensive element; a call needs two units more than the body, `if$` six more than the
more expensive of its two operands, `call.type$` five more than the most expensive entry type.
-/
import PybtexModel.Props.C03x

namespace Pybtex.Interp
open Pybtex.BstSem Pybtex.Props

/-- what executing a name does, as far as termination is concerned -/
inductive Kind where
  | plain                          -- unbound, or an object that runs no code
  | prim (b : Builtin)
  | fn (body : List BTok)

def kindOf : Option VarObj → Kind
  | some (.func b) => .fn b
  | some (.builtin b) => .prim b
  | _ => .plain

def kindFn (vars : CIDict VarObj) : Str → Kind := fun n => kindOf (vars.getItem n)

/-- an object that may be executed without knowing the stack (by `if$` through a quoted name, by
`call.type$`): `sub` accepts the body that runs; none of `if$` / `while$` / `call.type$` -/
def okKind (sub : List BTok → Bool) : Kind → Bool
  | .fn body => sub body
  | .prim b => !b.executes
  | .plain => true

def kcost (subc : List BTok → Nat) : Kind → Nat
  | .fn body => subc body
  | _ => 0

/-- a value that `if$` may execute -/
def okVal (K : Str → Kind) (sub : List BTok → Bool) : Val → Bool
  | .fn body => sub body
  | .ref m => okKind sub (K m)
  | _ => true

/-- `T`: the names `call.type$` may execute (entry types of the database, `default.type`) -/
def okName (K : Str → Kind) (T : List Str) (sub : List BTok → Bool) (known : List Val) (n : Str) : Bool :=
  match K n with
  | .plain => true
  | .fn body => sub body
  | .prim b =>
    if b = .if_ then
      match known with
      | v1 :: v2 :: _ => okVal K sub v1 && okVal K sub v2
      | _ => false
    else if b = .callType then T.all fun ty => okKind sub (K ty)
    else !b.executes

/-- one level: `sub` is the check for the bodies that are called / executed by `if$` -/
def okList (K : Str → Kind) (T : List Str) (sub : List BTok → Bool) : List Val → List BTok → Bool
  | _, [] => true
  | known, .int v :: rest => okList K T sub (.int v :: known) rest
  | known, .str v :: rest => okList K T sub (.str v :: known) rest
  | known, .fn b :: rest => okList K T sub (.fn b :: known) rest
  | known, .quoted n :: rest => okList K T sub (.ref n :: known) rest
  | known, .name n :: rest => okName K T sub known n && okList K T sub [] rest

/-- accepted with call depth at most `d` -/
def okAt (K : Str → Kind) (T : List Str) : Nat → List BTok → Bool
  | 0 => okList K T (fun _ => false) []
  | d + 1 => okList K T (okAt K T d) []

def costVal (K : Str → Kind) (subc : List BTok → Nat) : Val → Nat
  | .fn body => subc body
  | .ref m => kcost subc (K m)
  | _ => 0

/-- the most expensive of the objects `call.type$` may execute -/
def maxCost (K : Str → Kind) (subc : List BTok → Nat) : List Str → Nat
  | [] => 0
  | ty :: r => max (kcost subc (K ty)) (maxCost K subc r)

def needName (K : Str → Kind) (T : List Str) (subc : List BTok → Nat) (known : List Val) (n : Str) : Nat :=
  match K n with
  | .plain => 3
  | .fn body => subc body + 2
  | .prim b =>
    if b = .if_ then
      match known with
      | v1 :: v2 :: _ => max (costVal K subc v1) (costVal K subc v2) + 6
      | _ => 3
    else if b = .callType then maxCost K subc T + 5
    else 3

def costList (K : Str → Kind) (T : List Str) (subc : List BTok → Nat) : List Val → List BTok → Nat
  | _, [] => 1
  | known, .int v :: rest => costList K T subc (.int v :: known) rest + 1
  | known, .str v :: rest => costList K T subc (.str v :: known) rest + 1
  | known, .fn b :: rest => costList K T subc (.fn b :: known) rest + 1
  | known, .quoted n :: rest => costList K T subc (.ref n :: known) rest + 1
  | known, .name n :: rest => max (needName K T subc known n) (costList K T subc [] rest) + 1

theorem costList_pos (K : Str → Kind) (T : List Str) (subc : List BTok → Nat) (known : List Val) (body : List BTok) :
    1 ≤ costList K T subc known body := by
  cases body with
  | nil => simp only [costList]; omega
  | cons t ts => cases t <;> simp only [costList] <;> omega

def costAt (K : Str → Kind) (T : List Str) : Nat → List BTok → Nat
  | 0 => costList K T (fun _ => 0) []
  | d + 1 => costList K T (costAt K T d) []

/-- the names `call.type$` may execute in a state with database `db`: `default.type` and the type
of every entry -/
def typesOf (db : Option BibData) : List Str :=
  "default.type".toList :: (match db with | some db => db.entries.dict.map (·.2.type) | none => [])

/-- **the predicate**: with the variable table and the database of `s`, `body` reaches no `while$`,
applies `if$` only to two values pushed just before it, `call.type$` only where every entry type
is harmless, and its call graph has depth at most `d` -/
def loopFree (d : Nat) (s : St) (body : List BTok) : Bool := okAt (kindFn s.vars) (typesOf s.db) d body

/-- **the fuel bound**, computed from the program text, the function bodies in the variable table
and the entry types of the database -/
def fuelBound (d : Nat) (s : St) (body : List BTok) : Nat := costAt (kindFn s.vars) (typesOf s.db) d body

/-! ### lemmas -/

theorem kindFn_persist {v v' : CIDict VarObj} (h : VarsPersist v v') : kindFn v' = kindFn v := by
  funext n
  simp only [kindFn]
  rcases h n with h | ⟨a, b, h1, h2⟩ | ⟨a, b, h1, h2⟩
  · rw [h]
  · rw [h1, h2]; rfl
  · rw [h1, h2]; rfl

theorem pop_cons {s : St} {v : Val} {r : List Val} (h : s.stack = v :: r) :
    pop s = .ok (v, { s with stack := r }) := by
  simp only [pop, h]

/-- the entry types `call.type$` can meet in a state with this database are in `T` -/
def TypesIn (T : List Str) (db : Option BibData) : Prop :=
  "default.type".toList ∈ T ∧ ∀ d, db = some d → ∀ k e, d.entries.getItem k = some e → e.type ∈ T

theorem dget_mem' {V : Type} : ∀ {l : List (Str × V)} {k : Str} {v : V}, dget l k = some v → (k, v) ∈ l
  | [], _, _, h => by cases h
  | (k', v') :: r, k, v, h => by
    simp only [dget] at h
    split at h
    · rename_i hk; cases h; rw [hk]; exact List.mem_cons_self
    · exact List.mem_cons_of_mem _ (dget_mem' h)

theorem typesIn_typesOf (db : Option BibData) : TypesIn (typesOf db) db := by
  refine ⟨List.mem_cons_self, ?_⟩
  intro d hd k e he
  subst hd
  simp only [typesOf]
  refine List.mem_cons_of_mem _ ?_
  have := dget_mem' (show dget d.entries.dict (lower k) = some e from he)
  exact List.mem_map.2 ⟨_, this, rfl⟩

theorem curEntry_type {T : List Str} {s : St} (hT : TypesIn T s.db) {k : Str} {e : Pybtex.Entry} {db : BibData}
    (h : curEntry s = .ok (k, e, db)) : e.type ∈ T := by
  unfold curEntry at h
  split at h
  · rename_i k' db' hc hdb
    split at h
    · rename_i e' he
      cases h
      exact hT.2 _ hdb _ _ he
    · cases h
  · cases h

theorem le_maxCost (K : Str → Kind) (subc : List BTok → Nat) : ∀ (T : List Str) (ty : Str), ty ∈ T →
    kcost subc (K ty) ≤ maxCost K subc T
  | [], _, h => by cases h
  | t :: r, ty, h => by
    simp only [maxCost]
    rcases List.mem_cons.1 h with h | h
    · subst h; omega
    · have := le_maxCost K subc r ty h; omega

section level
variable (K : Str → Kind) (T : List Str) (sub : List BTok → Bool) (subc : List BTok → Nat)

/-- the hypothesis of one level: bodies accepted by `sub` finish within `subc` -/
def LevelHyp : Prop :=
  ∀ (body : List BTok) (s : St) (F : Nat), kindFn s.vars = K → TypesIn T s.db → sub body = true → subc body ≤ F →
    Finished (execBody F body s)

theorem obj_ok_finished (H : LevelHyp K T sub subc) (o : VarObj) (s : St) (F : Nat) (hK : kindFn s.vars = K)
    (hT : TypesIn T s.db) (hok : okKind sub (kindOf (some o)) = true) (hF : kcost subc (kindOf (some o)) + 2 ≤ F) :
    Finished (execObj F o s) := by
  obtain ⟨m, rfl⟩ : ∃ m', F = m' + 2 := ⟨F - 2, by omega⟩
  cases o with
  | func body =>
    simp only [kindOf, okKind, kcost] at hok hF
    simp only [execObj]
    exact H body s (m + 1) hK hT hok (by omega)
  | builtin b =>
    simp only [kindOf, okKind] at hok
    exact obj_finished m _ s (by simpa [VarObj.plain] using hok)
  | _ => exact obj_finished m _ s rfl

theorem val_finished (H : LevelHyp K T sub subc) (v : Val) (s : St) (F : Nat) (hK : kindFn s.vars = K)
    (hT : TypesIn T s.db) (hok : okVal K sub v = true) (hF : costVal K subc v + 3 ≤ F) : Finished (execVal F v s) := by
  obtain ⟨m, rfl⟩ : ∃ m, F = m + 1 := ⟨F - 1, by omega⟩
  cases v with
  | fn body =>
    simp only [execVal]
    simp only [okVal] at hok
    simp only [costVal] at hF
    exact H body s m hK hT hok (by omega)
  | ref x =>
    simp only [execVal]
    have hKx : K x = kindOf (s.vars.getItem x) := by rw [← hK]; rfl
    simp only [okVal, costVal, hKx] at hok hF
    cases hv : s.vars.getItem x with
    | none => intro h; cases h
    | some o =>
      rw [hv] at hok hF
      exact obj_ok_finished K T sub subc H o s m hK hT hok (by omega)
  | int n => intro h; cases h
  | str x => intro h; cases h
  | missing x => intro h; cases h

theorem if_finished (H : LevelHyp K T sub subc) (v1 v2 : Val) (r : List Val) (s : St) (F : Nat)
    (hK : kindFn s.vars = K) (hT : TypesIn T s.db) (hs : s.stack = v1 :: v2 :: r)
    (h1 : okVal K sub v1 = true) (h2 : okVal K sub v2 = true)
    (hF : max (costVal K subc v1) (costVal K subc v2) + 4 ≤ F) : Finished (runBuiltin F .if_ s) := by
  obtain ⟨m, rfl⟩ : ∃ m, F = m + 1 := ⟨F - 1, by omega⟩
  have p1 : pop s = .ok (v1, { s with stack := v2 :: r }) := pop_cons hs
  have p2 : pop { s with stack := v2 :: r } = .ok (v2, { s with stack := r }) := pop_cons rfl
  simp only [runBuiltin, p1, p2]
  cases hp : popInt { s with stack := r } with
  | error e =>
    intro h; injection h with h; subst h
    exact absurd rfl (popInt_ne_fuel _ _ hp)
  | ok ps =>
    obtain ⟨p, s3⟩ := ps
    have hfr : Frame { s with stack := r } s3 := popInt_frame hp
    have hK3 : kindFn s3.vars = K := by rw [kindFn_persist hfr.vars]; exact hK
    have hT3 : TypesIn T s3.db := by rw [hfr.db]; exact hT
    show Finished (if p > 0 then execVal m v2 s3 else execVal m v1 s3)
    split
    · exact val_finished K T sub subc H v2 s3 m hK3 hT3 h2 (by omega)
    · exact val_finished K T sub subc H v1 s3 m hK3 hT3 h1 (by omega)

theorem callType_finished (H : LevelHyp K T sub subc) (s : St) (F : Nat)
    (hK : kindFn s.vars = K) (hT : TypesIn T s.db) (hok : (T.all fun ty => okKind sub (K ty)) = true)
    (hF : maxCost K subc T + 3 ≤ F) : Finished (runBuiltin F .callType s) := by
  obtain ⟨m, rfl⟩ : ∃ m, F = m + 1 := ⟨F - 1, by omega⟩
  have hall : ∀ ty, ty ∈ T → okKind sub (kindOf (s.vars.getItem ty)) = true ∧ kcost subc (kindOf (s.vars.getItem ty)) + 2 ≤ m := by
    intro ty hty
    have hKt : K ty = kindOf (s.vars.getItem ty) := by rw [← hK]; rfl
    have h1 := List.all_eq_true.1 hok ty hty
    have h2 := le_maxCost K subc T ty hty
    rw [hKt] at h1 h2
    exact ⟨h1, by omega⟩
  simp only [runBuiltin]
  cases hc : curEntry s with
  | error e =>
    intro h; injection h with h; subst h
    exact absurd rfl (curEntry_ne_fuel _ _ hc)
  | ok r =>
    obtain ⟨k, e, db⟩ := r
    have hty : e.type ∈ T := curEntry_type hT hc
    show Finished (match s.vars.getItem e.type with
      | some o => execObj m o s
      | none =>
        match (warn s ("entry type for \"".toList ++ k ++ "\" isn't style-file defined".toList)).vars.getItem "default.type".toList with
        | some o => execObj m o (warn s ("entry type for \"".toList ++ k ++ "\" isn't style-file defined".toList))
        | none => .ok (warn s ("entry type for \"".toList ++ k ++ "\" isn't style-file defined".toList)))
    cases hv : s.vars.getItem e.type with
    | some o =>
      have := hall _ hty
      rw [hv] at this
      exact obj_ok_finished K T sub subc H o s m hK hT this.1 this.2
    | none =>
      show Finished (match s.vars.getItem "default.type".toList with
        | some o => execObj m o (warn s ("entry type for \"".toList ++ k ++ "\" isn't style-file defined".toList))
        | none => .ok (warn s ("entry type for \"".toList ++ k ++ "\" isn't style-file defined".toList)))
      cases hd : s.vars.getItem "default.type".toList with
      | some o =>
        have := hall _ hT.1
        rw [hd] at this
        exact obj_ok_finished K T sub subc H o _ m hK hT this.1 this.2
      | none => intro h; cases h

/-- executing the object a name is bound to (`K n` describes `o`): one unit less than the name -/
theorem obj_top_finished (H : LevelHyp K T sub subc) (known : List Val) (n : Str) (o : VarObj) (s : St) (F : Nat)
    (hK : kindFn s.vars = K) (hT : TypesIn T s.db) (hp : known <+: s.stack) (hKn : K n = kindOf (some o))
    (hok : okName K T sub known n = true) (hF : needName K T subc known n ≤ F + 1) : Finished (execObj F o s) := by
  simp only [okName, needName, hKn] at hok hF
  cases o with
  | func body =>
    simp only [kindOf] at hok hF
    obtain ⟨m, rfl⟩ : ∃ m, F = m + 1 := ⟨F - 1, by omega⟩
    simp only [execObj]
    exact H body s m hK hT hok (by omega)
  | builtin b =>
    simp only [kindOf] at hok hF
    by_cases hb : b = .if_
    · subst hb
      simp only [if_true] at hok hF
      cases known with
      | nil => simp at hok
      | cons v1 k =>
        cases k with
        | nil => simp at hok
        | cons v2 k =>
          simp only [Bool.and_eq_true] at hok hF
          obtain ⟨r, hr⟩ := hp
          obtain ⟨m, rfl⟩ : ∃ m, F = m + 1 := ⟨F - 1, by omega⟩
          simp only [execObj]
          exact if_finished K T sub subc H v1 v2 (k ++ r) s m hK hT (by rw [← hr]; rfl) hok.1 hok.2 (by omega)
    · simp only [if_neg hb] at hok hF
      by_cases hc : b = .callType
      · subst hc
        simp only [if_true] at hok hF
        obtain ⟨m, rfl⟩ : ∃ m, F = m + 1 := ⟨F - 1, by omega⟩
        simp only [execObj]
        exact callType_finished K T sub subc H s m hK hT hok (by omega)
      · simp only [if_neg hc] at hok hF
        obtain ⟨m, rfl⟩ : ∃ m, F = m + 2 := ⟨F - 2, by omega⟩
        exact obj_finished m _ s (by simp only [VarObj.plain]; exact hok)
  | _ =>
    simp only [kindOf] at hF
    obtain ⟨m, rfl⟩ : ∃ m, F = m + 2 := ⟨F - 2, by omega⟩
    exact obj_finished m _ s rfl

theorem needName_pos (known : List Val) (n : Str) : 1 ≤ needName K T subc known n := by
  simp only [needName]
  repeat' split
  all_goals omega

theorem name_finished (H : LevelHyp K T sub subc) (known : List Val) (n : Str) (s : St) (F : Nat)
    (hK : kindFn s.vars = K) (hT : TypesIn T s.db) (hp : known <+: s.stack) (hok : okName K T sub known n = true)
    (hF : needName K T subc known n ≤ F) : Finished (execTok F (.name n) s) := by
  have hKn : K n = kindOf (s.vars.getItem n) := by rw [← hK]; rfl
  obtain ⟨m, rfl⟩ : ∃ m, F = m + 1 := ⟨F - 1, by have := needName_pos K T subc known n; omega⟩
  cases hv : s.vars.getItem n with
  | none =>
    simp only [execTok, hv]
    intro h; cases h
  | some o =>
    rw [hv] at hKn
    simp only [execTok, hv]
    exact obj_top_finished K T sub subc H known n o s m hK hT hp hKn hok hF

/-- a pushed element: one unit for the element, then the rest with the value known -/
theorem push_step (ts : List BTok) (t : BTok) (v : Val) (s : St) (F : Nat)
    (ht : ∀ m, execTok (m + 1) t s = .ok (push s v) ∨ ∃ e, e ≠ IErr.outOfFuel ∧ execTok (m + 1) t s = .error e)
    (hrest : Finished (execBody (F + 1) ts (push s v))) : Finished (execBody (F + 2) (t :: ts) s) := by
  simp only [execBody]
  rcases ht F with h | ⟨e, he, h⟩
  · rw [h]; exact hrest
  · rw [h]; intro h'; injection h' with h'; exact he h'

theorem list_finished (H : LevelHyp K T sub subc) (body : List BTok) :
    ∀ (known : List Val) (s : St) (F : Nat), kindFn s.vars = K → TypesIn T s.db → known <+: s.stack →
      okList K T sub known body = true → costList K T subc known body ≤ F → Finished (execBody F body s) := by
  induction body with
  | nil =>
    intro known s F _ _ _ _ hF
    simp only [costList] at hF
    obtain ⟨m, rfl⟩ : ∃ m, F = m + 1 := ⟨F - 1, by omega⟩
    intro h; cases h
  | cons t ts ih =>
    intro known s F hK hT hp hok hF
    have hpush : ∀ v : Val, v :: known <+: (push s v).stack := by
      intro v
      obtain ⟨r, hr⟩ := hp
      exact ⟨r, by simp only [push, List.cons_append, hr]⟩
    cases t with
    | name n =>
      simp only [okList, Bool.and_eq_true] at hok
      simp only [costList] at hF
      obtain ⟨m, rfl⟩ : ∃ m, F = m + 1 := ⟨F - 1, by omega⟩
      simp only [execBody]
      have htok := name_finished K T sub subc H known n s m hK hT hp hok.1 (by omega)
      cases ht : execTok m (.name n) s with
      | error err => rw [ht] at htok; exact htok
      | ok s1 =>
        have hfr : Frame s s1 := (exec_frame _).2.2.1 _ s s1 ht
        have hK1 : kindFn s1.vars = K := by rw [kindFn_persist hfr.vars]; exact hK
        have hT1 : TypesIn T s1.db := by rw [hfr.db]; exact hT
        exact ih [] s1 m hK1 hT1 (List.nil_prefix) hok.2 (by omega)
    | int v =>
      simp only [okList] at hok
      simp only [costList] at hF
      have hpos := costList_pos K T subc (.int v :: known) ts
      obtain ⟨m, rfl⟩ : ∃ m, F = m + 2 := ⟨F - 2, by omega⟩
      exact push_step ts _ (.int v) s m (fun _ => .inl rfl)
        (ih _ (push s (.int v)) (m + 1) hK hT (hpush _) hok (by omega))
    | str v =>
      simp only [okList] at hok
      simp only [costList] at hF
      have hpos := costList_pos K T subc (.str v :: known) ts
      obtain ⟨m, rfl⟩ : ∃ m, F = m + 2 := ⟨F - 2, by omega⟩
      exact push_step ts _ (.str v) s m (fun _ => .inl rfl)
        (ih _ (push s (.str v)) (m + 1) hK hT (hpush _) hok (by omega))
    | fn b =>
      simp only [okList] at hok
      simp only [costList] at hF
      have hpos := costList_pos K T subc (.fn b :: known) ts
      obtain ⟨m, rfl⟩ : ∃ m, F = m + 2 := ⟨F - 2, by omega⟩
      exact push_step ts _ (.fn b) s m (fun _ => .inl rfl)
        (ih _ (push s (.fn b)) (m + 1) hK hT (hpush _) hok (by omega))
    | quoted n =>
      simp only [okList] at hok
      simp only [costList] at hF
      have hpos := costList_pos K T subc (.ref n :: known) ts
      obtain ⟨m, rfl⟩ : ∃ m, F = m + 2 := ⟨F - 2, by omega⟩
      refine push_step ts _ (.ref n) s m (fun k => ?_)
        (ih _ (push s (.ref n)) (m + 1) hK hT (hpush _) hok (by omega))
      simp only [execTok]
      split
      · exact .inl rfl
      · exact .inr ⟨.bibtex "can not push undefined variable", (by intro h; cases h), rfl⟩

end level

/-- every level satisfies the hypothesis of the next -/
theorem level_hyp (K : Str → Kind) (T : List Str) : ∀ d, LevelHyp K T (okAt K T d) (costAt K T d) := by
  intro d
  induction d with
  | zero =>
    intro body s F hK hT hok hF
    exact list_finished K T _ _ (fun _ _ _ _ _ h => by cases h) body [] s F hK hT List.nil_prefix hok hF
  | succ d ih =>
    intro body s F hK hT hok hF
    exact list_finished K T _ _ ih body [] s F hK hT List.nil_prefix hok hF

/-! ### `ITERATE` / `REVERSE` -/

/-- the loop of `ITERATE` / `REVERSE` over any list of keys: an object that finishes in every state
with these kinds and this database finishes for every entry -/
theorem iterate_finished (K : Str → Kind) (T : List Str) (o : VarObj) (F : Nat)
    (hobj : ∀ s : St, kindFn s.vars = K → TypesIn T s.db → Finished (execObj F o s)) :
    ∀ (ks : List Str) (s : St), kindFn s.vars = K → TypesIn T s.db → Finished (iterate F o ks s) := by
  intro ks
  induction ks with
  | nil => intro s _ _ h; cases h
  | cons k ks ih =>
    intro s hK hT
    simp only [iterate]
    split
    · intro h; cases h
    · rename_i db hdb
      split
      · intro h; cases h
      · have h1 := hobj { s with cur := some k } hK hT
        cases he : execObj F o { s with cur := some k } with
        | error e => rw [he] at h1; exact h1
        | ok s1 =>
          have hfr : Frame { s with cur := some k } s1 := (exec_frame _).2.1 _ _ s1 he
          have hK1 : kindFn s1.vars = K := by rw [kindFn_persist hfr.vars]; exact hK
          have hT1 : TypesIn T s1.db := by rw [hfr.db]; exact hT
          exact ih { s1 with cur := none } hK1 hT1

/-- more fuel does not change a finished `ITERATE` loop -/
theorem iterate_mono (o : VarObj) (n m : Nat) (hm : n ≤ m) :
    ∀ (ks : List Str) (s : St), Finished (iterate n o ks s) → iterate m o ks s = iterate n o ks s := by
  intro ks
  induction ks with
  | nil => intro s _; rfl
  | cons k ks ih =>
    intro s h
    rcases s with ⟨st, va, ma, bu, li, ev, ci, db, pr, cu, re, pri, tr⟩
    cases db with
    | none => rfl
    | some db =>
      cases hc : db.entries.contains k with
      | false => simp only [iterate, hc]; rfl
      | true =>
        simp only [iterate, hc] at h ⊢
        have hfin : Finished (execObj n o ⟨st, va, ma, bu, li, ev, ci, some db, pr, some k, re, pri, tr⟩) := by
          intro hbad; rw [hbad] at h; exact h rfl
        rw [(fuel_mono_all n m hm).2.1 o _ hfin]
        cases he : execObj n o ⟨st, va, ma, bu, li, ev, ci, some db, pr, some k, re, pri, tr⟩ with
        | error e => rfl
        | ok s1 =>
          rw [he] at h
          exact ih _ h

/-- `ITERATE {f}` at one level: the object `o` the name `f` is bound to finishes for every entry -/
theorem iterate_level (K : Str → Kind) (T : List Str) (sub : List BTok → Bool) (subc : List BTok → Nat)
    (H : LevelHyp K T sub subc) (f : Str) (o : VarObj) (m : Nat) (hKn : K f = kindOf (some o))
    (hok : okList K T sub [] [.name f] = true) (hF : costList K T subc [] [.name f] ≤ m) :
    ∀ (ks : List Str) (s : St), kindFn s.vars = K → TypesIn T s.db → Finished (iterate m o ks s) := by
  simp only [okList, Bool.and_true] at hok
  simp only [costList] at hF
  exact iterate_finished K T o m fun s' hK hT =>
    obj_top_finished K T sub subc H [] f o s' m hK hT List.nil_prefix hKn hok (by omega)

end Pybtex.Interp
