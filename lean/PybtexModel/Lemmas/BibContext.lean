/-
Lemmas for the C10 extension `Model/BibContext.lean`:

* `parseLoopCS` (the reader loop with `command_start`, each round run on an empty report list)
  computes exactly `parseLoop` — by the frame property of a round (`loopStep_T` of
  `Lemmas/BibLocal.lean` with only the report lists transformed);
* the located problems it records are the report list of `parseLoop`, with the positions of the
  ghost `errAt`;
* every located syntax error has `command_start < pos ≤ len(text)`: the round is run through the
  location invariant `Loc` of `Lemmas/BibLocate.lean` with the text BEHIND THE `@` of the round as
  reference text.
-/
import PybtexModel.Lemmas.BibLocal
import PybtexModel.Lemmas.BibLocate
import PybtexModel.Lemmas.BibBridge
import PybtexModel.Lemmas.ErrorSources
import PybtexModel.Model.BibContext

namespace Pybtex.Bib

theorem cmdRound_eq (s : St) : cmdRound s = cmdStep s := rfl

/-- the state with its report lists emptied -/
@[reducible] def clearR (s : St) : St := { s with errs := [], errAt := [] }

/-- the transformation "put the reports of `s` in front" -/
@[reducible] def frameOf (s : St) : Tr := { R := s.errs, RA := s.errAt }

theorem frameOf_app (s t : St) : (frameOf s).app t = withReports s.errs s.errAt t := by
  apply St.ext' <;> try rfl
  · show t.rest ++ [] = t.rest
    simp
  · show s.errs ++ t.errs.map (shiftErr 0) = s.errs ++ t.errs
    rw [map_shiftErr_zero]
  · show s.errAt ++ t.errAt.map (· ++ []) = s.errAt ++ t.errAt
    simp

theorem withReports_clear (s : St) : withReports s.errs s.errAt (clearR s) = s := by
  apply St.ext' <;> try rfl
  · show s.errs ++ [] = s.errs
    simp
  · show s.errAt ++ [] = s.errAt
    simp

/-- **frame property of a round**: the problems reported before do not influence it -/
theorem loopStep_frame (s : St) (h1 : 1 ≤ s.ln) :
    loopStep s = Step.mapT (frameOf s) (loopStep (clearR s)) := by
  have h := loopStep_T (N := s.ln + countNl s.rest) (frameOf s) 0 (clearR s)
    ⟨h1, rfl, fun e he => by cases he⟩ (Nat.zero_le _) (Nat.zero_le _) (Or.inl rfl)
    (fun key hk => by simp [Tr.blocks] at hk)
  rw [frameOf_app, withReports_clear] at h
  exact h

theorem map_shiftErr_zero_opt (o : Option Err) : o.map (shiftErr 0) = o := by
  cases o with
  | none => rfl
  | some e => simp [shiftErr_zero]

/-! ## one round through the location invariant -/

theorem cmdRound_loc {N : Nat} {text : Str} (s : St) (h : Loc N text s) :
    match cmdRound s with
    | .inl r => GLEnd N text r
    | .inr s' => Loc N text s' := by
  unfold cmdRound
  have hg := parseCommand_loc h
  cases hr : parseCommand s with
  | ok c s2 =>
    rw [hr] at hg
    simp only
    have hg2 := processCmd_loc c s2 hg
    cases hr2 : processCmd c s2 with
    | ok u s3 => rw [hr2] at hg2; exact hg2
    | fail a s3 =>
      rw [hr2] at hg2
      cases a with
      | syn e => exact GLEnd.stop hg2.1 hg2.2
      | raised e => exact GLEnd.stop hg2.1 hg2.2
      | skip => exact hg2.1
  | fail a s2 =>
    rw [hr] at hg
    cases a with
    | syn e =>
      simp only
      rcases handleError_cases s2 e with hh | hh
      · rw [hh]; exact GLEnd.stop hg.1 hg.2
      · have hg2 := handleError_loc hg.1 hg.2
        rw [hh] at hg2 ⊢
        exact hg2
    | skip => exact hg.1
    | raised e => exact GLEnd.stop hg.1 hg.2

/-- the line counter stays positive over a round -/
theorem cmdRound_ln (s1 : St) (h1 : 1 ≤ s1.ln) (hE : s1.errs = []) (s' : St) (hr : cmdRound s1 = .inr s') :
    1 ≤ s'.ln := by
  have hg := loopStep_good (N := s1.ln + countNl ('@' :: s1.rest)) { s1 with rest := '@' :: s1.rest }
    ⟨h1, rfl, fun e he => by rw [show ({ s1 with rest := '@' :: s1.rest } : St).errs = s1.errs from rfl, hE] at he; cases he⟩
  have he : loopStep { s1 with rest := '@' :: s1.rest } = cmdRound s1 := by
    rw [loopStep_eq, cmdRound_eq]
    rfl
  rw [he, hr] at hg
  exact hg.1.1

/-- a located problem is well placed: its command starts in front of its position, inside the text -/
def LocOK (text : Str) (l : Located) : Prop :=
  synKind l.err.kind = true →
    l.start < l.pos ∧ l.pos ≤ text.length ∧ l.start < text.length ∧ text[l.start]? = some '@'

/-- the character in front of a suffix -/
theorem getElem?_before_suffix (text rest : Str) (c : Char) (h : (c :: rest) <:+ text) :
    text[text.length - rest.length - 1]? = some c := by
  obtain ⟨p, rfl⟩ := h
  have : (p ++ c :: rest).length - rest.length - 1 = p.length := by simp; omega
  rw [this]
  simp

theorem locate_ok {N : Nat} {rest : Str} (text : Str) (s' : St) (h : Loc N rest s') (hn : rest.length + 1 ≤ text.length)
    (hat : text[text.length - rest.length - 1]? = some '@') :
    ∀ l ∈ locate text.length (text.length - rest.length - 1) s', LocOK text l := by
  intro l hl
  unfold locate at hl
  rw [List.mem_map] at hl
  obtain ⟨p, hp, rfl⟩ := hl
  intro hs
  have hb := ((h.2.2.2 p hp) hs).1
  have := hb.length_le
  refine ⟨?_, ?_, ?_, hat⟩
  · show text.length - rest.length - 1 < text.length - p.2.length
    omega
  · show text.length - p.2.length ≤ text.length
    omega
  · show text.length - rest.length - 1 < text.length
    omega

theorem locate_err (n cs : Nat) (s' : St) (h : s'.errAt.length = s'.errs.length) :
    (locate n cs s').map (·.err) = s'.errs ∧ (locate n cs s').map (·.pos) = s'.errAt.map (n - ·.length) := by
  unfold locate
  constructor
  · rw [List.map_map]
    show (s'.errs.zip s'.errAt).map (fun p => p.1) = s'.errs
    exact List.map_fst_zip (by omega)
  · rw [List.map_map]
    show (s'.errs.zip s'.errAt).map (fun p => n - p.2.length) = _
    have : (fun p : Err × Str => n - p.2.length) = (fun b : Str => n - b.length) ∘ Prod.snd := rfl
    rw [this, ← List.map_map, List.map_snd_zip (by omega)]

/-! ## the instrumented loop -/

/-- what `parseLoopCS` promises (`s` = start state, `acc` = located problems of earlier rounds) -/
structure CSSpec (text : Str) (s : St) (acc : List Located)
    (r : (St × Option Err) × List Located × Option Located) (ref : St × Option Err) : Prop where
  fst : r.1 = ref
  new : ∃ new, r.2.1 = acc ++ new ∧ (∀ l ∈ new, LocOK text l) ∧
    s.errs ++ new.map (·.err) = ref.1.errs ∧
    s.errAt.map (text.length - ·.length) ++ new.map (·.pos) = ref.1.errAt.map (text.length - ·.length)
  raised : ∀ l, r.2.2 = some l → ref.2 = some l.err ∧ LocOK text l ∧ l.pos = text.length - ref.1.rest.length
  raisedNone : r.2.2 = none → ref.2 = none ∨ ref.2 = some ⟨.internal, none⟩

theorem parseLoopCS_spec (text : Str) (fuel : Nat) (s : St) (acc : List Located) (h1 : 1 ≤ s.ln)
    (hn : s.rest <:+ text) (hlen : s.errAt.length = s.errs.length) :
    CSSpec text s acc (parseLoopCS text.length fuel s acc) (parseLoop fuel s) := by
  induction fuel generalizing s acc with
  | zero =>
    exact ⟨rfl, ⟨[], by simp [parseLoopCS], by simp, by simp [parseLoop], by simp [parseLoop]⟩,
      fun l hl => by simp [parseLoopCS] at hl, fun _ => Or.inr rfl⟩
  | succ fuel ih =>
    rw [parseLoop_succ, loopStep_frame s h1]
    unfold parseLoopCS
    rw [loopStep_eq]
    show CSSpec text s acc (match skipToChar (· = '@') s.rest with | none => _ | some (chunk, rest) => _)
      (match Step.mapT (frameOf s) (match skipToChar (· = '@') s.rest with | none => _ | some (chunk, rest) => _) with
        | .inl r => r | .inr s' => parseLoop fuel s')
    cases hsk : skipToChar (· = '@') s.rest with
    | none =>
      simp only [Step.mapT]
      rw [frameOf_app, withReports_clear]
      exact ⟨rfl, ⟨[], by simp, by simp, by simp, by simp⟩, fun l hl => by simp at hl, fun _ => Or.inl rfl⟩
    | some cr =>
      obtain ⟨chunk, rest⟩ := cr
      simp only
      obtain ⟨pre, c, hchunk, hsplit, _, _⟩ := skipToChar_split hsk
      rename_i hc _
      have hc' : c = '@' := by simpa using hc
      subst hc'
      have hsuf : ('@' :: rest) <:+ text := by
        refine List.IsSuffix.trans ?_ hn
        rw [hsplit]
        exact List.suffix_append _ _
      have hrest : rest.length + 1 ≤ text.length := by
        have := hsuf.length_le
        simpa using this
      have hat := getElem?_before_suffix text rest '@' hsuf
      have hrs : rest <:+ text := List.IsSuffix.trans (List.suffix_cons _ _) hsuf
      -- the round on the cleared state, through the location invariant with the text behind the `@`
      have hloc0 : Loc ((s.ln + countNl chunk) + countNl rest) rest
          { s with rest := rest, ln := s.ln + countNl chunk, errs := [], errAt := [] } :=
        ⟨rfl, List.suffix_refl _, rfl, fun p hp => by cases hp⟩
      have hloc := cmdRound_loc _ hloc0
      show CSSpec text s acc
        (match cmdRound { s with rest := rest, ln := s.ln + countNl chunk, errs := [], errAt := [] } with
          | .inl (s', o) => _ | .inr s' => _)
        (match Step.mapT (frameOf s) (cmdRound { s with rest := rest, ln := s.ln + countNl chunk, errs := [], errAt := [] }) with
          | .inl r => r | .inr s' => parseLoop fuel s')
      cases hr : cmdRound { s with rest := rest, ln := s.ln + countNl chunk, errs := [], errAt := [] } with
      | inl r =>
        obtain ⟨s', o⟩ := r
        rw [hr] at hloc
        simp only [Step.mapT]
        rw [frameOf_app, map_shiftErr_zero_opt]
        have hL : Loc _ rest s' := hloc.1
        obtain ⟨he1, he2⟩ := locate_err text.length (text.length - rest.length - 1) s' hL.2.2.1
        refine ⟨rfl, ⟨locate text.length (text.length - rest.length - 1) s', rfl, locate_ok text s' hL hrest hat, ?_, ?_⟩, ?_, ?_⟩
        · rw [he1]; rfl
        · rw [he2]; show _ = (s.errAt ++ s'.errAt).map _; simp
        · intro l hl
          cases o with
          | none => simp at hl
          | some e =>
            simp only [Option.map_some, Option.some.injEq] at hl
            subst hl
            refine ⟨rfl, ?_, rfl⟩
            intro hs
            have hb : s'.rest <:+ rest := ((hloc.2 e rfl) hs).1
            have := hb.length_le
            refine ⟨?_, ?_, ?_, hat⟩
            · show text.length - rest.length - 1 < text.length - s'.rest.length
              omega
            · show text.length - s'.rest.length ≤ text.length
              omega
            · show text.length - rest.length - 1 < text.length
              omega
        · intro hl
          cases o with
          | none => exact Or.inl rfl
          | some e => simp at hl
      | inr s' =>
        have hs'ln : 1 ≤ s'.ln := cmdRound_ln _ (Nat.le_trans h1 (Nat.le_add_right _ _)) rfl s' hr
        rw [hr] at hloc
        simp only [Step.mapT]
        rw [frameOf_app]
        have hL : Loc _ rest s' := hloc
        have hs'n : s'.rest <:+ text := List.IsSuffix.trans hL.2.1 hrs
        have hs'len : (withReports s.errs s.errAt s').errAt.length = (withReports s.errs s.errAt s').errs.length := by
          show (s.errAt ++ s'.errAt).length = (s.errs ++ s'.errs).length
          simp [hlen, hL.2.2.1]
        have := ih (withReports s.errs s.errAt s') (acc ++ locate text.length (text.length - rest.length - 1) s') hs'ln hs'n hs'len
        obtain ⟨f1, ⟨new, hn1, hn2, hn3, hn4⟩, f3, f4⟩ := this
        obtain ⟨he1, he2⟩ := locate_err text.length (text.length - rest.length - 1) s' hL.2.2.1
        refine ⟨f1, ⟨locate text.length (text.length - rest.length - 1) s' ++ new, ?_, ?_, ?_, ?_⟩, f3, f4⟩
        · rw [hn1, List.append_assoc]
        · intro l hl
          rcases List.mem_append.mp hl with hl | hl
          · exact locate_ok text s' hL hrest hat l hl
          · exact hn2 l hl
        · rw [← hn3, List.map_append, he1]
          show s.errs ++ (s'.errs ++ _) = (s.errs ++ s'.errs) ++ _
          simp
        · rw [← hn4, List.map_append, he2]
          show _ = (s.errAt ++ s'.errAt).map _ ++ _
          simp

end Pybtex.Bib
