/-
`parse_stream` / `parse_file` on printed well-formed programs: the text they hand to the parser is
the text of `parse_string` with some blanks in front of line ends deleted (`line.rstrip()` before
`strip_comment`); such deletions never touch a lexeme (string literals of well-formed programs do
not span lines), so the same program is read.
-/
import PybtexModel.Lemmas.BstLines
import PybtexModel.Lemmas.BstEntry

namespace Pybtex.Bst
open Pybtex.Scanner

/-- up to the next `\n` (or the end) there is only white space -/
def restBlankNl : Str → Bool
  | [] => true
  | c :: r => c == '\n' || (isWs c && restBlankNl r)

/-- `y` is `x` with some white-space characters other than `\n` deleted, each of them followed
only by white space up to the next `\n` or the end of the text -/
inductive Del : Str → Str → Prop
  | nil : Del [] []
  | keep (c : Char) {x y : Str} : Del x y → Del (c :: x) (c :: y)
  | drop (c : Char) {x y : Str} : isWs c = true → c ≠ '\n' → restBlankNl x = true → Del x y →
      Del (c :: x) y

theorem Del.refl : ∀ x : Str, Del x x
  | [] => .nil
  | c :: x => .keep c (Del.refl x)

theorem Del.of_nil {y : Str} (h : Del [] y) : y = [] := by cases h; rfl

/-- keeping a prefix -/
theorem Del.append_keep (a : Str) {x y : Str} (h : Del x y) : Del (a ++ x) (a ++ y) := by
  induction a with
  | nil => exact h
  | cons c a ih => exact .keep c ih

theorem restBlankNl_white_nl (w x : Str) (hw : ∀ c ∈ w, isWs c = true) :
    restBlankNl (w ++ '\n' :: x) = true := by
  induction w with
  | nil => simp [restBlankNl]
  | cons c w ih =>
    simp only [List.cons_append, restBlankNl, hw c (by simp), Bool.true_and,
      ih (fun d hd => hw d (by simp [hd])), Bool.or_true]

theorem restBlankNl_white (w : Str) (hw : ∀ c ∈ w, isWs c = true) : restBlankNl w = true := by
  induction w with
  | nil => rfl
  | cons c w ih =>
    simp only [restBlankNl, hw c (by simp), Bool.true_and, ih (fun d hd => hw d (by simp [hd])),
      Bool.or_true]

/-- deleting a white run that stands in front of a `\n` -/
theorem Del.drop_before_nl (w : Str) {x y : Str} (hw : ∀ c ∈ w, isWs c = true ∧ c ≠ '\n')
    (h : Del ('\n' :: x) y) : Del (w ++ '\n' :: x) y := by
  induction w with
  | nil => exact h
  | cons c w ih =>
    have hw' : ∀ d ∈ w, isWs d = true ∧ d ≠ '\n' := fun d hd => hw d (by simp [hd])
    exact .drop c (hw c (by simp)).1 (hw c (by simp)).2
      (restBlankNl_white_nl w x (fun d hd => (hw' d hd).1)) (ih hw')

/-- deleting a white run at the very end -/
theorem Del.drop_at_end (w : Str) (hw : ∀ c ∈ w, isWs c = true ∧ c ≠ '\n') : Del w [] := by
  induction w with
  | nil => exact .nil
  | cons c w ih =>
    have hw' : ∀ d ∈ w, isWs d = true ∧ d ≠ '\n' := fun d hd => hw d (by simp [hd])
    exact .drop c (hw c (by simp)).1 (hw c (by simp)).2
      (restBlankNl_white w (fun d hd => (hw' d hd).1)) (ih hw')

/-! ### `strip_comment(line.rstrip())` against `strip_comment(line)` -/

theorem stripGo_ws (b : Bool) (t : Str) (ht : ∀ c ∈ t, isWs c = true) : stripGo b t = t := by
  induction t generalizing b with
  | nil => rfl
  | cons c t ih =>
    have hc := ht c (by simp)
    have h1 : c ≠ '%' := by intro e; subst e; simp [isWs, wsCodes] at hc
    have h2 : c ≠ '"' := by intro e; subst e; simp [isWs, wsCodes] at hc
    simp [stripGo, h1, h2, ih b (fun d hd => ht d (by simp [hd]))]

theorem stripGo_append_ws (b : Bool) (a t : Str) (ht : ∀ c ∈ t, isWs c = true) :
    stripGo b (a ++ t) = stripGo b a ∨ stripGo b (a ++ t) = stripGo b a ++ t := by
  induction a generalizing b with
  | nil => right; simp [stripGo_ws b t ht, stripGo]
  | cons c a ih =>
    simp only [List.cons_append, stripGo]
    split
    · left; rfl
    · split
      · rcases ih (!b) with h | h
        · left; rw [h]
        · right; rw [h]; rfl
      · rcases ih b with h | h
        · left; rw [h]
        · right; rw [h]; rfl

theorem mem_takeWhile_sat (p : Char → Bool) : ∀ (l : Str), ∀ c ∈ l.takeWhile p, p c = true := by
  intro l
  induction l with
  | nil => intro c hc; simp at hc
  | cons d l ih =>
    intro c hc
    simp only [List.takeWhile] at hc
    split at hc
    · simp only [List.mem_cons] at hc
      rcases hc with rfl | hc
      · assumption
      · exact ih c hc
    · cases hc

theorem rstrip_decomp (l : Str) : ∃ t, l = rstrip l ++ t ∧ ∀ c ∈ t, isWs c = true := by
  refine ⟨(l.reverse.takeWhile isWs).reverse, ?_, ?_⟩
  · unfold rstrip
    rw [← List.reverse_append, List.takeWhile_append_dropWhile, List.reverse_reverse]
  · intro c hc
    rw [List.mem_reverse] at hc
    exact mem_takeWhile_sat isWs _ c hc

/-- the stream's line is the string's line minus a white suffix -/
theorem strip_rstrip (l : Str) :
    ∃ w, stripComment l = stripComment (rstrip l) ++ w ∧ ∀ c ∈ w, isWs c = true ∧ c ∈ l := by
  obtain ⟨t, hl, ht⟩ := rstrip_decomp l
  unfold stripComment
  rcases stripGo_append_ws false (rstrip l) t ht with h | h
  · exact ⟨[], by rw [← hl] at h; simp [h], by simp⟩
  · refine ⟨t, by rw [← hl] at h; exact h, ?_⟩
    intro c hc
    exact ⟨ht c hc, by rw [hl]; simp [hc]⟩

/-- the text of `parse_stream` (on plain line breaks) -/
def stringTextR (src : Str) : Str :=
  joinWith ['\n'] ((splitLines src).map fun l => stripComment (rstrip l))

theorem del_lines : ∀ (ls : List Str), (∀ l ∈ ls, '\n' ∉ l) →
    Del (joinWith ['\n'] (ls.map stripComment))
      (joinWith ['\n'] (ls.map fun l => stripComment (rstrip l))) := by
  intro ls
  induction ls with
  | nil => intro _; exact .nil
  | cons l ls ih =>
    intro hnl
    obtain ⟨w, hw, hws⟩ := strip_rstrip l
    have hw' : ∀ c ∈ w, isWs c = true ∧ c ≠ '\n' := by
      intro c hc
      refine ⟨(hws c hc).1, ?_⟩
      intro e; subst e
      exact hnl l (by simp) (hws _ hc).2
    have ih' := ih (fun l' hl' => hnl l' (by simp [hl']))
    cases ls with
    | nil =>
      simp only [List.map, joinWith]
      rw [hw]
      have := Del.append_keep (stripComment (rstrip l)) (Del.drop_at_end w hw')
      simpa using this
    | cons l2 ls2 =>
      simp only [List.map, joinWith] at ih' ⊢
      rw [hw]
      simp only [List.append_assoc, List.singleton_append]
      apply Del.append_keep
      exact Del.drop_before_nl w hw' (.keep '\n' ih')

theorem del_stringText (src : Str) : Del (stringText src) (stringTextR src) := by
  unfold stringText stringTextR
  apply del_lines
  intro l hl hm
  have := splitLines_nosep src l hl '\n' hm
  simp [isLineSep, lineSepCodes] at this

/-! ### deletions never touch a lexeme -/

theorem restBlankNl_nonws (c : Char) (x : Str) (hc : isWs c = false) : restBlankNl (c :: x) = false := by
  have : c ≠ '\n' := by intro e; subst e; simp [isWs, wsCodes] at hc
  simp [restBlankNl, hc, this]

/-- white space in front of something that starts with a non-white character: what is left is
white, and non-empty if it was -/
theorem del_white (w : Str) : ∀ (x y : Str), White w → headSat isWs x = false → x ≠ [] →
    Del (w ++ x) y → ∃ w₂ y', y = w₂ ++ y' ∧ White w₂ ∧ Del x y' ∧ (w ≠ [] → w₂ ≠ []) := by
  induction w with
  | nil => intro x y _ _ _ h; exact ⟨[], y, rfl, White.nil, h, fun h => absurd rfl h⟩
  | cons c w ih =>
    intro x y hw hx hne h
    have hw' : White w := fun d hd => hw d (by simp [hd])
    rw [List.cons_append] at h
    cases h with
    | keep _ h' =>
      obtain ⟨w₂, y', rfl, hw₂, hd, _⟩ := ih x _ hw' hx hne h'
      refine ⟨c :: w₂, y', rfl, ?_, hd, by simp⟩
      intro d hd'
      simp only [List.mem_cons] at hd'
      rcases hd' with rfl | hd'
      · exact hw _ (by simp)
      · exact hw₂ d hd'
    | drop _ h1 h2 h3 h' =>
      obtain ⟨w₂, y', hy, hw₂, hd, hne₂⟩ := ih x y hw' hx hne h'
      refine ⟨w₂, y', hy, hw₂, hd, fun _ => hne₂ ?_⟩
      intro hwn
      subst hwn
      cases x with
      | nil => exact hne rfl
      | cons d x =>
        simp only [headSat] at hx
        simp only [List.nil_append] at h3
        rw [restBlankNl_nonws d x hx] at h3
        cases h3

/-- white space at the end of the text: what is left is white -/
theorem del_white_end (w y : Str) (hw : White w) (h : Del w y) : White y := by
  induction w generalizing y with
  | nil => rw [h.of_nil]; exact White.nil
  | cons c w ih =>
    have hw' : White w := fun d hd => hw d (by simp [hd])
    cases h with
    | keep _ h' =>
      intro d hd
      simp only [List.mem_cons] at hd
      rcases hd with rfl | hd
      · exact hw _ (by simp)
      · exact ih _ hw' h' d hd
    | drop _ _ _ _ h' => exact ih _ hw' h'

/-- no white-space character of `t` (followed by `x`) can be deleted -/
def Rigid (t x : Str) : Prop :=
  ∀ a c b, t = a ++ c :: b → isWs c = true → restBlankNl (b ++ x) = false

theorem del_rigid (t : Str) : ∀ (x y : Str), Rigid t x → Del (t ++ x) y →
    ∃ y', y = t ++ y' ∧ Del x y' := by
  induction t with
  | nil => intro x y _ h; exact ⟨y, rfl, h⟩
  | cons c t ih =>
    intro x y hr h
    have hr' : Rigid t x := by
      intro a d b he hd
      exact hr (c :: a) d b (by simp [he]) hd
    rw [List.cons_append] at h
    cases h with
    | keep _ h' =>
      obtain ⟨y', rfl, hd⟩ := ih x _ hr' h'
      exact ⟨y', rfl, hd⟩
    | drop _ h1 _ h3 _ =>
      have := hr [] c t rfl h1
      rw [this] at h3; cases h3

theorem restBlankNl_upto_quote (b x : Str) (hb : '\n' ∉ b) : restBlankNl (b ++ '"' :: x) = false := by
  induction b with
  | nil => exact restBlankNl_nonws '"' x (by simp [isWs, wsCodes])
  | cons c b ih =>
    have hc : c ≠ '\n' := fun e => hb (by simp [e])
    simp only [List.cons_append, restBlankNl, ih (fun h => hb (by simp [h])), Bool.and_false,
      Bool.or_false, beq_eq_false_iff_ne, ne_eq]
    exact hc

theorem snoc_split : ∀ (s a b : Str) (q c : Char), s ++ [q] = a ++ c :: b →
    (b = [] ∧ c = q ∧ s = a) ∨ ∃ b0, b = b0 ++ [q] ∧ s = a ++ c :: b0 := by
  intro s a
  induction a generalizing s with
  | nil =>
    intro b q c h
    cases s with
    | nil => simp at h; left; exact ⟨h.2, h.1.symm, rfl⟩
    | cons s0 s' => simp at h; right; exact ⟨s', h.2.symm, by simp [h.1]⟩
  | cons a0 a' ih =>
    intro b q c h
    cases s with
    | nil => simp at h
    | cons s0 s' =>
      simp only [List.cons_append, List.cons.injEq] at h
      rcases ih s' b q c h.2 with ⟨h1, h2, h3⟩ | ⟨b0, h1, h2⟩
      · left; exact ⟨h1, h2, by simp [h.1, h3]⟩
      · right; exact ⟨b0, h1, by simp [h.1, h2]⟩

theorem rigid_nonws (t x : Str) (h : ∀ c ∈ t, isWs c = false) : Rigid t x := by
  intro a c b he hc
  have := h c (by rw [he]; simp)
  rw [this] at hc; cases hc

theorem lex_rigid (l : Lex) (hl : LexOK l) (x : Str) : Rigid l.text x := by
  cases l with
  | word s =>
    apply rigid_nonws
    intro c hc
    have := hl.2 c hc
    cases hw : isWs c with
    | false => rfl
    | true => rw [isWs_not_isNameChar hw] at this; cases this
  | int v =>
    apply rigid_nonws
    intro c hc
    have hd : ∀ c ∈ Nat.toDigits 10 v.natAbs, isWs c = false := by
      intro c hc
      have := isDigit_isNameChar (toDigits_all_digit _ c hc)
      cases hw : isWs c with
      | false => rfl
      | true => rw [isWs_not_isNameChar hw] at this; cases this
    simp only [Lex.text, intText] at hc
    split at hc
    · simp only [List.mem_cons] at hc
      rcases hc with rfl | rfl | hc
      · simp [isWs, wsCodes]
      · simp [isWs, wsCodes]
      · exact hd c hc
    · simp only [List.mem_cons] at hc
      rcases hc with rfl | hc
      · simp [isWs, wsCodes]
      · exact hd c hc
  | str s =>
    intro a c b he hc
    -- `c` is a character of `s`; behind it come the rest of `s` and the closing quote
    simp only [Lex.text] at he
    cases a with
    | nil =>
      simp only [List.nil_append, List.cons.injEq] at he
      rw [← he.1] at hc; simp [isWs, wsCodes] at hc
    | cons q a =>
      simp only [List.cons_append, List.cons.injEq] at he
      obtain ⟨_, he⟩ := he
      rcases snoc_split s a b '"' c he with ⟨_, hcq, _⟩ | ⟨b0, hb0, hs⟩
      · rw [hcq] at hc; simp [isWs, wsCodes] at hc
      subst hb0
      rw [List.append_assoc, List.singleton_append]
      apply restBlankNl_upto_quote
      intro hm
      exact (hl '\n' (by rw [hs]; simp [hm])).2 rfl
  | lb => exact rigid_nonws _ _ (by simp [Lex.text, isWs, wsCodes])
  | rb => exact rigid_nonws _ _ (by simp [Lex.text, isWs, wsCodes])

/-- **deleting blanks in front of line ends keeps the lexeme structure** -/
theorem del_renderW : ∀ (ls : List Lex) (prev : Option Lex) (W : List Str) (y : Str),
    (∀ l ∈ ls, LexOK l) → GoodW prev ls W → Del (renderW ls W) y →
    ∃ W₂, y = renderW ls W₂ ∧ GoodW prev ls W₂ := by
  intro ls
  induction ls with
  | nil =>
    intro prev W y _ hg h
    exact ⟨[y], by simp [renderW], by simpa [GoodW] using del_white_end _ _ hg h⟩
  | cons l ls ih =>
    intro prev W y hok hg h
    obtain ⟨hw, hgap, hg'⟩ := hg
    have hl := hok l (by simp)
    have hne := lex_text_ne_nil l hl
    simp only [renderW] at h
    have hx : headSat isWs (l.text ++ renderW ls W.tail) = false := by
      rw [headSat_append_of_ne_nil _ _ _ hne]; exact lex_text_head l hl
    obtain ⟨w₂, y₁, rfl, hw₂, hd₁, hne₂⟩ := del_white _ _ _ hw hx (by simp [hne]) h
    obtain ⟨y₂, rfl, hd₂⟩ := del_rigid _ _ _ (lex_rigid l hl _) hd₁
    obtain ⟨W₂, rfl, hg₂⟩ := ih (some l) W.tail y₂ (fun x hx => hok x (by simp [hx])) hg' hd₂
    exact ⟨w₂ :: W₂, by simp [renderW], ⟨by simpa using hw₂, by
      intro hn; simpa using hne₂ (hgap hn), by simpa using hg₂⟩⟩

/-! ### the round trip through `parse_stream` and `parse_file` -/

theorem parseStream_print (p : Program) (L : Layout) (hwf : WFProg p)
    (hplain : plainBreaks (print p L) = true) : parseStream (print p L) = .ok p := by
  unfold parseStream
  rw [streamText_plain _ hplain]
  have hdel := del_stringText (print p L)
  unfold stringTextR at hdel
  unfold print at hdel ⊢
  rw [stringText_eq_preSM] at hdel
  obtain ⟨W, hgood, hpre⟩ := pre_render (Program.lexemes p) none L.gaps L.trailer (program_wfLex p hwf)
  rw [hpre] at hdel
  obtain ⟨W₂, hy, hg₂⟩ := del_renderW _ none W _ (program_lexemes_ok p hwf) hgood hdel
  rw [hy]
  exact parseText_renderW p W₂ hwf hg₂

theorem parseFile_print (p : Program) (L : Layout) (hwf : WFProg p)
    (hplain : plainBreaks (print p L) = true) : parseFile (print p L) = .ok p := by
  obtain ⟨hu1, hu2⟩ := splitLines_universal (print p L) hplain
  have h := parseStream_print p L hwf hplain
  unfold parseFile
  unfold parseStream at h ⊢
  rw [streamText_plain _ hu2, hu1, ← streamText_plain _ hplain]
  exact h

end Pybtex.Bst
