/-
Lemmas for the Markdown part of C09: the sequential replacement passes of `Markdown.formatStr` are the
character-wise map `Spec.Md.escChar`, which the reader `Spec.Md.unescape` undoes.
-/
import PybtexModel.Lemmas.BackendsHtml

namespace Pybtex
open RT Backends Spec

namespace Spec.Md

open Backends.Markdown

theorem replaceChar_flatMap {α : Type} (s : List α) (g : α → Str) (x : Char) (rep : Str) :
    replaceChar (s.flatMap g) x rep = s.flatMap fun c => replaceChar (g c) x rep := by
  induction s with
  | nil => rfl
  | cons a s ih =>
    simp only [List.flatMap_cons]
    rw [← ih]
    simp [replaceChar]

theorem replaceChar_of_not_mem (w : Str) (x : Char) (rep : Str) (h : x ∉ w) : replaceChar w x rep = w := by
  induction w with
  | nil => rfl
  | cons c w ih =>
    simp only [List.mem_cons, not_or] at h
    have hc : c ≠ x := fun e => h.1 e.symm
    have := ih h.2
    simp only [replaceChar, List.flatMap_cons, hc, if_false] at this ⊢
    rw [this]; rfl

/-- the characters the entities are made of -/
def entityChars : Str := ['&', ';', 'a', 'm', 'p', 'l', 'g', 't']

/-- the regenerated escape table of `xml.sax.saxutils.escape` is the one the Markdown spec speaks of: exactly
`& < >`, mapped to the three entities -/
def escapesAgree (tbl : List (Char × Str)) : Bool :=
  tbl.lookup '&' == entityOf '&' && tbl.lookup '<' == entityOf '<' && tbl.lookup '>' == entityOf '>' &&
    tbl.all fun p => ['&', '<', '>'].contains p.1 && p.2.all fun d => entityChars.contains d

theorem lookup_none_of_keys {β : Type} (tbl : List (Char × β)) (c : Char) (h : ∀ p ∈ tbl, p.1 ≠ c) :
    tbl.lookup c = none := by
  induction tbl with
  | nil => rfl
  | cons p tbl ih =>
    obtain ⟨a, b⟩ := p
    have ha : a ≠ c := h (a, b) (by simp)
    have : (c == a) = false := by simpa using fun e => ha e.symm
    simp only [List.lookup, this]
    exact ih fun q hq => h q (by simp [hq])

theorem escapeChar_eq (hT : escapesAgree Gen.htmlEscapes = true) (c : Char) :
    escapeChar c = match entityOf c with | some e => e | none => [c] := by
  simp only [escapesAgree, Bool.and_eq_true, beq_iff_eq, List.all_eq_true] at hT
  obtain ⟨⟨⟨h1, h2⟩, h3⟩, h4⟩ := hT
  unfold escapeChar
  by_cases ha : c = '&'
  · subst ha; rw [h1]; rfl
  · by_cases hl : c = '<'
    · subst hl; rw [h2]; rfl
    · by_cases hg : c = '>'
      · subst hg; rw [h3]; rfl
      · have hn : Gen.htmlEscapes.lookup c = none := by
          apply lookup_none_of_keys
          intro p hp hpc
          have := (h4 p hp).1
          rw [hpc] at this
          simp at this
          rcases this with h | h | h
          · exact ha h
          · exact hl h
          · exact hg h
        rw [hn]
        simp [entityOf, ha, hl, hg]

theorem escapeChar_chars (hT : escapesAgree Gen.htmlEscapes = true) (c : Char) :
    ∀ d ∈ escapeChar c, d = c ∨ d ∈ entityChars := by
  simp only [escapesAgree, Bool.and_eq_true, beq_iff_eq, List.all_eq_true] at hT
  obtain ⟨_, h4⟩ := hT
  intro d hd
  unfold escapeChar at hd
  split at hd
  · rename_i e he
    right
    have := (h4 (c, e) (lookup_mem he)).2 d hd
    simpa using this
  · left; simpa using hd

/-- the state of the text after the passes for the characters `P`: those are escaped, the rest not yet -/
def partialEsc (P : List Char) (c : Char) : Str := if c ∈ P then ['\\', c] else escapeChar c

theorem partialEsc_step (hT : escapesAgree Gen.htmlEscapes = true) (P : List Char) (x c : Char)
    (hx : x ∉ P) (hb : P ≠ [] → x ≠ '\\') (he : x ∉ entityChars) (hr : x ≠ '&' ∧ x ≠ '<' ∧ x ≠ '>') :
    replaceChar (partialEsc P c) x ['\\', x] = partialEsc (P ++ [x]) c := by
  unfold partialEsc
  by_cases hc : c ∈ P
  · have hcx : c ≠ x := fun e => hx (e ▸ hc)
    have hP : P ≠ [] := fun e => by subst e; cases hc
    have hbx := hb hP
    simp only [hc, if_true, List.mem_append, true_or]
    apply replaceChar_of_not_mem
    simp only [List.mem_cons, List.not_mem_nil, or_false, not_or]
    exact ⟨hbx, fun e => hcx e.symm⟩
  · simp only [hc, if_false, List.mem_append, List.mem_cons, List.not_mem_nil, or_false, false_or]
    by_cases hcx : c = x
    · subst hcx
      have : escapeChar c = [c] := by
        rw [escapeChar_eq hT]; simp [entityOf, hr.1, hr.2.1, hr.2.2]
      simp [this, replaceChar]
    · simp only [hcx, if_false]
      apply replaceChar_of_not_mem
      intro hmem
      rcases escapeChar_chars hT c x hmem with h | h
      · exact hcx h.symm
      · exact he h

theorem foldl_passes (hT : escapesAgree Gen.htmlEscapes = true) (s : Str) (rest : List Char) :
    ∀ P : List Char, (P ++ rest).Nodup → (∀ x ∈ rest.tail, x ≠ '\\') → (P ≠ [] → ∀ x ∈ rest, x ≠ '\\') →
      (∀ x ∈ rest, x ∉ entityChars ∧ x ≠ '&' ∧ x ≠ '<' ∧ x ≠ '>') →
      rest.foldl (fun text c => replaceChar text c ['\\', c]) (s.flatMap (partialEsc P))
        = s.flatMap (partialEsc (P ++ rest)) := by
  induction rest with
  | nil => intro P _ _ _ _; simp
  | cons x rest ih =>
    intro P hnd htail hP hE
    simp only [List.foldl_cons]
    rw [replaceChar_flatMap]
    have hxP : x ∉ P := by
      intro hx
      have := List.nodup_append.1 hnd
      exact this.2.2 x hx x (by simp) rfl
    have hstep : ∀ c, replaceChar (partialEsc P c) x ['\\', x] = partialEsc (P ++ [x]) c := fun c =>
      partialEsc_step hT P x c hxP (fun h => hP h x (by simp)) (hE x (by simp)).1 (hE x (by simp)).2
    simp only [hstep]
    have := ih (P ++ [x]) (by simpa [List.append_assoc] using hnd)
      (fun y hy => htail y (by simp only [List.tail_cons]; exact List.mem_of_mem_tail hy))
      (fun _ y hy => htail y (by simpa using hy))
      (fun y hy => hE y (by simp [hy]))
    simpa [List.append_assoc] using this

theorem tableOK_facts {L : List Char} (h : tableOK L = true) :
    L.Nodup ∧ (∀ x ∈ L.tail, x ≠ '\\') ∧ ∀ x ∈ L, x ∉ entityChars ∧ x ≠ '&' ∧ x ≠ '<' ∧ x ≠ '>' := by
  simp only [tableOK, Bool.and_eq_true, List.all_eq_true, decide_eq_true_eq, bne_iff_ne,
    Bool.not_eq_true', List.contains_eq_mem, decide_eq_false_iff_not] at h
  obtain ⟨⟨h1, h2⟩, h3⟩ := h
  refine ⟨h1, h2, fun x hx => ?_⟩
  have := h3 x hx
  have hm : ∀ d, d ∈ reservedChars → x ≠ d := fun d hd e => this (e ▸ hd)
  refine ⟨fun he => ?_, hm '&' (by decide), hm '<' (by decide), hm '>' (by decide)⟩
  apply this
  have hsub : ∀ d, d ∈ entityChars → d ∈ reservedChars := by
    intro d hd
    simp only [entityChars, List.mem_cons, List.not_mem_nil, or_false] at hd
    simp only [reservedChars, List.mem_cons, List.not_mem_nil, or_false]
    rcases hd with h | h | h | h | h | h | h | h <;> simp [h]
  exact hsub x he

/-- **the escaping passes are the character-wise map** -/
theorem formatStr_eq (hE : escapesAgree Gen.htmlEscapes = true) (hL : tableOK Gen.mdSpecialChars = true)
    (s : Str) : formatStr s = s.flatMap (escChar Gen.mdSpecialChars) := by
  obtain ⟨h1, h2, h3⟩ := tableOK_facts hL
  unfold formatStr
  have h00 : partialEsc [] = escapeChar := by funext c; simp [partialEsc]
  have h0 : escape s = s.flatMap (partialEsc []) := by rw [h00]; rfl
  rw [h0, foldl_passes hE s Gen.mdSpecialChars [] (by simpa using h1) h2 (fun h => absurd rfl h) h3]
  simp only [List.nil_append]
  have h9 : partialEsc Gen.mdSpecialChars = escChar Gen.mdSpecialChars := by
    funext c
    unfold partialEsc escChar
    rw [escapeChar_eq hE]
    split
    · rfl
    · cases entityOf c <;> rfl
  rw [h9]

theorem unescape_plain (L : List Char) (c : Char) (r : Str) (h1 : c ≠ '\\') (h2 : c ≠ '&')
    (h3 : ¬(c ∈ L ∨ c = '<' ∨ c = '>')) : unescape L (c :: r) = (unescape L r).map (c :: ·) := by
  rw [unescape.eq_def]; simp only [h1, h2, h3, if_false]

theorem escChar_ne_nil (L : List Char) (c : Char) : escChar L c ≠ [] := by
  unfold escChar entityOf
  split
  · simp
  · split
    · rename_i e he
      split at he
      · cases he; decide
      · split at he
        · cases he; decide
        · split at he
          · cases he; decide
          · cases he
    · simp

/-- a rendered string is empty only if the string is -/
theorem flatMap_escChar_eq_nil (L : List Char) (s : Str) (h : s.flatMap (escChar L) = []) : s = [] := by
  cases s with
  | nil => rfl
  | cons c s =>
    simp only [List.flatMap_cons, List.append_eq_nil_iff] at h
    exact absurd h.1 (escChar_ne_nil L c)

/-- **the reader undoes the escaping** (the backslash must be in the list) -/
theorem unescape_escape (L : List Char) (hb : '\\' ∈ L) (s : Str) :
    unescape L (s.flatMap (escChar L)) = some s := by
  induction s with
  | nil => rfl
  | cons c s ih =>
    simp only [List.flatMap_cons]
    by_cases hc : c ∈ L
    · have : escChar L c = ['\\', c] := by simp [escChar, hc]
      rw [this]
      simp only [List.cons_append, List.nil_append, unescape, if_true, hc, ih, Option.map_some]
    · have hcb : c ≠ '\\' := fun e => hc (e ▸ hb)
      by_cases ha : c = '&'
      · subst ha
        have : escChar L '&' = ['&', 'a', 'm', 'p', ';'] := by
          simp only [escChar, hc, if_false, entityOf, if_true]; decide
        rw [this]
        simp only [List.cons_append, List.nil_append, unescape, show ('&' : Char) ≠ '\\' by decide, if_false,
          if_true, ih, Option.map_some]
      · by_cases hl : c = '<'
        · subst hl
          have : escChar L '<' = ['&', 'l', 't', ';'] := by
            simp only [escChar, hc, if_false, entityOf, show ('<' : Char) ≠ '&' by decide, if_true]; decide
          rw [this]
          simp only [List.cons_append, List.nil_append, unescape, show ('&' : Char) ≠ '\\' by decide, if_false,
            if_true, ih, Option.map_some]
        · by_cases hg : c = '>'
          · subst hg
            have : escChar L '>' = ['&', 'g', 't', ';'] := by
              simp only [escChar, hc, if_false, entityOf, show ('>' : Char) ≠ '&' by decide,
                show ('>' : Char) ≠ '<' by decide, if_true]; decide
            rw [this]
            simp only [List.cons_append, List.nil_append, unescape, show ('&' : Char) ≠ '\\' by decide,
              if_false, if_true, ih, Option.map_some]
          · have : escChar L c = [c] := by simp [escChar, hc, entityOf, ha, hl, hg]
            rw [this]
            simp only [List.cons_append, List.nil_append]
            rw [unescape_plain L c _ hcb ha (by simp [hc, hl, hg]), ih]; rfl

end Spec.Md
end Pybtex
