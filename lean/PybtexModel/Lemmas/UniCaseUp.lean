/-
Table facts about the single-character case mappings of the running interpreter
(`lowerUC` from `Gen/UnicodeCase.lean`, `upperUC` from `Gen/UnicodeC12.lean`), each proved from a
kernel-evaluated check over every code point of every run of the regenerated tables:

* `upperUC` is idempotent (`lowerUC`: `Lemmas/UniCase.lean`);
* `caseFoldC c = lowerUC (upperUC c)` is a canonical form of "equal up to case":
  it absorbs `lowerUC` and `upperUC` (it is NOT `lowerUC`: ı ↦ I ↦ i, ſ ↦ S ↦ s, µ ↦ Μ ↦ μ);
* the structural characters of the TeX string primitives (braces, backslash, blank, colon and
  the 29 white-space code points) are neither changed by nor the image of a case mapping.
-/
import PybtexModel.Model.TeXStringU
import PybtexModel.Lemmas.UniCase

namespace Pybtex.TeXU

/-- a check over every (code point, image) pair of a run table -/
def tableAll (tbl : List (Nat × Nat × List Run)) (P : Nat → Nat → Bool) : Bool :=
  tbl.all fun g => g.2.2.all fun r => (runPoints r).all fun n =>
    match caseLookupG n tbl with
    | none => true
    | some m => P n m

theorem tableAll_spec {tbl : List (Nat × Nat × List Run)} {P : Nat → Nat → Bool} (hP : tableAll tbl P = true)
    {n m : Nat} (h : caseLookupG n tbl = some m) : P n m = true := by
  obtain ⟨g, hg, r, hr, hn⟩ := caseLookupG_mem h
  simp only [tableAll, List.all_eq_true] at hP
  have h3 := hP g hg r hr n hn
  rw [h] at h3
  exact h3

/-- code points of the structural characters: `{ } \ blank :` and the white-space code points -/
def structCodes : List Nat := [123, 125, 92, 32, 58] ++ wsCodes

/-- a character that decides how a TeX string is scanned, split or title-cased -/
def isStruct (x : Char) : Bool := structCodes.contains x.toNat

/-- the mappings on code points -/
def loN (n : Nat) : Nat := (caseLookupG n Gen.lowerRuns).getD n
def upN (n : Nat) : Nat := (caseLookupG n Gen.upperRunsC12).getD n

theorem upperRuns_ok : tableAll Gen.upperRunsC12 (fun n m =>
    (caseLookupG m Gen.upperRunsC12).isNone && m.isValidChar && !structCodes.contains n && !structCodes.contains m) = true := by
  decide +kernel

theorem lowerRuns_ok : tableAll Gen.lowerRuns (fun n m =>
    m.isValidChar && !structCodes.contains n && !structCodes.contains m && (loN (upN m) == loN (upN n)) &&
      (m != 108 || n == 76) && (m != 117 || n == 85) && (m != 116 || n == 84)) = true := by
  decide +kernel

theorem toNat_ofNat_of_valid {m : Nat} (h : m.isValidChar) : (Char.ofNat m).toNat = m := by
  simp [Char.ofNat, h, Char.toNat, Char.ofNatAux]

theorem char_eq_of_toNat_eq {a b : Char} (h : a.toNat = b.toNat) : a = b := by
  rw [← Char.ofNat_toNat a, ← Char.ofNat_toNat b, h]

theorem lowerUC_toNat (c : Char) : (lowerUC c).toNat = loN c.toNat := by
  unfold lowerUC loN
  cases h : caseLookupG c.toNat Gen.lowerRuns with
  | none => rfl
  | some m =>
    have := tableAll_spec lowerRuns_ok h
    simp only [Bool.and_eq_true, decide_eq_true_eq] at this
    simp [toNat_ofNat_of_valid this.1.1.1.1.1.1]

theorem upperUC_toNat (c : Char) : (upperUC c).toNat = upN c.toNat := by
  unfold upperUC upN
  cases h : caseLookupG c.toNat Gen.upperRunsC12 with
  | none => rfl
  | some m =>
    have := tableAll_spec upperRuns_ok h
    simp only [Bool.and_eq_true, decide_eq_true_eq] at this
    simp [toNat_ofNat_of_valid this.1.1.2]

theorem upN_upN (n : Nat) : upN (upN n) = upN n := by
  unfold upN
  cases h : caseLookupG n Gen.upperRunsC12 with
  | none => simp [h]
  | some m =>
    have := tableAll_spec upperRuns_ok h
    simp only [Bool.and_eq_true, Option.isNone_iff_eq_none] at this
    simp [this.1.1.1]

theorem upperUC_idem (c : Char) : upperUC (upperUC c) = upperUC c :=
  char_eq_of_toNat_eq (by rw [upperUC_toNat, upperUC_toNat, upN_upN])

theorem loN_upN_loN (n : Nat) : loN (upN (loN n)) = loN (upN n) := by
  cases h : caseLookupG n Gen.lowerRuns with
  | none => simp [loN, h]
  | some m =>
    have := tableAll_spec lowerRuns_ok h
    simp only [Bool.and_eq_true, beq_iff_eq] at this
    have e : loN n = m := by simp [loN, h]
    rw [e, this.1.1.1.2]

/-- canonical form of a character up to case -/
def caseFoldC (c : Char) : Char := lowerUC (upperUC c)

theorem caseFoldC_lowerUC (c : Char) : caseFoldC (lowerUC c) = caseFoldC c :=
  char_eq_of_toNat_eq (by
    simp only [caseFoldC, lowerUC_toNat, upperUC_toNat, loN_upN_loN])

theorem caseFoldC_upperUC (c : Char) : caseFoldC (upperUC c) = caseFoldC c := by
  simp only [caseFoldC, upperUC_idem]

theorem loN_struct {n x : Nat} (hx : structCodes.contains x = true) : loN n = x ↔ n = x := by
  unfold loN
  cases h : caseLookupG n Gen.lowerRuns with
  | none => simp
  | some m =>
    have := tableAll_spec lowerRuns_ok h
    simp only [Bool.and_eq_true, Bool.not_eq_true', beq_iff_eq] at this
    simp only [Option.getD_some]
    constructor
    · intro e; subst e; rw [hx] at this; exact absurd this.1.1.1.1.2 (by simp)
    · intro e; subst e; rw [hx] at this; exact absurd this.1.1.1.1.1.2 (by simp)

theorem upN_struct {n x : Nat} (hx : structCodes.contains x = true) : upN n = x ↔ n = x := by
  unfold upN
  cases h : caseLookupG n Gen.upperRunsC12 with
  | none => simp
  | some m =>
    have := tableAll_spec upperRuns_ok h
    simp only [Bool.and_eq_true, Bool.not_eq_true'] at this
    simp only [Option.getD_some]
    constructor
    · intro e; subst e; rw [hx] at this; exact absurd this.2 (by simp)
    · intro e; subst e; rw [hx] at this; exact absurd this.1.2 (by simp)

theorem toNat_eq_iff {a b : Char} : a.toNat = b.toNat ↔ a = b :=
  ⟨char_eq_of_toNat_eq, fun h => by rw [h]⟩

theorem lowerUC_struct {c x : Char} (hx : isStruct x = true) : lowerUC c = x ↔ c = x := by
  rw [← toNat_eq_iff, lowerUC_toNat, loN_struct hx, toNat_eq_iff]

theorem upperUC_struct {c x : Char} (hx : isStruct x = true) : upperUC c = x ↔ c = x := by
  rw [← toNat_eq_iff, upperUC_toNat, upN_struct hx, toNat_eq_iff]

theorem caseFoldC_struct {c x : Char} (hx : isStruct x = true) : caseFoldC c = x ↔ c = x := by
  rw [caseFoldC, lowerUC_struct hx, upperUC_struct hx]

/-! the mode letters of `change.case$`: only `l L`, `u U`, `t T` have the lower-case forms `l u t` -/

theorem loN_mode (n : Nat) : (loN n = 108 ↔ n = 108 ∨ n = 76) ∧ (loN n = 117 ↔ n = 117 ∨ n = 85) ∧
    (loN n = 116 ↔ n = 116 ∨ n = 84) := by
  have f1 : loN 108 = 108 ∧ loN 76 = 108 ∧ loN 117 = 117 ∧ loN 85 = 117 ∧ loN 116 = 116 ∧ loN 84 = 116 := by
    decide +kernel
  cases h : caseLookupG n Gen.lowerRuns with
  | none =>
    have e : loN n = n := by simp [loN, h]
    rw [e]
    refine ⟨⟨Or.inl, ?_⟩, ⟨Or.inl, ?_⟩, ⟨Or.inl, ?_⟩⟩
    · rintro (h1 | h1)
      · exact h1
      · subst h1; rw [← e]; exact f1.2.1
    · rintro (h1 | h1)
      · exact h1
      · subst h1; rw [← e]; exact f1.2.2.2.1
    · rintro (h1 | h1)
      · exact h1
      · subst h1; rw [← e]; exact f1.2.2.2.2.2
  | some m =>
    have := tableAll_spec lowerRuns_ok h
    simp only [Bool.and_eq_true, Bool.or_eq_true, bne_iff_ne, ne_eq, beq_iff_eq] at this
    have e : loN n = m := by simp [loN, h]
    rw [e]
    refine ⟨⟨fun hm => ?_, ?_⟩, ⟨fun hm => ?_, ?_⟩, ⟨fun hm => ?_, ?_⟩⟩
    · rcases this.1.1.2 with h1 | h1
      · exact absurd hm h1
      · exact Or.inr h1
    · rintro (h1 | h1) <;> subst h1 <;> rw [← e]
      · exact f1.1
      · exact f1.2.1
    · rcases this.1.2 with h1 | h1
      · exact absurd hm h1
      · exact Or.inr h1
    · rintro (h1 | h1) <;> subst h1 <;> rw [← e]
      · exact f1.2.2.1
      · exact f1.2.2.2.1
    · rcases this.2 with h1 | h1
      · exact absurd hm h1
      · exact Or.inr h1
    · rintro (h1 | h1) <;> subst h1 <;> rw [← e]
      · exact f1.2.2.2.2.1
      · exact f1.2.2.2.2.2

theorem lowerUC_mode (c : Char) : (lowerUC c = 'l' ↔ c = 'l' ∨ c = 'L') ∧ (lowerUC c = 'u' ↔ c = 'u' ∨ c = 'U') ∧
    (lowerUC c = 't' ↔ c = 't' ∨ c = 'T') := by
  have := loN_mode c.toNat
  refine ⟨?_, ?_, ?_⟩
  · rw [← toNat_eq_iff, lowerUC_toNat, ← toNat_eq_iff (b := 'l'), ← toNat_eq_iff (b := 'L')]; exact this.1
  · rw [← toNat_eq_iff, lowerUC_toNat, ← toNat_eq_iff (b := 'u'), ← toNat_eq_iff (b := 'U')]; exact this.2.1
  · rw [← toNat_eq_iff, lowerUC_toNat, ← toNat_eq_iff (b := 't'), ← toNat_eq_iff (b := 'T')]; exact this.2.2

end Pybtex.TeXU
