/-
C08 — normal form is an invariant of EVERY history (covered operations or not): the statements
behind `C08_normal_preserved` / `C08_history_normal`.  (`step_normal` / `stepG_normal` carry an unused
`Covered` hypothesis; these versions do without it.)
-/
import PybtexModel.Lemmas.RichTextU

namespace Pybtex
namespace RT

theorem step_normal_all (terms : List Str) (t : RT) (ht : Normal t = true) (op : Op)
    (ho : op.OperandsNormal = true) (r : RT) (hr : step terms t op = .ok r) : Normal r = true := by
  cases op with
  | add x => simp only [step, Except.ok.injEq] at hr; subst hr; exact normal_add _ _ ht ho
  | radd x => simp only [step, Except.ok.injEq] at hr; subst hr; exact normal_add _ _ ho ht
  | append x => simp only [step, Except.ok.injEq] at hr; subst hr; exact normal_append _ _ ht ho
  | joinWith xs =>
    simp only [step, Except.ok.injEq] at hr; subst hr
    exact normal_join _ _ ht (by simpa [Op.OperandsNormal] using ho)
  | slice i j => simp only [step, Except.ok.injEq] at hr; subst hr; exact normal_getSlice t ht i j
  | index i => exact normal_getIndex t ht i r hr
  | upper => simp only [step, Except.ok.injEq] at hr; subst hr; exact normal_caseMap _ _ ht
  | lower => simp only [step, Except.ok.injEq] at hr; subst hr; exact normal_caseMap _ _ ht
  | capfirst => simp only [step, Except.ok.injEq] at hr; subst hr; exact normal_capfirst t ht
  | capitalize => simp only [step, Except.ok.injEq] at hr; subst hr; exact normal_capitalize t ht
  | addPeriod => simp only [step, Except.ok.injEq] at hr; subst hr; exact normal_addPeriod _ _ t ht rfl
  | splitPick sep keep pick =>
    simp only [step] at hr
    split at hr
    · rename_i p hp
      simp only [Except.ok.injEq] at hr; subst hr
      exact normal_split t ht sep keep p (List.mem_of_getElem? hp)
    · simp only [Except.ok.injEq] at hr; subst hr; exact ht

theorem run_normal (terms : List Str) (ops : List Op) :
    ∀ (t : RT), Normal t = true → (∀ op ∈ ops, op.OperandsNormal = true) →
      ∀ x, Except.ok x ∈ run terms t ops → Normal x = true := by
  induction ops with
  | nil => intro t _ _ x hx; simp [run] at hx
  | cons op ops ih =>
    intro t ht ho x hx
    simp only [run] at hx
    cases hr : step terms t op with
    | ok r =>
      rw [hr] at hx
      have hn := step_normal_all terms t ht op (ho op (by simp)) r hr
      rcases List.mem_cons.1 hx with h | h
      · cases h; exact hn
      · exact ih r hn (fun o ho' => ho o (by simp [ho'])) x h
    | error e =>
      rw [hr] at hx
      rcases List.mem_cons.1 hx with h | h
      · cases h
      · exact ih t ht (fun o ho' => ho o (by simp [ho'])) x h

theorem stepG_normal_all (cs : CaseSys) (terms : List Str) (t : RT) (ht : Normal t = true) (op : OpG)
    (ho : op.OperandsNormal = true) (r : RT) (hr : stepG cs terms t op = .ok r) : Normal r = true := by
  cases op with
  | add x => simp only [stepG, Except.ok.injEq] at hr; subst hr; exact normal_add _ _ ht ho
  | radd x => simp only [stepG, Except.ok.injEq] at hr; subst hr; exact normal_add _ _ ho ht
  | append x => simp only [stepG, Except.ok.injEq] at hr; subst hr; exact normal_append _ _ ht ho
  | joinWith xs =>
    simp only [stepG, Except.ok.injEq] at hr; subst hr
    exact normal_join _ _ ht (by simpa [OpG.OperandsNormal] using ho)
  | slice i j => simp only [stepG, Except.ok.injEq] at hr; subst hr; exact normal_getSlice t ht i j
  | index i => exact normal_getIndex t ht i r hr
  | upper => simp only [stepG, Except.ok.injEq] at hr; subst hr; exact normal_caseMap _ _ ht
  | lower => simp only [stepG, Except.ok.injEq] at hr; subst hr; exact normal_caseMap _ _ ht
  | capfirst => simp only [stepG, Except.ok.injEq] at hr; subst hr; exact normal_capfirstG cs t ht
  | capitalize => simp only [stepG, Except.ok.injEq] at hr; subst hr; exact normal_capitalizeG cs t ht
  | addPeriod period =>
    simp only [stepG, Except.ok.injEq] at hr; subst hr; exact normal_addPeriod _ _ t ht ho
  | splitPick sep keep pick =>
    simp only [stepG, Except.ok.injEq] at hr; subst hr
    exact normal_pickOf _ _ _ (normal_split t ht sep keep) ht
  | splitRePick re keep pick =>
    simp only [stepG, Except.ok.injEq] at hr; subst hr
    exact normal_pickOf _ _ _ (normal_splitBy _ t ht _) ht
  | abbreviate => exact normal_abbreviate cs.alpha terms t r ht hr

theorem runG_normal (cs : CaseSys) (terms : List Str) (ops : List OpG) :
    ∀ (t : RT), Normal t = true → (∀ op ∈ ops, op.OperandsNormal = true) →
      ∀ x, Except.ok x ∈ runG cs terms t ops → Normal x = true := by
  induction ops with
  | nil => intro t _ _ x hx; simp [runG] at hx
  | cons op ops ih =>
    intro t ht ho x hx
    simp only [runG] at hx
    cases hr : stepG cs terms t op with
    | ok r =>
      rw [hr] at hx
      have hn := stepG_normal_all cs terms t ht op (ho op (by simp)) r hr
      rcases List.mem_cons.1 hx with h | h
      · cases h; exact hn
      · exact ih r hn (fun o ho' => ho o (by simp [ho'])) x h
    | error e =>
      rw [hr] at hx
      rcases List.mem_cons.1 hx with h | h
      · cases h
      · exact ih t ht (fun o ho' => ho o (by simp [ho'])) x h

end RT
end Pybtex
