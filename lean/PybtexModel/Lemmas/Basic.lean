import PybtexModel.Model.Basic
import Batteries.Data.Char.AsciiCasing

namespace Pybtex

theorem lowerC_idem (c : Char) : lowerC (lowerC c) = lowerC c := by
  simp [lowerC]

@[simp] theorem lower_idem (s : Str) : lower (lower s) = lower s := by
  induction s with
  | nil => rfl
  | cons c s ih => simp [lowerC_idem, ih]

end Pybtex
