/-
Token level of the printer/parser argument: what `required` returns on `w ++ text-of-a-lexeme ++ rest`
and what the literal constructors make of it.
-/
import PybtexModel.Lemmas.BstFuel

namespace Pybtex.Bst
open Pybtex.Scanner

/-- white space as it occurs in the text handed to the parser by `parse_string`: no `\r` -/
def White (w : Str) : Prop := ∀ c ∈ w, isWs c = true ∧ c ≠ '\r'

theorem White.nil : White [] := by intro c hc; cases hc

theorem White.countNewlines {w : Str} (hw : White w) : countNewlines w = w.count '\n' :=
  countNewlines_of_no_cr w (fun h => (hw _ h).2 rfl)

/-- lexemes whose text is scanned as the lexeme they are -/
def LexOK : Lex → Prop
  | .word s => s ≠ [] ∧ ∀ c ∈ s, isNameChar c = true
  | .str s => ∀ c ∈ s, c ≠ '"' ∧ c ≠ '\n'
  | _ => True

def kindOf : Lex → TokKind
  | .word _ => .name
  | .int _ => .integer
  | .str _ => .string
  | .lb => .lbrace
  | .rb => .rbrace

/-- what follows the lexeme does not extend it -/
def Follows : Lex → Str → Prop
  | .word _, rest => headSat isNameChar rest = false
  | .int _, rest => headSat isDigit rest = false
  | _, _ => True

theorem isDigit_eq (c : Char) : isDigit c = c.isDigit := by
  unfold isDigit Char.isDigit
  rw [Bool.eq_iff_iff]
  simp only [Bool.and_eq_true, decide_eq_true_eq, ge_iff_le, UInt32.le_iff_toNat_le, Char.toNat]
  rfl

theorem toDigits_all_digit (n : Nat) : ∀ c ∈ Nat.toDigits 10 n, isDigit c = true := by
  intro c hc
  rw [isDigit_eq]
  exact Nat.isDigit_of_mem_toDigits (by omega) (by omega) hc

theorem isDigit_ne_minus {c : Char} (h : isDigit c = true) : c ≠ '-' := by
  intro hc; subst hc; simp [isDigit] at h

theorem isDigit_ne_hash {c : Char} (h : isDigit c = true) : c ≠ '#' := by
  intro hc; subst hc; simp [isDigit] at h

theorem isDigit_isNameChar {c : Char} (h : isDigit c = true) : isNameChar c = true := by
  simp only [isDigit, Bool.and_eq_true, decide_eq_true_eq] at h
  have h1 : c ≠ '#' := by intro hc; subst hc; simp at h
  have h2 : c ≠ '"' := by intro hc; subst hc; simp at h
  have h3 : c ≠ '{' := by intro hc; subst hc; simp at h
  have h4 : c ≠ '}' := by intro hc; subst hc; simp at h
  have h5 : isWs c = false := by
    simp only [isWs, wsCodes, List.contains_eq_mem, List.mem_cons, List.not_mem_nil, or_false,
      decide_eq_false_iff_not]
    omega
  simp [isNameChar, h1, h2, h3, h4, h5]

theorem isWs_not_isNameChar {c : Char} (h : isWs c = true) : isNameChar c = false := by
  simp [isNameChar, h]

theorem isWs_not_isDigit {c : Char} (h : isWs c = true) : isDigit c = false := by
  cases hd : isDigit c with
  | false => rfl
  | true => have := isDigit_isNameChar hd; rw [isWs_not_isNameChar h] at this; cases this

/-! `firstMatch groupPats` on the text of each kind of lexeme -/

theorem namePat_none (s : Str) (h : headSat isNameChar s = false) : namePat.run s = none :=
  matchRun1_none _ _ h

theorem firstMatch_word (s rest : Str) (hs : s ≠ []) (hn : ∀ c ∈ s, isNameChar c = true)
    (hr : headSat isNameChar rest = false) :
    firstMatch groupPats (s ++ rest) = some (.name, s, rest) := by
  cases s with
  | nil => exact absurd rfl hs
  | cons c n =>
    have := matchRun1_append isNameChar c n rest hn hr
    simp only [List.cons_append] at this
    simp only [groupPats, firstMatch, namePat, runPat, List.cons_append, this]

theorem matchString_str (s rest : Str) (hs : ∀ c ∈ s, c ≠ '"') :
    matchString ('"' :: (s ++ ['"']) ++ rest) = some ('"' :: (s ++ ['"']), rest) := by
  have h := takeRun_append (fun c => c != '"') s ('"' :: rest) (by intro c hc; simpa using hs c hc)
    (by simp [headSat])
  simp only [List.cons_append, List.append_assoc, List.nil_append]
  simp only [matchString, h]

theorem firstMatch_str (s rest : Str) (hs : ∀ c ∈ s, c ≠ '"') :
    firstMatch groupPats ('"' :: (s ++ ['"']) ++ rest) = some (.string, '"' :: (s ++ ['"']), rest) := by
  have h1 : namePat.run ('"' :: (s ++ ['"']) ++ rest) = none :=
    namePat_none _ (by simp [headSat, isNameChar])
  have h2 := matchString_str s rest hs
  simp only [groupPats, firstMatch, h1, stringPat, h2]

theorem matchInteger_int (v : Int) (rest : Str) (hr : headSat isDigit rest = false) :
    matchInteger (intText v ++ rest) = some (intText v, rest) := by
  have hne := @Nat.toDigits_ne_nil v.natAbs 10
  cases hd : Nat.toDigits 10 v.natAbs with
  | nil => exact absurd hd hne
  | cons d ds =>
    have hall : ∀ c ∈ d :: ds, isDigit c = true := by rw [← hd]; exact toDigits_all_digit _
    have hrun := matchRun1_append isDigit d ds rest hall hr
    have hdm : d ≠ '-' := isDigit_ne_minus (hall d (by simp))
    unfold intText
    by_cases hv : v < 0
    · simp only [hv, if_true, hd, List.cons_append]
      unfold matchInteger
      simp only [List.cons_append] at hrun
      simp only [hrun]
    · simp only [hv, if_false, hd, List.cons_append]
      unfold matchInteger
      simp only [List.cons_append] at hrun
      split
      · rename_i r heq; simp at heq; exact absurd heq.1 hdm
      · rename_i r hno heq
        simp at heq; subst heq
        simp only [hrun]
      · rename_i h1 h2; exact absurd rfl (h2 _)

theorem firstMatch_int (v : Int) (rest : Str) (hr : headSat isDigit rest = false) :
    firstMatch groupPats (intText v ++ rest) = some (.integer, intText v, rest) := by
  have h1 : namePat.run (intText v ++ rest) = none :=
    namePat_none _ (by simp [intText, headSat, isNameChar])
  have h2 : matchString (intText v ++ rest) = none := by simp [intText, matchString]
  have h3 := matchInteger_int v rest hr
  simp only [groupPats, firstMatch, h1, stringPat, h2, integerPat, h3]

theorem firstMatch_lb (rest : Str) :
    firstMatch groupPats ('{' :: rest) = some (.lbrace, ['{'], rest) := by
  have h1 : namePat.run ('{' :: rest) = none := namePat_none _ (by simp [headSat, isNameChar])
  simp [groupPats, firstMatch, h1, stringPat, matchString, integerPat, matchInteger, lbracePat,
    litPat, matchLit]

theorem firstMatch_rb (rest : Str) :
    firstMatch groupPats ('}' :: rest) = some (.rbrace, ['}'], rest) := by
  have h1 : namePat.run ('}' :: rest) = none := namePat_none _ (by simp [headSat, isNameChar])
  simp [groupPats, firstMatch, h1, stringPat, matchString, integerPat, matchInteger, lbracePat,
    rbracePat, litPat, matchLit]

theorem firstMatch_lex (l : Lex) (hl : LexOK l) (rest : Str) (hf : Follows l rest) :
    firstMatch groupPats (l.text ++ rest) = some (kindOf l, l.text, rest) := by
  cases l with
  | word s => exact firstMatch_word s rest hl.1 hl.2 hf
  | int v => exact firstMatch_int v rest hf
  | str s => exact firstMatch_str s rest (fun c hc => (hl c hc).1)
  | lb => exact firstMatch_lb rest
  | rb => exact firstMatch_rb rest

theorem lex_text_ne_nil (l : Lex) (hl : LexOK l) : l.text ≠ [] := by
  cases l with
  | word s => exact hl.1
  | int v => simp [Lex.text, intText]
  | str s => simp [Lex.text]
  | lb => simp [Lex.text]
  | rb => simp [Lex.text]

/-- the first character of a lexeme is not white space -/
theorem lex_text_head (l : Lex) (hl : LexOK l) : headSat isWs l.text = false := by
  cases l with
  | word s =>
    obtain ⟨h1, h2⟩ := hl
    cases s with
    | nil => exact absurd rfl h1
    | cons c n =>
      have := h2 c (by simp)
      simp only [Lex.text, headSat]
      cases hw : isWs c with
      | false => rfl
      | true => rw [isWs_not_isNameChar hw] at this; cases this
  | int v => simp [Lex.text, intText, headSat, isWs, wsCodes]
  | str s => simp [Lex.text, headSat, isWs, wsCodes]
  | lb => simp [Lex.text, headSat, isWs, wsCodes]
  | rb => simp [Lex.text, headSat, isWs, wsCodes]

theorem headSat_append_of_ne_nil (p : Char → Bool) (a b : Str) (h : a ≠ []) :
    headSat p (a ++ b) = headSat p a := by
  cases a with
  | nil => exact absurd rfl h
  | cons c a => rfl

/-- the token lemma: white space, then a lexeme that is not extended by what follows -/
theorem required_lex (l : Lex) (hl : LexOK l) (w rest : Str) (hw : White w) (ln : Nat)
    (hf : Follows l rest) (d : Option Str) (a : Bool) :
    required groupPats d a ⟨w ++ (l.text ++ rest), ln⟩
      = .ok ((kindOf l, l.text), ⟨rest, ln + w.count '\n'⟩) := by
  rw [required_eq]
  have hne := lex_text_ne_nil l hl
  have hhead : headSat isWs (l.text ++ rest) = false := by
    rw [headSat_append_of_ne_nil _ _ _ hne]; exact lex_text_head l hl
  rw [eatWs_append w (l.text ++ rest) ln (fun c hc => (hw c hc).1) hhead, hw.countNewlines]
  simp only []
  cases htext : l.text ++ rest with
  | nil => simp at htext; exact absurd htext.1 hne
  | cons c r =>
    simp only []
    rw [← htext, firstMatch_lex l hl rest hf]

end Pybtex.Bst
