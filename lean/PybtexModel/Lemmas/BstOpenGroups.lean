/-
The text ends while SEVERAL groups are open (an argument group and function literals nested in
it, each holding complete tokens): premature end of file on the last line.  Generalises
`located_open_group` (one open level) with the open-group machinery of `Lemmas/BstLexical.lean`.
-/
import PybtexModel.Lemmas.BstLexical

namespace Pybtex.Bst
open Pybtex.Scanner

/-- **groups opened and never closed, at any depth** -/
theorem located_open_groups (p : Program) (name : Str) (gs : List (List Tok)) (j : Nat)
    (ts : List Tok) (rest : List (List Tok)) (gaps : List Gap) (tr : Option CommentText) (hp : WFProg p)
    (hname : wfName name = true) (har : cmdArity name = some (gs.length + (j + 1)))
    (hgs : gs.all wfToks = true) (hts : wfToks ts = true) (hrest : rest.all wfToks = true) :
    parseString (render none
        (Program.lexemes p ++ .word name :: (groupsLexemes gs ++ openLexemes (ts :: rest))) gaps
        ++ trailerText tr)
      = .error (.prematureEOF (eofLine (render none
          (Program.lexemes p ++ .word name :: (groupsLexemes gs ++ openLexemes (ts :: rest))) gaps
          ++ trailerText tr))) := by
  have hopens : (ts :: rest).all wfToks = true := by simp [hts, hrest]
  have hall : ∀ l ∈ Program.lexemes p ++ .word name :: (groupsLexemes gs ++ openLexemes (ts :: rest)),
      wfLex l = true := by
    intro l hl
    simp only [List.mem_append, List.mem_cons] at hl
    rcases hl with hl | rfl | hl | hl
    · exact program_wfLex p hp l hl
    · exact wfName_wfLex hname
    · exact groupsLexemes_wfLex gs hgs l hl
    · exact openLexemes_wfLex _ hopens l hl
  rw [← last_line]
  obtain ⟨W, hgood, hclean, _⟩ := clean_of_source _ gaps tr hall
  unfold parseString
  rw [hclean, ← renderWT_nil]
  have htail : TailOK ([] : Str) := TailOK.nil
  have hmoreok : ∀ x ∈ openLexemes (ts :: rest), LexOK x := openLexemes_ok _ hopens
  have hmore1ok : ∀ x ∈ Lex.word name :: (groupsLexemes gs ++ openLexemes (ts :: rest)), LexOK x := by
    intro x hx
    exact wfLex_ok x (hall x (by simp only [List.mem_append]; exact Or.inr hx))
  obtain ⟨ln1, prev1, hpf, hgood1, hcons1⟩ :=
    program_prefix_rtT [] htail p none (.word name :: (groupsLexemes gs ++ openLexemes (ts :: rest))) W 1 1
      hp hmore1ok hgood
  obtain ⟨ln2, hpc, hgood2, hcons2⟩ :=
    command_partialT [] htail name gs (j + 1) prev1 (openLexemes (ts :: rest))
      (W.drop (Program.lexemes p).length) ln1 hname har hgs hmoreok hgood1
  generalize hW3 : (W.drop (Program.lexemes p).length).drop ((groupsLexemes gs).length + 1) = W3
    at hpc hgood2 hcons2
  simp only [openLexemes] at hpc hgood2 hcons2
  obtain ⟨hw3, _, hg3⟩ := hgood2
  have hreq := required_text [(TokKind.lbrace, lbracePat)] .lbrace ['{']
    (renderWT [] (lexemesList ts ++ openLexemes rest) W3.tail) (W3.headD [])
    (by simp) (by simp [headSat, isWs, wsCodes]) hw3
    (by simp [firstMatch, lbracePat, litPat, matchLit]) none false ln2
  obtain ⟨ln4, hw4, hcons4, hcont⟩ :=
    open_inner [] htail rest ts (some .lb) W3.tail (ln2 + (W3.headD []).count '\n') hts hrest hg3
  have hw4' : White (renderWT [] [] (W3.tail.drop (lexemesList ts ++ openLexemes rest).length)) := by
    rw [renderWT_nil_lex, List.append_nil]; exact hw4
  obtain ⟨m, hm⟩ := hcont 1 _ (parseGroupF_eof 0 _ hw4' ln4) (by simp)
  have hpgr := parseGroup_of_fuel _ m _ hm (by simp)
  have hchain : ln4 + nl (renderWT [] [] (W3.tail.drop (lexemesList ts ++ openLexemes rest).length))
      = 1 + nl (renderWT []
          (Program.lexemes p ++ .word name :: (groupsLexemes gs ++ openLexemes (ts :: rest))) W) := by
    have hcons1' := hcons1
    simp only [openLexemes] at hcons1' ⊢
    rw [hcons4, ← hcons1', ← hcons2]
    simp only [renderWT, nl_append, Lex.text]
    simp only [nl]; simp; omega
  rw [hchain] at hpgr
  have hpg : parseGroups (j + 1)
      ⟨renderWT [] (Lex.lb :: (lexemesList ts ++ openLexemes rest)) W3, ln2⟩
      = .error (.prematureEOF (1 + nl (renderWT []
          (Program.lexemes p ++ .word name :: (groupsLexemes gs ++ openLexemes (ts :: rest))) W))) := by
    simp only [parseGroups, renderWT, Lex.text]
    rw [hreq]
    simp only [hpgr]
  have hpc' : parseCommand ⟨renderWT [] (.word name :: (groupsLexemes gs ++ openLexemes (ts :: rest)))
      (W.drop (Program.lexemes p).length), ln1⟩
      = .error (.prematureEOF (1 + nl (renderWT []
          (Program.lexemes p ++ .word name :: (groupsLexemes gs ++ openLexemes (ts :: rest))) W))) := by
    simp only [openLexemes]
    rw [hpc, hpg]; rfl
  apply parseText_of_fuel _ (1 + p.length) _ _ (by simp)
  unfold St.init
  rw [hpf, parseF_one_error _ _ hpc' (by simp)]

end Pybtex.Bst
