/-
C19 helper lemmas, engine level: the `.bbl` text `render` assigns to a trace of output calls
(`Spec/BstSem.lean`, proved of `Interp.run` in `Lemmas/Interp.lean`) is `engineOutput` of the
`newline$` groups of the trace (`Spec/WrapEngine.lean`).
-/
import PybtexModel.Spec.WrapEngine
import PybtexModel.Lemmas.Wrap
import PybtexModel.Lemmas.Interp

namespace Pybtex.Wrap
open Pybtex Pybtex.Interp Pybtex.BstSem

theorem render_eq_engineOutput (evs : List OutEv) : ∀ pending : List Str,
    render pending.flatten evs = engineOutput (traceGroups pending evs) := by
  induction evs with
  | nil => intro pending; simp [render, traceGroups, engineOutput_eq]
  | cons e evs ih =>
    intro pending
    cases e with
    | write x =>
      simp only [render, traceGroups]
      rw [← ih (pending ++ [x])]
      simp
    | newline =>
      simp only [render, traceGroups]
      rw [engineOutput_cons, ← ih []]
      simp

theorem traceGroups_length (evs : List OutEv) : ∀ pending : List Str,
    (traceGroups pending evs).length = traceNewlines evs := by
  induction evs with
  | nil => intro pending; rfl
  | cons e evs ih =>
    intro pending
    cases e with
    | write x => simpa [traceGroups, traceNewlines] using ih (pending ++ [x])
    | newline => simp [traceGroups, traceNewlines, ih []]

/-- the groups, concatenated, are the pieces written (pending ones first), in order, up to the
last `newline$`: a prefix of all pieces — everything when the trace ends in `newline$` -/
theorem traceGroups_flatten (evs : List OutEv) : ∀ pending : List Str,
    (traceGroups pending evs).flatten <+: pending ++ traceWrites evs ∧
    (evs.getLast? = some .newline → (traceGroups pending evs).flatten = pending ++ traceWrites evs) := by
  induction evs with
  | nil => intro pending; simp [traceGroups, traceWrites]
  | cons e evs ih =>
    intro pending
    cases e with
    | write x =>
      have := ih (pending ++ [x])
      simp only [traceGroups, traceWrites]
      constructor
      · simpa using this.1
      · intro hl
        have hl' : evs.getLast? = some .newline := by
          cases evs with
          | nil => simp at hl
          | cons y ys => simpa [List.getLast?_cons_cons] using hl
        simpa using this.2 hl'
    | newline =>
      have := ih []
      simp only [traceGroups, traceWrites, List.flatten_cons]
      constructor
      · exact (List.prefix_append_right_inj pending).2 (by simpa using this.1)
      · intro hl
        cases evs with
        | nil => simp [traceGroups, traceWrites]
        | cons y ys =>
          have hl' : (y :: ys).getLast? = some .newline := by simpa [List.getLast?_cons_cons] using hl
          rw [this.2 hl']; simp

end Pybtex.Wrap
