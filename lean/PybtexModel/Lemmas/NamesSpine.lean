/-
Helper notions and lemmas for the lift of the person-level name theorem (`C07_person_words_shown`) to whole entries
(`Props/C07y.lean`).

`onSpine role t`: a `names` node for `role` (compared as the `names` node itself compares role names: case-insensitively)
is reachable from the root of `t` through nodes that evaluate ALL their children and keep their letters: `join`,
`together`, `tag`, the children (not the URL) of `href`, and `sentence` without `capfirst` / `capitalize`.  Never through
`optional` or `first_of`.
-/
import PybtexModel.Lemmas.Template
import PybtexModel.Spec.UnsrtStyle

namespace Pybtex.Tmpl.Spec
open Pybtex Pybtex.RT Pybtex.Tmpl

mutual
def onSpine (role : Str) : T → Bool
  | .lit _ => false
  | .raw _ => false
  | .join _ _ _ cs => onSpineL role cs
  | .together _ cs => onSpineL role cs
  | .sentence cf cap _ _ cs => !cf && (!cap && onSpineL role cs)
  | .field _ _ _ => false
  | .names r _ _ _ => decide (lower r = lower role)
  | .optional _ => false
  | .firstOf _ => false
  | .tag _ cs => onSpineL role cs
  | .href _ _ cs => onSpineL role cs
  | .namePart _ _ _ _ => false
def onSpineL (role : Str) : List T → Bool
  | [] => false
  | t :: ts => onSpine role t || onSpineL role ts
end

private theorem map_cc_id (l : List NOcc) :
    l.map (fun o => { o with caseChanged := o.caseChanged || false || false }) = l := by
  induction l with
  | nil => rfl
  | cons o l ih => cases o; simp

/-- the name templates of the role found on the spine are evaluated (with some fuel `k`), and every name word on their
evaluated path is on the evaluated path of the whole template, with the same flags -/
theorem spine_printedN (ctx : Ctx) (role : Str) : ∀ fuel,
    (∀ t r, eval fuel ctx t = .ok r → onSpine role t = true →
      ∃ nm ts k rs, (ctx.personTemplates.find? fun p => lower p.1 = lower role) = some (nm, ts) ∧
        evalList k ctx ts = .ok rs ∧ ∀ o ∈ printedNL k ctx ts, o ∈ printedN fuel ctx t) ∧
    (∀ ts' rs', evalList fuel ctx ts' = .ok rs' → onSpineL role ts' = true →
      ∃ nm ts k rs, (ctx.personTemplates.find? fun p => lower p.1 = lower role) = some (nm, ts) ∧
        evalList k ctx ts = .ok rs ∧ ∀ o ∈ printedNL k ctx ts, o ∈ printedNL fuel ctx ts') := by
  intro fuel
  induction fuel with
  | zero => refine ⟨?_, ?_⟩ <;> intro t r h <;> simp [eval, evalList] at h
  | succ n ih =>
    obtain ⟨ih1, ih2⟩ := ih
    refine ⟨?_, ?_⟩
    · intro t r h hs
      cases t with
      | lit x => simp [onSpine] at hs
      | raw s => simp [onSpine] at hs
      | field name fn raw => simp [onSpine] at hs
      | optional cs => simp [onSpine] at hs
      | firstOf cs => simp [onSpine] at hs
      | namePart before tie abbr cs => simp [onSpine] at hs
      | join s s2 ls cs =>
        simp only [eval] at h
        split at h
        · cases h
        · rename_i parts hp
          obtain ⟨nm, ts, k, rs, hf, hk, hsub⟩ := ih2 cs parts hp (by simpa [onSpine] using hs)
          exact ⟨nm, ts, k, rs, hf, hk, fun o ho => by simpa [printedN] using hsub o ho⟩
      | together lt cs =>
        simp only [eval] at h
        split at h
        · cases h
        · rename_i parts hp
          obtain ⟨nm, ts, k, rs, hf, hk, hsub⟩ := ih2 cs parts hp (by simpa [onSpine] using hs)
          exact ⟨nm, ts, k, rs, hf, hk, fun o ho => by simpa [printedN] using hsub o ho⟩
      | tag name cs =>
        simp only [eval] at h
        split at h
        · cases h
        · rename_i parts hp
          obtain ⟨nm, ts, k, rs, hf, hk, hsub⟩ := ih2 cs parts hp (by simpa [onSpine] using hs)
          exact ⟨nm, ts, k, rs, hf, hk, fun o ho => by simpa [printedN] using hsub o ho⟩
      | href url ext cs =>
        rw [eval_href] at h
        split at h
        · cases h
        · split at h
          · cases h
          · rename_i parts hp
            obtain ⟨nm, ts, k, rs, hf, hk, hsub⟩ := ih2 cs parts hp (by simpa [onSpine] using hs)
            exact ⟨nm, ts, k, rs, hf, hk, fun o ho => by simpa [printedN] using hsub o ho⟩
      | sentence cf cap ap sep cs =>
        rw [eval_sentence] at h
        split at h
        · cases h
        · rename_i parts hp
          simp only [onSpine, Bool.and_eq_true, Bool.not_eq_true'] at hs
          obtain ⟨hcf, hcap, hs⟩ := hs
          subst hcf; subst hcap
          obtain ⟨nm, ts, k, rs, hf, hk, hsub⟩ := ih2 cs parts hp hs
          refine ⟨nm, ts, k, rs, hf, hk, fun o ho => ?_⟩
          simp only [printedN, map_cc_id]
          exact hsub o ho
      | names role' s s2 ls =>
        simp only [onSpine, decide_eq_true_eq] at hs
        simp only [eval, hs] at h
        split at h
        · cases h
        · rename_i r' ts hf
          split at h
          · cases h
          · rename_i parts hp
            refine ⟨r', ts, n, parts, hf, hp, fun o ho => ?_⟩
            simp only [printedN, hs, hf]
            exact ho
    · intro ts' rs' h hs
      cases ts' with
      | nil => simp [onSpineL] at hs
      | cons t ts' =>
        simp only [evalList] at h
        split at h
        · cases h
        · rename_i r hr
          split at h
          · cases h
          · rename_i rs'' hrs
            simp only [onSpineL, Bool.or_eq_true] at hs
            rcases hs with hs | hs
            · obtain ⟨nm, ts, k, rs, hf, hk, hsub⟩ := ih1 t r hr hs
              exact ⟨nm, ts, k, rs, hf, hk, fun o ho => by
                simp only [printedNL, List.mem_append]; exact Or.inl (hsub o ho)⟩
            · obtain ⟨nm, ts, k, rs, hf, hk, hsub⟩ := ih2 ts' rs'' hrs hs
              exact ⟨nm, ts, k, rs, hf, hk, fun o ho => by
                simp only [printedNL, List.mem_append]; exact Or.inr (hsub o ho)⟩

/-- a list that evaluates is shorter than the fuel -/
theorem evalList_length_lt (ctx : Ctx) : ∀ (ts : List T) (k : Nat) (rs : List RT), evalList k ctx ts = .ok rs → ts.length < k := by
  intro ts
  induction ts with
  | nil => intro k rs h; cases k with
    | zero => simp [evalList] at h
    | succ k => simp
  | cons t ts ih =>
    intro k rs h
    cases k with
    | zero => simp [evalList] at h
    | succ k =>
      simp only [evalList] at h
      split at h
      · cases h
      · split at h
        · cases h
        · rename_i rs' hrs
          have := ih k rs' hrs
          simp only [List.length_cons]; omega

/-- every member of a list that evaluates evaluates itself (with some fuel), and its name words are among the list's -/
theorem evalList_mem (ctx : Ctx) : ∀ (ts : List T) (k : Nat) (rs : List RT), evalList k ctx ts = .ok rs →
    ∀ t ∈ ts, ∃ j r, eval j ctx t = .ok r ∧ ∀ o ∈ printedN j ctx t, o ∈ printedNL k ctx ts := by
  intro ts
  induction ts with
  | nil => intro k rs _ t ht; cases ht
  | cons t0 ts ih =>
    intro k rs h t ht
    cases k with
    | zero => simp [evalList] at h
    | succ k =>
      simp only [evalList] at h
      split at h
      · cases h
      · rename_i r hr
        split at h
        · cases h
        · rename_i rs' hrs
          rcases List.mem_cons.1 ht with rfl | ht
          · exact ⟨k, r, hr, fun o ho => by simp only [printedNL, List.mem_append]; exact Or.inl ho⟩
          · obtain ⟨j, r', hj, hsub⟩ := ih k rs' hrs t ht
            exact ⟨j, r', hj, fun o ho => by simp only [printedNL, List.mem_append]; exact Or.inr (hsub o ho)⟩

/-- a `join` of four children needs fuel 6 -/
theorem eval_join4_fuel (ctx : Ctx) (j : Nat) (s s2 ls : RT) (a b c d : T) (r : RT)
    (h : eval j ctx (.join s s2 ls [a, b, c, d]) = .ok r) : ∃ f, j = f + 6 := by
  cases j with
  | zero => simp [eval] at h
  | succ j =>
    simp only [eval] at h
    split at h
    · cases h
    · rename_i parts hp
      have := evalList_length_lt ctx _ _ _ hp
      simp only [List.length_cons, List.length_nil] at this
      exact ⟨j - 5, by omega⟩

/-! ### from the roles of the entry to the table of name templates -/

theorem formatNames_mem {st : NameStyle} {dec : List (Str × Str)} {abbr : Bool} :
    ∀ {ps : List Person} {ts : List T}, Tmpl.formatNames st dec abbr ps = .ok ts →
      ∀ p ∈ ps, ∃ t ∈ ts, formatName st dec p abbr = .ok t := by
  intro ps
  induction ps with
  | nil => intro ts _ p hp; cases hp
  | cons p0 ps ih =>
    intro ts h p hp
    simp only [Tmpl.formatNames] at h
    split at h; · cases h
    rename_i t0 ht0
    split at h; · cases h
    rename_i ts' hts'
    simp only [Except.ok.injEq] at h; subst h
    rcases List.mem_cons.1 hp with rfl | hp
    · exact ⟨t0, by simp, ht0⟩
    · obtain ⟨t, ht, hft⟩ := ih hts' p hp
      exact ⟨t, List.mem_cons_of_mem _ ht, hft⟩

/-- the table of name templates has the roles of the entry, in order, under the same names -/
theorem personTemplatesOf_find {st : NameStyle} {dec : List (Str × Str)} {abbr : Bool} (q : Str → Bool) :
    ∀ {roles : List (Str × List Person)} {pts : List (Str × List T)}, personTemplatesOf st dec abbr roles = .ok pts →
      ∀ nm ts, (pts.find? fun p => q p.1) = some (nm, ts) →
        ∃ ps, (roles.find? fun p => q p.1) = some (nm, ps) ∧ Tmpl.formatNames st dec abbr ps = .ok ts := by
  intro roles
  induction roles with
  | nil =>
    intro pts h nm ts hf
    simp only [personTemplatesOf, Except.ok.injEq] at h; subst h
    simp at hf
  | cons r0 roles ih =>
    intro pts h nm ts hf
    obtain ⟨role0, ps0⟩ := r0
    simp only [personTemplatesOf] at h
    split at h; · cases h
    rename_i ts0 hts0
    split at h; · cases h
    rename_i l hl
    simp only [Except.ok.injEq] at h; subst h
    simp only [List.find?_cons] at hf ⊢
    cases hq : q role0 with
    | true =>
      simp only [hq, Option.some.injEq, Prod.mk.injEq] at hf ⊢
      obtain ⟨rfl, rfl⟩ := hf
      exact ⟨ps0, ⟨rfl, rfl⟩, hts0⟩
    | false =>
      simp only [hq] at hf ⊢
      exact ih hl nm ts hf

/-! ### the words of a person among the name occurrences -/

theorem richTexts_mem' {dec : List (Str × Str)} : ∀ {ws : List Str} {rs : List RT}, richTexts dec ws = .ok rs →
    ∀ w ∈ ws, ∃ r ∈ rs, fromLatex (decodeOf dec w) = .ok r := by
  intro ws
  induction ws with
  | nil => intro rs _ w hw; cases hw
  | cons w0 ws ih =>
    intro rs h w hw
    simp only [richTexts] at h
    split at h; · cases h
    rename_i r0 hr0
    split at h; · cases h
    rename_i rs' hrs'
    simp only [Except.ok.injEq] at h; subst h
    rcases List.mem_cons.1 hw with rfl | hw
    · exact ⟨r0, by simp, hr0⟩
    · obtain ⟨r, hr, hfl⟩ := ih hrs' w hw
      exact ⟨r, by simp [hr], hfl⟩

/-- the shipped name styles build `join [a, b, c, d]` -/
theorem formatName_shape {st : NameStyle} {dec : List (Str × Str)} {p : Person} {abbr : Bool} {t : T}
    (h : formatName st dec p abbr = .ok t) : ∃ a b c d, t = .join emptyStr emptyStr emptyStr [a, b, c, d] := by
  cases st <;> simp only [formatName] at h <;>
    (split at h; · cases h) <;> (split at h; · cases h) <;> (split at h; · cases h) <;> (split at h; · cases h) <;>
    (simp only [Except.ok.injEq] at h; subst h; exact ⟨_, _, _, _, rfl⟩)

/-- if every name occurrence of a person (`nameOccs`) is covered by the text `out`, every word of the person is shown in it -/
theorem words_of_nameOccs {st : NameStyle} {dec : List (Str × Str)} {p : Person} {abbr : Bool} {fm von last jr : List RT}
    {out : Str}
    (hfm : richTexts dec (p.first ++ p.middle) = .ok fm) (hvon : richTexts dec p.prelast = .ok von)
    (hlast : richTexts dec p.last = .ok last) (hjr : richTexts dec p.lineage = .ok jr)
    (hcov : ∀ o ∈ nameOccs st abbr fm von last jr, Covers o.caseChanged (toStr o.shown) out) :
    (∀ w ∈ p.first ++ p.middle, ∃ x, fromLatex (decodeOf dec w) = .ok x ∧
      toStr (if abbr then abbreviate x else x) <:+: out) ∧
    (∀ w ∈ p.prelast ++ p.last ++ p.lineage, ∃ x, fromLatex (decodeOf dec w) = .ok x ∧ toStr x <:+: out) := by
  have key : ∀ (b : Bool) (rs : List RT) (x : RT), x ∈ rs → occs b rs ⊆ nameOccs st abbr fm von last jr →
      toStr (if b then abbreviate x else x) <:+: out := by
    intro b rs x hx hsub
    have hm : (⟨x, b, false⟩ : NOcc) ∈ occs b rs := List.mem_map.2 ⟨x, hx, rfl⟩
    have := hcov _ (hsub hm)
    simpa [Covers, NOcc.shown] using this
  constructor
  · intro w hw
    obtain ⟨x, hx, hfl⟩ := richTexts_mem' hfm w hw
    refine ⟨x, hfl, key abbr fm x hx ?_⟩
    cases st <;> intro o ho <;> simp [nameOccs, ho]
  · intro w hw
    rcases List.mem_append.1 hw with hw | hw
    · rcases List.mem_append.1 hw with hw | hw
      · obtain ⟨x, hx, hfl⟩ := richTexts_mem' hvon w hw
        refine ⟨x, hfl, ?_⟩
        have := key false von x hx (by cases st <;> intro o ho <;> simp [nameOccs, ho])
        simpa using this
      · obtain ⟨x, hx, hfl⟩ := richTexts_mem' hlast w hw
        refine ⟨x, hfl, ?_⟩
        have := key false last x hx (by cases st <;> intro o ho <;> simp [nameOccs, ho])
        simpa using this
    · obtain ⟨x, hx, hfl⟩ := richTexts_mem' hjr w hw
      refine ⟨x, hfl, ?_⟩
      have := key false jr x hx (by cases st <;> intro o ho <;> simp [nameOccs, ho])
      simpa using this

/-- the items of the shipped pipeline, entry by entry -/
theorem lookup_shipped' {cfg : Unsrt.StyleConfig} {dec : List (Str × Str)} :
    ∀ {es : List PEntry} {tbl : List (Str × Option Item)}, Unsrt.shippedTable cfg dec es = .ok tbl → (es.map (·.key)).Nodup →
      ∀ e ∈ es, ∃ it, Unsrt.shippedItem cfg dec e = .ok it ∧ Unsrt.lookupItem tbl e.key = it := by
  intro es
  induction es with
  | nil => intro tbl _ _ e he; cases he
  | cons e0 es ih =>
    intro tbl h hnd e he
    simp only [Unsrt.shippedTable] at h
    split at h; · cases h
    rename_i it0 hit0
    split at h; · cases h
    rename_i l hl
    simp only [Except.ok.injEq] at h; subst h
    simp only [List.map_cons, List.nodup_cons] at hnd
    rcases List.mem_cons.1 he with rfl | he'
    · exact ⟨it0, hit0, by simp [Unsrt.lookupItem]⟩
    · obtain ⟨it, h1, h2⟩ := ih hl hnd.2 e he'
      refine ⟨it, h1, ?_⟩
      have hne : ¬ e0.key = e.key := fun hk => hnd.1 (by rw [hk]; exact List.mem_map.2 ⟨e, he', rfl⟩)
      simpa [Unsrt.lookupItem, hne] using h2

end Pybtex.Tmpl.Spec
