/-
Lemmas about the XML text writer (`Model/BibWriteText.lean`) against the reference reading of
character data and attribute values (`Spec/BibWriteText.lean`) — C02, round 2.
-/
import PybtexModel.Model.BibWriteText
import PybtexModel.Spec.BibWriteText

namespace Pybtex.C02
open Pybtex Pybtex.BibWrite

theorem replaceChar_append (c : Char) (rep a b : Str) :
    replaceChar c rep (a ++ b) = replaceChar c rep a ++ replaceChar c rep b := by
  induction a with
  | nil => rfl
  | cons x r ih => simp [replaceChar, ih]

theorem replaceChar_flatMap (c : Char) (rep : Str) (f : Char → Str) (s : Str) :
    replaceChar c rep (s.flatMap f) = s.flatMap (fun x => replaceChar c rep (f x)) := by
  induction s with
  | nil => rfl
  | cons x r ih => simp [List.flatMap_cons, replaceChar_append, ih]

theorem replaceChar_eq_flatMap (c : Char) (rep : Str) (s : Str) :
    replaceChar c rep s = s.flatMap (fun x => replaceChar c rep [x]) := by
  induction s with
  | nil => rfl
  | cons x r ih =>
    rw [List.flatMap_cons, ← ih]
    simp [replaceChar]

/-- what `escape` does to one character -/
def escChar (c : Char) : Str :=
  if c = '&' then ['&', 'a', 'm', 'p', ';'] else if c = '>' then ['&', 'g', 't', ';']
  else if c = '<' then ['&', 'l', 't', ';'] else [c]

/-- what `quoteattr` does to one character before it chooses the quotes -/
def attrChar (c : Char) : Str :=
  if c = '\n' then ['&', '#', '1', '0', ';'] else if c = '\r' then ['&', '#', '1', '3', ';']
  else if c = '\t' then ['&', '#', '9', ';'] else escChar c

/-- … and when the value contains both kinds of quotes -/
def attrCharQ (c : Char) : Str := if c = '"' then ['&', 'q', 'u', 'o', 't', ';'] else attrChar c

theorem escChar_eq (c : Char) :
    replaceChar '<' "&lt;".toList (replaceChar '>' "&gt;".toList (replaceChar '&' "&amp;".toList [c])) = escChar c := by
  by_cases h1 : c = '&'
  · subst h1; decide
  · by_cases h2 : c = '>'
    · subst h2; decide
    · by_cases h3 : c = '<'
      · subst h3; decide
      · simp [replaceChar, escChar, h1, h2, h3]

theorem xmlEscape_flatMap (s : Str) : xmlEscape s = s.flatMap escChar := by
  unfold xmlEscape
  rw [replaceChar_eq_flatMap '&', replaceChar_flatMap, replaceChar_flatMap]
  congr 1
  funext c
  exact escChar_eq c

theorem attrChar_eq (c : Char) :
    replaceChar '\t' "&#9;".toList (replaceChar '\r' "&#13;".toList (replaceChar '\n' "&#10;".toList (escChar c))) = attrChar c := by
  by_cases h1 : c = '&'
  · subst h1; decide
  · by_cases h2 : c = '>'
    · subst h2; decide
    · by_cases h3 : c = '<'
      · subst h3; decide
      · by_cases h4 : c = '\n'
        · subst h4; decide
        · by_cases h5 : c = '\r'
          · subst h5; decide
          · by_cases h6 : c = '\t'
            · subst h6; decide
            · simp [replaceChar, escChar, attrChar, h1, h2, h3, h4, h5, h6]

/-- the value `quoteattr` puts between the quotes when it needs no `&quot;` -/
theorem attrBody_flatMap (s : Str) :
    replaceChar '\t' "&#9;".toList (replaceChar '\r' "&#13;".toList
      (replaceChar '\n' "&#10;".toList (xmlEscape s))) = s.flatMap attrChar := by
  rw [xmlEscape_flatMap, replaceChar_flatMap, replaceChar_flatMap, replaceChar_flatMap]
  congr 1
  funext c
  exact attrChar_eq c

theorem attrCharQ_eq (c : Char) : replaceChar '"' "&quot;".toList (attrChar c) = attrCharQ c := by
  by_cases h1 : c = '&'
  · subst h1; decide
  · by_cases h2 : c = '>'
    · subst h2; decide
    · by_cases h3 : c = '<'
      · subst h3; decide
      · by_cases h4 : c = '\n'
        · subst h4; decide
        · by_cases h5 : c = '\r'
          · subst h5; decide
          · by_cases h6 : c = '\t'
            · subst h6; decide
            · by_cases h7 : c = '"'
              · subst h7; decide
              · simp [replaceChar, escChar, attrChar, attrCharQ, h1, h2, h3, h4, h5, h6, h7]

/-! reading back -/

/-- `f` writes every character as something the reference reader turns back into that character -/
def ReadsBack (f : Char → Str) : Prop :=
  ∀ c t, xmlUnescapeAux none (f c ++ t) = (xmlUnescapeAux none t).map (c :: ·)

theorem unescape_flatMap {f : Char → Str} (hf : ReadsBack f) (s : Str) :
    xmlUnescape (s.flatMap f) = some s := by
  unfold xmlUnescape
  induction s with
  | nil => rfl
  | cons c r ih => rw [List.flatMap_cons, hf, ih]; rfl

theorem readsBack_esc : ReadsBack escChar := by
  intro c t
  by_cases h1 : c = '&'
  · subst h1; simp [escChar, xmlUnescapeAux, entityChar]
  · by_cases h2 : c = '>'
    · subst h2; simp [escChar, xmlUnescapeAux, entityChar]
    · by_cases h3 : c = '<'
      · subst h3; simp [escChar, xmlUnescapeAux, entityChar]
      · simp [escChar, xmlUnescapeAux, h1, h2, h3]

theorem readsBack_attr : ReadsBack attrChar := by
  intro c t
  by_cases h4 : c = '\n'
  · subst h4; simp [attrChar, xmlUnescapeAux, entityChar]
  · by_cases h5 : c = '\r'
    · subst h5; simp [attrChar, xmlUnescapeAux, entityChar]
    · by_cases h6 : c = '\t'
      · subst h6; simp [attrChar, xmlUnescapeAux, entityChar]
      · simp only [attrChar, h4, h5, h6, if_false]; exact readsBack_esc c t

theorem readsBack_attrQ : ReadsBack attrCharQ := by
  intro c t
  by_cases h7 : c = '"'
  · subst h7; simp [attrCharQ, xmlUnescapeAux, entityChar]
  · simp only [attrCharQ, h7, if_false]; exact readsBack_attr c t

/-- the text written for character data is read back as the data: every string -/
theorem xmlUnescape_escape (s : Str) : xmlUnescape (xmlEscape s) = some s := by
  rw [xmlEscape_flatMap]; exact unescape_flatMap readsBack_esc s

theorem flatMap_contains_false {f : Char → Str} {q : Char} (hf : ∀ c, (f c).contains q = false) (s : Str) :
    (s.flatMap f).contains q = false := by
  induction s with
  | nil => rfl
  | cons c r ih =>
    rw [List.flatMap_cons]
    simp only [List.contains_eq_mem, List.mem_append, decide_eq_false_iff_not, not_or] at ih hf ⊢
    exact ⟨hf c, ih⟩

theorem attrCharQ_noquote (c : Char) : (attrCharQ c).contains '"' = false := by
  by_cases h7 : c = '"'
  · subst h7; decide
  · by_cases h1 : c = '&'
    · subst h1; decide
    · by_cases h2 : c = '>'
      · subst h2; decide
      · by_cases h3 : c = '<'
        · subst h3; decide
        · by_cases h4 : c = '\n'
          · subst h4; decide
          · by_cases h5 : c = '\r'
            · subst h5; decide
            · by_cases h6 : c = '\t'
              · subst h6; decide
              · simp [attrCharQ, attrChar, escChar, h1, h2, h3, h4, h5, h6, h7]
                exact fun h => h7 h.symm

theorem attrValue_quoted (q : Char) (hq : q = '"' ∨ q = '\'') (body s : Str)
    (hc : body.contains q = false) (hu : xmlUnescape body = some s) :
    xmlAttrValue (q :: body ++ [q]) = some s := by
  simp only [List.cons_append, xmlAttrValue, hq, if_true, List.getLast?_append, List.getLast?_singleton, Option.some_or,
    List.dropLast_concat, hc, and_self, hu]

/-- an attribute value written by `quoteattr` is read back as the value: every string -/
theorem xmlAttrValue_quoteAttr (s : Str) : xmlAttrValue (xmlQuoteAttr s) = some s := by
  unfold xmlQuoteAttr
  simp only [attrBody_flatMap]
  split
  · split
    · rw [replaceChar_flatMap]
      have : (fun x => replaceChar '"' "&quot;".toList (attrChar x)) = attrCharQ := funext attrCharQ_eq
      rw [this]
      exact attrValue_quoted '"' (Or.inl rfl) _ s (flatMap_contains_false attrCharQ_noquote s)
        (unescape_flatMap readsBack_attrQ s)
    · rename_i h
      exact attrValue_quoted '\'' (Or.inr rfl) _ s (by simpa using h) (unescape_flatMap readsBack_attr s)
  · rename_i h
    exact attrValue_quoted '"' (Or.inl rfl) _ s (by simpa using h) (unescape_flatMap readsBack_attr s)

/-- … and contains no literal tab / newline / return, so attribute-value normalisation leaves it alone -/
theorem flatMap_all {f : Char → Str} {p : Char → Bool} (hf : ∀ c, (f c).all p = true) (s : Str) :
    (s.flatMap f).all p = true := by
  induction s with
  | nil => rfl
  | cons c r ih => rw [List.flatMap_cons, List.all_append, hf c, ih]; rfl

def attrOk (c : Char) : Bool := c != '\t' && c != '\n' && c != '\r'

theorem attrChar_normal (c : Char) : (attrChar c).all attrOk = true := by
  by_cases h1 : c = '&'
  · subst h1; decide
  · by_cases h2 : c = '>'
    · subst h2; decide
    · by_cases h3 : c = '<'
      · subst h3; decide
      · by_cases h4 : c = '\n'
        · subst h4; decide
        · by_cases h5 : c = '\r'
          · subst h5; decide
          · by_cases h6 : c = '\t'
            · subst h6; decide
            · simp [attrChar, escChar, attrOk, h1, h2, h3, h4, h5, h6]

theorem attrCharQ_normal (c : Char) : (attrCharQ c).all attrOk = true := by
  by_cases h7 : c = '"'
  · subst h7; decide
  · simp only [attrCharQ, h7, if_false]; exact attrChar_normal c

theorem xmlQuoteAttr_normal (s : Str) : xmlAttrNormal (xmlQuoteAttr s) = true := by
  unfold xmlQuoteAttr
  simp only [attrBody_flatMap]
  have e : xmlAttrNormal = fun s => s.all attrOk := rfl
  rw [e]
  split
  · split
    · rw [replaceChar_flatMap]
      have : (fun x => replaceChar '"' "&quot;".toList (attrChar x)) = attrCharQ := funext attrCharQ_eq
      rw [this]
      simp only [List.all_cons, List.all_append, flatMap_all attrCharQ_normal s]; decide
    · simp only [List.all_cons, List.all_append, flatMap_all attrChar_normal s]; decide
  · simp only [List.all_cons, List.all_append, flatMap_all attrChar_normal s]; decide

end Pybtex.C02
