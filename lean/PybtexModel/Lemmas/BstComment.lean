/-
`strip_comment` (model `Bst.stripComment`) against its declarative description.
-/
import PybtexModel.Model.BstParse

namespace Pybtex.Bst

/-- position `k` of the line holds a `%` that is outside every string literal, when `q` quotes
precede the line -/
def Hit (q : Nat) (l : Str) (k : Nat) : Prop :=
  l[k]? = some '%' ∧ (q + (l.take k).count '"') % 2 = 0

theorem hit_succ (q : Nat) (c : Char) (r : Str) (k : Nat) :
    Hit q (c :: r) (k + 1) ↔ Hit (q + (if c = '"' then 1 else 0)) r k := by
  unfold Hit
  simp only [List.getElem?_cons_succ, List.take_succ_cons, List.count_cons]
  by_cases hc : c = '"'
  · subst hc; simp; intro _; omega
  · have : (c == '"') = false := by simpa using hc
    simp [hc, this]

theorem hit_zero (q : Nat) (c : Char) (r : Str) : Hit q (c :: r) 0 ↔ (c = '%' ∧ q % 2 = 0) := by
  simp [Hit]

theorem stripGo_spec (l : Str) : ∀ q : Nat,
    (∀ k, Hit q l k → (∀ j, j < k → ¬ Hit q l j) → stripGo (decide (q % 2 = 1)) l = l.take k) ∧
    ((∀ k, ¬ Hit q l k) → stripGo (decide (q % 2 = 1)) l = l) := by
  induction l with
  | nil => intro q; simp [stripGo]
  | cons c r ih =>
    intro q
    by_cases h0 : c = '%' ∧ q % 2 = 0
    · have hs : stripGo (decide (q % 2 = 1)) (c :: r) = [] := by
        obtain ⟨h1, h2⟩ := h0
        simp [stripGo, h1, h2]
      constructor
      · intro k hk hleast
        cases k with
        | zero => simp [hs]
        | succ k => exact absurd ((hit_zero q c r).2 h0) (hleast 0 (by omega))
      · intro hno; exact absurd ((hit_zero q c r).2 h0) (hno 0)
    · have hstep : stripGo (decide (q % 2 = 1)) (c :: r)
          = c :: stripGo (decide ((q + (if c = '"' then 1 else 0)) % 2 = 1)) r := by
        by_cases hc : c = '"'
        · subst hc
          have : (!decide (q % 2 = 1)) = decide ((q + 1) % 2 = 1) := by
            rcases Nat.mod_two_eq_zero_or_one q with h | h <;> simp [h] <;> omega
          simp [stripGo, this]
        · have hne : c = '%' → q % 2 = 1 := by
            intro h1
            rcases Nat.mod_two_eq_zero_or_one q with h | h
            · exact absurd ⟨h1, h⟩ h0
            · exact h
          simp [stripGo, hc]
          exact hne
      obtain ⟨iha, ihb⟩ := ih (q + (if c = '"' then 1 else 0))
      constructor
      · intro k hk hleast
        cases k with
        | zero => exact absurd ((hit_zero q c r).1 hk) h0
        | succ k =>
          rw [hstep, List.take_succ_cons]
          congr 1
          apply iha k ((hit_succ q c r k).1 hk)
          intro j hj hh
          exact hleast (j + 1) (by omega) ((hit_succ q c r j).2 hh)
      · intro hno
        rw [hstep]; congr 1
        apply ihb
        intro k hh
        exact hno (k + 1) ((hit_succ q c r k).2 hh)

theorem commentAt_iff (l : Str) (k : Nat) : CommentAt l k ↔ Hit 0 l k := by simp [CommentAt, Hit]

theorem stripComment_cut (l : Str) (k : Nat) (hk : CommentAt l k)
    (hleast : ∀ j, j < k → ¬ CommentAt l j) : stripComment l = l.take k := by
  have := (stripGo_spec l 0).1 k ((commentAt_iff l k).1 hk)
    (fun j hj hh => hleast j hj ((commentAt_iff l j).2 hh))
  simpa [stripComment] using this

theorem stripComment_id (l : Str) (h : ∀ k, ¬ CommentAt l k) : stripComment l = l := by
  have := (stripGo_spec l 0).2 (fun k hh => h k ((commentAt_iff l k).2 hh))
  simpa [stripComment] using this

theorem stripComment_eq_uncommented (l : Str) : stripComment l = uncommented l := by
  unfold uncommented commentStart
  split
  · rename_i k hk
    rw [List.find?_range_eq_some] at hk
    obtain ⟨h1, _, h3⟩ := hk
    apply stripComment_cut
    · simp only [Bool.and_eq_true, beq_iff_eq] at h1; exact h1
    · intro j hj hc
      have := h3 j hj
      simp only [Bool.not_eq_true', Bool.and_eq_false_iff] at this
      obtain ⟨c1, c2⟩ := hc
      rcases this with h | h
      · simp [c1] at h
      · simp [c2] at h
  · rename_i hk
    rw [List.find?_range_eq_none] at hk
    apply stripComment_id
    intro k ⟨c1, c2⟩
    have hlt : k < l.length := by
      rcases Nat.lt_or_ge k l.length with h | h
      · exact h
      · rw [List.getElem?_eq_none h] at c1; cases c1
    have := hk k hlt
    simp [c1, c2] at this

/-- stripping twice changes nothing more -/
theorem stripComment_idem (l : Str) : stripComment (stripComment l) = stripComment l := by
  suffices h : ∀ (b : Bool) (l : Str), stripGo b (stripGo b l) = stripGo b l by
    exact h false l
  intro b l
  induction l generalizing b with
  | nil => simp [stripGo]
  | cons c r ih =>
    by_cases h0 : c = '%' ∧ b = false
    · simp [stripGo, h0]
    · by_cases hc : c = '"'
      · subst hc; simp [stripGo, ih]
      · simp [stripGo, h0, hc, ih]

end Pybtex.Bst
