/-
Lemmas about `Model/EnginePaths.lean`: `rfind`, the split of `os.path.splitext`.
-/
import PybtexModel.Model.EnginePaths

namespace Pybtex.EnginePaths

theorem rfind_ge (c : Char) (p : Str) : -1 ≤ rfind c p := by
  induction p with
  | nil => simp [rfind]
  | cons x xs ih => simp only [rfind]; split <;> (try split) <;> omega

theorem rfind_lt (c : Char) (p : Str) : rfind c p < p.length := by
  induction p with
  | nil => simp [rfind]
  | cons x xs ih => simp only [rfind, List.length_cons]; split <;> (try split) <;> omega

theorem rfind_neg_iff (c : Char) (p : Str) : rfind c p < 0 ↔ c ∉ p := by
  induction p with
  | nil => simp [rfind]
  | cons x xs ih =>
    simp only [rfind, List.mem_cons, not_or]
    have := rfind_ge c xs
    split
    · constructor
      · intro h; omega
      · intro ⟨_, h2⟩; have := ih.mpr h2; omega
    · rename_i hneg
      have hxs : c ∉ xs := ih.mp (by omega)
      split
      · rename_i hx; constructor
        · intro h; omega
        · intro ⟨h1, _⟩; exact absurd hx.symm h1
      · rename_i hx; constructor
        · intro _; exact ⟨fun h => hx h.symm, hxs⟩
        · intro _; omega

theorem rfind_not_mem {c : Char} {p : Str} (h : c ∉ p) : rfind c p = -1 := by
  have := (rfind_neg_iff c p).mpr h
  have := rfind_ge c p
  omega

theorem rfind_append_mem (c : Char) (xs ys : Str) (h : c ∈ ys) :
    rfind c (xs ++ ys) = xs.length + rfind c ys := by
  have hy : ¬ rfind c ys < 0 := fun hh => (rfind_neg_iff c ys).mp hh h
  induction xs with
  | nil => simp
  | cons x xs ih =>
    simp only [List.cons_append, rfind, List.length_cons]
    rw [ih]
    split
    · push_cast; omega
    · omega

theorem rfind_append_not_mem (c : Char) (xs ys : Str) (h : c ∉ ys) :
    rfind c (xs ++ ys) = rfind c xs := by
  induction xs with
  | nil => exact rfind_not_mem h
  | cons x xs ih => simp only [List.cons_append, rfind, ih]

/-- the character at `rfind` is `c` and there is none behind it -/
theorem rfind_split (c : Char) (p : Str) (h : 0 ≤ rfind c p) :
    ∃ a b, p = a ++ c :: b ∧ c ∉ b ∧ (a.length : Int) = rfind c p := by
  induction p with
  | nil => simp [rfind] at h
  | cons x xs ih =>
    simp only [rfind] at h ⊢
    split
    · rename_i hge
      obtain ⟨a, b, hp, hb, hl⟩ := ih hge
      exact ⟨x :: a, b, by simp [hp], hb, by simp only [List.length_cons]; push_cast; omega⟩
    · rename_i hneg
      have hxs : c ∉ xs := (rfind_neg_iff c xs).mp (by omega)
      split
      · rename_i hx
        exact ⟨[], xs, by simp [hx], hxs, by simp⟩
      · rename_i hx; simp [hneg, hx] at h

theorem metNonDot_iff (e : Char) (s : Str) : metNonDot e s = true ↔ ∃ c ∈ s, c ≠ e := by
  induction s with
  | nil => simp [metNonDot]
  | cons x xs ih =>
    simp only [metNonDot, List.mem_cons]
    split
    · rename_i hx; simp only [true_iff]; exact ⟨x, Or.inl rfl, hx⟩
    · rename_i hx
      have hx' : x = e := by simpa using hx
      rw [ih]
      constructor
      · intro ⟨c, hc, hne⟩; exact ⟨c, Or.inr hc, hne⟩
      · intro ⟨c, hc, hne⟩
        cases hc with
        | inl h => exact absurd (h.trans hx') hne
        | inr h => exact ⟨c, h, hne⟩

/-- `os.path.basename`-like tail used by the extension rule: what stands behind the last separator -/
def baseOf (sep : Char) (p : Str) : Str := p.drop (rfind sep p + 1).toNat

theorem splitextWith_join (sep e : Char) (p : Str) :
    (splitextWith sep e p).1 ++ (splitextWith sep e p).2 = p := by
  simp only [splitextWith]
  split
  · split
    · exact List.take_append_drop _ _
    · simp
  · simp

/-- appending an extension `e :: x` (no further `e`, no separator in `x`) to a path whose last
component has a character other than `e`: split exactly there -/
theorem splitextWith_append (sep e : Char) (hse : sep ≠ e) (b x : Str) (hx : e ∉ x) (hs : sep ∉ x)
    (hb : metNonDot e (baseOf sep b) = true) :
    splitextWith sep e (b ++ e :: x) = (b, e :: x) := by
  have hdot : rfind e (b ++ e :: x) = b.length := by
    rw [rfind_append_mem _ _ _ (List.mem_cons_self ..)]
    have : rfind e (e :: x) = 0 := by
      simp only [rfind]
      have := rfind_not_mem hx
      split
      · omega
      · simp
    omega
  have hsep : rfind sep (b ++ e :: x) = rfind sep b := by
    apply rfind_append_not_mem
    simp only [List.mem_cons, not_or]; exact ⟨hse, hs⟩
  have h1 := rfind_lt sep b
  have h2 := rfind_ge sep b
  simp only [splitextWith, hdot, hsep]
  have hgt : (b.length : Int) > rfind sep b := by omega
  rw [if_pos hgt]
  have hn : (rfind sep b + 1).toNat ≤ b.length := by omega
  have hslice : ((b ++ e :: x).drop (rfind sep b + 1).toNat).take ((b.length : Int) - (rfind sep b + 1)).toNat
      = baseOf sep b := by
    rw [List.drop_append_of_le_length hn]
    have hl : ((b.length : Int) - (rfind sep b + 1)).toNat = (b.drop (rfind sep b + 1).toNat).length := by
      simp only [List.length_drop]; omega
    rw [hl, List.take_left']
    · rfl
    · rfl
  rw [hslice, if_pos hb]
  simp

/-- … and when the last component consists of `e`s only (also: is empty), nothing is split off -/
theorem splitextWith_append_dots (sep e : Char) (hse : sep ≠ e) (b x : Str) (hx : e ∉ x) (hs : sep ∉ x)
    (hb : metNonDot e (baseOf sep b) = false) :
    splitextWith sep e (b ++ e :: x) = (b ++ e :: x, []) := by
  have hdot : rfind e (b ++ e :: x) = b.length := by
    rw [rfind_append_mem _ _ _ (List.mem_cons_self ..)]
    have : rfind e (e :: x) = 0 := by
      simp only [rfind]
      have := rfind_not_mem hx
      split
      · omega
      · simp
    omega
  have hsep : rfind sep (b ++ e :: x) = rfind sep b := by
    apply rfind_append_not_mem
    simp only [List.mem_cons, not_or]; exact ⟨hse, hs⟩
  have h1 := rfind_lt sep b
  have h2 := rfind_ge sep b
  simp only [splitextWith, hdot, hsep]
  have hgt : (b.length : Int) > rfind sep b := by omega
  rw [if_pos hgt]
  have hn : (rfind sep b + 1).toNat ≤ b.length := by omega
  have hslice : ((b ++ e :: x).drop (rfind sep b + 1).toNat).take ((b.length : Int) - (rfind sep b + 1)).toNat
      = baseOf sep b := by
    rw [List.drop_append_of_le_length hn]
    have hl : ((b.length : Int) - (rfind sep b + 1)).toNat = (b.drop (rfind sep b + 1).toNat).length := by
      simp only [List.length_drop]; omega
    rw [hl, List.take_left']
    · rfl
    · rfl
  rw [hslice, hb]
  simp

/-- shape of the extension: empty, or the extension separator followed by characters that are
neither it nor the path separator; in the second case the last path component of the root has a
character other than the extension separator -/
theorem splitextWith_shape (sep e : Char) (p : Str) :
    (splitextWith sep e p).2 = [] ∨
    ∃ x, (splitextWith sep e p).2 = e :: x ∧ e ∉ x ∧ sep ∉ x ∧ (sep = e ∨ metNonDot e (baseOf sep (splitextWith sep e p).1) = true) := by
  by_cases hse : sep = e
  · -- the same character: `dotIndex > sepIndex` never holds
    left; subst hse; simp [splitextWith]
  simp only [splitextWith]
  split
  · rename_i hgt
    split
    · rename_i hm
      right
      have hd0 : 0 ≤ rfind e p := by have := rfind_ge sep p; omega
      obtain ⟨a, b, hp, hb, hl⟩ := rfind_split e p hd0
      have hdrop : p.drop (rfind e p).toNat = e :: b := by
        have : (rfind e p).toNat = a.length := by omega
        rw [this, hp]; simp
      have htake : p.take (rfind e p).toNat = a := by
        have : (rfind e p).toNat = a.length := by omega
        rw [this, hp]; simp
      have hsb : sep ∉ e :: b := by
        intro hmem
        have := rfind_append_mem sep a (e :: b) hmem
        rw [← hp] at this
        have h0 : ¬ rfind sep (e :: b) < 0 := fun hh => (rfind_neg_iff sep _).mp hh hmem
        omega
      have hsb' : sep ∉ b := fun h => hsb (List.mem_cons_of_mem _ h)
      refine ⟨b, hdrop, hb, hsb', Or.inr ?_⟩
      -- the slice the loop looked at is the last component of the root
      have hsepa : rfind sep p = rfind sep a := by
        rw [hp]; exact rfind_append_not_mem sep a (e :: b) hsb
      have h1 := rfind_lt sep a
      have h2 := rfind_ge sep a
      have hn : (rfind sep a + 1).toNat ≤ a.length := by omega
      have : (p.drop (rfind sep p + 1).toNat).take (rfind e p - (rfind sep p + 1)).toNat = baseOf sep a := by
        rw [hsepa, ← hl, hp]
        rw [List.drop_append_of_le_length hn]
        have hl2 : ((a.length : Int) - (rfind sep a + 1)).toNat = (a.drop (rfind sep a + 1).toNat).length := by
          simp only [List.length_drop]; omega
        rw [hl2, List.take_left']
        · rfl
        · rfl
      rw [this] at hm
      simp only [htake]; exact hm
    · left; rfl
  · left; rfl

end Pybtex.EnginePaths
