/-
The last stage of the round trip: the text `parse_string` hands to the parser for a printed
lexeme sequence is the same lexemes separated by white space; hence `parse (print p L) = p`.
-/
import PybtexModel.Lemmas.BstLayout

namespace Pybtex.Bst
open Pybtex.Scanner

theorem wfLex_ok (l : Lex) (hl : wfLex l = true) : LexOK l := by
  cases l with
  | word s =>
    cases s with
    | nil => simp [wfLex] at hl
    | cons c s =>
      simp only [wfLex, List.all_eq_true] at hl
      exact ⟨by simp, fun d hd => nameChar_isNameChar (hl d hd)⟩
  | int v => trivial
  | str s =>
    simp only [wfLex, wfStr, List.all_eq_true, Bool.and_eq_true, bne_iff_ne, ne_eq,
      Bool.not_eq_true'] at hl
    intro c hc
    refine ⟨(hl c hc).1, ?_⟩
    intro h; subst h
    have := (hl _ hc).2
    simp [isLineSep, lineSepCodes] at this
  | lb => trivial
  | rb => trivial

theorem lex_tstart (l : Lex) (hl : wfLex l = true) (rest : Str) :
    Tstart (l.text ++ rest) ∧ l.text ++ rest ≠ [] := by
  have hok := wfLex_ok l hl
  have hne := lex_text_ne_nil l hok
  have hh := lex_text_head l hok
  refine ⟨?_, by simp [hne]⟩
  unfold Tstart
  rw [headSat_append_of_ne_nil _ _ _ hne]
  cases ht : l.text with
  | nil => exact absurd ht hne
  | cons c r =>
    rw [ht] at hh
    simp only [headSat] at hh ⊢
    cases hs : isLineSep c with
    | false => rfl
    | true => rw [isWs_of_isLineSep hs] at hh; cases hh

/-- the separator the printer writes is the text of some gap, non-empty where needed -/
theorem sepText_gap (prev : Option Lex) (l : Lex) (g : Gap) :
    ∃ g', sepText prev l g = gapText g' ∧ (needsGap prev l = true → g' ≠ []) := by
  unfold sepText
  by_cases h : (needsGap prev l && g.isEmpty) = true
  · refine ⟨[.ws ⟨' ', by decide⟩], ?_, by simp⟩
    simp [h, gapText, GapItem.text]
  · refine ⟨g, by simp [h], ?_⟩
    intro hn hg
    apply h
    simp [hn, hg]

theorem trailer_pre (tr : Option CommentText) : preSM false false (trailerText tr) = [] := by
  cases tr with
  | none => simp [trailerText, preSM]
  | some t =>
    have htx : ∀ c ∈ t.s, isLineSep c = false := by
      have := t.ok
      simp only [List.all_eq_true, Bool.not_eq_true'] at this
      exact this
    simp only [trailerText]
    rw [preSM_nonsep false false '%' _ (by simp [isLineSep, lineSepCodes])]
    simp only [Bool.false_eq_true, if_false, and_self, if_true]
    have := preSM_comment t.s [] false htx
    simp only [List.append_nil] at this
    rw [this]; simp [preSM]

theorem trailer_tstart (tr : Option CommentText) : Tstart (trailerText tr) := by
  cases tr with
  | none => simp [trailerText, Tstart, headSat]
  | some t => simp [trailerText, Tstart, headSat, isLineSep, lineSepCodes]

/-- **stage "lay-out"**: what `parse_string` hands to the parser for a printed lexeme sequence -/
theorem pre_render : ∀ (ls : List Lex) (prev : Option Lex) (gaps : List Gap)
    (tr : Option CommentText), (∀ l ∈ ls, wfLex l = true) →
    ∃ W, GoodW prev ls W ∧
      preSM false false (render prev ls gaps ++ trailerText tr) = renderW ls W := by
  intro ls
  induction ls with
  | nil =>
    intro prev gaps tr _
    obtain ⟨w, hw, he, _, _⟩ := gap_pre (gaps.headD []) (trailerText tr) (trailer_tstart tr)
    refine ⟨[w], by simpa [GoodW] using hw, ?_⟩
    simp only [render, renderW, List.headD_cons]
    rw [he, trailer_pre]; simp
  | cons l ls ih =>
    intro prev gaps tr hwf
    have hl := hwf l (by simp)
    obtain ⟨W', hgood', hpre'⟩ := ih (some l) gaps.tail tr (fun x hx => hwf x (by simp [hx]))
    obtain ⟨g', hg', hgne⟩ := sepText_gap prev l (gaps.headD [])
    obtain ⟨hts, htne⟩ := lex_tstart l hl (render (some l) ls gaps.tail ++ trailerText tr)
    obtain ⟨w, hw, he, hne, _⟩ := gap_pre g' _ hts
    refine ⟨w :: W', ⟨by simpa using hw, ?_, by simpa using hgood'⟩, ?_⟩
    · intro hn
      simpa using hne (hgne hn) htne
    · simp only [render, renderW, List.headD_cons, List.tail_cons, List.append_assoc]
      rw [hg', he, preSM_lex l hl, hpre']

theorem groupLexemes_wfLex (g : List Tok) (h : wfToks g = true) :
    ∀ l ∈ lexemesList g, wfLex l = true := by
  revert h
  revert g
  apply toks_induction
  · intro _ l hl; simp [lexemesList] at hl
  · intro t ts hs ih hwf l hl
    simp only [wfToks, Bool.and_eq_true] at hwf
    simp only [lexemesList, lexemes_simple t hs, List.singleton_append, List.mem_cons] at hl
    rcases hl with rfl | hl
    · cases t with
      | fn b => simp [Tok.simple] at hs
      | int v => simpa [simpleLex, wfLex, wfTok] using hwf.1
      | str s => simpa [simpleLex, wfLex, wfTok] using hwf.1
      | quoted n =>
        have := hwf.1
        simp only [wfTok, wfQuoted] at this
        simp only [simpleLex, wfLex, List.all_cons, this, Bool.and_true]
        decide
      | name n =>
        have := hwf.1
        simp only [wfTok] at this
        cases n with
        | nil => simp [wfName] at this
        | cons c r =>
          simp only [wfName, Bool.and_eq_true] at this
          simp only [simpleLex, wfLex, List.all_cons, this.1.2, this.2, Bool.and_self]
    · exact ih hwf.2 l hl
  · intro body ts ihb iht hwf l hl
    simp only [wfToks, wfTok, Bool.and_eq_true] at hwf
    simp only [lexemesList, Tok.lexemes, List.cons_append, List.mem_cons, List.mem_append,
      List.not_mem_nil, or_false] at hl
    rcases hl with rfl | (hl | rfl) | hl
    · rfl
    · exact ihb hwf.1 l hl
    · rfl
    · exact iht hwf.2 l hl

theorem program_wfLex (p : Program) (h : WFProg p) : ∀ l ∈ Program.lexemes p, wfLex l = true := by
  induction p with
  | nil => intro l hl; simp [Program.lexemes] at hl
  | cons c p ih =>
    unfold WFProg at h ih
    simp only [List.all_cons, Bool.and_eq_true] at h
    intro l hl
    simp only [Program.lexemes, List.mem_append] at hl
    rcases hl with hl | hl
    · obtain ⟨h1, _, h3⟩ := cmdArity_of_wf h.1
      simp only [Command.lexemes, List.mem_cons] at hl
      rcases hl with rfl | hl
      · cases hn : c.name with
        | nil => rw [hn] at h1; simp [wfName] at h1
        | cons ch r =>
          rw [hn] at h1
          simp only [wfName, Bool.and_eq_true] at h1
          simp only [wfLex, List.all_cons, h1.1.2, h1.2, Bool.and_self]
      · clear ih h1
        generalize c.groups = gs at h3 hl
        induction gs with
        | nil => simp [groupsLexemes] at hl
        | cons g gs ihg =>
          simp only [List.all_cons, Bool.and_eq_true] at h3
          simp only [groupsLexemes, groupLexemes, List.cons_append, List.mem_cons,
            List.mem_append, List.not_mem_nil, or_false] at hl
          rcases hl with rfl | (hl | rfl) | hl
          · rfl
          · exact groupLexemes_wfLex g h3.1 l hl
          · rfl
          · exact ihg h3.2 hl
    · exact ih h.2 l hl

/-- **the round trip**: printing a well-formed program with any lay-out and parsing the text
with `parse_string` gives back the program -/
theorem parseString_print (p : Program) (L : Layout) (hwf : WFProg p) :
    parseString (print p L) = .ok p := by
  unfold parseString print
  rw [stringText_eq_preSM]
  obtain ⟨W, hgood, hpre⟩ := pre_render (Program.lexemes p) none L.gaps L.trailer (program_wfLex p hwf)
  rw [hpre]
  exact parseText_renderW p W hwf hgood

end Pybtex.Bst
