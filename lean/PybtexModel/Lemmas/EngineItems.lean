/-
Helper lemmas for C06, part 3: what the interpreter does to the output lines and to the citation
list — the output only grows; nothing but `READ` and `SORT` changes the citation list; the
`output.bibitem` prologue of the standard styles.
-/
import PybtexModel.Lemmas.EngineRun

namespace Pybtex.Engine
open Pybtex Pybtex.Interp

/-! ### the output lines only grow -/

/-- `s'` has the lines of `s` and possibly more -/
def Ext (s s' : St) : Prop := ∃ more, s'.lines = s.lines ++ more

def ExtR (s : St) (r : Except IErr St) : Prop :=
  match r with
  | .ok s' => Ext s s'
  | .error _ => True

theorem Ext.refl (s : St) : Ext s s := ⟨[], (List.append_nil _).symm⟩

theorem Ext.of_eq {s s' : St} (h : s'.lines = s.lines) : Ext s s' := ⟨[], by rw [h, List.append_nil]⟩

theorem Ext.trans {a b c : St} (h1 : Ext a b) (h2 : Ext b c) : Ext a c := by
  obtain ⟨m1, e1⟩ := h1
  obtain ⟨m2, e2⟩ := h2
  exact ⟨m1 ++ m2, by rw [e2, e1, List.append_assoc]⟩

theorem extR_trans {s s1 : St} {r : Except IErr St} (h : Ext s s1) (h' : ExtR s1 r) : ExtR s r := by
  cases r with
  | error e => trivial
  | ok s' => exact h.trans h'

def StepL {α : Type} (P : St → Except IErr (α × St)) : Prop :=
  ∀ s, At s → (∃ e, P s = .error e) ∨ (∃ a s', P s = .ok (a, s') ∧ s'.lines = s.lines ∧ At s')

theorem pop_l : StepL pop := by
  intro s _
  unfold pop
  cases s.stack with
  | nil => exact .inl ⟨_, rfl⟩
  | cons v r => exact .inr ⟨v, _, rfl, rfl, ⟨trivial⟩⟩

theorem popInt_l : StepL popInt := by
  intro s a
  unfold popInt
  rcases pop_l s a with ⟨e, h1⟩ | ⟨v, s', h1, h2, a'⟩ <;> simp only [h1]
  · exact .inl ⟨_, rfl⟩
  · cases v
    case int n => exact .inr ⟨n, s', rfl, h2, a'⟩
    all_goals exact .inl ⟨_, rfl⟩

theorem popStr_l : StepL popStr := by
  intro s a
  unfold popStr
  rcases pop_l s a with ⟨e, h1⟩ | ⟨v, s', h1, h2, a'⟩ <;> simp only [h1]
  · exact .inl ⟨_, rfl⟩
  · cases v
    case str x => exact .inr ⟨x, s', rfl, h2, a'⟩
    case missing x => exact .inr ⟨[], s', rfl, h2, a'⟩
    all_goals exact .inl ⟨_, rfl⟩

syntax "ext_pop" : tactic
macro_rules
  | `(tactic| ext_pop) =>
    `(tactic| first
      | (have hl := pop_l _ ‹At _›
         rcases hl with ⟨_, h1⟩ | ⟨_, _, h1, h2, _⟩
         · simp only [h1]; trivial
         simp only [h1]; refine extR_trans (Ext.of_eq h2) ?_)
      | (have hl := popInt_l _ ‹At _›
         rcases hl with ⟨_, h1⟩ | ⟨_, _, h1, h2, _⟩
         · simp only [h1]; trivial
         simp only [h1]; refine extR_trans (Ext.of_eq h2) ?_)
      | (have hl := popStr_l _ ‹At _›
         rcases hl with ⟨_, h1⟩ | ⟨_, _, h1, h2, _⟩
         · simp only [h1]; trivial
         simp only [h1]; refine extR_trans (Ext.of_eq h2) ?_))

theorem ext_simple (b : Builtin) (fuel : Nat) (s : St)
    (hb : b ≠ .callType ∧ b ≠ .if_ ∧ b ≠ .while_) :
    ExtR s (runBuiltin (fuel + 1) b s) := by
  have a0 : At s := ⟨trivial⟩
  cases b
  case callType | if_ | while_ => simp at hb
  all_goals simp only [runBuiltin]
  all_goals repeat ext_pop
  all_goals repeat' split
  all_goals first
    | exact Ext.refl _
    | exact ⟨_, rfl⟩
    | trivial
    | (have hq := ‹(Except.ok _ : Except IErr (Val × St)) = Except.ok _›
       cases hq
       first | exact Ext.refl _ | exact ⟨_, rfl⟩)

/-- `execVal`, `execObj`, `execTok`, `execBody`, `whileLoop`, `runBuiltin` only append to the output lines -/
theorem exec_ext : ∀ fuel : Nat,
    (∀ v s, ExtR s (execVal fuel v s)) ∧
    (∀ o s, ExtR s (execObj fuel o s)) ∧
    (∀ t s, ExtR s (execTok fuel t s)) ∧
    (∀ ts s, ExtR s (execBody fuel ts s)) ∧
    (∀ p f s, ExtR s (whileLoop fuel p f s)) ∧
    (∀ b s, ExtR s (runBuiltin fuel b s)) := by
  intro fuel
  induction fuel with
  | zero =>
    refine ⟨?_, ?_, ?_, ?_, ?_, ?_⟩ <;> intros <;>
      simp only [execVal, execObj, execTok, execBody, whileLoop, runBuiltin] <;> trivial
  | succ n ih =>
    obtain ⟨ihVal, ihObj, ihTok, ihBody, ihWhile, ihB⟩ := ih
    refine ⟨?_, ?_, ?_, ?_, ?_, ?_⟩
    · intro v s
      cases v with
      | fn body => simp only [execVal]; exact ihBody body s
      | ref name =>
        simp only [execVal]
        cases s.vars.getItem name with
        | none => trivial
        | some o => exact ihObj o s
      | int _ => trivial
      | str _ => trivial
      | missing _ => trivial
    · intro o s
      cases o with
      | builtin b => simp only [execObj]; exact ihB b s
      | gint v => exact Ext.refl _
      | gstr v => exact Ext.refl _
      | eint nm =>
        simp only [execObj]
        cases hc : s.cur with
        | none => trivial
        | some k => exact Ext.refl _
      | estr nm =>
        simp only [execObj]
        cases hc : s.cur with
        | none => trivial
        | some k => exact Ext.refl _
      | field nm =>
        simp only [execObj]
        cases curEntry s with
        | error e => trivial
        | ok r => exact Ext.refl _
      | crossref =>
        simp only [execObj]
        cases curEntry s with
        | error e => trivial
        | ok r => exact Ext.refl _
      | func body => simp only [execObj]; exact ihBody body s
    · intro t s
      cases t with
      | int v => exact Ext.refl _
      | str v => exact Ext.refl _
      | fn body => exact Ext.refl _
      | quoted nm =>
        simp only [execTok]
        split
        · exact Ext.refl _
        · trivial
      | name nm =>
        simp only [execTok]
        cases s.vars.getItem nm with
        | none => trivial
        | some o => exact ihObj o s
    · intro ts s
      cases ts with
      | nil => exact Ext.refl _
      | cons t ts =>
        simp only [execBody]
        have h := ihTok t s
        cases h1 : execTok n t s with
        | error e => trivial
        | ok s1 =>
          rw [h1] at h
          exact extR_trans h (ihBody ts s1)
    · intro p f s
      simp only [whileLoop]
      have h := ihVal p s
      cases h1 : execVal n p s with
      | error e => trivial
      | ok s1 =>
        rw [h1] at h
        simp only []
        refine extR_trans h ?_
        have a1 : At s1 := ⟨trivial⟩
        ext_pop
        split
        · exact Ext.refl _
        · rename_i s2 _ _ _ _
          have h := ihVal f s2
          cases h2 : execVal n f s2 with
          | error e => trivial
          | ok s3 =>
            rw [h2] at h
            exact extR_trans h (ihWhile p f s3)
    · intro b s
      by_cases hb : b ≠ .callType ∧ b ≠ .if_ ∧ b ≠ .while_
      · exact ext_simple b n s hb
      have a0 : At s := ⟨trivial⟩
      cases b
      case callType =>
        simp only [runBuiltin]
        cases curEntry s with
        | error e => trivial
        | ok r =>
          simp only []
          cases s.vars.getItem r.2.1.type with
          | some o => exact ihObj o s
          | none =>
            simp only []
            cases (warn s ("entry type for \"".toList ++ r.1 ++ "\" isn't style-file defined".toList)).vars.getItem
                "default.type".toList with
            | some o => exact extR_trans (Ext.of_eq rfl) (ihObj o (warn s _))
            | none => exact Ext.refl _
      case if_ =>
        simp only [runBuiltin]
        ext_pop
        ext_pop
        ext_pop
        split
        · exact ihVal _ _
        · exact ihVal _ _
      case while_ =>
        simp only [runBuiltin]
        ext_pop
        ext_pop
        exact ihWhile _ _ _
      all_goals simp at hb

/-! ### nothing but `READ` and `SORT` changes the citation list or the database -/

/-- same database and citation list -/
def SameC (s s' : St) : Prop := s'.db = s.db ∧ s'.citations = s.citations

def KeepC (s : St) (r : Except IErr St) : Prop :=
  match r with
  | .ok s' => SameC s s'
  | .error _ => True

theorem keepC_of_keepR {s : St} {r : Except IErr St} (h : KeepR s r) : KeepC s r := by
  cases r with
  | error e => trivial
  | ok s' => exact ⟨h.2.1, h.2.2⟩

theorem keepC_trans {s s1 : St} {r : Except IErr St} (h : SameC s s1) (h' : KeepC s1 r) : KeepC s r := by
  cases r with
  | error e => trivial
  | ok s' => exact ⟨h'.1.trans h.1, h'.2.trans h.2⟩

theorem iterate_keepC (fuel : Nat) (f : VarObj) (keys : List Str) (s : St) : KeepC s (iterate fuel f keys s) := by
  induction keys generalizing s with
  | nil => exact ⟨rfl, rfl⟩
  | cons k ks ih =>
    simp only [iterate]
    split
    · trivial
    · split
      · trivial
      · have h := (exec_cur fuel).2.1 f { s with cur := some k }
        cases h1 : execObj fuel f { s with cur := some k } with
        | error e => trivial
        | ok s1 =>
          rw [h1] at h
          dsimp only
          exact keepC_trans (s1 := { s1 with cur := none }) ⟨h.2.1, h.2.2⟩ (ih { s1 with cur := none })

theorem iterStep_keepC (fuel : Nat) (cits : List Str) (c : Bst.Command) (s : St) : KeepC s (iterStep fuel cits c s) := by
  simp only [iterStep]
  split
  · split
    · trivial
    · split
      · trivial
      · exact iterate_keepC _ _ _ s
  · trivial

/-- every command except `READ` and `SORT` leaves the database and the citation list alone -/
theorem runCommand_keepC (fuel : Nat) (inp : Input) (c : Bst.Command) (s : St)
    (hc : upper c.name ≠ "READ".toList) (hsort : upper c.name ≠ "SORT".toList) :
    KeepC s (runCommand fuel inp c s) := by
  by_cases hit : upper c.name = "ITERATE".toList
  · rw [runCommand_iterate _ _ _ _ hit]; exact iterStep_keepC _ _ _ _
  by_cases hrev : upper c.name = "REVERSE".toList
  · rw [runCommand_reverse _ _ _ _ hrev]; exact iterStep_keepC _ _ _ _
  refine keepC_of_keepR ?_
  simp only [runCommand, hc, hsort, hit, hrev, false_or, if_false]
  split
  · -- ENTRY
    split
    · rename_i fields ints strings _
      have h := declare_keep (fun n => VarObj.field n) fields s
      cases h1 : declare (fun n => VarObj.field n) fields s with
      | error e => trivial
      | ok s1 =>
        rw [h1] at h
        simp only []
        refine keepR_trans h ?_
        have h := addVariable_keep "crossref".toList .crossref s1
        cases h2 : addVariable s1 "crossref".toList .crossref with
        | error e => trivial
        | ok s2 =>
          rw [h2] at h
          simp only []
          refine keepR_trans h ?_
          have h := declare_keep (fun n => VarObj.eint n) ints s2
          cases h3 : declare (fun n => VarObj.eint n) ints s2 with
          | error e => trivial
          | ok s3 =>
            rw [h3] at h
            exact keepR_trans h (declare_keep _ _ s3)
    · trivial
  split
  · split
    · exact (exec_cur fuel).2.2.1 _ s
    · trivial
  split
  · split
    · split
      · trivial
      · exact addVariable_keep _ _ s
    · trivial
  split
  · split
    · exact overwrite_keep _ _ s
    · trivial
  split
  · split
    · exact overwrite_keep _ _ s
    · trivial
  split
  · split
    · split
      · exact ⟨rfl, rfl, rfl⟩
      · trivial
    · trivial
  trivial

theorem runProgram_keepC (fuel : Nat) (inp : Input) (prog : Bst.Program) (s : St)
    (hp : ∀ c ∈ prog, upper c.name ≠ "READ".toList ∧ upper c.name ≠ "SORT".toList) :
    KeepC s (runProgram fuel inp prog s) := by
  induction prog generalizing s with
  | nil => exact ⟨rfl, rfl⟩
  | cons c cs ih =>
    simp only [runProgram]
    have h := runCommand_keepC fuel inp c s (hp c (List.mem_cons_self ..)).1 (hp c (List.mem_cons_self ..)).2
    cases h1 : runCommand fuel inp c s with
    | error e => trivial
    | ok s1 =>
      rw [h1] at h
      dsimp only
      exact keepC_trans h (ih s1 (fun c hc => hp c (List.mem_cons_of_mem _ hc)))

/-- a program `mid ++ [c]` splits at the last command -/
theorem runProgram_snoc_ok (fuel : Nat) (inp : Input) (mid : Bst.Program) (c : Bst.Command) (s s' : St)
    (h : runProgram fuel inp (mid ++ [c]) s = .ok s') :
    ∃ sm, runProgram fuel inp mid s = .ok sm ∧ runCommand fuel inp c sm = .ok s' := by
  rw [runProgram_append] at h
  cases hm : runProgram fuel inp mid s with
  | error e => rw [hm] at h; cases h
  | ok sm =>
    rw [hm] at h
    simp only [runProgram] at h
    refine ⟨sm, rfl, ?_⟩
    cases hc : runCommand fuel inp c sm with
    | error e => rw [hc] at h; cases h
    | ok s2 => rw [hc] at h; exact h

/-! ### the `output.bibitem` prologue of the standard styles -/

theorem execBody_cons_ok {fuel : Nat} {t : BTok} {ts : List BTok} {s s' : St}
    (h : execBody fuel (t :: ts) s = .ok s') :
    ∃ n s1, fuel = n + 1 ∧ execTok n t s = .ok s1 ∧ execBody n ts s1 = .ok s' := by
  cases fuel with
  | zero => simp only [execBody] at h; cases h
  | succ n =>
    simp only [execBody] at h
    cases h1 : execTok n t s with
    | error e => rw [h1] at h; cases h
    | ok s1 => rw [h1] at h; exact ⟨n, s1, rfl, h1, h⟩

theorem execTok_str_ok {n : Nat} {v : Str} {s s1 : St} (h : execTok n (.str v) s = .ok s1) : s1 = push s (.str v) := by
  cases n with
  | zero => simp only [execTok] at h; cases h
  | succ m => simp only [execTok] at h; cases h; rfl

theorem execTok_name_ok {n : Nat} {nm : Str} {o : VarObj} {s s1 : St} (hv : s.vars.getItem nm = some o)
    (h : execTok n (.name nm) s = .ok s1) : ∃ m, n = m + 1 ∧ execObj m o s = .ok s1 := by
  cases n with
  | zero => simp only [execTok] at h; cases h
  | succ m => simp only [execTok, hv] at h; exact ⟨m, rfl, h⟩

theorem execTok_builtin_ok {n : Nat} {nm : Str} {b : Builtin} {s s1 : St} (hv : s.vars.getItem nm = some (.builtin b))
    (h : execTok n (.name nm) s = .ok s1) : ∃ m, runBuiltin (m + 1) b s = .ok s1 := by
  obtain ⟨m, -, h2⟩ := execTok_name_ok hv h
  cases m with
  | zero => cases h2
  | succ k =>
    have h' : runBuiltin k b s = .ok s1 := h2
    cases k with
    | zero => cases h'
    | succ j => exact ⟨j, h'⟩

/-- `newline$ "\bibitem{" write$ cite$ write$ "}" write$ newline$`: how `output.bibitem` of
unsrt.bst / plain.bst begins -/
def bibitemHead : List BTok :=
  [.name "newline$".toList, .str "\\bibitem{".toList, .name "write$".toList, .name "cite$".toList,
   .name "write$".toList, .str "}".toList, .name "write$".toList, .name "newline$".toList]

/-- the lines the prologue appends for the entry `k`: the pending output, then `\bibitem{k}` -/
def bibitemLines (buffer : List Str) (k : Str) : List Str :=
  [Wrap.wrapDefault buffer.flatten, ['\n'], Wrap.wrapDefault ("\\bibitem{".toList ++ k ++ "}".toList), ['\n']]

/-- the output calls of the prologue (ghost trace of C03) -/
def bibitemTrace (k : Str) : List OutEv :=
  [.newline, .write "\\bibitem{".toList, .write k, .write "}".toList, .newline]

theorem execBody_ext {n : Nat} {ts : List BTok} {s s' : St} (h : execBody n ts s = .ok s') : Ext s s' := by
  have := (exec_ext n).2.2.2.1 ts s
  rw [h] at this
  exact this

/-- the three built-ins the prologue uses are what they are -/
structure StdOut (vars : CIDict VarObj) : Prop where
  newline : vars.getItem "newline$".toList = some (.builtin .newline)
  write : vars.getItem "write$".toList = some (.builtin .write)
  cite : vars.getItem "cite$".toList = some (.builtin .cite)

/-- symbolic execution of the prologue -/
theorem bibitemHead_run (fuel : Nat) (tail : List BTok) (s s' : St) (k : Str) (hv : StdOut s.vars) (hcur : s.cur = some k)
    (h : execBody fuel (bibitemHead ++ tail) s = .ok s') :
    ∃ n, execBody n tail { s with lines := s.lines ++ bibitemLines s.buffer k, buffer := [],
                                  trace := s.trace ++ bibitemTrace k } = .ok s' := by
  obtain ⟨hn, hw, hc⟩ := hv
  simp only [bibitemHead, List.cons_append, List.nil_append] at h
  -- newline$
  obtain ⟨n1, s1, -, t1, h⟩ := execBody_cons_ok h
  obtain ⟨m1, t1⟩ := execTok_builtin_ok hn t1
  simp only [runBuiltin] at t1
  cases t1
  -- "\bibitem{" write$
  obtain ⟨n2, s2, -, t2, h⟩ := execBody_cons_ok h
  have := execTok_str_ok t2; subst this
  obtain ⟨n3, s3, -, t3, h⟩ := execBody_cons_ok h
  obtain ⟨m3, t3⟩ := execTok_builtin_ok (by exact hw) t3
  simp only [runBuiltin, pop, push] at t3
  cases t3
  -- cite$ write$
  obtain ⟨n4, s4, -, t4, h⟩ := execBody_cons_ok h
  obtain ⟨m4, t4⟩ := execTok_builtin_ok (by exact hc) t4
  simp only [runBuiltin, hcur, push] at t4
  cases t4
  obtain ⟨n5, s5, -, t5, h⟩ := execBody_cons_ok h
  obtain ⟨m5, t5⟩ := execTok_builtin_ok (by exact hw) t5
  simp only [runBuiltin, pop] at t5
  cases t5
  -- "}" write$
  obtain ⟨n6, s6, -, t6, h⟩ := execBody_cons_ok h
  have := execTok_str_ok t6; subst this
  obtain ⟨n7, s7, -, t7, h⟩ := execBody_cons_ok h
  obtain ⟨m7, t7⟩ := execTok_builtin_ok (by exact hw) t7
  simp only [runBuiltin, pop, push] at t7
  cases t7
  -- newline$
  obtain ⟨n8, s8, -, t8, h⟩ := execBody_cons_ok h
  obtain ⟨m8, t8⟩ := execTok_builtin_ok (by exact hn) t8
  simp only [runBuiltin] at t8
  cases t8
  refine ⟨n8, ?_⟩
  simpa [bibitemLines, bibitemTrace, List.append_assoc, hcur] using h

/-! ### citation resolution sees the database only through `getItem` (when no `*` is cited) -/

theorem expandAux_nostar (db₁ db₂ : BibData) (set : CISet) (cits : List Str) (h : ∀ c ∈ cits, c ≠ star) :
    BibData.expandAux db₁ set cits = BibData.expandAux db₂ set cits := by
  induction cits generalizing set with
  | nil => rfl
  | cons c r ih =>
    have hc : c ≠ star := h c (List.mem_cons_self ..)
    have hr : ∀ c ∈ r, c ≠ star := fun c hc => h c (List.mem_cons_of_mem _ hc)
    simp only [BibData.expandAux, hc, if_false]
    split
    · exact ih set hr
    · rw [ih _ hr]

theorem crossrefAux_congr (db₁ db₂ : BibData) (hget : ∀ k, db₁.entries.getItem k = db₂.entries.getItem k)
    (mc : Int) (st : BibData.XState) (l : List Str) :
    BibData.crossrefAux db₁ mc st l = BibData.crossrefAux db₂ mc st l := by
  induction l generalizing st with
  | nil => rfl
  | cons c r ih =>
    simp only [BibData.crossrefAux, hget]
    cases db₂.entries.getItem c with
    | none => exact ih st
    | some e =>
      simp only []
      cases e.fields.getItem xrefName with
      | none => exact ih st
      | some x =>
        simp only []
        cases db₂.entries.getItem x with
        | none => simp only [ih st]
        | some p =>
          simp only []
          split
          · simp only [ih]
          · exact ih _

theorem removeMissing_congr (db₁ db₂ : BibData) (hget : ∀ k, db₁.entries.getItem k = db₂.entries.getItem k)
    (l : List Str) : BibData.removeMissing db₁ l = BibData.removeMissing db₂ l := by
  induction l with
  | nil => rfl
  | cons c r ih =>
    have : db₁.entries.contains c = db₂.entries.contains c := by
      show (db₁.entries.getItem c).isSome = (db₂.entries.getItem c).isSome
      rw [hget]
    simp only [BibData.removeMissing, ih, this]

theorem danglingExtras_congr (db₁ db₂ : BibData) (hget : ∀ k, db₁.entries.getItem k = db₂.entries.getItem k)
    (l : List Str) : BibData.danglingExtras db₁ l = BibData.danglingExtras db₂ l := by
  induction l with
  | nil => rfl
  | cons c r ih =>
    simp only [BibData.danglingExtras, hget c]
    cases db₂.entries.getItem c with
    | none => exact ih
    | some e =>
      simp only []
      cases e.fields.getItem xrefName with
      | none => exact ih
      | some x =>
        have : db₁.entries.contains x = db₂.entries.contains x := by
          show (db₁.entries.getItem x).isSome = (db₂.entries.getItem x).isSome
          rw [hget]
        simp only [this, ih]

theorem addExtraCitations_congr (db₁ db₂ : BibData) (hget : ∀ k, db₁.entries.getItem k = db₂.entries.getItem k)
    (cits : List Str) (mc : Int) (h : ∀ c ∈ cits, c ≠ star) :
    BibData.addExtraCitations db₁ cits mc = BibData.addExtraCitations db₂ cits mc := by
  simp only [BibData.addExtraCitations, BibData.expandWildcard, BibData.crossreferenced,
    expandAux_nostar db₁ db₂ _ cits h, crossrefAux_congr db₁ db₂ hget, danglingExtras_congr db₁ db₂ hget]

theorem removeMissing_mem (db : BibData) (l : List Str) : ∀ k ∈ (BibData.removeMissing db l).1, (db.entries.getItem k).isSome = true := by
  induction l with
  | nil => intro k hk; cases hk
  | cons c r ih =>
    intro k hk
    simp only [BibData.removeMissing] at hk
    split at hk
    · rename_i hc
      rcases List.mem_cons.1 hk with rfl | hk
      · exact hc
      · exact ih k hk
    · exact ih k hk

/-! ### the `output.bibitem` prologue of alpha.bst: `\bibitem[label]{key}` -/

/-- `newline$ "\bibitem[" write$ label write$ "]{" write$ cite$ write$ "}" write$ newline$` -/
def bibitemHeadAlpha : List BTok :=
  [.name "newline$".toList, .str "\\bibitem[".toList, .name "write$".toList, .name "label".toList,
   .name "write$".toList, .str "]{".toList, .name "write$".toList, .name "cite$".toList,
   .name "write$".toList, .str "}".toList, .name "write$".toList, .name "newline$".toList]

/-- the text of the entry variable `label` of the entry `k` (`none`: not a string) -/
def labelText (s : St) (k : Str) : Option Str :=
  match dget (frameOf s k) "label".toList with
  | some (.str x) => some x
  | some (.missing _) => some []
  | none => some []
  | _ => none

def bibitemLinesAlpha (buffer : List Str) (label k : Str) : List Str :=
  [Wrap.wrapDefault buffer.flatten, ['\n'],
   Wrap.wrapDefault ("\\bibitem[".toList ++ label ++ "]{".toList ++ k ++ "}".toList), ['\n']]

def bibitemTraceAlpha (label k : Str) : List OutEv :=
  [.newline, .write "\\bibitem[".toList, .write label, .write "]{".toList, .write k, .write "}".toList, .newline]

theorem execTok_estr_ok {n : Nat} {nm v : Str} {s s1 : St} {k : Str} (hv : s.vars.getItem nm = some (.estr v))
    (hcur : s.cur = some k) (h : execTok n (.name nm) s = .ok s1) :
    s1 = push s (match dget (frameOf s k) v with | some x => x | none => .str []) := by
  obtain ⟨m, -, h2⟩ := execTok_name_ok hv h
  cases m with
  | zero => cases h2
  | succ j =>
    simp only [execObj, hcur] at h2
    cases h2
    rfl

theorem bibitemHeadAlpha_run (fuel : Nat) (tail : List BTok) (s s' : St) (k : Str) (hv : StdOut s.vars)
    (hl : s.vars.getItem "label".toList = some (.estr "label".toList)) (hcur : s.cur = some k)
    (h : execBody fuel (bibitemHeadAlpha ++ tail) s = .ok s') :
    ∃ n L, labelText s k = some L ∧
      execBody n tail { s with lines := s.lines ++ bibitemLinesAlpha s.buffer L k, buffer := [],
                               trace := s.trace ++ bibitemTraceAlpha L k } = .ok s' := by
  obtain ⟨hn, hw, hc⟩ := hv
  simp only [bibitemHeadAlpha, List.cons_append, List.nil_append] at h
  -- newline$
  obtain ⟨n1, s1, -, t1, h⟩ := execBody_cons_ok h
  obtain ⟨m1, t1⟩ := execTok_builtin_ok hn t1
  simp only [runBuiltin] at t1
  cases t1
  -- "\bibitem[" write$
  obtain ⟨n2, s2, -, t2, h⟩ := execBody_cons_ok h
  have := execTok_str_ok t2; subst this
  obtain ⟨n3, s3, -, t3, h⟩ := execBody_cons_ok h
  obtain ⟨m3, t3⟩ := execTok_builtin_ok (by exact hw) t3
  simp only [runBuiltin, pop, push] at t3
  cases t3
  -- label write$
  obtain ⟨n4, s4, -, t4, h⟩ := execBody_cons_ok h
  have := execTok_estr_ok (k := k) (by exact hl) (by exact hcur) t4
  subst this
  obtain ⟨n5, s5, -, t5, h⟩ := execBody_cons_ok h
  obtain ⟨m5, t5⟩ := execTok_builtin_ok (by exact hw) t5
  simp only [runBuiltin, pop, push] at t5
  obtain ⟨L, hL, hs5⟩ : ∃ L, labelText s k = some L ∧
      s5 = { s with lines := s.lines ++ [Wrap.wrapDefault s.buffer.flatten, ['\n']],
                    buffer := [] ++ ["\\bibitem[".toList] ++ [L],
                    trace := s.trace ++ [.newline] ++ [.write "\\bibitem[".toList] ++ [.write L] } := by
    generalize hd : dget (frameOf _ k) "label".toList = lab at t5
    have hd' : dget (frameOf s k) "label".toList = lab := hd
    cases lab with
    | none =>
      simp only [] at t5
      cases t5
      exact ⟨[], by simp only [labelText, hd'], rfl⟩
    | some v =>
      cases v with
      | str x =>
        simp only [] at t5
        cases t5
        exact ⟨x, by simp only [labelText, hd'], rfl⟩
      | missing nm =>
        simp only [] at t5
        cases t5
        exact ⟨[], by simp only [labelText, hd'], rfl⟩
      | int _ => simp only [] at t5; cases t5
      | fn _ => simp only [] at t5; cases t5
      | ref _ => simp only [] at t5; cases t5
  subst hs5
  -- "]{" write$
  obtain ⟨n6, s6, -, t6, h⟩ := execBody_cons_ok h
  have := execTok_str_ok t6; subst this
  obtain ⟨n7, s7, -, t7, h⟩ := execBody_cons_ok h
  obtain ⟨m7, t7⟩ := execTok_builtin_ok (by exact hw) t7
  simp only [runBuiltin, pop, push] at t7
  cases t7
  -- cite$ write$
  obtain ⟨n8, s8, -, t8, h⟩ := execBody_cons_ok h
  obtain ⟨m8, t8⟩ := execTok_builtin_ok (by exact hc) t8
  simp only [runBuiltin, hcur, push] at t8
  cases t8
  obtain ⟨n9, s9, -, t9, h⟩ := execBody_cons_ok h
  obtain ⟨m9, t9⟩ := execTok_builtin_ok (by exact hw) t9
  simp only [runBuiltin, pop] at t9
  cases t9
  -- "}" write$
  obtain ⟨n10, s10, -, t10, h⟩ := execBody_cons_ok h
  have := execTok_str_ok t10; subst this
  obtain ⟨n11, s11, -, t11, h⟩ := execBody_cons_ok h
  obtain ⟨m11, t11⟩ := execTok_builtin_ok (by exact hw) t11
  simp only [runBuiltin, pop, push] at t11
  cases t11
  -- newline$
  obtain ⟨n12, s12, -, t12, h⟩ := execBody_cons_ok h
  obtain ⟨m12, t12⟩ := execTok_builtin_ok (by exact hn) t12
  simp only [runBuiltin] at t12
  cases t12
  refine ⟨n12, L, hL, ?_⟩
  simpa [bibitemLinesAlpha, bibitemTraceAlpha, List.append_assoc, hcur] using h

end Pybtex.Engine
