/-
C10 — textual confinement BEFORE for every text, mode, wanted-set, macro table and person-field list
(`C10_confined_before_any`): if reading the text `a` ALONE raises nothing and reports no
`PrematureEOF`, then for EVERY continuation `x` what was read from `a` comes first in what is read
from `a ++ x`.  Induction over the rounds of the command loop with `loopStep_local` (a round that
does not run into the end of the text is the same in front of any continuation) and
`loopStep_good` / `parseLoop_good` (the loop only ever appends).  The ghost `errAt` differs between
the two runs; `GEq` = "same state up to the ghost".
-/
import PybtexModel.Lemmas.BibLocal

namespace Pybtex.Bib
open Pybtex

/-- the same state up to the ghost `errAt` -/
def GEq (s t : St) : Prop := t = { s with errAt := t.errAt }

theorem GEq.refl (s : St) : GEq s s := rfl

theorem GEq.trans {a b c : St} (h1 : GEq a b) (h2 : GEq b c) : GEq a c := by
  unfold GEq at *
  rw [h2, h1]

theorem GEq.inv {N : Nat} {s t : St} (h : GEq s t) (hI : Inv N s) : Inv N t := by
  unfold GEq at h
  rw [h]; exact hI

theorem GEq.symm {s t : St} (h : GEq s t) : GEq t s := by
  unfold GEq at *
  rw [h]

/-- a round does not look at the ghost -/
theorem loopStep_geq {N : Nat} (s t : St) (hI : Inv N s) (h : GEq s t) :
    match loopStep s, loopStep t with
    | .inl (s', o), .inl (t', o') => GEq s' t' ∧ o = o'
    | .inr s', .inr t' => GEq s' t'
    | _, _ => False := by
  have hI0 : Inv N { s with errs := [], errAt := [] } := ⟨hI.1, hI.2.1, fun e he => by cases he⟩
  have hnb : ∀ (T : Tr) (m : Nat) (r : Step), T.l = [] → NoClashS T m r := by
    intro T m r hl key hb
    rw [T.blocks_nil hl] at hb; cases hb
  have ha := loopStep_T ({ R := s.errs, RA := s.errAt } : Tr) 0 { s with errs := [], errAt := [] } hI0
    (Nat.zero_le _) (Nat.zero_le _) (Or.inl rfl) (hnb _ _ _ rfl)
  have hb := loopStep_T ({ R := s.errs, RA := t.errAt } : Tr) 0 { s with errs := [], errAt := [] } hI0
    (Nat.zero_le _) (Nat.zero_le _) (Or.inl rfl) (hnb _ _ _ rfl)
  rw [Tr.app_self_nil] at ha
  have et : ({ R := s.errs, RA := t.errAt } : Tr).app { s with errs := [], errAt := [] } = t := by
    unfold GEq at h
    rw [h, Tr.app_front]
    apply St.ext' <;> try rfl
    · show s.rest ++ [] = s.rest; simp
    · show s.errs ++ [] = s.errs; simp
    · show t.errAt ++ [].map (· ++ []) = _; simp
  rw [et] at hb
  rw [ha, hb]
  cases loopStep { s with errs := [], errAt := [] } with
  | inl r =>
    obtain ⟨s0, o⟩ := r
    simp only [Step.mapT]
    constructor <;> first | rfl | trivial
  | inr s0 =>
    simp only [Step.mapT]
    exact rfl

/-- the loop stops without an error only when no `@` is left -/
theorem loopStep_inl_none {s r : St} (h : loopStep s = .inl (r, none)) : r = s ∧ '@' ∉ s.rest := by
  by_cases hat : '@' ∈ s.rest
  · exfalso
    obtain ⟨chunk, rest, hsk⟩ := skipToChar_some_of (· = '@') s.rest '@' hat (by simp)
    rw [loopStep_eq] at h
    change (match skipToChar (· = '@') s.rest with | none => _ | some (chunk, rest) => _) = _ at h
    rw [hsk] at h
    simp only [cmdStep] at h
    split at h
    · split at h <;> cases h
    · split at h <;> cases h
    all_goals cases h
  · have := (loopStep_resync s s.rest [] hat).1 (by simp)
    have e : ({ s with rest := s.rest ++ [] } : St) = s := by
      apply St.ext' <;> try rfl
      show s.rest ++ [] = s.rest; simp
    rw [e] at this
    rw [this] at h
    cases h
    exact ⟨rfl, hat⟩

theorem mem_drop_of_le {α : Type} {l : List α} {x : α} {m n : Nat} (h : n ≤ m) (hx : x ∈ l.drop m) :
    x ∈ l.drop n := by
  have : l.drop m = (l.drop n).drop (m - n) := by
    rw [List.drop_drop]; congr 1; omega
  rw [this] at hx
  exact List.mem_of_mem_drop hx

/-- **Confinement before, for the command loop.**  `sa` reads the text `a = sa.rest` alone, `sx`
reads `a ++ c` from the same state (up to the ghost).  If the run on `a` raises nothing and reports
no `PrematureEOF`, its entries, preamble items and problems come first in those of the run on
`a ++ c`. -/
theorem parseLoop_before_any {N M : Nat} (c : Str) : ∀ (f : Nat) (sa sx : St), Inv N sa → Inv M sx →
    sa.rest.length < f → GEq { sa with rest := sa.rest ++ c } sx →
    (parseLoop f sa).2 = none →
    (∀ e ∈ (parseLoop f sa).1.errs.drop sa.errs.length, e.kind ≠ .prematureEOF) →
    (parseLoop f sa).1.db.entries <+: (parseLoop (f + c.length) sx).1.db.entries ∧
    (parseLoop f sa).1.db.preamble <+: (parseLoop (f + c.length) sx).1.db.preamble ∧
    (parseLoop f sa).1.errs <+: (parseLoop (f + c.length) sx).1.errs := by
  intro f
  induction f with
  | zero => intro sa sx _ _ hf; omega
  | succ f ih =>
    intro sa sx hIa hIx hf hg hnone hE
    have hfx : f + 1 + c.length = (f + c.length) + 1 := by omega
    have hsx : sx.rest = sa.rest ++ c := by unfold GEq at hg; rw [hg]
    have hdbx : sx.db = sa.db := by unfold GEq at hg; rw [hg]
    have herrx : sx.errs = sa.errs := by unfold GEq at hg; rw [hg]
    rw [parseLoop_succ] at hnone hE ⊢
    cases hl : loopStep sa with
    | inl r =>
      rw [hl] at hnone hE
      obtain ⟨r1, o⟩ := r
      simp only at hnone hE ⊢
      subst hnone
      obtain ⟨rfl, _⟩ := loopStep_inl_none hl
      have hgood := parseLoop_good (f + 1 + c.length) sx hIx (by rw [hsx, List.length_append]; omega)
      have hle := hgood.2.1
      rw [← hdbx, ← herrx]
      exact ⟨hle.2.2.2.2.1, hle.2.2.2.2.2, hle.2.2.2.1⟩
    | inr sa' =>
      rw [hl] at hnone hE
      simp only at hnone hE ⊢
      have hga := loopStep_good sa hIa
      rw [hl] at hga
      obtain ⟨hIa', hLa, hlen⟩ := hga
      -- the round found its `@`
      have hat : '@' ∈ sa.rest := by
        apply Classical.byContradiction
        intro h
        have := (loopStep_resync sa sa.rest [] h).1 (by simp)
        have e : ({ sa with rest := sa.rest ++ [] } : St) = sa := by
          apply St.ext' <;> try rfl
          show sa.rest ++ [] = sa.rest; simp
        rw [e, hl] at this
        cases this
      -- what the rest of the run on `a` reports extends what the round reported
      have hgood' := parseLoop_good f sa' hIa' (by omega)
      have hle' := hgood'.2.1
      have hEround : ∀ e ∈ (Step.st (loopStep sa)).errs.drop sa.errs.length, e.kind ≠ .prematureEOF := by
        rw [hl]
        intro e he
        exact hE e (mem_drop_of_prefix _ hle'.2.2.2.1 he)
      have hloc := loopStep_local sa c hIa.1 hat hEround (by rw [hl]; intro e he; cases he)
      rw [hl] at hloc
      simp only [Step.appRest] at hloc
      -- the round of the other run
      have hI2 : Inv M { sa with rest := sa.rest ++ c } := GEq.inv hg.symm hIx
      have hgeq := loopStep_geq { sa with rest := sa.rest ++ c } sx hI2 hg
      rw [hloc] at hgeq
      cases hlx : loopStep sx with
      | inl rx => rw [hlx] at hgeq; exact hgeq.elim
      | inr sx' =>
        rw [hlx] at hgeq
        simp only at hgeq
        have hgx := loopStep_good sx hIx
        rw [hlx] at hgx
        have hg' : GEq { sa' with rest := sa'.rest ++ c } sx' :=
          GEq.trans (show GEq { sa' with rest := sa'.rest ++ c } (sa'.appRest c sa.errAt.length) from rfl) hgeq
        rw [hfx, parseLoop_succ, hlx]
        simp only
        refine ih sa' sx' hIa' hgx.1 (by omega) hg' hnone ?_
        intro e he
        exact hE e (mem_drop_of_le hLa.2.2.2.1.length_le he)

/-- the same for whole texts -/
theorem parseBib_before_any (a x : Str) (strict : Bool) (wanted : Option (List Str))
    (macros0 : List (Str × Str)) (roles : List Str)
    (hnone : (parseBib a strict wanted macros0 roles).2 = none)
    (hE : ∀ e ∈ (parseBib a strict wanted macros0 roles).1.errs, e.kind ≠ .prematureEOF) :
    (parseBib a strict wanted macros0 roles).1.db.entries <+: (parseBib (a ++ x) strict wanted macros0 roles).1.db.entries ∧
    (parseBib a strict wanted macros0 roles).1.db.preamble <+: (parseBib (a ++ x) strict wanted macros0 roles).1.db.preamble ∧
    (parseBib a strict wanted macros0 roles).1.errs <+: (parseBib (a ++ x) strict wanted macros0 roles).1.errs := by
  have h := parseLoop_before_any x (a.length + 1) (initSt a strict wanted macros0 roles)
    (initSt (a ++ x) strict wanted macros0 roles) (initSt_inv ..) (initSt_inv ..) (Nat.lt_succ_self _) rfl
    hnone (fun e he => hE e (List.mem_of_mem_drop he))
  have hf : a.length + 1 + x.length = (a ++ x).length + 1 := by rw [List.length_append]; omega
  rw [hf] at h
  exact h

end Pybtex.Bib
