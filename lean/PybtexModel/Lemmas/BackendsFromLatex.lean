/-
C09, `Text.from_latex` followed by the LaTeX backend: from the denotation of the parsed text (every character at
its brace depth, `Lemmas/BackendsParser.lean`) to the depth sequence of the rendered string.
-/
import PybtexModel.Lemmas.BackendsParser

namespace Pybtex
open RT Backends Spec Spec.Tex LaTeXParser

namespace Spec.Tex

/-- only `Text` and `Protected` -/
def okKind : Kind → Bool
  | .text => true
  | .prot => true
  | _ => false

theorem allSyms_mono {p q : Str → Bool} (h : ∀ n, p n = true → q n = true) (t : RT) :
    allSyms p t = true → allSyms q t = true := by
  induction t using RT.induct with
  | hstr s => intro _; rfl
  | hsym n => intro hp; exact h n hp
  | hnode k ps ih =>
    intro hp
    simp only [allSyms] at hp ⊢
    rw [allSymsL_iff] at hp ⊢
    exact fun t ht => ih t ht (hp t ht)

/-- a normal-form text whose denotation shows only characters satisfying `P` inside nothing but `Protected`
consists of `Text` / `Protected` nodes and strings over `P` only -/
theorem kinds_of_sem (P : Char → Bool) (t : RT) : ∀ ctx, Normal t = true → (len t ≠ 0 ∨ isText t = true) →
    (∀ x ∈ sem ctx t, (∃ c, x.1 = Atom.ch c ∧ P c = true) ∧ ∀ m ∈ x.2, m = Markup.prot) →
    allKinds okKind t = true ∧ allStrs (fun s => s.all P) t = true ∧ allSyms (fun _ => false) t = true := by
  induction t using RT.induct with
  | hstr s =>
    intro ctx _ _ h
    refine ⟨rfl, ?_, rfl⟩
    simp only [allStrs, List.all_eq_true]
    intro c hc
    obtain ⟨⟨c', h1, h2⟩, _⟩ := h (Atom.ch c, ctx) (by simp only [sem, List.mem_map]; exact ⟨c, hc, rfl⟩)
    simp only [Atom.ch.injEq] at h1
    rw [h1]; exact h2
  | hsym n =>
    intro ctx _ _ h
    obtain ⟨⟨c', h1, _⟩, _⟩ := h (Atom.sym n, ctx) (by simp [sem])
    cases h1
  | hnode k ps ih =>
    intro ctx hn hl h
    obtain ⟨hparts, _⟩ := (normal_node k ps).1 hn
    have hsem : ∀ p ∈ ps, ∀ x ∈ sem (ctx ++ k.markup) p, x ∈ sem ctx (.node k ps) := by
      intro p hp x hx
      simp only [sem, semL_eq_flatMap, List.mem_flatMap]
      exact ⟨p, hp, hx⟩
    have hP : ∀ p ∈ ps, allKinds okKind p = true ∧ allStrs (fun s => s.all P) p = true ∧
        allSyms (fun _ => false) p = true := by
      intro p hp
      have hpo := hparts p hp
      exact ih p hp (ctx ++ k.markup) hpo.2.2 (Or.inl hpo.1) fun x hx => h x (hsem p hp x hx)
    have hk : okKind k = true := by
      cases ps with
      | nil =>
        rcases hl with hl | hl
        · exact absurd (by simp [len, lenL]) hl
        · cases k <;> simp_all [isText, okKind]
      | cons p ps' =>
        have hpo := hparts p (by simp)
        have hne : sem (ctx ++ k.markup) p ≠ [] := by
          intro e
          have := sem_length p (ctx ++ k.markup)
          rw [e] at this
          exact hpo.1 this.symm
        obtain ⟨x, hx⟩ := List.exists_mem_of_ne_nil _ hne
        obtain ⟨r, hr⟩ := mem_sem_stack p (ctx ++ k.markup) x hx
        have hall := (h x (hsem p (by simp) x hx)).2
        cases k with
        | text => rfl
        | prot => rfl
        | tag n =>
          have := hall (Markup.tag n) (by rw [hr]; simp [Kind.markup])
          cases this
        | href u e =>
          have := hall (Markup.href u e) (by rw [hr]; simp [Kind.markup])
          cases this
    refine ⟨?_, ?_, ?_⟩
    · simp only [allKinds, hk, Bool.true_and]
      exact (allKindsL_iff _ _).2 fun p hp => (hP p hp).1
    · simp only [allStrs]
      exact (allStrsL_iff _ _).2 fun p hp => (hP p hp).2.1
    · simp only [allSyms]
      exact (allSymsL_iff _ _).2 fun p hp => (hP p hp).2.2

/-- the depth sequence a string of pairs stands for when read from depth `d`: the characters, each at `d` + the
height of its markup stack -/
def flatDepths (d : Nat) (f : Flat) : List (Char × Nat) :=
  f.filterMap fun x => match x.1 with
    | .ch c => some (c, d + x.2.length)
    | .sym _ => none

theorem flatDepths_append (d : Nat) (f g : Flat) : flatDepths d (f ++ g) = flatDepths d f ++ flatDepths d g := by
  simp [flatDepths]

theorem flatDepths_asFlat (l : List (Char × Nat)) : flatDepths 0 (asFlat l) = l := by
  induction l with
  | nil => rfl
  | cons p l ih =>
    simp only [asFlat, List.map_cons, flatDepths, List.filterMap_cons, List.length_replicate, Nat.zero_add] at ih ⊢
    rw [ih]

theorem flatDepths_push (d : Nat) (f : Flat) : flatDepths d (Flat.push [Markup.prot] f) = flatDepths (d + 1) f := by
  induction f with
  | nil => rfl
  | cons x f ih =>
    obtain ⟨a, st⟩ := x
    simp only [Flat.push, List.map_cons, flatDepths, List.filterMap_cons] at ih ⊢
    rw [ih]
    cases a with
    | ch c => simp only [List.cons_append, List.nil_append, List.length_cons]; rw [show d + (st.length + 1) = d + 1 + st.length by omega]
    | sym n => rfl

theorem flatDepths_chars (d : Nat) (s : Str) :
    flatDepths d (s.map fun c => (Atom.ch c, [])) = s.map fun c => (c, d) := by
  induction s with
  | nil => rfl
  | cons c s ih =>
    simp only [List.map_cons, flatDepths, List.filterMap_cons, List.length_nil, Nat.add_zero] at ih ⊢
    rw [ih]

/-- **the LaTeX rendering of a `Text`/`Protected`-only tree over characters the codec leaves alone**: brace-balanced,
and every character sits at the depth of its `Protected` nesting -/
theorem latex_depths (encode : Str → Str) (P : Char → Bool) (hP : ∀ c, P c = true → c ≠ '{' ∧ c ≠ '}')
    (henc : ∀ s : Str, s.all P = true → encode s = s) (t : RT) (hk : allKinds okKind t = true)
    (hs : allStrs (fun s => s.all P) t = true) (hy : allSyms (fun _ => false) t = true) :
    ∃ r, render (latex encode) t = some r ∧
      ∀ d, depthAfter d r = some d ∧ depthsFrom d r = flatDepths d (sem [] t) := by
  have hsome := render_isSome (latex encode) t (allSyms_mono (fun n h => by cases h) t hy)
  cases hr : render (latex encode) t with
  | none => simp [hr] at hsome
  | some r =>
    refine ⟨r, rfl, ?_⟩
    refine render_rel (latex encode) okKind (fun s => s.all P) (fun _ => false)
      (fun f x => ∀ d, depthAfter d x = some d ∧ depthsFrom d x = flatDepths d f) ?_ ?_ ?_ ?_ ?_ ?_ t r hk hs hy hr
    · intro s hs d
      show depthAfter d (encode s) = some d ∧ depthsFrom d (encode s) = _
      rw [henc s hs]
      have hbf : braceFree s = true := by
        simp only [braceFree, List.all_eq_true, Bool.and_eq_true, bne_iff_ne]
        intro c hc
        exact hP c (List.all_eq_true.1 hs c hc)
      exact ⟨depthAfter_braceFree hbf d, by rw [depthsFrom_braceFree s hbf, flatDepths_chars]⟩
    · intro n r h; cases h
    · intro fs xs hall
      show ∀ d, depthAfter d (List.flatten xs) = some d ∧ depthsFrom d (List.flatten xs) = flatDepths d fs.flatten
      induction hall with
      | nil => intro d; exact ⟨rfl, rfl⟩
      | cons hfx _ ih =>
        intro d
        simp only [List.flatten_cons]
        refine ⟨by rw [depthAfter_app, (hfx d).1]; exact (ih d).1, ?_⟩
        rw [depthsFrom_app _ _ d d (hfx d).1, (hfx d).2, (ih d).2, flatDepths_append]
    · intro n f x h; cases h
    · intro u e f x h; cases h
    · intro f x _ hx d
      show depthAfter d (Latex.formatProtected x) = some d ∧ depthsFrom d (Latex.formatProtected x) = _
      have e1 : Latex.formatProtected x = [] ++ ['{'] ++ x ++ ['}'] := by simp [Latex.formatProtected]
      refine ⟨by rw [e1]; exact depthAfter_group [] x (by decide) (fun d => (hx d).1) d, ?_⟩
      simp only [Latex.formatProtected, List.cons_append, List.nil_append, depthsFrom, if_true]
      rw [depthsFrom_app x ['}'] (d + 1) (d + 1) (hx (d + 1)).1, (hx (d + 1)).2, flatDepths_push]
      simp [depthsFrom]

theorem mem_depthsFrom (s : Str) : ∀ d, ∀ p ∈ depthsFrom d s, p.1 ∈ s ∧ p.1 ≠ '{' ∧ p.1 ≠ '}' := by
  induction s with
  | nil => intro d p hp; cases hp
  | cons c s ih =>
    intro d p hp
    simp only [depthsFrom] at hp
    split at hp
    · obtain ⟨h1, h2⟩ := ih _ p hp; exact ⟨List.mem_cons_of_mem _ h1, h2⟩
    · split at hp
      · obtain ⟨h1, h2⟩ := ih _ p hp; exact ⟨List.mem_cons_of_mem _ h1, h2⟩
      · rename_i h1 h2
        simp only [List.mem_cons] at hp
        rcases hp with hp | hp
        · subst hp; exact ⟨by simp, h1, h2⟩
        · obtain ⟨h3, h4⟩ := ih _ p hp; exact ⟨List.mem_cons_of_mem _ h3, h4⟩

end Spec.Tex

/-- **`from_latex` then the LaTeX backend keeps every character at its depth** (string level): `P` = characters the
codec leaves alone -/
theorem fromLatex_render_depths (encode : Str → Str) (P : Char → Bool) (hP : ∀ c, P c = true → c ≠ '{' ∧ c ≠ '}')
    (henc : ∀ s : Str, s.all P = true → encode s = s) (d : Str) (hb : balanced d = true)
    (hd : ∀ c ∈ d, c = '{' ∨ c = '}' ∨ P c = true) :
    ∃ t r, parse d = .ok t ∧ render (latex encode) t = some r ∧ Tex.depths r = Tex.depths d := by
  obtain ⟨t, ht, hsem, hn⟩ := parse_balanced d hb
  have htext : isText t = true := by
    simp only [parse] at ht
    split at ht
    · cases ht
    · simp only [Except.ok.injEq] at ht; rw [← ht]; rfl
  obtain ⟨hk, hs, hy⟩ := kinds_of_sem P t [] hn (Or.inr htext) (by
    intro x hx
    rw [hsem] at hx
    simp only [asFlat, List.mem_map] at hx
    obtain ⟨p, hp, rfl⟩ := hx
    obtain ⟨h1, h2, h3⟩ := mem_depthsFrom d 0 p hp
    refine ⟨⟨p.1, rfl, ?_⟩, fun m hm => (List.mem_replicate.1 hm).2⟩
    rcases hd p.1 h1 with h | h | h
    · exact absurd h h2
    · exact absurd h h3
    · exact h)
  obtain ⟨r, hr, hdep⟩ := latex_depths encode P hP henc t hk hs hy
  refine ⟨t, r, ht, hr, ?_⟩
  have hbr : balanced r = true := by simp [balanced, (hdep 0).1]
  simp only [Tex.depths, hbr, hb, if_true, (hdep 0).2, hsem, flatDepths_asFlat]

end Pybtex
