/-
Round trip on *clean* text (lexemes separated by white space only, as `parse_string` hands it to
the parser): stage "tokens → group".
-/
import PybtexModel.Lemmas.BstLiteral

namespace Pybtex.Bst
open Pybtex.Scanner

/-- number of `\n` in a text -/
def nl (s : Str) : Nat := s.count '\n'

theorem nl_append (a b : Str) : nl (a ++ b) = nl a + nl b := by simp [nl, List.count_append]

/-- lexemes with the white strings `W` around them: `W₀ l₁ W₁ l₂ … lₙ Wₙ` -/
def renderW : List Lex → List Str → Str
  | [], W => W.headD []
  | l :: ls, W => W.headD [] ++ (l.text ++ renderW ls W.tail)

/-- `renderW` followed by a tail `T` (arbitrary text behind the last white string) -/
def renderWT (T : Str) : List Lex → List Str → Str
  | [], W => W.headD [] ++ T
  | l :: ls, W => W.headD [] ++ (l.text ++ renderWT T ls W.tail)

theorem renderWT_nil (ls : List Lex) (W : List Str) : renderWT [] ls W = renderW ls W := by
  induction ls generalizing W with
  | nil => simp [renderWT, renderW]
  | cons l ls ih => simp [renderWT, renderW, ih]

theorem renderWT_eq (T : Str) (ls : List Lex) (W : List Str) : renderWT T ls W = renderW ls W ++ T := by
  induction ls generalizing W with
  | nil => simp [renderWT, renderW]
  | cons l ls ih => simp [renderWT, renderW, ih]

/-- a tail that extends neither a name nor an integer in front of it -/
def TailOK (T : Str) : Prop := headSat isNameChar T = false ∧ headSat isDigit T = false

theorem TailOK.nil : TailOK [] := ⟨rfl, rfl⟩

/-- every gap is white, and non-empty where two lexemes would fuse -/
def GoodW : Option Lex → List Lex → List Str → Prop
  | _, [], W => White (W.headD [])
  | prev, l :: ls, W =>
    White (W.headD []) ∧ (needsGap prev l = true → W.headD [] ≠ []) ∧ GoodW (some l) ls W.tail

theorem headSat_white (w rest : Str) (hw : White w) (hne : w ≠ []) :
    headSat isNameChar (w ++ rest) = false ∧ headSat isDigit (w ++ rest) = false := by
  cases w with
  | nil => exact absurd rfl hne
  | cons c w =>
    have := (hw c (by simp)).1
    exact ⟨by simpa [headSat] using isWs_not_isNameChar this, by simpa [headSat] using isWs_not_isDigit this⟩

theorem headSat_white_only (w : Str) (hw : White w) :
    headSat isNameChar w = false ∧ headSat isDigit w = false := by
  cases w with
  | nil => simp [headSat]
  | cons c w => simpa using headSat_white (c :: w) [] hw (by simp)

theorem headSat_nonword (l : Lex) (hnw : ∀ s, l ≠ .word s) (x : Str) :
    headSat isNameChar (l.text ++ x) = false ∧ headSat isDigit (l.text ++ x) = false := by
  cases l with
  | word s => exact absurd rfl (hnw s)
  | int v => simp [Lex.text, intText, headSat, isNameChar, isDigit]
  | str s => simp [Lex.text, headSat, isNameChar, isDigit]
  | lb => simp [Lex.text, headSat, isNameChar, isDigit]
  | rb => simp [Lex.text, headSat, isNameChar, isDigit]

theorem follows_of_goodT (T : Str) (hT : TailOK T) (l : Lex) (ls : List Lex) (W : List Str)
    (hg : GoodW (some l) ls W) : Follows l (renderWT T ls W) := by
  have key : headSat isNameChar (renderWT T ls W) = false ∧ headSat isDigit (renderWT T ls W) = false ∨
      (∃ l' ls', ls = l' :: ls' ∧ needsGap (some l) l' = true ∧ W.headD [] = []) ∨
      (∀ s, l ≠ .word s) ∧ (∀ v, l ≠ .int v) := by
    cases ls with
    | nil =>
      left
      simp only [renderWT]
      by_cases hne : W.headD [] = []
      · rw [hne]; exact hT
      · exact headSat_white _ _ hg hne
    | cons l' ls' =>
      obtain ⟨hw, hgap, _⟩ := hg
      by_cases hne : W.headD [] = []
      · by_cases hng : needsGap (some l) l' = true
        · exact absurd hne (hgap hng)
        · -- no gap needed: the next lexeme is not a word, or `l` is neither word nor integer
          cases l with
          | word s =>
            left
            have hnw : ∀ s', l' ≠ .word s' := by
              intro s' h; subst h; simp [needsGap] at hng
            simp only [renderWT, hne, List.nil_append]
            exact headSat_nonword l' hnw _
          | int v =>
            left
            have hnw : ∀ s', l' ≠ .word s' := by
              intro s' h; subst h; simp [needsGap] at hng
            simp only [renderWT, hne, List.nil_append]
            exact headSat_nonword l' hnw _
          | str s => right; right; exact ⟨(by intro s h; cases h), (by intro v h; cases h)⟩
          | lb => right; right; exact ⟨(by intro s h; cases h), (by intro v h; cases h)⟩
          | rb => right; right; exact ⟨(by intro s h; cases h), (by intro v h; cases h)⟩
      · left
        simp only [renderWT]
        exact headSat_white _ _ hw hne
  cases l with
  | word s =>
    rcases key with h | ⟨l', ls', rfl, hng, hnil⟩ | ⟨h, _⟩
    · exact h.1
    · exact absurd hnil (hg.2.1 hng)
    · exact absurd rfl (h s)
  | int v =>
    rcases key with h | ⟨l', ls', rfl, hng, hnil⟩ | ⟨_, h⟩
    · exact h.2
    · exact absurd hnil (hg.2.1 hng)
    · exact absurd rfl (h v)
  | str s => trivial
  | lb => trivial
  | rb => trivial

theorem follows_of_good (l : Lex) (ls : List Lex) (W : List Str) (hg : GoodW (some l) ls W) :
    Follows l (renderW ls W) := by
  simpa only [renderWT_nil] using follows_of_goodT [] TailOK.nil l ls W hg

theorem isNameChar_ne_nl {c : Char} (h : isNameChar c = true) : c ≠ '\n' := by
  intro hc; subst hc; simp [isNameChar, isWs, wsCodes] at h

theorem lex_text_no_nl (l : Lex) (hl : LexOK l) : nl l.text = 0 := by
  unfold nl
  rw [List.count_eq_zero]
  cases l with
  | word s => intro hm; exact isNameChar_ne_nl (hl.2 _ hm) rfl
  | int v =>
    intro hm
    have hd : ∀ c ∈ Nat.toDigits 10 v.natAbs, c ≠ '\n' := by
      intro c hc h; subst h
      have := toDigits_all_digit _ _ hc
      simp [isDigit] at this
    simp only [Lex.text, intText] at hm
    split at hm
    · simp at hm; exact hd _ hm rfl
    · simp at hm; exact hd _ hm rfl
  | str s =>
    intro hm
    simp only [Lex.text, List.mem_cons, List.mem_append, List.not_mem_nil, or_false] at hm
    rcases hm with h | h | h
    · cases h
    · exact (hl _ h).2 rfl
    · cases h
  | lb => simp [Lex.text]
  | rb => simp [Lex.text]

/-! one turn of the loop of `parse_group`, by kind of token -/

theorem mkLiteralE_of_short (k : TokKind) (v : Str) (l : Nat)
    (hlen : k = .integer → intTooLong v = false) : mkLiteralE k v l = .ok (mkLiteral k v) := by
  unfold mkLiteralE
  rw [if_neg]
  intro ⟨h1, h2⟩
  rw [hlen h1] at h2; cases h2

theorem parseGroupF_step_lit (fuel : Nat) (st st1 : St) (k : TokKind) (v : Str)
    (hreq : required groupPats none false st = .ok ((k, v), st1))
    (hk : k = .name ∨ k = .string ∨ k = .integer)
    (hlen : k = .integer → intTooLong v = false) :
    parseGroupF (fuel + 1) st =
      match parseGroupF fuel st1 with
      | .error e => .error e
      | .ok (ts, st2) => .ok (mkLiteral k v :: ts, st2) := by
  have hm := mkLiteralE_of_short k v st1.line hlen
  rcases hk with rfl | rfl | rfl <;> simp only [parseGroupF, hreq, hm] <;> rfl

/-- a too long integer literal: the loop of `parse_group` stops there -/
theorem parseGroupF_step_long (fuel : Nat) (st st1 : St) (v : Str)
    (hreq : required groupPats none false st = .ok ((.integer, v), st1))
    (hlen : intTooLong v = true) :
    parseGroupF (fuel + 1) st
      = .error (.syntaxError "integer literal too long".toList st1.line) := by
  simp only [parseGroupF, hreq, mkLiteralE, hlen, and_self, if_true]

theorem intText_digits (v : Int) : (intText v).filter isDigit = Nat.toDigits 10 v.natAbs := by
  have hall : (Nat.toDigits 10 v.natAbs).filter isDigit = Nat.toDigits 10 v.natAbs :=
    List.filter_eq_self.2 (toDigits_all_digit _)
  unfold intText
  split
  · simp [List.filter, isDigit, hall]
  · simp [List.filter, isDigit, hall]

theorem intTooLong_of_wf (v : Int) (h : wfInt v = true) : intTooLong (intText v) = false := by
  simp only [wfInt, decide_eq_true_eq] at h
  simp only [intTooLong, intText_digits, int_limit, Bool.and_eq_false_iff, decide_eq_false_iff_not]
  right; omega

theorem parseGroupF_step_rb (fuel : Nat) (st st1 : St) (v : Str)
    (hreq : required groupPats none false st = .ok ((.rbrace, v), st1)) :
    parseGroupF (fuel + 1) st = .ok ([], st1) := by
  simp only [parseGroupF, hreq]

theorem parseGroupF_step_lb (fuel : Nat) (st st1 : St) (v : Str)
    (hreq : required groupPats none false st = .ok ((.lbrace, v), st1)) :
    parseGroupF (fuel + 1) st =
      match parseGroupF fuel st1 with
      | .error e => .error e
      | .ok (body, st2) =>
        match parseGroupF fuel st2 with
        | .error e => .error e
        | .ok (ts, st3) => .ok (.fn body :: ts, st3) := by
  simp only [parseGroupF, hreq]
  rfl

/-! simple tokens and their lexeme -/

def simpleLex : Tok → Lex
  | .int v => .int v
  | .str s => .str s
  | .quoted n => .word ('\'' :: n)
  | .name n => .word n
  | .fn _ => .lb

theorem lexemes_simple (t : Tok) (h : t.simple = true) : t.lexemes = [simpleLex t] := by
  cases t <;> simp_all [Tok.simple, Tok.lexemes, simpleLex]

theorem nameChar_isNameChar {c : Char} (h : nameChar c = true) : isNameChar c = true := by
  simp only [nameChar, Bool.not_eq_true', Bool.or_eq_false_iff, decide_eq_false_iff_not] at h
  simp [isNameChar, h]

theorem wfName_ok {n : Str} (h : wfName n = true) :
    n ≠ [] ∧ (∀ c ∈ n, isNameChar c = true) ∧ wordTok n = .name n := by
  cases n with
  | nil => simp [wfName] at h
  | cons c r =>
    simp only [wfName, Bool.and_eq_true, bne_iff_ne, ne_eq, List.all_eq_true] at h
    obtain ⟨⟨h1, h2⟩, h3⟩ := h
    refine ⟨by simp, ?_, ?_⟩
    · intro d hd
      simp only [List.mem_cons] at hd
      rcases hd with rfl | hd
      · exact nameChar_isNameChar h2
      · exact nameChar_isNameChar (h3 d hd)
    · unfold wordTok
      split
      · rename_i n' heq; simp at heq; exact absurd heq.1 h1
      · rfl

theorem simpleLex_ok (t : Tok) (hs : t.simple = true) (hwf : wfTok t = true) :
    LexOK (simpleLex t) ∧ mkLiteral (kindOf (simpleLex t)) (simpleLex t).text = t ∧
    (kindOf (simpleLex t) = .name ∨ kindOf (simpleLex t) = .string ∨ kindOf (simpleLex t) = .integer) ∧
    (kindOf (simpleLex t) = .integer → intTooLong (simpleLex t).text = false) := by
  cases t with
  | fn b => simp [Tok.simple] at hs
  | int v =>
    exact ⟨trivial, mkLiteral_int v, by simp [simpleLex, kindOf],
      fun _ => intTooLong_of_wf v (by simpa [wfTok] using hwf)⟩
  | str s =>
    refine ⟨?_, mkLiteral_str s, by simp [simpleLex, kindOf], by simp [simpleLex, kindOf]⟩
    intro c hc
    simp only [wfTok, wfStr, List.all_eq_true, Bool.and_eq_true, bne_iff_ne, ne_eq,
      Bool.not_eq_true'] at hwf
    refine ⟨(hwf c hc).1, ?_⟩
    intro h; subst h
    have := (hwf _ hc).2
    simp [isLineSep, lineSepCodes] at this
  | quoted n =>
    simp only [wfTok, wfQuoted, List.all_eq_true] at hwf
    refine ⟨⟨by simp, ?_⟩, ?_, by simp [simpleLex, kindOf], by simp [simpleLex, kindOf]⟩
    · intro c hc
      simp only [List.mem_cons] at hc
      rcases hc with rfl | hc
      · simp [isNameChar, isWs, wsCodes]
      · exact nameChar_isNameChar (hwf c hc)
    · simp [simpleLex, kindOf, Lex.text, mkLiteral_word, wordTok]
  | name n =>
    simp only [wfTok] at hwf
    obtain ⟨h1, h2, h3⟩ := wfName_ok hwf
    exact ⟨⟨h1, h2⟩, by simp [simpleLex, kindOf, Lex.text, mkLiteral_word, h3], by simp [simpleLex, kindOf],
      by simp [simpleLex, kindOf]⟩

/-- all lexemes of a well-formed token list scan as themselves -/
theorem lexemesList_ok : ∀ ts, wfToks ts = true → ∀ l ∈ lexemesList ts, LexOK l := by
  apply toks_induction
  · intro _ l hl; simp [lexemesList] at hl
  · intro t ts hs ih hwf l hl
    simp only [wfToks, Bool.and_eq_true] at hwf
    simp only [lexemesList, lexemes_simple t hs, List.singleton_append, List.mem_cons] at hl
    rcases hl with rfl | hl
    · exact (simpleLex_ok t hs hwf.1).1
    · exact ih hwf.2 l hl
  · intro body ts ihb iht hwf l hl
    simp only [wfToks, wfTok, Bool.and_eq_true] at hwf
    simp only [lexemesList, Tok.lexemes, List.cons_append, List.mem_cons, List.mem_append,
      List.not_mem_nil, or_false] at hl
    rcases hl with rfl | (hl | rfl) | hl
    · trivial
    · exact ihb hwf.1 l hl
    · trivial
    · exact iht hwf.2 l hl

theorem tail_drop {α : Type} (W : List α) (k : Nat) : W.tail.drop k = W.drop (k + 1) := by
  cases W <;> simp

/-- **stage "group"**: on clean text, `parse_group` returns exactly the tokens written, stops
behind the closing brace, and has counted exactly the line breaks it passed -/
theorem group_rtT (T : Str) (hT : TailOK T) : ∀ ts, ∀ (prev : Option Lex) (more : List Lex) (W : List Str) (ln fuel : Nat),
    wfToks ts = true → (∀ x ∈ more, LexOK x) →
    GoodW prev (lexemesList ts ++ .rb :: more) W → (lexemesList ts).length + 1 ≤ fuel →
    ∃ W' ln', parseGroupF fuel ⟨renderWT T (lexemesList ts ++ .rb :: more) W, ln⟩
        = .ok (ts, ⟨renderWT T more W', ln'⟩) ∧ GoodW (some .rb) more W' ∧
      ln' + nl (renderWT T more W') = ln + nl (renderWT T (lexemesList ts ++ .rb :: more) W) ∧
      W' = W.drop ((lexemesList ts).length + 1) := by
  apply toks_induction
  · -- the closing brace
    intro prev more W ln fuel _ hmore hg hfuel
    obtain ⟨hw, _, hg'⟩ := hg
    cases fuel with
    | zero => simp at hfuel
    | succ fuel =>
      have hreq := required_lex .rb trivial (W.headD []) (renderWT T more W.tail) hw ln trivial none false
      refine ⟨W.tail, ln + (W.headD []).count '\n', ?_, hg', ?_, by simp [lexemesList]⟩
      · simp only [lexemesList, List.nil_append, renderWT]
        exact parseGroupF_step_rb fuel _ _ _ hreq
      · simp only [lexemesList, List.nil_append, renderWT, nl_append, Lex.text, nl]
        simp; omega
  · -- a literal, then the rest
    intro t ts hs ih prev more W ln fuel hwf hmore hg hfuel
    simp only [wfToks, Bool.and_eq_true] at hwf
    obtain ⟨hok, hmk, hkind, hshort⟩ := simpleLex_ok t hs hwf.1
    simp only [lexemesList, lexemes_simple t hs, List.singleton_append, List.cons_append,
      List.nil_append, List.length_cons] at hg hfuel ⊢
    obtain ⟨hw, _, hg'⟩ := hg
    cases fuel with
    | zero => omega
    | succ fuel =>
      have hfol := follows_of_goodT T hT (simpleLex t) _ _ hg'
      have hreq := required_lex (simpleLex t) hok (W.headD []) _ hw ln hfol none false
      obtain ⟨W', ln', hp, hgood, hcons, hdrop⟩ :=
        ih (some (simpleLex t)) more W.tail (ln + (W.headD []).count '\n') fuel hwf.2 hmore hg' (by omega)
      refine ⟨W', ln', ?_, hgood, ?_, by rw [hdrop, tail_drop]⟩
      · simp only [renderWT]
        rw [parseGroupF_step_lit fuel _ _ _ _ hreq hkind hshort, hp, hmk]
      · rw [hcons]
        simp only [renderWT, nl_append, lex_text_no_nl _ hok]
        simp only [nl]; omega
  · -- a function literal, then the rest
    intro body ts ihb iht prev more W ln fuel hwf hmore hg hfuel
    simp only [wfToks, wfTok, Bool.and_eq_true] at hwf
    have hlex : lexemesList (.fn body :: ts) ++ .rb :: more
        = .lb :: (lexemesList body ++ .rb :: (lexemesList ts ++ .rb :: more)) := by
      simp [lexemesList, Tok.lexemes]
    have hlen : (lexemesList (.fn body :: ts)).length
        = (lexemesList body).length + (lexemesList ts).length + 2 := by
      simp [lexemesList, Tok.lexemes]; omega
    rw [hlex] at hg ⊢
    rw [hlen] at hfuel
    obtain ⟨hw, _, hg'⟩ := hg
    cases fuel with
    | zero => omega
    | succ fuel =>
      have hreq := required_lex .lb trivial (W.headD [])
        (renderWT T (lexemesList body ++ .rb :: (lexemesList ts ++ .rb :: more)) W.tail) hw ln trivial none false
      have hmore' : ∀ x ∈ lexemesList ts ++ .rb :: more, LexOK x := by
        intro x hx
        simp only [List.mem_append, List.mem_cons] at hx
        rcases hx with hx | rfl | hx
        · exact lexemesList_ok ts hwf.2 x hx
        · trivial
        · exact hmore x hx
      obtain ⟨W1, ln1, hp1, hgood1, hcons1, hdrop1⟩ :=
        ihb (some .lb) (lexemesList ts ++ .rb :: more) W.tail (ln + (W.headD []).count '\n') fuel
          hwf.1 hmore' hg' (by omega)
      obtain ⟨W2, ln2, hp2, hgood2, hcons2, hdrop2⟩ :=
        iht (some .rb) more W1 ln1 fuel hwf.2 hmore hgood1 (by omega)
      refine ⟨W2, ln2, ?_, hgood2, ?_, ?_⟩
      rotate_left 2
      · rw [hdrop2, hdrop1, tail_drop, List.drop_drop, hlen]
        congr 1; omega
      · simp only [renderWT]
        rw [parseGroupF_step_lb fuel _ _ _ hreq, hp1]
        simp only [hp2]
      · rw [hcons2, hcons1]
        simp only [renderWT, nl_append, Lex.text]
        simp only [nl]; simp; omega

theorem group_rt : ∀ ts, ∀ (prev : Option Lex) (more : List Lex) (W : List Str) (ln fuel : Nat),
    wfToks ts = true → (∀ x ∈ more, LexOK x) →
    GoodW prev (lexemesList ts ++ .rb :: more) W → (lexemesList ts).length + 1 ≤ fuel →
    ∃ W' ln', parseGroupF fuel ⟨renderW (lexemesList ts ++ .rb :: more) W, ln⟩
        = .ok (ts, ⟨renderW more W', ln'⟩) ∧ GoodW (some .rb) more W' ∧
      ln' + nl (renderW more W') = ln + nl (renderW (lexemesList ts ++ .rb :: more) W) ∧
      W' = W.drop ((lexemesList ts).length + 1) := by
  simpa only [renderWT_nil] using group_rtT [] TailOK.nil

end Pybtex.Bst
