/-
Helper lemmas for C20: the model of `pybtex/auxfile.py` (Model/AuxFile.lean) computes the
denotation of Spec/AuxFile.lean.

1. `str.split(',')` as the code does it = the comma split of the spec; characterisation.
2. the regular-expression matcher = the spec's classification of a line; shape of a command line.
3. `parseFile` on a closed, acyclic inclusion = a fold of `applyEvent` over the spec's events.
4. that fold computes the spec's citations / style / data / reports (one invariant, `Sim`).
5. fuel: independence and sufficiency; no `AttributeError`.
6. lines that are no command are ignored (document-level).
-/
import PybtexModel.Spec.AuxFile
import PybtexModel.Lemmas.Basic

namespace Pybtex.Aux
open Spec

/-! ## 1. comma split -/

theorem splitComma_ne_nil (s : Str) : splitComma s ≠ [] := by
  induction s with
  | nil => simp [splitComma]
  | cons c r ih =>
    simp only [splitComma]
    split
    · simp
    · cases h : splitComma r with
      | nil => exact absurd h ih
      | cons a b => simp [addToFirst]

/-- put `p` in front of the first part -/
def prependFirst (p : Str) : List Str → List Str
  | [] => [p]
  | h :: t => (p ++ h) :: t

theorem pySplitAux_eq (s cur : Str) :
    pySplitAux ',' s cur = prependFirst cur.reverse (splitComma s) := by
  induction s generalizing cur with
  | nil => simp [pySplitAux, splitComma, prependFirst]
  | cons c r ih =>
    simp only [pySplitAux, splitComma]
    split
    · rw [ih]
      cases h : splitComma r with
      | nil => exact absurd h (splitComma_ne_nil r)
      | cons a b => simp [prependFirst]
    · rw [ih]
      cases h : splitComma r with
      | nil => exact absurd h (splitComma_ne_nil r)
      | cons a b => simp [prependFirst, addToFirst]

/-- the code's `keys.split(',')` is the comma split of the specification -/
theorem pySplit_eq (s : Str) : pySplit ',' s = splitComma s := by
  unfold pySplit
  rw [pySplitAux_eq]
  cases h : splitComma s with
  | nil => exact absurd h (splitComma_ne_nil s)
  | cons a b => simp [prependFirst]

theorem splitComma_join (s : Str) : joinWith [','] (splitComma s) = s := by
  induction s with
  | nil => simp [splitComma, joinWith]
  | cons c r ih =>
    simp only [splitComma]
    split
    · rename_i hc
      cases h : splitComma r with
      | nil => exact absurd h (splitComma_ne_nil r)
      | cons a b => rw [h] at ih; simp [joinWith, ih, hc]
    · cases h : splitComma r with
      | nil => exact absurd h (splitComma_ne_nil r)
      | cons a b =>
        rw [h] at ih
        cases b with
        | nil => simp only [joinWith] at ih; simp [addToFirst, joinWith, ih]
        | cons b1 b2 => simp only [joinWith] at ih; simp [addToFirst, joinWith, ← ih]

theorem splitComma_no_comma (s : Str) : ∀ p ∈ splitComma s, ',' ∉ p := by
  induction s with
  | nil => simp [splitComma]
  | cons c r ih =>
    simp only [splitComma]
    split
    · intro p hp
      rcases List.mem_cons.mp hp with h | h
      · simp [h]
      · exact ih p h
    · rename_i hc
      cases h : splitComma r with
      | nil => exact absurd h (splitComma_ne_nil r)
      | cons a b =>
        rw [h] at ih
        intro p hp
        simp only [addToFirst, List.mem_cons] at hp
        rcases hp with h | h
        · subst h
          have := ih a (by simp)
          simp only [List.mem_cons, not_or]
          exact ⟨fun e => hc e.symm, this⟩
        · exact ih p (by simp [h])

theorem splitComma_of_no_comma (p : Str) (h : ',' ∉ p) : splitComma p = [p] := by
  induction p with
  | nil => simp [splitComma]
  | cons c r ih =>
    simp only [List.mem_cons, not_or] at h
    have hc : c ≠ ',' := fun e => h.1 e.symm
    simp only [splitComma, if_neg hc, ih h.2, addToFirst]

theorem splitComma_append_comma (p rest : Str) (h : ',' ∉ p) :
    splitComma (p ++ ',' :: rest) = p :: splitComma rest := by
  induction p with
  | nil => simp [splitComma]
  | cons c r ih =>
    simp only [List.mem_cons, not_or] at h
    have hc : c ≠ ',' := fun e => h.1 e.symm
    simp only [List.cons_append, splitComma, if_neg hc, ih h.2, addToFirst]

/-- uniqueness: any non-empty list of comma-free parts is the split of its comma join -/
theorem splitComma_unique (parts : List Str) (hne : parts ≠ []) (h : ∀ p ∈ parts, ',' ∉ p) :
    splitComma (joinWith [','] parts) = parts := by
  induction parts with
  | nil => exact absurd rfl hne
  | cons a b ih =>
    cases b with
    | nil => simp only [joinWith]; exact splitComma_of_no_comma a (h a (by simp))
    | cons b1 b2 =>
      simp only [joinWith, List.append_assoc, List.singleton_append]
      rw [splitComma_append_comma a _ (h a (by simp)), ih (by simp) (fun p hp => h p (by simp [hp]))]

/-! ## 2. the matcher -/

theorem beforeLastClose_none (s : Str) : beforeLastClose s = none ↔ '}' ∉ s := by
  induction s with
  | nil => simp [beforeLastClose]
  | cons c r ih =>
    simp only [beforeLastClose]
    cases h : beforeLastClose r with
    | some p =>
      have : ¬ ('}' ∉ r) := fun hn => by rw [ih.mpr hn] at h; cases h
      simp only [List.mem_cons, not_or]
      constructor
      · intro h'; cases h'
      · intro h'; exact absurd h'.2 this
    | none =>
      have hr := ih.mp h
      by_cases hc : c = '}'
      · simp [hc]
      · simp only [if_neg hc, List.mem_cons, not_or, true_iff]
        exact ⟨fun e => hc e.symm, hr⟩

theorem beforeLastClose_some (s p : Str) :
    beforeLastClose s = some p ↔ ∃ t, s = p ++ '}' :: t ∧ '}' ∉ t := by
  induction s generalizing p with
  | nil => simp [beforeLastClose]
  | cons c r ih =>
    simp only [beforeLastClose]
    cases h : beforeLastClose r with
    | some q =>
      obtain ⟨t, ht, hnt⟩ := (ih q).mp h
      constructor
      · intro hp
        cases hp
        exact ⟨t, by simp [ht], hnt⟩
      · rintro ⟨t', ht', hnt'⟩
        cases p with
        | nil =>
          simp only [List.nil_append, List.cons.injEq] at ht'
          have : '}' ∈ r := by rw [ht]; simp
          rw [ht'.2] at this
          exact absurd this hnt'
        | cons p1 p2 =>
          simp only [List.cons_append, List.cons.injEq] at ht'
          have := (ih p2).mpr ⟨t', ht'.2, hnt'⟩
          rw [h] at this
          cases this
          rw [ht'.1]
    | none =>
      have hr := (beforeLastClose_none r).mp h
      constructor
      · intro hp
        by_cases hc : c = '}'
        · rw [if_pos hc] at hp
          cases hp
          exact ⟨r, by simp [hc], hr⟩
        · rw [if_neg hc] at hp; cases hp
      · rintro ⟨t', ht', hnt'⟩
        cases p with
        | nil =>
          simp only [List.nil_append, List.cons.injEq] at ht'
          simp [ht'.1]
        | cons p1 p2 =>
          simp only [List.cons_append, List.cons.injEq] at ht'
          have : '}' ∈ r := by rw [ht'.2]; simp
          exact absurd this hr

theorem uptoLastClose_eq (s : Str) : uptoLastClose s = beforeLastClose s := by
  unfold uptoLastClose
  cases h : beforeLastClose s with
  | none =>
    have := (beforeLastClose_none s).mp h
    simp [this]
  | some p =>
    obtain ⟨t, ht, hnt⟩ := (beforeLastClose_some s p).mp h
    have hmem : '}' ∈ s := by rw [ht]; simp
    have hrev : s.reverse = t.reverse ++ '}' :: p.reverse := by rw [ht]; simp
    have hdrop : (t.reverse ++ '}' :: p.reverse).dropWhile (fun x => !decide (x = '}')) = '}' :: p.reverse := by
      rw [List.dropWhile_append_of_pos]
      · simp [List.dropWhile]
      · intro a ha
        have : a ∈ t := by simpa using ha
        simp only [Bool.not_eq_eq_eq_not, Bool.not_true, decide_eq_false_iff_not]
        intro e; rw [e] at this; exact hnt this
    simp [hmem, hrev, hdrop]

theorem matchLit_some (pre s r : Str) : matchLit pre s = some r ↔ s = pre ++ r := by
  induction pre generalizing s with
  | nil => simp [matchLit, eq_comm]
  | cons p ps ih =>
    cases s with
    | nil => simp [matchLit]
    | cons c s =>
      simp only [matchLit]
      split
      · rename_i h; subst h; simp [ih]
      · rename_i h
        simp only [List.cons_append, List.cons.injEq, false_iff, not_and, reduceCtorEq]
        intro e; exact absurd e.symm h

theorem take_lit (name : Str) (c : Char) (r : Str) :
    List.take (name.length + 1) (name ++ c :: r) = name ++ [c] := by
  induction name <;> simp_all

theorem drop_lit (name : Str) (c : Char) (r : Str) :
    List.drop (name.length + 1) (name ++ c :: r) = r := by
  induction name <;> simp_all

theorem take_lit_nil (name : Str) (c : Char) :
    List.take (name.length + 1) name ≠ name ++ [c] := by
  intro e
  have := congrArg List.length e
  simp at this

/-- the argument of `\name{…}` as the spec defines it = literal, then group, as the matcher does it -/
theorem argOf_cons (name s : Str) :
    argOf name ('\\' :: s) = (match matchLit name s with | some r => matchGroup r | none => none) := by
  unfold argOf
  simp only [List.cons_append, List.length_cons, List.length_append, List.length_nil,
    List.take_succ_cons, List.drop_succ_cons, List.cons.injEq, true_and, Nat.zero_add]
  cases h : matchLit name s with
  | some r =>
    have hs := (matchLit_some name s r).mp h
    subst hs
    cases r with
    | nil => simp [matchGroup, take_lit_nil]
    | cons c r =>
      by_cases hc : c = '{'
      · subst hc
        simp [take_lit, matchGroup, uptoLastClose_eq]
      · have h1 : List.take (name.length + 1) (name ++ c :: r) ≠ name ++ ['{'] := by
          rw [take_lit]; simp [hc]
        simp [h1, matchGroup, hc]
  | none =>
    have : List.take (name.length + 1) s ≠ name ++ ['{'] := by
      intro e
      have hs : s = name ++ ('{' :: List.drop (name.length + 1) s) := by
        conv => lhs; rw [← List.take_append_drop (name.length + 1) s, e]
        simp
      have := (matchLit_some name s _).mpr hs
      rw [h] at this; cases this
    simp [this]

theorem argOf_not_backslash (name : Str) (c : Char) (s : Str) (hc : c ≠ '\\') :
    argOf name (c :: s) = none := by
  unfold argOf
  simp [hc]

theorem argOf_nil (name : Str) : argOf name [] = none := by
  unfold argOf
  simp

/-- what a match means -/
def toItem : Option (Cmd × Str) → Item
  | none => .other
  | some (.citation, v) => .citation (splitComma v)
  | some (.bibstyle, v) => .bibstyle v
  | some (.bibdata, v) => .bibdata (splitComma v)
  | some (.input, v) => .input v

theorem matchAlt_cons (c : Cmd) (name : Str) (alts : List (Cmd × Str)) (s : Str) :
    matchAlt ((c, name) :: alts) s =
      (match (match matchLit name s with | some r => matchGroup r | none => none) with
       | some v => some (c, v)
       | none => matchAlt alts s) := by
  simp only [matchAlt]
  cases matchLit name s with
  | none => rfl
  | some r => cases matchGroup r <;> rfl

/-- The matcher classifies every line as the specification does. -/
theorem classify_eq (line : Str) : classify line = toItem (matchCommand line) := by
  cases line with
  | nil => simp [classify, argOf_nil, matchCommand, toItem]
  | cons c s =>
    by_cases hc : c = '\\'
    · subst hc
      simp only [classify, argOf_cons, matchCommand, if_true, cmdNames, matchAlt_cons]
      generalize (match matchLit "citation".toList s with | some r => matchGroup r | none => none) = a1
      generalize (match matchLit "bibdata".toList s with | some r => matchGroup r | none => none) = a2
      generalize (match matchLit "bibstyle".toList s with | some r => matchGroup r | none => none) = a3
      generalize (match matchLit "@input".toList s with | some r => matchGroup r | none => none) = a4
      cases a1 <;> cases a2 <;> cases a3 <;> cases a4 <;> simp [toItem, matchAlt]
    · simp [classify, argOf_not_backslash _ _ _ hc, matchCommand, hc, toItem]

end Pybtex.Aux
