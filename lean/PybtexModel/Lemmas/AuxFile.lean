/-
Helper lemmas for C20: the model of `pybtex/auxfile.py` (Model/AuxFile.lean) computes the
denotation of Spec/AuxFile.lean.

1. `str.split(',')` as the code does it = the comma split of the spec; characterisation.
2. the regular-expression matcher = the spec's classification of a line; shape of a command line.
3. `parseFile` on a closed, acyclic inclusion = a fold of `applyEvent` over the spec's events.
4. that fold computes the spec's citations / style / data / reports (one invariant, `Sim`).
5. fuel: independence and sufficiency; no `AttributeError`.
6. lines that are no command are ignored (document-level).
-/
import PybtexModel.Spec.AuxFile

namespace Pybtex.Aux
open Spec

/-! ## 1. comma split -/

theorem splitComma_ne_nil (s : Str) : splitComma s ≠ [] := by
  induction s with
  | nil => simp [splitComma]
  | cons c r ih =>
    simp only [splitComma]
    split
    · simp
    · cases h : splitComma r with
      | nil => exact absurd h ih
      | cons a b => simp [addToFirst]

/-- put `p` in front of the first part -/
def prependFirst (p : Str) : List Str → List Str
  | [] => [p]
  | h :: t => (p ++ h) :: t

theorem pySplitAux_eq (s cur : Str) :
    pySplitAux ',' s cur = prependFirst cur.reverse (splitComma s) := by
  induction s generalizing cur with
  | nil => simp [pySplitAux, splitComma, prependFirst]
  | cons c r ih =>
    simp only [pySplitAux, splitComma]
    split
    · rw [ih]
      cases h : splitComma r with
      | nil => exact absurd h (splitComma_ne_nil r)
      | cons a b => simp [prependFirst]
    · rw [ih]
      cases h : splitComma r with
      | nil => exact absurd h (splitComma_ne_nil r)
      | cons a b => simp [prependFirst, addToFirst]

/-- the code's `keys.split(',')` is the comma split of the specification -/
theorem pySplit_eq (s : Str) : pySplit ',' s = splitComma s := by
  unfold pySplit
  rw [pySplitAux_eq]
  cases h : splitComma s with
  | nil => exact absurd h (splitComma_ne_nil s)
  | cons a b => simp [prependFirst]

theorem splitComma_join (s : Str) : joinWith [','] (splitComma s) = s := by
  induction s with
  | nil => simp [splitComma, joinWith]
  | cons c r ih =>
    simp only [splitComma]
    split
    · rename_i hc
      cases h : splitComma r with
      | nil => exact absurd h (splitComma_ne_nil r)
      | cons a b => rw [h] at ih; simp [joinWith, ih, hc]
    · cases h : splitComma r with
      | nil => exact absurd h (splitComma_ne_nil r)
      | cons a b =>
        rw [h] at ih
        cases b with
        | nil => simp only [joinWith] at ih; simp [addToFirst, joinWith, ih]
        | cons b1 b2 => simp only [joinWith] at ih; simp [addToFirst, joinWith, ← ih]

theorem splitComma_no_comma (s : Str) : ∀ p ∈ splitComma s, ',' ∉ p := by
  induction s with
  | nil => simp [splitComma]
  | cons c r ih =>
    simp only [splitComma]
    split
    · intro p hp
      rcases List.mem_cons.mp hp with h | h
      · simp [h]
      · exact ih p h
    · rename_i hc
      cases h : splitComma r with
      | nil => exact absurd h (splitComma_ne_nil r)
      | cons a b =>
        rw [h] at ih
        intro p hp
        simp only [addToFirst, List.mem_cons] at hp
        rcases hp with h | h
        · subst h
          have := ih a (by simp)
          simp only [List.mem_cons, not_or]
          exact ⟨fun e => hc e.symm, this⟩
        · exact ih p (by simp [h])

theorem splitComma_of_no_comma (p : Str) (h : ',' ∉ p) : splitComma p = [p] := by
  induction p with
  | nil => simp [splitComma]
  | cons c r ih =>
    simp only [List.mem_cons, not_or] at h
    have hc : c ≠ ',' := fun e => h.1 e.symm
    simp only [splitComma, if_neg hc, ih h.2, addToFirst]

theorem splitComma_append_comma (p rest : Str) (h : ',' ∉ p) :
    splitComma (p ++ ',' :: rest) = p :: splitComma rest := by
  induction p with
  | nil => simp [splitComma]
  | cons c r ih =>
    simp only [List.mem_cons, not_or] at h
    have hc : c ≠ ',' := fun e => h.1 e.symm
    simp only [List.cons_append, splitComma, if_neg hc, ih h.2, addToFirst]

/-- uniqueness: any non-empty list of comma-free parts is the split of its comma join -/
theorem splitComma_unique (parts : List Str) (hne : parts ≠ []) (h : ∀ p ∈ parts, ',' ∉ p) :
    splitComma (joinWith [','] parts) = parts := by
  induction parts with
  | nil => exact absurd rfl hne
  | cons a b ih =>
    cases b with
    | nil => simp only [joinWith]; exact splitComma_of_no_comma a (h a (by simp))
    | cons b1 b2 =>
      simp only [joinWith, List.append_assoc, List.singleton_append]
      rw [splitComma_append_comma a _ (h a (by simp)), ih (by simp) (fun p hp => h p (by simp [hp]))]

/-! ## 2. the matcher -/

theorem beforeLastClose_none (s : Str) : beforeLastClose s = none ↔ '}' ∉ s := by
  induction s with
  | nil => simp [beforeLastClose]
  | cons c r ih =>
    simp only [beforeLastClose]
    cases h : beforeLastClose r with
    | some p =>
      have : ¬ ('}' ∉ r) := fun hn => by rw [ih.mpr hn] at h; cases h
      simp only [List.mem_cons, not_or]
      constructor
      · intro h'; cases h'
      · intro h'; exact absurd h'.2 this
    | none =>
      have hr := ih.mp h
      by_cases hc : c = '}'
      · simp [hc]
      · simp only [if_neg hc, List.mem_cons, not_or, true_iff]
        exact ⟨fun e => hc e.symm, hr⟩

theorem beforeLastClose_some (s p : Str) :
    beforeLastClose s = some p ↔ ∃ t, s = p ++ '}' :: t ∧ '}' ∉ t := by
  induction s generalizing p with
  | nil => simp [beforeLastClose]
  | cons c r ih =>
    simp only [beforeLastClose]
    cases h : beforeLastClose r with
    | some q =>
      obtain ⟨t, ht, hnt⟩ := (ih q).mp h
      constructor
      · intro hp
        cases hp
        exact ⟨t, by simp [ht], hnt⟩
      · rintro ⟨t', ht', hnt'⟩
        cases p with
        | nil =>
          simp only [List.nil_append, List.cons.injEq] at ht'
          have : '}' ∈ r := by rw [ht]; simp
          rw [ht'.2] at this
          exact absurd this hnt'
        | cons p1 p2 =>
          simp only [List.cons_append, List.cons.injEq] at ht'
          have := (ih p2).mpr ⟨t', ht'.2, hnt'⟩
          rw [h] at this
          cases this
          rw [ht'.1]
    | none =>
      have hr := (beforeLastClose_none r).mp h
      constructor
      · intro hp
        by_cases hc : c = '}'
        · rw [if_pos hc] at hp
          cases hp
          exact ⟨r, by simp [hc], hr⟩
        · rw [if_neg hc] at hp; cases hp
      · rintro ⟨t', ht', hnt'⟩
        cases p with
        | nil =>
          simp only [List.nil_append, List.cons.injEq] at ht'
          simp [ht'.1]
        | cons p1 p2 =>
          simp only [List.cons_append, List.cons.injEq] at ht'
          have : '}' ∈ r := by rw [ht'.2]; simp
          exact absurd this hr

theorem uptoLastClose_eq (s : Str) : uptoLastClose s = beforeLastClose s := by
  unfold uptoLastClose
  cases h : beforeLastClose s with
  | none =>
    have := (beforeLastClose_none s).mp h
    simp [this]
  | some p =>
    obtain ⟨t, ht, hnt⟩ := (beforeLastClose_some s p).mp h
    have hmem : '}' ∈ s := by rw [ht]; simp
    have hrev : s.reverse = t.reverse ++ '}' :: p.reverse := by rw [ht]; simp
    have hdrop : (t.reverse ++ '}' :: p.reverse).dropWhile (fun x => !decide (x = '}')) = '}' :: p.reverse := by
      rw [List.dropWhile_append_of_pos]
      · simp [List.dropWhile]
      · intro a ha
        have : a ∈ t := by simpa using ha
        simp only [Bool.not_eq_eq_eq_not, Bool.not_true, decide_eq_false_iff_not]
        intro e; rw [e] at this; exact hnt this
    simp [hmem, hrev, hdrop]

theorem matchLit_some (pre s r : Str) : matchLit pre s = some r ↔ s = pre ++ r := by
  induction pre generalizing s with
  | nil => simp [matchLit, eq_comm]
  | cons p ps ih =>
    cases s with
    | nil => simp [matchLit]
    | cons c s =>
      simp only [matchLit]
      split
      · rename_i h; subst h; simp [ih]
      · rename_i h
        simp only [List.cons_append, List.cons.injEq, false_iff, not_and, reduceCtorEq]
        intro e; exact absurd e.symm h

theorem take_lit (name : Str) (c : Char) (r : Str) :
    List.take (name.length + 1) (name ++ c :: r) = name ++ [c] := by
  induction name <;> simp_all

theorem drop_lit (name : Str) (c : Char) (r : Str) :
    List.drop (name.length + 1) (name ++ c :: r) = r := by
  induction name <;> simp_all

theorem take_lit_nil (name : Str) (c : Char) :
    List.take (name.length + 1) name ≠ name ++ [c] := by
  intro e
  have := congrArg List.length e
  simp at this

/-- the argument of `\name{…}` as the spec defines it = literal, then group, as the matcher does it -/
theorem argOf_cons (name s : Str) :
    argOf name ('\\' :: s) = (match matchLit name s with | some r => matchGroup r | none => none) := by
  unfold argOf
  simp only [List.cons_append, List.length_cons, List.length_append, List.length_nil,
    List.take_succ_cons, List.drop_succ_cons, List.cons.injEq, true_and, Nat.zero_add]
  cases h : matchLit name s with
  | some r =>
    have hs := (matchLit_some name s r).mp h
    subst hs
    cases r with
    | nil => simp [matchGroup, take_lit_nil]
    | cons c r =>
      by_cases hc : c = '{'
      · subst hc
        simp [take_lit, matchGroup, uptoLastClose_eq]
      · have h1 : List.take (name.length + 1) (name ++ c :: r) ≠ name ++ ['{'] := by
          rw [take_lit]; simp [hc]
        simp [h1, matchGroup, hc]
  | none =>
    have : List.take (name.length + 1) s ≠ name ++ ['{'] := by
      intro e
      have hs : s = name ++ ('{' :: List.drop (name.length + 1) s) := by
        conv => lhs; rw [← List.take_append_drop (name.length + 1) s, e]
        simp
      have := (matchLit_some name s _).mpr hs
      rw [h] at this; cases this
    simp [this]

theorem argOf_not_backslash (name : Str) (c : Char) (s : Str) (hc : c ≠ '\\') :
    argOf name (c :: s) = none := by
  unfold argOf
  simp [hc]

theorem argOf_nil (name : Str) : argOf name [] = none := by
  unfold argOf
  simp

/-- what a match means -/
def toItem : Option (Cmd × Str) → Item
  | none => .other
  | some (.citation, v) => .citation (splitComma v)
  | some (.bibstyle, v) => .bibstyle v
  | some (.bibdata, v) => .bibdata (splitComma v)
  | some (.input, v) => .input v

theorem matchAlt_cons (c : Cmd) (name : Str) (alts : List (Cmd × Str)) (s : Str) :
    matchAlt ((c, name) :: alts) s =
      (match (match matchLit name s with | some r => matchGroup r | none => none) with
       | some v => some (c, v)
       | none => matchAlt alts s) := by
  simp only [matchAlt]
  cases matchLit name s with
  | none => rfl
  | some r => cases matchGroup r <;> rfl

/-- The matcher classifies every line as the specification does. -/
theorem classify_eq (line : Str) : classify line = toItem (matchCommand line) := by
  cases line with
  | nil => simp [classify, argOf_nil, matchCommand, toItem]
  | cons c s =>
    by_cases hc : c = '\\'
    · subst hc
      simp only [classify, argOf_cons, matchCommand, if_true, cmdNames, matchAlt_cons]
      generalize (match matchLit "citation".toList s with | some r => matchGroup r | none => none) = a1
      generalize (match matchLit "bibdata".toList s with | some r => matchGroup r | none => none) = a2
      generalize (match matchLit "bibstyle".toList s with | some r => matchGroup r | none => none) = a3
      generalize (match matchLit "@input".toList s with | some r => matchGroup r | none => none) = a4
      cases a1 <;> cases a2 <;> cases a3 <;> cases a4 <;> simp [toItem, matchAlt]
    · simp [classify, argOf_not_backslash _ _ _ hc, matchCommand, hc, toItem]

/-! ## 3. the parse is a fold of `applyEvent` over the spec's events -/

/-- `{ st with context := x }` -/
@[reducible] def withCtx (st : St) (x : Option Ctx) : St := { st with context := x }

@[simp] theorem withCtx_withCtx (st : St) (a b : Option Ctx) : withCtx (withCtx st a) b = withCtx st b := rfl
@[simp] theorem withCtx_context (st : St) (a : Option Ctx) : (withCtx st a).context = a := rfl
@[simp] theorem withCtx_style (st : St) (a : Option Ctx) : (withCtx st a).style = st.style := rfl
@[simp] theorem withCtx_data (st : St) (a : Option Ctx) : (withCtx st a).data = st.data := rfl
@[simp] theorem withCtx_citations (st : St) (a : Option Ctx) : (withCtx st a).citations = st.citations := rfl
@[simp] theorem withCtx_reports (st : St) (a : Option Ctx) : (withCtx st a).reports = st.reports := rfl
theorem withCtx_self (st : St) (a : Option Ctx) (h : st.context = a) : withCtx st a = st := by
  cases st; simp only at h; subst h; rfl

/-- the context an event's reports are made in -/
def ctxOf (e : Event) : Ctx := ⟨e.file, some e.lineno, some e.text⟩

/-- what reading one event does to the state (the context is not touched) -/
def applyEvent (st : St) (e : Event) : St :=
  match e.item with
  | .citation keys => keys.foldl (citeKey (ctxOf e)) st
  | .bibstyle s => handleBibstyle (ctxOf e) st s
  | .bibdata names =>
    match st.data with
    | some _ => report st (mkError .anotherBibdata (ctxOf e))
    | none => { st with data := some names }
  | .input _ => st
  | .other => st

def run (st : St) (evs : List Event) : St := evs.foldl applyEvent st

@[simp] theorem run_nil (st : St) : run st [] = st := rfl
@[simp] theorem run_cons (st : St) (e : Event) (evs : List Event) :
    run st (e :: evs) = run (applyEvent st e) evs := rfl
theorem run_append (st : St) (a b : List Event) : run st (a ++ b) = run (run st a) b := by
  simp [run, List.foldl_append]

theorem citeKey_withCtx (ctx : Ctx) (st : St) (x : Option Ctx) (k : Str) :
    citeKey ctx (withCtx st x) k = withCtx (citeKey ctx st k) x := by
  simp only [citeKey, withCtx, report]
  split
  · split <;> rfl
  · rfl

theorem foldl_citeKey_withCtx (ctx : Ctx) (keys : List Str) (st : St) (x : Option Ctx) :
    keys.foldl (citeKey ctx) (withCtx st x) = withCtx (keys.foldl (citeKey ctx) st) x := by
  induction keys generalizing st with
  | nil => rfl
  | cons k ks ih => simp only [List.foldl_cons, citeKey_withCtx, ih]

theorem applyEvent_withCtx (st : St) (x : Option Ctx) (e : Event) :
    applyEvent (withCtx st x) e = withCtx (applyEvent st e) x := by
  unfold applyEvent
  split
  · exact foldl_citeKey_withCtx _ _ _ _
  · simp only [handleBibstyle, withCtx, report]; split <;> rfl
  · simp only [withCtx, report]; split <;> rfl
  · rfl
  · rfl

theorem run_withCtx (st : St) (x : Option Ctx) (evs : List Event) :
    run (withCtx st x) evs = withCtx (run st evs) x := by
  induction evs generalizing st with
  | nil => rfl
  | cons e evs ih => simp only [run_cons, applyEvent_withCtx, ih]

theorem citeKey_context (ctx : Ctx) (st : St) (k : Str) : (citeKey ctx st k).context = st.context := by
  simp only [citeKey, report]
  split
  · split <;> rfl
  · rfl

theorem foldl_citeKey_context (ctx : Ctx) (keys : List Str) (st : St) :
    (keys.foldl (citeKey ctx) st).context = st.context := by
  induction keys generalizing st with
  | nil => rfl
  | cons k ks ih => simp only [List.foldl_cons, ih, citeKey_context]

theorem applyEvent_context (st : St) (e : Event) : (applyEvent st e).context = st.context := by
  unfold applyEvent
  split
  · exact foldl_citeKey_context _ _ _
  · simp only [handleBibstyle, report]; split <;> rfl
  · simp only [report]; split <;> rfl
  · rfl
  · rfl

theorem run_context (st : St) (evs : List Event) : (run st evs).context = st.context := by
  induction evs generalizing st with
  | nil => rfl
  | cons e evs ih => simp only [run_cons, ih, applyEvent_context]

theorem classify_input_iff (l : Str) (q : Path) :
    classify l = .input q ↔ matchCommand l = some (.input, q) := by
  rw [classify_eq]
  cases matchCommand l with
  | none => simp [toItem]
  | some cv =>
    obtain ⟨c, v⟩ := cv
    cases c <;> simp [toItem]

/-- one line: an `\@input` line hands over to the nested parse, every other line applies its event -/
theorem parseLine_eq (inp : St → Path → Except Abort St) (st : St) (c : Ctx)
    (hc : st.context = some c) (l : Str) (n : Nat) :
    parseLine inp st l n =
      (match classify l with
       | .input q => inp (withCtx st (some ⟨c.filename, some n, some (strip l)⟩)) q
       | _ => .ok (withCtx (applyEvent st ⟨c.filename, n, strip l, classify l⟩)
                (some ⟨c.filename, some n, some (strip l)⟩))) := by
  unfold parseLine
  rw [hc, classify_eq]
  cases matchCommand l with
  | none => simp [toItem, applyEvent]
  | some cv =>
    obtain ⟨cmd, v⟩ := cv
    cases cmd with
    | citation =>
      simp only [toItem, handleCommand, handleCitation, pySplit_eq, applyEvent, ctxOf]
      rw [← foldl_citeKey_withCtx]
    | bibstyle =>
      simp only [toItem, handleCommand, applyEvent, ctxOf]
      simp only [handleBibstyle, withCtx, report]
      split <;> rfl
    | bibdata =>
      simp only [toItem, handleCommand, applyEvent, ctxOf]
      simp only [handleBibdata, withCtx, report, pySplit_eq]
      obtain ⟨ctx0, sty, dat, cit, can, rep⟩ := st
      cases dat <;> rfl
    | input => simp only [toItem, handleCommand, handleInput]

theorem inputsOf_cons_input (l : Str) (ls : List Str) (q : Path) (h : classify l = .input q) :
    inputsOf (l :: ls) = q :: inputsOf ls := by
  simp [inputsOf, (classify_input_iff l q).mp h]

theorem inputsOf_subset_cons (l : Str) (ls : List Str) : ∀ q ∈ inputsOf ls, q ∈ inputsOf (l :: ls) := by
  intro q hq
  simp only [inputsOf]
  split
  · exact List.mem_cons_of_mem _ hq
  · exact hq

/-- a list of lines: the events of the lines, nested files spliced in -/
theorem parseLines_eq (inp : St → Path → Except Abort St) (sub : Path → List Event) (p : Path)
    (Q : Path → Prop)
    (hinp : ∀ q st c0, Q q → st.context = some c0 → inp st q = .ok (run st (sub q))) :
    ∀ (ls : List Str) (n : Nat) (st : St) (c : Ctx), st.context = some c → c.filename = p →
      (∀ q ∈ inputsOf ls, Q q) →
      ∃ c' : Ctx, c'.filename = p ∧
        parseLines inp ls n st = .ok (withCtx (run st (lineEvents sub p ls n)) (some c')) := by
  intro ls
  induction ls with
  | nil =>
    intro n st c hc hp _
    exact ⟨c, hp, by simp [parseLines, lineEvents, withCtx_self st _ hc]⟩
  | cons l ls ih =>
    intro n st c hc hp hQ
    simp only [parseLines, lineEvents]
    rw [parseLine_eq inp st c hc l n]
    cases hcl : classify l with
    | input q =>
      simp only []
      have hq : Q q := hQ q (by rw [inputsOf_cons_input l ls q hcl]; simp)
      rw [hinp q _ _ hq (withCtx_context _ _)]
      simp only []
      obtain ⟨c', hc', h⟩ := ih (n + 1) (run (withCtx st (some ⟨c.filename, some n, some (strip l)⟩)) (sub q))
        ⟨c.filename, some n, some (strip l)⟩ (by rw [run_context]) hp
        (fun q' hq' => hQ q' (inputsOf_subset_cons l ls q' hq'))
      refine ⟨c', hc', ?_⟩
      rw [h, hp]
      simp only [run_cons, run_append, run_withCtx, withCtx_withCtx, applyEvent]
    | citation keys =>
      simp only []
      obtain ⟨c', hc', h⟩ := ih (n + 1) (withCtx (applyEvent st ⟨c.filename, n, strip l, .citation keys⟩)
          (some ⟨c.filename, some n, some (strip l)⟩))
        ⟨c.filename, some n, some (strip l)⟩ rfl hp
        (fun q' hq' => hQ q' (inputsOf_subset_cons l ls q' hq'))
      refine ⟨c', hc', ?_⟩
      rw [h, hp]
      simp only [run_cons, List.nil_append, run_withCtx, withCtx_withCtx]
    | bibstyle s =>
      simp only []
      obtain ⟨c', hc', h⟩ := ih (n + 1) (withCtx (applyEvent st ⟨c.filename, n, strip l, .bibstyle s⟩)
          (some ⟨c.filename, some n, some (strip l)⟩))
        ⟨c.filename, some n, some (strip l)⟩ rfl hp
        (fun q' hq' => hQ q' (inputsOf_subset_cons l ls q' hq'))
      refine ⟨c', hc', ?_⟩
      rw [h, hp]
      simp only [run_cons, List.nil_append, run_withCtx, withCtx_withCtx]
    | bibdata names =>
      simp only []
      obtain ⟨c', hc', h⟩ := ih (n + 1) (withCtx (applyEvent st ⟨c.filename, n, strip l, .bibdata names⟩)
          (some ⟨c.filename, some n, some (strip l)⟩))
        ⟨c.filename, some n, some (strip l)⟩ rfl hp
        (fun q' hq' => hQ q' (inputsOf_subset_cons l ls q' hq'))
      refine ⟨c', hc', ?_⟩
      rw [h, hp]
      simp only [run_cons, List.nil_append, run_withCtx, withCtx_withCtx]
    | other =>
      simp only []
      obtain ⟨c', hc', h⟩ := ih (n + 1) (withCtx (applyEvent st ⟨c.filename, n, strip l, .other⟩)
          (some ⟨c.filename, some n, some (strip l)⟩))
        ⟨c.filename, some n, some (strip l)⟩ rfl hp
        (fun q' hq' => hQ q' (inputsOf_subset_cons l ls q' hq'))
      refine ⟨c', hc', ?_⟩
      rw [h, hp]
      simp only [run_cons, List.nil_append, run_withCtx, withCtx_withCtx]

theorem finish_some (c0 : Ctx) (X : St) :
    finish (some c0) false X = .ok (withCtx X (some c0)) := by
  simp [finish]

/-- `parse_file` on a closed inclusion of depth ≤ `d`, with any fuel ≥ `d`: the events of the file
are applied in order; the context is then restored / cleared and the fatal checks made. -/
theorem parseFile_eq (fs : FS) : ∀ (d fuel : Nat) (q : Path) (st : St) (tl : Bool),
    closedDepth fs d q = true → d ≤ fuel →
    ∃ c' : Ctx, c'.filename = q ∧
      parseFile fs fuel st q tl = finish st.context tl (withCtx (run st (events fs d q)) (some c')) := by
  intro d
  induction d with
  | zero => intro fuel q st tl h; simp [closedDepth] at h
  | succ d ih =>
    intro fuel q st tl hcl hle
    obtain ⟨f, rfl⟩ : ∃ f, fuel = f + 1 := ⟨fuel - 1, by omega⟩
    simp only [closedDepth] at hcl
    cases hfs : fs q with
    | none => simp [hfs] at hcl
    | some lines =>
      simp only [hfs, List.all_eq_true] at hcl
      have hinp : ∀ q' (st' : St) (c0 : Ctx), closedDepth fs d q' = true → st'.context = some c0 →
          (fun s p => parseFile fs f s p false) st' q' = .ok (run st' (events fs d q')) := by
        intro q' st' c0 hq' hc0
        obtain ⟨c', _, h⟩ := ih f q' st' false hq' (by omega)
        simp only [h, hc0, finish_some, withCtx_withCtx]
        rw [withCtx_self]
        rw [run_context, hc0]
      obtain ⟨c', hc', h⟩ := parseLines_eq (fun s p => parseFile fs f s p false) (events fs d) q
        (fun q' => closedDepth fs d q' = true) hinp lines 1 (withCtx st (some (Ctx.new q))) (Ctx.new q)
        rfl rfl hcl
      refine ⟨c', hc', ?_⟩
      simp only [parseFile, hfs, events]
      rw [h]
      simp only [run_withCtx, withCtx_withCtx]

/-- a nested `\@input` (context present, not top level) just applies the events of the file -/
theorem parseFile_nested (fs : FS) (d fuel : Nat) (q : Path) (st : St) (c0 : Ctx)
    (hcl : closedDepth fs d q = true) (hle : d ≤ fuel) (hc : st.context = some c0) :
    parseFile fs fuel st q false = .ok (run st (events fs d q)) := by
  obtain ⟨c', _, h⟩ := parseFile_eq fs d fuel q st false hcl hle
  rw [h, hc, finish_some, withCtx_withCtx, withCtx_self]
  rw [run_context, hc]

/-- the state after all events of the top-level document, from the initial state -/
def final (evs : List Event) : St := run St.init evs

/-- the top-level parse in terms of the events -/
theorem parse_eq (fs : FS) (d fuel : Nat) (p : Path) (hcl : closedDepth fs d p = true) (hle : d ≤ fuel) :
    parse fs fuel p =
      (let X := final (events fs d p)
       let ctx : Ctx := ⟨p, none, none⟩
       if X.data.isNone then .error ⟨.aux (mkError .noBibdata ctx), X.reports⟩
       else if X.style.isNone then .error ⟨.aux (mkError .noBibstyle ctx), X.reports⟩
       else .ok (withCtx X (some ctx))) := by
  obtain ⟨c', hc', h⟩ := parseFile_eq fs d fuel p St.init true hcl hle
  unfold parse
  rw [h]
  simp only [finish, St.init, Bool.true_and, hc', final]
  rfl

/-! ## 4. the fold computes the specification (one invariant) -/

theorem dget_dset {V : Type} (m : List (Str × V)) (a b : Str) (v : V) :
    dget (dset m a v) b = if a = b then some v else dget m b := by
  induction m with
  | nil => simp [dset, dget]
  | cons e m ih =>
    obtain ⟨k', v'⟩ := e
    simp only [dset]
    by_cases h1 : k' = a
    · subst h1
      simp only [if_true, dget]
      split <;> rfl
    · simp only [if_neg h1, dget, ih]
      by_cases h2 : k' = b
      · subst h2
        simp [Ne.symm h1]
      · simp [h2]

/-- `_canonical_keys` holds, for every key (up to case), the spelling cited last -/
def CanonInv (st : St) : Prop := ∀ key, dget st.canonical (lowerPy key) = lastSpelling st.citations key

theorem lastSpelling_snoc (before : List Str) (k key : Str) :
    lastSpelling (before ++ [k]) key = if lowerPy k = lowerPy key then some k else lastSpelling before key := by
  simp only [lastSpelling, List.reverse_append, List.reverse_cons, List.reverse_nil, List.nil_append,
    List.singleton_append, List.find?_cons]
  by_cases h : lowerPy k = lowerPy key <;> simp [h]

/-- the report a key causes, given the keys cited before it -/
def keyReports (ctx : Ctx) (before : List Str) (k : Str) : List Report :=
  match lastSpelling before k with
  | some k' => if k ≠ k' then [mkError (.caseMismatch k k') ctx] else []
  | none => []

theorem citeKey_spec (ctx : Ctx) (st : St) (k : Str) (hinv : CanonInv st) :
    (citeKey ctx st k).citations = st.citations ++ [k] ∧
    (citeKey ctx st k).style = st.style ∧ (citeKey ctx st k).data = st.data ∧
    CanonInv (citeKey ctx st k) ∧
    (citeKey ctx st k).reports = st.reports ++ keyReports ctx st.citations k := by
  have hk := hinv k
  unfold citeKey keyReports
  simp only [hk]
  cases hl : lastSpelling st.citations k with
  | none =>
    refine ⟨rfl, rfl, rfl, ?_, by simp⟩
    intro key
    simp only [dget_dset, lastSpelling_snoc, hinv key]
  | some k' =>
    by_cases hne : k = k'
    · refine ⟨by simp [hne], by simp [hne], by simp [hne], ?_, by simp [hne]⟩
      intro key
      simp only [hne, ne_eq, not_true_eq_false, if_false, dget_dset, lastSpelling_snoc, hinv key]
    · refine ⟨by simp [hne, report], by simp [hne, report], by simp [hne, report], ?_, by simp [hne, report]⟩
      intro key
      simp only [ne_eq, hne, not_false_eq_true, if_true, report, dget_dset, lastSpelling_snoc, hinv key]

theorem foldl_citeKey_spec (ctx : Ctx) (keys : List Str) (st : St) (hinv : CanonInv st) :
    (keys.foldl (citeKey ctx) st).citations = st.citations ++ keys ∧
    (keys.foldl (citeKey ctx) st).style = st.style ∧ (keys.foldl (citeKey ctx) st).data = st.data ∧
    CanonInv (keys.foldl (citeKey ctx) st) ∧
    (keys.foldl (citeKey ctx) st).reports =
      st.reports ++ (mismatches st.citations keys).map (fun kk => mkError (.caseMismatch kk.1 kk.2) ctx) := by
  induction keys generalizing st with
  | nil => simp [mismatches, hinv]
  | cons k ks ih =>
    obtain ⟨h1, h2, h3, h4, h5⟩ := citeKey_spec ctx st k hinv
    obtain ⟨i1, i2, i3, i4, i5⟩ := ih (citeKey ctx st k) h4
    simp only [List.foldl_cons]
    refine ⟨by rw [i1, h1]; simp, by rw [i2, h2], by rw [i3, h3], i4, ?_⟩
    rw [i5, h5, h1]
    simp only [mismatches, List.map_append, List.append_assoc, keyReports]
    congr 1
    cases lastSpelling st.citations k with
    | none => simp
    | some k' => by_cases hne : k = k' <;> simp [hne]

/-- the state agrees with the specification on the events read so far -/
structure Sim (before : List Event) (st : St) : Prop where
  cit : st.citations = citations before
  sty : st.style = style before
  dat : st.data = data before
  can : CanonInv st

theorem Sim.init : Sim [] St.init :=
  ⟨rfl, rfl, rfl, fun key => by simp [St.init, dget, lastSpelling]⟩

theorem citations_snoc (before : List Event) (e : Event) :
    citations (before ++ [e]) = citations before ++ (match e.item with | .citation keys => keys | _ => []) := by
  simp only [citations, List.flatMap_append, List.flatMap_cons, List.flatMap_nil, List.append_nil]
  cases e.item <;> rfl

theorem style_snoc (before : List Event) (e : Event) :
    style (before ++ [e]) = (style before).or (match e.item with | .bibstyle s => some s | _ => none) := by
  simp only [style, List.findSome?_append, List.findSome?_cons, List.findSome?_nil]
  cases List.findSome? _ before with
  | some s => simp
  | none => cases e.item <;> simp

theorem data_snoc (before : List Event) (e : Event) :
    data (before ++ [e]) = (data before).or (match e.item with | .bibdata ns => some ns | _ => none) := by
  simp only [data, List.findSome?_append, List.findSome?_cons, List.findSome?_nil]
  cases List.findSome? _ before with
  | some s => simp
  | none => cases e.item <;> simp

theorem applyEvent_spec (before : List Event) (st : St) (e : Event) (h : Sim before st) :
    Sim (before ++ [e]) (applyEvent st e) ∧
    (applyEvent st e).reports = st.reports ++ reportsOf before e := by
  obtain ⟨hc, hs, hd, hi⟩ := h
  unfold applyEvent reportsOf
  cases hit : e.item with
  | citation keys =>
    obtain ⟨i1, i2, i3, i4, i5⟩ := foldl_citeKey_spec (ctxOf e) keys st hi
    simp only []
    refine ⟨⟨?_, ?_, ?_, i4⟩, ?_⟩
    · rw [i1, citations_snoc, hit, hc]
    · rw [i2, style_snoc, hit, hs]; simp
    · rw [i3, data_snoc, hit, hd]; simp
    · rw [i5, hc]; rfl
  | bibstyle s =>
    simp only [handleBibstyle]
    cases hst : st.style with
    | some s0 =>
      simp only [report]
      refine ⟨⟨?_, ?_, ?_, hi⟩, ?_⟩
      · rw [citations_snoc, hit, ← hc]; simp
      · rw [style_snoc, hit, ← hs, hst]; simp
      · rw [data_snoc, hit, ← hd]; simp
      · rw [← hs, hst]; simp [located, mkError, ctxOf]
    | none =>
      refine ⟨⟨?_, ?_, ?_, hi⟩, ?_⟩
      · rw [citations_snoc, hit, ← hc]; simp
      · rw [style_snoc, hit, ← hs, hst]; simp
      · rw [data_snoc, hit, ← hd]; simp
      · rw [← hs, hst]; simp
  | bibdata names =>
    simp only []
    cases hst : st.data with
    | some s0 =>
      simp only [report]
      refine ⟨⟨?_, ?_, ?_, hi⟩, ?_⟩
      · rw [citations_snoc, hit, ← hc]; simp
      · rw [style_snoc, hit, ← hs]; simp
      · rw [data_snoc, hit, ← hd, hst]; simp
      · rw [← hd, hst]; simp [located, mkError, ctxOf]
    | none =>
      refine ⟨⟨?_, ?_, ?_, hi⟩, ?_⟩
      · rw [citations_snoc, hit, ← hc]; simp
      · rw [style_snoc, hit, ← hs]; simp
      · rw [data_snoc, hit, ← hd, hst]; simp
      · rw [← hd, hst]; simp
  | input q =>
    simp only []
    refine ⟨⟨?_, ?_, ?_, hi⟩, by simp⟩
    · rw [citations_snoc, hit, ← hc]; simp
    · rw [style_snoc, hit, ← hs]; simp
    · rw [data_snoc, hit, ← hd]; simp
  | other =>
    simp only []
    refine ⟨⟨?_, ?_, ?_, hi⟩, by simp⟩
    · rw [citations_snoc, hit, ← hc]; simp
    · rw [style_snoc, hit, ← hs]; simp
    · rw [data_snoc, hit, ← hd]; simp

theorem run_spec (before : List Event) (st : St) (evs : List Event) (h : Sim before st) :
    Sim (before ++ evs) (run st evs) ∧
    (run st evs).reports = st.reports ++ reportsAfter before evs := by
  induction evs generalizing before st with
  | nil => simp [reportsAfter, h]
  | cons e evs ih =>
    obtain ⟨h1, h2⟩ := applyEvent_spec before st e h
    obtain ⟨i1, i2⟩ := ih (before ++ [e]) (applyEvent st e) h1
    simp only [run_cons, reportsAfter]
    refine ⟨by simpa using i1, ?_⟩
    rw [i2, h2, List.append_assoc]

/-- the final state is the denotation -/
theorem final_spec (evs : List Event) :
    (final evs).citations = citations evs ∧ (final evs).style = style evs ∧
    (final evs).data = data evs ∧ (final evs).reports = reports evs := by
  obtain ⟨⟨h1, h2, h3, _⟩, h5⟩ := run_spec [] St.init evs Sim.init
  simp only [List.nil_append] at h1 h2 h3
  exact ⟨h1, h2, h3, by rw [final, h5]; simp [St.init, reports]⟩

/-! ## 5. fuel, and the absence of `AttributeError` -/

theorem inputsOf_single_input (l : Str) (v : Path) (h : matchCommand l = some (.input, v)) :
    inputsOf [l] = [v] := by
  simp [inputsOf, h]

theorem parseLine_congr (inp inp' : St → Path → Except Abort St) (st : St) (l : Str) (n : Nat)
    (h : ∀ q ∈ inputsOf [l], ∀ s, inp s q = inp' s q) :
    parseLine inp st l n = parseLine inp' st l n := by
  unfold parseLine
  cases st.context with
  | none => rfl
  | some c =>
    simp only []
    cases hm : matchCommand l with
    | none => rfl
    | some cv =>
      obtain ⟨cmd, v⟩ := cv
      cases cmd with
      | input =>
        simp only [handleCommand, handleInput]
        exact h v (by rw [inputsOf_single_input l v hm]; simp) _
      | citation => rfl
      | bibstyle => rfl
      | bibdata => rfl

theorem inputsOf_head_subset (l : Str) (ls : List Str) : ∀ q ∈ inputsOf [l], q ∈ inputsOf (l :: ls) := by
  intro q hq
  cases hm : matchCommand l with
  | none => simp [inputsOf, hm] at hq
  | some cv =>
    obtain ⟨cmd, v⟩ := cv
    cases cmd <;> simp_all [inputsOf]

theorem parseLines_congr (inp inp' : St → Path → Except Abort St) (ls : List Str) (n : Nat) (st : St)
    (h : ∀ q ∈ inputsOf ls, ∀ s, inp s q = inp' s q) :
    parseLines inp ls n st = parseLines inp' ls n st := by
  induction ls generalizing n st with
  | nil => rfl
  | cons l ls ih =>
    simp only [parseLines]
    rw [parseLine_congr inp inp' st l n (fun q hq s => h q (inputsOf_head_subset l ls q hq) s)]
    cases parseLine inp' st l n with
    | error e => rfl
    | ok st' => exact ih (n + 1) st' (fun q hq s => h q (inputsOf_subset_cons l ls q hq) s)

theorem depthOk_succ (fs : FS) (d : Nat) (p : Path) :
    depthOk fs (d + 1) p = (match fs p with | none => true | some lines => (inputsOf lines).all (depthOk fs d)) := rfl

/-- the result of `parse_file` does not depend on the fuel once it covers the inclusion depth -/
theorem parseFile_fuel (fs : FS) : ∀ (d fuel : Nat) (p : Path) (st : St) (tl : Bool),
    depthOk fs d p = true → d ≤ fuel → parseFile fs fuel st p tl = parseFile fs d st p tl := by
  intro d
  induction d with
  | zero => intro fuel p st tl h; simp [depthOk] at h
  | succ d ih =>
    intro fuel p st tl hd hle
    obtain ⟨f, rfl⟩ : ∃ f, fuel = f + 1 := ⟨fuel - 1, by omega⟩
    simp only [parseFile]
    rw [depthOk_succ] at hd
    cases hfs : fs p with
    | none => rfl
    | some lines =>
      simp only [hfs, List.all_eq_true] at hd
      simp only []
      rw [parseLines_congr (fun s q => parseFile fs f s q false) (fun s q => parseFile fs d s q false) lines 1 _
        (fun q hq s => ih f q s false (hd q hq) (by omega))]

def NoFuelErr (r : Except Abort St) : Prop := ∀ a, r = .error a → a.fatal ≠ .outOfFuel

theorem noFuel_ok (s : St) : NoFuelErr (.ok s) := fun a ha => by cases ha
theorem noFuel_error (a : Abort) (h : a.fatal ≠ .outOfFuel) : NoFuelErr (.error a) :=
  fun a' ha => by cases ha; exact h

theorem parseLine_noFuel (inp : St → Path → Except Abort St) (st : St) (l : Str) (n : Nat)
    (h : ∀ q ∈ inputsOf [l], ∀ s, NoFuelErr (inp s q)) : NoFuelErr (parseLine inp st l n) := by
  unfold parseLine
  cases st.context with
  | none => exact noFuel_error _ (by simp)
  | some c =>
    simp only []
    cases hm : matchCommand l with
    | none => exact noFuel_ok _
    | some cv =>
      obtain ⟨cmd, v⟩ := cv
      cases cmd with
      | input =>
        simp only [handleCommand, handleInput]
        exact h v (by rw [inputsOf_single_input l v hm]; simp) _
      | citation => exact noFuel_ok _
      | bibstyle => exact noFuel_ok _
      | bibdata => exact noFuel_ok _

theorem parseLines_noFuel (inp : St → Path → Except Abort St) (ls : List Str) (n : Nat) (st : St)
    (h : ∀ q ∈ inputsOf ls, ∀ s, NoFuelErr (inp s q)) : NoFuelErr (parseLines inp ls n st) := by
  induction ls generalizing n st with
  | nil => exact noFuel_ok _
  | cons l ls ih =>
    simp only [parseLines]
    have h1 := parseLine_noFuel inp st l n (fun q hq s => h q (inputsOf_head_subset l ls q hq) s)
    cases hp : parseLine inp st l n with
    | error e => rw [hp] at h1; exact h1
    | ok st' => exact ih (n + 1) st' (fun q hq s => h q (inputsOf_subset_cons l ls q hq) s)

/-- `self.context` after the `if previous_context: … else: …` of `parse_file` -/
def ctxAfter (prev : Option Ctx) (st : St) : Option Ctx :=
  match prev with
  | some c => some c
  | none =>
    match st.context with
    | some c => some { c with line := none, lineno := none }
    | none => none

theorem finish_eq (prev : Option Ctx) (tl : Bool) (st : St) :
    finish prev tl st =
      (match ctxAfter prev st with
       | none => .error ⟨.attributeError, st.reports⟩
       | some ctx =>
         if tl && st.data.isNone then .error ⟨.aux (mkError .noBibdata ctx), st.reports⟩
         else if tl && st.style.isNone then .error ⟨.aux (mkError .noBibstyle ctx), st.reports⟩
         else .ok (withCtx st (some ctx))) := by
  cases prev with
  | some c0 => rfl
  | none =>
    cases h : st.context with
    | none => simp [finish, ctxAfter, h]
    | some c => simp [finish, ctxAfter, h]

theorem finish_noFuel (prev : Option Ctx) (tl : Bool) (st : St) : NoFuelErr (finish prev tl st) := by
  rw [finish_eq]
  cases ctxAfter prev st with
  | none => exact noFuel_error _ (by simp)
  | some ctx =>
    simp only []
    split
    · exact noFuel_error _ (by simp)
    · split
      · exact noFuel_error _ (by simp)
      · exact noFuel_ok _

/-- with fuel ≥ inclusion depth the model never runs out of fuel -/
theorem parseFile_noFuel (fs : FS) : ∀ (d : Nat) (p : Path) (st : St) (tl : Bool),
    depthOk fs d p = true → NoFuelErr (parseFile fs d st p tl) := by
  intro d
  induction d with
  | zero => intro p st tl h; simp [depthOk] at h
  | succ d ih =>
    intro p st tl hd
    simp only [parseFile]
    rw [depthOk_succ] at hd
    cases hfs : fs p with
    | none => exact noFuel_error _ (by simp)
    | some lines =>
      simp only [hfs, List.all_eq_true] at hd
      simp only []
      have h1 := parseLines_noFuel (fun s q => parseFile fs d s q false) lines 1
        { st with context := some (Ctx.new p) } (fun q hq s => ih q s false (hd q hq))
      cases hp : parseLines (fun s q => parseFile fs d s q false) lines 1 { st with context := some (Ctx.new p) } with
      | error e => rw [hp] at h1; exact h1
      | ok st' => exact finish_noFuel _ _ _

theorem depthOk_mono (fs : FS) : ∀ (d : Nat) (p : Path), depthOk fs d p = true → depthOk fs (d + 1) p = true := by
  intro d
  induction d with
  | zero => intro p h; simp [depthOk] at h
  | succ d ih =>
    intro p h
    rw [depthOk_succ] at h ⊢
    cases hfs : fs p with
    | none => rfl
    | some lines =>
      simp only [hfs, List.all_eq_true] at h ⊢
      exact fun q hq => ih q (h q hq)

theorem closedDepth_succ (fs : FS) (d : Nat) (p : Path) :
    closedDepth fs (d + 1) p = (match fs p with | none => false | some lines => (inputsOf lines).all (closedDepth fs d)) := rfl

theorem closedDepth_depthOk (fs : FS) : ∀ (d : Nat) (p : Path), closedDepth fs d p = true → depthOk fs d p = true := by
  intro d
  induction d with
  | zero => intro p h; simp [closedDepth] at h
  | succ d ih =>
    intro p h
    rw [closedDepth_succ] at h
    rw [depthOk_succ]
    cases hfs : fs p with
    | none => rfl
    | some lines =>
      simp only [hfs, List.all_eq_true] at h ⊢
      exact fun q hq => ih q (h q hq)

theorem dget_append_not_mem (pre suf : List (Path × List Str)) (v : Path) (h : v ∉ pre.map Prod.fst) :
    dget (pre ++ suf) v = dget suf v := by
  induction pre with
  | nil => rfl
  | cons e pre ih =>
    obtain ⟨k, ls⟩ := e
    simp only [List.map_cons, List.mem_cons, not_or] at h
    simp only [List.cons_append, dget, if_neg (Ne.symm h.1), ih h.2]

/-- files listed in a topological order of inclusion: every file has depth ≤ number of files + 1 -/
theorem topo_depth (files : List (Path × List Str)) :
    ∀ (suf pre : List (Path × List Str)) (seen : List Path), files = pre ++ suf →
      (∀ q ∈ pre.map Prod.fst, q ∈ seen) → topoOk seen suf = true →
      ∀ v, v ∉ seen → depthOk (fsOf files) (suf.length + 1) v = true := by
  intro suf
  induction suf with
  | nil =>
    intro pre seen hf hseen _ v hv
    have : v ∉ pre.map Prod.fst := fun h => hv (hseen v h)
    have h2 := dget_append_not_mem pre [] v this
    simp only [List.append_nil] at h2
    rw [List.length_nil, depthOk_succ]
    simp only [fsOf, hf, List.append_nil, h2, dget]
  | cons e rest ih =>
    obtain ⟨p, lines⟩ := e
    intro pre seen hf hseen htopo v hv
    simp only [topoOk, Bool.and_eq_true, List.all_eq_true] at htopo
    obtain ⟨hin, hrest⟩ := htopo
    have ih' := ih (pre ++ [(p, lines)]) (p :: seen) (by simp [hf])
      (by
        intro q hq
        simp only [List.map_append, List.map_cons, List.map_nil, List.mem_append, List.mem_singleton] at hq
        rcases hq with h | h
        · exact List.mem_cons_of_mem _ (hseen q h)
        · simp [h])
      hrest
    have hvpre : v ∉ pre.map Prod.fst := fun h => hv (hseen v h)
    by_cases hvp : v = p
    · subst hvp
      rw [List.length_cons, depthOk_succ]
      have hfv : fsOf files v = some lines := by
        simp only [fsOf, hf, dget_append_not_mem pre _ v hvpre, dget, if_true]
      rw [hfv]
      simp only [List.all_eq_true]
      intro w hw
      have hw' := hin w hw
      simp only [Bool.not_eq_true', List.contains_eq_mem, decide_eq_false_iff_not] at hw'
      exact ih' w hw'
    · have hv' : v ∉ p :: seen := by simp [hvp, hv]
      exact depthOk_mono _ _ _ (ih' v hv')

def Good (r : Except Abort St) : Prop :=
  (∀ a, r = .error a → a.fatal ≠ .attributeError) ∧ (∀ s, r = .ok s → s.context.isSome = true)

theorem good_ok (s : St) (h : s.context.isSome = true) : Good (.ok s) :=
  ⟨fun a ha => (by cases ha), fun s' hs => (by cases hs; exact h)⟩
theorem good_error (a : Abort) (h : a.fatal ≠ .attributeError) : Good (.error a) :=
  ⟨fun a' ha => (by cases ha; exact h), fun s' hs => (by cases hs)⟩

theorem handleBibstyle_context (ctx : Ctx) (st : St) (v : Str) : (handleBibstyle ctx st v).context = st.context := by
  simp only [handleBibstyle, report]; split <;> rfl

theorem handleBibdata_context (ctx : Ctx) (st : St) (v : Str) : (handleBibdata ctx st v).context = st.context := by
  simp only [handleBibdata, report]; split <;> rfl

theorem parseLine_good (inp : St → Path → Except Abort St)
    (hinp : ∀ s q, s.context.isSome = true → Good (inp s q))
    (st : St) (l : Str) (n : Nat) (hst : st.context.isSome = true) : Good (parseLine inp st l n) := by
  unfold parseLine
  cases hc : st.context with
  | none => simp [hc] at hst
  | some c =>
    simp only []
    cases matchCommand l with
    | none => exact good_ok _ rfl
    | some cv =>
      obtain ⟨cmd, v⟩ := cv
      cases cmd with
      | input => exact hinp _ _ rfl
      | citation =>
        refine good_ok _ ?_
        simp only [handleCitation, foldl_citeKey_context]; rfl
      | bibstyle =>
        refine good_ok _ ?_
        rw [handleBibstyle_context]; rfl
      | bibdata =>
        refine good_ok _ ?_
        rw [handleBibdata_context]; rfl

theorem parseLines_good (inp : St → Path → Except Abort St)
    (hinp : ∀ s q, s.context.isSome = true → Good (inp s q))
    (ls : List Str) (n : Nat) (st : St) (hst : st.context.isSome = true) : Good (parseLines inp ls n st) := by
  induction ls generalizing n st with
  | nil => exact good_ok _ hst
  | cons l ls ih =>
    simp only [parseLines]
    have h1 := parseLine_good inp hinp st l n hst
    cases hp : parseLine inp st l n with
    | error e => rw [hp] at h1; exact h1
    | ok st' => exact ih (n + 1) st' (h1.2 st' hp)

theorem finish_good (prev : Option Ctx) (tl : Bool) (st : St) (hst : st.context.isSome = true) :
    Good (finish prev tl st) := by
  rw [finish_eq]
  have : ∃ ctx, ctxAfter prev st = some ctx := by
    cases prev with
    | some c0 => exact ⟨c0, rfl⟩
    | none =>
      cases hc : st.context with
      | none => simp [hc] at hst
      | some c => exact ⟨{ c with line := none, lineno := none }, by simp [ctxAfter, hc]⟩
  obtain ⟨ctx, hctx⟩ := this
  rw [hctx]
  simp only []
  split
  · exact good_error _ (by simp)
  · split
    · exact good_error _ (by simp)
    · exact good_ok _ rfl

/-- on every file system (cyclic or not), with every fuel and from every state: the parser never
dereferences a missing context, and returns with a context set -/
theorem parseFile_good (fs : FS) : ∀ (fuel : Nat) (st : St) (p : Path) (tl : Bool),
    Good (parseFile fs fuel st p tl) := by
  intro fuel
  induction fuel with
  | zero => intro st p tl; exact good_error _ (by simp)
  | succ f ih =>
    intro st p tl
    simp only [parseFile]
    cases fs p with
    | none => exact good_error _ (by simp)
    | some lines =>
      simp only []
      have h1 := parseLines_good (fun s q => parseFile fs f s q false) (fun s q _ => ih s q false) lines 1
        { st with context := some (Ctx.new p) } rfl
      cases hp : parseLines (fun s q => parseFile fs f s q false) lines 1 { st with context := some (Ctx.new p) } with
      | error e => rw [hp] at h1; exact h1
      | ok st' => exact finish_good _ _ _ (h1.2 st' hp)

/-! ## 6. lines that are no command are ignored (document level) -/

def keepLine (l : Str) : Bool := decide (classify l ≠ .other)
def nonOther (e : Event) : Bool := decide (e.item ≠ .other)
def sig (e : Event) : Path × Item := (e.file, e.item)

theorem keepLine_false_iff (l : Str) : keepLine l = false ↔ matchCommand l = none := by
  simp only [keepLine, classify_eq, decide_eq_false_iff_not, ne_eq, Decidable.not_not]
  cases matchCommand l with
  | none => simp [toItem]
  | some cv => obtain ⟨c, v⟩ := cv; cases c <;> simp [toItem]

theorem inputsOf_filter (ls : List Str) : inputsOf (ls.filter keepLine) = inputsOf ls := by
  induction ls with
  | nil => rfl
  | cons l ls ih =>
    cases hk : keepLine l with
    | false =>
      have hm := (keepLine_false_iff l).mp hk
      simp [List.filter, hk, inputsOf, hm, ih]
    | true =>
      simp only [List.filter, hk, inputsOf, ih]

theorem closedDepth_strip (fs : FS) : ∀ (d : Nat) (p : Path),
    closedDepth (commandLinesOnly fs) d p = closedDepth fs d p := by
  intro d
  induction d with
  | zero => intro p; rfl
  | succ d ih =>
    intro p
    rw [closedDepth_succ, closedDepth_succ]
    simp only [commandLinesOnly]
    cases fs p with
    | none => rfl
    | some lines =>
      simp only [Option.map_some]
      have : (List.filter (fun l => decide (classify l ≠ .other)) lines) = lines.filter keepLine := rfl
      rw [this, inputsOf_filter]
      congr 1
      funext q
      exact ih q

theorem lineEvents_strip (sub sub' : Path → List Event) (p : Path)
    (h : ∀ q, (sub' q).map sig = ((sub q).filter nonOther).map sig) :
    ∀ (ls : List Str) (n n' : Nat),
      (lineEvents sub' p (ls.filter keepLine) n').map sig =
        ((lineEvents sub p ls n).filter nonOther).map sig := by
  intro ls
  induction ls with
  | nil => intro n n'; rfl
  | cons l ls ih =>
    intro n n'
    cases hk : keepLine l with
    | false =>
      have hcl : classify l = .other := by simpa [keepLine] using hk
      simp only [List.filter, hk, lineEvents, hcl, List.nil_append]
      rw [ih (n + 1) n']
      simp [nonOther]
    | true =>
      have hcl : classify l ≠ .other := by simpa [keepLine] using hk
      simp only [List.filter, hk, lineEvents]
      have hne : nonOther ⟨p, n, strip l, classify l⟩ = true := by simp [nonOther, hcl]
      simp only [hne, List.map_cons, List.filter_append, List.map_append]
      rw [ih (n + 1) (n' + 1)]
      congr 1
      congr 1
      cases classify l with
      | input q => exact h q
      | citation ks => rfl
      | bibstyle s => rfl
      | bibdata ns => rfl
      | other => rfl

theorem events_strip (fs : FS) : ∀ (d : Nat) (p : Path),
    (events (commandLinesOnly fs) d p).map sig = ((events fs d p).filter nonOther).map sig := by
  intro d
  induction d with
  | zero => intro p; rfl
  | succ d ih =>
    intro p
    simp only [events, commandLinesOnly]
    cases fs p with
    | none => rfl
    | some lines =>
      simp only [Option.map_some]
      exact lineEvents_strip (events fs d) (events (commandLinesOnly fs) d) p ih lines 1 1

def eraseLoc (st : St) : St := { st with reports := st.reports.map unlocated }

theorem run_filter (st : St) (evs : List Event) : run st (evs.filter nonOther) = run st evs := by
  induction evs generalizing st with
  | nil => rfl
  | cons e evs ih =>
    cases hk : nonOther e with
    | true => simp only [List.filter, hk, run_cons, ih]
    | false =>
      have : e.item = .other := by simpa [nonOther] using hk
      simp only [List.filter, hk, run_cons, ih]
      congr 1
      simp [applyEvent, this]

theorem eraseLoc_eq_iff (a b : St) :
    eraseLoc a = eraseLoc b ↔
      a.context = b.context ∧ a.style = b.style ∧ a.data = b.data ∧ a.citations = b.citations ∧
      a.canonical = b.canonical ∧ a.reports.map unlocated = b.reports.map unlocated := by
  obtain ⟨a1, a2, a3, a4, a5, a6⟩ := a
  obtain ⟨b1, b2, b3, b4, b5, b6⟩ := b
  simp [eraseLoc]

theorem unlocated_mkError (k : Kind) (c c' : Ctx) (h : c.filename = c'.filename) :
    unlocated (mkError k c) = unlocated (mkError k c') := by
  simp [unlocated, mkError, h]

theorem citeKey_erase (c c' : Ctx) (hc : c.filename = c'.filename) (a b : St) (k : Str)
    (h : eraseLoc a = eraseLoc b) : eraseLoc (citeKey c a k) = eraseLoc (citeKey c' b k) := by
  obtain ⟨a1, a2, a3, a4, a5, a6⟩ := a
  obtain ⟨b1, b2, b3, b4, b5, b6⟩ := b
  simp only [eraseLoc, St.mk.injEq] at h
  obtain ⟨rfl, rfl, rfl, rfl, rfl, h6⟩ := h
  simp only [citeKey, report, eraseLoc]
  cases dget a5 (lowerPy k) with
  | none => simp [h6]
  | some ex => by_cases hne : k = ex <;> simp [hne, h6, unlocated_mkError _ c c' hc]

theorem foldl_citeKey_erase (c c' : Ctx) (hc : c.filename = c'.filename) (keys : List Str) (a b : St)
    (h : eraseLoc a = eraseLoc b) :
    eraseLoc (keys.foldl (citeKey c) a) = eraseLoc (keys.foldl (citeKey c') b) := by
  induction keys generalizing a b with
  | nil => exact h
  | cons k ks ih => exact ih _ _ (citeKey_erase c c' hc a b k h)

theorem applyEvent_erase (e e' : Event) (hs : sig e = sig e') (a b : St) (h : eraseLoc a = eraseLoc b) :
    eraseLoc (applyEvent a e) = eraseLoc (applyEvent b e') := by
  simp only [sig, Prod.mk.injEq] at hs
  obtain ⟨hf, hi⟩ := hs
  have hc : (ctxOf e).filename = (ctxOf e').filename := hf
  unfold applyEvent
  rw [← hi]
  cases e.item with
  | citation keys => exact foldl_citeKey_erase _ _ hc keys a b h
  | bibstyle s =>
    obtain ⟨a1, a2, a3, a4, a5, a6⟩ := a
    obtain ⟨b1, b2, b3, b4, b5, b6⟩ := b
    simp only [eraseLoc, St.mk.injEq] at h
    obtain ⟨rfl, rfl, rfl, rfl, rfl, h6⟩ := h
    simp only [handleBibstyle, report, eraseLoc]
    cases a2 with
    | none => simp [h6]
    | some s0 => simp [h6, unlocated_mkError _ _ _ hc]
  | bibdata ns =>
    obtain ⟨a1, a2, a3, a4, a5, a6⟩ := a
    obtain ⟨b1, b2, b3, b4, b5, b6⟩ := b
    simp only [eraseLoc, St.mk.injEq] at h
    obtain ⟨rfl, rfl, rfl, rfl, rfl, h6⟩ := h
    simp only [report, eraseLoc]
    cases a3 with
    | none => simp [h6]
    | some s0 => simp [h6, unlocated_mkError _ _ _ hc]
  | input q => exact h
  | other => exact h

theorem run_erase (evs evs' : List Event) (hs : evs.map sig = evs'.map sig) (a b : St)
    (h : eraseLoc a = eraseLoc b) : eraseLoc (run a evs) = eraseLoc (run b evs') := by
  induction evs generalizing evs' a b with
  | nil =>
    cases evs' with
    | nil => exact h
    | cons e' evs' => simp at hs
  | cons e evs ih =>
    cases evs' with
    | nil => simp at hs
    | cons e' evs' =>
      simp only [List.map_cons, List.cons.injEq] at hs
      exact ih evs' hs.2 _ _ (applyEvent_erase e e' hs.1 a b h)

/-- deleting the lines that are no command changes nothing but the line numbers in the reports -/
theorem parse_strip (fs : FS) (d fuel : Nat) (p : Path) (hcl : closedDepth fs d p = true) (hle : d ≤ fuel) :
    outcome (parse (commandLinesOnly fs) fuel p) = outcome (parse fs fuel p) := by
  have hcl' : closedDepth (commandLinesOnly fs) d p = true := by rw [closedDepth_strip]; exact hcl
  rw [parse_eq fs d fuel p hcl hle, parse_eq (commandLinesOnly fs) d fuel p hcl' hle]
  have key : eraseLoc (final (events (commandLinesOnly fs) d p)) = eraseLoc (final (events fs d p)) := by
    unfold final
    rw [← run_filter St.init (events fs d p)]
    exact run_erase _ _ (events_strip fs d p) _ _ rfl
  rw [eraseLoc_eq_iff] at key
  obtain ⟨h1, h2, h3, h4, h5, h6⟩ := key
  simp only [h2, h3]
  split
  · simp only [outcome, h6]
  · split
    · simp only [outcome, h6]
    · simp only [outcome, h2, h3, h4, h5, h6]

/-! ## 7. the top-level result in terms of the specification; splitting lemmas -/

/-- The parse of a closed, acyclic document IS its denotation (`canonical` is the parser's private
dictionary of spellings). -/
theorem parse_spec (fs : FS) (d fuel : Nat) (p : Path) (hcl : closedDepth fs d p = true) (hle : d ≤ fuel) :
    parse fs fuel p =
      (match Spec.fatal (events fs d p) with
       | some k => .error ⟨.aux ⟨k, p, none, none⟩, reports (events fs d p)⟩
       | none => .ok ⟨some ⟨p, none, none⟩, style (events fs d p), data (events fs d p),
                      citations (events fs d p), (final (events fs d p)).canonical,
                      reports (events fs d p)⟩) := by
  rw [parse_eq fs d fuel p hcl hle]
  obtain ⟨h1, h2, h3, h4⟩ := final_spec (events fs d p)
  simp only [Spec.fatal, ← h1, ← h2, ← h3, ← h4, mkError]
  generalize final (events fs d p) = X
  obtain ⟨x1, x2, x3, x4, x5, x6⟩ := X
  cases x3 <;> cases x2 <;> simp [withCtx]

theorem reportsAfter_append (b x y : List Event) :
    reportsAfter b (x ++ y) = reportsAfter b x ++ reportsAfter (b ++ x) y := by
  induction x generalizing b with
  | nil => simp [reportsAfter]
  | cons e x ih => simp [reportsAfter, ih, List.append_assoc]

theorem mismatches_append (b x y : List Str) :
    mismatches b (x ++ y) = mismatches b x ++ mismatches (b ++ x) y := by
  induction x generalizing b with
  | nil => simp [mismatches]
  | cons k x ih => simp [mismatches, ih, List.append_assoc]

theorem lineEvents_append (sub : Path → List Event) (p : Path) (l1 l2 : List Str) (n : Nat) :
    lineEvents sub p (l1 ++ l2) n = lineEvents sub p l1 n ++ lineEvents sub p l2 (n + l1.length) := by
  induction l1 generalizing n with
  | nil => simp [lineEvents]
  | cons l l1 ih =>
    have : n + 1 + l1.length = n + (l1.length + 1) := by omega
    simp only [List.cons_append, lineEvents, ih, List.length_cons, List.append_assoc, this]

/-- a problem caused by an event somewhere in the document is among the reports -/
theorem mem_reports_of_split (pre post : List Event) (e : Event) (r : Report)
    (h : r ∈ reportsOf pre e) : r ∈ reports (pre ++ e :: post) := by
  unfold reports
  rw [reportsAfter_append]
  simp only [List.nil_append, reportsAfter, List.mem_append]
  exact Or.inr (Or.inl h)

theorem captured_parse (fs : FS) (d fuel : Nat) (p : Path) (hcl : closedDepth fs d p = true) (hle : d ≤ fuel) :
    captured (parse fs fuel p) = reports (events fs d p) := by
  rw [parse_spec fs d fuel p hcl hle]
  cases Spec.fatal (events fs d p) <;> rfl

theorem takeWhile_eq_iff (s body : Str) :
    s.takeWhile (· ≠ '\n') = body ↔
      ∃ rest, s = body ++ rest ∧ '\n' ∉ body ∧ (rest = [] ∨ ∃ r, rest = '\n' :: r) := by
  induction s generalizing body with
  | nil =>
    constructor
    · intro h; subst h; exact ⟨[], by simp⟩
    · rintro ⟨rest, h, _, _⟩
      have := List.append_eq_nil_iff.mp h.symm
      simp [this.1]
  | cons c s ih =>
    by_cases hc : c = '\n'
    · subst hc
      simp only [List.takeWhile, ne_eq, not_true_eq_false, decide_false]
      constructor
      · intro h; subst h; exact ⟨'\n' :: s, by simp⟩
      · rintro ⟨rest, h, hb, _⟩
        cases body with
        | nil => rfl
        | cons b body =>
          simp only [List.cons_append, List.cons.injEq] at h
          simp [← h.1] at hb
    · have hd : decide (c ≠ '\n') = true := by simp [hc]
      simp only [List.takeWhile, hd]
      constructor
      · intro h
        subst h
        obtain ⟨rest, h1, h2, h3⟩ := (ih _).mp rfl
        refine ⟨rest, congrArg (c :: ·) h1, ?_, h3⟩
        simp only [List.mem_cons, not_or]
        exact ⟨fun e => hc e.symm, h2⟩
      · rintro ⟨rest, h, hb, hr⟩
        cases body with
        | nil =>
          simp only [List.nil_append] at h
          rcases hr with hr | ⟨r, hr⟩
          · simp [hr] at h
          · rw [hr] at h; simp only [List.cons.injEq] at h; exact absurd h.1 hc
        | cons b body =>
          simp only [List.cons_append, List.cons.injEq] at h
          simp only [List.mem_cons, not_or] at hb
          rw [h.1, (ih body).mpr ⟨rest, h.2, hb.2, hr⟩]

/-- The shape of a command line, in words: `line = \name{arg}tail rest` where `arg` and `tail`
contain no newline, `tail` contains no `}`, and `rest` is empty or starts with a newline. -/
theorem argOf_shape (name line arg : Str) :
    argOf name line = some arg ↔
      ∃ tail rest, line = '\\' :: name ++ '{' :: arg ++ '}' :: tail ++ rest ∧
        '\n' ∉ arg ∧ '\n' ∉ tail ∧ '}' ∉ tail ∧ (rest = [] ∨ ∃ r, rest = '\n' :: r) := by
  cases line with
  | nil =>
    rw [argOf_nil]
    constructor
    · intro h; cases h
    · rintro ⟨tail, rest, h, _⟩; simp at h
  | cons c s =>
    by_cases hc : c = '\\'
    · subst hc
      rw [argOf_cons]
      constructor
      · intro h
        cases hm : matchLit name s with
        | none => rw [hm] at h; cases h
        | some r =>
          rw [hm] at h
          simp only [] at h
          have hs := (matchLit_some name s r).mp hm
          cases r with
          | nil => simp [matchGroup] at h
          | cons c1 r =>
            simp only [matchGroup] at h
            by_cases hc1 : c1 = '{'
            · subst hc1
              simp only [if_true] at h
              obtain ⟨t, ht, hnt⟩ := (beforeLastClose_some _ _).mp h
              obtain ⟨rest, h1, h2, h3⟩ := (takeWhile_eq_iff r _).mp ht
              refine ⟨t, rest, ?_, ?_, ?_, hnt, h3⟩
              · rw [hs, h1]; simp
              · intro hm'; exact h2 (by simp [hm'])
              · intro hm'; exact h2 (by simp [hm'])
            · simp [hc1] at h
      · rintro ⟨tail, rest, h, h1, h2, h3, h4⟩
        simp only [List.cons_append, List.cons.injEq, true_and] at h
        have hm : matchLit name s = some ('{' :: arg ++ '}' :: tail ++ rest) :=
          (matchLit_some name s _).mpr (by rw [h]; simp)
        rw [hm]
        simp only [matchGroup, List.cons_append, if_true]
        have ht : List.takeWhile (· ≠ '\n') (arg ++ '}' :: (tail ++ rest)) = arg ++ '}' :: tail :=
          (takeWhile_eq_iff _ _).mpr ⟨rest, by simp, by
            simp only [List.mem_append, List.mem_cons, not_or]
            exact ⟨h1, by decide, h2⟩, h4⟩
        simp only [List.append_assoc, List.cons_append] at ht ⊢
        rw [ht]
        exact (beforeLastClose_some _ _).mpr ⟨tail, rfl, h3⟩
    · rw [argOf_not_backslash _ _ _ hc]
      constructor
      · intro h; cases h
      · rintro ⟨tail, rest, h, _⟩
        simp only [List.cons_append, List.cons.injEq] at h
        exact absurd h.1 hc

/-! ## 8. a concrete document for the non-vacuity examples -/

/-- a three-file document, nested two deep, with repeats, case variants and duplicates -/
def demoFS : FS := fsOf [
  ("t.aux".toList, ["\\relax ".toList, "\\citation{a,B}".toList, "\\bibstyle{plain}".toList,
                    "\\@input{u.aux}".toList, "\\citation{A}".toList, "\\bibstyle{alpha}".toList,
                    "\\bibdata{x,y}".toList]),
  ("u.aux".toList, ["\\citation{b}".toList, "\\@input{v.aux}".toList, "\\bibdata{z}".toList]),
  ("v.aux".toList, ["\\citation{a}{c}".toList, "\\citationx{q}".toList])]


/-! ## 9. an `\@input` file that cannot be opened -/

/-- what a nested read of `r = (events read, file that could not be opened)` returns from `st` -/
def nestedResult (st : St) (r : List Event × Option Path) : Except Abort St :=
  match r.2 with
  | some m => .error ⟨.cannotOpen m, (run st r.1).reports⟩
  | none => .ok (run st r.1)

theorem run_withCtx_reports (st : St) (x : Option Ctx) (evs : List Event) :
    (run (withCtx st x) evs).reports = (run st evs).reports := by
  rw [run_withCtx]

/-- a list of lines, reading stops at the first include that cannot be opened -/
theorem parseLinesM_eq (inp : St → Path → Except Abort St) (sub : Path → List Event × Option Path)
    (p : Path) (Q : Path → Prop)
    (hinp : ∀ q st c0, Q q → st.context = some c0 → inp st q = nestedResult st (sub q)) :
    ∀ (ls : List Str) (n : Nat) (st : St) (c : Ctx), st.context = some c → c.filename = p →
      (∀ q ∈ inputsOf ls, Q q) →
      (∀ m, (lineEventsM sub p ls n).2 = some m →
        parseLines inp ls n st = .error ⟨.cannotOpen m, (run st (lineEventsM sub p ls n).1).reports⟩) ∧
      ((lineEventsM sub p ls n).2 = none →
        ∃ c' : Ctx, c'.filename = p ∧
          parseLines inp ls n st = .ok (withCtx (run st (lineEventsM sub p ls n).1) (some c'))) := by
  intro ls
  induction ls with
  | nil =>
    intro n st c hc hp _
    refine ⟨fun m h => by simp [lineEventsM] at h, fun _ => ⟨c, hp, ?_⟩⟩
    simp [parseLines, lineEventsM, withCtx_self st _ hc]
  | cons l ls ih =>
    intro n st c hc hp hQ
    have hQ' : ∀ q' ∈ inputsOf ls, Q q' := fun q' hq' => hQ q' (inputsOf_subset_cons l ls q' hq')
    simp only [parseLines]
    rw [parseLine_eq inp st c hc l n]
    cases hcl : classify l with
    | input q =>
      have hq : Q q := hQ q (by rw [inputsOf_cons_input l ls q hcl]; simp)
      simp only [lineEventsM, hcl]
      rw [hinp q _ _ hq (withCtx_context _ _)]
      rcases hsub : sub q with ⟨evs, _ | m⟩
      · -- the included file was read completely
        simp only [nestedResult]
        obtain ⟨ih1, ih2⟩ := ih (n + 1) (run (withCtx st (some ⟨c.filename, some n, some (strip l)⟩)) evs)
          ⟨c.filename, some n, some (strip l)⟩ (by rw [run_context]) hp hQ'
        constructor
        · intro m hm
          rw [ih1 m hm, hp]
          simp only [run_cons, run_append, run_withCtx, withCtx_reports, applyEvent]
        · intro hn
          obtain ⟨c', hc', h⟩ := ih2 hn
          refine ⟨c', hc', ?_⟩
          rw [h, hp]
          simp only [run_cons, run_append, run_withCtx, withCtx_withCtx, applyEvent]
      · -- a file could not be opened inside the include
        simp only [nestedResult]
        constructor
        · intro m' hm'
          injection hm' with hm'
          subst hm'
          rw [hp]
          simp only [run_cons, run_withCtx, withCtx_reports, applyEvent]
        · intro hn; cases hn
    | citation keys =>
      simp only [lineEventsM, hcl]
      obtain ⟨ih1, ih2⟩ := ih (n + 1) (withCtx (applyEvent st ⟨c.filename, n, strip l, .citation keys⟩)
          (some ⟨c.filename, some n, some (strip l)⟩))
        ⟨c.filename, some n, some (strip l)⟩ rfl hp hQ'
      constructor
      · intro m hm
        rw [ih1 m hm, hp]
        simp only [run_cons, run_withCtx, withCtx_reports]
      · intro hn
        obtain ⟨c', hc', h⟩ := ih2 hn
        refine ⟨c', hc', ?_⟩
        rw [h, hp]
        simp only [run_cons, run_withCtx, withCtx_withCtx]
    | bibstyle s =>
      simp only [lineEventsM, hcl]
      obtain ⟨ih1, ih2⟩ := ih (n + 1) (withCtx (applyEvent st ⟨c.filename, n, strip l, .bibstyle s⟩)
          (some ⟨c.filename, some n, some (strip l)⟩))
        ⟨c.filename, some n, some (strip l)⟩ rfl hp hQ'
      constructor
      · intro m hm
        rw [ih1 m hm, hp]
        simp only [run_cons, run_withCtx, withCtx_reports]
      · intro hn
        obtain ⟨c', hc', h⟩ := ih2 hn
        refine ⟨c', hc', ?_⟩
        rw [h, hp]
        simp only [run_cons, run_withCtx, withCtx_withCtx]
    | bibdata names =>
      simp only [lineEventsM, hcl]
      obtain ⟨ih1, ih2⟩ := ih (n + 1) (withCtx (applyEvent st ⟨c.filename, n, strip l, .bibdata names⟩)
          (some ⟨c.filename, some n, some (strip l)⟩))
        ⟨c.filename, some n, some (strip l)⟩ rfl hp hQ'
      constructor
      · intro m hm
        rw [ih1 m hm, hp]
        simp only [run_cons, run_withCtx, withCtx_reports]
      · intro hn
        obtain ⟨c', hc', h⟩ := ih2 hn
        refine ⟨c', hc', ?_⟩
        rw [h, hp]
        simp only [run_cons, run_withCtx, withCtx_withCtx]
    | other =>
      simp only [lineEventsM, hcl]
      obtain ⟨ih1, ih2⟩ := ih (n + 1) (withCtx (applyEvent st ⟨c.filename, n, strip l, .other⟩)
          (some ⟨c.filename, some n, some (strip l)⟩))
        ⟨c.filename, some n, some (strip l)⟩ rfl hp hQ'
      constructor
      · intro m hm
        rw [ih1 m hm, hp]
        simp only [run_cons, run_withCtx, withCtx_reports]
      · intro hn
        obtain ⟨c', hc', h⟩ := ih2 hn
        refine ⟨c', hc', ?_⟩
        rw [h, hp]
        simp only [run_cons, run_withCtx, withCtx_withCtx]

/-- `parse_file` on an acyclic inclusion of depth ≤ `d` whose files may be missing -/
theorem parseFileM_eq (fs : FS) : ∀ (d fuel : Nat) (q : Path) (st : St) (tl : Bool),
    depthOk fs d q = true → d ≤ fuel →
    (∀ m, (eventsUntilMissing fs d q).2 = some m →
      parseFile fs fuel st q tl = .error ⟨.cannotOpen m, (run st (eventsUntilMissing fs d q).1).reports⟩) ∧
    ((eventsUntilMissing fs d q).2 = none →
      ∃ c' : Ctx, c'.filename = q ∧
        parseFile fs fuel st q tl =
          finish st.context tl (withCtx (run st (eventsUntilMissing fs d q).1) (some c'))) := by
  intro d
  induction d with
  | zero => intro fuel q st tl h; simp [depthOk] at h
  | succ d ih =>
    intro fuel q st tl hd hle
    obtain ⟨f, rfl⟩ : ∃ f, fuel = f + 1 := ⟨fuel - 1, by omega⟩
    rw [depthOk_succ] at hd
    cases hfs : fs q with
    | none =>
      simp only [eventsUntilMissing, hfs, parseFile]
      refine ⟨fun m hm => ?_, fun hn => by cases hn⟩
      injection hm with hm
      subst hm
      rfl
    | some lines =>
      simp only [hfs, List.all_eq_true] at hd
      have hinp : ∀ q' (st' : St) (c0 : Ctx), depthOk fs d q' = true → st'.context = some c0 →
          (fun s p => parseFile fs f s p false) st' q' = nestedResult st' (eventsUntilMissing fs d q') := by
        intro q' st' c0 hq' hc0
        obtain ⟨h1, h2⟩ := ih f q' st' false hq' (by omega)
        unfold nestedResult
        cases hm : (eventsUntilMissing fs d q').2 with
        | some m => simp only [h1 m hm]
        | none =>
          obtain ⟨c', _, h⟩ := h2 hm
          simp only [h, hc0, finish_some, withCtx_withCtx]
          rw [withCtx_self]
          rw [run_context, hc0]
      obtain ⟨h1, h2⟩ := parseLinesM_eq (fun s p => parseFile fs f s p false) (eventsUntilMissing fs d) q
        (fun q' => depthOk fs d q' = true) hinp lines 1 (withCtx st (some (Ctx.new q))) (Ctx.new q)
        rfl rfl hd
      simp only [eventsUntilMissing, hfs, parseFile]
      constructor
      · intro m hm
        rw [h1 m hm, run_withCtx_reports]
      · intro hn
        obtain ⟨c', hc', h⟩ := h2 hn
        refine ⟨c', hc', ?_⟩
        rw [h]
        simp only [run_withCtx, withCtx_withCtx]

/-- when no file is missing, reading until the first missing file reads everything -/
theorem lineEventsM_closed (sub : Path → List Event) (subM : Path → List Event × Option Path) (p : Path)
    (ls : List Str) (n : Nat) (h : ∀ q ∈ inputsOf ls, subM q = (sub q, none)) :
    lineEventsM subM p ls n = (lineEvents sub p ls n, none) := by
  induction ls generalizing n with
  | nil => rfl
  | cons l ls ih =>
    have ih' := ih (n + 1) (fun q hq => h q (inputsOf_subset_cons l ls q hq))
    simp only [lineEventsM, lineEvents]
    cases hcl : classify l with
    | input q =>
      have := h q (by rw [inputsOf_cons_input l ls q hcl]; simp)
      simp only [this, ih']
    | citation _ => simp only [ih', List.nil_append]
    | bibstyle _ => simp only [ih', List.nil_append]
    | bibdata _ => simp only [ih', List.nil_append]
    | other => simp only [ih', List.nil_append]

theorem eventsUntilMissing_closed (fs : FS) : ∀ (d : Nat) (p : Path), closedDepth fs d p = true →
    eventsUntilMissing fs d p = (events fs d p, none) := by
  intro d
  induction d with
  | zero => intro p h; simp [closedDepth] at h
  | succ d ih =>
    intro p h
    simp only [closedDepth] at h
    cases hfs : fs p with
    | none => simp [hfs] at h
    | some lines =>
      simp only [hfs, List.all_eq_true] at h
      simp only [eventsUntilMissing, events, hfs]
      exact lineEventsM_closed (events fs d) (eventsUntilMissing fs d) p lines 1 (fun q hq => ih q (h q hq))

/-- The first `\@input` file that cannot be opened ends the parse with the I/O error naming it;
what has been captured by then are the reports of the events read before. -/
theorem parse_missing (fs : FS) (d fuel : Nat) (p m : Path) (hd : depthOk fs d p = true) (hle : d ≤ fuel)
    (hm : (eventsUntilMissing fs d p).2 = some m) :
    parse fs fuel p = .error ⟨.cannotOpen m, reports (eventsUntilMissing fs d p).1⟩ := by
  unfold parse
  rw [(parseFileM_eq fs d fuel p St.init true hd hle).1 m hm]
  have := (final_spec (eventsUntilMissing fs d p).1).2.2.2
  rw [final] at this
  rw [this]


/-- the name reported as missing is not in the file system -/
theorem lineEventsM_missing (fs : FS) (subM : Path → List Event × Option Path) (p : Path)
    (hsub : ∀ q m, (subM q).2 = some m → fs m = none) (ls : List Str) (n : Nat) (m : Path)
    (h : (lineEventsM subM p ls n).2 = some m) : fs m = none := by
  induction ls generalizing n with
  | nil => simp [lineEventsM] at h
  | cons l ls ih =>
    simp only [lineEventsM] at h
    cases hcl : classify l with
    | input q =>
      simp only [hcl] at h
      rcases hs : subM q with ⟨evs, _ | m'⟩
      · simp only [hs] at h; exact ih (n + 1) h
      · simp only [hs] at h
        injection h with h
        subst h
        exact hsub q m' (by rw [hs])
    | citation _ => simp only [hcl] at h; exact ih (n + 1) h
    | bibstyle _ => simp only [hcl] at h; exact ih (n + 1) h
    | bibdata _ => simp only [hcl] at h; exact ih (n + 1) h
    | other => simp only [hcl] at h; exact ih (n + 1) h

theorem eventsUntilMissing_missing (fs : FS) : ∀ (d : Nat) (p m : Path),
    (eventsUntilMissing fs d p).2 = some m → fs m = none := by
  intro d
  induction d with
  | zero => intro p m h; simp [eventsUntilMissing] at h
  | succ d ih =>
    intro p m h
    simp only [eventsUntilMissing] at h
    cases hfs : fs p with
    | none =>
      simp only [hfs] at h
      injection h with h
      subst h
      exact hfs
    | some lines =>
      simp only [hfs] at h
      exact lineEventsM_missing fs (eventsUntilMissing fs d) p (fun q m' hm' => ih q m' hm') lines 1 m h

end Pybtex.Aux
