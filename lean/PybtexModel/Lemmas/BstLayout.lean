/-
What the one-pass machine `preSM` makes of a printed text: lexeme texts pass unchanged, every gap
(white space and comments) becomes white space without `\r`, with exactly one `\n` per line break.
-/
import PybtexModel.Lemmas.BstPre

namespace Pybtex.Bst
open Pybtex.Scanner

/-- inside a comment everything up to the line break is dropped -/
theorem preSM_comment (txt rest : Str) (b : Bool) (h : ∀ c ∈ txt, isLineSep c = false) :
    preSM b true (txt ++ rest) = preSM b true rest := by
  induction txt with
  | nil => rfl
  | cons c txt ih =>
    rw [List.cons_append, preSM_nonsep b true c _ (h c (by simp))]
    simp only [if_true]
    exact ih (fun d hd => h d (by simp [hd]))

/-- characters that are neither line breaks nor quotes pass unchanged (a `%` only inside a
string literal) -/
theorem preSM_plain (s rest : Str) (b : Bool)
    (h : ∀ c ∈ s, isLineSep c = false ∧ c ≠ '"' ∧ (c = '%' → b = true)) :
    preSM b false (s ++ rest) = s ++ preSM b false rest := by
  induction s with
  | nil => rfl
  | cons c s ih =>
    obtain ⟨h1, h2, h3⟩ := h c (by simp)
    rw [List.cons_append, preSM_nonsep b false c _ h1]
    have hc : ¬ (c = '%' ∧ b = false) := by
      intro ⟨hc1, hc2⟩; rw [h3 hc1] at hc2; cases hc2
    simp only [Bool.false_eq_true, if_false, hc, h2]
    rw [ih (fun d hd => h d (by simp [hd]))]
    rfl

theorem isWs_of_isLineSep {c : Char} (h : isLineSep c = true) : isWs c = true := by
  simp only [isLineSep, lineSepCodes, List.contains_eq_mem, List.mem_cons, List.not_mem_nil,
    or_false, decide_eq_true_eq] at h
  simp only [isWs, wsCodes, List.contains_eq_mem, List.mem_cons, List.not_mem_nil, or_false,
    decide_eq_true_eq]
  omega

theorem nameChar_props {c : Char} (h : nameChar c = true) :
    isLineSep c = false ∧ c ≠ '"' ∧ c ≠ '%' ∧ isNameChar c = true := by
  have hn := nameChar_isNameChar h
  simp only [nameChar, Bool.not_eq_true', Bool.or_eq_false_iff, decide_eq_false_iff_not] at h
  refine ⟨?_, h.1.1.1.1.2, h.1.2, hn⟩
  cases hs : isLineSep c with
  | false => rfl
  | true => rw [isWs_of_isLineSep hs] at h; cases h.2

theorem isDigit_props {c : Char} (h : isDigit c = true) :
    isLineSep c = false ∧ c ≠ '"' ∧ c ≠ '%' := by
  simp only [isDigit, Bool.and_eq_true, decide_eq_true_eq] at h
  refine ⟨?_, ?_, ?_⟩
  · simp only [isLineSep, lineSepCodes, List.contains_eq_mem, List.mem_cons, List.not_mem_nil,
      or_false, decide_eq_false_iff_not]
    omega
  · intro hc; subst hc; simp at h
  · intro hc; subst hc; simp at h

/-- the text of a lexeme passes unchanged and leaves the machine in its initial state -/
theorem preSM_lex (l : Lex) (hl : wfLex l = true) (rest : Str) :
    preSM false false (l.text ++ rest) = l.text ++ preSM false false rest := by
  cases l with
  | word s =>
    apply preSM_plain
    intro c hc
    have : nameChar c = true := by
      cases s with
      | nil => cases hc
      | cons d s => simp only [wfLex, List.all_eq_true] at hl; exact hl c hc
    obtain ⟨h1, h2, h3, _⟩ := nameChar_props this
    exact ⟨h1, h2, fun h => absurd h h3⟩
  | int v =>
    apply preSM_plain
    intro c hc
    have hd : ∀ c ∈ Nat.toDigits 10 v.natAbs, isLineSep c = false ∧ c ≠ '"' ∧ (c = '%' → false = true) := by
      intro c hc
      obtain ⟨h1, h2, h3⟩ := isDigit_props (toDigits_all_digit _ c hc)
      exact ⟨h1, h2, fun h => absurd h h3⟩
    simp only [Lex.text, intText] at hc
    split at hc
    · simp only [List.mem_cons] at hc
      rcases hc with rfl | rfl | hc
      · simp [isLineSep, lineSepCodes]
      · simp [isLineSep, lineSepCodes]
      · exact hd c hc
    · simp only [List.mem_cons] at hc
      rcases hc with rfl | hc
      · simp [isLineSep, lineSepCodes]
      · exact hd c hc
  | str s =>
    simp only [wfLex, wfStr, List.all_eq_true, Bool.and_eq_true, bne_iff_ne, ne_eq,
      Bool.not_eq_true'] at hl
    have hq : isLineSep '"' = false := by simp [isLineSep, lineSepCodes]
    simp only [Lex.text, List.cons_append, List.append_assoc, List.singleton_append]
    rw [preSM_nonsep false false '"' _ hq]
    simp only [Bool.false_eq_true, if_false, if_true, Bool.not_false, reduceCtorEq, false_and]
    have : ¬ (('"' : Char) = '%') := by decide
    simp only [this, false_and, if_false]
    rw [preSM_plain s _ true (fun c hc => ⟨(hl c hc).2, (hl c hc).1, fun _ => rfl⟩)]
    rw [preSM_nonsep true false '"' _ hq]
    simp [this]
  | lb => exact preSM_plain ['{'] rest false (by simp [isLineSep, lineSepCodes])
  | rb => exact preSM_plain ['}'] rest false (by simp [isLineSep, lineSepCodes])

/-! gaps -/

theorem breaks_nosep_append (txt y : Str) (h : ∀ c ∈ txt, isLineSep c = false) :
    breaks (txt ++ y) = breaks y := by
  induction txt with
  | nil => rfl
  | cons c txt ih =>
    have hc := h c (by simp)
    have hcr : c ≠ '\r' := by intro e; subst e; simp [isLineSep, lineSepCodes] at hc
    rw [List.cons_append, breaks.eq_3 c _ (by intro r' e; exact absurd e hcr)]
    simp only [hc, Bool.false_eq_true, if_false]
    exact ih (fun d hd => h d (by simp [hd]))

theorem breaks_sep (s : Char) (x : Str) (hs : isLineSep s = true)
    (hn : ¬ (s = '\r' ∧ ∃ r', x = '\n' :: r')) : breaks (s :: x) = breaks x + 1 := by
  rw [breaks.eq_3 s x (by intro r' h1 h2; exact hn ⟨h1, r', h2⟩)]
  simp [hs]

/-- `t` does not start with a line-break character -/
def Tstart (t : Str) : Prop := headSat isLineSep t = false

theorem white_nlIf (r : Str) : White (nlIf r) := by
  unfold nlIf
  split
  · exact White.nil
  · intro c hc; simp at hc; subst hc; simp [isWs, wsCodes]

theorem White.append {a b : Str} (ha : White a) (hb : White b) : White (a ++ b) := by
  intro c hc
  simp only [List.mem_append] at hc
  rcases hc with hc | hc
  · exact ha c hc
  · exact hb c hc

theorem gapText_cons_ws (c : WsChar) (g : Gap) : gapText (.ws c :: g) = c.c :: gapText g := rfl

theorem gapText_cons_cm (t : CommentText) (s : SepChar) (g : Gap) :
    gapText (.comment t s :: g) = '%' :: (t.s ++ s.c :: gapText g) := by
  simp [gapText, GapItem.text]

theorem gap_starts_nl (g : Gap) (t r' : Str) (ht : Tstart t) (h : gapText g ++ t = '\n' :: r') :
    ∃ (c : WsChar) (g' : Gap), g = .ws c :: g' ∧ c.c = '\n' ∧ r' = gapText g' ++ t := by
  cases g with
  | nil =>
    simp only [gapText, List.nil_append] at h
    subst h; simp [Tstart, headSat, isLineSep, lineSepCodes] at ht
  | cons i g' =>
    cases i with
    | ws c =>
      rw [gapText_cons_ws, List.cons_append] at h
      simp only [List.cons.injEq] at h
      exact ⟨c, g', rfl, h.1, h.2.symm⟩
    | comment tx s =>
      rw [gapText_cons_cm, List.cons_append] at h
      simp only [List.cons.injEq] at h
      exact absurd h.1 (by decide)

/-- the two facts about gaps, proved together by induction on the number of items:
(1) a gap in the initial state becomes white text `w`; (2) so does a line break followed by a gap,
in any state.  `w` has no `\r`, is non-empty when something follows a non-empty gap, and has one
`\n` per line break when something follows. -/
theorem gap_core : ∀ (n : Nat) (g : Gap), g.length ≤ n → ∀ t, Tstart t →
    (∃ w, White w ∧ preSM false false (gapText g ++ t) = w ++ preSM false false t ∧
        (g ≠ [] → t ≠ [] → w ≠ []) ∧ (t ≠ [] → nl w = breaks (gapText g))) ∧
    (∀ (s : Char) (b k : Bool), isLineSep s = true →
      ∃ w, White w ∧ preSM b k (s :: (gapText g ++ t)) = w ++ preSM false false t ∧
        (t ≠ [] → w ≠ []) ∧ (t ≠ [] → nl w = breaks (s :: gapText g))) := by
  intro n
  induction n with
  | zero =>
    intro g hg t ht
    have hg0 : g = [] := List.eq_nil_of_length_eq_zero (by omega)
    subst hg0
    refine ⟨⟨[], White.nil, by simp [gapText], by simp, by simp [gapText, nl, breaks]⟩, ?_⟩
    intro s b k hs
    have hn : ¬ (s = '\r' ∧ ∃ r', gapText [] ++ t = '\n' :: r') := by
      intro ⟨_, r', h2⟩
      simp only [gapText, List.nil_append] at h2
      subst h2; simp [Tstart, headSat, isLineSep, lineSepCodes] at ht
    refine ⟨nlIf t, white_nlIf t, ?_, ?_, ?_⟩
    · rw [preSM_cons b k s _ hn]; simp [hs, gapText]
    · intro h; simp [nlIf, h]
    · intro h
      have hn' : ¬ (s = '\r' ∧ ∃ r', ([] : Str) = '\n' :: r') := by intro ⟨_, r', h2⟩; cases h2
      simp only [gapText]
      rw [breaks_sep s [] hs hn']
      simp [nlIf, h, nl, breaks]
  | succ n ih =>
    intro g hg t ht
    -- part 1 for `g`
    have part1 : ∃ w, White w ∧ preSM false false (gapText g ++ t) = w ++ preSM false false t ∧
        (g ≠ [] → t ≠ [] → w ≠ []) ∧ (t ≠ [] → nl w = breaks (gapText g)) := by
      cases g with
      | nil => exact ⟨[], White.nil, by simp [gapText], by simp, by simp [gapText, nl, breaks]⟩
      | cons i g' =>
        have hg' : g'.length ≤ n := by simp at hg; omega
        obtain ⟨ih1, ih2⟩ := ih g' hg' t ht
        cases i with
        | ws c =>
          rw [gapText_cons_ws, List.cons_append]
          by_cases hsep : isLineSep c.c = true
          · obtain ⟨w, hw, he, hne, hbr⟩ := ih2 c.c false false hsep
            exact ⟨w, hw, he, fun _ h => hne h, hbr⟩
          · have hsep' : isLineSep c.c = false := by simpa using hsep
            obtain ⟨w, hw, he, _, hbr⟩ := ih1
            have hcr : c.c ≠ '\r' := by intro e; rw [e] at hsep'; simp [isLineSep, lineSepCodes] at hsep'
            have hpc : c.c ≠ '%' := by intro e; have := c.ws; rw [e] at this; simp [isWs, wsCodes] at this
            have hqc : c.c ≠ '"' := by intro e; have := c.ws; rw [e] at this; simp [isWs, wsCodes] at this
            refine ⟨c.c :: w, ?_, ?_, by simp, ?_⟩
            · intro d hd
              simp only [List.mem_cons] at hd
              rcases hd with rfl | hd
              · exact ⟨c.ws, hcr⟩
              · exact hw d hd
            · rw [preSM_nonsep false false c.c _ hsep']
              simp [hpc, hqc, he]
            · intro h
              have hcn : c.c ≠ '\n' := by intro e; rw [e] at hsep'; simp [isLineSep, lineSepCodes] at hsep'
              rw [breaks.eq_3 c.c _ (by intro r' e; exact absurd e hcr)]
              simp only [hsep', Bool.false_eq_true, if_false]
              rw [← hbr h]
              simp only [nl, List.count_cons]
              have : (c.c == '\n') = false := by simpa using hcn
              simp [this]
        | comment tx s =>
          rw [gapText_cons_cm, List.cons_append]
          have htx : ∀ c ∈ tx.s, isLineSep c = false := by
            have := tx.ok
            simp only [List.all_eq_true, Bool.not_eq_true'] at this
            exact this
          have hp : isLineSep '%' = false := by simp [isLineSep, lineSepCodes]
          obtain ⟨w, hw, he, hne, hbr⟩ := ih2 s.c false true s.sep
          refine ⟨w, hw, ?_, fun _ h => hne h, ?_⟩
          · rw [preSM_nonsep false false '%' _ hp]
            simp only [Bool.false_eq_true, if_false, and_self, if_true]
            rw [List.append_assoc, preSM_comment _ _ _ htx]
            exact he
          · intro h
            rw [hbr h]
            have hpr : ('%' : Char) ≠ '\r' := by decide
            rw [breaks.eq_3 '%' _ (by intro r' e; exact absurd e hpr)]
            simp only [hp, Bool.false_eq_true, if_false]
            rw [breaks_nosep_append _ _ htx]
    refine ⟨part1, ?_⟩
    -- part 2 for `g`
    intro s b k hs
    by_cases hcrlf : s = '\r' ∧ ∃ r', gapText g ++ t = '\n' :: r'
    · obtain ⟨hs1, r', hr'⟩ := hcrlf
      obtain ⟨c, g', hgc, hcn, hr''⟩ := gap_starts_nl g t r' ht hr'
      subst hs1
      have hg' : g'.length ≤ n := by rw [hgc] at hg; simp at hg; omega
      obtain ⟨⟨w, hw, he, _, hbr⟩, _⟩ := ih g' hg' t ht
      refine ⟨nlIf (gapText g' ++ t) ++ w, (white_nlIf _).append hw, ?_, ?_, ?_⟩
      · rw [hr', preSM_crlf, hr'', he, List.append_assoc]
      · intro h; simp [nlIf, h]
      · intro h
        rw [hgc, gapText_cons_ws, hcn]
        simp only [breaks]
        rw [← hbr h, nl_append]
        simp [nlIf, h, nl]; omega
    · obtain ⟨w, hw, he, _, hbr⟩ := part1
      refine ⟨nlIf (gapText g ++ t) ++ w, (white_nlIf _).append hw, ?_, ?_, ?_⟩
      · rw [preSM_cons b k s _ hcrlf]
        simp only [hs, if_true]
        rw [he, List.append_assoc]
      · intro h; simp [nlIf, h]
      · intro h
        have hn' : ¬ (s = '\r' ∧ ∃ r', gapText g = '\n' :: r') := by
          intro ⟨h1, r', h2⟩; exact hcrlf ⟨h1, r' ++ t, by rw [h2]; rfl⟩
        rw [breaks_sep s _ hs hn', ← hbr h, nl_append]
        simp [nlIf, h, nl]; omega

theorem gap_pre (g : Gap) (t : Str) (ht : Tstart t) :
    ∃ w, White w ∧ preSM false false (gapText g ++ t) = w ++ preSM false false t ∧
      (g ≠ [] → t ≠ [] → w ≠ []) ∧ (t ≠ [] → nl w = breaks (gapText g)) :=
  (gap_core g.length g (Nat.le_refl _) t ht).1

end Pybtex.Bst
