/-
Helper lemmas for C04 (`Props/C04.lean`): the model of `Person._parse_string`
(`Model/Names.lean`) against the BibTeX rule (`Spec/Names.lean`).

Plan.  The rule is generalised over the lower-case test (`splitWith q`, with
`Spec.split = splitWith Spec.isLow` by `rfl`).  Two facts about the model are proved by
following its control flow:
* `parseName_error`: an error is `tooDeep`, raised by `isVonName` on a token whose case is examined;
* `parseName_ok`: a successful result equals `splitWith q` for every `q` that agrees with
  the successful answers of `isVonName` on the examined tokens (so for `q = isLow` when those
  tokens scan, and for `q = isVonB` — "`isVonName` says yes" — always).
The structural facts (tokens preserved, von longest, case rule) are proved once for
`splitWith q`, arbitrary `q`.

The character classes are the regenerated interpreter tables (`Gen/Unicode.lean`); the facts
about them that the proofs and a reader of the rule need (upper/lower disjoint, structural
characters in no class, ASCII coincidence) are kernel-evaluated checks over those tables.

Everything lives in `Pybtex.Names` (so that generic helper names cannot clash with other lemma
files) except the two lemmas other properties import: `Pybtex.parseName_error` and
`Pybtex.mkPerson_error`.
-/
import PybtexModel.Spec.Names
import PybtexModel.Spec.TeXString

namespace Pybtex
open Spec

namespace Names

/-! ### the rule, generalised over the lower-case test -/

def vonLastWith (q : Str → Bool) (ts : List Str) : List Str × List Str :=
  match lastIdx q ts.dropLast with
  | some i => (ts.take (i + 1), ts.drop (i + 1))
  | none => ([], ts)

def splitWith (q : Str → Bool) (name : Str) : Person × Bool :=
  let parts0 := splitTex .comma name
  let tooMany := decide (parts0.length > 3)
  match parts0 with
  | [] => ({}, tooMany)
  | [_] =>
    let ts := splitTex .space name
    match ts.findIdx? q with
    | none =>
      let first := ts.dropLast
      (({ first := first.take 1, middle := first.drop 1, last := ts.drop (ts.length - 1) } : Person), tooMany)
    | some i0 =>
      let first := ts.take i0
      let vl := vonLastWith q (ts.drop i0)
      (({ first := first.take 1, middle := first.drop 1, prelast := vl.1, last := vl.2 } : Person), tooMany)
  | [a, b] =>
    let vl := vonLastWith q (splitTex .space a)
    let first := splitTex .space b
    ({ first := first.take 1, middle := first.drop 1, prelast := vl.1, last := vl.2 }, tooMany)
  | a :: b :: rest =>
    let vl := vonLastWith q (splitTex .space a)
    let first := splitTex .space (joinWith [' '] rest)
    ({ first := first.take 1, middle := first.drop 1, prelast := vl.1, last := vl.2,
       lineage := splitTex .space b }, tooMany)

theorem vonLast_eq (ts : List Str) : Spec.vonLast ts = vonLastWith isLow ts := rfl

theorem split_eq (name : Str) : Spec.split name = splitWith isLow name := rfl

/-- decidable equality of results, for the concrete witnesses (`decide +kernel`) -/
instance decEqExcept {ε α : Type} [DecidableEq ε] [DecidableEq α] : DecidableEq (Except ε α)
  | .ok a, .ok b => if h : a = b then isTrue (by rw [h]) else isFalse (fun h' => by cases h'; exact h rfl)
  | .error a, .error b =>
    if h : a = b then isTrue (by rw [h]) else isFalse (fun h' => by cases h'; exact h rfl)
  | .ok _, .error _ => isFalse (fun h => by cases h)
  | .error _, .ok _ => isFalse (fun h => by cases h)

/-- "`is_von_name` answers yes" as a total test. -/
def isVonB (t : Str) : Bool :=
  match isVonName t with
  | .ok b => b
  | .error _ => false

/-! ### `find_pos` -/

theorem findPosM_error {ε α : Type} {p : α → Except ε Bool} {l : List α} {e : ε}
    (h : findPosM p l = .error e) : ∃ t ∈ l, p t = .error e := by
  induction l with
  | nil => simp [findPosM] at h
  | cons a r ih =>
    simp only [findPosM] at h
    split at h
    · rename_i e' he; cases h; exact ⟨a, by simp, he⟩
    · cases h
    · split at h
      · rename_i e' he; cases h
        obtain ⟨t, ht, hp⟩ := ih he
        exact ⟨t, by simp [ht], hp⟩
      · cases h

theorem findPosM_ok {ε α : Type} {p : α → Except ε Bool} {q : α → Bool} {l : List α} {n : Nat}
    (h : findPosM p l = .ok n) (hq : ∀ t ∈ l, ∀ b, p t = .ok b → b = q t) :
    n = l.findIdx q := by
  induction l generalizing n with
  | nil => simp [findPosM] at h; simp [h]
  | cons a r ih =>
    simp only [findPosM] at h
    rw [List.findIdx_cons]
    split at h
    · cases h
    · rename_i he
      have := hq a (by simp) _ he
      cases h; simp [← this]
    · rename_i he
      have := hq a (by simp) _ he
      split at h
      · cases h
      · rename_i m hm
        cases h
        have := ih hm (fun t ht => hq t (by simp [ht]))
        simp [← ‹false = q a›, this]

/-! ### facts about the regenerated character tables

Each fact is a decidable check over `Gen.alphaRanges` / `Gen.upperRanges` / `Gen.lowerRanges`
evaluated by the kernel, so a different interpreter table re-checks them. -/

/-- ranges are well-formed, strictly increasing and non-adjacent-overlapping -/
def sortedR : List (Nat × Nat) → Bool
  | [] => true
  | [(a, b)] => a ≤ b
  | (a, b) :: (c, d) :: r => a ≤ b && b < c && sortedR ((c, d) :: r)

/-- linear merge: the two sorted range lists have no common point -/
def disjR : List (Nat × Nat) → List (Nat × Nat) → Bool
  | [], _ => true
  | _ :: _, [] => true
  | (a, b) :: us, (c, d) :: ls =>
    if b < c then disjR us ((c, d) :: ls)
    else if d < a then disjR ((a, b) :: us) ls
    else false
termination_by us ls => us.length + ls.length

theorem sortedR_tail {x : Nat × Nat} {r : List (Nat × Nat)} (h : sortedR (x :: r) = true) :
    sortedR r = true := by
  obtain ⟨a, b⟩ := x
  cases r with
  | nil => rfl
  | cons y r =>
    obtain ⟨c, d⟩ := y
    simp only [sortedR, Bool.and_eq_true] at h
    exact h.2

theorem sortedR_lb {n c d : Nat} {r : List (Nat × Nat)} (hs : sortedR ((c, d) :: r) = true)
    (h : inRanges n ((c, d) :: r) = true) : c ≤ n := by
  induction r generalizing c d with
  | nil => simp [inRanges] at h; exact h.1
  | cons y r ih =>
    obtain ⟨e, f⟩ := y
    simp only [sortedR, Bool.and_eq_true, decide_eq_true_eq] at hs
    rw [inRanges, Bool.or_eq_true] at h
    rcases h with h | h
    · simp at h; exact h.1
    · have := ih hs.2 h
      omega

theorem disjR_sound {n : Nat} {us ls : List (Nat × Nat)} (hd : disjR us ls = true)
    (hu : sortedR us = true) (hl : sortedR ls = true) (h1 : inRanges n us = true) :
    inRanges n ls = false := by
  fun_induction disjR us ls with
  | case1 ls => simp [inRanges] at h1
  | case2 => rfl
  | case3 a b us c d ls hbc ih =>
    cases hn : inRanges n ((c, d) :: ls) with
    | false => rfl
    | true =>
      have hcn := sortedR_lb hl hn
      rw [inRanges, Bool.or_eq_true] at h1
      rcases h1 with h1 | h1
      · simp at h1; omega
      · rw [ih hd (sortedR_tail hu) hl h1] at hn; cases hn
  | case4 a b us c d ls hbc hda ih =>
    have han := sortedR_lb hu h1
    rw [inRanges, Bool.or_eq_false_iff]
    refine ⟨?_, ih hd hu (sortedR_tail hl) h1⟩
    simp; omega
  | case5 => cases hd

theorem tables_sorted : sortedR Gen.alphaRanges = true ∧ sortedR Gen.upperRanges = true ∧
    sortedR Gen.lowerRanges = true := by decide +kernel

theorem tables_upper_lower : disjR Gen.upperRanges Gen.lowerRanges = true := by decide +kernel

/-- membership with early exit (sound for sorted ranges): what the kernel evaluates in the
table facts below, so that code points in the low ranges cost a few steps only -/
def inRangesS (n : Nat) : List (Nat × Nat) → Bool
  | [] => false
  | (a, b) :: r => if n < a then false else (n ≤ b || inRangesS n r)

theorem inRangesS_eq {n : Nat} {rs : List (Nat × Nat)} (hs : sortedR rs = true) :
    inRanges n rs = inRangesS n rs := by
  induction rs with
  | nil => rfl
  | cons x r ih =>
    obtain ⟨a, b⟩ := x
    rw [inRanges, inRangesS, ih (sortedR_tail hs)]
    by_cases hna : n < a
    · rw [if_pos hna, ← ih (sortedR_tail hs)]
      cases r with
      | nil => simp [inRanges]; omega
      | cons y r' =>
        obtain ⟨c, d⟩ := y
        cases hin : inRanges n ((c, d) :: r') with
        | false => simp; omega
        | true =>
          have := sortedR_lb (sortedR_tail hs) hin
          simp only [sortedR, Bool.and_eq_true, decide_eq_true_eq] at hs
          omega
    · rw [if_neg hna]
      have : decide (a ≤ n) = true := by simp; omega
      rw [this, Bool.true_and]

/-- no character is both upper and lower case -/
theorem upper_lower_disjoint {c : Char} (h : isUpperN c = true) : isLowerN c = false :=
  disjR_sound tables_upper_lower tables_sorted.2.1 tables_sorted.2.2 h

/-- code points of the characters with a structural meaning in a name: Python white space (the
29 code points of `isWs`) and `{ } \ , ~ -` -/
def structuralCodes : List Nat := wsCodes ++ [123, 125, 92, 44, 126, 45]

theorem tables_structuralS : ∀ n ∈ structuralCodes,
    inRangesS n Gen.alphaRanges = false ∧ inRangesS n Gen.upperRanges = false ∧
    inRangesS n Gen.lowerRanges = false := by decide +kernel

theorem tables_structural : ∀ n ∈ structuralCodes,
    inRanges n Gen.alphaRanges = false ∧ inRanges n Gen.upperRanges = false ∧
    inRanges n Gen.lowerRanges = false := by
  intro n hn
  rw [inRangesS_eq tables_sorted.1, inRangesS_eq tables_sorted.2.1, inRangesS_eq tables_sorted.2.2]
  exact tables_structuralS n hn

/-- braces, backslash, comma, tie, hyphen and white space are neither letters nor cased -/
theorem structural_no_class {c : Char} (h : c.toNat ∈ structuralCodes) :
    isAlphaN c = false ∧ isUpperN c = false ∧ isLowerN c = false :=
  tables_structural _ h

theorem brace_no_class : (isAlphaN '{' = false ∧ isUpperN '{' = false ∧ isLowerN '{' = false) ∧
    (isAlphaN '}' = false ∧ isUpperN '}' = false ∧ isLowerN '}' = false) ∧
    (isAlphaN '\\' = false ∧ isUpperN '\\' = false ∧ isLowerN '\\' = false) :=
  ⟨structural_no_class (by decide), structural_no_class (by decide), structural_no_class (by decide)⟩

theorem ws_no_class {c : Char} (h : isWs c = true) :
    isAlphaN c = false ∧ isUpperN c = false ∧ isLowerN c = false := by
  apply structural_no_class
  have : c.toNat ∈ wsCodes := by simpa [isWs] using h
  exact List.mem_append_left _ this

theorem tables_asciiS : ∀ n < 128,
    inRangesS n Gen.alphaRanges = ((65 ≤ n && n ≤ 90) || (97 ≤ n && n ≤ 122)) ∧
    inRangesS n Gen.upperRanges = (65 ≤ n && n ≤ 90) ∧
    inRangesS n Gen.lowerRanges = (97 ≤ n && n ≤ 122) := by decide +kernel

theorem tables_ascii : ∀ n < 128,
    inRanges n Gen.alphaRanges = ((65 ≤ n && n ≤ 90) || (97 ≤ n && n ≤ 122)) ∧
    inRanges n Gen.upperRanges = (65 ≤ n && n ≤ 90) ∧
    inRanges n Gen.lowerRanges = (97 ≤ n && n ≤ 122) := by
  intro n hn
  rw [inRangesS_eq tables_sorted.1, inRangesS_eq tables_sorted.2.1, inRangesS_eq tables_sorted.2.2]
  exact tables_asciiS n hn

/-- below U+0080 the classes are the ASCII ones of `Model/Basic.lean` -/
theorem ascii_classes {c : Char} (h : c.toNat < 128) :
    isAlphaN c = isAlpha c ∧ isUpperN c = isUpperA c ∧ isLowerN c = isLowerA c :=
  tables_ascii _ h

theorem digit_no_class {c : Char} (h : isDigit c = true) :
    isAlphaN c = false ∧ isUpperN c = false ∧ isLowerN c = false := by
  simp only [isDigit, Bool.and_eq_true, decide_eq_true_eq] at h
  obtain ⟨ha, hu, hl⟩ := ascii_classes (c := c) (by omega)
  rw [ha, hu, hl]
  simp only [isAlpha, isUpperA, isLowerA]
  refine ⟨?_, ?_, ?_⟩ <;> simp <;> omega

/-! ### `is_von_name` against the case of a token -/

theorem specialCharIsLowerAux_false (r : Str) :
    specialCharIsLowerAux false r =
      match r.find? isAlphaN with
      | some c => isLowerN c
      | none => false := by
  induction r with
  | nil => simp [specialCharIsLowerAux]
  | cons c r ih =>
    simp only [specialCharIsLowerAux, List.find?_cons]
    cases h : isAlphaN c <;> simp [ih]

theorem specialCharIsLowerAux_true (r : Str) :
    specialCharIsLowerAux true r = specialCharIsLowerAux false ((r.dropWhile isAlphaN).drop 1) := by
  induction r with
  | nil => simp [specialCharIsLowerAux]
  | cons c r ih =>
    simp only [specialCharIsLowerAux, List.dropWhile_cons]
    cases h : isAlphaN c <;> simp [ih]

/-- a character is lower-case for the rule exactly when `islower` says so -/
theorem charCase_lower (c : Char) : decide (charCase c = .lower) = isLowerN c := by
  unfold charCase
  cases hu : isUpperN c with
  | true => simp [upper_lower_disjoint hu]
  | false => cases hl : isLowerN c <;> simp

theorem charCase_upper (c : Char) : decide (charCase c = .upper) = isUpperN c := by
  unfold charCase
  cases hu : isUpperN c with
  | true => simp
  | false => cases hl : isLowerN c <;> simp

/-- the model's two tuples are the rule's table of built-in foreign characters -/
theorem controlSeqs_eq :
    lowerControlSeqs = ["i", "j", "oe", "ae", "aa", "o", "l", "ss"].map String.toList ∧
    upperControlSeqs = ["OE", "AE", "AA", "O", "L"].map String.toList := by decide

theorem specialCharIsLower_eq (sc : Str) :
    specialCharIsLower sc = decide (specialCase sc = .lower) := by
  have key : ∀ o : Option Char,
      (match o with | some c => isLowerN c | none => false) =
      decide ((match o with
        | some c => charCase c
        | none => TokCase.caseless) = TokCase.lower) := by
    intro o
    cases o with
    | none => simp
    | some c => simp only [charCase_lower]
  unfold specialCharIsLower specialCase builtinCase
  simp only []
  rw [← controlSeqs_eq.1, ← controlSeqs_eq.2]
  generalize (sc.drop 1).takeWhile isAlphaN = name
  by_cases h1 : name ∈ lowerControlSeqs
  · have c1 : lowerControlSeqs.contains name = true := by simpa using h1
    rw [if_pos h1, c1]
    simp
  · have c1 : lowerControlSeqs.contains name = false := by simpa using h1
    by_cases h2 : name ∈ upperControlSeqs
    · have c2 : upperControlSeqs.contains name = true := by simpa using h2
      rw [if_neg h1, if_pos h2, c1, c2]
      simp
    · have c2 : upperControlSeqs.contains name = false := by simpa using h2
      rw [if_neg h1, if_neg h2, c1, c2]
      simp only [Bool.false_eq_true, if_false]
      rw [specialCharIsLowerAux_true, specialCharIsLowerAux_false]
      exact key _

theorem all_lower_not_all_upper {t : Str} (hne : t ≠ []) (h : t.all isLowerN = true) :
    t.all isUpperN = false := by
  cases t with
  | nil => exact absurd rfl hne
  | cons c r =>
    simp only [List.all_cons, Bool.and_eq_true] at h
    cases hu : isUpperN c with
    | false => simp [hu]
    | true => rw [upper_lower_disjoint hu] at h; cases h.1

theorem vonScanFrom_eq (b : Bool) (toks : List Tok) :
    vonScanFrom b toks = decide (tokCaseFrom b toks = .lower) := by
  induction toks generalizing b with
  | nil => simp [vonScanFrom, tokCaseFrom]
  | cons a r ih =>
    obtain ⟨t, l⟩ := a
    simp only [vonScanFrom, tokCaseFrom]
    split
    · rename_i hc
      cases hl : t.all isLowerN with
      | false => cases t.all isUpperN <;> simp
      | true => simp [all_lower_not_all_upper hc.2.1 hl]
    · split
      · exact specialCharIsLower_eq t
      · exact ih _

theorem vonScan_eq (toks : List Tok) : vonScan toks = decide (tokCaseOf toks = .lower) :=
  vonScanFrom_eq false toks

/-- the first token is a brace-level-0 letter: it decides -/
theorem tokCaseOf_cons_letter {c : Char} (toks : List Tok) (ha : isAlphaN c = true) :
    tokCaseOf (([c], 0) :: toks) =
      if isUpperN c then .upper else if isLowerN c then .lower else .caseless := by
  simp [tokCaseOf, tokCaseFrom, ha]

theorem scan_cons_plain (c : Char) (r : Str) (h1 : c ≠ '{') (h2 : c ≠ '}') :
    scan (c :: r) = (scan r).map (([c], 0) :: ·) := by
  simp [scan, scanM, h1, h2]

/-- a character in one of the three classes is not a brace -/
theorem classed_ne_brace {c : Char}
    (h : isAlphaN c = true ∨ isUpperN c = true ∨ isLowerN c = true) : c ≠ '{' ∧ c ≠ '}' := by
  have hb := brace_no_class
  constructor <;> rintro rfl
  · rcases h with h | h | h
    · rw [hb.1.1] at h; cases h
    · rw [hb.1.2.1] at h; cases h
    · rw [hb.1.2.2] at h; cases h
  · rcases h with h | h | h
    · rw [hb.2.1.1] at h; cases h
    · rw [hb.2.1.2.1] at h; cases h
    · rw [hb.2.1.2.2] at h; cases h

/-- a first character that is a letter or cased is the first brace-level-0 token of the scan -/
theorem scan_cons_classed {c : Char} (r : Str)
    (h : isAlphaN c = true ∨ isUpperN c = true ∨ isLowerN c = true) :
    scan (c :: r) = (scan r).map (([c], 0) :: ·) :=
  scan_cons_plain c r (classed_ne_brace h).1 (classed_ne_brace h).2

theorem isLow_upper_first {c : Char} {r : Str} (h : isUpperN c = true) : isLow (c :: r) = false := by
  simp [isLow, tokenCase, charCase, h]

/-- (the hypothesis `hs` is not needed any more: a cased first character decides before any scan) -/
theorem isLow_lower_first {c : Char} {r : Str} (hu : isUpperN c = false) (h : isLowerN c = true)
    (_hs : (scan (c :: r)).isSome) : isLow (c :: r) = true := by
  simp [isLow, tokenCase, charCase, hu, h]

theorem isLow_lower_first' {c : Char} {r : Str} (h : isLowerN c = true) : isLow (c :: r) = true := by
  have hu : isUpperN c = false := by
    cases hu : isUpperN c with
    | false => rfl
    | true => rw [upper_lower_disjoint hu] at h; cases h
  simp [isLow, tokenCase, charCase, hu, h]

theorem tokenCase_uncased_first {c : Char} {r : Str} (hu : isUpperN c = false)
    (hl : isLowerN c = false) :
    tokenCase (c :: r) = match scan (c :: r) with | some toks => tokCaseOf toks | none => .caseless := by
  simp only [tokenCase, List.head?_cons, Option.map_some, charCase, hu, hl, Bool.false_eq_true, if_false]
  cases scan (c :: r) <;> rfl

/-- The first-character clause adds nothing for letters: unless the token starts with a cased
character that is not a letter, the case of a token that scans is the one the scan finds (first
brace-level-0 letter or special character). -/
theorem tokenCase_eq_scan (tok : Str)
    (h : ∀ c r, tok = c :: r → (isUpperN c = true ∨ isLowerN c = true) → isAlphaN c = true)
    (toks : List Tok) (hs : scan tok = some toks) :
    tokenCase tok = tokCaseOf toks := by
  cases tok with
  | nil => simp [tokenCase, hs]
  | cons c r =>
    cases hu : isUpperN c with
    | true =>
      have ha := h c r rfl (Or.inl hu)
      rw [scan_cons_classed r (Or.inl ha)] at hs
      cases hr : scan r with
      | none => simp [hr] at hs
      | some toks' =>
        simp only [hr, Option.map_some, Option.some.injEq] at hs
        subst hs
        simp [tokenCase, charCase, hu, tokCaseOf_cons_letter _ ha]
    | false =>
      cases hl : isLowerN c with
      | false => rw [tokenCase_uncased_first hu hl, hs]
      | true =>
        have ha := h c r rfl (Or.inr hl)
        rw [scan_cons_classed r (Or.inl ha)] at hs
        cases hr : scan r with
        | none => simp [hr] at hs
        | some toks' =>
          simp only [hr, Option.map_some, Option.some.injEq] at hs
          subst hs
          simp [tokenCase, charCase, hu, hl, tokCaseOf_cons_letter _ ha]

/-- a token that does not scan (braces nested deeper than the limit) and does not start with a
cased character has no case -/
theorem tokenCase_overnested {tok : Str} (hs : scan tok = none)
    (h : ∀ c r, tok = c :: r → isUpperN c = false ∧ isLowerN c = false) :
    tokenCase tok = .caseless := by
  cases tok with
  | nil => simp [tokenCase, hs]
  | cons c r => rw [tokenCase_uncased_first (h c r rfl).1 (h c r rfl).2, hs]

/-- `is_von_name` is the rule's "the token is lower-case" on EVERY non-empty token -/
theorem isVonName_eq {t : Str} (hne : t ≠ []) : isVonName t = .ok (isLow t) := by
  unfold isVonName
  split
  · exact absurd rfl hne
  · rename_i c r
    split
    · rename_i hu; rw [isLow_upper_first hu]
    · rename_i hu
      have hu' : isUpperN c = false := by simpa using hu
      split
      · rename_i hl; rw [isLow_lower_first' hl]
      · rename_i hl
        have hl' : isLowerN c = false := by simpa using hl
        simp only [isLow, tokenCase_uncased_first hu' hl']
        split <;> simp_all [vonScan_eq]

/-- (the hypothesis `hk` is not needed any more; kept for the callers in C02) -/
theorem isVonName_ok {t : Str} {b : Bool} (h : isVonName t = .ok b) (_hk : caseKnown t = true) :
    b = isLow t := by
  cases t with
  | nil => simp [isVonName] at h
  | cons c r =>
    rw [isVonName_eq (by simp)] at h
    cases h; rfl

theorem isVonName_error {t : Str} {e : NameErr} (h : isVonName t = .error e) :
    t = [] ∧ e = .indexError := by
  cases t with
  | nil => simp [isVonName] at h; exact ⟨rfl, h.symm⟩
  | cons c r => rw [isVonName_eq (by simp)] at h; cases h

/-! ### tokens and comma parts -/

theorem splitTex_space_ne_nil {s t : Str} (h : t ∈ splitTex .space s) : t ≠ [] := by
  simp only [splitTex, if_true] at h
  simpa using (List.mem_filter.mp h).2

theorem reSplitAux_ne_nil (sep : Sep) (fuel : Nat) (prev : Option Char) (cur s : Str) :
    reSplitAux sep fuel prev cur s ≠ [] := by
  induction fuel generalizing prev cur s with
  | zero => simp [reSplitAux]
  | succ n ih =>
    cases s with
    | nil => simp [reSplitAux]
    | cons c r =>
      simp only [reSplitAux]
      split
      · exact ih _ _ _
      · simp

/-- one round of the main loop of `split_tex_string`: the text before the next brace -/
def splitStep (sep : Sep) (s : Str) (result : List Str) (wp : Option Str) : List Str × Option Str :=
  let head := s.takeWhile (· ≠ '{')
  if head ≠ [] then
    let pre := match wp with | none => [] | some w => w
    match reSplit sep head with
    | [] => (result, wp)
    | [p] => (result, some (pre ++ p))
    | p :: ps => (result ++ [pre ++ p] ++ ps.dropLast, ps.getLast?)
  else (result, wp)

theorem splitLoop_succ (sep : Sep) (fuel : Nat) (s : Str) (result : List Str) (wp : Option Str) :
    splitLoop sep (fuel + 1) s result wp =
      match s.dropWhile (· ≠ '{') with
      | [] =>
        match (splitStep sep s result wp).2 with
        | none => (splitStep sep s result wp).1
        | some w => (splitStep sep s result wp).1 ++ [w]
      | _ :: rest =>
        splitLoop sep fuel (findClosingBrace rest).2 (splitStep sep s result wp).1
          (some ((match (splitStep sep s result wp).2 with | none => [] | some w => w)
            ++ ['{'] ++ (findClosingBrace rest).1)) := by
  rfl

theorem splitStep_inv (sep : Sep) (s : Str) (result : List Str) (wp : Option Str)
    (h : wp.isSome ∨ result ≠ []) :
    (splitStep sep s result wp).2.isSome ∨ (splitStep sep s result wp).1 ≠ [] := by
  unfold splitStep
  simp only []
  split
  · split
    · exact h
    · simp
    · simp
  · exact h

theorem splitStep_inv_of_head (sep : Sep) (s : Str) (result : List Str) (wp : Option Str)
    (h : s.takeWhile (· ≠ '{') ≠ []) :
    (splitStep sep s result wp).2.isSome ∨ (splitStep sep s result wp).1 ≠ [] := by
  have hre : reSplit sep (s.takeWhile (· ≠ '{')) ≠ [] := reSplitAux_ne_nil _ _ _ _ _
  unfold splitStep
  simp only []
  rw [if_pos h]
  split
  · rename_i he; exact absurd he hre
  · simp
  · simp

theorem splitLoop_ne_nil (sep : Sep) (fuel : Nat) (s : Str) (result : List Str) (wp : Option Str)
    (h : wp.isSome ∨ result ≠ []) : splitLoop sep fuel s result wp ≠ [] := by
  induction fuel generalizing s result wp with
  | zero =>
    unfold splitLoop
    cases wp with
    | none => simpa using h
    | some w => simp
  | succ n ih =>
    rw [splitLoop_succ]
    have hinv := splitStep_inv sep s result wp h
    split
    · cases hw : (splitStep sep s result wp).2 with
      | none => simpa [hw] using hinv
      | some w => simp
    · exact ih _ _ _ (by simp)

theorem splitLoop_ne_nil_of_ne_nil (sep : Sep) (fuel : Nat) {s : Str} (h : s ≠ []) :
    splitLoop sep (fuel + 1) s [] none ≠ [] := by
  rw [splitLoop_succ]
  split
  · rename_i hd
    have hh : s.takeWhile (· ≠ '{') ≠ [] := by
      intro hh
      have := List.takeWhile_append_dropWhile (p := (· ≠ '{')) (l := s)
      rw [hh, hd] at this
      exact h this.symm
    have hinv := splitStep_inv_of_head sep s [] none hh
    cases hw : (splitStep sep s [] none).2 with
    | none => simpa [hw] using hinv
    | some w => simp
  · exact splitLoop_ne_nil _ _ _ _ _ (by simp)

theorem splitTex_comma_ne_nil {s : Str} (h : s ≠ []) : splitTex .comma s ≠ [] := by
  have key := splitLoop_ne_nil_of_ne_nil .comma s.length h
  simp only [splitTex]
  simpa using key

/-! ### `process_von_last` and the reversed-index arithmetic of `rsplit_at` -/

theorem take_dropLast {α} (ts : List α) (k : Nat) (hk : k ≤ ts.length - 1) :
    ts.dropLast.take k = ts.take k := by
  rw [List.dropLast_eq_take, List.take_take, Nat.min_eq_left hk]

theorem drop_dropLast_append {α} (ts : List α) (k : Nat) (hk : k ≤ ts.length - 1) :
    ts.dropLast.drop k ++ ts.drop (ts.length - 1) = ts.drop k := by
  conv => rhs; rw [← List.take_append_drop (ts.length - 1) ts]
  rw [List.drop_append_of_le_length (by simp; omega), List.dropLast_eq_take]

theorem vonLastWith_eq (q : Str → Bool) (ts : List Str) :
    vonLastWith q ts =
      (ts.dropLast.take (ts.dropLast.length - ts.dropLast.reverse.findIdx q),
       ts.dropLast.drop (ts.dropLast.length - ts.dropLast.reverse.findIdx q)
         ++ ts.drop (ts.length - 1)) := by
  unfold vonLastWith lastIdx
  cases h : ts.dropLast.reverse.findIdx? q with
  | none =>
    have h' := List.findIdx?_eq_none_iff_findIdx_eq.mp h
    rw [h']
    simp only [List.length_reverse, Nat.sub_self, List.take_zero]
    rw [drop_dropLast_append ts 0 (Nat.zero_le _)]
    simp
  | some i =>
    obtain ⟨hi, he⟩ := List.findIdx?_eq_some_iff_findIdx_eq.mp h
    rw [he]
    simp only [List.length_reverse, List.length_dropLast] at hi ⊢
    have hk : ts.length - 1 - 1 - i + 1 = ts.length - 1 - i := by omega
    rw [hk, take_dropLast ts _ (by omega), drop_dropLast_append ts _ (by omega)]

theorem processVonLast_error {p : Person} {ts : List Str} {e : NameErr}
    (h : processVonLast p ts = .error e) : ∃ t ∈ ts.dropLast, isVonName t = .error e := by
  unfold processVonLast at h
  simp only [] at h
  split at h
  · split at h
    · rename_i e' he
      cases h
      obtain ⟨t, ht, hp⟩ := findPosM_error he
      exact ⟨t, by simpa using ht, hp⟩
    · cases h
  · cases h

theorem processVonLast_ok {p p' : Person} {ts : List Str} {q : Str → Bool}
    (h : processVonLast p ts = .ok p')
    (hq : ∀ t ∈ ts.dropLast, ∀ b, isVonName t = .ok b → b = q t) :
    p' = { p with prelast := p.prelast ++ (vonLastWith q ts).1,
                  last := p.last ++ (vonLastWith q ts).2 } := by
  unfold processVonLast at h
  simp only [] at h
  rw [vonLastWith_eq]
  split at h
  · split at h
    · cases h
    · rename_i rpos hr
      cases h
      have := findPosM_ok hr (q := q) (fun t ht => hq t (by simpa using ht))
      simp [this]
  · rename_i hD
    have hD' : ts.dropLast = [] := by simpa using hD
    cases h
    simp [hD']

theorem processFirstMiddle_eq (p : Person) (fm : List Str) :
    processFirstMiddle p fm =
      { p with first := p.first ++ fm.take 1, middle := p.middle ++ fm.drop 1 } := by
  cases fm <;> simp [processFirstMiddle]

/-! ### `_parse_string` -/

theorem mem_of_mem_dropLast {α} {ts : List α} {t : α} (h : t ∈ ts.dropLast) : t ∈ ts :=
  List.dropLast_subset ts h

theorem mem_drop_sub_one {α} {ts : List α} {t : α} (h : t ∈ ts.drop (ts.length - 1)) : t ∈ ts :=
  List.mem_of_mem_drop h

end Names
open Names

/-- `_parse_string` on a non-empty string raises nothing (after the repair C04-1 `is_von_name`
answers on every non-empty token, and tokens are never empty). -/
theorem parseName_no_error {name : Str} {e : NameErr} (hne : name ≠ [])
    (h : parseName name = .error e) : False := by
  have hparts := splitTex_comma_ne_nil hne
  -- every examined token is a non-empty token
  have fin : ∀ t, t ∈ caseTokens name → (∃ s, t ∈ splitTex .space s) → isVonName t = .error e →
      False := by
    intro t _ ⟨s, hs⟩ he
    exact absurd (isVonName_error he).1 (splitTex_space_ne_nil hs)
  unfold parseName at h
  unfold caseTokens at fin
  generalize hp : splitTex .comma name = parts0 at h hparts fin
  match parts0, hparts with
  | [a], _ =>
    simp only [List.length_cons, List.length_nil, Nat.reduceAdd, Nat.reduceLT, gt_iff_lt,
      decide_false, Bool.false_eq_true, if_false] at h
    split at h
    · rename_i e' he
      cases h
      obtain ⟨t, ht, hp⟩ := findPosM_error he
      exact fin t ht ⟨_, ht⟩ hp
    · rename_i pos hpos
      split at h
      · rename_i e' he
        cases h
        obtain ⟨t, ht, hp⟩ := processVonLast_error he
        have hmem : t ∈ splitTex .space name := by
          have := mem_of_mem_dropLast ht
          split at this
          · exact List.mem_of_mem_take (mem_drop_sub_one this)
          · exact List.mem_of_mem_drop this
        exact fin t hmem ⟨_, hmem⟩ hp
      · cases h
  | [a, b], _ =>
    simp only [List.length_cons, List.length_nil, Nat.reduceAdd, Nat.reduceLT, gt_iff_lt,
      decide_false, Bool.false_eq_true, if_false] at h
    split at h
    · rename_i e' he
      cases h
      obtain ⟨t, ht, hp⟩ := processVonLast_error he
      exact fin t ht ⟨_, mem_of_mem_dropLast ht⟩ hp
    · cases h
  | [a, b, c], _ =>
    simp only [List.length_cons, List.length_nil, Nat.reduceAdd, Nat.lt_irrefl, gt_iff_lt,
      decide_false, Bool.false_eq_true, if_false] at h
    split at h
    · rename_i e' he
      cases h
      obtain ⟨t, ht, hp⟩ := processVonLast_error he
      exact fin t ht ⟨_, mem_of_mem_dropLast ht⟩ hp
    · cases h
  | a :: b :: c :: d :: rest, _ =>
    have hlen : (a :: b :: c :: d :: rest).length > 3 := by simp only [List.length_cons]; omega
    simp only [hlen, decide_true, if_true, List.take_succ_cons, List.take_zero,
      List.cons_append, List.nil_append] at h
    split at h
    · rename_i e' he
      cases h
      obtain ⟨t, ht, hp⟩ := processVonLast_error he
      exact fin t ht ⟨_, mem_of_mem_dropLast ht⟩ hp
    · cases h

/-- `_parse_string` succeeds on every non-empty string -/
theorem parseName_total {name : Str} (hne : name ≠ []) : ∃ r, parseName name = .ok r := by
  cases h : parseName name with
  | ok r => exact ⟨r, rfl⟩
  | error e => exact (parseName_no_error hne h).elim

/-- `Person(string, …)` raises nothing, for all six arguments. -/
theorem mkPerson_no_error {s f m p l j : Str} {e : NameErr}
    (h : mkPerson s f m p l j = .error e) : False := by
  unfold mkPerson at h
  simp only [] at h
  split at h
  · rename_i e' he
    split at he
    · rename_i hne; exact parseName_no_error hne he
    · cases he
  · cases h

theorem mkPerson_total (s f m p l j : Str) : ∃ r, mkPerson s f m p l j = .ok r := by
  cases h : mkPerson s f m p l j with
  | ok r => exact ⟨r, rfl⟩
  | error e => exact (mkPerson_no_error h).elim

/-- (statement from before the repair C04-1, when `too many nested braces` could be raised; its
hypothesis is now impossible — kept for the callers in C02 / C11) -/
theorem parseName_error {name : Str} {e : NameErr} (hne : name ≠ [])
    (h : parseName name = .error e) :
    e = .tooDeep ∧ ∃ t ∈ caseTokens name, scan t = none ∧ caseKnown t = false :=
  (parseName_no_error hne h).elim

/-- (statement from before the repair C04-1; its hypothesis is now impossible) -/
theorem mkPerson_error {s f m p l j : Str} {e : NameErr}
    (h : mkPerson s f m p l j = .error e) :
    e = .tooDeep ∧ strip s ≠ [] ∧ parseName (strip s) = .error .tooDeep :=
  (mkPerson_no_error h).elim

namespace Names

theorem vonLastWith_short (q : Str → Bool) (ts : List Str) (h : ts.length ≤ 1) :
    vonLastWith q ts = ([], ts) := by
  match ts, h with
  | [], _ => rfl
  | [a], _ => rfl

/-- the no-comma form, after `find_pos` has answered -/
theorem parseName_one_aux {q : Str → Bool} {toks : List Str} {p' : Person}
    (hq : ∀ t ∈ toks, ∀ b, isVonName t = .ok b → b = q t)
    (hp' : processVonLast
      (processFirstMiddle {}
        (if toks.drop (toks.findIdx q) = [] ∧ toks.take (toks.findIdx q) ≠ [] then
            ((toks.take (toks.findIdx q)).dropLast,
              (toks.take (toks.findIdx q)).drop ((toks.take (toks.findIdx q)).length - 1))
          else (toks.take (toks.findIdx q), toks.drop (toks.findIdx q))).fst)
      (if toks.drop (toks.findIdx q) = [] ∧ toks.take (toks.findIdx q) ≠ [] then
            ((toks.take (toks.findIdx q)).dropLast,
              (toks.take (toks.findIdx q)).drop ((toks.take (toks.findIdx q)).length - 1))
          else (toks.take (toks.findIdx q), toks.drop (toks.findIdx q))).snd = .ok p') :
    p' = match toks.findIdx? q with
      | none =>
        ({ first := toks.dropLast.take 1, middle := toks.dropLast.drop 1,
           last := toks.drop (toks.length - 1) } : Person)
      | some i0 =>
        ({ first := (toks.take i0).take 1, middle := (toks.take i0).drop 1,
           prelast := (vonLastWith q (toks.drop i0)).1,
           last := (vonLastWith q (toks.drop i0)).2 } : Person) := by
  cases hf : toks.findIdx? q with
  | none =>
    have hlen := List.findIdx?_eq_none_iff_findIdx_eq.mp hf
    rw [hlen] at hp'
    simp only [List.drop_length, List.take_length, true_and] at hp'
    by_cases hne : toks = []
    · subst hne
      simp [processVonLast, processFirstMiddle] at hp'
      simp [← hp']
    · rw [if_pos hne] at hp'
      have := processVonLast_ok (q := q) hp' (fun t ht => hq t (mem_drop_sub_one (mem_of_mem_dropLast ht)))
      rw [vonLastWith_short q _ (by simp; omega), processFirstMiddle_eq] at this
      simpa using this
  | some i0 =>
    obtain ⟨hi, he⟩ := List.findIdx?_eq_some_iff_findIdx_eq.mp hf
    rw [he] at hp'
    have hd : toks.drop i0 ≠ [] := by simp; omega
    rw [if_neg (fun h => hd h.1)] at hp'
    have := processVonLast_ok (q := q) hp' (fun t ht => hq t (List.mem_of_mem_drop (mem_of_mem_dropLast ht)))
    rw [processFirstMiddle_eq] at this
    simpa using this

theorem parseName_ok {name : Str} {r : Person × Bool} {q : Str → Bool}
    (h : parseName name = .ok r)
    (hq : ∀ t ∈ caseTokens name, ∀ b, isVonName t = .ok b → b = q t) :
    r = splitWith q name := by
  unfold parseName at h
  unfold caseTokens at hq
  unfold splitWith
  generalize hp : splitTex .comma name = parts0 at h hq
  match parts0 with
  | [] => simp at h
  | [a] =>
    simp only [List.length_cons, List.length_nil, Nat.reduceAdd, Nat.reduceLT, gt_iff_lt,
      decide_false, Bool.false_eq_true, if_false] at h ⊢
    split at h
    · cases h
    · rename_i pos hpos
      have hpos' := findPosM_ok hpos hq
      subst hpos'
      split at h
      · cases h
      · rename_i p' hp'
        cases h
        have hq' : ∀ t ∈ splitTex .space name, ∀ b, isVonName t = .ok b → b = q t := hq
        rw [parseName_one_aux hq' hp']
        cases List.findIdx? q (splitTex .space name) <;> rfl
  | [a, b] =>
    simp only [List.length_cons, List.length_nil, Nat.reduceAdd, Nat.reduceLT, gt_iff_lt,
      decide_false, Bool.false_eq_true, if_false] at h ⊢
    split at h
    · cases h
    · rename_i p' hp'
      cases h
      rw [processVonLast_ok hp' hq, processFirstMiddle_eq]
      simp
  | [a, b, c] =>
    simp only [List.length_cons, List.length_nil, Nat.reduceAdd, Nat.lt_irrefl, gt_iff_lt,
      decide_false, Bool.false_eq_true, if_false] at h ⊢
    split at h
    · cases h
    · rename_i p' hp'
      cases h
      rw [processVonLast_ok hp' hq, processFirstMiddle_eq]
      simp [joinWith]
  | a :: b :: c :: d :: rest =>
    have hlen : (a :: b :: c :: d :: rest).length > 3 := by simp only [List.length_cons]; omega
    simp only [hlen, decide_true, if_true, List.take_succ_cons, List.take_zero,
      List.cons_append, List.nil_append] at h ⊢
    split at h
    · cases h
    · rename_i p' hp'
      cases h
      rw [processVonLast_ok hp' hq, processFirstMiddle_eq]
      simp

/-! ### structure of the rule, for an arbitrary lower-case test -/

theorem findIdx?_some_split {α} {p : α → Bool} {l : List α} {i : Nat} (h : l.findIdx? p = some i) :
    ∃ pre x post, l = pre ++ x :: post ∧ pre.length = i ∧ p x = true ∧ ∀ a ∈ pre, p a = false := by
  induction l generalizing i with
  | nil => simp at h
  | cons a r ih =>
    rw [List.findIdx?_cons] at h
    split at h
    · rename_i ha
      cases h
      exact ⟨[], a, r, rfl, rfl, ha, by simp⟩
    · rename_i ha
      cases hr : r.findIdx? p with
      | none => simp [hr] at h
      | some j =>
        simp only [hr, Option.map_some, Option.some.injEq] at h
        obtain ⟨pre, x, post, h1, h2, h3, h4⟩ := ih hr
        refine ⟨a :: pre, x, post, by simp [h1], by simp [h2, h], h3, ?_⟩
        intro b hb
        rcases List.mem_cons.mp hb with rfl | hb
        · simpa using ha
        · exact h4 b hb

/-- what "von Last" does: either no token before the final one is lower-case and everything is
Last, or the token list is `von ++ [x] ++ rest ++ [l]` with `x` the last lower-case token
before the final token `l`. -/
theorem vonLastWith_spec (q : Str → Bool) (ts : List Str) :
    ((∀ t ∈ ts.dropLast, q t = false) ∧ vonLastWith q ts = ([], ts)) ∨
    ∃ von x rest l, ts = von ++ x :: rest ++ [l] ∧ q x = true ∧ (∀ t ∈ rest, q t = false) ∧
      vonLastWith q ts = (von ++ [x], rest ++ [l]) := by
  unfold vonLastWith lastIdx
  cases h : ts.dropLast.reverse.findIdx? q with
  | none =>
    left
    refine ⟨?_, rfl⟩
    intro t ht
    exact List.findIdx?_eq_none_iff.mp h t (by simpa using ht)
  | some i =>
    right
    obtain ⟨pre, x, post, h1, h2, h3, h4⟩ := findIdx?_some_split h
    have hD : ts.dropLast = post.reverse ++ x :: pre.reverse := by
      have := congrArg List.reverse h1
      simpa using this
    have hne : ts ≠ [] := by
      intro h0; subst h0; simp at hD
    have hts : ts = (post.reverse ++ [x]) ++ (pre.reverse ++ [ts.getLast hne]) := by
      conv => lhs; rw [← List.dropLast_concat_getLast hne, hD]
      simp
    refine ⟨post.reverse, x, pre.reverse, ts.getLast hne, by simpa using hts, h3,
      fun t ht => h4 t (by simpa using ht), ?_⟩
    have hk : ts.dropLast.length - 1 - i + 1 = (post.reverse ++ [x]).length := by
      rw [hD]; simp; omega
    simp only [hk]
    conv => lhs; rw [hts]
    rw [List.take_left', List.drop_left'] <;> rfl

theorem vonLastWith_append (q : Str → Bool) (ts : List Str) :
    (vonLastWith q ts).1 ++ (vonLastWith q ts).2 = ts := by
  unfold vonLastWith
  split <;> simp

theorem take_one_append_drop_one {α} (l : List α) : l.take 1 ++ l.drop 1 = l := List.take_append_drop 1 l

theorem take_one_append_tail {α} (l : List α) : l.take 1 ++ l.tail = l := by
  cases l <;> simp

theorem dropLast_append_drop_sub_one {α} (l : List α) : l.dropLast ++ l.drop (l.length - 1) = l := by
  rw [List.dropLast_eq_take]; exact List.take_append_drop _ _

/-- nothing lost, duplicated or reordered (for an arbitrary lower-case test) -/
theorem splitWith_tokens (q : Str → Bool) (name : Str) :
    match splitTex .comma name with
    | [] => (splitWith q name).1 = {}
    | [_] =>
      (splitWith q name).1.first ++ (splitWith q name).1.middle ++ (splitWith q name).1.prelast
        ++ (splitWith q name).1.last = splitTex .space name ∧ (splitWith q name).1.lineage = []
    | [a, c] =>
      (splitWith q name).1.prelast ++ (splitWith q name).1.last = splitTex .space a ∧
      (splitWith q name).1.lineage = [] ∧
      (splitWith q name).1.first ++ (splitWith q name).1.middle = splitTex .space c
    | a :: j :: rest =>
      (splitWith q name).1.prelast ++ (splitWith q name).1.last = splitTex .space a ∧
      (splitWith q name).1.lineage = splitTex .space j ∧
      (splitWith q name).1.first ++ (splitWith q name).1.middle
        = splitTex .space (joinWith [' '] rest) := by
  unfold splitWith
  generalize splitTex .comma name = parts0
  match parts0 with
  | [] => simp
  | [a] =>
    simp only []
    cases hf : (splitTex .space name).findIdx? q with
    | none =>
      simp only [List.append_nil, and_true]
      rw [take_one_append_drop_one, dropLast_append_drop_sub_one]
    | some i0 =>
      simp only [and_true]
      rw [take_one_append_drop_one, List.append_assoc, vonLastWith_append, List.take_append_drop]
  | [a, b] => simp [vonLastWith_append, take_one_append_tail]
  | a :: b :: c :: rest => simp [vonLastWith_append, take_one_append_tail]

theorem splitWith_first (q : Str → Bool) (name : Str) :
    (splitWith q name).1.first
      = ((splitWith q name).1.first ++ (splitWith q name).1.middle).take 1 := by
  unfold splitWith
  generalize splitTex .comma name = parts0
  match parts0 with
  | [] => simp
  | [a] =>
    simp only []
    cases hf : (splitTex .space name).findIdx? q <;> simp [take_one_append_tail]
  | [a, b] => simp [take_one_append_tail]
  | a :: b :: c :: rest => simp [take_one_append_tail]

theorem splitWith_tooMany (q : Str → Bool) (name : Str) :
    (splitWith q name).2 = decide ((splitTex .comma name).length > 3) := by
  unfold splitWith
  generalize splitTex .comma name = parts0
  match parts0 with
  | [] => simp
  | [a] =>
    simp only []
    cases hf : (splitTex .space name).findIdx? q <;> simp
  | [a, b] => simp
  | a :: b :: c :: rest => simp

/-- the von/Last boundary is where "von Last" puts it, in all three forms -/
theorem splitWith_vonLast (q : Str → Bool) (name : Str) :
    ((splitWith q name).1.prelast, (splitWith q name).1.last)
      = vonLastWith q ((splitWith q name).1.prelast ++ (splitWith q name).1.last) := by
  unfold splitWith
  generalize splitTex .comma name = parts0
  match parts0 with
  | [] => simp [vonLastWith, lastIdx]
  | [a] =>
    simp only []
    cases hf : (splitTex .space name).findIdx? q with
    | none =>
      simp only [List.nil_append]
      rw [vonLastWith_short]
      simp; omega
    | some i0 => simp only [vonLastWith_append]
  | [a, b] => simp only [vonLastWith_append]
  | a :: b :: c :: rest => simp only [vonLastWith_append]

/-- consequences of `vonLastWith_spec` in the shape used by the property theorems -/
theorem vonLastWith_props (q : Str → Bool) (ts : List Str) :
    (∀ t ∈ (vonLastWith q ts).2.dropLast, q t = false) ∧
    ((vonLastWith q ts).1 ≠ [] → ∃ t, (vonLastWith q ts).1.getLast? = some t ∧ q t = true) ∧
    (ts ≠ [] → (vonLastWith q ts).2 ≠ []) ∧
    ((∃ t ∈ ts.dropLast, q t = true) → (vonLastWith q ts).1 ≠ []) ∧
    ((vonLastWith q ts).1 ≠ [] → (vonLastWith q ts).1.head? = ts.head?) := by
  rcases vonLastWith_spec q ts with ⟨h1, h2⟩ | ⟨von, x, rest, l, h1, h2, h3, h4⟩
  · rw [h2]
    refine ⟨h1, by simp, by simp, ?_, by simp⟩
    rintro ⟨t, ht, hq⟩
    rw [h1 t ht] at hq; cases hq
  · rw [h4]
    refine ⟨by simpa using h3, fun _ => ⟨x, by simp, h2⟩, by simp, by simp, ?_⟩
    intro _
    rw [h1]
    cases von <;> simp

/-- no-comma form: nothing lower-case in First; von starts with the first lower-case token -/
theorem splitWith_one (q : Str → Bool) (name : Str) (a : Str) (hp : splitTex .comma name = [a]) :
    (∀ t ∈ (splitWith q name).1.first ++ (splitWith q name).1.middle, q t = false) ∧
    ((splitWith q name).1.prelast ≠ [] →
      ∃ t, (splitWith q name).1.prelast.head? = some t ∧ q t = true) ∧
    ((∃ t ∈ (splitTex .space name).dropLast, q t = true) → (splitWith q name).1.prelast ≠ []) := by
  unfold splitWith
  rw [hp]
  simp only []
  generalize splitTex .space name = ts
  cases hf : ts.findIdx? q with
  | none =>
    have hall := List.findIdx?_eq_none_iff.mp hf
    simp only [take_one_append_drop_one, ne_eq, not_true_eq_false, false_implies, true_and]
    refine ⟨fun t ht => hall t (mem_of_mem_dropLast ht), ?_⟩
    rintro ⟨t, ht, hq⟩
    rw [hall t (mem_of_mem_dropLast ht)] at hq; cases hq
  | some i0 =>
    obtain ⟨pre, x, post, h1, h2, h3, h4⟩ := findIdx?_some_split hf
    subst h2
    have htake : ts.take pre.length = pre := by rw [h1]; simp
    have hdrop : ts.drop pre.length = x :: post := by rw [h1]; simp
    simp only [take_one_append_drop_one, htake, hdrop]
    have hv := vonLastWith_props q (x :: post)
    refine ⟨h4, ?_, ?_⟩
    · intro hne
      refine ⟨x, ?_, h3⟩
      rw [hv.2.2.2.2 hne]; rfl
    · rintro ⟨t, ht, hq⟩
      apply hv.2.2.2.1
      cases post with
      | nil =>
        rw [h1] at ht
        simp at ht
        rw [h4 t ht] at hq; cases hq
      | cons y post' => exact ⟨x, by simp, h3⟩

/-- (the hypothesis `hk` is not needed any more: `isVonName_eq`) -/
theorem isVonName_eq_isLow {t : Str} (hne : t ≠ []) (_hk : caseKnown t = true) :
    isVonName t = .ok (isLow t) := isVonName_eq hne

theorem caseTokens_ne_nil {name t : Str} (h : t ∈ caseTokens name) : t ≠ [] := by
  unfold caseTokens at h
  split at h
  · simp at h
  · exact splitTex_space_ne_nil h
  · exact splitTex_space_ne_nil (mem_of_mem_dropLast h)

/-- `_parse_string` IS the rule, on every non-empty string -/
theorem parseName_eq_split {name : Str} (hne : name ≠ []) : parseName name = .ok (Spec.split name) := by
  obtain ⟨r, hr⟩ := parseName_total hne
  rw [hr, split_eq, parseName_ok hr (fun t ht b hb => by
    rw [isVonName_eq (caseTokens_ne_nil ht)] at hb; cases hb; rfl)]

theorem takeWhile_append_stop {p : Char → Bool} {cs rest : Str} (hcs : cs.all p = true)
    (hrest : ∀ c r, rest = c :: r → p c = false) : (cs ++ rest).takeWhile p = cs := by
  induction cs with
  | nil =>
    cases rest with
    | nil => rfl
    | cons c r => simp [hrest c r rfl]
  | cons a cs ih =>
    simp only [List.all_cons, Bool.and_eq_true] at hcs
    simp only [List.cons_append, List.takeWhile_cons, hcs.1, if_true, ih hcs.2]

/-- a successful parse is the rule's split (any string) -/
theorem parseName_ok_isLow {name : Str} {r : Person × Bool} (h : parseName name = .ok r) :
    r = splitWith isLow name :=
  parseName_ok h (fun t ht b hb => by
    rw [isVonName_eq (caseTokens_ne_nil ht)] at hb; cases hb; rfl)

theorem caseKnown_of_scan {t : Str} (h : (scan t).isSome = true) : caseKnown t = true := by
  simp [caseKnown, h]

/-! ### brace balance of stripped / joined pieces (for `C04_groups_never_split`) -/

theorem ws_ne_brace {c : Char} (h : isWs c = true) : c ≠ '{' ∧ c ≠ '}' := by
  constructor <;> rintro rfl <;> revert h <;> decide

theorem depthAfter_app (a b : Str) : ∀ d, depthAfter d (a ++ b) = (depthAfter d a).bind fun d' => depthAfter d' b := by
  induction a with
  | nil => intro d; simp [depthAfter]
  | cons c r ih =>
    intro d
    simp only [List.cons_append, depthAfter]
    split
    · exact ih _
    · split
      · split
        · rfl
        · exact ih _
      · exact ih _

theorem depthAfter_ws (w : Str) (hw : ∀ c ∈ w, isWs c = true) : ∀ d, depthAfter d w = some d := by
  induction w with
  | nil => intro d; rfl
  | cons c r ih =>
    intro d
    have hc := ws_ne_brace (hw c (by simp))
    simp only [depthAfter, if_neg hc.1, if_neg hc.2]
    exact ih (fun x hx => hw x (by simp [hx])) d

theorem depthAfter_ws_append (w a : Str) (hw : ∀ c ∈ w, isWs c = true) (d : Nat) :
    depthAfter d (w ++ a) = depthAfter d a := by
  rw [depthAfter_app, depthAfter_ws w hw]; rfl

theorem depthAfter_append_ws (a w : Str) (hw : ∀ c ∈ w, isWs c = true) (d : Nat) :
    depthAfter d (a ++ w) = depthAfter d a := by
  rw [depthAfter_app]
  cases h : depthAfter d a with
  | none => rfl
  | some e => simp [depthAfter_ws w hw]

theorem of_mem_takeWhile {p : Char → Bool} {l : Str} {c : Char} (h : c ∈ l.takeWhile p) : p c = true := by
  induction l with
  | nil => simp at h
  | cons a r ih =>
    rw [List.takeWhile_cons] at h
    split at h
    · rcases List.mem_cons.mp h with rfl | h
      · assumption
      · exact ih h
    · simp at h

theorem depthAfter_lstrip (s : Str) (d : Nat) : depthAfter d (lstrip s) = depthAfter d s := by
  have h := List.takeWhile_append_dropWhile (p := isWs) (l := s)
  have key := depthAfter_ws_append (s.takeWhile isWs) (s.dropWhile isWs) (fun c hc => of_mem_takeWhile hc) d
  rw [h] at key
  exact key.symm

theorem depthAfter_rstrip (s : Str) (d : Nat) : depthAfter d (rstrip s) = depthAfter d s := by
  have h := List.takeWhile_append_dropWhile (p := isWs) (l := s.reverse)
  have h' : (s.reverse.dropWhile isWs).reverse ++ (s.reverse.takeWhile isWs).reverse = s := by
    have := congrArg List.reverse h
    rw [List.reverse_append, List.reverse_reverse] at this
    exact this
  have key := depthAfter_append_ws (s.reverse.dropWhile isWs).reverse (s.reverse.takeWhile isWs).reverse
    (fun c hc => of_mem_takeWhile (List.mem_reverse.mp hc)) d
  rw [h'] at key
  exact key.symm

theorem balanced_strip (s : Str) : balanced (strip s) = balanced s := by
  simp only [balanced, strip, depthAfter_rstrip, depthAfter_lstrip]

theorem balanced_append {a b : Str} (ha : balanced a = true) (hb : balanced b = true) :
    balanced (a ++ b) = true := by
  simp only [balanced, decide_eq_true_eq] at ha hb ⊢
  rw [depthAfter_app, ha]; exact hb

theorem balanced_joinWith_blank (l : List Str) (h : ∀ x ∈ l, balanced x = true) :
    balanced (joinWith [' '] l) = true := by
  induction l with
  | nil => decide
  | cons x r ih =>
    cases r with
    | nil => simpa [joinWith] using h x (by simp)
    | cons y r' =>
      simp only [joinWith]
      exact balanced_append (balanced_append (h x (by simp)) (by decide))
        (ih (fun z hz => h z (by simp [hz])))

/-- pieces of `split_tex_string` (stripped, possibly filtered) are balanced when the raw pieces are -/
theorem splitTex_balanced_of_raw {sep : Sep} {s : Str}
    (hraw : ∀ q ∈ splitTexRaw sep s, balanced q = true) : ∀ t ∈ splitTex sep s, balanced t = true := by
  intro t ht
  simp only [splitTex] at ht
  have hm : t ∈ (splitTexRaw sep s).map strip := by
    split at ht
    · exact (List.mem_filter.1 ht).1
    · exact ht
  obtain ⟨q, hq, rfl⟩ := List.mem_map.1 hm
  rw [balanced_strip]; exact hraw q hq

/-! ### witnesses used by the non-vacuity examples -/

/-- "Charles Louis Xavier Joseph de la Vall{\'e}e Poussin" -/
def nameVP : Str := "Charles Louis Xavier Joseph de la Vall{\\'e}e Poussin".toList
/-- "von Beethoven, Jr, Ludwig" -/
def nameVB : Str := "von Beethoven, Jr, Ludwig".toList
/-- `a{{…{}…}} B` with 101 nested braces: the first token starts with a lower-case letter and
does not scan within the nesting limit. -/
def tokDeepLower : Str := 'a' :: (List.replicate 101 '{' ++ List.replicate 101 '}')
def nameDeepLower : Str := tokDeepLower ++ " B".toList
/-- `{{…{}…}} B` with 101 nested braces: the first token has to be scanned and is too deep. -/
def nameDeep : Str := List.replicate 101 '{' ++ List.replicate 101 '}' ++ " B".toList

/-! names with non-ASCII characters -/

/-- "毛 泽东": CJK letters have no case -/
def nameMao : Str := "毛 泽东".toList
/-- "דוד בן גוריון" (David Ben Gurion; written with escapes to keep the source left-to-right):
Hebrew letters have no case -/
def nameBenGurion : Str :=
  "\u05d3\u05d5\u05d3 \u05d1\u05df \u05d2\u05d5\u05e8\u05d9\u05d5\u05df".toList
/-- "Édouard van Beneden": a non-ASCII capital -/
def nameBeneden : Str := "Édouard van Beneden".toList
/-- "ʻAkahi Kealoha, Leilani": the ʻokina U+02BB is a letter without case, the scan goes on
to the capital A -/
def nameAkahi : Str := "ʻAkahi Kealoha, Leilani".toList
/-- "Ⓐb ⓐb 1ⓐX Z": Ⓐ U+24B6 / ⓐ U+24D0 are cased but not letters — they decide the case as
first character only -/
def nameCircled : Str := "Ⓐb ⓐb 1ⓐX Z".toList
/-- "Жан ван Ωmega ǅx Last": Cyrillic / Greek cased letters; the titlecase letter ǅ U+01C5 is a
letter that is neither upper nor lower case -/
def nameMixed : Str := "Жан ван ωmega ǅx Ωmega".toList

end Names

end Pybtex
