/-
C02 helper lemmas, part 5: the YAML conversion logic — `Parser.process_entry ∘ Writer._to_dict` is
the identity on the domain `WFDbTree true`.
-/
import PybtexModel.Lemmas.BibWriteNames
import PybtexModel.Lemmas.BibProcess
import PybtexModel.Lemmas.BibWriteCase

namespace Pybtex.C02.Yaml
open Pybtex Pybtex.Bib Pybtex.BibWrite Pybtex.BibSpec Pybtex.C02 Pybtex.BibRT

/-! ### keyword arguments of `Person(**names)` -/

def distinctKeys : List (Str × Str) → Prop
  | [] => True
  | x :: r => (∀ y ∈ r, y.1 ≠ x.1) ∧ distinctKeys r

theorem odGet_none {L : List (Str × Str)} {k : Str} (h : ∀ y ∈ L, y.1 ≠ k) : odGet L k = none := by
  induction L with
  | nil => rfl
  | cons x r ih =>
    obtain ⟨a, b⟩ := x
    simp only [odGet, if_neg (h (a, b) (by simp))]
    exact ih (fun y hy => h y (by simp [hy]))

theorem odGet_filter : ∀ (L : List (Str × Str)) (k : Str), distinctKeys L →
    (odGet (L.filter (·.2 ≠ [])) k).getD [] = (odGet L k).getD [] := by
  intro L
  induction L with
  | nil => intro _ _; rfl
  | cons x r ih =>
    intro k hd
    obtain ⟨a, b⟩ := x
    obtain ⟨h1, h2⟩ := hd
    by_cases hb : b = []
    · subst hb
      simp only [List.filter, ne_eq, not_true_eq_false, decide_false, odGet]
      rw [ih k h2]
      by_cases hk : a = k
      · subst hk
        rw [if_pos rfl, odGet_none h1]; rfl
      · rw [if_neg hk]
    · simp only [List.filter, ne_eq, hb, not_false_eq_true, decide_true, odGet]
      by_cases hk : a = k
      · simp [hk]
      · simp only [if_neg hk]; exact ih k h2

def fullParts (p : Person) : List (Str × Str) :=
  [("first".toList, partText p.first), ("middle".toList, partText p.middle),
   ("prelast".toList, partText p.prelast), ("last".toList, partText p.last),
   ("lineage".toList, partText p.lineage)]

theorem personParts_eq (p : Person) : personParts p = (fullParts p).filter (·.2 ≠ []) := rfl

theorem fullParts_distinct (p : Person) : distinctKeys (fullParts p) := by
  unfold fullParts
  refine ⟨?_, ?_, ?_, ?_, ?_, trivial⟩
  · intro y hy
    simp only [List.mem_cons, List.mem_nil_iff, or_false] at hy
    rcases hy with rfl | rfl | rfl | rfl <;> (simp only []; decide)
  · intro y hy
    simp only [List.mem_cons, List.mem_nil_iff, or_false] at hy
    rcases hy with rfl | rfl | rfl <;> (simp only []; decide)
  · intro y hy
    simp only [List.mem_cons, List.mem_nil_iff, or_false] at hy
    rcases hy with rfl | rfl <;> (simp only []; decide)
  · intro y hy
    simp only [List.mem_cons, List.mem_nil_iff, or_false] at hy
    rcases hy with rfl <;> (simp only []; decide)
  · intro y hy; simp at hy

theorem kwArg_parts (p : Person) :
    kwArg (personParts p) "string" = [] ∧ kwArg (personParts p) "first" = partText p.first ∧
    kwArg (personParts p) "middle" = partText p.middle ∧ kwArg (personParts p) "prelast" = partText p.prelast ∧
    kwArg (personParts p) "last" = partText p.last ∧ kwArg (personParts p) "lineage" = partText p.lineage := by
  simp only [kwArg, personParts_eq, odGet_filter _ _ (fullParts_distinct p)]
  unfold fullParts
  generalize partText p.first = a
  generalize partText p.middle = b
  generalize partText p.prelast = c
  generalize partText p.last = d
  generalize partText p.lineage = e
  refine ⟨?_, ?_, ?_, ?_, ?_, ?_⟩ <;> simp [odGet]

theorem parts_keys (p : Person) : (personParts p).any (fun x => !personKeys.contains x.1) = false := by
  rw [List.any_eq_false]
  intro x hx
  rw [personParts_eq] at hx
  have hx' := (List.mem_filter.1 hx).1
  simp only [fullParts, List.mem_cons, List.mem_nil_iff, or_false] at hx'
  rcases hx' with rfl | rfl | rfl | rfl | rfl <;> (simp only []; decide)

theorem personOfKw_parts {p : Person} (hg : ∀ t ∈ personTokens p, TokGood t) :
    personOfKw (personParts p) = .ok (p, false) := by
  obtain ⟨h0, h1, h2, h3, h4, h5⟩ := kwArg_parts p
  unfold personOfKw
  rw [parts_keys p, h0, h1, h2, h3, h4, h5, mkPerson_parts hg]
  rfl

/-! ### ordered dictionaries -/

theorem odSet_fresh {V : Type} : ∀ (d : List (Str × V)) (k : Str) (v : V), (∀ y ∈ d, y.1 ≠ k) →
    odSet d k v = d ++ [(k, v)] := by
  intro d
  induction d with
  | nil => intro _ _ _; rfl
  | cons x r ih =>
    intro k v h
    obtain ⟨a, b⟩ := x
    simp only [odSet, if_neg (h (a, b) (by simp)), List.cons_append]
    rw [ih k v (fun y hy => h y (by simp [hy]))]

theorem ciSet_fresh {V : Type} : ∀ (d : List (Str × V)) (k : Str) (v : V), (∀ y ∈ d, lowerU y.1 ≠ lowerU k) →
    ciSet d k v = d ++ [(k, v)] := by
  intro d
  induction d with
  | nil => intro _ _ _; rfl
  | cons x r ih =>
    intro k v h
    obtain ⟨a, b⟩ := x
    simp only [ciSet, if_neg (h (a, b) (by simp)), List.cons_append]
    rw [ih k v (fun y hy => h y (by simp [hy]))]

/-! ### persons of a role -/

theorem kwOfNodeY_parts (L : List (Str × Str)) :
    kwOfNodeY (L.map fun x => (x.1, YNode.str x.2)) = .ok L := by
  induction L with
  | nil => rfl
  | cons x r ih =>
    obtain ⟨a, b⟩ := x
    simp only [List.map_cons, kwOfNodeY, ih]

theorem addPersonsY_acc (role : Str) : ∀ (ps : List Person) (e : Entry) (bad : List Str)
    (ps0 : List (Str × List Person)) (acc : List Person),
    (∀ p ∈ ps, WFPerson p = true) → e.persons = ps0 ++ [(role, acc)] → (∀ r ∈ ps0, lower r.1 ≠ lower role) →
    addPersonsY role (ps.map personNodeY) e bad = .ok ({ e with persons := ps0 ++ [(role, acc ++ ps)] }, bad) := by
  intro ps
  induction ps with
  | nil =>
    intro e bad ps0 acc _ he _
    simp only [List.map_nil, addPersonsY, List.append_nil, ← he]
  | cons p ps ih =>
    intro e bad ps0 acc hw he hfresh
    have hp : personOfKw (personParts p) = .ok (p, false) :=
      personOfKw_parts (personGood_of_wf (hw p (by simp))).toks
    simp only [List.map_cons, personNodeY, addPersonsY, kwOfNodeY_parts, hp, Bool.false_eq_true, if_false]
    rw [he, addPerson_last ps0 role acc p hfresh]
    have := ih { e with persons := ps0 ++ [(role, acc ++ [p])] } bad ps0 (acc ++ [p])
      (fun q hq => hw q (by simp [hq])) rfl hfresh
    rw [this]
    simp

theorem addPersonsY_fresh (role : Str) (ps : List Person) (e : Entry) (bad : List Str) (hne : ps ≠ [])
    (hw : ∀ p ∈ ps, WFPerson p = true) (hfresh : ∀ r ∈ e.persons, lower r.1 ≠ lower role) :
    addPersonsY role (ps.map personNodeY) e bad = .ok ({ e with persons := e.persons ++ [(role, ps)] }, bad) := by
  cases ps with
  | nil => exact absurd rfl hne
  | cons p ps =>
    have hp : personOfKw (personParts p) = .ok (p, false) :=
      personOfKw_parts (personGood_of_wf (hw p (by simp))).toks
    simp only [List.map_cons, personNodeY, addPersonsY, kwOfNodeY_parts, hp, Bool.false_eq_true, if_false]
    rw [addPerson_fresh e.persons role p hfresh]
    have := addPersonsY_acc role ps { e with persons := e.persons ++ [(role, [p])] } bad e.persons [p]
      (fun q hq => hw q (by simp [hq])) rfl hfresh
    rw [this]
    simp


/-! ### the item loop of `process_entry` -/

def typeKey : Str := "type".toList

theorem typeKey_plain : isPersonField typeKey = false ∧ lower typeKey = typeKey := by decide

theorem isPersonField_lower' {a b : Str} (h : lower a = lower b) : isPersonField a = isPersonField b := by
  unfold isPersonField isPersonFieldOf; rw [h]

/-- plain fields: `bib_entry.fields[key] = str(value)` -/
theorem processItemsY_fields : ∀ (fs : List (Str × Str)) (seen : List Str) (rest : List (Str × YNode))
    (e : Entry) (bad : List Str),
    fieldsOkT true seen fs = true → (∀ y ∈ e.fields, lowerU y.1 ∈ seen) →
    processItemsY ((fs.map fun f => (f.1, YNode.str f.2)) ++ rest) e bad =
      processItemsY rest { e with fields := e.fields ++ fs } bad := by
  intro fs
  induction fs with
  | nil => intro _ rest e bad _ _; simp
  | cons f fs ih =>
    intro seen rest e bad h hs
    simp only [fieldsOkT, Bool.and_eq_true, Bool.not_eq_true', Bool.true_and, beq_eq_false_iff_ne, ne_eq] at h
    obtain ⟨⟨⟨⟨h1, h2⟩, _⟩, h3⟩, h4⟩ := h
    have hfresh : ∀ y ∈ e.fields, lowerU y.1 ≠ lowerU f.1 := by
      intro y hy heq
      have := hs y hy
      rw [heq] at this
      simp only [List.contains_eq_mem, decide_eq_false_iff_not] at h3
      exact h3 this
    simp only [List.map_cons, List.cons_append, processItemsY, h1, Bool.false_eq_true, if_false, strY]
    rw [if_neg h2, ciSet_fresh e.fields f.1 f.2 hfresh]
    rw [ih (lowerU f.1 :: seen) rest { e with fields := e.fields ++ [f] } bad h4
      (by intro y hy; simp only [List.mem_append, List.mem_singleton] at hy
          rcases hy with hy | rfl
          · exact List.mem_cons_of_mem _ (hs y hy)
          · exact List.mem_cons_self)]
    simp

/-- roles: `bib_entry.add_person(Person(**names), key)` for every person -/
theorem processItemsY_roles : ∀ (rs : List (Str × List Person)) (seen : List Str) (e : Entry) (bad : List Str),
    rolesOkT seen rs = true → (∀ y ∈ e.persons, lowerU y.1 ∈ seen) →
    processItemsY (rs.map fun r => (r.1, YNode.seq (r.2.map personNodeY))) e bad =
      .ok ({ e with persons := e.persons ++ rs }, bad) := by
  intro rs
  induction rs with
  | nil => intro _ e bad _ _; simp [processItemsY]
  | cons r rs ih =>
    intro seen e bad h hs
    simp only [rolesOkT, Bool.and_eq_true, Bool.not_eq_true', List.all_eq_true, decide_eq_true_eq] at h
    obtain ⟨⟨⟨⟨h1, h2⟩, h3⟩, h4⟩, h5⟩ := h
    have hfresh : ∀ y ∈ e.persons, lower y.1 ≠ lower r.1 := by
      intro y hy heq
      have := hs y hy
      rw [lowerU_of_lower heq] at this
      simp only [List.contains_eq_mem, decide_eq_false_iff_not] at h2
      exact h2 this
    simp only [List.map_cons, processItemsY, h1, if_true, addPersonsY_fresh r.1 r.2 e bad h3 h4 hfresh]
    rw [ih (lowerU r.1 :: seen) { e with persons := e.persons ++ [r] } bad h5
      (by intro y hy; simp only [List.mem_append, List.mem_singleton] at hy
          rcases hy with hy | rfl
          · exact List.mem_cons_of_mem _ (hs y hy)
          · exact List.mem_cons_self)]
    simp

/-! ### the mapping `_to_dict` builds for an entry -/

def itemsOf (e : Entry) : List (Str × YNode) :=
  (typeKey, YNode.str e.origType) :: ((e.fields.map fun f => (f.1, YNode.str f.2)) ++
    (e.persons.map fun r => (r.1, YNode.seq (r.2.map personNodeY))))

theorem foldl_odSet_fresh {α : Type} (g : α → Str × YNode) : ∀ (xs : List α) (d : List (Str × YNode)),
    (∀ x ∈ xs, ∀ y ∈ d, y.1 ≠ (g x).1) → (xs.map fun x => (g x).1).Pairwise (· ≠ ·) →
    xs.foldl (fun d x => odSet d (g x).1 (g x).2) d = d ++ xs.map g := by
  intro xs
  induction xs with
  | nil => intro d _ _; simp
  | cons x xs ih =>
    intro d h1 h2
    simp only [List.foldl_cons, List.map_cons]
    rw [odSet_fresh d _ _ (h1 x (by simp))]
    simp only [List.map_cons, List.pairwise_cons] at h2
    rw [ih _ ?_ h2.2]
    · simp
    · intro z hz y hy
      simp only [List.mem_append, List.mem_singleton] at hy
      rcases hy with hy | rfl
      · exact h1 z (by simp [hz]) y hy
      · exact h2.1 _ (List.mem_map.2 ⟨z, hz, rfl⟩)


theorem fieldsOkT_names (y : Bool) : ∀ (fs : List (Str × Str)) (seen : List Str), fieldsOkT y seen fs = true →
    (∀ f ∈ fs, isPersonField f.1 = false ∧ (y = true → lower f.1 ≠ typeKey) ∧ lowerU f.1 ∉ seen) ∧
    (fs.map (·.1)).Pairwise (· ≠ ·) := by
  intro fs
  induction fs with
  | nil => intro _ _; exact ⟨by simp, by simp⟩
  | cons f fs ih =>
    intro seen h
    simp only [fieldsOkT, Bool.and_eq_true, Bool.not_eq_true', Bool.and_eq_false_iff, beq_eq_false_iff_ne, ne_eq] at h
    obtain ⟨⟨⟨⟨h1, h2⟩, _⟩, h3⟩, h4⟩ := h
    obtain ⟨i1, i2⟩ := ih _ h4
    have h3' : lowerU f.1 ∉ seen := by simpa using h3
    refine ⟨?_, ?_⟩
    · intro g hg
      rcases List.mem_cons.1 hg with rfl | hg
      · refine ⟨h1, ?_, h3'⟩
        intro hy
        rcases h2 with h2 | h2
        · rw [hy] at h2; cases h2
        · exact h2
      · obtain ⟨a, b, c⟩ := i1 g hg
        exact ⟨a, b, fun hc => c (List.mem_cons_of_mem _ hc)⟩
    · simp only [List.map_cons, List.pairwise_cons]
      refine ⟨?_, i2⟩
      intro n hn heq
      obtain ⟨g, hg, rfl⟩ := List.mem_map.1 hn
      exact (i1 g hg).2.2 (by rw [heq]; exact List.mem_cons_self)

theorem rolesOkT_names : ∀ (rs : List (Str × List Person)) (seen : List Str), rolesOkT seen rs = true →
    (∀ r ∈ rs, isPersonField r.1 = true ∧ lowerU r.1 ∉ seen) ∧ (rs.map (·.1)).Pairwise (· ≠ ·) := by
  intro rs
  induction rs with
  | nil => intro _ _; exact ⟨by simp, by simp⟩
  | cons r rs ih =>
    intro seen h
    simp only [rolesOkT, Bool.and_eq_true, Bool.not_eq_true', List.all_eq_true, decide_eq_true_eq] at h
    obtain ⟨⟨⟨⟨h1, h2⟩, _⟩, _⟩, h5⟩ := h
    obtain ⟨i1, i2⟩ := ih _ h5
    have h2' : lowerU r.1 ∉ seen := by simpa using h2
    refine ⟨?_, ?_⟩
    · intro g hg
      rcases List.mem_cons.1 hg with rfl | hg
      · exact ⟨h1, h2'⟩
      · exact ⟨(i1 g hg).1, fun hc => (i1 g hg).2 (List.mem_cons_of_mem _ hc)⟩
    · simp only [List.map_cons, List.pairwise_cons]
      refine ⟨?_, i2⟩
      intro n hn heq
      obtain ⟨g, hg, rfl⟩ := List.mem_map.1 hn
      exact (i1 g hg).2 (by rw [heq]; exact List.mem_cons_self)

theorem entryNodeY_eq {e : Entry} (hf : fieldsOkT true [] e.fields = true) (hr : rolesOkT [] e.persons = true) :
    entryNodeY e = .map (itemsOf e) := by
  obtain ⟨f1, f2⟩ := fieldsOkT_names true e.fields [] hf
  obtain ⟨r1, r2⟩ := rolesOkT_names e.persons [] hr
  unfold entryNodeY itemsOf
  have hty : "type".toList = typeKey := rfl
  simp only [hty]
  have e1 := foldl_odSet_fresh (fun f : Str × Str => (f.1, YNode.str f.2)) e.fields [(typeKey, YNode.str e.origType)]
    (by
      intro f hf' y hy
      simp only [List.mem_singleton] at hy
      subst hy
      intro heq
      have := (f1 f hf').2.1 rfl
      apply this
      simp only at heq
      rw [← heq]; exact typeKey_plain.2)
    (by simpa using f2)
  simp only at e1
  rw [e1]
  have e2 := foldl_odSet_fresh (fun r : Str × List Person => (r.1, YNode.seq (r.2.map personNodeY))) e.persons
    ([(typeKey, YNode.str e.origType)] ++ e.fields.map fun f => (f.1, YNode.str f.2))
    (by
      intro r hr' y hy heq
      simp only at heq
      simp only [List.mem_append, List.mem_singleton, List.mem_map] at hy
      have hrp := (r1 r hr').1
      rcases hy with rfl | ⟨f, hf', rfl⟩
      · simp only at heq
        rw [← heq, typeKey_plain.1] at hrp; cases hrp
      · simp only at heq
        rw [← heq, (f1 f hf').1] at hrp; cases hrp)
    (by simpa using r2)
  simp only at e2
  rw [e2]
  simp

theorem processEntryY_ok {keys : List Str} {e : Entry} (key : Str) (h : entryOkT true keys e = true) :
    processEntryY key (entryNodeY e) = .ok ({ e with key := key }, []) := by
  simp only [entryOkT, Bool.and_eq_true, beq_iff_eq, Bool.not_eq_true'] at h
  obtain ⟨⟨⟨⟨⟨h1, _⟩, _⟩, _⟩, h3⟩, h4⟩ := h
  rw [entryNodeY_eq h4 h3]
  unfold processEntryY
  have hget : odGet (itemsOf e) "type".toList = some (YNode.str e.origType) := by
    simp [itemsOf, odGet, typeKey]
  simp only [hget]
  -- the `type` item is skipped, then the fields, then the roles
  have hstep : ∀ (rest : List (Str × YNode)) (e0 : Entry) (bad : List Str),
      processItemsY ((typeKey, YNode.str e.origType) :: rest) e0 bad = processItemsY rest e0 bad := by
    intro rest e0 bad
    simp only [processItemsY, typeKey_plain.1, typeKey_plain.2, Bool.false_eq_true, if_false]
    rw [if_pos (show typeKey = "type".toList from rfl)]
  unfold itemsOf
  rw [hstep, processItemsY_fields e.fields [] _ _ [] h4 (by simp), processItemsY_roles e.persons [] _ [] h3 (by simp)]
  obtain ⟨k, t, ot, fs, ps⟩ := e
  simp only at h1
  subst h1
  simp


/-! ### all entries, `add_entries`, the whole tree -/

theorem processEntriesY_ok : ∀ (es : List Entry) (keys : List Str), entriesOkT true keys es = true →
    processEntriesY (es.map fun e => (e.key, entryNodeY e)) = .ok (es.map fun e => (e.key, e), []) := by
  intro es
  induction es with
  | nil => intro _ _; rfl
  | cons e es ih =>
    intro keys h
    simp only [entriesOkT, Bool.and_eq_true] at h
    simp only [List.map_cons, processEntriesY, processEntryY_ok e.key h.1, ih _ h.2]
    rfl

theorem addEntryPlain_fresh (acc : List Entry) (rep : List Str) (e : Entry)
    (h : acc.any (fun x => lowerU x.key = lowerU e.key) = false) :
    addEntryPlain (acc, rep) e.key e = (acc ++ [e], rep) := by
  have he : ({ e with key := e.key } : Entry) = e := by cases e; rfl
  simp only [addEntryPlain, h, Bool.false_eq_true, if_false, he]

theorem addEntries_fold : ∀ (es : List Entry) (keys : List Str) (yaml : Bool) (acc : List Entry) (rep : List Str),
    entriesOkT yaml keys es = true → (∀ x ∈ acc, lowerU x.key ∈ keys) →
    (es.map fun e => (e.key, e)).foldl (fun a p => addEntryPlain a p.1 p.2) (acc, rep) = (acc ++ es, rep) := by
  intro es
  induction es with
  | nil => intro _ _ acc rep _ _; simp
  | cons e es ih =>
    intro keys yaml acc rep h hacc
    simp only [entriesOkT, Bool.and_eq_true] at h
    obtain ⟨h1, h2⟩ := h
    have hfresh : lowerU e.key ∉ keys := by
      simp only [entryOkT, Bool.and_eq_true, Bool.not_eq_true'] at h1
      simpa using h1.1.1.2
    have hany : acc.any (fun x => lowerU x.key = lowerU e.key) = false := by
      rw [List.any_eq_false]
      intro x hx heq
      simp only [decide_eq_true_eq] at heq
      have := hacc x hx
      rw [heq] at this
      exact hfresh this
    simp only [List.map_cons, List.foldl_cons]
    rw [addEntryPlain_fresh acc rep e hany, ih (lowerU e.key :: keys) yaml (acc ++ [e]) rep h2
      (by intro x hx; simp only [List.mem_append, List.mem_singleton] at hx
          rcases hx with hx | rfl
          · exact List.mem_cons_of_mem _ (hacc x hx)
          · exact List.mem_cons_self)]
    simp

theorem addEntries_id {yaml : Bool} {es : List Entry} (h : entriesOkT yaml [] es = true) :
    addEntries (es.map fun e => (e.key, e)) = (es, []) := by
  unfold addEntries
  rw [addEntries_fold es [] yaml [] [] h (by simp)]
  simp

theorem yaml_roundtrip (d : BibData) (h : WFDbTree true d = true) :
    ofDictYaml (toDictYaml d) =
      .ok { db := canonDb d, badNames := [], repeated := [], others := 0 } := by
  unfold WFDbTree at h
  unfold toDictYaml ofDictYaml
  have hget1 : ∀ rest, odGet (("entries".toList, YNode.map (d.entries.map fun e => (e.key, entryNodeY e))) :: rest)
      "entries".toList = some (YNode.map (d.entries.map fun e => (e.key, entryNodeY e))) := by
    intro rest; simp [odGet]
  simp only [List.singleton_append, hget1, processEntriesY_ok d.entries [] h, addEntries_id h]
  by_cases hp : d.preambleText = []
  · simp [hp, odGet, canonDb, canonPreamble]
  ·     simp [hp, odGet, canonDb, canonPreamble]


end Pybtex.C02.Yaml
