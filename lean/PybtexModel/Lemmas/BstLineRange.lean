/-
The line a rejected source is reported on is a line of that source — for EVERY source text, with
no well-formedness hypothesis: invariant `line + (number of \n still ahead) ≤ B` of the scanner
state, carried through `eat_whitespace`, `required`, `parse_group`, `parse_command`, `parse`.
-/
import PybtexModel.Lemmas.BstLines
import PybtexModel.Lemmas.BstEntry
import PybtexModel.Model.BstErrorText

namespace Pybtex.Bst
open Pybtex.Scanner

/-- the scanner stands on a line `≥ 1` and cannot count beyond `B` with what is still ahead
(the text handed to the `.bst` parser by `parse_string` has no `\r`) -/
def InRange (B : Nat) (st : St) : Prop := '\r' ∉ st.rest ∧ 1 ≤ st.line ∧ st.line + nl st.rest ≤ B

/-- the line an error carries lies in `1 … B` -/
def ErrIn (B : Nat) (e : Err) : Prop := ∀ l, errLine e = some l → 1 ≤ l ∧ l ≤ B

theorem eatWs_inRange {B : Nat} {st : St} (h : InRange B st) : InRange B (eatWs st) := by
  obtain ⟨hcr, h1, hB⟩ := h
  have hsplit := takeRun_fst_append_snd isWs st.rest
  have hcr1 : '\r' ∉ (takeRun isWs st.rest).1 := fun hm => hcr (by rw [← hsplit]; simp [hm])
  have hcr2 : '\r' ∉ (takeRun isWs st.rest).2 := fun hm => hcr (by rw [← hsplit]; simp [hm])
  refine ⟨hcr2, ?_, ?_⟩
  · show 1 ≤ st.line + countNewlines (takeRun isWs st.rest).1
    omega
  · show st.line + countNewlines (takeRun isWs st.rest).1 + nl (takeRun isWs st.rest).2 ≤ B
    rw [countNewlines_of_no_cr _ hcr1]
    have : nl st.rest = nl (takeRun isWs st.rest).1 + nl (takeRun isWs st.rest).2 := by
      rw [← nl_append, hsplit]
    unfold nl at this hB ⊢
    omega

/-- what every parser function establishes from a state in range -/
def Post {α : Type} (B : Nat) : Except Err (α × St) → Prop
  | .ok (_, st') => InRange B st' ∧ st'.line ≤ B
  | .error e => ErrIn B e

theorem errIn_of_line {B l : Nat} {e : Err} (he : errLine e = some l) (h1 : 1 ≤ l) (hB : l ≤ B) :
    ErrIn B e := by
  intro l' hl'; rw [he] at hl'; cases hl'; exact ⟨h1, hB⟩

theorem errIn_of_none {B : Nat} {e : Err} (he : errLine e = none) : ErrIn B e := by
  intro l' hl'; rw [he] at hl'; cases hl'

theorem inRange_line_le {B : Nat} {st : St} (h : InRange B st) : st.line ≤ B := by
  have := h.2.2; omega

theorem required_inRange {κ : Type} {B : Nat} (pats : List (κ × Pattern))
    (hp : ∀ kp ∈ pats, PatSound kp.2) (d : Option Str) (a : Bool) {st : St} (h : InRange B st) :
    Post B (required pats d a st) := by
  have hw := eatWs_inRange h
  obtain ⟨hcr, h1, hB⟩ := hw
  rw [required_eq]
  split
  · cases a
    · exact errIn_of_line (l := (eatWs st).line) rfl h1 (by omega)
    · exact errIn_of_none rfl
  · rename_i c r hrest
    split
    · rename_i k v r' hfm
      obtain ⟨_, hs⟩ := firstMatch_sound pats hp _ k v r' hfm
      have hnl : nl (eatWs st).rest = nl v + nl r' := by rw [hs, nl_append]
      have hcr' : '\r' ∉ r' := fun hm => hcr (by rw [hs]; simp [hm])
      exact ⟨⟨hcr', h1, by show (eatWs st).line + nl r' ≤ B; omega⟩, by show (eatWs st).line ≤ B; omega⟩
    · exact errIn_of_line (l := (eatWs st).line) rfl h1 (by omega)

theorem mkLiteralE_errIn {B : Nat} {k : TokKind} {v : Str} {ln : Nat} (h1 : 1 ≤ ln) (hB : ln ≤ B) :
    ∀ e, mkLiteralE k v ln = .error e → ErrIn B e := by
  intro e he
  unfold mkLiteralE at he
  split at he
  · cases he; exact errIn_of_line (l := ln) rfl h1 hB
  · cases he

theorem parseGroupF_inRange {B : Nat} : ∀ (n : Nat) (st : St), InRange B st →
    Post B (parseGroupF n st) := by
  intro n
  induction n with
  | zero => intro st _; exact errIn_of_none rfl
  | succ n ih =>
    intro st h
    have hr := required_inRange (B := B) groupPats groupPats_sound none false h
    rw [parseGroupF]
    split
    · rename_i e he; rw [he] at hr; exact hr
    · rename_i v st1 he
      rw [he] at hr
      have h2 := ih st1 hr.1
      split
      · rename_i e he2; rw [he2] at h2; exact h2
      · rename_i body st2 he2
        rw [he2] at h2
        have h3 := ih st2 h2.1
        split
        · rename_i e he3; rw [he3] at h3; exact h3
        · rename_i ts st3 he3; rw [he3] at h3; exact h3
    · rename_i v st1 he
      rw [he] at hr; exact hr
    · rename_i k v st1 _ _ he
      rw [he] at hr
      split
      · rename_i e hm; exact mkLiteralE_errIn hr.1.2.1 hr.2 e hm
      · have h2 := ih st1 hr.1
        split
        · rename_i e he2; rw [he2] at h2; exact h2
        · rename_i ts st2 he2; rw [he2] at h2; exact h2

theorem parseGroups_inRange {B : Nat} : ∀ (k : Nat) (st : St), InRange B st →
    Post B (parseGroups k st) := by
  intro k
  induction k with
  | zero => intro st h; exact ⟨h, inRange_line_le h⟩
  | succ k ih =>
    intro st h
    have hr := required_inRange (B := B) [(TokKind.lbrace, lbracePat)]
      (by intro kp hkp; simp only [List.mem_singleton] at hkp; subst hkp; exact litPat_sound _) none false h
    rw [parseGroups]
    split
    · rename_i e he; rw [he] at hr; exact hr
    · rename_i t st1 he
      rw [he] at hr
      have h2 := parseGroupF_inRange (B := B) (st1.rest.length + 1) st1 hr.1
      unfold parseGroup
      split
      · rename_i e he2; rw [he2] at h2; exact h2
      · rename_i g st2 he2
        rw [he2] at h2
        have h3 := ih st2 h2.1
        split
        · rename_i e he3; rw [he3] at h3; exact h3
        · rename_i gs st3 he3; rw [he3] at h3; exact h3

theorem parseCommand_inRange {B : Nat} (st : St) (h : InRange B st) :
    Post B (parseCommand st) := by
  have hr := required_inRange (B := B) [(TokKind.name, namePat)]
    (by intro kp hkp; simp only [List.mem_singleton] at hkp; subst hkp; exact namePat_sound)
    (some "BST command".toList) true h
  unfold parseCommand
  split
  · rename_i e he; rw [he] at hr; exact hr
  · rename_i k name st1 he
    rw [he] at hr
    split
    · exact errIn_of_line (l := st1.line) rfl hr.1.2.1 hr.2
    · rename_i arity _
      have h2 := parseGroups_inRange (B := B) arity st1 hr.1
      split
      · rename_i e he2; rw [he2] at h2; exact h2
      · rename_i gs st2 he2; rw [he2] at h2; exact h2

theorem parseF_inRange {B : Nat} : ∀ (n : Nat) (st : St), InRange B st →
    ∀ e, parseF n st = .error e → ErrIn B e := by
  intro n
  induction n with
  | zero => intro st _ e he; simp only [parseF] at he; cases he; exact errIn_of_none rfl
  | succ n ih =>
    intro st h e he
    have hc := parseCommand_inRange st h
    rw [parseF] at he
    split at he
    · cases he
    · rename_i e' hne hpc; cases he; rw [hpc] at hc; exact hc
    · rename_i c st1 hpc
      rw [hpc] at hc
      split at he
      · rename_i e' he2; cases he; exact ih st1 hc.1 _ he2
      · cases he

/-- no `\r` in the text `parse_string` hands to the parser -/
theorem stringText_no_cr (src : Str) : '\r' ∉ stringText src := by
  unfold stringText
  have : ∀ (xs : List Str), (∀ x ∈ xs, '\r' ∉ x) → '\r' ∉ joinWith ['\n'] xs := by
    intro xs
    induction xs with
    | nil => intro _; simp [joinWith]
    | cons x xs ih =>
      intro h
      cases xs with
      | nil => simpa [joinWith] using h x (by simp)
      | cons y ys =>
        have := ih (fun z hz => h z (by simp [hz]))
        have hx := h x (by simp)
        simp only [joinWith, List.mem_append, not_or]
        exact ⟨⟨hx, by decide⟩, this⟩
  apply this
  intro x hx
  simp only [List.mem_map] at hx
  obtain ⟨l, hl, rfl⟩ := hx
  intro hm
  have := splitLines_nosep src l hl '\r' (mem_stripGo hm)
  simp [isLineSep, lineSepCodes] at this

/-- EVERY source: the line of a rejection by `parse_string` is one of the lines of the source
(`eofLine src` = the number of lines `str.splitlines` sees, at least 1) -/
theorem parseString_error_line (src : Str) (e : Err) (h : parseString src = .error e) :
    ErrIn (eofLine src) e := by
  unfold parseString parseText at h
  refine parseF_inRange _ (St.init (stringText src)) ⟨stringText_no_cr src, Nat.le_refl 1, ?_⟩ e h
  show 1 + nl (stringText src) ≤ eofLine src
  rw [last_line]; exact Nat.le_refl _

/-- `x.rstrip()` keeps only characters of `x` -/
theorem mem_rstrip {c : Char} {l : Str} (h : c ∈ rstrip l) : c ∈ l := by
  unfold rstrip at h
  rw [List.mem_reverse] at h
  exact List.mem_reverse.mp ((List.dropWhile_suffix _).subset h)

/-- EVERY source whose line breaks are `\n` / `\r\n` only: the line of a rejection by
`parse_stream` is one of the lines of the source -/
theorem parseStream_error_line (src : Str) (hplain : plainBreaks src = true) (e : Err)
    (h : parseStream src = .error e) : ErrIn (eofLine src) e := by
  unfold parseStream parseText at h
  rw [streamText_plain src hplain] at h
  have hfree : ∀ x ∈ (splitLines src).map (fun l => stripComment (rstrip l)),
      '\r' ∉ x ∧ nl x = 0 := by
    intro x hx
    simp only [List.mem_map] at hx
    obtain ⟨l, hl, rfl⟩ := hx
    constructor
    · intro hm
      have := splitLines_nosep src l hl '\r' (mem_rstrip (mem_stripGo hm))
      simp [isLineSep, lineSepCodes] at this
    · unfold nl
      rw [List.count_eq_zero]
      intro hm
      have := splitLines_nosep src l hl '\n' (mem_rstrip (mem_stripGo hm))
      simp [isLineSep, lineSepCodes] at this
  have hcr : ∀ (xs : List Str), (∀ x ∈ xs, '\r' ∉ x) → '\r' ∉ joinWith ['\n'] xs := by
    intro xs
    induction xs with
    | nil => intro _; simp [joinWith]
    | cons x xs ih =>
      intro h
      cases xs with
      | nil => simpa [joinWith] using h x (by simp)
      | cons y ys =>
        have := ih (fun z hz => h z (by simp [hz]))
        have hx := h x (by simp)
        simp only [joinWith, List.mem_append, not_or]
        exact ⟨⟨hx, by decide⟩, this⟩
  refine parseF_inRange _ (St.init _) ⟨hcr _ (fun x hx => (hfree x hx).1), Nat.le_refl 1, ?_⟩ e h
  show 1 + nl (joinWith ['\n'] ((splitLines src).map fun l => stripComment (rstrip l))) ≤ eofLine src
  rw [nl_joinWith _ (fun x hx => (hfree x hx).2)]
  unfold eofLine
  simp only [List.length_map]; omega

/-- an error with its line in `1 … B` that is not a model-only outcome: class, line, message and
the text `str(error)` spelling that line -/
theorem names_line_of_errIn {B : Nat} {e : Err} (hin : ErrIn B e) (hne : e ≠ .outOfFuel ∧ e ≠ .eof) :
    ∃ l msg, errLine e = some l ∧ errMessage e = some msg ∧ 1 ≤ l ∧ l ≤ B ∧
      errStr e = some ("syntax error".toList ++ (" in line ".toList ++ (Nat.repr l).toList) ++
        ": ".toList ++ msg) := by
  cases e with
  | eof => exact absurd rfl hne.2
  | outOfFuel => exact absurd rfl hne.1
  | prematureEOF l => obtain ⟨h1, h2⟩ := hin l rfl; exact ⟨l, _, rfl, rfl, h1, h2, rfl⟩
  | tokenRequired d l => obtain ⟨h1, h2⟩ := hin l rfl; exact ⟨l, _, rfl, rfl, h1, h2, rfl⟩
  | syntaxError m l => obtain ⟨h1, h2⟩ := hin l rfl; exact ⟨l, _, rfl, rfl, h1, h2, rfl⟩

end Pybtex.Bst
