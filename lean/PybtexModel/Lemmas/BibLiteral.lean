/-
Lemmas for `C01_literal_iff` (`Props/C01x.lean`): `parse_string` accepts exactly the texts the reference
scan `litScan` (`Spec/Bib.lean`) accepts, and collects them verbatim.  Separate from `Lemmas/BibOpts.lean`
because it needs the round-trip lemma `strLoop_lit` of `Lemmas/BibRoundTrip.lean`.
-/
import PybtexModel.Lemmas.BibOpts
import PybtexModel.Lemmas.BibRoundTrip

namespace Pybtex.Bib

section scan
open Pybtex.BibSpec Pybtex.BibRT

/-- what `parse_string` collects behind `acc`: a text `x` accepted by the reference scan `litScan`
from depth `d`, then the closing delimiter; exactly that is consumed -/
theorem strLoop_scan (fuel : Nat) (quoted : Bool) (d : Nat) (acc : Str) (s : St) {str : Str} {s' : St}
    (h : strLoop fuel quoted d acc s = .ok str s') :
    ∃ x, str = acc ++ x ++ [closerOf quoted] ∧ s.rest = x ++ closerOf quoted :: s'.rest ∧
      litScan quoted d x = some 0 := by
  induction fuel generalizing d acc s with
  | zero => simp [strLoop] at h
  | succ fuel ih =>
    rw [strLoop_unfold] at h
    split at h
    · cases h
    · rename_i chunk rest hsk
      obtain ⟨pre, c, hch, hs, hpc, hpre⟩ := skipToChar_split hsk
      have hlast : chunk.getLast? = some c := by rw [hch]; simp
      have hskip : ∀ t, litScan quoted d (pre ++ t) = litScan quoted d t := fun t => litScan_skip t hpre
      simp only [hlast] at h
      split at h
      · rename_i hc
        injection hc with hc; subst hc
        split at h
        · cases h
        · rename_i hd
          obtain ⟨x, hx1, hx2, hx3⟩ := ih _ _ _ h
          refine ⟨pre ++ '{' :: x, by rw [hx1, hch]; simp, by rw [hs]; simp only at hx2; rw [hx2]; simp, ?_⟩
          rw [hskip]
          simp only [litScan, if_true, hd, if_false]
          exact hx3
      · rename_i hc
        injection hc with hc; subst hc
        split at h
        · rename_i hd0
          split at h
          · cases h
          · rename_i hq
            injection h with h1 h2
            subst h1; subst h2
            have hq' : quoted = false := by simpa using hq
            subst hq'
            refine ⟨pre, by rw [hch]; simp [closerOf], by rw [hs]; simp [closerOf], ?_⟩
            have := hskip []
            rw [List.append_nil] at this
            rw [this, hd0]; rfl
        · rename_i hd0
          obtain ⟨x, hx1, hx2, hx3⟩ := ih _ _ _ h
          refine ⟨pre ++ '}' :: x, by rw [hx1, hch]; simp, by rw [hs]; simp only at hx2; rw [hx2]; simp, ?_⟩
          rw [hskip]
          have h1 : ('}' : Char) ≠ '{' := by decide
          simp only [litScan, h1, if_false, if_true, hd0]
          exact hx3
      · rename_i hc1 hc2
        have hcq : c = '"' ∧ quoted = true ∧ d = 0 := by
          simp only [special, Bool.or_eq_true, decide_eq_true_eq, Bool.and_eq_true] at hpc
          rcases hpc with (hpc | hpc) | hpc
          · exact absurd (by rw [hpc]) hc2
          · exact absurd (by rw [hpc]) hc1
          · exact ⟨hpc.2, hpc.1.1, hpc.1.2⟩
        obtain ⟨rfl, rfl, rfl⟩ := hcq
        injection h with h1 h2
        subst h1; subst h2
        refine ⟨pre, by rw [hch]; simp [closerOf], by rw [hs]; simp [closerOf], ?_⟩
        have := hskip []
        rw [List.append_nil] at this
        rw [this]; rfl

theorem parseValuePart_literal_iff (s : St) (quoted : Bool) (t v r : Str)
    (ht : (eatWs s).rest = (if quoted then '"' else '{') :: t) :
    (∃ s', parseValuePart s = .ok v s' ∧ s'.rest = r) ↔
      (t = v ++ closerOf quoted :: r ∧ litScan quoted 0 v = some 0) := by
  rw [parseValuePart_open s quoted t ht]
  constructor
  · rintro ⟨s', h, hr⟩
    split at h
    · cases h
    · rename_i str s1 hs
      injection h with h1 h2
      subst h1; subst h2
      obtain ⟨x, hx1, hx2, hx3⟩ := strLoop_scan _ _ _ _ _ hs
      simp only [List.nil_append] at hx1
      subst hx1
      simp only [List.dropLast_concat]
      exact ⟨by rw [← hr]; exact hx2, hx3⟩
  · rintro ⟨rfl, hscan⟩
    have hcl : (quoted = true ∧ closerOf quoted = '"') ∨ (quoted = false ∧ closerOf quoted = '}') := by
      cases quoted <;> simp [closerOf]
    obtain ⟨ln', h⟩ := strLoop_lit quoted (closerOf quoted) hcl ((v ++ closerOf quoted :: r).length + 1) v 0 []
      { eatWs s with rest := v ++ closerOf quoted :: r } r rfl hscan (by simp; omega)
    rw [h]
    refine ⟨{ eatWs s with rest := r, ln := ln' }, ?_, rfl⟩
    simp only [List.nil_append, List.dropLast_concat]

end scan

end Pybtex.Bib
