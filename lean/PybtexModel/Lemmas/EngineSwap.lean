/-
Helper lemmas for C06, part 4: two neighbours of the entry list a `bib_format` reader delivers
can change places (when neither is the other's cross-reference target and not both repeat an
earlier key): the parser states reached are equivalent — same reports, same preamble, the same
entries in another order, wanted sets accepting the same keys — and stay so while the rest of the
list is added; equivalent states give databases with the same entry under every key.
-/
import PybtexModel.Lemmas.EngineItems
import PybtexModel.Lemmas.CIMap
import PybtexModel.Lemmas.BibReport
import PybtexModel.Lemmas.UniCase

namespace Pybtex.Engine
open Pybtex Pybtex.Interp

/-! ### `add_entry`, case by case -/

/-- the database after `add_entry` has accepted the entry -/
def added (db : Bib.Db) (ke : Str × Bib.Entry) : Bib.Db :=
  match Bib.findFieldCI ke.2.fields "crossref".toList, db.wanted with
  | some cr, some w =>
    { db with entries := db.entries ++ [{ ke.2 with key := Bib.canonicalKey db ke.1 }], wanted := some (w.add cr) }
  | _, _ => { db with entries := db.entries ++ [{ ke.2 with key := Bib.canonicalKey db ke.1 }] }

def dupErr (ke : Str × Bib.Entry) : Bib.Err := ⟨.repeatedEntry ke.1, none⟩

theorem addStep_cases (st : Bib.St) (ke : Str × Bib.Entry) :
    (Bib.wantEntry st.db ke.1 = false ∧ addStep st ke = st) ∨
    (Bib.wantEntry st.db ke.1 = true ∧ Bib.hasEntry st.db ke.1 = true ∧ st.strict = true ∧ addStep st ke = st) ∨
    (Bib.wantEntry st.db ke.1 = true ∧ Bib.hasEntry st.db ke.1 = true ∧ st.strict = false ∧
      addStep st ke = st.report (dupErr ke)) ∨
    (Bib.wantEntry st.db ke.1 = true ∧ Bib.hasEntry st.db ke.1 = false ∧
      addStep st ke = { st with db := added st.db ke }) := by
  cases hw : Bib.wantEntry st.db ke.1 with
  | false => exact .inl ⟨rfl, by simp only [addStep, Bib.addEntry, hw, Bool.not_false, if_true]⟩
  | true =>
    cases hh : Bib.hasEntry st.db ke.1 with
    | true =>
      cases hs : st.strict with
      | true =>
        refine .inr (.inl ⟨rfl, rfl, rfl, ?_⟩)
        simp only [addStep, Bib.addEntry, hw, hh, Bib.handleError, hs, Bool.not_true, if_true]
        rfl
      | false =>
        refine .inr (.inr (.inl ⟨rfl, rfl, rfl, ?_⟩))
        simp only [addStep, Bib.addEntry, hw, hh, Bib.handleError, hs, Bool.not_true, if_true]
        rfl
    | false =>
      refine .inr (.inr (.inr ⟨rfl, rfl, ?_⟩))
      simp only [addStep, Bib.addEntry, hw, hh, Bool.not_true, added]
      cases Bib.findFieldCI ke.2.fields "crossref".toList with
      | none => rfl
      | some cr =>
        cases st.db.wanted with
        | none => rfl
        | some w => rfl

/-! ### equivalent parser states -/

/-- the wanted sets accept the same keys -/
def WEq (o o' : Option CISet) : Prop :=
  match o, o' with
  | none, none => True
  | some w, some w' => ∀ k, w.contains k = w'.contains k
  | _, _ => False

theorem WEq.refl (o : Option CISet) : WEq o o := by
  cases o with
  | none => trivial
  | some w => exact fun _ => rfl

/-- same reports, mode, preamble and citation set, the same entries in some order, wanted sets that
accept the same keys -/
structure Eqv (st st' : Bib.St) : Prop where
  errs : st'.errs = st.errs
  strict : st'.strict = st.strict
  pre : st'.db.preamble = st.db.preamble
  cit : st'.db.citations = st.db.citations
  ents : st'.db.entries.Perm st.db.entries
  want : WEq st.db.wanted st'.db.wanted

theorem Eqv.refl (st : Bib.St) : Eqv st st := ⟨rfl, rfl, rfl, rfl, List.Perm.refl _, WEq.refl _⟩

theorem wantEntry_weq {db db' : Bib.Db} (h : WEq db.wanted db'.wanted) (k : Str) :
    Bib.wantEntry db' k = Bib.wantEntry db k := by
  unfold Bib.wantEntry
  cases hw : db.wanted with
  | none =>
    cases hw' : db'.wanted with
    | none => rfl
    | some w' => rw [hw, hw'] at h; exact h.elim
  | some w =>
    cases hw' : db'.wanted with
    | none => rw [hw, hw'] at h; exact h.elim
    | some w' =>
      rw [hw, hw'] at h
      simp only [h k, h ['*']]

theorem hasEntry_perm {db db' : Bib.Db} (h : db'.entries.Perm db.entries) (k : Str) :
    Bib.hasEntry db' k = Bib.hasEntry db k := by
  unfold Bib.hasEntry
  exact h.any_eq

theorem canonicalKey_cit {db db' : Bib.Db} (h : db'.citations = db.citations) (k : Str) :
    Bib.canonicalKey db' k = Bib.canonicalKey db k := by
  simp only [Bib.canonicalKey, h]

theorem added_eqv {db db' : Bib.Db} (hp : db'.preamble = db.preamble) (hc : db'.citations = db.citations)
    (he : db'.entries.Perm db.entries) (hw : WEq db.wanted db'.wanted) (ke : Str × Bib.Entry) :
    (added db' ke).preamble = (added db ke).preamble ∧ (added db' ke).citations = (added db ke).citations ∧
    (added db' ke).entries.Perm (added db ke).entries ∧ WEq (added db ke).wanted (added db' ke).wanted := by
  have hk := canonicalKey_cit hc ke.1
  unfold added
  cases hx : Bib.findFieldCI ke.2.fields "crossref".toList with
  | none =>
    simp only [hk]
    exact ⟨hp, hc, he.append_right _, hw⟩
  | some cr =>
    cases h1 : db.wanted with
    | none =>
      cases h2 : db'.wanted with
      | none =>
        simp only [hk]
        exact ⟨hp, hc, he.append_right _, trivial⟩
      | some w' => rw [h1, h2] at hw; exact hw.elim
    | some w =>
      cases h2 : db'.wanted with
      | none => rw [h1, h2] at hw; exact hw.elim
      | some w' =>
        rw [h1, h2] at hw
        simp only [hk]
        refine ⟨hp, hc, he.append_right _, ?_⟩
        intro k
        simp only [contains_add, hw k]

/-- adding the same entry to equivalent states gives equivalent states -/
theorem addStep_eqv {st st' : Bib.St} (h : Eqv st st') (ke : Str × Bib.Entry) : Eqv (addStep st ke) (addStep st' ke) := by
  have hW := wantEntry_weq h.want ke.1
  have hH := hasEntry_perm h.ents ke.1
  have hA := added_eqv h.pre h.cit h.ents h.want ke
  rcases addStep_cases st ke with ⟨w, e⟩ | ⟨w, hh, hs, e⟩ | ⟨w, hh, hs, e⟩ | ⟨w, hh, e⟩ <;>
  rcases addStep_cases st' ke with ⟨w', e'⟩ | ⟨w', hh', hs', e'⟩ | ⟨w', hh', hs', e'⟩ | ⟨w', hh', e'⟩ <;>
  (try (rw [hW, w] at w'; cases w')) <;> (try (rw [hH, hh] at hh'; cases hh')) <;>
  (try (rw [h.strict, hs] at hs'; cases hs')) <;> rw [e, e']
  · exact h
  · exact h
  · exact ⟨by simp only [Bib.St.report_errs, h.errs], h.strict, h.pre, h.cit, h.ents, h.want⟩
  · exact ⟨h.errs, h.strict, hA.1, hA.2.1, hA.2.2.1, hA.2.2.2⟩

theorem foldl_addStep_eqv (es : List (Str × Bib.Entry)) {st st' : Bib.St} (h : Eqv st st') :
    Eqv (es.foldl addStep st) (es.foldl addStep st') := by
  induction es generalizing st st' with
  | nil => exact h
  | cons ke es ih => exact ih (addStep_eqv h ke)

/-! ### two neighbours change places -/

theorem dget_mem {α : Type} (ks : List (Str × α)) (l : Str) (v : α) (h : dget ks l = some v) : (l, v) ∈ ks := by
  induction ks with
  | nil => simp [dget] at h
  | cons e ks ih =>
    obtain ⟨k', v'⟩ := e
    simp only [dget] at h
    split at h
    · rename_i hk
      cases h
      subst hk
      exact List.mem_cons_self ..
    · exact List.mem_cons_of_mem _ (ih h)

/-- the spelling `add_entry` stores is the key up to case -/
theorem lower_canonicalKey {db : Bib.Db} (hi : CISet.Inv db.citations) (k : Str) :
    lower (Bib.canonicalKey db k) = lower k := by
  unfold Bib.canonicalKey
  cases hc : db.citations.canonical k with
  | none => rfl
  | some k' =>
    simp only []
    split
    · have := hi.2.2 _ (dget_mem _ _ _ hc)
      exact this.symm
    · rfl

/-- ... hence also up to `str.lower()`, the folding `add_entry` compares keys with (`Bib.keyFold`) -/
theorem keyFold_canonicalKey {db : Bib.Db} (hi : CISet.Inv db.citations) (k : Str) :
    Bib.keyFold (Bib.canonicalKey db k) = Bib.keyFold k :=
  lowerU_of_lower (lower_canonicalKey hi k)

/-- what `add_entry` does to a state `T`, decided by the status of the key in a state `S` -/
def effect (S : Bib.St) (ke : Str × Bib.Entry) (T : Bib.St) : Bib.St :=
  if Bib.wantEntry S.db ke.1 = false then T
  else if Bib.hasEntry S.db ke.1 = true then
    (if S.strict = true then T else T.report (dupErr ke))
  else { T with db := added T.db ke }

theorem addStep_effect_of (S T : Bib.St) (ke : Str × Bib.Entry) (hw : Bib.wantEntry T.db ke.1 = Bib.wantEntry S.db ke.1)
    (hh : Bib.hasEntry T.db ke.1 = Bib.hasEntry S.db ke.1) (hs : T.strict = S.strict) :
    addStep T ke = effect S ke T := by
  unfold effect
  rcases addStep_cases T ke with ⟨w, e⟩ | ⟨w, h, s, e⟩ | ⟨w, h, s, e⟩ | ⟨w, h, e⟩
  · rw [hw] at w; simp only [w, if_true, e]
  · rw [hw] at w; rw [hh] at h; rw [hs] at s; simp only [w, h, s, if_true, e]; rfl
  · rw [hw] at w; rw [hh] at h; rw [hs] at s; simp only [w, h, s, if_true, e]; rfl
  · rw [hw] at w; rw [hh] at h; simp only [w, h, e]; rfl

theorem addStep_effect (S : Bib.St) (ke : Str × Bib.Entry) : addStep S ke = effect S ke S :=
  addStep_effect_of S S ke rfl rfl rfl

/-- the crossref value of `x` (if any) is neither the key `k` nor `*` -/
def NoRef (x : Str × Bib.Entry) (k : Str) : Prop :=
  ∀ cr, Bib.findFieldCI x.2.fields "crossref".toList = some cr → Spec.keq k cr = false ∧ Spec.keq ['*'] cr = false

theorem added_status {db : Bib.Db} (hi : CISet.Inv db.citations) (x : Str × Bib.Entry) (k : Str)
    (h1 : Bib.keyFold x.1 ≠ Bib.keyFold k) (h2 : NoRef x k) :
    Bib.wantEntry (added db x) k = Bib.wantEntry db k ∧ Bib.hasEntry (added db x) k = Bib.hasEntry db k ∧
    (added db x).citations = db.citations := by
  have hk : (Bib.keyFold (Bib.canonicalKey db x.1) == Bib.keyFold k) = false := by
    rw [keyFold_canonicalKey hi]; simpa using h1
  unfold added
  cases hx : Bib.findFieldCI x.2.fields "crossref".toList with
  | none =>
    refine ⟨rfl, ?_, rfl⟩
    simp only [Bib.hasEntry, List.any_append, List.any_cons, List.any_nil, Bool.or_false]
    have : decide (Bib.keyFold (Bib.canonicalKey db x.1) = Bib.keyFold k) = false := by simpa using hk
    simp only [this, Bool.or_false]
  | some cr =>
    obtain ⟨q1, q2⟩ := h2 cr hx
    cases hw : db.wanted with
    | none =>
      refine ⟨by simp only [Bib.wantEntry, hw], ?_, rfl⟩
      simp only [Bib.hasEntry, List.any_append, List.any_cons, List.any_nil, Bool.or_false]
      have : decide (Bib.keyFold (Bib.canonicalKey db x.1) = Bib.keyFold k) = false := by simpa using hk
      simp only [this, Bool.or_false]
    | some w =>
      refine ⟨?_, ?_, rfl⟩
      · simp only [Bib.wantEntry, hw, contains_add, q1, q2, Bool.false_or]
      · simp only [Bib.hasEntry, List.any_append, List.any_cons, List.any_nil, Bool.or_false]
        have : decide (Bib.keyFold (Bib.canonicalKey db x.1) = Bib.keyFold k) = false := by simpa using hk
        simp only [this, Bool.or_false]

theorem effect_status (S : Bib.St) (hi : CISet.Inv S.db.citations) (x : Str × Bib.Entry) (k : Str)
    (h1 : Bib.keyFold x.1 ≠ Bib.keyFold k) (h2 : NoRef x k) :
    Bib.wantEntry (effect S x S).db k = Bib.wantEntry S.db k ∧ Bib.hasEntry (effect S x S).db k = Bib.hasEntry S.db k ∧
    (effect S x S).strict = S.strict := by
  unfold effect
  split
  · exact ⟨rfl, rfl, rfl⟩
  · split
    · split <;> exact ⟨rfl, rfl, rfl⟩
    · have := added_status hi x k h1 h2
      exact ⟨this.1, this.2.1, rfl⟩

/-- two accepted entries in either order: the same entries (in another order), wanted sets that
accept the same keys -/
theorem added_comm {db : Bib.Db} (a b : Str × Bib.Entry) :
    (added (added db b) a).preamble = (added (added db a) b).preamble ∧
    (added (added db b) a).citations = (added (added db a) b).citations ∧
    (added (added db b) a).entries.Perm (added (added db a) b).entries ∧
    WEq (added (added db a) b).wanted (added (added db b) a).wanted := by
  have ca : ∀ x : Str × Bib.Entry, (added db x).citations = db.citations := by
    intro x; unfold added; split <;> rfl
  have ka : Bib.canonicalKey (added db a) b.1 = Bib.canonicalKey db b.1 := canonicalKey_cit (ca a) b.1
  have kb : Bib.canonicalKey (added db b) a.1 = Bib.canonicalKey db a.1 := canonicalKey_cit (ca b) a.1
  have hperm : ∀ (l : List Bib.Entry) (x y : Bib.Entry), (l ++ [y] ++ [x]).Perm (l ++ [x] ++ [y]) := by
    intro l x y
    rw [List.append_assoc, List.append_assoc]
    exact (List.Perm.swap x y []).append_left l
  have hp := hperm db.entries { a.2 with key := Bib.canonicalKey db a.1 } { b.2 with key := Bib.canonicalKey db b.1 }
  unfold added
  cases hxa : Bib.findFieldCI a.2.fields "crossref".toList <;>
  cases hxb : Bib.findFieldCI b.2.fields "crossref".toList <;>
  cases hw : db.wanted <;>
  (try simp only [hw]) <;>
  refine ⟨by first | rfl | trivial, by first | rfl | trivial, by simpa [Bib.canonicalKey] using hp, ?_⟩ <;>
  first
    | trivial
    | exact WEq.refl _
    | exact fun _ => rfl
    | (intro k; simp only [contains_add, Bool.or_left_comm])

theorem effect_comm (S : Bib.St) (a b : Str × Bib.Entry)
    (h3 : Bib.hasEntry S.db a.1 = false ∨ Bib.hasEntry S.db b.1 = false) :
    Eqv (effect S b (effect S a S)) (effect S a (effect S b S)) := by
  unfold effect Bib.St.report
  by_cases hs : S.strict = true <;>
  cases hwa : Bib.wantEntry S.db a.1 <;> cases hwb : Bib.wantEntry S.db b.1 <;>
  cases hha : Bib.hasEntry S.db a.1 <;> cases hhb : Bib.hasEntry S.db b.1 <;>
  simp only [hs, if_true, if_false, Bool.false_eq_true, Bool.true_eq_false] <;>
  first
    | exact Eqv.refl _
    | (rw [hha, hhb] at h3; rcases h3 with h3 | h3 <;> cases h3; done)
    | (have := added_comm (db := S.db) a b
       exact ⟨rfl, rfl, this.1, this.2.1, this.2.2.1, this.2.2.2⟩)

/-- two neighbours of the reader's list change places -/
theorem addStep_swap (S : Bib.St) (a b : Str × Bib.Entry) (hi : CISet.Inv S.db.citations)
    (h1 : Bib.keyFold a.1 ≠ Bib.keyFold b.1) (h2a : NoRef a b.1) (h2b : NoRef b a.1)
    (h3 : Bib.hasEntry S.db a.1 = false ∨ Bib.hasEntry S.db b.1 = false) :
    Eqv (addStep (addStep S a) b) (addStep (addStep S b) a) := by
  have sa := effect_status S hi a b.1 h1 h2a
  have sb := effect_status S hi b a.1 (Ne.symm h1) h2b
  rw [addStep_effect S a, addStep_effect S b, addStep_effect_of S _ b sa.1 sa.2.1 sa.2.2,
    addStep_effect_of S _ a sb.1 sb.2.1 sb.2.2]
  exact effect_comm S a b h3

/-! ### invariants of the fold -/

theorem added_citations (db : Bib.Db) (x : Str × Bib.Entry) : (added db x).citations = db.citations := by
  unfold added; split <;> rfl

theorem added_entries (db : Bib.Db) (x : Str × Bib.Entry) :
    (added db x).entries = db.entries ++ [{ x.2 with key := Bib.canonicalKey db x.1 }] := by
  unfold added; split <;> rfl

theorem addStep_citations (st : Bib.St) (ke : Str × Bib.Entry) : (addStep st ke).db.citations = st.db.citations := by
  rcases addStep_cases st ke with ⟨_, e⟩ | ⟨_, _, _, e⟩ | ⟨_, _, _, e⟩ | ⟨_, _, e⟩ <;> rw [e]
  · rfl
  · exact added_citations _ _

theorem foldl_addStep_citations (es : List (Str × Bib.Entry)) (st : Bib.St) :
    (es.foldl addStep st).db.citations = st.db.citations := by
  induction es generalizing st with
  | nil => rfl
  | cons ke es ih => rw [List.foldl_cons, ih, addStep_citations]

/-- the keys of the entries are pairwise different up to case -/
def NodupK (l : List Bib.Entry) : Prop := (l.map fun e => lower e.key).Nodup

theorem addStep_nodupK (st : Bib.St) (ke : Str × Bib.Entry) (hi : CISet.Inv st.db.citations)
    (h : NodupK st.db.entries) : NodupK (addStep st ke).db.entries := by
  rcases addStep_cases st ke with ⟨_, e⟩ | ⟨_, _, _, e⟩ | ⟨_, _, _, e⟩ | ⟨_, hh, e⟩ <;> rw [e]
  · exact h
  · exact h
  · exact h
  · show NodupK (added st.db ke).entries
    rw [added_entries]
    unfold NodupK at *
    rw [List.map_append, List.map_cons, List.map_nil]
    refine List.nodup_append.2 ⟨h, by simp, ?_⟩
    intro x hx y hy
    simp only [List.mem_singleton] at hy
    subst hy
    simp only [lower_canonicalKey hi]
    intro heq
    subst heq
    obtain ⟨e', he', hk⟩ := List.mem_map.1 hx
    have : Bib.hasEntry st.db ke.1 = true := by
      unfold Bib.hasEntry
      exact List.any_eq_true.2 ⟨e', he', decide_eq_true (lowerU_of_lower hk : Bib.keyFold e'.key = Bib.keyFold ke.1)⟩
    rw [hh] at this
    cases this

theorem foldl_addStep_nodupK (es : List (Str × Bib.Entry)) (st : Bib.St) (hi : CISet.Inv st.db.citations)
    (h : NodupK st.db.entries) : NodupK (es.foldl addStep st).db.entries := by
  induction es generalizing st with
  | nil => exact h
  | cons ke es ih =>
    rw [List.foldl_cons]
    exact ih _ (by rw [addStep_citations]; exact hi) (addStep_nodupK st ke hi h)

/-- a key that no entry of the list has (up to case) is not in the database afterwards -/
theorem foldl_addStep_hasEntry (es : List (Str × Bib.Entry)) (st : Bib.St) (hi : CISet.Inv st.db.citations) (k : Str)
    (h0 : Bib.hasEntry st.db k = false) (h : ∀ ke ∈ es, Bib.keyFold ke.1 ≠ Bib.keyFold k) :
    Bib.hasEntry (es.foldl addStep st).db k = false := by
  induction es generalizing st with
  | nil => exact h0
  | cons ke es ih =>
    rw [List.foldl_cons]
    refine ih _ (by rw [addStep_citations]; exact hi) ?_ (fun x hx => h x (List.mem_cons_of_mem _ hx))
    have hk := h ke (List.mem_cons_self ..)
    rcases addStep_cases st ke with ⟨_, e⟩ | ⟨_, _, _, e⟩ | ⟨_, _, _, e⟩ | ⟨_, _, e⟩ <;> rw [e]
    · exact h0
    · exact h0
    · exact h0
    · show Bib.hasEntry (added st.db ke) k = false
      unfold Bib.hasEntry at *
      rw [added_entries, List.any_append, h0]
      simp only [List.any_cons, List.any_nil, Bool.or_false, Bool.false_or, keyFold_canonicalKey hi]
      simpa using hk

/-! ### the same entries in another order: the same entry under every key -/

/-- the entry `READ` stores for a parsed entry -/
def conv (e : Bib.Entry) : Entry :=
  { key := e.key, type := e.type, fields := CIDict.ofPairs e.fields, persons := personsToStr e.persons }

theorem getItem_setItem {V : Type} (d : CIDict V) (k0 k : Str) (v0 : V) :
    (d.setItem k0 v0).getItem k = if lower k0 = lower k then some v0 else d.getItem k := by
  simp only [CIDict.getItem, CIDict.setItem]
  by_cases h : lower k0 = lower k
  · rw [if_pos h, h, dget_dset_same]
  · rw [if_neg h, dget_dset_ne _ _ _ _ (Ne.symm h)]

theorem foldl_setItem_getItem (l : List Bib.Entry) (d : CIDict Entry) (hn : NodupK l) (k : Str) (v : Entry) :
    (l.foldl (fun d e => d.setItem e.key (conv e)) d).getItem k = some v ↔
      (∃ e ∈ l, lower e.key = lower k ∧ v = conv e) ∨ ((∀ e ∈ l, lower e.key ≠ lower k) ∧ d.getItem k = some v) := by
  induction l generalizing d with
  | nil => simp
  | cons e l ih =>
    have hn' : NodupK l := (List.nodup_cons.1 hn).2
    have hne : ∀ e' ∈ l, lower e'.key ≠ lower e.key := by
      intro e' he' heq
      exact (List.nodup_cons.1 hn).1 (List.mem_map.2 ⟨e', he', heq⟩)
    rw [List.foldl_cons, ih _ hn', getItem_setItem]
    constructor
    · rintro (⟨e', he', hk, hv⟩ | ⟨hno, hg⟩)
      · exact .inl ⟨e', List.mem_cons_of_mem _ he', hk, hv⟩
      · by_cases hek : lower e.key = lower k
        · rw [if_pos hek] at hg
          cases hg
          exact .inl ⟨e, List.mem_cons_self .., hek, rfl⟩
        · rw [if_neg hek] at hg
          refine .inr ⟨?_, hg⟩
          intro e' he'
          rcases List.mem_cons.1 he' with rfl | he'
          · exact hek
          · exact hno e' he'
    · rintro (⟨e', he', hk, hv⟩ | ⟨hno, hg⟩)
      · rcases List.mem_cons.1 he' with rfl | he'
        · refine .inr ⟨?_, by rw [if_pos hk, hv]⟩
          intro e'' he'' heq
          exact hne e'' he'' (heq.trans hk.symm)
        · exact .inl ⟨e', he', hk, hv⟩
      · refine .inr ⟨fun e' he' => hno e' (List.mem_cons_of_mem _ he'), ?_⟩
        rw [if_neg (hno e (List.mem_cons_self ..))]
        exact hg

theorem convertDb_getItem_perm (db db' : Bib.Db) (hn : NodupK db.entries) (hp : db'.entries.Perm db.entries) (k : Str) :
    (convertDb db).entries.getItem k = (convertDb db').entries.getItem k := by
  have hn' : NodupK db'.entries := (hp.map _).nodup_iff.2 hn
  have key : ∀ v, (convertDb db).entries.getItem k = some v ↔ (convertDb db').entries.getItem k = some v := by
    intro v
    show (db.entries.foldl (fun d e => d.setItem e.key (conv e)) CIDict.empty).getItem k = some v ↔
      (db'.entries.foldl (fun d e => d.setItem e.key (conv e)) CIDict.empty).getItem k = some v
    rw [foldl_setItem_getItem _ _ hn, foldl_setItem_getItem _ _ hn']
    constructor
    · rintro (⟨e, he, h⟩ | ⟨hno, hg⟩)
      · exact .inl ⟨e, hp.mem_iff.2 he, h⟩
      · exact .inr ⟨fun e he => hno e (hp.mem_iff.1 he), hg⟩
    · rintro (⟨e, he, h⟩ | ⟨hno, hg⟩)
      · exact .inl ⟨e, hp.mem_iff.1 he, h⟩
      · exact .inr ⟨fun e he => hno e (hp.mem_iff.2 he), hg⟩
  cases h : (convertDb db).entries.getItem k with
  | some v => exact ((key v).1 h).symm
  | none =>
    cases h' : (convertDb db').entries.getItem k with
    | none => rfl
    | some v => rw [(key v).2 h'] at h; cases h

/-! ### the `READ` step on a reader's list with two neighbours exchanged -/

/-- decidable form of `NoRef`: the `crossref` value of `x`, if there is one, is neither `k` (up to
case) nor `*` -/
def NoRefD (x : Str × Bib.Entry) (k : Str) : Prop :=
  match Bib.findFieldCI x.2.fields "crossref".toList with
  | none => True
  | some cr => Spec.keq k cr = false ∧ Spec.keq ['*'] cr = false

instance (x : Str × Bib.Entry) (k : Str) : Decidable (NoRefD x k) := by
  unfold NoRefD; split <;> infer_instance

theorem noRef_of_D {x : Str × Bib.Entry} {k : Str} (h : NoRefD x k) : NoRef x k := by
  intro cr hx
  unfold NoRefD at h
  rw [hx] at h
  exact h

/-- the parser state `READ` reaches on the entry list `es` of a reader with preamble `pream` -/
def altParsed (s : St) (es : List (Str × Bib.Entry)) (pream : List Str) : Bib.St :=
  es.foldl addStep { readSt0 s with db := { (readSt0 s).db with preamble := pream } }

theorem readParsed_alt (ts : List Str) (cits : List Str) (mc : Int) (es : List (Str × Bib.Entry)) (pream : List Str) (s : St) :
    readParsed { bibTexts := ts, citations := cits, minCrossrefs := mc, alt := some (es, pream) } s = altParsed s es pream := rfl

theorem altParsed_swap (s : St) (epre epost : List (Str × Bib.Entry)) (a b : Str × Bib.Entry) (pream : List Str)
    (h1 : Bib.keyFold a.1 ≠ Bib.keyFold b.1) (h2a : NoRefD a b.1) (h2b : NoRefD b a.1)
    (h3 : (∀ ke ∈ epre, Bib.keyFold ke.1 ≠ Bib.keyFold a.1) ∨ (∀ ke ∈ epre, Bib.keyFold ke.1 ≠ Bib.keyFold b.1)) :
    Eqv (altParsed s (epre ++ a :: b :: epost) pream) (altParsed s (epre ++ b :: a :: epost) pream) ∧
    NodupK (altParsed s (epre ++ a :: b :: epost) pream).db.entries := by
  have hi0 : CISet.Inv ({ readSt0 s with db := { (readSt0 s).db with preamble := pream } } : Bib.St).db.citations :=
    (CISet.ofList_spec s.citations).1
  constructor
  · simp only [altParsed, List.foldl_append, List.foldl_cons]
    refine foldl_addStep_eqv epost (addStep_swap _ a b ?_ h1 (noRef_of_D h2a) (noRef_of_D h2b) ?_)
    · rw [foldl_addStep_citations]; exact hi0
    · rcases h3 with h3 | h3
      · exact .inl (foldl_addStep_hasEntry epre _ hi0 a.1 rfl h3)
      · exact .inr (foldl_addStep_hasEntry epre _ hi0 b.1 rfl h3)
  · exact foldl_addStep_nodupK _ _ hi0 (by simp [NodupK, readSt0])

end Pybtex.Engine
