/-
Line bookkeeping for the located-error theorems: the `\n`s of the clean text in front of a lexeme
are the line breaks of the source in front of it; the last line.
-/
import PybtexModel.Lemmas.BstPrefix

namespace Pybtex.Bst
open Pybtex.Scanner

theorem lex_text_nosep (l : Lex) (hl : wfLex l = true) : ∀ c ∈ l.text, isLineSep c = false := by
  cases l with
  | word s =>
    intro c hc
    have : nameChar c = true := by
      cases s with
      | nil => cases hc
      | cons d s => simp only [wfLex, List.all_eq_true] at hl; exact hl c hc
    exact (nameChar_props this).1
  | int v =>
    intro c hc
    have hd : ∀ c ∈ Nat.toDigits 10 v.natAbs, isLineSep c = false :=
      fun c hc => (isDigit_props (toDigits_all_digit _ c hc)).1
    simp only [Lex.text, intText] at hc
    split at hc
    · simp only [List.mem_cons] at hc
      rcases hc with rfl | rfl | hc
      · simp [isLineSep, lineSepCodes]
      · simp [isLineSep, lineSepCodes]
      · exact hd c hc
    · simp only [List.mem_cons] at hc
      rcases hc with rfl | hc
      · simp [isLineSep, lineSepCodes]
      · exact hd c hc
  | str s =>
    simp only [wfLex, wfStr, List.all_eq_true, Bool.and_eq_true, bne_iff_ne, ne_eq,
      Bool.not_eq_true'] at hl
    intro c hc
    simp only [Lex.text, List.mem_cons, List.mem_append, List.not_mem_nil, or_false] at hc
    rcases hc with rfl | hc | rfl
    · simp [isLineSep, lineSepCodes]
    · exact (hl c hc).2
    · simp [isLineSep, lineSepCodes]
  | lb => intro c hc; simp [Lex.text] at hc; subst hc; simp [isLineSep, lineSepCodes]
  | rb => intro c hc; simp [Lex.text] at hc; subst hc; simp [isLineSep, lineSepCodes]

/-- line breaks add up over a concatenation that does not split a `\r\n` -/
theorem breaks_append (x y : Str) (hy : headSat (fun c => c = '\n') y = false) :
    breaks (x ++ y) = breaks x + breaks y := by
  induction x using breaks.induct with
  | case1 => simp [breaks]
  | case2 r ih => simp only [List.cons_append, breaks]; rw [ih]; omega
  | case3 c r hcr hsep ih =>
    have hcr' : ∀ r', c = '\r' → r ++ y = '\n' :: r' → False := by
      intro r' hc he
      cases r with
      | nil => simp at he; subst he; simp [headSat] at hy
      | cons d r => simp at he; exact hcr _ hc (by rw [he.1])
    rw [List.cons_append, breaks.eq_3 c _ hcr', breaks.eq_3 c r hcr]
    simp only [hsep, if_true]; rw [ih]; omega
  | case4 c r hcr hsep ih =>
    have hcr' : ∀ r', c = '\r' → r ++ y = '\n' :: r' → False := by
      intro r' hc he
      cases r with
      | nil => simp at he; subst he; simp [headSat] at hy
      | cons d r => simp at he; exact hcr _ hc (by rw [he.1])
    rw [List.cons_append, breaks.eq_3 c _ hcr', breaks.eq_3 c r hcr]
    simp only [hsep, if_false]; exact ih

theorem tstart_no_nl {t : Str} (h : Tstart t) : headSat (fun c => c = '\n') t = false := by
  cases t with
  | nil => rfl
  | cons c t =>
    simp only [Tstart, headSat] at h ⊢
    cases hc : decide (c = '\n') with
    | false => rfl
    | true => simp at hc; subst hc; simp [isLineSep, lineSepCodes] at h

/-- the clean text in front of lexeme `i` -/
def cleanBefore : List Lex → List Str → Nat → Str
  | [], _, _ => []
  | _ :: _, W, 0 => W.headD []
  | l :: ls, W, i + 1 => W.headD [] ++ (l.text ++ cleanBefore ls W.tail i)

theorem renderW_split (a : List Lex) (bad : Lex) (more : List Lex) (W : List Str) :
    renderW (a ++ bad :: more) W
      = cleanBefore (a ++ bad :: more) W a.length
        ++ (bad.text ++ renderW more (W.drop (a.length + 1))) := by
  induction a generalizing W with
  | nil => simp [renderW, cleanBefore]
  | cons x a ih =>
    simp only [List.cons_append, renderW, List.length_cons, cleanBefore, List.append_assoc]
    rw [ih W.tail, tail_drop]

/-- **stage "lay-out", general form**: a printed lexeme sequence followed by any text `t` that
does not start with a line break.  Besides the clean form, the `\n`s in front of every lexeme
are the line breaks of the source in front of it. -/
theorem pre_render_tail : ∀ (ls : List Lex) (prev : Option Lex) (gaps : List Gap) (t : Str),
    Tstart t → (∀ l ∈ ls, wfLex l = true) →
    ∃ W, GoodW prev ls W ∧
      preSM false false (render prev ls gaps ++ t) = renderW ls W ++ preSM false false t ∧
      (∀ i, i < ls.length → nl (cleanBefore ls W i) = breaks (textBefore prev ls gaps i)) ∧
      (t ≠ [] → nl (renderW ls W) = breaks (render prev ls gaps)) := by
  intro ls
  induction ls with
  | nil =>
    intro prev gaps t ht _
    obtain ⟨w, hw, he, _, hbr⟩ := gap_pre (gaps.headD []) t ht
    refine ⟨[w], by simpa [GoodW] using hw, ?_, by simp, ?_⟩
    · simp only [render, renderW, List.headD_cons]; exact he
    · intro h; simpa [render, renderW] using hbr h
  | cons l ls ih =>
    intro prev gaps t ht hwf
    have hl := hwf l (by simp)
    obtain ⟨W', hgood', hpre', hlines', hlast'⟩ :=
      ih (some l) gaps.tail t ht (fun x hx => hwf x (by simp [hx]))
    obtain ⟨g', hg', hgne⟩ := sepText_gap prev l (gaps.headD [])
    obtain ⟨hts, htne⟩ := lex_tstart l hl (render (some l) ls gaps.tail ++ t)
    obtain ⟨w, hw, he, hne, hbr⟩ := gap_pre g' _ hts
    have hbw : nl w = breaks (sepText prev l (gaps.headD [])) := by rw [hg']; exact hbr htne
    have hok := wfLex_ok l hl
    have hnosep := lex_text_nosep l hl
    -- line breaks of `sep ++ (text ++ x)` for any x
    have hsplit : ∀ x : Str, breaks (sepText prev l (gaps.headD []) ++ (l.text ++ x))
        = breaks (sepText prev l (gaps.headD [])) + breaks x := by
      intro x
      rw [breaks_append _ _ (tstart_no_nl (lex_tstart l hl x).1), breaks_nosep_append _ _ hnosep]
    refine ⟨w :: W', ⟨by simpa using hw, ?_, by simpa using hgood'⟩, ?_, ?_, ?_⟩
    · intro hn; simpa using hne (hgne hn) htne
    · simp only [render, renderW, List.headD_cons, List.tail_cons, List.append_assoc]
      rw [hg', he, preSM_lex l hl, hpre']
    · intro i hi
      cases i with
      | zero => simpa [cleanBefore, textBefore] using hbw
      | succ i =>
        simp only [cleanBefore, textBefore, List.headD_cons, List.tail_cons]
        rw [hsplit, nl_append, nl_append, lex_text_no_nl l hok, hbw,
          hlines' i (by simp at hi; omega)]
        omega
    · intro h
      simp only [render, renderW, List.headD_cons, List.tail_cons]
      rw [hsplit, nl_append, nl_append, lex_text_no_nl l hok, hbw, hlast' h]
      omega

/-! the last line -/

theorem mem_stripGo {c : Char} {b : Bool} {l : Str} (h : c ∈ stripGo b l) : c ∈ l := by
  induction l generalizing b with
  | nil => simp [stripGo] at h
  | cons d l ih =>
    simp only [stripGo] at h
    split at h
    · cases h
    · split at h
      · simp only [List.mem_cons] at h ⊢
        rcases h with h | h
        · exact Or.inl h
        · exact Or.inr (ih h)
      · simp only [List.mem_cons] at h ⊢
        rcases h with h | h
        · exact Or.inl h
        · exact Or.inr (ih h)

theorem splitLines_nosep : ∀ (s : Str), ∀ l ∈ splitLines s, ∀ c ∈ l, isLineSep c = false := by
  intro s
  induction s using splitLines.induct with
  | case1 => intro l hl; simp [splitLines] at hl
  | case2 r ih =>
    intro l hl
    simp only [splitLines, List.mem_cons] at hl
    rcases hl with rfl | hl
    · intro c hc; cases hc
    · exact ih l hl
  | case3 c r hcr hsep ih =>
    intro l hl
    rw [splitLines.eq_3 c r hcr, if_pos hsep] at hl
    simp only [List.mem_cons] at hl
    rcases hl with rfl | hl
    · intro c hc; cases hc
    · exact ih l hl
  | case4 c r hcr hsep hnil ih =>
    intro l hl
    rw [splitLines.eq_3 c r hcr, if_neg hsep, hnil] at hl
    simp only [List.mem_cons, List.not_mem_nil, or_false] at hl
    subst hl
    intro d hd
    simp only [List.mem_cons, List.not_mem_nil, or_false] at hd
    subst hd; simpa using hsep
  | case5 c r hcr hsep l' ls hls ih =>
    intro l hl
    rw [splitLines.eq_3 c r hcr, if_neg hsep, hls] at hl
    simp only [List.mem_cons] at hl
    rcases hl with rfl | hl
    · intro d hd
      simp only [List.mem_cons] at hd
      rcases hd with rfl | hd
      · simpa using hsep
      · exact ih l' (by rw [hls]; simp) d hd
    · exact ih l (by rw [hls]; simp [hl])

theorem nl_joinWith (xs : List Str) (h : ∀ x ∈ xs, nl x = 0) :
    nl (joinWith ['\n'] xs) = xs.length - 1 := by
  induction xs with
  | nil => simp [joinWith, nl]
  | cons x xs ih =>
    cases xs with
    | nil => simpa [joinWith] using h x (by simp)
    | cons y ys =>
      have := ih (fun z hz => h z (by simp [hz]))
      simp only [joinWith, nl_append, h x (by simp), this]
      simp [nl]; omega

/-- `1 +` the number of `\n` in the text handed to the parser is the number of the last line -/
theorem last_line (src : Str) : 1 + nl (stringText src) = eofLine src := by
  unfold stringText eofLine
  rw [nl_joinWith]
  · simp only [List.length_map]; omega
  · intro x hx
    simp only [List.mem_map] at hx
    obtain ⟨l, hl, rfl⟩ := hx
    unfold nl
    rw [List.count_eq_zero]
    intro hm
    have := splitLines_nosep src l hl '\n' (mem_stripGo hm)
    simp [isLineSep, lineSepCodes] at this

end Pybtex.Bst
