/-
Literal constructors on the text of lexemes, and an induction principle for nested token lists.
-/
import PybtexModel.Lemmas.BstToken

namespace Pybtex.Bst
open Pybtex.Scanner

theorem processIdentifier_eq (s : Str) : processIdentifier s = wordTok s := by
  unfold processIdentifier wordTok
  split <;> simp_all

theorem mkLiteral_word (s : Str) : mkLiteral .name s = wordTok s := by
  simp [mkLiteral, processIdentifier_eq]

theorem mkLiteral_str (s : Str) : mkLiteral .string ('"' :: (s ++ ['"'])) = .str s := by
  simp only [mkLiteral, processStringLiteral, pySlice, pyNorm]
  have h1 : ¬ ((1 : Int) < 0) := by omega
  have h2 : ((-1 : Int) < 0) := by omega
  simp only [h1, h2, if_true, if_false, List.length_cons, List.length_append, List.length_nil]
  have e1 : min (1 : Int).toNat (s.length + (0 + 1) + 1) = 1 := by simp
  have e2 : ((-1 : Int) + ((s.length + (0 + 1) + 1 : Nat) : Int)).toNat = s.length + 1 := by omega
  rw [e1, e2]
  simp

theorem dropWhile_of_head (p : Char → Bool) (l : Str) (h : headSat p l = false) :
    l.dropWhile p = l := by
  cases l with
  | nil => rfl
  | cons c l => simp [headSat] at h; simp [List.dropWhile, h]

theorem stripHash_body (body : Str) (x : Char) (init : Str) (hb : body = init ++ [x])
    (hx : x ≠ '#') (hh : headSat (· = '#') body = false) : stripHash ('#' :: body) = body := by
  unfold stripHash
  have h1 : ('#' :: body).dropWhile (fun c => decide (c = '#')) = body := by
    simp only [List.dropWhile, decide_true]
    exact dropWhile_of_head _ _ (by simpa [headSat] using hh)
  rw [h1, hb]
  simp [hx]

theorem getLast_decomp (l : Str) (h : l ≠ []) : ∃ init x, l = init ++ [x] ∧ x ∈ l := by
  refine ⟨l.dropLast, l.getLast h, (List.dropLast_concat_getLast h).symm, List.getLast_mem h⟩

theorem mkLiteral_int (v : Int) : mkLiteral .integer (intText v) = .int v := by
  simp only [mkLiteral, processIntLiteral]
  have hne := @Nat.toDigits_ne_nil v.natAbs 10
  obtain ⟨init, x, hdx, hxm⟩ := getLast_decomp _ hne
  have hxd : isDigit x = true := toDigits_all_digit _ x hxm
  cases hd : Nat.toDigits 10 v.natAbs with
  | nil => exact absurd hd hne
  | cons d ds =>
    have hdd : isDigit d = true := toDigits_all_digit v.natAbs d (by rw [hd]; simp)
    have hval := @Nat.ofDigitChars_ten_toDigits v.natAbs
    unfold intText
    by_cases hv : v < 0
    · simp only [hv, if_true]
      rw [stripHash_body ('-' :: Nat.toDigits 10 v.natAbs) x ('-' :: init) (by rw [hdx]; simp)
        (isDigit_ne_hash hxd) (by simp [headSat])]
      simp only [pyInt, hval]
      congr 1; omega
    · simp only [hv, if_false]
      rw [stripHash_body (Nat.toDigits 10 v.natAbs) x init hdx (isDigit_ne_hash hxd)
        (by rw [hd]; simpa [headSat] using isDigit_ne_hash hdd)]
      have hdm := isDigit_ne_minus hdd
      have : pyInt (Nat.toDigits 10 v.natAbs) = ((Nat.ofDigitChars 10 (Nat.toDigits 10 v.natAbs) 0 : Nat) : Int) := by
        rw [hd]; unfold pyInt
        split
        · rename_i r heq; simp at heq; exact absurd heq.1 hdm
        · rfl
      rw [this, hval]
      congr 1; omega

/-! size of nested token lists and the induction principle it gives -/

mutual
  def sizeTok : Tok → Nat
    | .fn body => sizeToks body + 1
    | _ => 1
  def sizeToks : List Tok → Nat
    | [] => 0
    | t :: ts => sizeTok t + sizeToks ts
end

theorem sizeTok_pos (t : Tok) : 0 < sizeTok t := by
  cases t <;> simp [sizeTok]

/-- a token that is not a function literal -/
def Tok.simple : Tok → Bool
  | .fn _ => false
  | _ => true

theorem toks_induction (P : List Tok → Prop) (hnil : P [])
    (hsimple : ∀ t ts, t.simple = true → P ts → P (t :: ts))
    (hfn : ∀ body ts, P body → P ts → P (.fn body :: ts)) : ∀ ts, P ts := by
  suffices h : ∀ n ts, sizeToks ts ≤ n → P ts from fun ts => h _ ts (Nat.le_refl _)
  intro n
  induction n with
  | zero =>
    intro ts h
    cases ts with
    | nil => exact hnil
    | cons t ts => have := sizeTok_pos t; simp [sizeToks] at h; omega
  | succ n ih =>
    intro ts h
    cases ts with
    | nil => exact hnil
    | cons t ts =>
      have hp := sizeTok_pos t
      simp only [sizeToks] at h
      cases t with
      | fn body =>
        simp only [sizeTok] at h
        exact hfn body ts (ih body (by omega)) (ih ts (by omega))
      | int v => exact hsimple _ ts rfl (ih ts (by omega))
      | str s => exact hsimple _ ts rfl (ih ts (by omega))
      | quoted s => exact hsimple _ ts rfl (ih ts (by omega))
      | name s => exact hsimple _ ts rfl (ih ts (by omega))

end Pybtex.Bst
