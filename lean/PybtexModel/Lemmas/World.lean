/-
Lemmas for C18 (no state leaks): the invariant of `memoize`, transparency of a memoised call,
and the simulation / frame lemmas of every state transformer of `Model/World.lean`.
-/
import PybtexModel.Model.World

namespace Pybtex.Proc

/-! ## association lists -/
section
variable {K V E σ : Type} [DecidableEq K]

theorem dget_none_iff (m : List (K × V)) (k : K) : dget m k = none ↔ k ∉ m.map Prod.fst := by
  induction m with
  | nil => simp [dget]
  | cons p m ih =>
    obtain ⟨a, v⟩ := p
    by_cases h : a = k
    · simp [dget, h]
    · simp only [dget, if_neg h, ih, List.map_cons, List.mem_cons]
      constructor
      · intro hn hk
        rcases hk with hk | hk
        · exact h hk.symm
        · exact hn hk
      · intro hn hk
        exact hn (Or.inr hk)

theorem dget_some_mem (m : List (K × V)) (k : K) (v : V) (h : dget m k = some v) : (k, v) ∈ m := by
  induction m with
  | nil => simp [dget] at h
  | cons p m ih =>
    obtain ⟨a, x⟩ := p
    by_cases ha : a = k
    · simp only [dget, if_pos ha, Option.some.injEq] at h
      subst ha; subst h
      exact List.mem_cons_self
    · simp only [dget, if_neg ha] at h
      exact List.mem_cons_of_mem _ (ih h)

/-! ## `memoize` -/

/-- The invariant of the closure of `memoize(f, capacity)` where `g` is what `f` computes:
the cache is part of the graph of `g` (only values are stored, never exceptions), it holds at most
`capacity` entries, and `history` lists exactly the keys of the cache, oldest first, each once. -/
structure Memo.Inv (cap : Nat) (g : K → MRes E V) (c : Memo K V) : Prop where
  graph : ∀ k v, (k, v) ∈ c.memory → g k = .val v
  size : c.memory.length ≤ cap
  hist : c.history = c.memory.map Prod.fst
  nodup : c.history.Nodup

omit [DecidableEq K] in
theorem Memo.inv_empty (cap : Nat) (g : K → MRes E V) : Memo.Inv cap g (Memo.empty : Memo K V) :=
  ⟨by simp [Memo.empty], by simp [Memo.empty], by simp [Memo.empty], by simp [Memo.empty]⟩

/-- Under the invariant (and a positive capacity) making room never fails, evicts exactly the
OLDEST entry when the cache is full, and leaves room for one more entry. -/
theorem Memo.makeRoom_spec {cap : Nat} (hcap : 0 < cap) {g : K → MRes E V} {c : Memo K V}
    (hc : Memo.Inv cap g c) :
    (Memo.makeRoom cap c).1 = true ∧ Memo.Inv cap g (Memo.makeRoom cap c).2 ∧
    (Memo.makeRoom cap c).2.memory.length + 1 ≤ cap ∧
    (∀ p, p ∈ (Memo.makeRoom cap c).2.memory → p ∈ c.memory) ∧
    ((Memo.makeRoom cap c).2 = c ∨ (Memo.makeRoom cap c).2 = ⟨c.memory.drop 1, c.history.drop 1⟩) := by
  obtain ⟨mem, his⟩ := c
  have hh := hc.hist
  have hlen : his.length = mem.length := by simp only [] at hh; rw [hh]; simp
  simp only [Memo.makeRoom]
  by_cases hfull : his.length ≥ cap
  · rw [if_pos hfull]
    cases mem with
    | nil => simp only [List.length_nil] at hlen; omega
    | cons p m =>
      obtain ⟨k0, v0⟩ := p
      simp only [List.map_cons] at hh
      subst hh
      have hsz := hc.size
      have hnd := hc.nodup
      simp only [List.length_cons] at hsz hlen
      simp only [dictDel, if_true]
      refine ⟨by first | rfl | trivial, ⟨?_, ?_, ?_, ?_⟩, ?_, ?_, Or.inr ?_⟩
      · intro k v hkv; exact hc.graph k v (List.mem_cons_of_mem _ hkv)
      · show m.length ≤ cap; omega
      · rfl
      · exact (List.nodup_cons.1 hnd).2
      · show m.length + 1 ≤ cap; omega
      · intro p hp; exact List.mem_cons_of_mem _ hp
      · simp
  · rw [if_neg hfull]
    refine ⟨by first | rfl | trivial, hc, ?_, fun p hp => hp, Or.inl rfl⟩
    show mem.length + 1 ≤ cap; omega

/-- TRANSPARENCY of `memoize`.  Let `f` compute `g` in every state that satisfies `P` (and keep
`P`).  Then from any closure satisfying the invariant a memoised call returns `g k` — whatever was
called before —, re-establishes the invariant and keeps `P`. -/
theorem Memo.callS_spec {cap : Nat} (hcap : 0 < cap) {f : K → σ → MRes E V × σ} {g : K → MRes E V}
    {P : σ → Prop} (hf : ∀ k s, P s → (f k s).1 = g k ∧ P (f k s).2)
    {c : Memo K V} (hc : Memo.Inv cap g c) {s : σ} (hs : P s) (k : K) :
    (Memo.callS cap f c k s).1 = g k ∧ Memo.Inv cap g (Memo.callS cap f c k s).2.1 ∧
    P (Memo.callS cap f c k s).2.2 := by
  simp only [Memo.callS]
  cases hget : dget c.memory k with
  | some v =>
    simp only []
    exact ⟨(hc.graph k v (dget_some_mem _ _ _ hget)).symm, hc, hs⟩
  | none =>
    simp only []
    obtain ⟨h1, h2, h3, h4, _⟩ := Memo.makeRoom_spec hcap hc
    rcases hmr : Memo.makeRoom cap c with ⟨b, c1⟩
    rw [hmr] at h1 h2 h3 h4
    simp only [] at h1 h2 h3 h4
    subst h1
    simp only []
    obtain ⟨hf1, hf2⟩ := hf k s hs
    rcases hfk : f k s with ⟨r, s1⟩
    rw [hfk] at hf1 hf2
    simp only [] at hf1 hf2
    cases r with
    | raised e => exact ⟨hf1, h2, hf2⟩
    | internal => exact ⟨hf1, h2, hf2⟩
    | val v =>
      simp only []
      refine ⟨hf1, ⟨?_, ?_, ?_, ?_⟩, hf2⟩
      · intro k' v' hm
        rcases List.mem_append.1 hm with hm | hm
        · exact h2.graph k' v' hm
        · simp only [List.mem_singleton, Prod.mk.injEq] at hm
          obtain ⟨rfl, rfl⟩ := hm
          exact hf1.symm
      · simp only [List.length_append, List.length_singleton]; exact h3
      · simp only [List.map_append, List.map_cons, List.map_nil]; rw [h2.hist]
      · have hk : k ∉ c.memory.map Prod.fst := (dget_none_iff _ _).1 hget
        have hk1 : k ∉ c1.history := by
          rw [h2.hist]
          intro hmem
          obtain ⟨p, hp, hpk⟩ := List.mem_map.1 hmem
          exact hk (List.mem_map.2 ⟨p, h4 p hp, hpk⟩)
        simp only []
        rw [List.nodup_append]
        refine ⟨h2.nodup, by simp, ?_⟩
        intro a ha b hb
        simp only [List.mem_singleton] at hb
        subst hb
        intro hab
        subst hab
        exact hk1 ha

theorem Memo.call_spec {cap : Nat} (hcap : 0 < cap) (f : K → MRes E V) {c : Memo K V}
    (hc : Memo.Inv cap f c) (k : K) :
    (Memo.call cap f c k).1 = f k ∧ Memo.Inv cap f (Memo.call cap f c k).2 := by
  have h := Memo.callS_spec (σ := Unit) (P := fun _ => True) hcap
    (f := fun k (_ : Unit) => (f k, ())) (g := f) (fun _ _ _ => ⟨rfl, trivial⟩) hc (s := ()) trivial k
  exact ⟨h.1, h.2.1⟩

theorem Memo.run_inv {cap : Nat} (hcap : 0 < cap) (f : K → MRes E V) {c : Memo K V}
    (hc : Memo.Inv cap f c) (ks : List K) : Memo.Inv cap f (Memo.run cap f c ks) := by
  induction ks generalizing c with
  | nil => exact hc
  | cons k ks ih => exact ih (Memo.call_spec hcap f hc k).2

/-- the observer's trace of a memoised function is the trace of the function itself -/
theorem Memo.trace_results {cap : Nat} (hcap : 0 < cap) (f : K → MRes E V) {c : Memo K V}
    (hc : Memo.Inv cap f c) (ks : List K) : (Memo.trace cap f c ks).map Prod.fst = ks.map f := by
  induction ks generalizing c with
  | nil => rfl
  | cons k ks ih =>
    simp only [Memo.trace, List.map_cons]
    rw [(Memo.call_spec hcap f hc k).1, ih (Memo.call_spec hcap f hc k).2]

end

/-! ## the world: what the caches must satisfy, simulation, frame -/

theorem cap_pos : 0 < cap := by decide

/-- what `_split_names` computes -/
def gSplit (F : Fns) : Str → MRes Err (List Str) := fun s => .val (F.splitNames s)

/-- what the memoised name formatter computes: a function of its three arguments only -/
def gFmt (F : Fns) (key : FmtKey) : MRes Err (Str × List Err) :=
  match pyIndex (F.splitNames key.names) (key.n - 1) with
  | none => .raised .indexError
  | some name => F.formatOne name key.fmt

/-- both caches satisfy the invariant of `memoize` -/
structure CachesInv (F : Fns) (w : World) : Prop where
  split : Memo.Inv cap (gSplit F) w.splitCache
  fmt : Memo.Inv cap (gFmt F) w.fmtCache

theorem cachesInv_fresh (F : Fns) : CachesInv F World.fresh :=
  ⟨Memo.inv_empty _ _, Memo.inv_empty _ _⟩

/-- Two worlds that agree on everything except the CONTENTS of the two caches (both satisfying the
invariant) and — when the flag `ec` is `false` — `error_code`.  With `ec = true` they agree on
`error_code` too (used inside a command-line `main()`, which resets it and reads it at the end). -/
structure Sim (F : Fns) (ec : Bool) (w1 w2 : World) : Prop where
  months : w1.months = w2.months
  strict : w1.strict = w2.strict
  captured : w1.captured = w2.captured
  plugins : w1.plugins = w2.plugins
  inv1 : CachesInv F w1
  inv2 : CachesInv F w2
  code : ec = true → w1.errorCode = w2.errorCode

theorem Sim.rfl' {F : Fns} {ec : Bool} {w : World} (h : CachesInv F w) : Sim F ec w w :=
  ⟨rfl, rfl, rfl, rfl, h, h, fun _ => rfl⟩

/-- same result, similar worlds -/
def SimOut (F : Fns) (ec : Bool) {α : Type} (a b : World × α) : Prop := a.2 = b.2 ∧ Sim F ec a.1 b.1

/-- What a call may change: nothing of the month table, `strict`, the plug-in registry; and
`captured_errors` stays `None` if it was (it only ever grows inside a `capture()`). -/
structure Frame (w w' : World) : Prop where
  months : w'.months = w.months
  strict : w'.strict = w.strict
  plugins : w'.plugins = w.plugins
  capNone : w.captured = none → w'.captured = none
  capSome : w.captured.isSome = true → w'.captured.isSome = true

theorem Frame.refl (w : World) : Frame w w := ⟨rfl, rfl, rfl, id, id⟩

theorem Frame.trans {a b c : World} (h1 : Frame a b) (h2 : Frame b c) : Frame a c :=
  ⟨h2.months.trans h1.months, h2.strict.trans h1.strict, h2.plugins.trans h1.plugins,
   fun h => h2.capNone (h1.capNone h), fun h => h2.capSome (h1.capSome h)⟩

/-! ### `report_error` -/

theorem report_sim {F : Fns} {ec : Bool} {w1 w2 : World} (hs : Sim F ec w1 w2) (e : Err) :
    SimOut F ec (report w1 e) (report w2 e) := by
  obtain ⟨hm, hst, hc, hp, i1, i2, hcode⟩ := hs
  cases h2 : w2.captured with
  | some l =>
    have h1 : w1.captured = some l := hc.trans h2
    simp only [report, h1, h2, SimOut]
    exact ⟨trivial, hm, hst, rfl, hp, ⟨i1.split, i1.fmt⟩, ⟨i2.split, i2.fmt⟩, hcode⟩
  | none =>
    have h1 : w1.captured = none := hc.trans h2
    cases hs2 : w2.strict with
    | true =>
      have hs1 : w1.strict = true := hst.trans hs2
      simp only [report, h1, h2, hs1, hs2, SimOut, if_true]
      exact ⟨trivial, hm, hst, hc, hp, i1, i2, hcode⟩
    | false =>
      have hs1 : w1.strict = false := hst.trans hs2
      simp only [report, h1, h2, hs1, hs2, SimOut, Bool.false_eq_true, if_false]
      exact ⟨trivial, hm, rfl, rfl, hp, ⟨i1.split, i1.fmt⟩, ⟨i2.split, i2.fmt⟩, fun _ => rfl⟩

theorem report_frame (w : World) (e : Err) : Frame w (report w e).1 := by
  cases h : w.captured with
  | some l =>
    simp only [report, h]
    exact ⟨rfl, rfl, rfl, (fun h' => by rw [h] at h'; cases h'), (fun _ => rfl)⟩
  | none =>
    cases hs : w.strict with
    | true =>
      simp only [report, h, hs, if_true]
      exact Frame.refl w
    | false =>
      simp only [report, h, hs, Bool.false_eq_true, if_false]
      exact ⟨rfl, hs.symm, rfl, (fun _ => rfl), (fun h' => by rw [h] at h'; cases h')⟩

theorem reportK_sim {F : Fns} {ec : Bool} {β : Type} {w1 w2 : World} (hs : Sim F ec w1 w2) (e : Err) (r : β)
    {k1 k2 : World → World × β} (hk : ∀ a1 a2, Sim F ec a1 a2 → SimOut F ec (k1 a1) (k2 a2)) :
    SimOut F ec (reportK w1 e r k1) (reportK w2 e r k2) := by
  have h := report_sim hs e
  simp only [reportK]
  rcases h1 : report w1 e with ⟨a1, b1⟩
  rcases h2 : report w2 e with ⟨a2, b2⟩
  rw [h1, h2] at h
  obtain ⟨hb, ha⟩ := h
  simp only [] at hb ha
  subst hb
  cases b1 with
  | true => exact ⟨rfl, ha⟩
  | false => exact hk a1 a2 ha

theorem reportK_frame {β : Type} (w : World) (e : Err) (r : β) {k : World → World × β}
    (hk : ∀ a, Frame a (k a).1) : Frame w (reportK w e r k).1 := by
  have h := report_frame w e
  simp only [reportK]
  rcases h1 : report w e with ⟨a1, b1⟩
  rw [h1] at h
  cases b1 with
  | true => exact h
  | false => exact h.trans (hk a1)

theorem bindE_sim {F : Fns} {ec : Bool} {α β : Type} {x1 x2 : World × Except Err α} (hx : SimOut F ec x1 x2)
    {k1 k2 : World → α → World × Except Err β}
    (hk : ∀ a1 a2 v, Sim F ec a1 a2 → SimOut F ec (k1 a1 v) (k2 a2 v)) :
    SimOut F ec (bindE x1 k1) (bindE x2 k2) := by
  obtain ⟨a1, r1⟩ := x1
  obtain ⟨a2, r2⟩ := x2
  obtain ⟨hr, ha⟩ := hx
  simp only [] at hr ha
  subst hr
  cases r1 with
  | error e => exact ⟨rfl, ha⟩
  | ok v => exact hk a1 a2 v ha

theorem bindE_frame {α β : Type} {w : World} {x : World × Except Err α} (hx : Frame w x.1)
    {k : World → α → World × Except Err β} (hk : ∀ a v, Frame a (k a v).1) :
    Frame w (bindE x k).1 := by
  obtain ⟨a, r⟩ := x
  cases r with
  | error e => exact hx
  | ok v => exact hx.trans (hk a v)

theorem reportAll_sim {F : Fns} {ec : Bool} {α : Type} {w1 w2 : World} (hs : Sim F ec w1 w2) (errs : List Err) (v : α) :
    SimOut F ec (reportAll w1 errs v) (reportAll w2 errs v) := by
  induction errs generalizing w1 w2 with
  | nil => exact ⟨rfl, hs⟩
  | cons e es ih => exact reportK_sim hs e _ (fun a1 a2 ha => ih ha)

theorem reportAll_frame {α : Type} (w : World) (errs : List Err) (v : α) : Frame w (reportAll w errs v).1 := by
  induction errs generalizing w with
  | nil => exact Frame.refl w
  | cons e es ih => exact reportK_frame w e _ (fun a => ih a)

/-! ### `format.name$` -/

theorem fmtBody_spec (F : Fns) (key : FmtKey) {sc : Memo Str (List Str)} (hsc : Memo.Inv cap (gSplit F) sc) :
    (fmtBody F key sc).1 = gFmt F key ∧ Memo.Inv cap (gSplit F) (fmtBody F key sc).2 := by
  have h := Memo.call_spec cap_pos (gSplit F) hsc key.names
  simp only [fmtBody, splitCall]
  rcases hc : Memo.call cap (gSplit F) sc key.names with ⟨r, sc1⟩
  have hc' : Memo.call cap (fun s => MRes.val (F.splitNames s)) sc key.names = (r, sc1) := hc
  rw [hc] at h
  obtain ⟨h1, h2⟩ := h
  simp only [] at h1 h2
  rw [hc']
  subst h1
  simp only [gSplit, gFmt]
  cases pyIndex (F.splitNames key.names) (key.n - 1) with
  | none => exact ⟨rfl, h2⟩
  | some name => exact ⟨rfl, h2⟩

/-- The memoised formatter, from ANY state of the two caches that satisfies the invariant, behaves
as the un-memoised function followed by its reports; the invariant is kept. -/
theorem formatNameCall_eq (F : Fns) {w : World} (hw : CachesInv F w) (key : FmtKey) :
    ∃ fc sc, Memo.Inv cap (gFmt F) fc ∧ Memo.Inv cap (gSplit F) sc ∧
      formatNameCall F w key =
        match gFmt F key with
        | .val (s, errs) => reportAll { w with fmtCache := fc, splitCache := sc } errs s
        | .raised e => ({ w with fmtCache := fc, splitCache := sc }, .raised e)
        | .internal => ({ w with fmtCache := fc, splitCache := sc }, .internal) := by
  have h := Memo.callS_spec (P := Memo.Inv cap (gSplit F)) cap_pos (f := fmtBody F) (g := gFmt F)
    (fun k s hs => fmtBody_spec F k hs) hw.fmt hw.split key
  rcases hc : Memo.callS cap (fmtBody F) w.fmtCache key w.splitCache with ⟨r, fc, sc⟩
  rw [hc] at h
  obtain ⟨h1, h2, h3⟩ := h
  simp only [] at h1 h2 h3
  refine ⟨fc, sc, h2, h3, ?_⟩
  simp only [formatNameCall, hc]
  rw [← h1]
  cases r with
  | val p => obtain ⟨s, errs⟩ := p; rfl
  | raised e => rfl
  | internal => rfl

theorem formatNameCall_sim {F : Fns} {ec : Bool} {w1 w2 : World} (hs : Sim F ec w1 w2) (key : FmtKey) :
    SimOut F ec (formatNameCall F w1 key) (formatNameCall F w2 key) := by
  obtain ⟨fc1, sc1, hf1, hs1, e1⟩ := formatNameCall_eq F hs.inv1 key
  obtain ⟨fc2, sc2, hf2, hs2, e2⟩ := formatNameCall_eq F hs.inv2 key
  rw [e1, e2]
  have hs' : Sim F ec { w1 with fmtCache := fc1, splitCache := sc1 } { w2 with fmtCache := fc2, splitCache := sc2 } :=
    ⟨hs.months, hs.strict, hs.captured, hs.plugins, ⟨hs1, hf1⟩, ⟨hs2, hf2⟩, hs.code⟩
  cases gFmt F key with
  | val p => obtain ⟨s, errs⟩ := p; exact reportAll_sim hs' errs s
  | raised e => exact ⟨rfl, hs'⟩
  | internal => exact ⟨rfl, hs'⟩

theorem formatNameCall_frame (F : Fns) (w : World) (key : FmtKey) : Frame w (formatNameCall F w key).1 := by
  simp only [formatNameCall]
  rcases Memo.callS cap (fmtBody F) w.fmtCache key w.splitCache with ⟨r, fc, sc⟩
  have h0 : Frame w { w with fmtCache := fc, splitCache := sc } := ⟨rfl, rfl, rfl, id, id⟩
  cases r with
  | val p => obtain ⟨s, errs⟩ := p; exact h0.trans (reportAll_frame _ errs s)
  | raised e => exact h0
  | internal => exact h0

/-- a memoised name-format call never fails in the wrapper's own bookkeeping -/
theorem formatNameCall_not_internal (F : Fns) (hF : ∀ n f, F.formatOne n f ≠ .internal) {w : World}
    (hw : CachesInv F w) (key : FmtKey) : (formatNameCall F w key).2 ≠ .internal := by
  obtain ⟨fc, sc, _, _, e⟩ := formatNameCall_eq F hw key
  rw [e]
  have hg : gFmt F key ≠ .internal := by
    simp only [gFmt]
    cases pyIndex (F.splitNames key.names) (key.n - 1) with
    | none => simp
    | some name => exact hF name key.fmt
  cases hk : gFmt F key with
  | internal => exact absurd hk hg
  | raised e => simp
  | val p =>
    obtain ⟨s, errs⟩ := p
    simp only []
    clear hk
    generalize ({ w with fmtCache := fc, splitCache := sc } : World) = w'
    induction errs generalizing w' with
    | nil => simp [reportAll]
    | cons x xs ih =>
      simp only [reportAll, reportK]
      rcases report w' x with ⟨a, b⟩
      cases b with
      | true => simp
      | false => exact ih a

/-! ### the `format.name$` built-in (range check, then the memoised formatter) -/

theorem splitCall_spec (F : Fns) {sc : Memo Str (List Str)} (hsc : Memo.Inv cap (gSplit F) sc) (names : Str) :
    (splitCall F sc names).1 = .val (F.splitNames names) ∧ Memo.Inv cap (gSplit F) (splitCall F sc names).2 :=
  Memo.call_spec cap_pos (gSplit F) hsc names

/-- what the built-in does once `_split_names(names)` has answered (and updated its cache to `sc`) -/
def builtinAfterSplit (F : Fns) (w : World) (key : FmtKey) (sc : Memo Str (List Str)) : World × MRes Err Str :=
  if 1 ≤ key.n ∧ key.n ≤ ((F.splitNames key.names).length : Int) then
    formatNameCall F { w with splitCache := sc } key
  else
    reportK { w with splitCache := sc } (.noSuchName key.n key.names)
      (.raised (.noSuchName key.n key.names)) fun w1 => (w1, .val [])

/-- From ANY state of the name-splitting cache that satisfies the invariant the built-in takes its
decision on the true name count. -/
theorem formatNameBuiltin_eq (F : Fns) {w : World} (hw : CachesInv F w) (key : FmtKey) :
    ∃ sc, Memo.Inv cap (gSplit F) sc ∧ formatNameBuiltin F w key = builtinAfterSplit F w key sc := by
  by_cases hn : key.n < 1
  · refine ⟨w.splitCache, hw.split, ?_⟩
    have hneg : ¬ (1 ≤ key.n ∧ key.n ≤ ((F.splitNames key.names).length : Int)) := by omega
    simp only [formatNameBuiltin, if_pos hn, builtinAfterSplit, if_neg hneg]
  · obtain ⟨h1, h2⟩ := splitCall_spec F hw.split key.names
    rcases hc : splitCall F w.splitCache key.names with ⟨r, sc1⟩
    rw [hc] at h1 h2
    simp only [] at h1 h2
    subst h1
    refine ⟨sc1, h2, ?_⟩
    have h1le : 1 ≤ key.n := by omega
    simp only [formatNameBuiltin, if_neg hn, hc, builtinAfterSplit, h1le, true_and]

theorem formatNameBuiltin_sim {F : Fns} {ec : Bool} {w1 w2 : World} (hs : Sim F ec w1 w2) (key : FmtKey) :
    SimOut F ec (formatNameBuiltin F w1 key) (formatNameBuiltin F w2 key) := by
  obtain ⟨sc1, hi1, e1⟩ := formatNameBuiltin_eq F hs.inv1 key
  obtain ⟨sc2, hi2, e2⟩ := formatNameBuiltin_eq F hs.inv2 key
  rw [e1, e2]
  have hs' : Sim F ec { w1 with splitCache := sc1 } { w2 with splitCache := sc2 } :=
    ⟨hs.months, hs.strict, hs.captured, hs.plugins, ⟨hi1, hs.inv1.fmt⟩, ⟨hi2, hs.inv2.fmt⟩, hs.code⟩
  simp only [builtinAfterSplit]
  split
  · exact formatNameCall_sim hs' key
  · exact reportK_sim hs' _ _ (fun a1 a2 ha => ⟨rfl, ha⟩)

theorem formatNameBuiltin_frame (F : Fns) (w : World) (key : FmtKey) : Frame w (formatNameBuiltin F w key).1 := by
  simp only [formatNameBuiltin]
  split
  · exact reportK_frame _ _ _ (fun a => Frame.refl a)
  · rcases splitCall F w.splitCache key.names with ⟨r, sc⟩
    have h0 : Frame w { w with splitCache := sc } := ⟨rfl, rfl, rfl, id, id⟩
    cases r with
    | val l =>
      simp only []
      split
      · exact h0.trans (formatNameCall_frame F _ key)
      · exact h0.trans (reportK_frame _ _ _ (fun a => Frame.refl a))
    | raised e => exact h0
    | internal => exact h0

/-- the built-in never fails in the bookkeeping of either cache -/
theorem formatNameBuiltin_not_internal (F : Fns) (hF : ∀ n f, F.formatOne n f ≠ .internal) {w : World}
    (hw : CachesInv F w) (key : FmtKey) : (formatNameBuiltin F w key).2 ≠ .internal := by
  obtain ⟨sc, hi, e⟩ := formatNameBuiltin_eq F hw key
  rw [e]
  simp only [builtinAfterSplit]
  split
  · exact formatNameCall_not_internal F hF (w := { w with splitCache := sc }) ⟨hi, hw.fmt⟩ key
  · simp only [reportK]
    rcases report { w with splitCache := sc } (.noSuchName key.n key.names) with ⟨a, b⟩
    cases b <;> simp

/-! ### reading `.bib` input -/

theorem evalParts_sim {F : Fns} {ec : Bool} (get : Str → Option Str) {w1 w2 : World} (hs : Sim F ec w1 w2)
    (acc : List Str) (ps : List Part) :
    SimOut F ec (evalParts get w1 acc ps) (evalParts get w2 acc ps) := by
  induction ps generalizing w1 w2 acc with
  | nil => exact ⟨rfl, hs⟩
  | cons p ps ih =>
    cases p with
    | lit s => simp only [evalParts]; exact ih hs _
    | ref m =>
      simp only [evalParts]
      cases get m with
      | some x => exact ih hs _
      | none => exact reportK_sim hs _ _ (fun a1 a2 ha => ih ha _)

theorem evalParts_frame (get : Str → Option Str) (w : World) (acc : List Str) (ps : List Part) :
    Frame w (evalParts get w acc ps).1 := by
  induction ps generalizing w acc with
  | nil => exact Frame.refl w
  | cons p ps ih =>
    cases p with
    | lit s => simp only [evalParts]; exact ih _ _
    | ref m =>
      simp only [evalParts]
      cases get m with
      | some x => exact ih _ _
      | none => exact reportK_frame w _ _ (fun a => ih a _)

theorem evalFields_sim {F : Fns} {ec : Bool} (get : Str → Option Str) {w1 w2 : World} (hs : Sim F ec w1 w2)
    (acc : List (Str × List Str)) (fs : List (Str × List Part)) :
    SimOut F ec (evalFields get w1 acc fs) (evalFields get w2 acc fs) := by
  induction fs generalizing w1 w2 acc with
  | nil => exact ⟨rfl, hs⟩
  | cons f fs ih =>
    obtain ⟨name, parts⟩ := f
    simp only [evalFields]
    exact bindE_sim (evalParts_sim get hs [] parts) (fun a1 a2 v ha => ih ha _)

theorem evalFields_frame (get : Str → Option Str) (w : World)
    (acc : List (Str × List Str)) (fs : List (Str × List Part)) :
    Frame w (evalFields get w acc fs).1 := by
  induction fs generalizing w acc with
  | nil => exact Frame.refl w
  | cons f fs ih =>
    obtain ⟨name, parts⟩ := f
    simp only [evalFields]
    exact bindE_frame (evalParts_frame get w [] parts) (fun a v => ih a _)

theorem addPersons_sim {F : Fns} {ec : Bool} {w1 w2 : World} (hs : Sim F ec w1 w2) (role : Str) (e : Entry)
    (names : List Str) : SimOut F ec (addPersons F w1 role e names) (addPersons F w2 role e names) := by
  induction names generalizing w1 w2 e with
  | nil => exact ⟨rfl, hs⟩
  | cons nm r ih =>
    simp only [addPersons]
    cases F.person nm with
    | error x => exact ⟨rfl, hs⟩
    | ok p =>
      obtain ⟨shown, reports⟩ := p
      cases reports with
      | true => exact reportK_sim hs _ _ (fun a1 a2 ha => ih ha _)
      | false => exact ih hs _

theorem addPersons_frame (F : Fns) (w : World) (role : Str) (e : Entry) (names : List Str) :
    Frame w (addPersons F w role e names).1 := by
  induction names generalizing w e with
  | nil => exact Frame.refl w
  | cons nm r ih =>
    simp only [addPersons]
    cases F.person nm with
    | error x => exact Frame.refl w
    | ok p =>
      obtain ⟨shown, reports⟩ := p
      cases reports with
      | true => exact reportK_frame w _ _ (fun a => ih a _)
      | false => exact ih w _

theorem processFields_sim {F : Fns} {ec : Bool} (persons : Bool) {w1 w2 : World} (hs : Sim F ec w1 w2) (key : Str)
    (seen : List Str) (e : Entry) (fs : List (Str × List Str)) :
    SimOut F ec (processFields F persons w1 key seen e fs) (processFields F persons w2 key seen e fs) := by
  induction fs generalizing w1 w2 seen e with
  | nil => exact ⟨rfl, hs⟩
  | cons f fs ih =>
    obtain ⟨name, v⟩ := f
    simp only [processFields]
    split
    · exact reportK_sim hs _ _ (fun a1 a2 ha => ih ha _ _)
    · split
      · exact bindE_sim (addPersons_sim hs _ _ _) (fun a1 a2 e1 ha => ih ha _ _)
      · exact ih hs _ _

theorem processFields_frame (F : Fns) (persons : Bool) (w : World) (key : Str)
    (seen : List Str) (e : Entry) (fs : List (Str × List Str)) :
    Frame w (processFields F persons w key seen e fs).1 := by
  induction fs generalizing w seen e with
  | nil => exact Frame.refl w
  | cons f fs ih =>
    obtain ⟨name, v⟩ := f
    simp only [processFields]
    split
    · exact reportK_frame w _ _ (fun a => ih a _ _)
    · split
      · exact bindE_frame (addPersons_frame F w _ _ _) (fun a e1 => ih a _ _)
      · exact ih w _ _

theorem addEntry_sim {F : Fns} {ec : Bool} {w1 w2 : World} (hs : Sim F ec w1 w2) (r : Reader) (e : Entry) :
    SimOut F ec (addEntry w1 r e) (addEntry w2 r e) := by
  simp only [addEntry]
  split
  · exact ⟨rfl, hs⟩
  · split
    · exact reportK_sim hs _ _ (fun a1 a2 ha => ⟨rfl, ha⟩)
    · exact ⟨rfl, hs⟩

theorem addEntry_frame (w : World) (r : Reader) (e : Entry) : Frame w (addEntry w r e).1 := by
  simp only [addEntry]
  split
  · exact Frame.refl w
  · split
    · exact reportK_frame w _ _ (fun a => Frame.refl a)
    · exact Frame.refl w

theorem readCmd_sim {F : Fns} {ec : Bool} (persons : Bool) {w1 w2 : World} (hs : Sim F ec w1 w2) (r : Reader) (c : Cmd) :
    SimOut F ec (readCmd F persons w1 r c) (readCmd F persons w2 r c) := by
  cases c with
  | string name val =>
    simp only [readCmd]
    exact bindE_sim (evalParts_sim _ hs [] val) (fun a1 a2 v ha => ⟨rfl, ha⟩)
  | preamble val =>
    simp only [readCmd]
    exact bindE_sim (evalParts_sim _ hs [] val) (fun a1 a2 v ha => ⟨rfl, ha⟩)
  | entry type key fields =>
    simp only [readCmd]
    split
    · exact ⟨rfl, hs⟩
    · exact bindE_sim (evalFields_sim _ hs [] fields) (fun a1 a2 fs ha =>
        bindE_sim (processFields_sim persons ha key [] _ fs) (fun b1 b2 e hb => addEntry_sim hb r e))
  | keyless type fields =>
    simp only [readCmd]
    exact bindE_sim (evalFields_sim _ hs [] fields) (fun a1 a2 fs ha =>
      bindE_sim (processFields_sim persons ha _ [] _ fs) (fun b1 b2 e hb => addEntry_sim hb _ e))

theorem readCmd_frame (F : Fns) (persons : Bool) (w : World) (r : Reader) (c : Cmd) :
    Frame w (readCmd F persons w r c).1 := by
  cases c with
  | string name val =>
    simp only [readCmd]
    exact bindE_frame (evalParts_frame _ w [] val) (fun a v => Frame.refl a)
  | preamble val =>
    simp only [readCmd]
    exact bindE_frame (evalParts_frame _ w [] val) (fun a v => Frame.refl a)
  | entry type key fields =>
    simp only [readCmd]
    split
    · exact Frame.refl w
    · exact bindE_frame (evalFields_frame _ w [] fields) (fun a fs =>
        bindE_frame (processFields_frame F persons a key [] _ fs) (fun b e => addEntry_frame b r e))
  | keyless type fields =>
    simp only [readCmd]
    exact bindE_frame (evalFields_frame _ w [] fields) (fun a fs =>
      bindE_frame (processFields_frame F persons a _ [] _ fs) (fun b e => addEntry_frame b _ e))

theorem readDoc_sim {F : Fns} {ec : Bool} (persons : Bool) {w1 w2 : World} (hs : Sim F ec w1 w2) (r : Reader) (d : Doc) :
    SimOut F ec (readDoc F persons w1 r d) (readDoc F persons w2 r d) := by
  induction d generalizing w1 w2 r with
  | nil => exact ⟨rfl, hs⟩
  | cons c cs ih =>
    simp only [readDoc]
    exact bindE_sim (readCmd_sim persons hs r c) (fun a1 a2 r1 ha => ih ha r1)

theorem readDoc_frame (F : Fns) (persons : Bool) (w : World) (r : Reader) (d : Doc) :
    Frame w (readDoc F persons w r d).1 := by
  induction d generalizing w r with
  | nil => exact Frame.refl w
  | cons c cs ih =>
    simp only [readDoc]
    exact bindE_frame (readCmd_frame F persons w r c) (fun a r1 => ih a r1)

theorem readFiles_sim {F : Fns} {ec : Bool} (persons : Bool) {w1 w2 : World} (hs : Sim F ec w1 w2) (r : Reader)
    (ds : List Doc) : SimOut F ec (readFiles F persons w1 r ds) (readFiles F persons w2 r ds) := by
  induction ds generalizing w1 w2 r with
  | nil => exact ⟨rfl, hs⟩
  | cons d ds ih =>
    simp only [readFiles]
    exact bindE_sim (readDoc_sim persons hs r d) (fun a1 a2 r1 ha => ih ha r1)

theorem readFiles_frame (F : Fns) (persons : Bool) (w : World) (r : Reader) (ds : List Doc) :
    Frame w (readFiles F persons w r ds).1 := by
  induction ds generalizing w r with
  | nil => exact Frame.refl w
  | cons d ds ih =>
    simp only [readFiles]
    exact bindE_frame (readDoc_frame F persons w r d) (fun a r1 => ih a r1)

/-- files of ONE reader accumulate: reading `ds1 ++ ds2` is reading `ds2` with the reader (macros,
entries, preamble) that reading `ds1` left -/
theorem readFiles_append (F : Fns) (persons : Bool) (w : World) (r : Reader) (ds1 ds2 : List Doc) :
    readFiles F persons w r (ds1 ++ ds2) =
      bindE (readFiles F persons w r ds1) (fun w1 r1 => readFiles F persons w1 r1 ds2) := by
  induction ds1 generalizing w r with
  | nil => rfl
  | cons d ds ih =>
    simp only [List.cons_append, readFiles]
    rcases readDoc F persons w r d with ⟨a, x⟩
    cases x with
    | error e => rfl
    | ok r1 => simp only [bindE]; exact ih a r1

/-! ### what one reader has read is never lost: entries, preamble, wanted keys and the unnamed-entry counter only grow -/

/-- `r'` holds everything `r` holds, in the same order, and possibly more at the end -/
structure Reader.Grows (r r' : Reader) : Prop where
  entries : r.entries <+: r'.entries
  preamble : r.preamble <+: r'.preamble
  unnamed : r.unnamed ≤ r'.unnamed
  wantedNone : r.wanted = none → r'.wanted = none
  wantedSome : ∀ s, r.wanted = some s → ∃ s', r'.wanted = some s' ∧ s <+: s'
  citations : r'.citations = r.citations

theorem Reader.Grows.refl (r : Reader) : Reader.Grows r r :=
  ⟨List.prefix_refl _, List.prefix_refl _, Nat.le_refl _, id, fun s h => ⟨s, h, List.prefix_refl _⟩, rfl⟩

theorem Reader.Grows.trans {a b c : Reader} (h1 : Reader.Grows a b) (h2 : Reader.Grows b c) : Reader.Grows a c :=
  ⟨h1.entries.trans h2.entries, h1.preamble.trans h2.preamble, Nat.le_trans h1.unnamed h2.unnamed,
   fun h => h2.wantedNone (h1.wantedNone h),
   fun s h => by
     obtain ⟨s1, e1, p1⟩ := h1.wantedSome s h
     obtain ⟨s2, e2, p2⟩ := h2.wantedSome s1 e1
     exact ⟨s2, e2, p1.trans p2⟩,
   h2.citations.trans h1.citations⟩

theorem bindE_ok {α β : Type} {x : World × Except Err α} {k : World → α → World × Except Err β}
    {w' : World} {v' : β} (h : bindE x k = (w', .ok v')) : ∃ w1 v, x = (w1, .ok v) ∧ k w1 v = (w', .ok v') := by
  obtain ⟨a, r⟩ := x
  cases r with
  | error e => simp [bindE] at h
  | ok v => exact ⟨a, v, rfl, h⟩

theorem reportK_ok {β : Type} {w : World} {e x : Err} {k : World → World × Except Err β} {w' : World} {v' : β}
    (h : reportK w e (.error x) k = (w', .ok v')) : ∃ w1, k w1 = (w', .ok v') := by
  simp only [reportK] at h
  generalize report w e = p at h
  obtain ⟨a, b⟩ := p
  cases b with
  | true => simp at h
  | false => exact ⟨a, h⟩

theorem addEntry_grows {w w' : World} {r r' : Reader} {e : Entry} (h : addEntry w r e = (w', .ok r')) :
    Reader.Grows r r' := by
  simp only [addEntry] at h
  split at h
  · cases h; exact Reader.Grows.refl _
  · split at h
    · obtain ⟨w1, h1⟩ := reportK_ok h
      cases h1; exact Reader.Grows.refl _
    · cases hw : r.wanted with
      | none =>
        rw [hw] at h
        simp only [Prod.mk.injEq, Except.ok.injEq] at h
        obtain ⟨_, rfl⟩ := h
        exact ⟨List.prefix_append _ _, List.prefix_refl _, Nat.le_refl _, (fun _ => rfl),
               (fun s hs => by rw [hw] at hs; cases hs), rfl⟩
      | some s =>
        rw [hw] at h
        cases hx : dget (e.fields.map fun p => (lower p.1, p.2)) "crossref".toList with
        | none =>
          rw [hx] at h
          simp only [Prod.mk.injEq, Except.ok.injEq] at h
          obtain ⟨_, rfl⟩ := h
          exact ⟨List.prefix_append _ _, List.prefix_refl _, Nat.le_refl _, (fun h' => by rw [hw] at h'; cases h'),
                 (fun s' hs' => by rw [hw] at hs'; cases hs'; exact ⟨_, rfl, List.prefix_refl _⟩), rfl⟩
        | some x =>
          rw [hx] at h
          simp only [Prod.mk.injEq, Except.ok.injEq] at h
          obtain ⟨_, rfl⟩ := h
          refine ⟨List.prefix_append _ _, List.prefix_refl _, Nat.le_refl _, (fun h' => by rw [hw] at h'; cases h'),
                  (fun s' hs' => ?_), rfl⟩
          rw [hw] at hs'
          cases hs'
          refine ⟨_, rfl, ?_⟩
          split
          · exact List.prefix_refl _
          · exact List.prefix_append _ _

theorem readCmd_grows {F : Fns} {persons : Bool} {w w' : World} {r r' : Reader} {c : Cmd}
    (h : readCmd F persons w r c = (w', .ok r')) : Reader.Grows r r' := by
  cases c with
  | string name val =>
    simp only [readCmd] at h
    obtain ⟨w1, v, _, h2⟩ := bindE_ok h
    cases h2
    exact ⟨List.prefix_refl _, List.prefix_refl _, Nat.le_refl _, id, fun s hs => ⟨s, hs, List.prefix_refl _⟩, rfl⟩
  | preamble val =>
    simp only [readCmd] at h
    obtain ⟨w1, v, _, h2⟩ := bindE_ok h
    cases h2
    exact ⟨List.prefix_refl _, List.prefix_append _ _, Nat.le_refl _, id, fun s hs => ⟨s, hs, List.prefix_refl _⟩, rfl⟩
  | entry type key fields =>
    simp only [readCmd] at h
    split at h
    · cases h; exact Reader.Grows.refl _
    · obtain ⟨w1, fs, _, h2⟩ := bindE_ok h
      obtain ⟨w2, e, _, h3⟩ := bindE_ok h2
      exact addEntry_grows h3
  | keyless type fields =>
    simp only [readCmd] at h
    obtain ⟨w1, fs, _, h2⟩ := bindE_ok h
    obtain ⟨w2, e, _, h3⟩ := bindE_ok h2
    have hg := addEntry_grows h3
    have h0 : Reader.Grows r { r with unnamed := r.unnamed + 1 } :=
      ⟨List.prefix_refl _, List.prefix_refl _, Nat.le_succ _, id, (fun s hs => ⟨s, hs, List.prefix_refl _⟩), rfl⟩
    exact h0.trans hg

theorem readDoc_grows {F : Fns} {persons : Bool} {w w' : World} {r r' : Reader} {d : Doc}
    (h : readDoc F persons w r d = (w', .ok r')) : Reader.Grows r r' := by
  induction d generalizing w r with
  | nil => simp only [readDoc] at h; cases h; exact Reader.Grows.refl _
  | cons c cs ih =>
    simp only [readDoc] at h
    obtain ⟨w1, r1, h1, h2⟩ := bindE_ok h
    exact (readCmd_grows h1).trans (ih h2)

theorem readFiles_grows {F : Fns} {persons : Bool} {w w' : World} {r r' : Reader} {ds : List Doc}
    (h : readFiles F persons w r ds = (w', .ok r')) : Reader.Grows r r' := by
  induction ds generalizing w r with
  | nil => simp only [readFiles] at h; cases h; exact Reader.Grows.refl _
  | cons d ds ih =>
    simp only [readFiles] at h
    obtain ⟨w1, r1, h1, h2⟩ := bindE_ok h
    exact (readDoc_grows h1).trans (ih h2)

/-! ### opaque code -/

theorem findPlugin_sim {F : Fns} {ec : Bool} {w1 w2 : World} (hs : Sim F ec w1 w2) (g n : Str) :
    findPlugin F w1 g n = findPlugin F w2 g n := by
  simp only [findPlugin, hs.plugins]

theorem runProg_sim {F : Fns} {ec : Bool} {w1 w2 : World} (hs : Sim F ec w1 w2) (p : Prog) :
    SimOut F ec (runProg F w1 p) (runProg F w2 p) := by
  induction p generalizing w1 w2 with
  | done out => exact ⟨rfl, hs⟩
  | raise e => exact ⟨rfl, hs⟩
  | report e k ih =>
    simp only [runProg]
    exact reportK_sim hs _ _ (fun a1 a2 ha => ih ha)
  | formatName key k ih =>
    simp only [runProg]
    have h := formatNameBuiltin_sim hs key
    rcases h1 : formatNameBuiltin F w1 key with ⟨a1, r1⟩
    rcases h2 : formatNameBuiltin F w2 key with ⟨a2, r2⟩
    rw [h1, h2] at h
    obtain ⟨hr, ha⟩ := h
    simp only [] at hr ha
    subst hr
    cases r1 with
    | val s => exact ih s ha
    | raised e => exact ⟨rfl, ha⟩
    | internal => exact ⟨rfl, ha⟩
  | findPlugin g n k ih =>
    simp only [runProg]
    rw [findPlugin_sim hs g n]
    exact ih _ hs

theorem runProg_frame (F : Fns) (w : World) (p : Prog) : Frame w (runProg F w p).1 := by
  induction p generalizing w with
  | done out => exact Frame.refl w
  | raise e => exact Frame.refl w
  | report e k ih =>
    simp only [runProg]
    exact reportK_frame w _ _ (fun a => ih a)
  | formatName key k ih =>
    simp only [runProg]
    have h := formatNameBuiltin_frame F w key
    rcases hx : formatNameBuiltin F w key with ⟨a1, r1⟩
    rw [hx] at h
    cases r1 with
    | val s => exact h.trans (ih s a1)
    | raised e => exact h
    | internal => exact h
  | findPlugin g n k ih =>
    simp only [runProg]
    exact ih _ w

/-! ### the public calls -/

theorem withReader_sim {F : Fns} {ec : Bool} (persons : Bool) {w1 w2 : World} (hs : Sim F ec w1 w2) (r0 : Reader)
    (files : List Doc) {k1 k2 : World → Reader → World × Result}
    (hk : ∀ a1 a2 r, Sim F ec a1 a2 → SimOut F ec (k1 a1 r) (k2 a2 r)) :
    SimOut F ec (withReader F persons w1 r0 files k1) (withReader F persons w2 r0 files k2) := by
  have h := readFiles_sim persons hs r0 files
  simp only [withReader]
  rcases h1 : readFiles F persons w1 r0 files with ⟨a1, x1⟩
  rcases h2 : readFiles F persons w2 r0 files with ⟨a2, x2⟩
  rw [h1, h2] at h
  obtain ⟨hr, ha⟩ := h
  simp only [] at hr ha
  subst hr
  cases x1 with
  | error e => exact ⟨rfl, ha⟩
  | ok r => exact hk a1 a2 r ha

theorem withReader_frame (F : Fns) (persons : Bool) (w : World) (r0 : Reader) (files : List Doc)
    {k : World → Reader → World × Result} (hk : ∀ a r, Frame a (k a r).1) :
    Frame w (withReader F persons w r0 files k).1 := by
  have h := readFiles_frame F persons w r0 files
  simp only [withReader]
  rcases hx : readFiles F persons w r0 files with ⟨a1, x1⟩
  rw [hx] at h
  cases x1 with
  | error e => exact h
  | ok r => exact h.trans (hk a1 r)

/-- DETERMINISM / cache-independence of every call: in two worlds that differ only in what the two
caches happen to hold (and in `error_code`) a call returns the same result and leaves two worlds
that again differ only in that. -/
theorem step_sim {F : Fns} {ec : Bool} {w1 w2 : World} (hs : Sim F ec w1 w2) (c : Call) :
    SimOut F ec (step F w1 c) (step F w2 c) := by
  induction c generalizing w1 w2 ec with
  | parse files =>
    simp only [step]
    rw [findPlugin_sim hs, newReader, hs.months]
    cases findPlugin F w2 inputGroup bibtexName with
    | none => exact ⟨rfl, hs⟩
    | some cls =>
      simp only []
      split
      · exact withReader_sim true hs _ files (fun a1 a2 r ha => ⟨rfl, ha⟩)
      · exact runProg_sim hs _
  | parseWanted cits files =>
    simp only [step]
    rw [findPlugin_sim hs, newReaderWanted, newReader, hs.months]
    cases findPlugin F w2 inputGroup bibtexName with
    | none => exact ⟨rfl, hs⟩
    | some cls =>
      simp only []
      split
      · exact withReader_sim true hs _ files (fun a1 a2 r ha => ⟨rfl, ha⟩)
      · exact runProg_sim hs _
  | lowLevel arg doc =>
    cases arg with
    | default => simp only [step]; rw [hs.months]; exact ⟨rfl, hs⟩
    | moduleTable =>
      simp only [step]; rw [hs.months]
      exact ⟨rfl, rfl, hs.strict, hs.captured, hs.plugins, ⟨hs.inv1.split, hs.inv1.fmt⟩, ⟨hs.inv2.split, hs.inv2.fmt⟩, hs.code⟩
    | table t => simp only [step]; exact ⟨rfl, hs⟩
  | formatName key =>
    simp only [step]
    have h := formatNameBuiltin_sim hs key
    rcases h1 : formatNameBuiltin F w1 key with ⟨a1, r1⟩
    rcases h2 : formatNameBuiltin F w2 key with ⟨a2, r2⟩
    rw [h1, h2] at h
    obtain ⟨hr, ha⟩ := h
    simp only [] at hr ha
    subst hr
    cases r1 with
    | val s => exact ⟨rfl, ha⟩
    | raised e => exact ⟨rfl, ha⟩
    | internal => exact ⟨rfl, ha⟩
  | plugin g n arg =>
    simp only [step]
    rw [findPlugin_sim hs]
    cases findPlugin F w2 g n with
    | none => exact ⟨rfl, hs⟩
    | some cls => exact runProg_sim hs _
  | bibtexRun style files =>
    simp only [step]
    cases F.bstError style with
    | some e => exact ⟨rfl, hs⟩
    | none => exact withReader_sim false hs _ files (fun a1 a2 r ha => runProg_sim ha _)
  | pythonRun style files =>
    simp only [step]
    rw [findPlugin_sim hs, newReader, hs.months]
    cases findPlugin F w2 inputGroup bibtexName with
    | none => exact ⟨rfl, hs⟩
    | some cls =>
      simp only []
      split
      · exact withReader_sim true hs _ files (fun a1 a2 r ha => runProg_sim ha _)
      · exact runProg_sim hs _
  | capture c ih =>
    have hs' : Sim F ec { w1 with captured := some [] } { w2 with captured := some [] } :=
      ⟨hs.months, hs.strict, rfl, hs.plugins, ⟨hs.inv1.split, hs.inv1.fmt⟩, ⟨hs.inv2.split, hs.inv2.fmt⟩, hs.code⟩
    have h := ih hs'
    simp only [step]
    rcases h1 : step F { w1 with captured := some [] } c with ⟨a1, r1⟩
    rcases h2 : step F { w2 with captured := some [] } c with ⟨a2, r2⟩
    rw [h1, h2] at h
    obtain ⟨hr, ha⟩ := h
    simp only [] at hr ha
    subst hr
    have hsim : Sim F ec { a1 with captured := w1.captured } { a2 with captured := w2.captured } :=
      ⟨ha.months, ha.strict, hs.captured, ha.plugins, ⟨ha.inv1.split, ha.inv1.fmt⟩, ⟨ha.inv2.split, ha.inv2.fmt⟩, ha.code⟩
    simp only []
    rw [ha.captured]
    cases a2.captured with
    | some l => exact ⟨rfl, hsim⟩
    | none => exact ⟨rfl, hsim⟩
  | nonstrict c ih =>
    have hs' : Sim F ec { w1 with strict := false } { w2 with strict := false } :=
      ⟨hs.months, rfl, hs.captured, hs.plugins, ⟨hs.inv1.split, hs.inv1.fmt⟩, ⟨hs.inv2.split, hs.inv2.fmt⟩, hs.code⟩
    have h := ih hs'
    simp only [step]
    obtain ⟨hr, ha⟩ := h
    exact ⟨hr, ha.months, hs.strict, ha.captured, ha.plugins, ⟨ha.inv1.split, ha.inv1.fmt⟩, ⟨ha.inv2.split, ha.inv2.fmt⟩, ha.code⟩
  | cliMain strictOpt c ih =>
    -- `main()` starts from `error_code = 0` in BOTH worlds: inside it the worlds agree on the status too
    have hs' : Sim F true { w1 with errorCode := 0, strict := strictOpt } { w2 with errorCode := 0, strict := strictOpt } :=
      ⟨hs.months, rfl, hs.captured, hs.plugins, ⟨hs.inv1.split, hs.inv1.fmt⟩, ⟨hs.inv2.split, hs.inv2.fmt⟩, fun _ => rfl⟩
    have h := ih hs'
    simp only [step]
    obtain ⟨hr, ha⟩ := h
    refine ⟨?_, ha.months, hs.strict, ha.captured, ha.plugins, ⟨ha.inv1.split, ha.inv1.fmt⟩, ⟨ha.inv2.split, ha.inv2.fmt⟩,
      fun _ => ha.code rfl⟩
    show exitStatus _ _ = exitStatus _ _
    rw [hr, ha.code rfl]

/-- FRAME of every call that does not hand the module table to `LowLevelParser`: the month table,
`strict`, the plug-in registry are unchanged, `captured_errors` stays `None`. -/
theorem step_frame (F : Fns) (w : World) (c : Call) (hc : c.isPublic = true) : Frame w (step F w c).1 := by
  induction c generalizing w with
  | parse files =>
    simp only [step]
    cases findPlugin F w inputGroup bibtexName with
    | none => exact Frame.refl w
    | some cls =>
      simp only []
      split
      · exact withReader_frame F true w _ files (fun a r => Frame.refl a)
      · exact runProg_frame F w _
  | parseWanted cits files =>
    simp only [step]
    cases findPlugin F w inputGroup bibtexName with
    | none => exact Frame.refl w
    | some cls =>
      simp only []
      split
      · exact withReader_frame F true w _ files (fun a r => Frame.refl a)
      · exact runProg_frame F w _
  | lowLevel arg doc =>
    cases arg with
    | default => exact Frame.refl w
    | moduleTable => simp [Call.isPublic] at hc
    | table t => exact Frame.refl w
  | formatName key =>
    simp only [step]
    have h := formatNameBuiltin_frame F w key
    rcases hx : formatNameBuiltin F w key with ⟨a1, r1⟩
    rw [hx] at h
    cases r1 with
    | val s => exact h
    | raised e => exact h
    | internal => exact h
  | plugin g n arg =>
    simp only [step]
    cases findPlugin F w g n with
    | none => exact Frame.refl w
    | some cls => exact runProg_frame F w _
  | bibtexRun style files =>
    simp only [step]
    cases F.bstError style with
    | some e => exact Frame.refl w
    | none => exact withReader_frame F false w _ files (fun a r => runProg_frame F a _)
  | pythonRun style files =>
    simp only [step]
    cases findPlugin F w inputGroup bibtexName with
    | none => exact Frame.refl w
    | some cls =>
      simp only []
      split
      · exact withReader_frame F true w _ files (fun a r => runProg_frame F a _)
      · exact runProg_frame F w _
  | capture c ih =>
    have h := ih { w with captured := some [] } (by simpa [Call.isPublic] using hc)
    simp only [step]
    rcases hx : step F { w with captured := some [] } c with ⟨a1, r1⟩
    rw [hx] at h
    have hf : Frame w { a1 with captured := w.captured } :=
      ⟨h.months, h.strict, h.plugins, id, id⟩
    cases a1.captured with
    | some l => exact hf
    | none => exact hf
  | nonstrict c ih =>
    have h := ih { w with strict := false } (by simpa [Call.isPublic] using hc)
    simp only [step]
    exact ⟨h.months, rfl, h.plugins, h.capNone, h.capSome⟩
  | cliMain strictOpt c ih =>
    have h := ih { w with errorCode := 0, strict := strictOpt } (by simpa [Call.isPublic] using hc)
    simp only [step]
    exact ⟨h.months, rfl, h.plugins, h.capNone, h.capSome⟩

theorem run_frame (F : Fns) (w : World) (h : List Call) (hh : ∀ c ∈ h, c.isPublic = true) :
    Frame w (run F w h) := by
  induction h generalizing w with
  | nil => exact Frame.refl w
  | cons c cs ih =>
    simp only [run]
    exact (step_frame F w c (hh c List.mem_cons_self)).trans
      (ih _ (fun c' hc' => hh c' (List.mem_cons_of_mem _ hc')))

theorem step_inv {F : Fns} {w : World} (hw : CachesInv F w) (c : Call) : CachesInv F (step F w c).1 :=
  (step_sim (ec := false) (Sim.rfl' hw) c).2.inv1

theorem run_inv {F : Fns} {w : World} (hw : CachesInv F w) (h : List Call) : CachesInv F (run F w h) := by
  induction h generalizing w with
  | nil => exact hw
  | cons c cs ih => exact ih (step_inv hw c)

/-- After any history of public calls at top level the world differs from the initial one only in
the contents of the caches and `error_code`. -/
theorem run_sim {F : Fns} {w : World} (hw : CachesInv F w) (hcap : w.captured = none) (h : List Call)
    (hh : ∀ c ∈ h, c.isPublic = true) : Sim F false (run F w h) w := by
  have hf := run_frame F w h hh
  exact ⟨hf.months, hf.strict, (hf.capNone hcap).trans hcap.symm, hf.plugins, run_inv hw h, hw, fun h => nomatch h⟩

/-! ### a small concrete instance of the opaque code, for the non-vacuity examples -/

/-- observers used in the examples: the reader a call returned (also under `capture()`) -/
def Result.reader? : Result → Option Reader
  | .reader r => some r
  | .captured (.reader r) _ => some r
  | _ => none

/-- the problems a `capture()` collected -/
def Result.errors? : Result → Option (List Err)
  | .captured _ errs => some errs
  | _ => none

/-- the table a direct `LowLevelParser` ended with -/
def Result.lowTable? : Result → Option Table
  | .low _ t => some t
  | _ => none

/-- Stand-ins for the un-modelled code: names are split at `;`-free text as one name, formatting
appends the format string and reports a name containing `,`; the `.bst` "program" formats the
`author` field of every entry and reports one problem; the built-in reader is installed. -/
def toyFns : Fns where
  splitNames := fun s => [s]
  formatOne := fun name fmt =>
    if fmt = [] then .raised (.other "bad format".toList)
    else .val (name ++ fmt, if name.contains ',' then [.invalidName name] else [])
  person := fun s => .ok (s, s.contains ',')
  entryPoint := fun g n => if g = inputGroup ∧ n = bibtexName then some bibtexParserCls else none
  plugin := fun _ a => match a with | .text s => .done s | .docs _ => .done []
  bstError := fun style => if style = [] then some (.other "no style".toList) else none
  bstMacros := fun _ => [("jan".toList, "Jan.".toList)]
  bst := fun _ r =>
    match r.entries with
    | [] => .done []
    | e :: _ =>
      match dget e.fields "author".toList with
      | some a => .formatName ⟨a, 1, "{ll}".toList⟩ fun s => .done s
      | none => .report (.other "no author".toList) (.done [])
  python := fun style r =>
    .findPlugin "pybtex.style.formatting".toList style fun o =>
      match o with
      | none => .raise (.pluginNotFound "pybtex.style.formatting".toList style)
      | some _ => .done (r.entries.map (·.key)).flatten

end Pybtex.Proc
