/-
Processing a parsed command (`processCmd` → `processEntry` → `processFields` / `addPersons` /
`addPerson` / `addEntry`) computes exactly the reference `denoteEntry`, with no error reported.
-/
import PybtexModel.Spec.Bib
import PybtexModel.Lemmas.Basic

namespace Pybtex.BibRT
open Pybtex Pybtex.Bib Pybtex.BibSpec

/-- what the field loop of `process_entry` needs: no field name repeats one of `seen` or an
earlier one (up to case); person fields hold acceptable names -/
def procOk (m : Macros) : List Str → List (Str × Value) → Bool
  | _, [] => true
  | seen, f :: fs =>
    !seen.contains (lower f.1) &&
    (!isPersonField f.1 || (splitNameList (normalizeWs (expand m f.2))).all personOk) &&
    procOk m (lower f.1 :: seen) fs

/-- the part of the reader state the processing step relies on -/
structure ProcInv (s : St) : Prop where
  wanted : s.db.wanted = none
  cit : s.db.citations = CISet.empty
  roles : s.roles = Gen.personRoles

/-! ### persons -/

theorem personOk_mk {n : Str} (h : personOk n = true) :
    ∃ p, mkPerson n [] [] [] [] [] = .ok (p, false) := by
  unfold personOk at h
  split at h
  next p t heq =>
    cases t with
    | false => exact ⟨p, heq⟩
    | true => simp at h
  next => simp at h

theorem personOf_of_mk {n : Str} {p : Person} {b : Bool}
    (h : mkPerson n [] [] [] [] [] = .ok (p, b)) : personOf n = some p := by
  unfold personOf; rw [h]

theorem map_fresh (ps0 : List (Str × List Person)) (role : Str) (p : Person)
    (hfresh : ∀ r ∈ ps0, lower r.1 ≠ lower role) :
    ps0.map (fun r => if lower r.1 = lower role then (r.1, r.2 ++ [p]) else r) = ps0 := by
  induction ps0 with
  | nil => rfl
  | cons a t ih =>
    have ha : lower a.1 ≠ lower role := hfresh a (by simp)
    have ht : ∀ r ∈ t, lower r.1 ≠ lower role := fun r hr => hfresh r (by simp [hr])
    simp only [List.map_cons, ih ht, if_neg ha]

theorem any_fresh (ps0 : List (Str × List Person)) (role : Str)
    (hfresh : ∀ r ∈ ps0, lower r.1 ≠ lower role) :
    ps0.any (fun r => decide (lower r.1 = lower role)) = false := by
  induction ps0 with
  | nil => rfl
  | cons a t ih =>
    have ha : lower a.1 ≠ lower role := hfresh a (by simp)
    have ht : ∀ r ∈ t, lower r.1 ≠ lower role := fun r hr => hfresh r (by simp [hr])
    simp only [List.any_cons, ih ht, ha, decide_false, Bool.or_false]

theorem addPerson_last (ps0 : List (Str × List Person)) (role : Str) (acc : List Person)
    (p : Person) (hfresh : ∀ r ∈ ps0, lower r.1 ≠ lower role) :
    addPerson (ps0 ++ [(role, acc)]) role p = ps0 ++ [(role, acc ++ [p])] := by
  unfold addPerson
  have hany : (ps0 ++ [(role, acc)]).any (fun r => decide (lower r.1 = lower role)) = true := by
    simp
  rw [if_pos hany]
  simp only [List.map_append, List.map_cons, List.map_nil, if_true, map_fresh ps0 role p hfresh]

theorem addPerson_fresh (ps : List (Str × List Person)) (role : Str) (p : Person)
    (hfresh : ∀ r ∈ ps, lower r.1 ≠ lower role) :
    addPerson ps role p = ps ++ [(role, [p])] := by
  unfold addPerson
  rw [any_fresh ps role hfresh]
  simp

/-- once the role is the last one of the list, the remaining names are appended to it -/
theorem addPersons_acc (role : Str) (ns : List Str) :
    ∀ (e : Entry) (s : St) (ps0 : List (Str × List Person)) (acc : List Person),
      e.persons = ps0 ++ [(role, acc)] → (∀ r ∈ ps0, lower r.1 ≠ lower role) →
      ns.all personOk = true →
      addPersons role ns e s
        = .ok { e with persons := ps0 ++ [(role, acc ++ ns.filterMap personOf)] } s := by
  induction ns with
  | nil =>
    intro e s ps0 acc hp _ _
    simp only [addPersons, List.filterMap_nil, List.append_nil, ← hp]
  | cons n ns ih =>
    intro e s ps0 acc hp hfresh hok
    simp only [List.all_cons, Bool.and_eq_true] at hok
    obtain ⟨p, hmk⟩ := personOk_mk hok.1
    have hpo : personOf n = some p := personOf_of_mk hmk
    simp only [addPersons, hmk, Bool.false_eq_true, if_false]
    rw [hp, addPerson_last ps0 role acc p hfresh]
    rw [ih { e with persons := ps0 ++ [(role, acc ++ [p])] } s ps0 (acc ++ [p]) rfl hfresh hok.2]
    simp only [List.filterMap_cons, hpo, List.append_assoc, List.cons_append, List.nil_append]

theorem addPersons_fresh (role : Str) (ns : List Str) (e : Entry) (s : St)
    (hfresh : ∀ r ∈ e.persons, lower r.1 ≠ lower role) (hok : ns.all personOk = true) :
    addPersons role ns e s
      = .ok (if ns.filterMap personOf = [] then e
             else { e with persons := e.persons ++ [(role, ns.filterMap personOf)] }) s := by
  cases ns with
  | nil => simp [addPersons]
  | cons n ns =>
    simp only [List.all_cons, Bool.and_eq_true] at hok
    obtain ⟨p, hmk⟩ := personOk_mk hok.1
    have hpo : personOf n = some p := personOf_of_mk hmk
    simp only [addPersons, hmk, Bool.false_eq_true, if_false]
    rw [addPerson_fresh e.persons role p hfresh]
    rw [addPersons_acc role ns { e with persons := e.persons ++ [(role, [p])] } s e.persons [p]
      rfl hfresh hok.2]
    simp [hpo]

/-! ### the field loop -/

theorem isPersonFieldOf_roles {s : St} (hr : s.roles = Gen.personRoles) (name : Str) :
    isPersonFieldOf s.roles name = isPersonField name := by
  rw [hr]; rfl

theorem denoteField_persons_seen (m : Macros) (e : Entry) (f : Str × Value) (seen : List Str)
    (hseen : ∀ r ∈ e.persons, lower r.1 ∈ seen) :
    ∀ r ∈ (denoteField m e f).persons, lower r.1 ∈ lower f.1 :: seen := by
  intro r hr
  unfold denoteField at hr
  simp only at hr
  split at hr
  · split at hr
    · exact List.mem_cons_of_mem _ (hseen r hr)
    · simp only [List.mem_append, List.mem_singleton] at hr
      rcases hr with hr | hr
      · exact List.mem_cons_of_mem _ (hseen r hr)
      · subst hr; simp
  · exact List.mem_cons_of_mem _ (hseen r hr)

theorem processFields_ok (m : Macros) (key : Str) (wfs : List (Str × Value)) :
    ∀ (seen : List Str) (e : Entry) (s : St), s.roles = Gen.personRoles →
      (∀ r ∈ e.persons, lower r.1 ∈ seen) → procOk m seen wfs = true →
      processFields key (wfs.map fun f => (f.1, expandPieces m f.2)) seen e s
        = .ok (wfs.foldl (denoteField m) e) s := by
  induction wfs with
  | nil => intro seen e s _ _ _; rfl
  | cons f fs ih =>
    intro seen e s hr hseen hf
    simp only [procOk, Bool.and_eq_true, Bool.not_eq_true', Bool.or_eq_true] at hf
    obtain ⟨⟨hns, hpers⟩, hrest⟩ := hf
    have hval : (expandPieces m f.2).flatten = expand m f.2 := rfl
    simp only [List.map_cons, processFields, hns, Bool.false_eq_true, if_false, hval,
      isPersonFieldOf_roles hr, List.foldl_cons]
    have hseen' := denoteField_persons_seen m e f seen hseen
    by_cases hpf : isPersonField f.1 = true
    · have hok : (splitNameList (normalizeWs (expand m f.2))).all personOk = true := by
        rcases hpers with h | h
        · rw [hpf] at h; cases h
        · exact h
      have hfresh : ∀ r ∈ e.persons, lower r.1 ≠ lower f.1 := by
        intro r hr' heq
        have := hseen r hr'
        rw [heq] at this
        simp at hns
        exact hns this
      rw [if_pos hpf, addPersons_fresh f.1 _ e s hfresh hok]
      simp only
      have hden : denoteField m e f
          = (if (splitNameList (normalizeWs (expand m f.2))).filterMap personOf = [] then e
             else { e with persons := e.persons ++
                      [(f.1, (splitNameList (normalizeWs (expand m f.2))).filterMap personOf)] }) := by
        unfold denoteField personsOf
        simp only [hpf, if_true]
      rw [← hden]
      exact ih (lower f.1 :: seen) (denoteField m e f) s hr hseen' hrest
    · have hden : denoteField m e f
          = { e with fields := e.fields ++ [(f.1, normalizeWs (expand m f.2))] } := by
        unfold denoteField
        simp only [hpf, if_false, Bool.false_eq_true]
      rw [if_neg hpf, ← hden]
      exact ih (lower f.1 :: seen) (denoteField m e f) s hr hseen' hrest

theorem denoteField_key (m : Macros) (e : Entry) (f : Str × Value) :
    (denoteField m e f).key = e.key := by
  unfold denoteField
  simp only
  split
  · split <;> rfl
  · rfl

theorem foldl_denoteField_key (m : Macros) (fs : List (Str × Value)) :
    ∀ e : Entry, (fs.foldl (denoteField m) e).key = e.key := by
  induction fs with
  | nil => intro e; rfl
  | cons f fs ih => intro e; rw [List.foldl_cons, ih, denoteField_key]

theorem denoteEntry_key (m : Macros) (ty key : Str) (wfs : List (Str × Value)) :
    (denoteEntry m ty key wfs).key = key := by
  unfold denoteEntry; rw [foldl_denoteField_key]

/-! ### `add_entry` -/

theorem addEntry_ok (s : St) (key : Str) (e : Entry) (hi : ProcInv s) (hek : e.key = key)
    (hk : s.db.entries.any (fun e => lower e.key = lower key) = false) :
    addEntry s key e = .ok () { s with db := { s.db with entries := s.db.entries ++ [e] } } := by
  have hw : wantEntry s.db key = true := by unfold wantEntry; rw [hi.wanted]
  have hh : hasEntry s.db key = false := hk
  have hc : canonicalKey s.db key = key := by
    unfold canonicalKey; rw [hi.cit]; rfl
  have he : { e with key := key } = e := by cases e; cases hek; rfl
  unfold addEntry
  simp only [hw, hh, hc, he, Bool.not_true, Bool.false_eq_true, if_false, hi.wanted]
  split <;> first | rfl | (rename_i h; simp at h)

/-! ### commands -/

theorem processCmd_entry (m : Macros) (ty key : Str) (wfs : List (Str × Value)) (s : St)
    (hi : ProcInv s) (hk : s.db.entries.any (fun e => lower e.key = lower key) = false)
    (hf : procOk m [] wfs = true) :
    processCmd (Cmd.entry ty (some key) (wfs.map fun f => (f.1, expandPieces m f.2))) s
      = .ok () { s with db := { s.db with entries := s.db.entries ++ [denoteEntry m ty key wfs] } } := by
  simp only [processCmd, processEntry]
  rw [processFields_ok m key wfs [] _ s hi.roles (by intro r hr; cases hr) hf]
  exact addEntry_ok s key _ hi (denoteEntry_key m ty key wfs) hk

theorem processCmd_preamble (m : Macros) (v : Value) (s : St) :
    processCmd (Cmd.preamble (expandPieces m v)) s
      = .ok () { s with db := { s.db with preamble := s.db.preamble ++ [normalizeWs (expand m v)] } } :=
  rfl

theorem processCmd_string (s : St) : processCmd Cmd.string s = .ok () s := rfl

/-- the invariant is preserved by the two state updates above -/
theorem ProcInv.set_db_entries {s : St} (hi : ProcInv s) (es : List Entry) :
    ProcInv { s with db := { s.db with entries := es } } :=
  ⟨hi.wanted, hi.cit, hi.roles⟩

theorem ProcInv.set_db_preamble {s : St} (hi : ProcInv s) (ps : List Str) :
    ProcInv { s with db := { s.db with preamble := ps } } :=
  ⟨hi.wanted, hi.cit, hi.roles⟩


end Pybtex.BibRT
