/-
Processing a parsed command (`processCmd` → `processEntry` → `processFields` / `addPersons` /
`addPerson` / `addEntry`) computes exactly the reference `denoteEntry`, with no error reported;
when field names or keys repeat (up to case) it computes `denoteEntryD` (first field of a name wins,
an entry with a key that is in the database already is dropped) and reports exactly the repetitions
(`processFields_dups`, `processCmd_entryD`).
-/
import PybtexModel.Spec.Bib
import PybtexModel.Lemmas.Basic
import PybtexModel.Lemmas.BibReport

namespace Pybtex.BibRT
open Pybtex Pybtex.Bib Pybtex.BibSpec

/-- what the field loop of `process_entry` needs: no field name repeats one of `seen` or an
earlier one (up to case); person fields hold acceptable names -/
def procOk (m : Macros) : List Str → List (Str × Value) → Bool
  | _, [] => true
  | seen, f :: fs =>
    !seen.contains (lower f.1) &&
    (!isPersonField f.1 || (splitNameList (normalizeWs (expand m f.2))).all personOk) &&
    procOk m (lower f.1 :: seen) fs

/-- the part of the reader state the processing step relies on -/
structure ProcInv (s : St) : Prop where
  wanted : s.db.wanted = none
  cit : s.db.citations = CISet.empty
  roles : s.roles = Gen.personRoles

/-! ### persons -/

theorem personOk_mk {n : Str} (h : personOk n = true) :
    ∃ p, mkPerson n [] [] [] [] [] = .ok (p, false) := by
  unfold personOk at h
  split at h
  next p t heq =>
    cases t with
    | false => exact ⟨p, heq⟩
    | true => simp at h
  next => simp at h

theorem personOf_of_mk {n : Str} {p : Person} {b : Bool}
    (h : mkPerson n [] [] [] [] [] = .ok (p, b)) : personOf n = some p := by
  unfold personOf; rw [h]

theorem map_fresh (ps0 : List (Str × List Person)) (role : Str) (p : Person)
    (hfresh : ∀ r ∈ ps0, lower r.1 ≠ lower role) :
    ps0.map (fun r => if lower r.1 = lower role then (r.1, r.2 ++ [p]) else r) = ps0 := by
  induction ps0 with
  | nil => rfl
  | cons a t ih =>
    have ha : lower a.1 ≠ lower role := hfresh a (by simp)
    have ht : ∀ r ∈ t, lower r.1 ≠ lower role := fun r hr => hfresh r (by simp [hr])
    simp only [List.map_cons, ih ht, if_neg ha]

theorem any_fresh (ps0 : List (Str × List Person)) (role : Str)
    (hfresh : ∀ r ∈ ps0, lower r.1 ≠ lower role) :
    ps0.any (fun r => decide (lower r.1 = lower role)) = false := by
  induction ps0 with
  | nil => rfl
  | cons a t ih =>
    have ha : lower a.1 ≠ lower role := hfresh a (by simp)
    have ht : ∀ r ∈ t, lower r.1 ≠ lower role := fun r hr => hfresh r (by simp [hr])
    simp only [List.any_cons, ih ht, ha, decide_false, Bool.or_false]

theorem addPerson_last (ps0 : List (Str × List Person)) (role : Str) (acc : List Person)
    (p : Person) (hfresh : ∀ r ∈ ps0, lower r.1 ≠ lower role) :
    addPerson (ps0 ++ [(role, acc)]) role p = ps0 ++ [(role, acc ++ [p])] := by
  unfold addPerson
  have hany : (ps0 ++ [(role, acc)]).any (fun r => decide (lower r.1 = lower role)) = true := by
    simp
  rw [if_pos hany]
  simp only [List.map_append, List.map_cons, List.map_nil, if_true, map_fresh ps0 role p hfresh]

theorem addPerson_fresh (ps : List (Str × List Person)) (role : Str) (p : Person)
    (hfresh : ∀ r ∈ ps, lower r.1 ≠ lower role) :
    addPerson ps role p = ps ++ [(role, [p])] := by
  unfold addPerson
  rw [any_fresh ps role hfresh]
  simp

/-- once the role is the last one of the list, the remaining names are appended to it -/
theorem addPersons_acc (role : Str) (ns : List Str) :
    ∀ (e : Entry) (s : St) (ps0 : List (Str × List Person)) (acc : List Person),
      e.persons = ps0 ++ [(role, acc)] → (∀ r ∈ ps0, lower r.1 ≠ lower role) →
      ns.all personOk = true →
      addPersons role ns e s
        = .ok { e with persons := ps0 ++ [(role, acc ++ ns.filterMap personOf)] } s := by
  induction ns with
  | nil =>
    intro e s ps0 acc hp _ _
    simp only [addPersons, List.filterMap_nil, List.append_nil, ← hp]
  | cons n ns ih =>
    intro e s ps0 acc hp hfresh hok
    simp only [List.all_cons, Bool.and_eq_true] at hok
    obtain ⟨p, hmk⟩ := personOk_mk hok.1
    have hpo : personOf n = some p := personOf_of_mk hmk
    simp only [addPersons, hmk, Bool.false_eq_true, if_false]
    rw [hp, addPerson_last ps0 role acc p hfresh]
    rw [ih { e with persons := ps0 ++ [(role, acc ++ [p])] } s ps0 (acc ++ [p]) rfl hfresh hok.2]
    simp only [List.filterMap_cons, hpo, List.append_assoc, List.cons_append, List.nil_append]

theorem addPersons_fresh (role : Str) (ns : List Str) (e : Entry) (s : St)
    (hfresh : ∀ r ∈ e.persons, lower r.1 ≠ lower role) (hok : ns.all personOk = true) :
    addPersons role ns e s
      = .ok (if ns.filterMap personOf = [] then e
             else { e with persons := e.persons ++ [(role, ns.filterMap personOf)] }) s := by
  cases ns with
  | nil => simp [addPersons]
  | cons n ns =>
    simp only [List.all_cons, Bool.and_eq_true] at hok
    obtain ⟨p, hmk⟩ := personOk_mk hok.1
    have hpo : personOf n = some p := personOf_of_mk hmk
    simp only [addPersons, hmk, Bool.false_eq_true, if_false]
    rw [addPerson_fresh e.persons role p hfresh]
    rw [addPersons_acc role ns { e with persons := e.persons ++ [(role, [p])] } s e.persons [p]
      rfl hfresh hok.2]
    simp [hpo]

/-! ### the field loop -/

theorem isPersonFieldOf_roles {s : St} (hr : s.roles = Gen.personRoles) (name : Str) :
    isPersonFieldOf s.roles name = isPersonField name := by
  rw [hr]; rfl

theorem denoteField_persons_seen (m : Macros) (e : Entry) (f : Str × Value) (seen : List Str)
    (hseen : ∀ r ∈ e.persons, lower r.1 ∈ seen) :
    ∀ r ∈ (denoteField m e f).persons, lower r.1 ∈ lower f.1 :: seen := by
  intro r hr
  unfold denoteField at hr
  simp only at hr
  split at hr
  · split at hr
    · exact List.mem_cons_of_mem _ (hseen r hr)
    · simp only [List.mem_append, List.mem_singleton] at hr
      rcases hr with hr | hr
      · exact List.mem_cons_of_mem _ (hseen r hr)
      · subst hr; simp
  · exact List.mem_cons_of_mem _ (hseen r hr)

/-- what the field loop needs when names may repeat: person fields hold acceptable names -/
def procOkD (m : Macros) : List (Str × Value) → Bool
  | [] => true
  | f :: fs =>
    (!isPersonField f.1 || (splitNameList (normalizeWs (expand m f.2))).all personOk) && procOkD m fs

theorem procOkD_of_procOk (m : Macros) (fs : List (Str × Value)) :
    ∀ seen : List Str, procOk m seen fs = true → procOkD m fs = true := by
  induction fs with
  | nil => intro _ _; rfl
  | cons f fs ih =>
    intro seen h
    simp only [procOk, Bool.and_eq_true] at h
    simp only [procOkD, Bool.and_eq_true]
    exact ⟨h.1.2, ih _ h.2⟩

theorem freshNames_of_procOk (m : Macros) (fs : List (Str × Value)) :
    ∀ seen : List Str, procOk m seen fs = true → freshNames seen fs = true := by
  induction fs with
  | nil => intro _ _; rfl
  | cons f fs ih =>
    intro seen h
    simp only [procOk, Bool.and_eq_true] at h
    simp only [freshNames, Bool.and_eq_true]
    exact ⟨h.1.1, ih _ h.2⟩

/-- without repetitions every field counts and nothing is reported -/
theorem firstFields_fresh (fs : List (Str × Value)) :
    ∀ seen : List Str, freshNames seen fs = true → firstFields seen fs = fs := by
  induction fs with
  | nil => intro _ _; rfl
  | cons f fs ih =>
    intro seen h
    simp only [freshNames, Bool.and_eq_true, Bool.not_eq_true'] at h
    simp only [firstFields, h.1, Bool.false_eq_true, if_false, ih _ h.2]

theorem fieldReports_fresh (key : Str) (fs : List (Str × Value)) :
    ∀ seen : List Str, freshNames seen fs = true → fieldReports key seen fs = [] := by
  induction fs with
  | nil => intro _ _; rfl
  | cons f fs ih =>
    intro seen h
    simp only [freshNames, Bool.and_eq_true, Bool.not_eq_true'] at h
    simp only [fieldReports, h.1, Bool.false_eq_true, if_false, ih _ h.2]

/-- The field loop of `process_entry` on fields that may repeat names: the first field of every
name (up to case) is stored, every later one is reported (`DuplicateField`, no line) and dropped.
Continue mode, or strict mode when there is nothing to report.  The ghost `errAt` grows by one copy
of the unread text per report. -/
theorem processFields_dups (m : Macros) (key : Str) (wfs : List (Str × Value)) :
    ∀ (seen : List Str) (e : Entry) (s : St), s.roles = Gen.personRoles →
      (∀ r ∈ e.persons, lower r.1 ∈ seen) → procOkD m wfs = true →
      (s.strict = true → fieldReports key seen wfs = []) →
      processFields key (wfs.map fun f => (f.1, expandPieces m f.2)) seen e s
        = .ok ((firstFields seen wfs).foldl (denoteField m) e)
            { s with errs := s.errs ++ fieldReports key seen wfs,
                     errAt := s.errAt ++ List.replicate (fieldReports key seen wfs).length s.rest } := by
  induction wfs with
  | nil =>
    intro seen e s _ _ _ _
    simp [processFields, firstFields, fieldReports]
  | cons f fs ih =>
    intro seen e s hr hseen hf hstrict
    simp only [procOkD, Bool.and_eq_true, Bool.not_eq_true', Bool.or_eq_true] at hf
    obtain ⟨hpers, hrest⟩ := hf
    by_cases hdup : seen.contains (lower f.1) = true
    · -- a repeated name: reported and dropped
      have hs : s.strict = false := by
        cases h : s.strict with
        | false => rfl
        | true => have := hstrict h; simp only [fieldReports, hdup, if_true] at this; cases this
      have hstrict' : (s.report ⟨.duplicateField key f.1, none⟩).strict = true →
          fieldReports key seen fs = [] := by
        intro h; rw [St.report_strict, hs] at h; cases h
      simp only [List.map_cons, processFields, hdup, if_true, handleError, hs, Bool.false_eq_true, if_false,
        firstFields, fieldReports]
      rw [ih seen e (s.report ⟨.duplicateField key f.1, none⟩) (by rw [St.report_roles]; exact hr) hseen hrest hstrict']
      simp [St.report, List.replicate_succ, hs]
    · have hns : seen.contains (lower f.1) = false := by simpa using hdup
      have hstrict' : s.strict = true → fieldReports key (lower f.1 :: seen) fs = [] := by
        intro h; have := hstrict h; simpa only [fieldReports, hns, Bool.false_eq_true, if_false] using this
      have hval : (expandPieces m f.2).flatten = expand m f.2 := rfl
      simp only [List.map_cons, processFields, hns, Bool.false_eq_true, if_false, hval,
        isPersonFieldOf_roles hr, firstFields, fieldReports, List.foldl_cons]
      have hseen' := denoteField_persons_seen m e f seen hseen
      by_cases hpf : isPersonField f.1 = true
      · have hok : (splitNameList (normalizeWs (expand m f.2))).all personOk = true := by
          rcases hpers with h | h
          · rw [hpf] at h; cases h
          · exact h
        have hfresh : ∀ r ∈ e.persons, lower r.1 ≠ lower f.1 := by
          intro r hr' heq
          have := hseen r hr'
          rw [heq] at this
          simp at hns
          exact hns this
        rw [if_pos hpf, addPersons_fresh f.1 _ e s hfresh hok]
        simp only
        have hden : denoteField m e f
            = (if (splitNameList (normalizeWs (expand m f.2))).filterMap personOf = [] then e
               else { e with persons := e.persons ++
                        [(f.1, (splitNameList (normalizeWs (expand m f.2))).filterMap personOf)] }) := by
          unfold denoteField personsOf
          simp only [hpf, if_true]
        rw [← hden]
        exact ih (lower f.1 :: seen) (denoteField m e f) s hr hseen' hrest hstrict'
      · have hden : denoteField m e f
            = { e with fields := e.fields ++ [(f.1, normalizeWs (expand m f.2))] } := by
          unfold denoteField
          simp only [hpf, if_false, Bool.false_eq_true]
        rw [if_neg hpf, ← hden]
        exact ih (lower f.1 :: seen) (denoteField m e f) s hr hseen' hrest hstrict'

theorem St.errs_nil_eq (s : St) : ({ s with errs := s.errs ++ [], errAt := s.errAt ++ [] } : St) = s := by
  cases s; simp

theorem processFields_ok (m : Macros) (key : Str) (wfs : List (Str × Value)) :
    ∀ (seen : List Str) (e : Entry) (s : St), s.roles = Gen.personRoles →
      (∀ r ∈ e.persons, lower r.1 ∈ seen) → procOk m seen wfs = true →
      processFields key (wfs.map fun f => (f.1, expandPieces m f.2)) seen e s
        = .ok (wfs.foldl (denoteField m) e) s := by
  intro seen e s hr hseen hf
  have hfresh := freshNames_of_procOk m wfs seen hf
  have hrep := fieldReports_fresh key wfs seen hfresh
  rw [processFields_dups m key wfs seen e s hr hseen (procOkD_of_procOk m wfs seen hf) (fun _ => hrep),
    firstFields_fresh wfs seen hfresh, hrep]
  simp only [List.length_nil, List.replicate_zero, St.errs_nil_eq]

theorem denoteField_key (m : Macros) (e : Entry) (f : Str × Value) :
    (denoteField m e f).key = e.key := by
  unfold denoteField
  simp only
  split
  · split <;> rfl
  · rfl

theorem foldl_denoteField_key (m : Macros) (fs : List (Str × Value)) :
    ∀ e : Entry, (fs.foldl (denoteField m) e).key = e.key := by
  induction fs with
  | nil => intro e; rfl
  | cons f fs ih => intro e; rw [List.foldl_cons, ih, denoteField_key]

theorem denoteEntry_key (m : Macros) (ty key : Str) (wfs : List (Str × Value)) :
    (denoteEntry m ty key wfs).key = key := by
  unfold denoteEntry; rw [foldl_denoteField_key]

/-! ### `add_entry` -/

theorem addEntry_ok (s : St) (key : Str) (e : Entry) (hi : ProcInv s) (hek : e.key = key)
    (hk : s.db.entries.any (fun e => keyFold e.key = keyFold key) = false) :
    addEntry s key e = .ok () { s with db := { s.db with entries := s.db.entries ++ [e] } } := by
  have hw : wantEntry s.db key = true := by unfold wantEntry; rw [hi.wanted]
  have hh : hasEntry s.db key = false := hk
  have hc : canonicalKey s.db key = key := by
    unfold canonicalKey; rw [hi.cit]; rfl
  have he : { e with key := key } = e := by cases e; cases hek; rfl
  unfold addEntry
  simp only [hw, hh, hc, he, Bool.not_true, Bool.false_eq_true, if_false, hi.wanted]
  split <;> first | rfl | (rename_i h; simp at h)

/-! ### commands -/

theorem processCmd_entry (m : Macros) (ty key : Str) (wfs : List (Str × Value)) (s : St)
    (hi : ProcInv s) (hk : s.db.entries.any (fun e => keyFold e.key = keyFold key) = false)
    (hf : procOk m [] wfs = true) :
    processCmd (Cmd.entry ty (some key) (wfs.map fun f => (f.1, expandPieces m f.2))) s
      = .ok () { s with db := { s.db with entries := s.db.entries ++ [denoteEntry m ty key wfs] } } := by
  simp only [processCmd, processEntry]
  rw [processFields_ok m key wfs [] _ s hi.roles (by intro r hr; cases hr) hf]
  exact addEntry_ok s key _ hi (denoteEntry_key m ty key wfs) hk

/-- `add_entry` on a key that is in the database already (up to case): reported, not added -/
theorem addEntry_dup (s : St) (key : Str) (e : Entry) (hw : s.db.wanted = none) (hs : s.strict = false)
    (hk : s.db.entries.any (fun e => keyFold e.key = keyFold key) = true) :
    addEntry s key e = .ok () (s.report ⟨.repeatedEntry key, none⟩) := by
  have hh : hasEntry s.db key = true := hk
  simp only [addEntry, wantEntry, hw, Bool.not_true, Bool.false_eq_true, if_false, hh, if_true, handleError, hs]

theorem denoteEntryD_eq (m : Macros) (ty key : Str) (fs : List (Str × Value)) :
    denoteEntryD m ty key fs = denoteEntry m ty key (firstFields [] fs) := rfl

theorem denoteEntryD_key (m : Macros) (ty key : Str) (wfs : List (Str × Value)) :
    (denoteEntryD m ty key wfs).key = key := denoteEntry_key m ty key _

/-- Processing an entry command whose fields may repeat names and whose key may be in the database
already: the duplicate fields are reported first, then the entry is either added (first fields
only) or reported as repeated and dropped.  Continue mode, or strict mode when there is nothing
to report. -/
theorem processCmd_entryD (m : Macros) (ty key : Str) (wfs : List (Str × Value)) (s : St)
    (hi : ProcInv s) (hf : procOkD m wfs = true) (R : List Err)
    (hR : R = fieldReports key [] wfs ++
      (if s.db.entries.any (fun e => keyFold e.key = keyFold key) then [⟨.repeatedEntry key, none⟩] else []))
    (hstrict : s.strict = true → R = []) :
    processCmd (Cmd.entry ty (some key) (wfs.map fun f => (f.1, expandPieces m f.2))) s
      = .ok () { s with
          db := (if s.db.entries.any (fun e => keyFold e.key = keyFold key) then s.db
                 else { s.db with entries := s.db.entries ++ [denoteEntryD m ty key wfs] }),
          errs := s.errs ++ R, errAt := s.errAt ++ List.replicate R.length s.rest } := by
  have hstrictF : s.strict = true → fieldReports key [] wfs = [] := by
    intro h; have := hstrict h; rw [hR] at this; exact (List.append_eq_nil_iff.1 this).1
  simp only [processCmd, processEntry]
  rw [processFields_dups m key wfs [] _ s hi.roles (by intro r hr; cases hr) hf hstrictF]
  show addEntry _ key (denoteEntryD m ty key wfs) = _
  by_cases hk : s.db.entries.any (fun e => keyFold e.key = keyFold key) = true
  · have hs : s.strict = false := by
      cases h : s.strict with
      | false => rfl
      | true => have := hstrict h; rw [hR, if_pos hk] at this; simp at this
    rw [addEntry_dup { s with errs := s.errs ++ fieldReports key [] wfs, errAt := s.errAt ++ List.replicate (fieldReports key [] wfs).length s.rest } key _ hi.wanted hs hk]
    subst hR
    simp [St.report, hk, List.replicate_succ']
  · have hk' : s.db.entries.any (fun e => keyFold e.key = keyFold key) = false := by simpa using hk
    rw [addEntry_ok { s with errs := s.errs ++ fieldReports key [] wfs, errAt := s.errAt ++ List.replicate (fieldReports key [] wfs).length s.rest } key (denoteEntryD m ty key wfs) ⟨hi.wanted, hi.cit, hi.roles⟩ (denoteEntryD_key m ty key wfs) hk']
    subst hR
    simp [hk', denoteEntryD]

theorem processCmd_preamble (m : Macros) (v : Value) (s : St) :
    processCmd (Cmd.preamble (expandPieces m v)) s
      = .ok () { s with db := { s.db with preamble := s.db.preamble ++ [normalizeWs (expand m v)] } } :=
  rfl

theorem processCmd_string (s : St) : processCmd Cmd.string s = .ok () s := rfl

/-- the invariant is preserved by the two state updates above -/
theorem ProcInv.set_db_entries {s : St} (hi : ProcInv s) (es : List Entry) :
    ProcInv { s with db := { s.db with entries := es } } :=
  ⟨hi.wanted, hi.cit, hi.roles⟩

theorem ProcInv.set_db_preamble {s : St} (hi : ProcInv s) (ps : List Str) :
    ProcInv { s with db := { s.db with preamble := ps } } :=
  ⟨hi.wanted, hi.cit, hi.roles⟩


end Pybtex.BibRT
