/-
Helper lemmas for C10 (the `.bib` reader is total, its errors are located, strict and
non-strict reading agree, nothing read later alters what was read before).

Layout:
* §1  `countNl`, `skipToChar`, `Pat.matchAt`: what a scanner step consumes;
* §2  the invariant `Inv N s` (line counter in step with the text, every reported error
      acceptable) and the progress relation `Le s s'` (rest shrinks, lists only grow),
      `Good N s r` for a sub-parser result; one lemma per sub-parser;
* §3  `parseLoop`: fuel suffices, result acceptable;
* §4  strict / non-strict simulation `Sim`;
* §5  prefix stability along the command loop.
-/
import PybtexModel.Model.BibParse
import PybtexModel.Lemmas.BibReport

namespace Pybtex.Bib

/-! ## §1 scanner steps -/

theorem countNl_nil : countNl [] = 0 := by simp [countNl]

theorem countNl_cr_lf (r : Str) : countNl ('\r' :: '\n' :: r) = 1 + countNl r := by
  simp [countNl]

theorem countNl_cons_ne_cr (c : Char) (r : Str) (h : c ≠ '\r') :
    countNl (c :: r) = (if c = '\n' then 1 else 0) + countNl r := by
  rw [countNl]
  · simp [h]
  · intro r' hc _; exact h hc

theorem countNl_cr_cons (c : Char) (r : Str) (h : c ≠ '\n') :
    countNl ('\r' :: c :: r) = 1 + countNl (c :: r) := by
  rw [countNl]
  · simp
  · intro r' _ hc; injection hc with h3 _; exact h h3

theorem countNl_cr_nil : countNl ['\r'] = 1 := by
  rw [countNl]
  · simp [countNl]
  · intro r' _ hc; cases hc

/-- a chunk without line-break characters does not change the count -/
theorem countNl_append_plain (v r : Str) (h : ∀ c ∈ v, c ≠ '\n' ∧ c ≠ '\r') :
    countNl (v ++ r) = countNl r := by
  induction v with
  | nil => rfl
  | cons c v ih =>
    have hc := h c (by simp)
    rw [List.cons_append, countNl_cons_ne_cr _ _ hc.2, if_neg hc.1, Nat.zero_add]
    exact ih (fun d hd => h d (List.mem_cons_of_mem _ hd))

theorem countNl_plain (v : Str) (h : ∀ c ∈ v, c ≠ '\n' ∧ c ≠ '\r') : countNl v = 0 := by
  have := countNl_append_plain v [] h
  simpa [countNl_nil] using this

/-- `update_lineno` is additive over a split that does not separate `\r` from `\n`. -/
theorem countNl_append (a b : Str) (h : a.getLast? ≠ some '\r' ∨ b.head? ≠ some '\n') :
    countNl (a ++ b) = countNl a + countNl b := by
  induction a using countNl.induct with
  | case1 => simp [countNl_nil]
  | case2 r ih =>
    have : r.getLast? ≠ some '\r' ∨ b.head? ≠ some '\n' := by
      rcases h with h | h
      · left
        cases r with
        | nil => simp
        | cons x r => simpa [List.getLast?_cons_cons] using h
      · exact Or.inr h
    simp only [List.cons_append, countNl_cr_lf, ih this]; omega
  | case3 c r hne ih =>
    by_cases hc : c = '\r'
    · subst hc
      cases r with
      | nil =>
        have hb : b.head? ≠ some '\n' := by
          rcases h with h | h
          · simp at h
          · exact h
        cases b with
        | nil => simp [countNl_nil]
        | cons d b =>
          have hd : d ≠ '\n' := by simpa using hb
          simp only [List.cons_append, List.nil_append, countNl_cr_cons _ _ hd, countNl_cr_nil]
      | cons x r =>
        have hx : x ≠ '\n' := fun hx => hne r rfl (by rw [hx])
        have h' : (x :: r).getLast? ≠ some '\r' ∨ b.head? ≠ some '\n' := by
          rcases h with h | h
          · left; simpa [List.getLast?_cons_cons] using h
          · exact Or.inr h
        have := ih h'
        simp only [List.cons_append] at this ⊢
        rw [countNl_cr_cons _ _ hx, countNl_cr_cons _ _ hx, this]; omega
    · have h' : r.getLast? ≠ some '\r' ∨ b.head? ≠ some '\n' := by
        rcases h with h | h
        · cases r with
          | nil =>
            cases b with
            | nil => right; simp
            | cons d b => left; simp
          | cons x r => left; simpa [List.getLast?_cons_cons] using h
        · exact Or.inr h
      simp only [List.cons_append, countNl_cons_ne_cr _ _ hc, ih h']; omega

theorem skipToChar_spec {p : Char → Bool} {s chunk rest : Str}
    (h : skipToChar p s = some (chunk, rest)) :
    s = chunk ++ rest ∧ ∃ c, chunk.getLast? = some c ∧ p c = true := by
  induction s generalizing chunk with
  | nil => simp [skipToChar] at h
  | cons c r ih =>
    simp only [skipToChar] at h
    split at h
    · rename_i hp
      injection h with h; injection h with h1 h2
      subst h1; subst h2
      exact ⟨rfl, c, rfl, hp⟩
    · cases hr : skipToChar p r with
      | none => simp [hr] at h
      | some x =>
        obtain ⟨x1, x2⟩ := x
        simp only [hr, Option.map_some, Option.some.injEq, Prod.mk.injEq] at h
        obtain ⟨h1, h2⟩ := h
        subst h1; subst h2
        obtain ⟨e, d, hd, hp⟩ := ih hr
        refine ⟨by rw [e]; rfl, d, ?_, hp⟩
        cases x1 with
        | nil => simp at hd
        | cons y ys => simpa [List.getLast?_cons_cons] using hd

theorem skipToChar_none {p : Char → Bool} {s : Str} (h : skipToChar p s = none) :
    ∀ c ∈ s, p c = false := by
  induction s with
  | nil => simp
  | cons c r ih =>
    simp only [skipToChar] at h
    split at h
    · cases h
    · rename_i hp
      cases hr : skipToChar p r with
      | none =>
        intro d hd
        rcases List.mem_cons.1 hd with hd | hd
        · subst hd; simpa using hp
        · exact ih hr d hd
      | some x => simp [hr] at h

/-- what a consumed chunk does to the line bookkeeping -/
theorem skipToChar_countNl {p : Char → Bool} {s chunk rest : Str}
    (h : skipToChar p s = some (chunk, rest)) (hp : p '\r' = false) :
    countNl s = countNl chunk + countNl rest ∧ rest.length < s.length := by
  obtain ⟨e, c, hc, hpc⟩ := skipToChar_spec h
  subst e
  constructor
  · apply countNl_append
    left; rw [hc]; intro hcr
    injection hcr with hcr; subst hcr; rw [hp] at hpc; cases hpc
  · cases chunk with
    | nil => simp at hc
    | cons y ys => simp; omega

theorem isWs_nl : isWs '\n' = true := by decide
theorem isWs_cr : isWs '\r' = true := by decide

theorem not_ws_plain {c : Char} (h : isWs c = false) : c ≠ '\n' ∧ c ≠ '\r' := by
  constructor <;> (intro hc; subst hc; revert h; decide)

theorem isNameStart_plain {c : Char} (h : isNameStart c = true) : c ≠ '\n' ∧ c ≠ '\r' := by
  constructor <;> (intro hc; subst hc; revert h; decide)
theorem isNameChar_plain {c : Char} (h : isNameChar c = true) : c ≠ '\n' ∧ c ≠ '\r' := by
  constructor <;> (intro hc; subst hc; revert h; decide)
theorem isDigit_plain {c : Char} (h : isDigit c = true) : c ≠ '\n' ∧ c ≠ '\r' := by
  constructor <;> (intro hc; subst hc; revert h; decide)

/-- the literal patterns the reader uses never match a line break -/
def Pat.plain : Pat → Prop
  | .lit c => c ≠ '\n' ∧ c ≠ '\r'
  | _ => True

theorem mem_takeWhile_imp {f : Char → Bool} {s : Str} {c : Char} (h : c ∈ s.takeWhile f) :
    f c = true := by
  induction s with
  | nil => simp at h
  | cons d r ih =>
    simp only [List.takeWhile] at h
    split at h
    · rename_i hd
      rcases List.mem_cons.1 h with h | h
      · subst h; exact hd
      · exact ih h
    · simp at h

theorem takeWhile_plain (f : Char → Bool) (hf : ∀ c, f c = true → c ≠ '\n' ∧ c ≠ '\r') (s : Str) :
    ∀ c ∈ s.takeWhile f, c ≠ '\n' ∧ c ≠ '\r' := by
  intro c hc
  exact hf c (mem_takeWhile_imp hc)

/-- a matched token is a non-empty prefix without line breaks -/
theorem matchAt_spec {p : Pat} {s v r : Str} (hp : p.plain) (h : p.matchAt s = some (v, r)) :
    s = v ++ r ∧ v ≠ [] ∧ ∀ c ∈ v, c ≠ '\n' ∧ c ≠ '\r' := by
  cases p with
  | name =>
    cases s with
    | nil => simp [Pat.matchAt] at h
    | cons c t =>
      simp only [Pat.matchAt] at h
      split at h
      · rename_i hc
        simp only [Option.some.injEq, Prod.mk.injEq] at h
        obtain ⟨h1, h2⟩ := h; subst h1; subst h2
        refine ⟨by simp [List.takeWhile_append_dropWhile], by simp, ?_⟩
        intro d hd
        rcases List.mem_cons.1 hd with hd | hd
        · subst hd; exact isNameStart_plain hc
        · exact isNameChar_plain (mem_takeWhile_imp hd)
      · cases h
  | keyParen =>
    simp only [Pat.matchAt] at h
    split at h
    · cases h
    · rename_i hne
      simp only [Option.some.injEq, Prod.mk.injEq] at h
      obtain ⟨h1, h2⟩ := h; subst h1; subst h2
      refine ⟨by simp [List.takeWhile_append_dropWhile], hne, ?_⟩
      apply takeWhile_plain
      intro c hc
      apply not_ws_plain
      simp only [Bool.and_eq_true, Bool.not_eq_true'] at hc
      exact hc.1
  | keyBrace =>
    simp only [Pat.matchAt] at h
    split at h
    · cases h
    · rename_i hne
      simp only [Option.some.injEq, Prod.mk.injEq] at h
      obtain ⟨h1, h2⟩ := h; subst h1; subst h2
      refine ⟨by simp [List.takeWhile_append_dropWhile], hne, ?_⟩
      apply takeWhile_plain
      intro c hc
      apply not_ws_plain
      simp only [Bool.and_eq_true, Bool.not_eq_true'] at hc
      exact hc.1.1
  | number =>
    simp only [Pat.matchAt] at h
    split at h
    · cases h
    · rename_i hne
      simp only [Option.some.injEq, Prod.mk.injEq] at h
      obtain ⟨h1, h2⟩ := h; subst h1; subst h2
      refine ⟨by simp [List.takeWhile_append_dropWhile], hne, ?_⟩
      exact takeWhile_plain _ (fun c hc => isDigit_plain hc) _
  | lit c =>
    cases s with
    | nil => simp [Pat.matchAt] at h
    | cons d t =>
      simp only [Pat.matchAt] at h
      split at h
      · rename_i hc
        simp only [Option.some.injEq, Prod.mk.injEq] at h
        obtain ⟨h1, h2⟩ := h; subst h1; subst h2; subst hc
        refine ⟨rfl, by simp, ?_⟩
        intro e he
        simp only [List.mem_singleton] at he
        subst he; exact hp
      · cases h

theorem firstMatch_spec {ps : List Pat} {s v r : Str} {p : Pat} (hp : ∀ q ∈ ps, q.plain)
    (h : firstMatch ps s = some (p, v, r)) :
    s = v ++ r ∧ v ≠ [] ∧ ∀ c ∈ v, c ≠ '\n' ∧ c ≠ '\r' := by
  induction ps with
  | nil => simp [firstMatch] at h
  | cons q qs ih =>
    simp only [firstMatch] at h
    split at h
    · rename_i v' r' hm
      simp only [Option.some.injEq, Prod.mk.injEq] at h
      obtain ⟨_, h1, h2⟩ := h; subst h1; subst h2
      exact matchAt_spec (hp q (by simp)) hm
    · exact ih (fun q' hq' => hp q' (List.mem_cons_of_mem _ hq')) h

/-! ## §2 invariant and progress relation -/

/-- the kinds of `PybtexSyntaxError` (they carry `lineno`) -/
def synKind : ErrKind → Bool
  | .tokenRequired _ | .prematureEOF | .tooManyBraces | .unbalancedBraces | .undefinedMacro _ => true
  | _ => false

/-- an acceptable error for a text with `N` lines: not `internal`; a syntax error is located -/
def okErr (N : Nat) (e : Err) : Prop :=
  e.kind ≠ .internal ∧ (synKind e.kind = true → ∃ l, e.line = some l ∧ 1 ≤ l ∧ l ≤ N)

def okAbort (N : Nat) : Abort → Prop
  | .syn e => okErr N e
  | .raised e => okErr N e
  | .skip => True

/-- line counter in step with the text (`N` = 1 + line breaks of the whole text); errors so far acceptable -/
def Inv (N : Nat) (s : St) : Prop :=
  1 ≤ s.ln ∧ s.ln + countNl s.rest = N ∧ ∀ e ∈ s.errs, okErr N e

/-- progress: input only shrinks, mode fixed, error list / entries / preamble only grow at the end -/
def Le (s s' : St) : Prop :=
  s'.rest.length ≤ s.rest.length ∧ s'.strict = s.strict ∧ s'.roles = s.roles ∧ s.errs <+: s'.errs ∧
  s.db.entries <+: s'.db.entries ∧ s.db.preamble <+: s'.db.preamble

theorem Le.refl (s : St) : Le s s :=
  ⟨Nat.le_refl _, rfl, rfl, List.prefix_refl _, List.prefix_refl _, List.prefix_refl _⟩

theorem Le.trans {a b c : St} (h1 : Le a b) (h2 : Le b c) : Le a c :=
  ⟨Nat.le_trans h2.1 h1.1, h2.2.1.trans h1.2.1, h2.2.2.1.trans h1.2.2.1,
   h1.2.2.2.1.trans h2.2.2.2.1, h1.2.2.2.2.1.trans h2.2.2.2.2.1, h1.2.2.2.2.2.trans h2.2.2.2.2.2⟩

def Good {α : Type} (N : Nat) (s : St) : Res α → Prop
  | .ok _ s' => Inv N s' ∧ Le s s'
  | .fail a s' => Inv N s' ∧ Le s s' ∧ okAbort N a

/-- like `Good`, and success consumed at least one character -/
def GoodLt {α : Type} (N : Nat) (s : St) : Res α → Prop
  | .ok _ s' => Inv N s' ∧ Le s s' ∧ s'.rest.length < s.rest.length
  | .fail a s' => Inv N s' ∧ Le s s' ∧ okAbort N a

/-- for optional tokens: a token that was found was consumed -/
def GoodTok {α : Type} (N : Nat) (s : St) : Res (Option α) → Prop
  | .ok none s' => Inv N s' ∧ Le s s'
  | .ok (some _) s' => Inv N s' ∧ Le s s' ∧ s'.rest.length < s.rest.length
  | .fail a s' => Inv N s' ∧ Le s s' ∧ okAbort N a

theorem GoodLt.good {α : Type} {N : Nat} {s : St} {r : Res α} (h : GoodLt N s r) : Good N s r := by
  cases r with
  | ok a s' => exact ⟨h.1, h.2.1⟩
  | fail a s' => exact h

theorem okErr_ln {N : Nat} {s : St} (h : Inv N s) (k : ErrKind) (hk : k ≠ .internal) :
    okErr N ⟨k, some s.ln⟩ :=
  ⟨hk, fun _ => ⟨s.ln, rfl, h.1, by have := h.2.1; omega⟩⟩

theorem okErr_data {N : Nat} (k : ErrKind) (hk : k ≠ .internal) (hs : synKind k = false) (l : Option Nat) :
    okErr N ⟨k, l⟩ :=
  ⟨hk, fun h => by simp [hs] at h⟩

theorem dropWhile_ws_head (s : Str) : (s.dropWhile isWs).head? ≠ some '\n' := by
  induction s with
  | nil => simp
  | cons c r ih =>
    simp only [List.dropWhile]
    split
    · exact ih
    · rename_i hc
      simp only [List.head?_cons, ne_eq, Option.some.injEq]
      intro h; subst h; rw [isWs_nl] at hc; cases hc

theorem eatWs_good {N : Nat} {s : St} (h : Inv N s) : Inv N (eatWs s) ∧ Le s (eatWs s) := by
  have e : s.rest = s.rest.takeWhile isWs ++ s.rest.dropWhile isWs :=
    (List.takeWhile_append_dropWhile).symm
  have hc := countNl_append (s.rest.takeWhile isWs) (s.rest.dropWhile isWs) (Or.inr (dropWhile_ws_head _))
  rw [← e] at hc
  have hl : (s.rest.dropWhile isWs).length ≤ s.rest.length := (List.dropWhile_sublist _).length_le
  refine ⟨⟨?_, ?_, h.2.2⟩, hl, rfl, rfl, List.prefix_refl _, List.prefix_refl _, List.prefix_refl _⟩
  · show 1 ≤ s.ln + _
    have := h.1; omega
  · show s.ln + _ + countNl (s.rest.dropWhile isWs) = N
    have := h.2.1; omega

theorem getToken_good {N : Nat} {s : St} (pats : List Pat) (h : Inv N s) (hp : ∀ q ∈ pats, q.plain) :
    GoodTok N s (getToken pats s) := by
  obtain ⟨hI, hL⟩ := eatWs_good h
  unfold getToken
  simp only
  split
  · exact ⟨hI, hL, okErr_ln hI _ (by simp)⟩
  · split
    · exact ⟨hI, hL⟩
    · rename_i p v r hm
      obtain ⟨e, hv, hplain⟩ := firstMatch_spec hp hm
      have hc := countNl_append_plain v r hplain
      rw [← e] at hc
      have hlen : r.length < (eatWs s).rest.length := by
        rw [e]; cases v with
        | nil => exact absurd rfl hv
        | cons y ys => simp; omega
      refine ⟨⟨hI.1, ?_, hI.2.2⟩, ⟨?_, hL.2⟩, ?_⟩
      · show (eatWs s).ln + countNl r = N
        rw [← hc]; exact hI.2.1
      · show r.length ≤ s.rest.length
        have := hL.1; omega
      · show r.length < s.rest.length
        have := hL.1; omega

theorem required_good {N : Nat} {s : St} (pats : List Pat) (desc : String) (h : Inv N s)
    (hp : ∀ q ∈ pats, q.plain) : GoodLt N s (required pats desc s) := by
  have hg := getToken_good pats h hp
  unfold required
  cases hr : getToken pats s with
  | fail a s' => rw [hr] at hg; exact hg
  | ok t s' =>
    rw [hr] at hg
    cases t with
    | none => exact ⟨hg.1, hg.2, okErr_ln hg.1 _ (by simp)⟩
    | some t => exact hg

/-- consuming a `skipToChar` chunk keeps the invariant -/
theorem chunk_good {N : Nat} {s : St} {p : Char → Bool} {chunk rest : Str} (h : Inv N s)
    (hsk : skipToChar p s.rest = some (chunk, rest)) (hp : p '\r' = false) :
    Inv N { s with rest := rest, ln := s.ln + countNl chunk } ∧
    Le s { s with rest := rest, ln := s.ln + countNl chunk } ∧ rest.length < s.rest.length := by
  obtain ⟨hc, hl⟩ := skipToChar_countNl hsk hp
  refine ⟨⟨?_, ?_, h.2.2⟩, ⟨Nat.le_of_lt hl, rfl, rfl, List.prefix_refl _, List.prefix_refl _, List.prefix_refl _⟩, hl⟩
  · show 1 ≤ s.ln + _
    have := h.1; omega
  · show s.ln + _ + countNl rest = N
    have := h.2.1; omega

theorem strLoop_good {N : Nat} (fuel : Nat) (quoted : Bool) (d : Nat) (acc : Str) (s : St)
    (h : Inv N s) (hf : s.rest.length < fuel) : Good N s (strLoop fuel quoted d acc s) := by
  induction fuel generalizing d acc s with
  | zero => omega
  | succ fuel ih =>
    unfold strLoop
    simp only
    split
    · exact ⟨h, Le.refl _, okErr_ln h _ (by simp)⟩
    · rename_i chunk rest hsk
      obtain ⟨hI, hL, hlt⟩ := chunk_good h hsk (by simp)
      have hrec : ∀ d' acc', Good N s
          (strLoop fuel quoted d' acc' { s with rest := rest, ln := s.ln + countNl chunk }) := by
        intro d' acc'
        have := ih d' acc' _ hI (by show rest.length < fuel; omega)
        revert this
        cases strLoop fuel quoted d' acc' { s with rest := rest, ln := s.ln + countNl chunk } with
        | ok a s' => intro this; exact ⟨this.1, hL.trans this.2⟩
        | fail a s' => intro this; exact ⟨this.1, hL.trans this.2.1, this.2.2⟩
      split
      · split
        · exact ⟨hI, hL, okErr_ln hI _ (by simp)⟩
        · exact hrec _ _
      · split
        · split
          · exact ⟨hI, hL, okErr_ln hI _ (by simp)⟩
          · exact ⟨hI, hL⟩
        · exact hrec _ _
      · exact ⟨hI, hL⟩

theorem Good.trans {α : Type} {N : Nat} {s s1 : St} {r : Res α} (hL : Le s s1) (h : Good N s1 r) :
    Good N s r := by
  cases r with
  | ok a s' => exact ⟨h.1, hL.trans h.2⟩
  | fail a s' => exact ⟨h.1, hL.trans h.2.1, h.2.2⟩

theorem GoodLt.trans {α : Type} {N : Nat} {s s1 : St} {r : Res α} (hL : Le s s1) (h : GoodLt N s1 r) :
    GoodLt N s r := by
  cases r with
  | ok a s' => exact ⟨h.1, hL.trans h.2.1, by have := hL.1; have := h.2.2; omega⟩
  | fail a s' => exact ⟨h.1, hL.trans h.2.1, h.2.2⟩

/-- after a strict step, anything good is strictly good -/
theorem Good.trans_lt {α : Type} {N : Nat} {s s1 : St} {r : Res α} (hL : Le s s1)
    (hlt : s1.rest.length < s.rest.length) (h : Good N s1 r) : GoodLt N s r := by
  cases r with
  | ok a s' => exact ⟨h.1, hL.trans h.2, by have := h.2.1; omega⟩
  | fail a s' => exact ⟨h.1, hL.trans h.2.1, h.2.2⟩

theorem handleError_good {N : Nat} {s : St} {e : Err} (h : Inv N s) (he : okErr N e) :
    Good N s (handleError s e) := by
  unfold handleError
  split
  · exact ⟨h, Le.refl _, he⟩
  · refine ⟨⟨h.1, h.2.1, ?_⟩, Nat.le_refl _, rfl, rfl, List.prefix_append _ _, List.prefix_refl _, List.prefix_refl _⟩
    intro e' he'
    rcases List.mem_append.1 he' with he' | he'
    · exact h.2.2 e' he'
    · simp only [List.mem_singleton] at he'; subst he'; exact he

theorem substituteMacro_good {N : Nat} {s : St} (name : Str) (h : Inv N s) :
    Good N s (substituteMacro name s) := by
  unfold substituteMacro
  split
  · exact ⟨h, Le.refl _⟩
  · split
    · have hg := handleError_good h (okErr_ln h (.undefinedMacro name) (by simp))
      cases hr : handleError s ⟨.undefinedMacro name, some s.ln⟩ with
      | fail a s' => rw [hr] at hg; exact hg
      | ok a s' => rw [hr] at hg; exact hg
    · exact ⟨h, Le.refl _⟩

theorem plain4 : ∀ q ∈ [Pat.lit '"', .lit '{', .number, .name], q.plain := by
  intro q hq
  simp only [List.mem_cons, List.not_mem_nil, or_false] at hq
  rcases hq with rfl | rfl | rfl | rfl <;> simp [Pat.plain]

theorem plainLit {c : Char} (h1 : c ≠ '\n') (h2 : c ≠ '\r') : ∀ q ∈ [Pat.lit c], q.plain := by
  intro q hq
  simp only [List.mem_singleton] at hq
  subst hq; exact ⟨h1, h2⟩

theorem plainName : ∀ q ∈ [Pat.name], q.plain := by
  intro q hq
  simp only [List.mem_singleton] at hq
  subst hq; trivial

theorem parseValuePart_good {N : Nat} {s : St} (h : Inv N s) : GoodLt N s (parseValuePart s) := by
  have hg := required_good [.lit '"', .lit '{', .number, .name] "field value" h plain4
  unfold parseValuePart
  cases hr : required [.lit '"', .lit '{', .number, .name] "field value" s with
  | fail a s' => rw [hr] at hg; exact hg
  | ok t s1 =>
    rw [hr] at hg
    obtain ⟨p, v⟩ := t
    obtain ⟨hI, hL, hlt⟩ := hg
    simp only
    have hstr : ∀ q, GoodLt N s (match strLoop (s1.rest.length + 1) q 0 [] s1 with
        | .fail e s => .fail e s
        | .ok str s => .ok str.dropLast s) := by
      intro q
      have := strLoop_good (s1.rest.length + 1) q 0 [] s1 hI (Nat.lt_succ_self _)
      cases hs : strLoop (s1.rest.length + 1) q 0 [] s1 with
      | fail a s' => rw [hs] at this; exact Good.trans_lt hL hlt (r := Res.fail a s') this
      | ok a s' => rw [hs] at this; exact Good.trans_lt hL hlt (r := Res.ok a.dropLast s') this
    split
    · exact hstr true
    · exact hstr false
    · exact ⟨hI, hL, hlt⟩
    · exact Good.trans_lt hL hlt (substituteMacro_good v hI)

theorem GoodTok.trans {α : Type} {N : Nat} {s s1 : St} {r : Res (Option α)} (hL : Le s s1)
    (h : GoodTok N s1 r) : GoodTok N s r := by
  cases r with
  | ok a s' =>
    cases a with
    | none => exact ⟨h.1, hL.trans h.2⟩
    | some a => exact ⟨h.1, hL.trans h.2.1, by have := hL.1; have := h.2.2; omega⟩
  | fail a s' => exact ⟨h.1, hL.trans h.2.1, h.2.2⟩

theorem parseValueLoop_good {N : Nat} (fuel : Nat) (parts : List Str) (s : St)
    (h : Inv N s) (hf : s.rest.length < fuel) : GoodLt N s (parseValueLoop fuel parts s) := by
  induction fuel generalizing parts s with
  | zero => omega
  | succ fuel ih =>
    unfold parseValueLoop
    have hg := parseValuePart_good h
    cases hr : parseValuePart s with
    | fail a s' => rw [hr] at hg; exact hg
    | ok part s1 =>
      rw [hr] at hg
      obtain ⟨hI, hL, hlt⟩ := hg
      simp only
      have hg2 := getToken_good [.lit '#'] hI (plainLit (by decide) (by decide))
      cases hr2 : getToken [.lit '#'] s1 with
      | fail a s' => rw [hr2] at hg2; exact ⟨hg2.1, hL.trans hg2.2.1, hg2.2.2⟩
      | ok t s2 =>
        rw [hr2] at hg2
        cases t with
        | none => exact ⟨hg2.1, hL.trans hg2.2, by have := hg2.2.1; omega⟩
        | some t =>
          simp only
          have hL2 := hL.trans hg2.2.1
          exact GoodLt.trans hL2 (ih _ s2 hg2.1 (by have := hg2.2.2; omega))

theorem parseValue_good {N : Nat} {s : St} (h : Inv N s) : GoodLt N s (parseValue s) := by
  unfold parseValue
  have hg := parseValueLoop_good (s.rest.length + 1) [] s h (Nat.lt_succ_self _)
  cases hr : parseValueLoop (s.rest.length + 1) [] s with
  | fail a s' => rw [hr] at hg; exact hg
  | ok parts s' => rw [hr] at hg; exact hg

theorem parseField_good {N : Nat} {s : St} (h : Inv N s) : Good N s (parseField s) := by
  unfold parseField
  have hg := getToken_good [.name] h plainName
  cases hr : getToken [.name] s with
  | fail a s' => rw [hr] at hg; exact hg
  | ok t s1 =>
    rw [hr] at hg
    cases t with
    | none => exact hg
    | some t =>
      obtain ⟨_, name⟩ := t
      simp only
      have hI1 : Inv N { s1 with curFieldName := some name } := hg.1
      have hL1 : Le s { s1 with curFieldName := some name } := hg.2.1
      have hg2 := required_good [.lit '='] (descOf [.lit '=']) hI1 (plainLit (by decide) (by decide))
      cases hr2 : required [.lit '='] (descOf [.lit '=']) { s1 with curFieldName := some name } with
      | fail a s' => rw [hr2] at hg2; exact ⟨hg2.1, hL1.trans hg2.2.1, hg2.2.2⟩
      | ok t2 s2 =>
        rw [hr2] at hg2
        simp only
        exact Good.trans (hL1.trans hg2.2.1) (parseValue_good hg2.1).good

theorem parseEntryFields_good {N : Nat} (fuel : Nat) (s : St)
    (h : Inv N s) (hf : s.rest.length < fuel) : Good N s (parseEntryFields fuel s) := by
  induction fuel generalizing s with
  | zero => omega
  | succ fuel ih =>
    unfold parseEntryFields
    simp only
    have hI0 : Inv N { s with curFieldName := none, curValue := [] } := h
    have hg := parseField_good hI0
    cases hr : parseField { s with curFieldName := none, curValue := [] } with
    | fail a s' => rw [hr] at hg; exact hg
    | ok u s1 =>
      rw [hr] at hg
      simp only
      have key : ∀ s1' : St, Inv N s1' ∧ Le s s1' → Good N s (match getToken [.lit ','] s1' with
          | .fail e s => .fail e s
          | .ok none s => .ok () s
          | .ok (some _) s => parseEntryFields fuel s) := by
        intro s1' hI1
        have hg2 := getToken_good [.lit ','] hI1.1 (plainLit (by decide) (by decide))
        cases hr2 : getToken [.lit ','] s1' with
        | fail a s' => rw [hr2] at hg2; exact ⟨hg2.1, hI1.2.trans hg2.2.1, hg2.2.2⟩
        | ok t s2 =>
          rw [hr2] at hg2
          cases t with
          | none => exact ⟨hg2.1, hI1.2.trans hg2.2⟩
          | some t =>
            simp only
            refine Good.trans (hI1.2.trans hg2.2.1) (ih s2 hg2.1 ?_)
            have := hg2.2.2; have := hI1.2.1; omega
      apply key
      split
      · split
        · exact hg
        · exact hg
      · exact hg

theorem parseEntryBody_good {N : Nat} {s : St} (paren : Bool) (h : Inv N s) :
    Good N s (parseEntryBody paren s) := by
  unfold parseEntryBody
  have hp : ∀ q ∈ [if paren then Pat.keyParen else Pat.keyBrace], q.plain := by
    intro q hq
    simp only [List.mem_singleton] at hq
    subst hq; cases paren <;> trivial
  have hg := required_good [if paren then .keyParen else .keyBrace] "entry key" h hp
  cases hr : required [if paren then .keyParen else .keyBrace] "entry key" s with
  | fail a s' => rw [hr] at hg; exact hg
  | ok t s1 =>
    rw [hr] at hg
    obtain ⟨_, key⟩ := t
    simp only
    have hI1 : Inv N { s1 with curKey := some key } := hg.1
    have hL1 : Le s { s1 with curKey := some key } := hg.2.1
    have hg2 := parseEntryFields_good (s1.rest.length + 2) { s1 with curKey := some key } hI1
      (by show s1.rest.length < _; omega)
    cases hr2 : parseEntryFields (s1.rest.length + 2) { s1 with curKey := some key } with
    | fail a s' => rw [hr2] at hg2; exact ⟨hg2.1, hL1.trans hg2.2.1, hg2.2.2⟩
    | ok u s2 =>
      rw [hr2] at hg2
      simp only
      split
      · exact ⟨hg2.1, hL1.trans hg2.2⟩
      · exact ⟨hg2.1, hL1.trans hg2.2, trivial⟩

theorem parseStringBody_good {N : Nat} {s : St} (h : Inv N s) : Good N s (parseStringBody s) := by
  unfold parseStringBody
  have hg := required_good [.name] (descOf [.name]) h plainName
  cases hr : required [.name] (descOf [.name]) s with
  | fail a s' => rw [hr] at hg; exact hg.good
  | ok t s1 =>
    rw [hr] at hg
    obtain ⟨_, name⟩ := t
    simp only
    have hI1 : Inv N { s1 with curFieldName := some name } := hg.1
    have hL1 : Le s { s1 with curFieldName := some name } := hg.2.1
    have hg2 := required_good [.lit '='] (descOf [.lit '=']) hI1 (plainLit (by decide) (by decide))
    cases hr2 : required [.lit '='] (descOf [.lit '=']) { s1 with curFieldName := some name } with
    | fail a s' => rw [hr2] at hg2; exact ⟨hg2.1, hL1.trans hg2.2.1, hg2.2.2⟩
    | ok t2 s2 =>
      rw [hr2] at hg2
      simp only
      have hg3 := parseValue_good hg2.1
      have hL2 := hL1.trans hg2.2.1
      cases hr3 : parseValue s2 with
      | fail a s' => rw [hr3] at hg3; exact ⟨hg3.1, hL2.trans hg3.2.1, hg3.2.2⟩
      | ok u s3 => rw [hr3] at hg3; exact ⟨hg3.1, hL2.trans hg3.2.1⟩

/-- `required([body_end])` after the body -/
theorem afterBody_good {N : Nat} {s : St} (body : Res Unit) (hb : Good N s body) (bodyEnd : Pat)
    (hp : bodyEnd.plain) :
    Good N s (match body with
      | .fail e s => .fail e s
      | .ok _ s =>
        match required [bodyEnd] (descOf [bodyEnd]) s with
        | .fail e s => .fail e s
        | .ok _ s => (.ok () s : Res Unit)) := by
  cases body with
  | fail a s' => exact hb
  | ok u s1 =>
    simp only
    have hpl : ∀ q ∈ [bodyEnd], q.plain := by
      intro q hq; simp only [List.mem_singleton] at hq; subst hq; exact hp
    have hg := required_good [bodyEnd] (descOf [bodyEnd]) hb.1 hpl
    cases hr : required [bodyEnd] (descOf [bodyEnd]) s1 with
    | fail a s' => rw [hr] at hg; exact ⟨hg.1, hb.2.trans hg.2.1, hg.2.2⟩
    | ok t s2 => rw [hr] at hg; exact ⟨hg.1, hb.2.trans hg.2.1⟩

/-- the `except PybtexSyntaxError: handle_error` of `parse_command` and `make_result()` -/
theorem finish_good {N : Nat} {s : St} (ab : Res Unit) (h : Good N s ab) (mk : St → Cmd) :
    Good N s (match ab with
      | .ok _ s => .ok (mk s) s
      | .fail (.syn e) s =>
        match handleError s e with
        | .fail a s => .fail a s
        | .ok _ s => .ok (mk s) s
      | .fail a s => .fail a s) := by
  cases ab with
  | ok u s1 => exact h
  | fail a s1 =>
    cases a with
    | syn e =>
      simp only
      have hg := handleError_good h.1 h.2.2
      cases hr : handleError s1 e with
      | fail a s' => rw [hr] at hg; exact ⟨hg.1, h.2.1.trans hg.2.1, hg.2.2⟩
      | ok u s' => rw [hr] at hg; exact ⟨hg.1, h.2.1.trans hg.2⟩
    | skip => exact h
    | raised e => exact h

theorem parseCommand_good {N : Nat} {s : St} (h : Inv N s) : Good N s (parseCommand s) := by
  unfold parseCommand
  simp only
  have hI0 : Inv N { s with curKey := none, curFields := [], curFieldName := none, curValue := [] } := h
  have hg := required_good [.name] (descOf [.name]) hI0 plainName
  cases hr : required [.name] (descOf [.name])
      { s with curKey := none, curFields := [], curFieldName := none, curValue := [] } with
  | fail a s' => rw [hr] at hg; exact hg.good
  | ok t s1 =>
    rw [hr] at hg
    obtain ⟨_, command⟩ := t
    simp only
    have hpl : ∀ q ∈ [Pat.lit '(', Pat.lit '{'], q.plain := by
      intro q hq
      simp only [List.mem_cons, List.not_mem_nil, or_false] at hq
      rcases hq with rfl | rfl <;> simp [Pat.plain]
    have hL1 : Le s s1 := hg.2.1
    have hg2 := required_good [.lit '(', .lit '{'] (descOf [.lit '(', .lit '{']) hg.1 hpl
    cases hr2 : required [.lit '(', .lit '{'] (descOf [.lit '(', .lit '{']) s1 with
    | fail a s' => rw [hr2] at hg2; exact ⟨hg2.1, hL1.trans hg2.2.1, hg2.2.2⟩
    | ok t2 s2 =>
      rw [hr2] at hg2
      obtain ⟨open_, _⟩ := t2
      simp only
      have hL2 := hL1.trans hg2.2.1
      split
      · exact ⟨hg2.1, hL2, trivial⟩
      · apply Good.trans hL2
        apply finish_good
        apply afterBody_good
        · split
          · exact parseStringBody_good hg2.1
          · exact (parseValue_good hg2.1).good
          · exact parseEntryBody_good _ hg2.1
        · split <;> simp [Pat.plain]

theorem addEntry_good {N : Nat} {s : St} (key : Str) (e : Entry) (h : Inv N s) :
    Good N s (addEntry s key e) := by
  unfold addEntry
  split
  · exact ⟨h, Le.refl _⟩
  · split
    · exact handleError_good h (okErr_data _ (by simp) rfl _)
    · simp only
      refine ⟨h, Nat.le_refl _, rfl, rfl, List.prefix_refl _, ?_, ?_⟩
      · split <;> exact List.prefix_append _ _
      · split <;> exact List.prefix_refl _

theorem addPersons_good {N : Nat} (role : Str) (ns : List Str) (e : Entry) (s : St) (h : Inv N s) :
    Good N s (addPersons role ns e s) := by
  induction ns generalizing e s with
  | nil => exact ⟨h, Le.refl _⟩
  | cons n ns ih =>
    unfold addPersons
    split
    · exact ⟨h, Le.refl _, okErr_data _ (by simp) rfl _⟩
    · rename_i p tooMany _
      simp only
      have hg : Good N s (if tooMany then handleError s ⟨.invalidName (strip n), none⟩ else .ok () s) := by
        split
        · exact handleError_good h (okErr_data _ (by simp) rfl _)
        · exact ⟨h, Le.refl _⟩
      cases hr : (if tooMany then handleError s ⟨.invalidName (strip n), none⟩ else .ok () s) with
      | fail a s' => rw [hr] at hg; exact hg
      | ok u s1 =>
        rw [hr] at hg
        exact Good.trans hg.2 (ih _ s1 hg.1)

theorem processFields_good {N : Nat} (key : Str) (fs : List (Str × List Str)) (seen : List Str)
    (e : Entry) (s : St) (h : Inv N s) : Good N s (processFields key fs seen e s) := by
  induction fs generalizing seen e s with
  | nil => exact ⟨h, Le.refl _⟩
  | cons f fs ih =>
    obtain ⟨name, parts⟩ := f
    unfold processFields
    split
    · have hg := handleError_good h (okErr_data (N := N) (.duplicateField key name) (by simp) rfl none)
      cases hr : handleError s ⟨.duplicateField key name, none⟩ with
      | fail a s' => rw [hr] at hg; exact hg
      | ok u s1 => rw [hr] at hg; exact Good.trans hg.2 (ih _ _ s1 hg.1)
    · simp only
      split
      · have hg := addPersons_good (N := N) name (splitNameList (normalizeWs parts.flatten)) e s h
        cases hr : addPersons name (splitNameList (normalizeWs parts.flatten)) e s with
        | fail a s' => rw [hr] at hg; exact hg
        | ok e' s1 => rw [hr] at hg; exact Good.trans hg.2 (ih _ _ s1 hg.1)
      · exact ih _ _ s h

theorem processEntry_good {N : Nat} (type : Str) (key : Option Str) (fields : List (Str × List Str))
    (s : St) (h : Inv N s) : Good N s (processEntry type key fields s) := by
  unfold processEntry
  cases key with
  | some k =>
    simp only
    have hg := processFields_good (N := N) k fields []
      { key := k, type := lower type, origType := type, fields := [], persons := [] } s h
    cases hr : processFields k fields []
      { key := k, type := lower type, origType := type, fields := [], persons := [] } s with
    | fail a s' => rw [hr] at hg; exact hg
    | ok e s1 => rw [hr] at hg; exact Good.trans hg.2 (addEntry_good _ _ hg.1)
  | none =>
    simp only
    have hI0 : Inv N { s with unnamed := s.unnamed + 1 } := h
    have hg := processFields_good (N := N) ("unnamed-".toList ++ natToStr s.unnamed) fields []
      { key := "unnamed-".toList ++ natToStr s.unnamed, type := lower type, origType := type, fields := [], persons := [] }
      { s with unnamed := s.unnamed + 1 } hI0
    cases hr : processFields ("unnamed-".toList ++ natToStr s.unnamed) fields []
      { key := "unnamed-".toList ++ natToStr s.unnamed, type := lower type, origType := type, fields := [], persons := [] }
      { s with unnamed := s.unnamed + 1 } with
    | fail a s' => rw [hr] at hg; exact hg
    | ok e s1 =>
      rw [hr] at hg
      have hL : Le s s1 := hg.2
      exact Good.trans hL (addEntry_good _ _ hg.1)

theorem processCmd_good {N : Nat} (c : Cmd) (s : St) (h : Inv N s) : Good N s (processCmd c s) := by
  unfold processCmd
  split
  · exact ⟨h, Le.refl _⟩
  · exact ⟨h, Nat.le_refl _, rfl, rfl, List.prefix_refl _, List.prefix_refl _, List.prefix_append _ _⟩
  · exact processEntry_good _ _ _ s h

/-! ## §3 the command loop -/

def GoodEnd (N : Nat) (s : St) (r : St × Option Err) : Prop :=
  Inv N r.1 ∧ Le s r.1 ∧ (∀ e, r.2 = some e → okErr N e) ∧ (r.2 = none → ∀ c ∈ r.1.rest, c ≠ '@')

theorem GoodEnd.trans {N : Nat} {s s1 : St} {r : St × Option Err} (hL : Le s s1) (h : GoodEnd N s1 r) :
    GoodEnd N s r := ⟨h.1, hL.trans h.2.1, h.2.2⟩

theorem GoodEnd.stop {N : Nat} {s s' : St} {e : Err} (hI : Inv N s') (hL : Le s s') (he : okErr N e) :
    GoodEnd N s (s', some e) :=
  ⟨hI, hL, fun e' he' => by cases he'; exact he, fun h => by cases h⟩

theorem parseLoop_good {N : Nat} (fuel : Nat) (s : St) (h : Inv N s) (hf : s.rest.length < fuel) :
    GoodEnd N s (parseLoop fuel s) := by
  induction fuel generalizing s with
  | zero => omega
  | succ fuel ih =>
    unfold parseLoop
    split
    · rename_i hsk
      refine ⟨h, Le.refl _, (fun e he => by cases he), fun _ c hc => ?_⟩
      have := skipToChar_none hsk c hc
      simpa using this
    · rename_i chunk rest hsk
      obtain ⟨hI, hL, hlt⟩ := chunk_good h hsk (by decide)
      simp only
      apply GoodEnd.trans hL
      have hfuel : ∀ s' : St, Le { s with rest := rest, ln := s.ln + countNl chunk } s' →
          s'.rest.length < fuel := by
        intro s' hs'
        have h1 := hs'.1
        have h2 : rest.length < s.rest.length := hlt
        have h3 : ({ s with rest := rest, ln := s.ln + countNl chunk } : St).rest.length = rest.length := rfl
        omega
      have hg := parseCommand_good hI
      cases hr : parseCommand { s with rest := rest, ln := s.ln + countNl chunk } with
      | ok c s2 =>
        rw [hr] at hg
        simp only
        have hg2 := processCmd_good c s2 hg.1
        cases hr2 : processCmd c s2 with
        | ok u s3 =>
          rw [hr2] at hg2
          exact GoodEnd.trans (hg.2.trans hg2.2) (ih s3 hg2.1 (hfuel _ (hg.2.trans hg2.2)))
        | fail a s3 =>
          rw [hr2] at hg2
          cases a with
          | syn e => exact GoodEnd.stop hg2.1 (hg.2.trans hg2.2.1) hg2.2.2
          | raised e => exact GoodEnd.stop hg2.1 (hg.2.trans hg2.2.1) hg2.2.2
          | skip => exact GoodEnd.trans (hg.2.trans hg2.2.1) (ih s3 hg2.1 (hfuel _ (hg.2.trans hg2.2.1)))
      | fail a s2 =>
        rw [hr] at hg
        cases a with
        | syn e =>
          simp only
          have hg2 := handleError_good hg.1 hg.2.2
          cases hr2 : handleError s2 e with
          | ok u s3 =>
            rw [hr2] at hg2
            exact GoodEnd.trans (hg.2.1.trans hg2.2) (ih s3 hg2.1 (hfuel _ (hg.2.1.trans hg2.2)))
          | fail a s3 =>
            rw [hr2] at hg2
            cases a with
            | raised e' => exact GoodEnd.stop hg2.1 (hg.2.1.trans hg2.2.1) hg2.2.2
            | syn e' => exact GoodEnd.stop hg2.1 (hg.2.1.trans hg2.2.1) hg.2.2
            | skip => exact GoodEnd.stop hg2.1 (hg.2.1.trans hg2.2.1) hg.2.2
        | skip => exact GoodEnd.trans hg.2.1 (ih s2 hg.1 (hfuel _ hg.2.1))
        | raised e => exact GoodEnd.stop hg.1 (hg.2.1) hg.2.2

/-- the initial state of `parseBib` -/
def initSt (text : Str) (strict : Bool) (wanted : Option (List Str)) (macros0 : List (Str × Str))
    (roles : List Str) : St :=
  { rest := text, macros := CIDict.ofPairs macros0,
    db := (match wanted with
      | none => {}
      | some w => { wanted := some (CISet.ofList w), citations := CISet.ofList w }),
    strict := strict, roles := roles }

theorem parseBib_eq (text : Str) (strict : Bool) (wanted : Option (List Str)) (macros0 : List (Str × Str))
    (roles : List Str) :
    parseBib text strict wanted macros0 roles =
      parseLoop (text.length + 1) (initSt text strict wanted macros0 roles) := rfl

theorem initSt_inv (text : Str) (strict : Bool) (wanted : Option (List Str)) (macros0 : List (Str × Str))
    (roles : List Str) : Inv (1 + countNl text) (initSt text strict wanted macros0 roles) :=
  ⟨Nat.le_refl _, rfl, fun e he => by cases he⟩

theorem parseBib_good (text : Str) (strict : Bool) (wanted : Option (List Str)) (macros0 : List (Str × Str))
    (roles : List Str) :
    GoodEnd (1 + countNl text) (initSt text strict wanted macros0 roles)
      (parseBib text strict wanted macros0 roles) := by
  rw [parseBib_eq]
  exact parseLoop_good _ _ (initSt_inv ..) (Nat.lt_succ_self _)

/-! ## §4 strict mode = continue mode cut at the first error -/

@[reducible] def setStrict (s : St) : St := { s with strict := true }

def Res.st {α : Type} : Res α → St
  | .ok _ s => s
  | .fail _ s => s

def Res.mapSt {α : Type} (f : St → St) : Res α → Res α
  | .ok a s => .ok a (f s)
  | .fail e s => .fail e (f s)

/-- continue mode raises nothing (but for the `BibTeXError` of `Person()`, which is not routed
through `handle_error`) -/
def NRa : Abort → Prop
  | .raised e => e = ⟨.nameTooDeep, none⟩
  | _ => True

def NR {α : Type} : Res α → Prop
  | .fail a _ => NRa a
  | .ok _ _ => True

/-- `r` = result in continue mode from `s`, `r'` = result in strict mode from the same state:
either nothing was reported and the results agree, or the strict run raised the first new error -/
def Sim {α : Type} (s : St) (r r' : Res α) : Prop :=
  NR r ∧ ((r.st.errs = s.errs ∧ r' = r.mapSt setStrict) ∨
          (∃ e tl s', r.st.errs = s.errs ++ e :: tl ∧ r' = .fail (.raised e) s'))

/-- sequencing: `C` is the context `match · with | .fail e s => .fail e s | .ok a s => …` of the model -/
theorem Sim.bind {α β : Type} {s : St} {r r' : Res α} {C : Res α → Res β}
    (h : Sim s r r')
    (hfail : ∀ a s1, C (.fail a s1) = .fail a s1)
    (hok : ∀ x s1, r = .ok x s1 → Sim s1 (C (.ok x s1)) (C (.ok x (setStrict s1)))) :
    Sim s (C r) (C r') := by
  obtain ⟨hn, h⟩ := h
  cases r with
  | ok a s1 =>
    obtain ⟨hn1, h1⟩ := hok a s1 rfl
    simp only [Res.st] at h
    rcases h with ⟨he, hr'⟩ | ⟨e, tl, s', he, hr'⟩
    · subst hr'
      simp only [Res.mapSt]
      rw [he] at h1
      exact ⟨hn1, h1⟩
    · subst hr'
      rw [hfail]
      refine ⟨hn1, Or.inr ⟨e, ?_⟩⟩
      rcases h1 with ⟨h1, _⟩ | ⟨e2, tl2, _, h1, _⟩
      · exact ⟨tl, s', by simp only [h1, he], rfl⟩
      · exact ⟨tl ++ e2 :: tl2, s', by simp only [h1, he, List.append_assoc, List.cons_append], rfl⟩
  | fail a s1 =>
    simp only [Res.st] at h
    rcases h with ⟨he, hr'⟩ | ⟨e, tl, s', he, hr'⟩
    · subst hr'
      simp only [Res.mapSt, hfail]
      exact ⟨hn, Or.inl ⟨he, rfl⟩⟩
    · subst hr'
      simp only [hfail]
      exact ⟨hn, Or.inr ⟨e, tl, s', he, rfl⟩⟩

/-- `Sim.bind` in the shape that lets the context `C` be found by unification -/
theorem Sim.bind' {α β : Type} {s : St} {C : Res α → Res β} {P : Res α → Prop}
    (hfail : ∀ a s1, C (.fail a s1) = .fail a s1)
    (hok : ∀ x s1, P (.ok x s1) → Sim s1 (C (.ok x s1)) (C (.ok x (setStrict s1)))) :
    ∀ r, P r → ∀ r', Sim s r r' → Sim s (C r) (C r') := by
  intro r hP r' h
  exact Sim.bind h hfail (fun x s1 hx => hok x s1 (hx ▸ hP))

/-- `sim_bind h, t, t'`: `h : Sim s t t'`, goal `Sim s (match t with …) (match t' with …)` where
failures are passed on; leaves the goal for the `.ok` continuation. -/
macro "sim_bind " h:term ", " t:term ", " t':term : tactic => `(tactic| (
  have hsim := $h
  generalize hr : $t = r at hsim ⊢
  generalize $t' = r' at hsim ⊢
  revert r r'
  refine Sim.bind' ?_ ?_
  · intro _ _; rfl))

/-- a step that never reports: same result in both modes -/
theorem Sim.of_eq {α : Type} {s : St} {r r' : Res α} (hn : NR r) (he : r.st.errs = s.errs)
    (hr : r' = r.mapSt setStrict) : Sim s r r' := ⟨hn, Or.inl ⟨he, hr⟩⟩

theorem handleError_sim {s : St} (e : Err) (hs : s.strict = false) :
    Sim s (handleError s e) (handleError (setStrict s) e) := by
  unfold handleError
  simp only [hs, setStrict]
  exact ⟨trivial, Or.inr ⟨e, [], _, rfl, rfl⟩⟩

theorem eatWs_strict (s : St) : eatWs (setStrict s) = setStrict (eatWs s) := rfl

theorem getToken_sim (pats : List Pat) (s : St) :
    getToken pats (setStrict s) = (getToken pats s).mapSt setStrict ∧
    (getToken pats s).st.errs = s.errs ∧ NR (getToken pats s) := by
  unfold getToken
  simp only
  by_cases h : (eatWs s).rest = []
  · have h' : (eatWs (setStrict s)).rest = [] := h
    rw [if_pos h, if_pos h']
    exact ⟨rfl, rfl, trivial⟩
  · have h' : ¬ (eatWs (setStrict s)).rest = [] := h
    rw [if_neg h, if_neg h']
    have h2 : (eatWs (setStrict s)).rest = (eatWs s).rest := rfl
    rw [h2]
    split <;> exact ⟨rfl, rfl, trivial⟩

theorem required_sim (pats : List Pat) (desc : String) (s : St) :
    required pats desc (setStrict s) = (required pats desc s).mapSt setStrict ∧
    (required pats desc s).st.errs = s.errs ∧ NR (required pats desc s) := by
  obtain ⟨h1, h2, h3⟩ := getToken_sim pats s
  unfold required
  rw [h1]
  cases hr : getToken pats s with
  | fail a s' => rw [hr] at h2 h3; exact ⟨rfl, h2, h3⟩
  | ok t s' =>
    rw [hr] at h2
    cases t with
    | none => exact ⟨rfl, h2, trivial⟩
    | some t => exact ⟨rfl, h2, trivial⟩

theorem strLoop_sim (fuel : Nat) (quoted : Bool) (d : Nat) (acc : Str) (s : St) :
    strLoop fuel quoted d acc (setStrict s) = (strLoop fuel quoted d acc s).mapSt setStrict ∧
    (strLoop fuel quoted d acc s).st.errs = s.errs ∧ NR (strLoop fuel quoted d acc s) := by
  induction fuel generalizing d acc s with
  | zero => exact ⟨rfl, rfl, trivial⟩
  | succ fuel ih =>
    unfold strLoop
    simp only
    have h1 : (setStrict s).rest = s.rest := rfl
    rw [h1]
    split
    · exact ⟨rfl, rfl, trivial⟩
    · rename_i chunk rest hsk
      split
      · split
        · exact ⟨rfl, rfl, trivial⟩
        · exact ih _ _ { s with rest := rest, ln := s.ln + countNl chunk }
      · split
        · split
          · exact ⟨rfl, rfl, trivial⟩
          · exact ⟨rfl, rfl, trivial⟩
        · exact ih _ _ { s with rest := rest, ln := s.ln + countNl chunk }
      · exact ⟨rfl, rfl, trivial⟩

theorem Sim.ok {α : Type} (a : α) (s : St) : Sim s (Res.ok a s) (Res.ok a (setStrict s)) :=
  ⟨trivial, Or.inl ⟨rfl, rfl⟩⟩

theorem Sim.fail {α : Type} (a : Abort) (s : St) (h : NRa a) :
    Sim s (Res.fail a s : Res α) (Res.fail a (setStrict s)) :=
  ⟨h, Or.inl ⟨rfl, rfl⟩⟩

theorem substituteMacro_sim {s : St} (name : Str) (hs : s.strict = false) :
    Sim s (substituteMacro name s) (substituteMacro name (setStrict s)) := by
  unfold substituteMacro
  have h2 : wantCurrent (setStrict s) = wantCurrent s := rfl
  simp only [h2]
  split
  · exact Sim.ok _ _
  · split
    · sim_bind handleError_sim ⟨.undefinedMacro name, some s.ln⟩ hs,
        handleError s ⟨.undefinedMacro name, some s.ln⟩,
        handleError (setStrict s) ⟨.undefinedMacro name, some s.ln⟩
      intro a s1 _
      exact Sim.ok _ _
    · exact Sim.ok _ _

theorem getToken_Sim (pats : List Pat) (s : St) :
    Sim s (getToken pats s) (getToken pats (setStrict s)) :=
  have h := getToken_sim pats s
  Sim.of_eq h.2.2 h.2.1 h.1

theorem required_Sim (pats : List Pat) (desc : String) (s : St) :
    Sim s (required pats desc s) (required pats desc (setStrict s)) :=
  have h := required_sim pats desc s
  Sim.of_eq h.2.2 h.2.1 h.1

theorem strLoop_Sim (fuel : Nat) (quoted : Bool) (d : Nat) (acc : Str) (s : St) :
    Sim s (strLoop fuel quoted d acc s) (strLoop fuel quoted d acc (setStrict s)) :=
  have h := strLoop_sim fuel quoted d acc s
  Sim.of_eq h.2.2 h.2.1 h.1

theorem Le.strict_false {s s1 : St} (h : Le s s1) (hs : s.strict = false) : s1.strict = false :=
  h.2.1.trans hs

theorem parseValuePart_sim {N : Nat} {s : St} (hI : Inv N s) (hs : s.strict = false) :
    Sim s (parseValuePart s) (parseValuePart (setStrict s)) := by
  unfold parseValuePart
  sim_bind required_Sim [.lit '"', .lit '{', .number, .name] "field value" s,
    required [.lit '"', .lit '{', .number, .name] "field value" s,
    required [.lit '"', .lit '{', .number, .name] "field value" (setStrict s)
  intro x s1 hr
  have hg := required_good [.lit '"', .lit '{', .number, .name] "field value" hI plain4
  rw [hr] at hg
  obtain ⟨p, v⟩ := x
  simp only
  split
  · sim_bind strLoop_Sim (s1.rest.length + 1) true 0 [] s1,
      strLoop (s1.rest.length + 1) true 0 [] s1, strLoop (s1.rest.length + 1) true 0 [] (setStrict s1)
    intro x s2 _
    exact Sim.ok _ _
  · sim_bind strLoop_Sim (s1.rest.length + 1) false 0 [] s1,
      strLoop (s1.rest.length + 1) false 0 [] s1, strLoop (s1.rest.length + 1) false 0 [] (setStrict s1)
    intro x s2 _
    exact Sim.ok _ _
  · exact Sim.ok _ _
  · exact substituteMacro_sim v (hg.2.1.strict_false hs)

theorem parseValueLoop_sim {N : Nat} (fuel : Nat) (parts : List Str) (s : St) (hI : Inv N s)
    (hs : s.strict = false) :
    Sim s (parseValueLoop fuel parts s) (parseValueLoop fuel parts (setStrict s)) := by
  induction fuel generalizing parts s with
  | zero => exact Sim.fail _ _ trivial
  | succ fuel ih =>
    unfold parseValueLoop
    sim_bind parseValuePart_sim hI hs, parseValuePart s, parseValuePart (setStrict s)
    intro part s1 hr
    have hg := parseValuePart_good hI
    rw [hr] at hg
    have hs1 := hg.2.1.strict_false hs
    simp only
    sim_bind getToken_Sim [.lit '#'] s1, getToken [.lit '#'] s1, getToken [.lit '#'] (setStrict s1)
    intro t s2 hr2
    have hg2 := getToken_good [.lit '#'] hg.1 (plainLit (by decide) (by decide))
    rw [hr2] at hg2
    cases t with
    | none => exact Sim.ok _ _
    | some t => exact ih _ s2 hg2.1 (hg2.2.1.strict_false hs1)

theorem parseValue_sim {N : Nat} {s : St} (hI : Inv N s) (hs : s.strict = false) :
    Sim s (parseValue s) (parseValue (setStrict s)) := by
  unfold parseValue
  simp only
  sim_bind parseValueLoop_sim (s.rest.length + 1) [] s hI hs,
    parseValueLoop (s.rest.length + 1) [] s, parseValueLoop (s.rest.length + 1) [] (setStrict s)
  intro parts s1 _
  exact Sim.ok _ _

theorem parseField_sim {N : Nat} {s : St} (hI : Inv N s) (hs : s.strict = false) :
    Sim s (parseField s) (parseField (setStrict s)) := by
  unfold parseField
  sim_bind getToken_Sim [.name] s, getToken [.name] s, getToken [.name] (setStrict s)
  intro t s1 hr
  have hg := getToken_good [.name] hI plainName
  rw [hr] at hg
  cases t with
  | none => exact Sim.ok _ _
  | some t =>
    obtain ⟨_, name⟩ := t
    simp only
    have hI1 : Inv N { s1 with curFieldName := some name } := hg.1
    have hs1 : ({ s1 with curFieldName := some name } : St).strict = false := hg.2.1.strict_false hs
    sim_bind (required_Sim [.lit '='] (descOf [.lit '=']) { s1 with curFieldName := some name } :
        Sim s1 _ _),
      required [.lit '='] (descOf [.lit '=']) { s1 with curFieldName := some name },
      required [.lit '='] (descOf [.lit '=']) (setStrict { s1 with curFieldName := some name })
    intro t2 s2 hr2
    have hg2 := required_good [.lit '='] (descOf [.lit '=']) hI1 (plainLit (by decide) (by decide))
    rw [hr2] at hg2
    exact parseValue_sim hg2.1 (hg2.2.1.strict_false hs1)

theorem Sim.of_errs {α : Type} {s s0 : St} {r r' : Res α} (h : Sim s0 r r') (he : s0.errs = s.errs) :
    Sim s r r' := by
  unfold Sim at h ⊢
  rw [← he]; exact h

theorem parseEntryFields_sim {N : Nat} (fuel : Nat) (s : St) (hI : Inv N s) (hs : s.strict = false) :
    Sim s (parseEntryFields fuel s) (parseEntryFields fuel (setStrict s)) := by
  induction fuel generalizing s with
  | zero => exact Sim.fail _ _ trivial
  | succ fuel ih =>
    unfold parseEntryFields
    simp only
    have hI0 : Inv N { s with curFieldName := none, curValue := [] } := hI
    have hs0 : ({ s with curFieldName := none, curValue := [] } : St).strict = false := hs
    sim_bind (parseField_sim (s := { s with curFieldName := none, curValue := [] }) hI0 hs0 : Sim s _ _),
      parseField { s with curFieldName := none, curValue := [] },
      parseField (setStrict { s with curFieldName := none, curValue := [] })
    intro u s1 hr
    have hg := parseField_good hI0
    rw [hr] at hg
    have hs1 : s1.strict = false := hg.2.strict_false hs0
    simp only
    have key : ∀ s1' : St, Inv N s1' → s1'.strict = false → s1'.errs = s1.errs →
        Sim s1 (match getToken [.lit ','] s1' with
          | .fail e s => .fail e s
          | .ok none s => .ok () s
          | .ok (some _) s => parseEntryFields fuel s)
        (match getToken [.lit ','] (setStrict s1') with
          | .fail e s => .fail e s
          | .ok none s => .ok () s
          | .ok (some _) s => parseEntryFields fuel s) := by
      intro s1' hI1 hs1' he1
      apply Sim.of_errs (s0 := s1') _ he1
      sim_bind getToken_Sim [.lit ','] s1', getToken [.lit ','] s1', getToken [.lit ','] (setStrict s1')
      intro t s2 hr2
      have hg2 := getToken_good [.lit ','] hI1 (plainLit (by decide) (by decide))
      rw [hr2] at hg2
      cases t with
      | none => exact Sim.ok _ _
      | some t => exact ih s2 hg2.1 (hg2.2.1.strict_false hs1')
    cases hc : s1.curFieldName with
    | none => exact key s1 hg.1 hs1 rfl
    | some n =>
      simp only
      by_cases hn : n ≠ [] ∧ s1.curValue ≠ []
      · rw [if_pos hn, if_pos hn]
        exact key _ hg.1 hs1 rfl
      · rw [if_neg hn, if_neg hn]
        exact key s1 hg.1 hs1 rfl

theorem parseEntryBody_sim {N : Nat} {s : St} (paren : Bool) (hI : Inv N s) (hs : s.strict = false) :
    Sim s (parseEntryBody paren s) (parseEntryBody paren (setStrict s)) := by
  unfold parseEntryBody
  have hp : ∀ q ∈ [if paren then Pat.keyParen else Pat.keyBrace], q.plain := by
    intro q hq
    simp only [List.mem_singleton] at hq
    subst hq; cases paren <;> trivial
  sim_bind required_Sim [if paren then .keyParen else .keyBrace] "entry key" s,
    required [if paren then .keyParen else .keyBrace] "entry key" s,
    required [if paren then .keyParen else .keyBrace] "entry key" (setStrict s)
  intro t s1 hr
  have hg := required_good [if paren then .keyParen else .keyBrace] "entry key" hI hp
  rw [hr] at hg
  obtain ⟨_, key⟩ := t
  simp only
  have hI1 : Inv N { s1 with curKey := some key } := hg.1
  have hs1 : ({ s1 with curKey := some key } : St).strict = false := hg.2.1.strict_false hs
  sim_bind (parseEntryFields_sim (s1.rest.length + 2) { s1 with curKey := some key } hI1 hs1 : Sim s1 _ _),
    parseEntryFields (s1.rest.length + 2) { s1 with curKey := some key },
    parseEntryFields (s1.rest.length + 2) (setStrict { s1 with curKey := some key })
  intro u s2 _
  have h2 : wantCurrent (setStrict s2) = wantCurrent s2 := rfl
  simp only [h2]
  split
  · exact Sim.ok _ _
  · exact Sim.fail _ _ trivial

theorem parseStringBody_sim {N : Nat} {s : St} (hI : Inv N s) (hs : s.strict = false) :
    Sim s (parseStringBody s) (parseStringBody (setStrict s)) := by
  unfold parseStringBody
  sim_bind required_Sim [.name] (descOf [.name]) s,
    required [.name] (descOf [.name]) s, required [.name] (descOf [.name]) (setStrict s)
  intro t s1 hr
  have hg := required_good [.name] (descOf [.name]) hI plainName
  rw [hr] at hg
  obtain ⟨_, name⟩ := t
  simp only
  have hI1 : Inv N { s1 with curFieldName := some name } := hg.1
  have hs1 : ({ s1 with curFieldName := some name } : St).strict = false := hg.2.1.strict_false hs
  sim_bind (required_Sim [.lit '='] (descOf [.lit '=']) { s1 with curFieldName := some name } :
      Sim s1 _ _),
    required [.lit '='] (descOf [.lit '=']) { s1 with curFieldName := some name },
    required [.lit '='] (descOf [.lit '=']) (setStrict { s1 with curFieldName := some name })
  intro t2 s2 hr2
  have hg2 := required_good [.lit '='] (descOf [.lit '=']) hI1 (plainLit (by decide) (by decide))
  rw [hr2] at hg2
  simp only
  sim_bind parseValue_sim hg2.1 (hg2.2.1.strict_false hs1), parseValue s2, parseValue (setStrict s2)
  intro u s3 _
  exact Sim.ok _ _

theorem afterBody_sim {s : St} (body body' : Res Unit) (bodyEnd : Pat) :
    Sim s body body' →
    Sim s (match body with
      | .fail e s => .fail e s
      | .ok _ s =>
        match required [bodyEnd] (descOf [bodyEnd]) s with
        | .fail e s => .fail e s
        | .ok _ s => (.ok () s : Res Unit))
     (match body' with
      | .fail e s => .fail e s
      | .ok _ s =>
        match required [bodyEnd] (descOf [bodyEnd]) s with
        | .fail e s => .fail e s
        | .ok _ s => (.ok () s : Res Unit)) := by
  intro h
  refine Sim.bind (C := fun r => match r with
      | .fail e s => .fail e s
      | .ok _ s =>
        match required [bodyEnd] (descOf [bodyEnd]) s with
        | .fail e s => .fail e s
        | .ok _ s => (.ok () s : Res Unit)) h (fun _ _ => rfl) ?_
  intro u s1 _
  simp only
  sim_bind required_Sim [bodyEnd] (descOf [bodyEnd]) s1,
    required [bodyEnd] (descOf [bodyEnd]) s1, required [bodyEnd] (descOf [bodyEnd]) (setStrict s1)
  intro t s2 _
  exact Sim.ok _ _

theorem finish_sim {N : Nat} {s : St} (ab ab' : Res Unit)
    (hs : s.strict = false) (mk : St → Cmd) (hmk : ∀ s, mk (setStrict s) = mk s) :
    Sim s ab ab' → Good N s ab →
    Sim s (match ab with
      | .ok _ s => .ok (mk s) s
      | .fail (.syn e) s =>
        match handleError s e with
        | .fail a s => .fail a s
        | .ok _ s => .ok (mk s) s
      | .fail a s => .fail a s)
     (match ab' with
      | .ok _ s => .ok (mk s) s
      | .fail (.syn e) s =>
        match handleError s e with
        | .fail a s => .fail a s
        | .ok _ s => .ok (mk s) s
      | .fail a s => .fail a s) := by
  intro h hg
  obtain ⟨hn, h⟩ := h
  cases ab with
  | ok u s1 =>
    simp only [Res.st] at h
    rcases h with ⟨he, rfl⟩ | ⟨e, tl, s', he, rfl⟩
    · simp only [Res.mapSt, hmk]
      exact (Sim.ok _ _).of_errs he
    · exact ⟨trivial, Or.inr ⟨e, tl, s', he, rfl⟩⟩
  | fail a s1 =>
    have hs1 : s1.strict = false := hg.2.1.strict_false hs
    simp only [Res.st] at h
    cases a with
    | syn e0 =>
      have hne : handleError s1 e0 = .ok () (s1.report e0) := by
        simp [handleError, hs1]
      rcases h with ⟨he, rfl⟩ | ⟨e, tl, s', he, rfl⟩
      · have hst : handleError (setStrict s1) e0 = .fail (.raised e0) (setStrict s1) := by
          simp [handleError]
        simp only [Res.mapSt, hne, hst]
        exact ⟨trivial, Or.inr ⟨e0, [], _, by simp [Res.st, he], rfl⟩⟩
      · simp only [hne]
        exact ⟨trivial, Or.inr ⟨e, tl ++ [e0], s', by simp [Res.st, he], rfl⟩⟩
    | skip =>
      rcases h with ⟨he, rfl⟩ | ⟨e, tl, s', he, rfl⟩
      · exact ⟨trivial, Or.inl ⟨he, rfl⟩⟩
      · exact ⟨trivial, Or.inr ⟨e, tl, s', he, rfl⟩⟩
    | raised x =>
      rcases h with ⟨he, rfl⟩ | ⟨e, tl, s', he, rfl⟩
      · exact ⟨hn, Or.inl ⟨he, rfl⟩⟩
      · exact ⟨hn, Or.inr ⟨e, tl, s', he, rfl⟩⟩

theorem parseCommand_sim {N : Nat} {s : St} (hI : Inv N s) (hs : s.strict = false) :
    Sim s (parseCommand s) (parseCommand (setStrict s)) := by
  unfold parseCommand
  simp only
  have hI0 : Inv N { s with curKey := none, curFields := [], curFieldName := none, curValue := [] } := hI
  sim_bind (required_Sim [.name] (descOf [.name])
      { s with curKey := none, curFields := [], curFieldName := none, curValue := [] } : Sim s _ _),
    required [.name] (descOf [.name])
      { s with curKey := none, curFields := [], curFieldName := none, curValue := [] },
    required [.name] (descOf [.name])
      (setStrict { s with curKey := none, curFields := [], curFieldName := none, curValue := [] })
  intro t s1 hr
  have hg := required_good [.name] (descOf [.name]) hI0 plainName
  rw [hr] at hg
  have hs1 : s1.strict = false := hg.2.1.strict_false hs
  obtain ⟨_, command⟩ := t
  simp only
  have hpl : ∀ q ∈ [Pat.lit '(', Pat.lit '{'], q.plain := by
    intro q hq
    simp only [List.mem_cons, List.not_mem_nil, or_false] at hq
    rcases hq with rfl | rfl <;> simp [Pat.plain]
  sim_bind required_Sim [.lit '(', .lit '{'] (descOf [.lit '(', .lit '{']) s1,
    required [.lit '(', .lit '{'] (descOf [.lit '(', .lit '{']) s1,
    required [.lit '(', .lit '{'] (descOf [.lit '(', .lit '{']) (setStrict s1)
  intro t2 s2 hr2
  have hg2 := required_good [.lit '(', .lit '{'] (descOf [.lit '(', .lit '{']) hg.1 hpl
  rw [hr2] at hg2
  have hs2 : s2.strict = false := hg2.2.1.strict_false hs1
  obtain ⟨open_, _⟩ := t2
  simp only
  split
  · exact Sim.fail _ _ trivial
  · apply finish_sim (N := N) _ _ hs2
    · intro s; split <;> rfl
    · apply afterBody_sim
      split
      · exact parseStringBody_sim hg2.1 hs2
      · exact parseValue_sim hg2.1 hs2
      · exact parseEntryBody_sim _ hg2.1 hs2
    · apply afterBody_good
      · split
        · exact parseStringBody_good hg2.1
        · exact (parseValue_good hg2.1).good
        · exact parseEntryBody_good _ hg2.1
      · split <;> simp [Pat.plain]

theorem addEntry_sim {s : St} (key : Str) (e : Entry) (hs : s.strict = false) :
    Sim s (addEntry s key e) (addEntry (setStrict s) key e) := by
  unfold addEntry
  simp only
  split
  · exact Sim.ok _ _
  · split
    · exact handleError_sim _ hs
    · exact Sim.ok _ _

theorem addPersons_sim {N : Nat} (role : Str) (ns : List Str) (e : Entry) (s : St) (hI : Inv N s)
    (hs : s.strict = false) :
    Sim s (addPersons role ns e s) (addPersons role ns e (setStrict s)) := by
  induction ns generalizing e s with
  | nil => exact Sim.ok _ _
  | cons n ns ih =>
    unfold addPersons
    split
    · exact Sim.fail _ _ rfl
    · rename_i p tooMany _
      simp only
      have h : Sim s (if tooMany then handleError s ⟨.invalidName (strip n), none⟩ else .ok () s)
          (if tooMany then handleError (setStrict s) ⟨.invalidName (strip n), none⟩ else .ok () (setStrict s)) := by
        split
        · exact handleError_sim _ hs
        · exact Sim.ok _ _
      have hg : Good N s (if tooMany then handleError s ⟨.invalidName (strip n), none⟩ else .ok () s) := by
        split
        · exact handleError_good hI (okErr_data _ (by simp) rfl _)
        · exact ⟨hI, Le.refl _⟩
      sim_bind h, (if tooMany then handleError s ⟨.invalidName (strip n), none⟩ else Res.ok () s),
        (if tooMany then handleError (setStrict s) ⟨.invalidName (strip n), none⟩ else Res.ok () (setStrict s))
      intro u s1 hr
      rw [hr] at hg
      exact ih _ s1 hg.1 (hg.2.strict_false hs)

theorem processFields_sim {N : Nat} (key : Str) (fs : List (Str × List Str)) (seen : List Str)
    (e : Entry) (s : St) (hI : Inv N s) (hs : s.strict = false) :
    Sim s (processFields key fs seen e s) (processFields key fs seen e (setStrict s)) := by
  induction fs generalizing seen e s with
  | nil => exact Sim.ok _ _
  | cons f fs ih =>
    obtain ⟨name, parts⟩ := f
    unfold processFields
    split
    · sim_bind handleError_sim ⟨.duplicateField key name, none⟩ hs,
        handleError s ⟨.duplicateField key name, none⟩,
        handleError (setStrict s) ⟨.duplicateField key name, none⟩
      intro u s1 hr
      have hg := handleError_good hI (okErr_data (N := N) (.duplicateField key name) (by simp) rfl none)
      rw [hr] at hg
      exact ih _ _ s1 hg.1 (hg.2.strict_false hs)
    · simp only
      split
      · sim_bind addPersons_sim name (splitNameList (normalizeWs parts.flatten)) e s hI hs,
          addPersons name (splitNameList (normalizeWs parts.flatten)) e s,
          addPersons name (splitNameList (normalizeWs parts.flatten)) e (setStrict s)
        intro e' s1 hr
        have hg := addPersons_good (N := N) name (splitNameList (normalizeWs parts.flatten)) e s hI
        rw [hr] at hg
        exact ih _ _ s1 hg.1 (hg.2.strict_false hs)
      · exact ih _ _ s hI hs

theorem processEntry_sim {N : Nat} (type : Str) (key : Option Str) (fields : List (Str × List Str))
    (s : St) (hI : Inv N s) (hs : s.strict = false) :
    Sim s (processEntry type key fields s) (processEntry type key fields (setStrict s)) := by
  unfold processEntry
  cases key with
  | some k =>
    simp only
    sim_bind processFields_sim k fields []
        { key := k, type := lower type, origType := type, fields := [], persons := [] } s hI hs,
      processFields k fields []
        { key := k, type := lower type, origType := type, fields := [], persons := [] } s,
      processFields k fields []
        { key := k, type := lower type, origType := type, fields := [], persons := [] } (setStrict s)
    intro e s1 hr
    have hg := processFields_good (N := N) k fields []
      { key := k, type := lower type, origType := type, fields := [], persons := [] } s hI
    rw [hr] at hg
    exact addEntry_sim _ _ (hg.2.strict_false hs)
  | none =>
    simp only
    have hI0 : Inv N { s with unnamed := s.unnamed + 1 } := hI
    have hs0 : ({ s with unnamed := s.unnamed + 1 } : St).strict = false := hs
    sim_bind (processFields_sim ("unnamed-".toList ++ natToStr s.unnamed) fields []
        { key := "unnamed-".toList ++ natToStr s.unnamed, type := lower type, origType := type, fields := [], persons := [] }
        { s with unnamed := s.unnamed + 1 } hI0 hs0 : Sim s _ _),
      processFields ("unnamed-".toList ++ natToStr s.unnamed) fields []
        { key := "unnamed-".toList ++ natToStr s.unnamed, type := lower type, origType := type, fields := [], persons := [] }
        { s with unnamed := s.unnamed + 1 },
      processFields ("unnamed-".toList ++ natToStr s.unnamed) fields []
        { key := "unnamed-".toList ++ natToStr s.unnamed, type := lower type, origType := type, fields := [], persons := [] }
        (setStrict { s with unnamed := s.unnamed + 1 })
    intro e s1 hr
    have hg := processFields_good (N := N) ("unnamed-".toList ++ natToStr s.unnamed) fields []
      { key := "unnamed-".toList ++ natToStr s.unnamed, type := lower type, origType := type, fields := [], persons := [] }
      { s with unnamed := s.unnamed + 1 } hI0
    rw [hr] at hg
    exact addEntry_sim _ _ (hg.2.strict_false hs0)

theorem processCmd_sim {N : Nat} (c : Cmd) (s : St) (hI : Inv N s) (hs : s.strict = false) :
    Sim s (processCmd c s) (processCmd c (setStrict s)) := by
  unfold processCmd
  split
  · exact Sim.ok _ _
  · exact Sim.ok _ _
  · exact processEntry_sim _ _ _ s hI hs

/-- `processCmd` never lets a syntax error through (they are all handled inside `parseCommand`) -/
def NS {α : Type} : Res α → Prop
  | .fail (.syn _) _ => False
  | _ => True

theorem handleError_ns (s : St) (e : Err) : NS (handleError s e) := by
  unfold handleError; split <;> trivial

theorem addEntry_ns (s : St) (key : Str) (e : Entry) : NS (addEntry s key e) := by
  unfold addEntry
  split
  · trivial
  · split
    · exact handleError_ns _ _
    · trivial

theorem addPersons_ns (role : Str) (ns : List Str) (e : Entry) (s : St) : NS (addPersons role ns e s) := by
  induction ns generalizing e s with
  | nil => trivial
  | cons n ns ih =>
    unfold addPersons
    split
    · trivial
    · rename_i p tooMany _
      simp only
      have h : NS (if tooMany then handleError s ⟨.invalidName (strip n), none⟩ else .ok () s) := by
        split
        · exact handleError_ns _ _
        · trivial
      cases hr : (if tooMany then handleError s ⟨.invalidName (strip n), none⟩ else Res.ok () s) with
      | fail a s' =>
        rw [hr] at h
        cases a <;> first | exact h | trivial
      | ok u s1 => exact ih _ s1

theorem processFields_ns (key : Str) (fs : List (Str × List Str)) (seen : List Str) (e : Entry) (s : St) :
    NS (processFields key fs seen e s) := by
  induction fs generalizing seen e s with
  | nil => trivial
  | cons f fs ih =>
    obtain ⟨name, parts⟩ := f
    unfold processFields
    split
    · have h := handleError_ns s ⟨.duplicateField key name, none⟩
      cases hr : handleError s ⟨.duplicateField key name, none⟩ with
      | fail a s' =>
        rw [hr] at h
        cases a <;> first | exact h | trivial
      | ok u s1 => exact ih _ _ s1
    · simp only
      split
      · have h := addPersons_ns name (splitNameList (normalizeWs parts.flatten)) e s
        cases hr : addPersons name (splitNameList (normalizeWs parts.flatten)) e s with
        | fail a s' =>
          rw [hr] at h
          cases a <;> first | exact h | trivial
        | ok e' s1 => exact ih _ _ s1
      · exact ih _ _ s

theorem processEntry_ns (type : Str) (key : Option Str) (fields : List (Str × List Str)) (s : St) :
    NS (processEntry type key fields s) := by
  unfold processEntry
  cases key with
  | some k =>
    simp only
    have h := processFields_ns k fields []
      { key := k, type := lower type, origType := type, fields := [], persons := [] } s
    cases hr : processFields k fields []
      { key := k, type := lower type, origType := type, fields := [], persons := [] } s with
    | fail a s' =>
      rw [hr] at h
      cases a <;> first | exact h | trivial
    | ok e s1 => exact addEntry_ns _ _ _
  | none =>
    simp only
    have h := processFields_ns ("unnamed-".toList ++ natToStr s.unnamed) fields []
      { key := "unnamed-".toList ++ natToStr s.unnamed, type := lower type, origType := type, fields := [], persons := [] }
      { s with unnamed := s.unnamed + 1 }
    cases hr : processFields ("unnamed-".toList ++ natToStr s.unnamed) fields []
      { key := "unnamed-".toList ++ natToStr s.unnamed, type := lower type, origType := type, fields := [], persons := [] }
      { s with unnamed := s.unnamed + 1 } with
    | fail a s' =>
      rw [hr] at h
      cases a <;> first | exact h | trivial
    | ok e s1 => exact addEntry_ns _ _ _

theorem processCmd_ns (c : Cmd) (s : St) : NS (processCmd c s) := by
  unfold processCmd
  split
  · trivial
  · trivial
  · exact processEntry_ns _ _ _ s

/-- the two runs of the command loop: continue mode `r`, strict mode `r'` -/
def SimEnd (s : St) (r r' : St × Option Err) : Prop :=
  (r.2 = none ∨ r.2 = some ⟨.nameTooDeep, none⟩) ∧
  ((r.1.errs = s.errs ∧ r' = (setStrict r.1, r.2)) ∨
   (∃ e tl s', r.1.errs = s.errs ++ e :: tl ∧ r' = (s', some e)))

theorem SimEnd.bind' {α : Type} {s : St} {C : Res α → St × Option Err} {P : Res α → Prop}
    (hraised : ∀ e s1, C (.fail (.raised e) s1) = (s1, some e))
    (hC : ∀ r, P r → NR r → SimEnd r.st (C r) (C (r.mapSt setStrict))) :
    ∀ r, P r → ∀ r', Sim s r r' → SimEnd s (C r) (C r') := by
  intro r hP r' h
  obtain ⟨hn, h⟩ := h
  obtain ⟨h1, h2⟩ := hC r hP hn
  refine ⟨h1, ?_⟩
  rcases h with ⟨he, rfl⟩ | ⟨e, tl, s', he, rfl⟩
  · rw [he] at h2; exact h2
  · rw [hraised]
    refine Or.inr ⟨e, ?_⟩
    rcases h2 with ⟨h2, _⟩ | ⟨e2, tl2, _, h2, _⟩
    · exact ⟨tl, s', by rw [h2, he], rfl⟩
    · exact ⟨tl ++ e2 :: tl2, s', by rw [h2, he]; simp, rfl⟩

macro "simend_bind " h:term ", " t:term ", " t':term : tactic => `(tactic| (
  have hsim := $h
  generalize hr : $t = r at hsim ⊢
  generalize $t' = r' at hsim ⊢
  revert r r'
  refine SimEnd.bind' ?_ ?_
  · intro _ _; rfl))

theorem SimEnd.stop (s : St) (e : Err) (he : e = ⟨.nameTooDeep, none⟩) :
    SimEnd s (s, some e) (setStrict s, some e) :=
  ⟨Or.inr (by rw [he]), Or.inl ⟨rfl, rfl⟩⟩

theorem parseLoop_sim {N : Nat} (fuel : Nat) (s : St) (hI : Inv N s) (hs : s.strict = false)
    (hf : s.rest.length < fuel) : SimEnd s (parseLoop fuel s) (parseLoop fuel (setStrict s)) := by
  induction fuel generalizing s with
  | zero => omega
  | succ fuel ih =>
    unfold parseLoop
    simp only
    split
    · exact ⟨Or.inl rfl, Or.inl ⟨rfl, rfl⟩⟩
    · rename_i chunk rest hsk
      obtain ⟨hI1, hL1, hlt⟩ := chunk_good hI hsk (by decide)
      have hs1 : ({ s with rest := rest, ln := s.ln + countNl chunk } : St).strict = false := hs
      have hfuel : ∀ s' : St, Le { s with rest := rest, ln := s.ln + countNl chunk } s' →
          s'.rest.length < fuel := by
        intro s' hs'
        have h1 := hs'.1
        have h2 : rest.length < s.rest.length := hlt
        have h3 : ({ s with rest := rest, ln := s.ln + countNl chunk } : St).rest.length = rest.length := rfl
        omega
      simend_bind (parseCommand_sim (s := { s with rest := rest, ln := s.ln + countNl chunk }) hI1 hs1 : Sim s _ _),
        parseCommand { s with rest := rest, ln := s.ln + countNl chunk },
        parseCommand (setStrict { s with rest := rest, ln := s.ln + countNl chunk })
      intro r hr hn
      have hg := parseCommand_good hI1
      rw [hr] at hg
      cases r with
      | ok c s2 =>
        have hs2 : s2.strict = false := hg.2.strict_false hs1
        simp only [Res.mapSt, Res.st]
        simend_bind processCmd_sim c s2 hg.1 hs2, processCmd c s2, processCmd c (setStrict s2)
        intro r2 hr2 hn2
        have hg2 := processCmd_good c s2 hg.1
        have hns := processCmd_ns c s2
        rw [hr2] at hg2 hns
        cases r2 with
        | ok u s3 => exact ih s3 hg2.1 (hg2.2.strict_false hs2) (hfuel _ (hg.2.trans hg2.2))
        | fail a s3 =>
          cases a with
          | syn e => exact hns.elim
          | skip => exact ih s3 hg2.1 (hg2.2.1.strict_false hs2) (hfuel _ (hg.2.trans hg2.2.1))
          | raised e => exact SimEnd.stop _ _ hn2
      | fail a s2 =>
        have hs2 : s2.strict = false := hg.2.1.strict_false hs1
        cases a with
        | syn e =>
          simp only [Res.mapSt, Res.st]
          simend_bind handleError_sim e hs2, handleError s2 e, handleError (setStrict s2) e
          intro r2 hr2 hn2
          have hg2 := handleError_good hg.1 hg.2.2
          rw [hr2] at hg2
          cases r2 with
          | ok u s3 => exact ih s3 hg2.1 (hg2.2.strict_false hs2) (hfuel _ (hg.2.1.trans hg2.2))
          | fail a s3 => simp [handleError, hs2] at hr2
        | skip => exact ih s2 hg.1 hs2 (hfuel _ hg.2.1)
        | raised e => exact SimEnd.stop _ _ hn

theorem initSt_strict (text : Str) (wanted : Option (List Str)) (macros0 : List (Str × Str))
    (roles : List Str) :
    initSt text true wanted macros0 roles = setStrict (initSt text false wanted macros0 roles) := rfl

theorem parseBib_sim (text : Str) (wanted : Option (List Str)) (macros0 : List (Str × Str))
    (roles : List Str) :
    SimEnd (initSt text false wanted macros0 roles) (parseBib text false wanted macros0 roles)
      (parseBib text true wanted macros0 roles) := by
  rw [parseBib_eq, parseBib_eq, initSt_strict]
  exact parseLoop_sim _ _ (initSt_inv ..) rfl (Nat.lt_succ_self _)

/-! ## §5 prefix stability -/

/-- The reader state after the first `k` commands (`@…`) of the text have been read and
processed: the command loop stopped after `k` rounds. -/
def afterCommands (k : Nat) (text : Str) (strict : Bool) (wanted : Option (List Str))
    (macros0 : List (Str × Str)) (roles : List Str) : St :=
  (parseLoop k (initSt text strict wanted macros0 roles)).1

/-- stopping the loop early leaves a state that the full run only extends -/
theorem parseLoop_prefix {N : Nat} (k m : Nat) (s : St) (hI : Inv N s) (hf : s.rest.length < m) :
    Le (parseLoop k s).1 (parseLoop m s).1 := by
  induction k generalizing m s with
  | zero => exact (parseLoop_good m s hI hf).2.1
  | succ k ih =>
    cases m with
    | zero => omega
    | succ m =>
      unfold parseLoop
      split
      · exact Le.refl _
      · rename_i chunk rest hsk
        obtain ⟨hI1, hL1, hlt⟩ := chunk_good hI hsk (by decide)
        simp only
        have hfuel : ∀ s' : St, Le { s with rest := rest, ln := s.ln + countNl chunk } s' →
            s'.rest.length < m := by
          intro s' hs'
          have h1 := hs'.1
          have h2 : rest.length < s.rest.length := hlt
          have h3 : ({ s with rest := rest, ln := s.ln + countNl chunk } : St).rest.length = rest.length := rfl
          omega
        have hg := parseCommand_good hI1
        cases hr : parseCommand { s with rest := rest, ln := s.ln + countNl chunk } with
        | ok c s2 =>
          rw [hr] at hg
          simp only
          have hg2 := processCmd_good c s2 hg.1
          cases hr2 : processCmd c s2 with
          | ok u s3 =>
            rw [hr2] at hg2
            exact ih m s3 hg2.1 (hfuel _ (hg.2.trans hg2.2))
          | fail a s3 =>
            rw [hr2] at hg2
            cases a with
            | syn e => exact Le.refl _
            | raised e => exact Le.refl _
            | skip => exact ih m s3 hg2.1 (hfuel _ (hg.2.trans hg2.2.1))
        | fail a s2 =>
          rw [hr] at hg
          cases a with
          | syn e =>
            simp only
            have hg2 := handleError_good hg.1 hg.2.2
            cases hr2 : handleError s2 e with
            | ok u s3 =>
              rw [hr2] at hg2
              exact ih m s3 hg2.1 (hfuel _ (hg.2.1.trans hg2.2))
            | fail a s3 =>
              cases a with
              | raised e' => exact Le.refl _
              | syn e' => exact Le.refl _
              | skip => exact Le.refl _
          | skip => exact ih m s2 hg.1 (hfuel _ hg.2.1)
          | raised e => exact Le.refl _

/-! ## §6 parsing a command does not touch the database; processing it appends at most one item -/

theorem handleError_db (s : St) (e : Err) : (handleError s e).st.db = s.db := by
  unfold handleError; split <;> rfl

theorem getToken_db (pats : List Pat) (s : St) : (getToken pats s).st.db = s.db := by
  unfold getToken
  simp only
  split
  · rfl
  · split <;> rfl

theorem required_db (pats : List Pat) (desc : String) (s : St) : (required pats desc s).st.db = s.db := by
  have h := getToken_db pats s
  unfold required
  cases hr : getToken pats s with
  | fail a s' => rw [hr] at h; exact h
  | ok t s' => rw [hr] at h; cases t <;> exact h

theorem strLoop_db (fuel : Nat) (quoted : Bool) (d : Nat) (acc : Str) (s : St) :
    (strLoop fuel quoted d acc s).st.db = s.db := by
  induction fuel generalizing d acc s with
  | zero => rfl
  | succ fuel ih =>
    unfold strLoop
    simp only
    split
    · rfl
    · rename_i chunk rest hsk
      split
      · split
        · rfl
        · exact ih _ _ { s with rest := rest, ln := s.ln + countNl chunk }
      · split
        · split <;> rfl
        · exact ih _ _ { s with rest := rest, ln := s.ln + countNl chunk }
      · rfl

theorem substituteMacro_db (name : Str) (s : St) : (substituteMacro name s).st.db = s.db := by
  unfold substituteMacro
  split
  · rfl
  · split
    · have h := handleError_db s ⟨.undefinedMacro name, some s.ln⟩
      cases hr : handleError s ⟨.undefinedMacro name, some s.ln⟩ with
      | fail a s' => rw [hr] at h; exact h
      | ok a s' => rw [hr] at h; exact h
    · rfl

theorem parseValuePart_db (s : St) : (parseValuePart s).st.db = s.db := by
  have h := required_db [.lit '"', .lit '{', .number, .name] "field value" s
  unfold parseValuePart
  cases hr : required [.lit '"', .lit '{', .number, .name] "field value" s with
  | fail a s' => rw [hr] at h; exact h
  | ok t s1 =>
    rw [hr] at h
    obtain ⟨p, v⟩ := t
    simp only
    have hstr : ∀ q, (match strLoop (s1.rest.length + 1) q 0 [] s1 with
        | .fail e s => (Res.fail e s : Res Str)
        | .ok str s => .ok str.dropLast s).st.db = s.db := by
      intro q
      have h2 := strLoop_db (s1.rest.length + 1) q 0 [] s1
      cases hs : strLoop (s1.rest.length + 1) q 0 [] s1 with
      | fail a s' => rw [hs] at h2; exact h2.trans h
      | ok a s' => rw [hs] at h2; exact h2.trans h
    split
    · exact hstr true
    · exact hstr false
    · exact h
    · exact (substituteMacro_db v s1).trans h

theorem parseValueLoop_db (fuel : Nat) (parts : List Str) (s : St) :
    (parseValueLoop fuel parts s).st.db = s.db := by
  induction fuel generalizing parts s with
  | zero => rfl
  | succ fuel ih =>
    unfold parseValueLoop
    have h := parseValuePart_db s
    cases hr : parseValuePart s with
    | fail a s' => rw [hr] at h; exact h
    | ok part s1 =>
      rw [hr] at h
      simp only
      have h2 := getToken_db [.lit '#'] s1
      cases hr2 : getToken [.lit '#'] s1 with
      | fail a s' => rw [hr2] at h2; exact h2.trans h
      | ok t s2 =>
        rw [hr2] at h2
        cases t with
        | none => exact h2.trans h
        | some t => exact (ih _ s2).trans (h2.trans h)

theorem parseValue_db (s : St) : (parseValue s).st.db = s.db := by
  unfold parseValue
  have h := parseValueLoop_db (s.rest.length + 1) [] s
  cases hr : parseValueLoop (s.rest.length + 1) [] s with
  | fail a s' => rw [hr] at h; exact h
  | ok parts s' => rw [hr] at h; exact h

theorem parseField_db (s : St) : (parseField s).st.db = s.db := by
  unfold parseField
  have h := getToken_db [.name] s
  cases hr : getToken [.name] s with
  | fail a s' => rw [hr] at h; exact h
  | ok t s1 =>
    rw [hr] at h
    cases t with
    | none => exact h
    | some t =>
      obtain ⟨_, name⟩ := t
      simp only
      have h2 := required_db [.lit '='] (descOf [.lit '=']) { s1 with curFieldName := some name }
      cases hr2 : required [.lit '='] (descOf [.lit '=']) { s1 with curFieldName := some name } with
      | fail a s' => rw [hr2] at h2; exact h2.trans h
      | ok t2 s2 =>
        rw [hr2] at h2
        exact (parseValue_db s2).trans (h2.trans h)

theorem parseEntryFields_db (fuel : Nat) (s : St) : (parseEntryFields fuel s).st.db = s.db := by
  induction fuel generalizing s with
  | zero => rfl
  | succ fuel ih =>
    unfold parseEntryFields
    simp only
    have h : (parseField { s with curFieldName := none, curValue := [] }).st.db = s.db :=
      parseField_db { s with curFieldName := none, curValue := [] }
    cases hr : parseField { s with curFieldName := none, curValue := [] } with
    | fail a s' => rw [hr] at h; exact h
    | ok u s1 =>
      rw [hr] at h
      simp only
      have key : ∀ s1' : St, s1'.db = s.db → (match getToken [.lit ','] s1' with
          | .fail e s => (Res.fail e s : Res Unit)
          | .ok none s => .ok () s
          | .ok (some _) s => parseEntryFields fuel s).st.db = s.db := by
        intro s1' h1
        have h2 := getToken_db [.lit ','] s1'
        cases hr2 : getToken [.lit ','] s1' with
        | fail a s' => rw [hr2] at h2; exact h2.trans h1
        | ok t s2 =>
          rw [hr2] at h2
          cases t with
          | none => exact h2.trans h1
          | some t => exact (ih s2).trans (h2.trans h1)
      apply key
      split
      · split
        · exact h
        · exact h
      · exact h

theorem parseEntryBody_db (paren : Bool) (s : St) : (parseEntryBody paren s).st.db = s.db := by
  unfold parseEntryBody
  have h := required_db [if paren then .keyParen else .keyBrace] "entry key" s
  cases hr : required [if paren then .keyParen else .keyBrace] "entry key" s with
  | fail a s' => rw [hr] at h; exact h
  | ok t s1 =>
    rw [hr] at h
    obtain ⟨_, key⟩ := t
    simp only
    have h2 := parseEntryFields_db (s1.rest.length + 2) { s1 with curKey := some key }
    cases hr2 : parseEntryFields (s1.rest.length + 2) { s1 with curKey := some key } with
    | fail a s' => rw [hr2] at h2; exact h2.trans h
    | ok u s2 =>
      rw [hr2] at h2
      simp only
      split
      · exact h2.trans h
      · exact h2.trans h

theorem parseStringBody_db (s : St) : (parseStringBody s).st.db = s.db := by
  unfold parseStringBody
  have h := required_db [.name] (descOf [.name]) s
  cases hr : required [.name] (descOf [.name]) s with
  | fail a s' => rw [hr] at h; exact h
  | ok t s1 =>
    rw [hr] at h
    obtain ⟨_, name⟩ := t
    simp only
    have h2 := required_db [.lit '='] (descOf [.lit '=']) { s1 with curFieldName := some name }
    cases hr2 : required [.lit '='] (descOf [.lit '=']) { s1 with curFieldName := some name } with
    | fail a s' => rw [hr2] at h2; exact h2.trans h
    | ok t2 s2 =>
      rw [hr2] at h2
      simp only
      have h3 := parseValue_db s2
      cases hr3 : parseValue s2 with
      | fail a s' => rw [hr3] at h3; exact h3.trans (h2.trans h)
      | ok u s3 => rw [hr3] at h3; exact h3.trans (h2.trans h)

theorem afterBody_db (s : St) (body : Res Unit) (bodyEnd : Pat) :
    body.st.db = s.db →
    (match body with
      | .fail e s => (Res.fail e s : Res Unit)
      | .ok _ s =>
        match required [bodyEnd] (descOf [bodyEnd]) s with
        | .fail e s => .fail e s
        | .ok _ s => (.ok () s : Res Unit)).st.db = s.db := by
  intro hb
  cases body with
  | fail a s' => exact hb
  | ok u s1 =>
    simp only
    have h := required_db [bodyEnd] (descOf [bodyEnd]) s1
    cases hr : required [bodyEnd] (descOf [bodyEnd]) s1 with
    | fail a s' => rw [hr] at h; exact h.trans hb
    | ok t s2 => rw [hr] at h; exact h.trans hb

theorem finish_db (s : St) (ab : Res Unit) (mk : St → Cmd) :
    ab.st.db = s.db →
    (match ab with
      | .ok _ s => (Res.ok (mk s) s : Res Cmd)
      | .fail (.syn e) s =>
        match handleError s e with
        | .fail a s => .fail a s
        | .ok _ s => .ok (mk s) s
      | .fail a s => .fail a s).st.db = s.db := by
  intro h
  cases ab with
  | ok u s1 => exact h
  | fail a s1 =>
    cases a with
    | syn e =>
      simp only
      have hg := handleError_db s1 e
      cases hr : handleError s1 e with
      | fail a s' => rw [hr] at hg; exact hg.trans h
      | ok u s' => rw [hr] at hg; exact hg.trans h
    | skip => exact h
    | raised e => exact h

/-- `parse_command` reads; it never touches the bibliography data -/
theorem parseCommand_db (s : St) : (parseCommand s).st.db = s.db := by
  unfold parseCommand
  simp only
  have h : (required [.name] (descOf [.name])
      { s with curKey := none, curFields := [], curFieldName := none, curValue := [] }).st.db = s.db :=
    required_db [.name] (descOf [.name])
      { s with curKey := none, curFields := [], curFieldName := none, curValue := [] }
  cases hr : required [.name] (descOf [.name])
      { s with curKey := none, curFields := [], curFieldName := none, curValue := [] } with
  | fail a s' => rw [hr] at h; exact h
  | ok t s1 =>
    rw [hr] at h
    obtain ⟨_, command⟩ := t
    simp only
    have h2 := required_db [.lit '(', .lit '{'] (descOf [.lit '(', .lit '{']) s1
    cases hr2 : required [.lit '(', .lit '{'] (descOf [.lit '(', .lit '{']) s1 with
    | fail a s' => rw [hr2] at h2; exact h2.trans h
    | ok t2 s2 =>
      rw [hr2] at h2
      obtain ⟨open_, _⟩ := t2
      simp only
      have h3 : s2.db = s.db := h2.trans h
      split
      · exact h3
      · rw [← h3]
        apply finish_db
        apply afterBody_db
        split
        · exact parseStringBody_db s2
        · exact parseValue_db s2
        · exact parseEntryBody_db _ s2

/-- what processing one command may do to the database lists: append at most one item -/
def OneMore (s s' : St) : Prop :=
  (∃ l, s'.db.entries = s.db.entries ++ l ∧ l.length ≤ 1) ∧
  (∃ l, s'.db.preamble = s.db.preamble ++ l ∧ l.length ≤ 1)

theorem OneMore.of_db {s s' : St} (h : s'.db = s.db) : OneMore s s' :=
  ⟨⟨[], by simp [h], by simp⟩, ⟨[], by simp [h], by simp⟩⟩

theorem addEntry_one (s : St) (key : Str) (e : Entry) : OneMore s (addEntry s key e).st := by
  unfold addEntry
  split
  · exact OneMore.of_db rfl
  · split
    · exact OneMore.of_db (handleError_db _ _)
    · simp only [Res.st]
      refine ⟨⟨[{ e with key := canonicalKey s.db key }], ?_, by simp⟩, ⟨[], ?_, by simp⟩⟩
      · split <;> rfl
      · split <;> simp

theorem addPersons_db (role : Str) (ns : List Str) (e : Entry) (s : St) :
    (addPersons role ns e s).st.db = s.db := by
  induction ns generalizing e s with
  | nil => rfl
  | cons n ns ih =>
    unfold addPersons
    split
    · rfl
    · rename_i p tooMany _
      simp only
      have h : (if tooMany then handleError s ⟨.invalidName (strip n), none⟩ else Res.ok () s).st.db = s.db := by
        split
        · exact handleError_db _ _
        · rfl
      cases hr : (if tooMany then handleError s ⟨.invalidName (strip n), none⟩ else Res.ok () s) with
      | fail a s' => rw [hr] at h; exact h
      | ok u s1 => rw [hr] at h; exact (ih _ s1).trans h

theorem processFields_db (key : Str) (fs : List (Str × List Str)) (seen : List Str) (e : Entry) (s : St) :
    (processFields key fs seen e s).st.db = s.db := by
  induction fs generalizing seen e s with
  | nil => rfl
  | cons f fs ih =>
    obtain ⟨name, parts⟩ := f
    unfold processFields
    split
    · have h := handleError_db s ⟨.duplicateField key name, none⟩
      cases hr : handleError s ⟨.duplicateField key name, none⟩ with
      | fail a s' => rw [hr] at h; exact h
      | ok u s1 => rw [hr] at h; exact (ih _ _ s1).trans h
    · simp only
      split
      · have h := addPersons_db name (splitNameList (normalizeWs parts.flatten)) e s
        cases hr : addPersons name (splitNameList (normalizeWs parts.flatten)) e s with
        | fail a s' => rw [hr] at h; exact h
        | ok e' s1 => rw [hr] at h; exact (ih _ _ s1).trans h
      · exact ih _ _ s

theorem OneMore.of_db_left {s s0 s' : St} (h0 : s0.db = s.db) (h : OneMore s0 s') : OneMore s s' := by
  unfold OneMore at h ⊢
  rw [← h0]; exact h

theorem processEntry_one (type : Str) (key : Option Str) (fields : List (Str × List Str)) (s : St) :
    OneMore s (processEntry type key fields s).st := by
  unfold processEntry
  cases key with
  | some k =>
    simp only
    have h := processFields_db k fields []
      { key := k, type := lower type, origType := type, fields := [], persons := [] } s
    cases hr : processFields k fields []
      { key := k, type := lower type, origType := type, fields := [], persons := [] } s with
    | fail a s' => rw [hr] at h; exact OneMore.of_db h
    | ok e s1 => rw [hr] at h; exact OneMore.of_db_left h (addEntry_one s1 k e)
  | none =>
    simp only
    have h : (processFields ("unnamed-".toList ++ natToStr s.unnamed) fields []
      { key := "unnamed-".toList ++ natToStr s.unnamed, type := lower type, origType := type, fields := [], persons := [] }
      { s with unnamed := s.unnamed + 1 }).st.db = s.db :=
      processFields_db ("unnamed-".toList ++ natToStr s.unnamed) fields []
        { key := "unnamed-".toList ++ natToStr s.unnamed, type := lower type, origType := type, fields := [], persons := [] }
        { s with unnamed := s.unnamed + 1 }
    cases hr : processFields ("unnamed-".toList ++ natToStr s.unnamed) fields []
      { key := "unnamed-".toList ++ natToStr s.unnamed, type := lower type, origType := type, fields := [], persons := [] }
      { s with unnamed := s.unnamed + 1 } with
    | fail a s' => rw [hr] at h; exact OneMore.of_db h
    | ok e s1 => rw [hr] at h; exact OneMore.of_db_left h (addEntry_one s1 _ e)

theorem processCmd_one (c : Cmd) (s : St) : OneMore s (processCmd c s).st := by
  unfold processCmd
  split
  · exact OneMore.of_db rfl
  · rename_i v
    exact ⟨⟨[], by simp [Res.st], by simp⟩, ⟨[normalizeWs v.flatten], by simp [Res.st], by simp⟩⟩
  · exact processEntry_one _ _ _ s

/-- one round of the command loop: `inl` = the loop stops with this result, `inr` = it goes on
from this state -/
def loopStep (s : St) : (St × Option Err) ⊕ St :=
  match skipToChar (· = '@') s.rest with
  | none => .inl (s, none)
  | some (chunk, rest) =>
    let s := { s with rest := rest, ln := s.ln + countNl chunk }
    match parseCommand s with
    | .ok c s =>
      match processCmd c s with
      | .ok _ s => .inr s
      | .fail (.raised e) s => .inl (s, some e)
      | .fail (.syn e) s => .inl (s, some e)
      | .fail .skip s => .inr s
    | .fail (.syn e) s =>
      match handleError s e with
      | .ok _ s => .inr s
      | .fail (.raised e) s => .inl (s, some e)
      | .fail _ s => .inl (s, some e)
    | .fail .skip s => .inr s
    | .fail (.raised e) s => .inl (s, some e)

theorem parseLoop_succ (fuel : Nat) (s : St) :
    parseLoop (fuel + 1) s =
      match loopStep s with
      | .inl r => r
      | .inr s' => parseLoop fuel s' := by
  rw [parseLoop.eq_def]
  simp only [loopStep]
  cases h1 : skipToChar (· = '@') s.rest with
  | none => rfl
  | some p =>
    obtain ⟨chunk, rest⟩ := p
    simp only
    cases h2 : parseCommand { s with rest := rest, ln := s.ln + countNl chunk } with
    | ok c s2 =>
      simp only
      cases h3 : processCmd c s2 with
      | ok u s3 => rfl
      | fail a s3 => cases a <;> rfl
    | fail a s2 =>
      cases a with
      | syn e =>
        simp only
        cases h3 : handleError s2 e with
        | ok u s3 => rfl
        | fail a s3 => cases a <;> rfl
      | skip => rfl
      | raised e => rfl

theorem loopStep_one (s : St) :
    match loopStep s with
    | .inl r => OneMore s r.1
    | .inr s' => OneMore s s' := by
  unfold loopStep
  cases h1 : skipToChar (· = '@') s.rest with
  | none => exact OneMore.of_db rfl
  | some p =>
    obtain ⟨chunk, rest⟩ := p
    simp only
    have h := parseCommand_db { s with rest := rest, ln := s.ln + countNl chunk }
    have h' : ({ s with rest := rest, ln := s.ln + countNl chunk } : St).db = s.db := rfl
    cases hr : parseCommand { s with rest := rest, ln := s.ln + countNl chunk } with
    | ok c s2 =>
      rw [hr] at h
      simp only
      have h2 := processCmd_one c s2
      have h20 : s2.db = s.db := h.trans h'
      cases hr2 : processCmd c s2 with
      | ok u s3 => rw [hr2] at h2; exact OneMore.of_db_left h20 h2
      | fail a s3 =>
        rw [hr2] at h2
        cases a <;> exact OneMore.of_db_left h20 h2
    | fail a s2 =>
      rw [hr] at h
      have h20 : s2.db = s.db := h.trans h'
      cases a with
      | syn e =>
        simp only
        have h2 := handleError_db s2 e
        cases hr2 : handleError s2 e with
        | ok u s3 => rw [hr2] at h2; exact OneMore.of_db (h2.trans h20)
        | fail a s3 =>
          rw [hr2] at h2
          cases a <;> exact OneMore.of_db (h2.trans h20)
      | skip => exact OneMore.of_db h20
      | raised e => exact OneMore.of_db h20

/-- one more round of the command loop appends at most one entry and one preamble item -/
theorem parseLoop_step (k : Nat) (s : St) :
    OneMore (parseLoop k s).1 (parseLoop (k + 1) s).1 := by
  induction k generalizing s with
  | zero =>
    rw [parseLoop_succ]
    have h := loopStep_one s
    cases hl : loopStep s with
    | inl r => rw [hl] at h; exact h
    | inr s' => rw [hl] at h; exact h
  | succ k ih =>
    rw [parseLoop_succ (k + 1) s, parseLoop_succ k s]
    cases hl : loopStep s with
    | inl r => exact OneMore.of_db rfl
    | inr s' => exact ih s'

end Pybtex.Bib
