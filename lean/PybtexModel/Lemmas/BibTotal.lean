/-
Helper lemmas for C10 (the `.bib` reader is total, its errors are located, strict and
non-strict reading agree, nothing read later alters what was read before).

Layout:
* §1  `countNl`, `skipToChar`, `Pat.matchAt`: what a scanner step consumes;
* §2  the invariant `Inv N s` (line counter in step with the text, every reported error
      acceptable) and the progress relation `Le s s'` (rest shrinks, lists only grow),
      `Good N s r` for a sub-parser result; one lemma per sub-parser;
* §3  `parseLoop`: fuel suffices, result acceptable;
* §4  strict / non-strict simulation `Sim`;
* §5  prefix stability along the command loop.
-/
import PybtexModel.Model.BibParse

namespace Pybtex.Bib

/-! ## §1 scanner steps -/

theorem countNl_nil : countNl [] = 0 := by simp [countNl]

theorem countNl_cr_lf (r : Str) : countNl ('\r' :: '\n' :: r) = 1 + countNl r := by
  simp [countNl]

theorem countNl_cons_ne_cr (c : Char) (r : Str) (h : c ≠ '\r') :
    countNl (c :: r) = (if c = '\n' then 1 else 0) + countNl r := by
  rw [countNl]
  · simp [h]
  · intro r' hc; injection hc with h1 _; exact h h1

theorem countNl_cr_cons (c : Char) (r : Str) (h : c ≠ '\n') :
    countNl ('\r' :: c :: r) = 1 + countNl (c :: r) := by
  rw [countNl]
  · simp
  · intro r' hc; injection hc with _ h2; injection h2 with h3 _; exact h h3

theorem countNl_cr_nil : countNl ['\r'] = 1 := by
  rw [countNl]
  · simp [countNl]
  · intro r' hc; injection hc with _ h2; cases h2

/-- a chunk without line-break characters does not change the count -/
theorem countNl_append_plain (v r : Str) (h : ∀ c ∈ v, c ≠ '\n' ∧ c ≠ '\r') :
    countNl (v ++ r) = countNl r := by
  induction v with
  | nil => rfl
  | cons c v ih =>
    have hc := h c (by simp)
    rw [List.cons_append, countNl_cons_ne_cr _ _ hc.2, if_neg hc.1, Nat.zero_add]
    exact ih (fun d hd => h d (List.mem_cons_of_mem _ hd))

theorem countNl_plain (v : Str) (h : ∀ c ∈ v, c ≠ '\n' ∧ c ≠ '\r') : countNl v = 0 := by
  have := countNl_append_plain v [] h
  simpa [countNl_nil] using this

/-- `update_lineno` is additive over a split that does not separate `\r` from `\n`. -/
theorem countNl_append (a b : Str) (h : a.getLast? ≠ some '\r' ∨ b.head? ≠ some '\n') :
    countNl (a ++ b) = countNl a + countNl b := by
  induction a using countNl.induct with
  | case1 => simp [countNl_nil]
  | case2 r ih =>
    have : r.getLast? ≠ some '\r' ∨ b.head? ≠ some '\n' := by
      rcases h with h | h
      · left
        cases r with
        | nil => simp
        | cons x r => simpa [List.getLast?_cons_cons] using h
      · exact Or.inr h
    simp only [List.cons_append, countNl_cr_lf, ih this]; omega
  | case3 c r hne ih =>
    by_cases hc : c = '\r'
    · subst hc
      cases r with
      | nil =>
        have hb : b.head? ≠ some '\n' := by
          rcases h with h | h
          · simp at h
          · exact h
        cases b with
        | nil => simp [countNl_nil]
        | cons d b =>
          have hd : d ≠ '\n' := by simpa using hb
          simp only [List.cons_append, List.nil_append, countNl_cr_cons _ _ hd, countNl_cr_nil]
      | cons x r =>
        have hx : x ≠ '\n' := fun hx => hne r (by rw [hx])
        have h' : (x :: r).getLast? ≠ some '\r' ∨ b.head? ≠ some '\n' := by
          rcases h with h | h
          · left; simpa [List.getLast?_cons_cons] using h
          · exact Or.inr h
        have := ih h'
        simp only [List.cons_append] at this ⊢
        rw [countNl_cr_cons _ _ hx, countNl_cr_cons _ _ hx, this]; omega
    · have h' : r.getLast? ≠ some '\r' ∨ b.head? ≠ some '\n' := by
        rcases h with h | h
        · cases r with
          | nil =>
            cases b with
            | nil => right; simp
            | cons d b => left; simp
          | cons x r => left; simpa [List.getLast?_cons_cons] using h
        · exact Or.inr h
      simp only [List.cons_append, countNl_cons_ne_cr _ _ hc, ih h']; omega

end Pybtex.Bib
